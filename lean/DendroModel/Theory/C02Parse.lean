import DendroModel.Model.C02
namespace DendroModel.C02
namespace Aux

/-! ### token-level reference writer on raw trees (commas between children) -/

def lab : Option Str → List Tok | none => [] | some s => [.word s]
def ln : Option Str → List Tok | none => [] | some s => [.colon, .word s]

mutual
def wr : RT → List Tok
  | .node l e cs => (match cs with | [] => [] | c :: cs' => [.lp] ++ wrL (c :: cs') ++ [.rp]) ++ lab l ++ ln e
def wrL : List RT → List Tok
  | [] => []
  | [c] => wr c
  | c :: d :: cs => wr c ++ [.comma] ++ wrL (d :: cs)
end

mutual
/-- every leaf writes at least one token (a tag or a length) -/
def LL : RT → Prop
  | .node l e cs => (match cs with | [] => (l.isSome = true ∨ e.isSome = true) | _ :: _ => True) ∧ LLL cs
def LLL : List RT → Prop
  | [] => True
  | c :: cs => LL c ∧ LLL cs
end

mutual
def need : RT → Nat
  | .node _ _ cs => 2 + needL cs
def needL : List RT → Nat
  | [] => 1
  | c :: cs => need c + 2 + needL cs
end

inductive Follow | rp | comma | semi
def Follow.tok : Follow → Tok | .rp => .rp | .comma => .comma | .semi => .semi
def Follow.after : Follow → List Tok → List Tok × Bool
  | .rp, rest => (.rp :: rest, false)
  | .comma, rest => (.comma :: rest, false)
  | .semi, rest => (rest, true)

theorem tail_spec (cs : List RT) (l e : Option Str) (d : Follow) (rest : List Tok) :
    parseTail cs none none (lab l ++ ln e ++ d.tok :: rest) = some (.node l e cs, d.after rest) := by
  cases l <;> cases e <;> cases d <;> simp [lab, ln, parseTail, Follow.tok, Follow.after]

/-- first token of a written tree whose leaves write something: `(`, a word or `:` — never `,` or `)` -/
theorem wr_head (t : RT) (h : LL t) (tl : List Tok) :
    (∃ r, wr t ++ tl = .lp :: r) ∨ (∃ w r, wr t ++ tl = .word w :: r) ∨ (∃ r, wr t ++ tl = .colon :: r) := by
  cases t with
  | node l e cs =>
    cases cs with
    | nil =>
      simp only [LL] at h
      cases l with
      | none =>
        cases e with
        | none => simp at h
        | some x => right; right; exact ⟨.word x :: tl, by simp [wr, lab, ln]⟩
      | some w => right; left; exact ⟨w, ln e ++ tl, by simp [wr, lab]⟩
    | cons c cs' => left; exact ⟨_, by simp [wr]; rfl⟩

/-- continuation used by parseChildren after a child has been parsed -/
def contChild (f : Nat) (acc : List RT) (count : Nat) : Option (RT × List Tok × Bool) → Option (List RT × List Tok)
  | none => none
  | some (_, _, true) => none
  | some (c, rest', false) => parseChildren f rest' (acc ++ [c]) true (count + 1)

theorem pc_lp (f : Nat) (r : List Tok) (acc : List RT) (cr : Bool) (cnt : Nat) :
    parseChildren (f + 1) (.lp :: r) acc cr cnt = contChild f acc cnt (parseNode f (.lp :: r)) := by
  rw [parseChildren]
  · cases parseNode f (.lp :: r) with
    | none => rfl
    | some x => obtain ⟨c, r', b⟩ := x; cases b <;> rfl
  all_goals (intro _ h; cases h)

theorem pc_word (f : Nat) (w : Str) (r : List Tok) (acc : List RT) (cr : Bool) (cnt : Nat) :
    parseChildren (f + 1) (.word w :: r) acc cr cnt = contChild f acc cnt (parseNode f (.word w :: r)) := by
  rw [parseChildren]
  · cases parseNode f (.word w :: r) with
    | none => rfl
    | some x => obtain ⟨c, r', b⟩ := x; cases b <;> rfl
  all_goals (intro _ h; cases h)

theorem pc_colon (f : Nat) (r : List Tok) (acc : List RT) (cr : Bool) (cnt : Nat) :
    parseChildren (f + 1) (.colon :: r) acc cr cnt = contChild f acc cnt (parseNode f (.colon :: r)) := by
  rw [parseChildren]
  · cases parseNode f (.colon :: r) with
    | none => rfl
    | some x => obtain ⟨c, r', b⟩ := x; cases b <;> rfl
  all_goals (intro _ h; cases h)

theorem pc_child (f : Nat) (t : RT) (h : LL t) (tl : List Tok) (acc : List RT) (cr : Bool) (cnt : Nat) :
    parseChildren (f + 1) (wr t ++ tl) acc cr cnt = contChild f acc cnt (parseNode f (wr t ++ tl)) := by
  rcases wr_head t h tl with ⟨r, hr⟩ | ⟨w, r, hr⟩ | ⟨r, hr⟩
  · rw [hr]; exact pc_lp f r acc cr cnt
  · rw [hr]; exact pc_word f w r acc cr cnt
  · rw [hr]; exact pc_colon f r acc cr cnt

theorem pc_comma_child (f : Nat) (t : RT) (h : LL t) (tl : List Tok) (acc : List RT) (cnt : Nat) :
    parseChildren (f + 1) (.comma :: (wr t ++ tl)) acc true cnt = parseChildren f (wr t ++ tl) acc true (cnt + 1) := by
  rcases wr_head t h tl with ⟨r, hr⟩ | ⟨w, r, hr⟩ | ⟨r, hr⟩
  · rw [hr]; simp [parseChildren, eatCommas]
  · rw [hr]; simp [parseChildren, eatCommas]
  · rw [hr]; simp [parseChildren, eatCommas]

theorem wrL_cons_head (c d : RT) (ds : List RT) (tl : List Tok) :
    wrL (c :: d :: ds) ++ tl = wr c ++ (.comma :: (wrL (d :: ds) ++ tl)) := by
  simp [wrL]

theorem wrL_head (d : RT) (ds : List RT) (tl : List Tok) : ∃ tl', wrL (d :: ds) ++ tl = wr d ++ tl' := by
  cases ds with
  | nil => exact ⟨tl, by simp [wrL]⟩
  | cons e es => exact ⟨_, wrL_cons_head d e es tl⟩

mutual
theorem rt : ∀ (t : RT), LL t → ∀ f, need t ≤ f → ∀ (d : Follow) (rest : List Tok),
    parseNode f (wr t ++ d.tok :: rest) = some (t, d.after rest)
  | .node l e [], h, f, hf, d, rest => by
      simp only [LL] at h
      obtain ⟨f', rfl⟩ : ∃ f', f = f' + 1 := ⟨f - 1, by simp [need, needL] at hf; omega⟩
      have hw : wr (.node l e []) ++ d.tok :: rest = lab l ++ ln e ++ d.tok :: rest := by simp [wr]
      rw [hw]
      have hts := tail_spec [] l e d rest
      cases l with
      | none =>
        cases e with
        | none => simp at h
        | some x =>
          simp only [lab, ln, List.nil_append, List.cons_append] at hts ⊢
          rw [parseNode]
          · exact hts
          · intro _ h; cases h
      | some w =>
        simp only [lab, List.cons_append, List.nil_append] at hts ⊢
        rw [parseNode]
        · exact hts
        · intro _ h; cases h
  | .node l e (c :: cs), h, f, hf, d, rest => by
      simp only [LL] at h
      obtain ⟨f', rfl⟩ : ∃ f', f = f' + 1 := ⟨f - 1, by simp [need] at hf; omega⟩
      have hw : wr (.node l e (c :: cs)) ++ d.tok :: rest =
          .lp :: (wrL (c :: cs) ++ .rp :: (lab l ++ ln e ++ d.tok :: rest)) := by
        simp [wr]
      rw [hw, parseNode]
      have hL := rtL (c :: cs) (by simp) h.2 f' (by simp [need] at hf; omega) [] false 0
        (lab l ++ ln e ++ d.tok :: rest)
      rw [hL]
      simp only [List.nil_append]
      exact tail_spec (c :: cs) l e d rest
theorem rtL : ∀ (cs : List RT), cs ≠ [] → LLL cs → ∀ f, needL cs ≤ f →
    ∀ (acc : List RT) (created : Bool) (count : Nat) (rest : List Tok),
    parseChildren f (wrL cs ++ .rp :: rest) acc created count = some (acc ++ cs, rest)
  | [], hne, _, _, _, _, _, _, _ => absurd rfl hne
  | [c], _, h, f, hf, acc, created, count, rest => by
      simp only [LLL] at h
      simp only [needL] at hf
      obtain ⟨f', rfl⟩ : ∃ f', f = f' + 1 := ⟨f - 1, by omega⟩
      obtain ⟨f'', rfl⟩ : ∃ f'', f' = f'' + 1 := ⟨f' - 1, by omega⟩
      have hw : wrL [c] ++ .rp :: rest = wr c ++ .rp :: rest := by simp [wrL]
      rw [hw, pc_child (f'' + 1) c h.1]
      have := rt c h.1 (f'' + 1) (by omega) .rp rest
      simp only [Follow.tok, Follow.after] at this
      rw [this]
      simp [contChild, parseChildren]
  | c :: d :: ds, _, h, f, hf, acc, created, count, rest => by
      simp only [LLL] at h
      simp only [needL] at hf
      obtain ⟨f', rfl⟩ : ∃ f', f = f' + 1 := ⟨f - 1, by omega⟩
      obtain ⟨f'', rfl⟩ : ∃ f'', f' = f'' + 1 := ⟨f' - 1, by omega⟩
      rw [wrL_cons_head, pc_child (f'' + 1) c h.1]
      have := rt c h.1 (f'' + 1) (by omega) .comma (wrL (d :: ds) ++ .rp :: rest)
      simp only [Follow.tok, Follow.after] at this
      rw [this]
      simp only [contChild]
      rcases wrL_head d ds (.rp :: rest) with ⟨tl', htl⟩
      rw [htl, pc_comma_child f'' d h.2.1, ← htl]
      have := rtL (d :: ds) (by simp) ⟨h.2.1, h.2.2⟩ f'' (by simp [needL]; omega) (acc ++ [c]) true (count + 1 + 1) rest
      rw [this]; simp
end

end Aux
end DendroModel.C02
namespace DendroModel.C02
namespace Aux

def viewTok : WTok → List Tok
  | .lp => [.lp]
  | .rp => [.rp]
  | .comma => [.comma]
  | .tag s => [.word s]
  | .len s => [.colon, .word s]

/-- the token kinds a reader sees for what the writer emits -/
def view : List WTok → List Tok
  | [] => []
  | t :: ts => viewTok t ++ view ts

theorem view_append (a b : List WTok) : view (a ++ b) = view a ++ view b := by
  induction a with
  | nil => rfl
  | cons x xs ih => simp [view, ih]

def tagOf (o : WOpts) (leaf : Bool) (tx lb : Option Str) : Option Str :=
  if (rawTag o leaf tx lb).isEmpty then none else some (rawTag o leaf tx lb)

def lenOf (o : WOpts) : Option Str → Option Str
  | some l => if o.sel then none else some l
  | none => none

mutual
/-- what a Newick statement can carry of a tree under writer options `o`: one tag and one length per node -/
def toRT (o : WOpts) : NT → RT
  | .node tx lb ln cs => .node (tagOf o cs.isEmpty tx lb) (lenOf o ln) (toRTL o cs)
def toRTL (o : WOpts) : List NT → List RT
  | [] => []
  | c :: cs => toRT o c :: toRTL o cs
end

theorem view_body (o : WOpts) (leaf : Bool) (tx lb ln : Option Str) :
    view (body o leaf tx lb ln) = lab (tagOf o leaf tx lb) ++ Aux.ln (lenOf o ln) := by
  unfold body tagOf
  cases h : (rawTag o leaf tx lb).isEmpty <;> cases ln with
  | none => simp [view, viewTok, lab, Aux.ln, lenOf]
  | some l => cases hs : o.sel <;> simp [view, viewTok, lab, Aux.ln, lenOf, hs]

def commaWrL (l : List RT) : List Tok := match l with | [] => [] | _ :: _ => .comma :: wrL l

mutual
theorem view_wrNode (o : WOpts) : ∀ (t : NT) (first : Bool),
    view (wrNode o first t) = (if first then [] else [.comma]) ++ wr (toRT o t)
  | .node tx lb ln [], first => by
    cases first <;> simp [wrNode, view_append, view_body, toRT, toRTL, wr, view, viewTok]
  | .node tx lb ln (c :: cs), first => by
    have h := view_wrKids_true o (c :: cs)
    cases first <;>
      simp [wrNode, view_append, view_body, toRT, toRTL, wr, view, viewTok, h]
theorem view_wrKids_true (o : WOpts) : ∀ (cs : List NT),
    view (wrKids o true cs) = wrL (toRTL o cs)
  | [] => by simp [wrKids, view, toRTL, wrL]
  | c :: cs => by
    have h1 := view_wrNode o c true
    have h2 := view_wrKids_false o cs
    cases cs with
    | nil => simp [wrKids, view_append, h1, toRTL, wrL, view]
    | cons d ds => simp [wrKids, view_append, h1, toRTL, wrL, commaWrL] at h2 ⊢; exact h2
theorem view_wrKids_false (o : WOpts) : ∀ (cs : List NT),
    view (wrKids o false cs) = commaWrL (toRTL o cs)
  | [] => by simp [wrKids, view, toRTL, commaWrL]
  | c :: cs => by
    have h1 := view_wrNode o c false
    have h2 := view_wrKids_false o cs
    cases cs with
    | nil => simp [wrKids, view_append, h1, toRTL, wrL, view, commaWrL]
    | cons d ds => simp [wrKids, view_append, h1, toRTL, wrL, commaWrL] at h2 ⊢; exact h2
end

end Aux
end DendroModel.C02
namespace DendroModel.C02
namespace Aux

mutual
theorem need_le : ∀ (t : RT), LL t → need t ≤ 4 * (wr t).length
  | .node l e [], h => by
    simp only [LL] at h
    have : 1 ≤ (lab l ++ ln e).length := by
      cases l <;> cases e <;> simp [lab, ln] at h ⊢
    simp [need, needL, wr] at this ⊢
    omega
  | .node l e (c :: cs), h => by
    simp only [LL] at h
    have := needL_le (c :: cs) h.2
    simp [need, wr] at this ⊢
    omega
theorem needL_le : ∀ (cs : List RT), LLL cs → needL cs ≤ 4 * (wrL cs).length + 3
  | [], _ => by simp [needL]
  | [c], h => by
    simp only [LLL] at h
    have := need_le c h.1
    simp [needL, wrL] at this ⊢
    omega
  | c :: d :: ds, h => by
    simp only [LLL] at h
    have h1 := need_le c h.1
    have h2 := needL_le (d :: ds) ⟨h.2.1, h.2.2⟩
    simp only [needL] at h2 ⊢
    simp [wrL] at h2 ⊢
    omega
end

end Aux

end DendroModel.C02
