import DendroModel.Theory.C08Prune
import DendroModel.Theory.C08Extract
/-! C08 — by-label entry points: `get_taxa` collects exactly the members whose label is named (under the namespace's case
rule), so the `*_with_labels` variants are the by-taxon variants on that set and all yield the subtree induced by the leaves
whose labels survive. -/
namespace DendroModel.C08.Aux
open DendroModel

theorem mem_addNew (l : List Nat) : ∀ (acc : List Nat) (x : Nat), x ∈ addNew acc l ↔ x ∈ acc ∨ x ∈ l := by
  induction l with
  | nil => intro acc x; simp [addNew]
  | cons t ts ih =>
    intro acc x
    have ih' := ih
    simp only [addNew, List.foldl_cons] at ih' ⊢
    by_cases hc : acc.contains t = true
    · simp only [hc, if_true]
      rw [ih' acc x]
      have : t ∈ acc := by simpa using hc
      constructor
      · rintro (h | h); exact Or.inl h; exact Or.inr (List.mem_cons_of_mem _ h)
      · rintro (h | h)
        · exact Or.inl h
        · rcases List.mem_cons.mp h with rfl | h
          · exact Or.inl this
          · exact Or.inr h
    · simp only [hc, Bool.false_eq_true, if_false]
      rw [ih' (acc ++ [t]) x]
      simp only [List.mem_append, List.mem_singleton, List.mem_cons, List.not_mem_nil, or_false, or_assoc]

theorem mem_getTaxa_fold (cs : Bool) (ns : Ns) : ∀ (labels : List String) (acc : List Nat) (x : Nat),
    x ∈ labels.foldl (fun a g => addNew a (lookupLabel cs ns g)) acc ↔ x ∈ acc ∨ ∃ g ∈ labels, x ∈ lookupLabel cs ns g := by
  intro labels
  induction labels with
  | nil => intro acc x; simp
  | cons g gs ih =>
    intro acc x
    simp only [List.foldl_cons]
    rw [ih, mem_addNew]
    simp only [List.mem_cons, exists_eq_or_imp, or_assoc]

theorem mem_lookupLabel (cs : Bool) (ns : Ns) (g : String) (k : Nat) :
    k ∈ lookupLabel cs ns g ↔ ∃ m ∈ ns, m.1 = k ∧ labelMatch cs m.2 g = true := by
  simp only [lookupLabel, List.mem_map, List.mem_filter]
  constructor
  · rintro ⟨m, ⟨hm, hl⟩, rfl⟩; exact ⟨m, hm, rfl, hl⟩
  · rintro ⟨m, hm, rfl, hl⟩; exact ⟨m, ⟨hm, hl⟩, rfl⟩

/-- `get_taxa(labels)` collects exactly the members of the namespace whose label one of the given labels names -/
theorem mem_getTaxa (cs : Bool) (ns : Ns) (labels : List String) (k : Nat) :
    k ∈ getTaxa cs ns labels ↔ ∃ m ∈ ns, m.1 = k ∧ ∃ g ∈ labels, labelMatch cs m.2 g = true := by
  unfold getTaxa
  rw [mem_getTaxa_fold]
  simp only [List.not_mem_nil, false_or, mem_lookupLabel]
  constructor
  · rintro ⟨g, hg, m, hm, e, hl⟩; exact ⟨m, hm, e, g, hg, hl⟩
  · rintro ⟨m, hm, e, g, hg, hl⟩; exact ⟨g, hg, m, hm, e, hl⟩

theorem getTaxa_contains (cs : Bool) (ns : Ns) (labels : List String) (k : Nat) :
    (getTaxa cs ns labels).contains k = named cs ns labels k := by
  have h := mem_getTaxa cs ns labels k
  by_cases hn : named cs ns labels k = true
  · rw [hn]
    simp only [named, List.any_eq_true, Bool.and_eq_true, beq_iff_eq] at hn
    obtain ⟨m, hm, e, g, hg, hl⟩ := hn
    simpa using h.mpr ⟨m, hm, e, g, hg, hl⟩
  · have hn' : named cs ns labels k = false := by simpa using hn
    rw [hn']
    have : k ∉ getTaxa cs ns labels := by
      intro hk
      obtain ⟨m, hm, e, g, hg, hl⟩ := h.mp hk
      apply hn
      simp only [named, List.any_eq_true, Bool.and_eq_true, beq_iff_eq]
      exact ⟨m, hm, e, g, hg, hl⟩
    simpa using this

/-- no member is collected twice -/
theorem addNew_nodup (l : List Nat) : ∀ acc : List Nat, acc.Nodup → (addNew acc l).Nodup := by
  induction l with
  | nil => intro acc h; simpa [addNew] using h
  | cons t ts ih =>
    intro acc h
    have ih' := ih
    simp only [addNew, List.foldl_cons] at ih' ⊢
    by_cases hc : acc.contains t = true
    · simp only [hc, if_true]; exact ih' acc h
    · simp only [hc, Bool.false_eq_true, if_false]
      apply ih'
      have : t ∉ acc := by simpa using hc
      exact List.nodup_append.mpr ⟨h, by simp, by intro a ha b hb; simp at hb; subst hb; intro e; exact this (e ▸ ha)⟩

theorem getTaxa_nodup (cs : Bool) (ns : Ns) (labels : List String) : (getTaxa cs ns labels).Nodup := by
  unfold getTaxa
  suffices ∀ acc : List Nat, acc.Nodup → (labels.foldl (fun a g => addNew a (lookupLabel cs ns g)) acc).Nodup from this [] List.nodup_nil
  induction labels with
  | nil => intro acc h; simpa using h
  | cons g gs ih => intro acc h; simp only [List.foldl_cons]; exact ih _ (addNew_nodup _ acc h)

/-- with distinct accession bits, "named" is a statement about the label of THE member with that bit -/
theorem named_of_label (cs : Bool) (ns : Ns) (labels : List String) (k : Nat) (lab : String)
    (hnd : (ns.map (·.1)).Nodup) (hm : (k, lab) ∈ ns) :
    named cs ns labels k = labels.any (fun g => labelMatch cs lab g) := by
  have huniq : ∀ m ∈ ns, m.1 = k → m.2 = lab := by
    intro m hmm e
    induction ns with
    | nil => cases hmm
    | cons a as ih =>
      simp only [List.map_cons, List.nodup_cons, List.mem_map, not_exists, not_and] at hnd
      rcases List.mem_cons.mp hmm with rfl | hmm' <;> rcases List.mem_cons.mp hm with hh | hm'
      · rw [← hh]
      · exact absurd e.symm (by intro e'; exact hnd.1 (k, lab) hm' (by simp [e']))
      · subst hh; exact absurd e (by intro e'; exact hnd.1 m hmm' (by simp [e']))
      · exact ih hnd.2 hm' hmm'
  by_cases hn : named cs ns labels k = true
  · rw [hn]
    simp only [named, List.any_eq_true, Bool.and_eq_true, beq_iff_eq] at hn
    obtain ⟨m, hmm, e, g, hg, hl⟩ := hn
    rw [huniq m hmm e] at hl
    symm; simp only [List.any_eq_true]; exact ⟨g, hg, hl⟩
  · have hn' : named cs ns labels k = false := by simpa using hn
    rw [hn']
    symm
    by_cases ha : labels.any (fun g => labelMatch cs lab g) = true
    · exfalso; apply hn
      simp only [List.any_eq_true] at ha
      obtain ⟨g, hg, hl⟩ := ha
      simp only [named, List.any_eq_true, Bool.and_eq_true, beq_iff_eq]
      exact ⟨(k, lab), hm, rfl, g, hg, hl⟩
    · simpa using ha

end DendroModel.C08.Aux
