import DendroModel.Model.C08Upd
import DendroModel.Theory.C08Spec
/-! C08 — re-encoding after pruning: on a rooted tree it leaves the induced subtree alone and lists exactly its clades. -/
namespace DendroModel.C08.Aux
open DendroModel

theorem encodeTree_rooted_fix (keep : Acc) (sup : Bool) (t r : T) (hr : restrict keep sup t = some r) :
    C01.encodeTree (some true) sup true r = r := by
  cases sup with
  | false => simp [C01.encodeTree]
  | true =>
    have := sup_of_noUnary r (sup_no_unary keep t r hr)
    simp [C01.encodeTree, this]

theorem reencode_rooted (keep : Acc) (sup : Bool) (t r : T) (hr : restrict keep sup t = some r) :
    reencode (some true) sup r = (r, r.masksPost.map (fun (m : Nat) => (m, (m : Int)))) := by
  have h := encodeTree_rooted_fix keep sup t r hr
  simp only [reencode, C01.encode, h, C01.splitOf]
  simp

/-! ### re-encoding a tree that is not rooted: basal collapse, then suppression; what it does to the clades -/
mutual
theorem tsup_mask' : ∀ t : T, (T.sup t).mask = t.mask
  | .node i x l s [] => by simp [T.sup, T.supL]
  | .node i x l s (c :: cs) => by
      have hl := tsupL_mask' (c :: cs)
      simp only [T.sup, mask_node_cons]
      rw [← hl]
      generalize hks : T.supL (c :: cs) = ks
      match ks, hks with
      | [], h => simp [T.supL] at h
      | [k], _ => simp [mask_withLen, T.maskL]
      | k1 :: k2 :: r, _ => simp [T.mask]
theorem tsupL_mask' : ∀ cs : List T, T.maskL (T.supL cs) = T.maskL cs
  | [] => rfl
  | c :: cs => by simp [T.supL, T.maskL, tsup_mask' c, tsupL_mask' cs]
end

mutual
theorem tsup_masks : ∀ (t : T) (x : Nat), x ∈ (T.sup t).masksPost ↔ x ∈ t.masksPost
  | .node i x l s [], y => by simp [T.sup, T.supL]
  | .node i x l s (c :: cs), y => by
      have hl := tsupL_masks (c :: cs) y
      have hm := tsupL_mask' (c :: cs)
      have hroot := tsup_mask' (.node i x l s (c :: cs))
      simp only [T.sup] at hroot ⊢
      generalize hks : T.supL (c :: cs) = ks at hl hm hroot
      match ks, hks with
      | [], h => simp [T.supL] at h
      | [k], _ =>
        simp only [masksPost_withLen, T.masksPost, List.mem_append, List.mem_singleton, mask_node_cons]
        have hk1 : T.masksPostL [k] = k.masksPost := by simp [T.masksPostL]
        have hk2 : T.maskL [k] = k.mask := by simp [T.maskL]
        rw [hk1] at hl
        rw [hk2] at hm
        rw [← hl]
        constructor
        · intro h; exact Or.inl h
        · rintro (h | h)
          · exact h
          · rw [h, ← hm]; exact mask_mem_masksPost k
      | k1 :: k2 :: r, _ =>
        simp only [T.masksPost, List.mem_append, List.mem_singleton, hl]
        simp only [mask_node_cons] at hroot ⊢
        rw [hm]
theorem tsupL_masks : ∀ (cs : List T) (x : Nat), x ∈ T.masksPostL (T.supL cs) ↔ x ∈ T.masksPostL cs
  | [], _ => Iff.rfl
  | c :: cs, y => by simp only [T.supL, T.masksPostL, List.mem_append, tsup_masks c y, tsupL_masks cs y]
end

theorem supIf_masks (sup : Bool) (t : T) (x : Nat) : x ∈ (supIf sup t).masksPost ↔ x ∈ t.masksPost := by
  cases sup <;> simp [supIf, tsup_masks]

theorem supIf_mask (sup : Bool) (t : T) : (supIf sup t).mask = t.mask := by
  cases sup <;> simp [supIf, tsup_mask']

theorem len_node' (i x l s) (cs : List T) : (T.node i x l s cs).len = l := rfl

theorem collapse_of_length_ne (t : T) (h : t.cs.length ≠ 2) : t.collapseBasal = t := by
  obtain ⟨i, x, l, s, cs⟩ := t
  match cs, h with
  | [], _ => rfl
  | [a], _ => rfl
  | [a, b], h => simp [T.cs] at h
  | a :: b :: c :: r, _ => rfl

/-- collapsing the basal bifurcation keeps the tree's leafset and loses at most the clade of the dissolved child:
    the leafset masks of the result are a sublist of the original ones -/
theorem collapse_masks (t : T) : t.collapseBasal.mask = t.mask ∧ t.collapseBasal.masksPost.Sublist t.masksPost := by
  obtain ⟨i, x, l, s, cs⟩ := t
  match cs with
  | [] => exact ⟨rfl, List.Sublist.refl _⟩
  | [a] => exact ⟨rfl, List.Sublist.refl _⟩
  | a :: b :: c :: r => exact ⟨rfl, List.Sublist.refl _⟩
  | [a, b] =>
    simp only [T.collapseBasal]
    by_cases hb : b.cs.length ≥ 2
    · simp only [hb, if_true]
      obtain ⟨j, y, m, u, ds⟩ := b
      simp only [T.cs, len_node'] at hb ⊢
      generalize tryAdd a.len m = L
      match ds, hb with
      | d1 :: d2 :: dr, _ =>
        refine ⟨?_, ?_⟩
        · simp [T.mask, T.maskL, mask_withLen]
        · simp only [T.masksPost, T.masksPostL, masksPost_withLen, mask_node_cons, List.append_nil, List.append_assoc]
          have e : T.maskL (a.withLen L :: d1 :: d2 :: dr) = T.maskL [a, T.node j y m u (d1 :: d2 :: dr)] := by
            simp [T.maskL, T.mask, mask_withLen]
          rw [e]
          apply List.Sublist.append (List.Sublist.refl _)
          apply List.Sublist.append (List.Sublist.refl _)
          apply List.Sublist.append (List.Sublist.refl _)
          apply List.Sublist.append (List.Sublist.refl _)
          exact List.Sublist.cons _ (List.Sublist.refl _)
    · simp only [hb, if_false]
      by_cases ha : a.cs.length ≥ 2
      · simp only [ha, if_true]
        obtain ⟨j, y, m, u, ds⟩ := a
        simp only [T.cs, len_node'] at ha ⊢
        generalize tryAdd b.len m = L
        match ds, ha with
        | d1 :: d2 :: dr, _ =>
          have hne : (d1 :: d2 :: dr) ++ [b.withLen L] = d1 :: (d2 :: dr ++ [b.withLen L]) := rfl
          refine ⟨?_, ?_⟩
          · rw [hne, mask_node_cons, mask_node_cons]
            have : ∀ (xs : List T) (z : T), T.maskL (xs ++ [z]) = T.maskL xs ||| z.mask := by
              intro xs z; induction xs with
              | nil => simp [T.maskL]
              | cons q qs ih => simp [T.maskL, ih, Nat.or_assoc]
            rw [← hne, this]
            simp [T.maskL, T.mask, mask_withLen]
          · have hpl : ∀ (xs : List T) (z : T), T.masksPostL (xs ++ [z]) = T.masksPostL xs ++ z.masksPost := by
              intro xs z; induction xs with
              | nil => simp [T.masksPostL]
              | cons q qs ih => simp [T.masksPostL, ih]
            have hml : ∀ (xs : List T) (z : T), T.maskL (xs ++ [z]) = T.maskL xs ||| z.mask := by
              intro xs z; induction xs with
              | nil => simp [T.maskL]
              | cons q qs ih => simp [T.maskL, ih, Nat.or_assoc]
            have hroot : (T.node i x l s ((d1 :: d2 :: dr) ++ [b.withLen L])).mask
                = (T.node i x l s [T.node j y m u (d1 :: d2 :: dr), b]).mask := by
              rw [hne, mask_node_cons, ← hne, hml]
              simp [T.mask, T.maskL, mask_withLen]
            simp only [T.masksPost, hroot, hpl, masksPost_withLen, T.masksPostL, List.append_nil, List.append_assoc]
            apply List.Sublist.append (List.Sublist.refl _)
            apply List.Sublist.append (List.Sublist.refl _)
            apply List.Sublist.append (List.Sublist.refl _)
            exact List.Sublist.cons _ (List.Sublist.refl _)
      · simp only [ha, if_false]
        constructor
        · trivial
        · exact List.Sublist.refl _

theorem reencode_not_rooted (rooted : Option Bool) (hr : rooted ≠ some true) (sup : Bool) (r : T) :
    (reencode rooted sup r).1 = supIf sup r.collapseBasal ∧
    (reencode rooted sup r).2.map (·.1) = (supIf sup r.collapseBasal).masksPost := by
  have hb : (rooted != some true) = true := by
    cases rooted with
    | none => rfl
    | some b => cases b with
      | true => exact absurd rfl hr
      | false => rfl
  have ht : C01.encodeTree rooted sup true r = supIf sup r.collapseBasal := by
    unfold C01.encodeTree supIf
    by_cases h2 : r.cs.length = 2
    · simp [hb, h2]
    · have := collapse_of_length_ne r h2
      simp [hb, h2, this]
  refine ⟨ht, ?_⟩
  simp only [reencode, C01.encode, ht, List.map_map]
  exact (List.map_congr_left (fun m _ => rfl)).trans (List.map_id _)

end DendroModel.C08.Aux
