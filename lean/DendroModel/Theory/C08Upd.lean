import DendroModel.Model.C08Upd
import DendroModel.Theory.C08Spec
/-! C08 — re-encoding after pruning: on a rooted tree it leaves the induced subtree alone and lists exactly its clades. -/
namespace DendroModel.C08.Aux
open DendroModel

theorem encodeTree_rooted_fix (keep : Acc) (sup : Bool) (t r : T) (hr : restrict keep sup t = some r) :
    C01.encodeTree (some true) sup true r = r := by
  cases sup with
  | false => simp [C01.encodeTree]
  | true =>
    have := sup_of_noUnary r (sup_no_unary keep t r hr)
    simp [C01.encodeTree, this]

theorem reencode_rooted (keep : Acc) (sup : Bool) (t r : T) (hr : restrict keep sup t = some r) :
    reencode (some true) sup r = (r, r.masksPost.map (fun (m : Nat) => (m, (m : Int)))) := by
  have h := encodeTree_rooted_fix keep sup t r hr
  simp only [reencode, C01.encode, h, C01.splitOf]
  simp

end DendroModel.C08.Aux
