import DendroModel.Theory.C02Glue
namespace DendroModel.C02
open DendroModel.Tables

/-- the comments `_write_tree` puts in front of the statement -/
def comments (o : WOpts) (rooting : Nat) (weight : Option Str) : List Str :=
  (if rooting == 0 || o.srt then [] else if rooting == 2 then ["&R".toList] else ["&U".toList]) ++
  (match weight with
   | some w => if o.stw then ["&W ".toList ++ w] else []
   | none => [])

namespace Aux

theorem prefix_eq (o : WOpts) (rooting : Nat) (weight : Option Str) :
    rootingComment o rooting ++ weightComment o weight = pre (comments o rooting weight) := by
  have e1 : "[&R] ".toList = '[' :: ("&R".toList ++ [']', ' ']) := by decide
  have e2 : "[&U] ".toList = '[' :: ("&U".toList ++ [']', ' ']) := by decide
  have e3 : "[&W ".toList = '[' :: "&W ".toList := by decide
  have e4 : "] ".toList = [']', ' '] := by decide
  unfold rootingComment weightComment comments
  cases h1 : (rooting == 0 || o.srt) <;> cases h2 : (rooting == 2) <;> cases weight with
  | none => simp [pre, e1, e2]
  | some w => cases h3 : o.stw <;> simp [pre, e1, e2, e3, e4]

theorem slash_not_special : ('/' : Char) ∉ tokSpecial := by decide

theorem noBracket_of_len (w : Str) (h : ∀ c ∈ w, (lenChar c = true ∨ c = '/')) : NoBracket w := by
  intro x hx
  have hns : x ∈ tokSpecial → False := fun hm => by
    rcases h x hx with h' | h'
    · have := lenChar_not_special x hm; rw [h'] at this; cases this
    · subst h'; exact slash_not_special hm
  constructor
  · cases hh : isCE x with
    | false => rfl
    | true => exact absurd (by simp [isCE] at hh; simp [tokSpecial, hh]) hns
  · cases hh : isCB x with
    | false => rfl
    | true => exact absurd (by simp [isCB] at hh; simp [tokSpecial, hh]) hns

theorem nb_of_all (c : Str) (h : c.all (fun x => !isCE x && !isCB x) = true) : NoBracket c := by
  intro x hx
  have := List.all_eq_true.mp h x hx
  simpa using this

theorem noBracket_comments (o : WOpts) (rooting : Nat) (weight : Option Str) (hw : ∀ w, weight = some w → WeightOk w) :
    ∀ c ∈ comments o rooting weight, NoBracket c := by
  have a : NoBracket "&R".toList := nb_of_all _ (by decide)
  have b : NoBracket "&U".toList := nb_of_all _ (by decide)
  have c3 : NoBracket "&W ".toList := nb_of_all _ (by decide)
  intro c hc
  simp only [comments, List.mem_append] at hc
  rcases hc with hc | hc
  · split at hc
    · simp at hc
    · split at hc <;> simp at hc <;> subst hc <;> assumption
  · cases weight with
    | none => simp at hc
    | some w =>
      cases hst : o.stw with
      | false => simp [hst] at hc
      | true =>
        simp [hst] at hc
        subst hc
        intro x hx
        have e : "&W ".toList = ['&', 'W', ' '] := by decide
        have hx' : x ∈ "&W ".toList ∨ x ∈ w := by
          rw [e]; simp at hx ⊢
          rcases hx with h | h | h | h
          · exact Or.inl (Or.inl h)
          · exact Or.inl (Or.inr (Or.inl h))
          · exact Or.inl (Or.inr (Or.inr h))
          · exact Or.inr h
        rcases hx' with hx' | hx'
        · exact c3 x hx'
        · exact noBracket_of_len w (hw w rfl).2 x hx'

theorem tokenize_semi_nl (pu : Bool) (g : Nat) :
    tokenize pu (g + 2) [';', '\n'] = ⟨[⟨[';'], false, []⟩], true, false⟩ := by
  have h1 : isUncap ';' = false := by decide
  have h2 : isCap ';' = true := by decide
  have h3 : isUncap '\n' = true := by decide
  simp [tokenize, nextTok, next, skipWs, h1, h2, h3]

theorem xs_ne_nil (o : WOpts) (t : NT) (h : isBlank (toRT o t) = false) : xs (wrNode o true t) ≠ [] := by
  intro he
  have hv := view_wrNode o t true
  simp only [if_true, List.nil_append] at hv
  rw [view_xs, he] at hv
  rcases wr_head (toRT o t) h [] with ⟨r, hr⟩ | ⟨w, r, hr⟩ | ⟨r, hr⟩ <;> simp [← hv] at hr

/-- tokenizing the written statement: the token kinds are exactly what the writer's callbacks emitted, then `;`;
    the rooting / weight comments are attached to the first token and nothing else carries a comment -/
theorem statement_tokens' (o : WOpts) (pu : Bool) (hc : Consistent o.ps o.uu pu) (rooting : Nat) (weight : Option Str)
    (t : NT) (hok : OkT o t) (hll : isBlank (toRT o t) = false) (hw : ∀ w, weight = some w → WeightOk w) :
    ∃ first rest, tokenizeAll pu (writeTree o rooting weight t ++ ['\n']) = ⟨first :: rest, true, false⟩ ∧
      (first :: rest).map kind = view (wrNode o true t) ++ [.semi] ∧
      first.cm = comments o rooting weight ∧ ∀ x ∈ rest, x.cm = [] := by
  have hsep := (sep_node o t true [] hok trivial trivial).1
  rw [List.append_nil] at hsep
  cases hl : xs (wrNode o true t) with
  | nil => exact absurd hl (xs_ne_nil o t hll)
  | cons x r =>
    rw [hl] at hsep
    have hsemi : (';' : Char) ∈ tokCaptured := by decide
    obtain ⟨tx, q, hn, hk⟩ := next_first o pu hc x r hsep ';' hsemi ['\n']
    have hinp : writeTree o rooting weight t ++ ['\n'] =
        pre (comments o rooting weight) ++ (xrenderL o (x :: r) ++ ';' :: ['\n']) := by
      unfold writeTree
      rw [← prefix_eq, render_xs, hl]
      simp
    have hlen1 := len_pre (comments o rooting weight)
    have hlen2 := len_xrenderL o (x :: r) hsep
    have hne : xrenderL o (x :: r) ++ ';' :: ['\n'] ≠ [] := by simp
    -- fuel bookkeeping
    let L := (pre (comments o rooting weight) ++ (xrenderL o (x :: r) ++ ';' :: ['\n'])).length
    have hL : L = (pre (comments o rooting weight)).length + (xrenderL o (x :: r)).length + 2 := by
      simp [L]; omega
    obtain ⟨f0, hf0⟩ : ∃ f0, L + 1 = f0 + (comments o rooting weight).length + 1 :=
      ⟨L - (comments o rooting weight).length, by omega⟩
    obtain ⟨g, hg⟩ : ∃ g, L = (g + 2) + r.length := ⟨L - 2 - r.length, by simp at hlen2; omega⟩
    obtain ⟨ts, h1, h2, h3⟩ := tokenize_items o pu hc r (XSep_tail x r hsep) ';' hsemi ['\n'] (g + 2)
    have hfirst : nextTok pu (pre (comments o rooting weight) ++ (xrenderL o (x :: r) ++ ';' :: ['\n'])) =
        .tok tx q (comments o rooting weight) (xrenderL o r ++ ';' :: ['\n']) := by
      unfold nextTok
      show next pu (L + 1) _ [] = _
      rw [hf0, next_pre pu _ (noBracket_comments o rooting weight hw) f0 [] _ hne, hn]
      simp
    refine ⟨⟨tx, q, comments o rooting weight⟩, ts ++ [⟨[';'], false, []⟩], ?_, ?_, rfl, ?_⟩
    · unfold tokenizeAll
      rw [hinp]
      show tokenize pu (L + 1) _ = _
      rw [tokenize, hfirst]
      dsimp only
      rw [hg, h1, tokenize_semi_nl]
    · have hv := view_xs (wrNode o true t)
      rw [hl] at hv
      have hs : kind ⟨[';'], false, []⟩ = .semi := by simp [kind]
      rw [hv]
      simp only [List.map_cons, List.map_append, List.map_nil, hk, h2, hs, List.cons_append]
    · intro y hy
      simp at hy
      rcases hy with hy | rfl
      · exact h3 y hy
      · rfl

end Aux
end DendroModel.C02
