import DendroModel.Model.C08Heap
/-! C08 — frame theorem for extraction on the object store: every write of the loop goes to an object allocated by the loop. -/
namespace DendroModel.C08.Aux
open DendroModel

theorem setLen_length : ∀ (h : List Cell) (a : Nat) (l : Option Frac), (setLen h a l).length = h.length
  | [], _, _ => rfl
  | _ :: _, 0, _ => rfl
  | c :: cs, a + 1, l => by simp [setLen, setLen_length cs a l]

theorem setLen_get : ∀ (h : List Cell) (a : Nat) (l : Option Frac) (b : Nat),
    (setLen h a l)[b]? = if a = b then (h[b]?).map (fun c => { c with len := l }) else h[b]?
  | [], _, _, _ => by simp [setLen]
  | c :: cs, 0, l, 0 => by simp [setLen]
  | c :: cs, 0, l, b + 1 => by simp [setLen]
  | c :: cs, a + 1, l, 0 => by simp [setLen]
  | c :: cs, a + 1, l, b + 1 => by simp [setLen, setLen_get cs a l b]

theorem lookup_mem : ∀ (m : List (Nat × Nat)) (k v : Nat), m.lookup k = some v → (k, v) ∈ m
  | [], _, _, h => by simp [List.lookup] at h
  | (k', v') :: m, k, v, h => by
    simp only [List.lookup] at h
    by_cases e : k == k'
    · simp only [e] at h
      have : k = k' := by simpa using e
      simp_all
    · simp only [e] at h
      exact List.mem_cons_of_mem _ (lookup_mem m k v h)

/-- what holds of the store and the loop variables throughout: the first `base` cells are those of the initial store `h0`; `memo`
    values, `nd1` and `start_node` are addresses allocated by the loop; objects allocated by the loop have children allocated by the
    loop and carry a source reference; once something is in `memo`, `nd1` is not `None` -/
structure Inv (base : Nat) (h0 : List Cell) (heap : List Cell) (memo : List (Nat × Nat)) (last start : Option Nat) : Prop where
  len : base ≤ heap.length
  frame : ∀ a, a < base → heap[a]? = h0[a]?
  memoOk : ∀ p ∈ memo, base ≤ p.2 ∧ p.2 < heap.length
  lastOk : ∀ z, last = some z → base ≤ z ∧ z < heap.length
  startOk : ∀ z, start = some z → base ≤ z ∧ z < heap.length
  fresh : ∀ a c, base ≤ a → heap[a]? = some c → (∀ k ∈ c.kids, base ≤ k ∧ k < heap.length) ∧ c.src.isSome = true
  lastSome : memo ≠ [] → last.isSome = true

def InvSt (base : Nat) (h0 : List Cell) (st : HSt) : Prop :=
  Inv base h0 st.heap st.memo st.last st.start ∧ st.crashed = false

theorem inv_setLen {base h0 heap memo last start} (I : Inv base h0 heap memo last start) (z : Nat) (hz : base ≤ z) (v : Option Frac) :
    Inv base h0 (setLen heap z v) memo last start := by
  refine ⟨by rw [setLen_length]; exact I.len, ?_, ?_, ?_, ?_, ?_, I.lastSome⟩
  · intro a ha
    rw [setLen_get, if_neg (by omega)]
    exact I.frame a ha
  · intro p hp; rw [setLen_length]; exact I.memoOk p hp
  · intro y hy; rw [setLen_length]; exact I.lastOk y hy
  · intro y hy; rw [setLen_length]; exact I.startOk y hy
  · intro a c ha hc
    rw [setLen_length]
    rw [setLen_get] at hc
    by_cases e : z = a
    · rw [if_pos e] at hc
      cases hg : heap[a]? with
      | none => rw [hg] at hc; cases hc
      | some c' =>
        rw [hg] at hc
        simp only [Option.map_some, Option.some.injEq] at hc
        have := I.fresh a c' ha hg
        rw [← hc]
        exact this
    · rw [if_neg e] at hc
      exact I.fresh a c ha hc

theorem mergeWrite_spec {base h0} {st : HSt} (I : Inv base h0 st.heap st.memo st.last st.start) (hc : st.crashed = false)
    (plen : Option Frac) (k : Nat) (hk : base ≤ k) (hlast : st.last.isSome = true) :
    Inv base h0 (mergeWrite st plen k).heap st.memo st.last st.start ∧ (mergeWrite st plen k).crashed = false ∧
      (mergeWrite st plen k).memo = st.memo ∧ (mergeWrite st plen k).last = st.last ∧
      (mergeWrite st plen k).start = st.start ∧ (mergeWrite st plen k).heap.length = st.heap.length := by
  unfold mergeWrite
  cases plen with
  | some p => exact ⟨inv_setLen I k hk _, hc, rfl, rfl, rfl, setLen_length _ _ _⟩
  | none =>
    cases hz : st.last with
    | none => rw [hz] at hlast; cases hlast
    | some z =>
      have hzz := (I.lastOk z hz).1
      have := inv_setLen I z hzz (getLen st.heap k)
      rw [hz] at this
      exact ⟨this, hc, rfl, rfl, rfl, setLen_length _ _ _⟩

theorem kids_in_memo (memo : List (Nat × Nat)) (ks : List Nat) (k : Nat)
    (hk : k ∈ ks.filterMap (fun x => memo.lookup x)) : ∃ p ∈ memo, p.2 = k := by
  obtain ⟨x, _, hx⟩ := List.mem_filterMap.mp hk
  exact ⟨(x, k), lookup_mem memo x k hx, rfl⟩

theorem hStep_inv (acc : Acc) (fl fi sup : Bool) (rootId base : Nat) (h0 : List Cell) (st : HSt) (n : T)
    (I : InvSt base h0 st) : InvSt base h0 (hStep acc fl fi sup rootId st n) := by
  obtain ⟨I, hc⟩ := I
  unfold hStep
  by_cases hd : (st.done || st.crashed || st.seedDeleted) = true
  · rw [if_pos hd]; exact ⟨I, hc⟩
  rw [if_neg hd]
  simp only
  generalize hc0 : (st.heap[n.id]?).getD {} = c0
  by_cases hrej : ((if c0.kids.isEmpty then fl else fi) && !acc n.id c0.taxon) = true
  · rw [if_pos hrej]; exact ⟨I, hc⟩
  rw [if_neg hrej]
  generalize hkids : c0.kids.filterMap (fun k => st.memo.lookup k) = kids
  have hmem : ∀ k ∈ kids, base ≤ k ∧ k < st.heap.length := by
    intro k hk
    rw [← hkids] at hk
    obtain ⟨p, hp, e⟩ := kids_in_memo st.memo c0.kids k hk
    exact e ▸ I.memoOk p hp
  by_cases hempty : (kids.isEmpty && !c0.kids.isEmpty) = true
  · rw [if_pos hempty]
    by_cases hr : (n.id == rootId) = true
    · rw [if_pos hr]; exact ⟨I, hc⟩
    · rw [if_neg hr]; exact ⟨I, hc⟩
  rw [if_neg hempty]
  -- allocation of a fresh clone: used by every case that is not "exactly one child and suppress"
  have alloc : InvSt base h0
      (if (n.id == rootId) = true then
        { st with heap := st.heap ++ [{ taxon := c0.taxon, len := c0.len, label := c0.label, kids := kids, src := some n.id }],
                  memo := (n.id, st.heap.length) :: st.memo, last := some st.heap.length, start := some st.heap.length }
       else
        { st with heap := st.heap ++ [{ taxon := c0.taxon, len := c0.len, label := c0.label, kids := kids, src := some n.id }],
                  memo := (n.id, st.heap.length) :: st.memo, last := some st.heap.length }) := by
    have core : ∀ s', (∀ z, s' = some z → base ≤ z ∧ z < st.heap.length + 1) →
        Inv base h0 (st.heap ++ [{ taxon := c0.taxon, len := c0.len, label := c0.label, kids := kids, src := some n.id }])
          ((n.id, st.heap.length) :: st.memo) (some st.heap.length) s' := by
      intro s' hs'
      have hl := I.len
      refine ⟨by simp; omega, ?_, ?_, ?_, ?_, ?_, fun _ => rfl⟩
      · intro a ha
        rw [List.getElem?_append_left (by omega)]
        exact I.frame a ha
      · intro p hp
        simp only [List.length_append, List.length_cons, List.length_nil]
        rcases List.mem_cons.mp hp with rfl | hp
        · simp; omega
        · have := I.memoOk p hp; omega
      · intro z hz
        simp only [Option.some.injEq] at hz
        simp only [List.length_append, List.length_cons, List.length_nil]
        omega
      · intro z hz
        simp only [List.length_append, List.length_cons, List.length_nil]
        exact hs' z hz
      · intro a c ha hca
        simp only [List.length_append, List.length_cons, List.length_nil]
        by_cases hlt : a < st.heap.length
        · rw [List.getElem?_append_left hlt] at hca
          have := I.fresh a c ha hca
          exact ⟨fun k hk => by have := this.1 k hk; omega, this.2⟩
        · by_cases heq : a = st.heap.length
          · subst heq
            rw [List.getElem?_concat_length] at hca
            simp only [Option.some.injEq] at hca
            subst hca
            exact ⟨fun k hk => by have := hmem k hk; omega, rfl⟩
          · rw [List.getElem?_eq_none (by simp; omega)] at hca
            cases hca
    by_cases hr : (n.id == rootId) = true
    · rw [if_pos hr]
      exact ⟨core _ (fun z hz => by simp only [Option.some.injEq] at hz; have := I.len; omega), hc⟩
    · rw [if_neg hr]
      exact ⟨core _ (fun z hz => by have := I.startOk z hz; omega), hc⟩
  match kids, sup, hmem, hempty, alloc with
  | [], _, _, _, alloc => exact alloc
  | _ :: _ :: _, _, _, _, alloc => exact alloc
  | [k], false, _, _, alloc => exact alloc
  | [k], true, hmem, _, _ =>
    simp only
    have hk := hmem k (by simp)
    -- the state after the length write(s)
    have hne : st.memo ≠ [] := by
      intro hnil
      have : k ∈ c0.kids.filterMap (fun x => st.memo.lookup x) := by rw [hkids]; simp
      obtain ⟨p, hp, _⟩ := kids_in_memo st.memo c0.kids k this
      rw [hnil] at hp; cases hp
    have hlast := I.lastSome hne
    obtain ⟨J, jc, jm, jl, js, jlen⟩ := mergeWrite_spec I hc c0.len k hk.1 hlast
    generalize mergeWrite st c0.len k = s1 at J jc jm jl js jlen ⊢
    by_cases hr : (n.id == rootId) = true
    · rw [if_pos hr]
      refine ⟨⟨J.len, J.frame, by rw [jm]; exact J.memoOk, by rw [jl]; exact J.lastOk, ?_, J.fresh, by rw [jm, jl]; exact J.lastSome⟩, jc⟩
      intro z hz
      simp only [Option.some.injEq] at hz
      subst hz
      rw [jlen]; exact hk
    · rw [if_neg hr]
      refine ⟨⟨J.len, J.frame, ?_, by rw [jl]; exact J.lastOk, by rw [js]; exact J.startOk, J.fresh, ?_⟩, jc⟩
      · intro p hp
        rcases List.mem_cons.mp hp with rfl | hp
        · simp only; rw [jlen]; exact hk
        · rw [jm] at hp; exact J.memoOk p hp
      · intro _; rw [jl]; exact hlast

theorem foldl_inv (acc : Acc) (fl fi sup : Bool) (rootId base : Nat) (h0 : List Cell) :
    ∀ (ns : List T) (st : HSt), InvSt base h0 st → InvSt base h0 (ns.foldl (hStep acc fl fi sup rootId) st)
  | [], _, I => I
  | n :: ns, st, I => foldl_inv acc fl fi sup rootId base h0 ns _ (hStep_inv acc fl fi sup rootId base h0 st n I)

theorem extractHeap_inv (acc : Acc) (fl fi sup : Bool) (t : T) (h : List Cell) :
    InvSt h.length h (extractHeap acc fl fi sup t h) := by
  apply foldl_inv
  refine ⟨⟨Nat.le_refl _, fun _ _ => rfl, ?_, ?_, ?_, ?_, ?_⟩, rfl⟩
  · intro p hp; cases hp
  · intro z hz; cases hz
  · intro z hz; cases hz
  · intro a c ha hc
    rw [List.getElem?_eq_none ha] at hc; cases hc
  · intro hne; exact absurd rfl hne

end DendroModel.C08.Aux
