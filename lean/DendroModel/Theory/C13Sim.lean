import DendroModel.Model.C13
/-! C13 — the reader front end run with an attached namespace simulates every successful run without one. -/
namespace DendroModel.C13.Aux
open DendroModel.C13

/-- overwrite the namespace registry (`len(self._taxon_namespaces)`, the namespace's label) -/
def setReg (c : Core) (k : Nat) (l : Option String) : Core := { c with nsCount := k, nsLabel := l }

@[simp] theorem setReg_ts (c : Core) (k l) : (setReg c k l).ts = c.ts := rfl
@[simp] theorem setReg_ns (c : Core) (k l) : (setReg c k l).ns = c.ns := rfl
@[simp] theorem setReg_ntax (c : Core) (k l) : (setReg c k l).ntax = c.ntax := rfl
@[simp] theorem setReg_setReg (c : Core) (k l k' l') : setReg (setReg c k l) k' l' = setReg c k' l' := rfl

/-- the same settings with the namespace attached (what `Tree.yield_from_files` runs) -/
def att (fl : Flags) : Flags := { fl with attached := true }
@[simp] theorem att_attached (fl : Flags) : (att fl).attached = true := rfl
@[simp] theorem att_exclude (fl : Flags) : (att fl).excludeChars = fl.excludeChars := rfl

theorem newNamespace_att (fl : Flags) (c : Core) (t : Option String) : newNamespace (att fl) c t = c := by
  simp [newNamespace]

theorem newNamespace_setReg (fl : Flags) (c : Core) (t : Option String) (k l) :
    setReg (newNamespace fl c t) k l = setReg c k l := by
  unfold newNamespace; split <;> rfl

theorem getNamespace_att (fl : Flags) (c : Core) (t : Option String) : getNamespace (att fl) c t = .ok c := by
  simp [getNamespace]

theorem getNamespace_setReg (fl : Flags) (c c' : Core) (t : Option String) (h : getNamespace fl c t = .ok c') (k l) :
    setReg c' k l = setReg c k l := by
  have key : c' = c ∨ c' = newNamespace fl c none := by
    unfold getNamespace at h
    by_cases ha : fl.attached = true
    · simp only [ha, if_true] at h; cases h; exact Or.inl rfl
    · simp only [ha, Bool.false_eq_true, if_false] at h
      cases t with
      | none =>
        simp only [] at h
        by_cases h0 : (c.nsCount == 0) = true
        · simp only [h0, if_true] at h; cases h; exact Or.inr rfl
        · simp only [h0, Bool.false_eq_true, if_false] at h
          by_cases h1 : (c.nsCount == 1) = true
          · simp only [h1, if_true] at h; cases h; exact Or.inl rfl
          · simp [h1] at h
      | some t =>
        simp only [] at h
        by_cases h1 : (nsFound c t == 1) = true
        · simp only [h1, if_true] at h; cases h; exact Or.inl rfl
        · simp [h1] at h
  rcases key with rfl | rfl
  · rfl
  · exact newNamespace_setReg fl c none k l

theorem taxlabels_att (b : Bool) : ∀ (n : Nat) (ts : TS) (ns : List String) (ntax : Option Nat) x, ts.rest.length = n →
    taxlabelsLoop b ts ns ntax = .ok x → taxlabelsLoop true ts ns ntax = .ok x := by
  intro n
  induction n using Nat.strongRecOn with
  | _ n ih =>
    intro ts ns ntax x hn h
    rw [taxlabelsLoop.eq_def] at h ⊢
    cases hc : ts.cur with
    | none => simp [hc] at h
    | some label =>
      simp only [hc] at h ⊢
      by_cases h1 : (label == ";" && !ts.quoted) = true
      · simpa [h1] using h
      · simp only [h1, if_false, Bool.false_eq_true] at h ⊢
        by_cases hne : ts.rest = []
        · simp [hne] at h
        · simp only [dif_neg hne] at h ⊢
          have hlt : ts.next.clear.rest.length < n := by
            rw [← hn]; simpa [TS.clear] using TS.next_lt ts hne
          cases hf : nsFind label ns with
          | some i =>
            simp only [hf] at h ⊢
            exact ih _ hlt _ _ _ _ rfl h
          | none =>
            simp only [hf] at h ⊢
            cases ntax with
            | none =>
              simp only [Bool.false_eq_true, if_false] at h ⊢
              exact ih _ hlt _ _ _ _ rfl h
            | some m =>
              simp only [] at h ⊢
              by_cases hl : (decide (ns.length ≥ m) && !b) = true
              · simp [hl] at h
              · simp only [hl, Bool.false_eq_true, if_false] at h
                simp only [Bool.not_true, Bool.and_false, Bool.false_eq_true, if_false]
                exact ih _ hlt _ _ _ _ rfl h

/-! ### TAXA block -/

theorem taxaTitle_att (fl : Flags) (c : Core) (hv : Bool) (r) (h : taxaTitle fl c hv = .ok r) (k l) :
    taxaTitle (att fl) (setReg c k l) hv = .ok (setReg r.1 k l, r.2) := by
  unfold taxaTitle at h ⊢
  simp only [setReg_ts] at h ⊢
  split at h
  · rename_i ht
    simp only [ht, if_true]
    cases hp : parseTitle c.ts.nextU with
    | error e => simp [hp] at h
    | ok x =>
      obtain ⟨title, ts2⟩ := x
      simp only [hp] at h ⊢
      cases h
      simp only [newNamespace_att, newNamespace_setReg]
      rfl
  · rename_i ht
    simp only [ht, if_false]
    cases h; rfl

theorem taxaDims_setReg (c : Core) (tok : Option String) (k l) :
    taxaDims (setReg c k l) tok = (taxaDims c tok).map (fun c' => setReg c' k l) := by
  unfold taxaDims
  simp only [setReg_ts, setReg_ntax]
  split
  · cases parseDimensions c.ts with
    | error e => simp [Except.map]
    | ok x => simp [Except.map, setReg]
  · simp [Except.map]

theorem taxaLabels_att (fl : Flags) (c : Core) (hv : Bool) (tok) (r) (h : taxaLabels fl c hv tok = .ok r) (k l) :
    taxaLabels (att fl) (setReg c k l) hv tok = .ok (setReg r.1 k l, r.2) := by
  unfold taxaLabels at h ⊢
  split at h
  · rename_i ht
    simp only [ht, if_true, newNamespace_att, att_attached]
    have e1 : (if hv = true then setReg c k l else setReg c k l) = setReg c k l := by split <;> rfl
    simp only [e1, setReg_ts, setReg_ns, setReg_ntax]
    have hts : (if hv = true then c else newNamespace fl c none).ts = c.ts := by
      split
      · rfl
      · unfold newNamespace; split <;> rfl
    have hns : (if hv = true then c else newNamespace fl c none).ns = c.ns := by
      split
      · rfl
      · unfold newNamespace; split <;> rfl
    have hnt : (if hv = true then c else newNamespace fl c none).ntax = c.ntax := by
      split
      · rfl
      · unfold newNamespace; split <;> rfl
    simp only [hts, hns, hnt] at h
    cases hl : taxlabelsLoop fl.attached c.ts.clear.next c.ns c.ntax with
    | error e => simp [hl] at h
    | ok x =>
      rw [taxlabels_att fl.attached _ _ _ _ x rfl hl]
      simp only [hl] at h
      cases h
      simp only []
      congr 1
  · rename_i ht
    simp only [ht, if_false]
    cases h; rfl

theorem taxaStep_att (fl : Flags) (c : Core) (hv : Bool) (r) (h : taxaStep fl c hv = .ok r) (k l) :
    taxaStep (att fl) (setReg c k l) hv = .ok (setReg r.1 k l, r.2) := by
  unfold taxaStep at h ⊢
  cases h1 : taxaTitle fl c hv with
  | error e => simp [h1] at h
  | ok x1 =>
    obtain ⟨c1, have1, tok1⟩ := x1
    rw [taxaTitle_att fl c hv _ h1 k l]
    simp only [h1] at h ⊢
    rw [taxaDims_setReg]
    cases h2 : taxaDims c1 tok1 with
    | error e => simp [h2] at h
    | ok c2 =>
      simp only [h2, Except.map] at h ⊢
      cases h3 : taxaLabels fl c2 have1 tok1 with
      | error e => simp [h3] at h
      | ok x3 =>
        obtain ⟨c4, have4⟩ := x3
        rw [taxaLabels_att fl c2 have1 tok1 _ h3 k l]
        simp only [h3] at h ⊢
        cases h; rfl

theorem taxaLoop_att (fl : Flags) : ∀ (n : Nat) (c : Core) (hv : Bool) (c' : Core), c.ts.rest.length = n →
    taxaLoop fl c hv = .ok c' → ∀ k l, taxaLoop (att fl) (setReg c k l) hv = .ok (setReg c' k l) := by
  intro n
  induction n using Nat.strongRecOn with
  | _ n ih =>
    intro c hv c' hn h k l
    rw [taxaLoop.eq_def] at h ⊢
    by_cases hne : c.ts.rest = []
    · simp [hne] at h
    · rw [dif_neg hne] at h
      rw [dif_neg (show ¬ (setReg c k l).ts.rest = [] from hne)]
      cases hs : taxaStep fl c hv with
      | error e => simp [hs] at h
      | ok x =>
        obtain ⟨c4, have4, tok1⟩ := x
        rw [taxaStep_att fl c hv _ hs k l]
        simp only [hs] at h
        simp only []
        by_cases hend : (tok1 == some "END" || tok1 == some "ENDBLOCK") = true
        · rw [if_pos hend] at h ⊢
          cases h; rfl
        · rw [if_neg hend] at h ⊢
          by_cases hp : c4.ts.rest.length < c.ts.rest.length
          · rw [dif_pos hp] at h
            rw [dif_pos (show (setReg c4 k l).ts.rest.length < (setReg c k l).ts.rest.length from hp)]
            exact ih _ (hn ▸ hp) c4 have4 c' rfl h k l
          · rw [dif_neg hp] at h; cases h

theorem parseTaxaBlock_att (fl : Flags) (c c' : Core) (h : parseTaxaBlock fl c = .ok c') (k l) :
    parseTaxaBlock (att fl) (setReg c k l) = .ok (setReg c' k l) := by
  unfold parseTaxaBlock at h ⊢
  exact taxaLoop_att fl _ _ false c' rfl h k l

/-! ### functions that never look at the registry (they work on `Doc`) -/

@[simp] theorem doc_setReg (c : Core) (k l) : (setReg c k l).doc = c.doc := rfl
@[simp] theorem withDoc_setReg (c : Core) (d : Doc) (k l) : (setReg c k l).withDoc d = setReg (c.withDoc d) k l := rfl

theorem parseTranslate_setReg (c : Core) (mp : Option Mapper) (k l) :
    parseTranslate (setReg c k l) mp = (parseTranslate c mp).map (fun r => (setReg r.1 k l, r.2)) := by
  unfold parseTranslate
  simp only [doc_setReg, setReg_ntax, setReg_ns, withDoc_setReg]
  generalize translateLoop c.doc c.ntax (mapperOr mp c.ns) = x
  cases x <;> rfl

/-! ### TREES block -/

theorem nsResolve_att (fl : Flags) (c1 c2 : Core) (hv : Bool) (link : Option String)
    (h : (if hv = true then Except.ok c1 else getNamespace fl c1 link) = Except.ok c2) (k l) :
    (if hv = true then Except.ok (setReg c1 k l) else getNamespace (att fl) (setReg c1 k l) link) = Except.ok (setReg c2 k l) := by
  have e : setReg c2 k l = setReg c1 k l := by
    split at h
    · cases h; rfl
    · exact getNamespace_setReg fl c1 c2 link h k l
  rw [e, getNamespace_att]
  split <;> rfl

theorem treesStepR_att {σ} (cfg : Cfg) (fl : Flags) (S : Sink σ) (c : Core) (v : BlockVars) (acc : σ) (r)
    (h : treesStepR cfg fl S c v acc = .ok r) (k l) :
    treesStepR cfg (att fl) S (setReg c k l) v acc = .ok (setReg r.1 k l, r.2) := by
  unfold treesStepR at h ⊢
  simp only [setReg_ts] at h ⊢
  have hres : ∀ c2, (if v.haveNs = true then Except.ok { c with ts := c.ts.nextU } else getNamespace fl { c with ts := c.ts.nextU } v.link) = Except.ok c2 →
      (if v.haveNs = true then Except.ok { setReg c k l with ts := c.ts.nextU }
        else getNamespace (att fl) { setReg c k l with ts := c.ts.nextU } v.link) = Except.ok (setReg c2 k l) :=
    fun c2 hn => nsResolve_att fl _ c2 v.haveNs v.link hn k l
  by_cases ht1p : (c.ts.nextU.cur == some "LINK") = true
  · have ht1 := ht1p
    simp only [ht1, ↓reduceIte] at h ⊢
    cases hp : parseLink c.ts.nextU with
    | error e => simp [hp] at h
    | ok x => simp only [hp] at h ⊢; cases h; rfl
  have ht1 := eq_false_of_ne_true ht1p
  simp only [ht1, Bool.false_eq_true, ↓reduceIte] at h ⊢
  by_cases ht2p : (c.ts.nextU.cur == some "TITLE") = true
  · have ht2 := ht2p
    simp only [ht2, ↓reduceIte] at h ⊢
    cases hp : parseTitle c.ts.nextU with
    | error e => simp [hp] at h
    | ok x => simp only [hp] at h ⊢; cases h; rfl
  have ht2 := eq_false_of_ne_true ht2p
  simp only [ht2, Bool.false_eq_true, ↓reduceIte] at h ⊢
  by_cases ht3p : (c.ts.nextU.cur == some "TRANSLATE") = true
  · have ht3 := ht3p
    simp only [ht3, ↓reduceIte] at h ⊢
    cases hn : (if v.haveNs = true then Except.ok { c with ts := c.ts.nextU } else getNamespace fl { c with ts := c.ts.nextU } v.link) with
    | error e => simp [hn] at h
    | ok c2 =>
      simp only [hn] at h
      simp only [hres c2 hn, parseTranslate_setReg]
      cases hp : parseTranslate c2 v.mapper with
      | error e => simp [hp] at h
      | ok x => simp only [hp, Except.map] at h ⊢; cases h; rfl
  have ht3 := eq_false_of_ne_true ht3p
  simp only [ht3, Bool.false_eq_true, ↓reduceIte] at h ⊢
  by_cases ht4p : (c.ts.nextU.cur == some "TREE") = true
  · have ht4 := ht4p
    simp only [ht4, ↓reduceIte] at h ⊢
    cases hn : (if v.haveNs = true then Except.ok { c with ts := c.ts.nextU } else getNamespace fl { c with ts := c.ts.nextU } v.link) with
    | error e => simp [hn] at h
    | ok c2 =>
      simp only [hn] at h
      simp only [hres c2 hn]
      simp only [setReg_ts, setReg_ns, withDoc_setReg]
      cases hp : treeRunR cfg S { ts := c2.ts.clear, ns := c2.ns } (mapperOr v.mapper c2.ns)
          (if v.haveList = true then acc else S.newList acc) with
      | error e => simp [hp] at h
      | ok x => simp only [hp] at h ⊢; cases h; rfl
  have ht4 := eq_false_of_ne_true ht4p
  simp only [ht4, Bool.false_eq_true, ↓reduceIte] at h ⊢
  by_cases ht5p : (c.ts.nextU.cur == some "BEGIN") = true
  · have ht5 := ht5p
    simp only [ht5, ↓reduceIte] at h; cases h
  have ht5 := eq_false_of_ne_true ht5p
  simp only [ht5, Bool.false_eq_true, ↓reduceIte] at h ⊢
  cases h; rfl

theorem treesLoopR_att {σ} (cfg : Cfg) (fl : Flags) (S : Sink σ) : ∀ (n : Nat) (c : Core) (v : BlockVars) (acc : σ) (r),
    c.ts.rest.length = n → treesLoopR cfg fl S c v acc = .ok r →
    ∀ k l, treesLoopR cfg (att fl) S (setReg c k l) v acc = .ok (setReg r.1 k l, r.2) := by
  intro n
  induction n using Nat.strongRecOn with
  | _ n ih =>
    intro c v acc r hn h k l
    rw [treesLoopR.eq_def] at h ⊢
    by_cases hc : (c.ts.eof || v.tok == none || v.tok == some "END" || v.tok == some "ENDBLOCK") = true
    · rw [if_pos hc] at h
      rw [if_pos (show ((setReg c k l).ts.eof || v.tok == none || v.tok == some "END" || v.tok == some "ENDBLOCK") = true from hc)]
      cases h; rfl
    · rw [if_neg hc] at h
      rw [if_neg (show ¬ ((setReg c k l).ts.eof || v.tok == none || v.tok == some "END" || v.tok == some "ENDBLOCK") = true from hc)]
      cases hs : treesStepR cfg fl S c v acc with
      | error e => simp [hs] at h
      | ok x =>
        obtain ⟨c5, v5, acc5⟩ := x
        rw [treesStepR_att cfg fl S c v acc _ hs k l]
        simp only [hs] at h
        simp only []
        by_cases hp : c5.ts.rest.length < c.ts.rest.length
        · rw [dif_pos hp] at h
          rw [dif_pos (show (setReg c5 k l).ts.rest.length < (setReg c k l).ts.rest.length from hp)]
          exact ih _ (hn ▸ hp) c5 v5 acc5 r rfl h k l
        · rw [dif_neg hp] at h
          rw [dif_neg (show ¬ (setReg c5 k l).ts.rest.length < (setReg c k l).ts.rest.length from hp)]
          by_cases he : c5.ts.eof = true
          · rw [if_pos he] at h
            rw [if_pos (show (setReg c5 k l).ts.eof = true from he)]
            cases h; rfl
          · rw [if_neg he] at h; cases h

theorem treesBlockR_att {σ} (cfg : Cfg) (fl : Flags) (S : Sink σ) (c : Core) (acc : σ) (r)
    (h : treesBlockR cfg fl S c acc = .ok r) (k l) :
    treesBlockR cfg (att fl) S (setReg c k l) acc = .ok (setReg r.1 k l, r.2) := by
  unfold treesBlockR at h ⊢
  by_cases hc : (c.ts.castU.cur != some "TREES") = true
  · simp only [hc, if_true] at h; cases h
  · simp only [hc] at h
    rw [if_neg (show ¬ ((setReg c k l).ts.castU.cur != some "TREES") = true from hc)]
    exact treesLoopR_att cfg fl S _ _ _ _ r rfl h k l

/-! ### the block loop of the stream -/

theorem streamStepR_att {σ} (cfg : Cfg) (fl : Flags) (S : Sink σ) (c : Core) (acc : σ) (r)
    (h : streamStepR cfg fl S c acc = .ok r) (k l) :
    streamStepR cfg (att fl) S (setReg c k l) acc = .ok (setReg r.1 k l, r.2) := by
  unfold streamStepR at h ⊢
  simp only [setReg_ts, att_exclude] at h ⊢
  by_cases ht1p : (((seekBegin c.ts.nextU).clear.nextU).cur == some "TAXA") = true
  · have ht1 := ht1p
    simp only [ht1, ↓reduceIte] at h ⊢
    cases hp : parseTaxaBlock fl { c with ts := ((seekBegin c.ts.nextU).clear.nextU) } with
    | error e => simp [hp, Except.map] at h
    | ok c' =>
      have := parseTaxaBlock_att fl _ c' hp k l
      have e : ({ setReg c k l with ts := ((seekBegin c.ts.nextU).clear.nextU) } : Core) = setReg { c with ts := ((seekBegin c.ts.nextU).clear.nextU) } k l := rfl
      rw [e, this]
      simp only [hp, Except.map] at h ⊢
      cases h; rfl
  have ht1 := eq_false_of_ne_true ht1p
  simp only [ht1, Bool.false_eq_true, ↓reduceIte] at h ⊢
  by_cases ht2p : (((seekBegin c.ts.nextU).clear.nextU).cur == some "CHARACTERS" || ((seekBegin c.ts.nextU).clear.nextU).cur == some "DATA") = true
  · have ht2 := ht2p
    simp only [ht2, ↓reduceIte] at h ⊢
    by_cases hx : fl.excludeChars = true
    · simp only [hx, ↓reduceIte] at h ⊢; cases h; rfl
    · have hx' := eq_false_of_ne_true hx
      simp only [hx', Bool.false_eq_true, ↓reduceIte] at h ⊢; cases h; rfl
  have ht2 := eq_false_of_ne_true ht2p
  simp only [ht2, Bool.false_eq_true, ↓reduceIte] at h ⊢
  by_cases ht3p : (((seekBegin c.ts.nextU).clear.nextU).cur == some "TREES") = true
  · have ht3 := ht3p
    simp only [ht3, ↓reduceIte] at h ⊢
    have e : ({ setReg c k l with ts := ((seekBegin c.ts.nextU).clear.nextU) } : Core) = setReg { c with ts := ((seekBegin c.ts.nextU).clear.nextU) } k l := rfl
    rw [e]
    exact treesBlockR_att cfg fl S _ acc r h k l
  have ht3 := eq_false_of_ne_true ht3p
  simp only [ht3, Bool.false_eq_true, ↓reduceIte] at h ⊢
  by_cases ht4p : isSetsKw ((seekBegin c.ts.nextU).clear.nextU).cur = true
  · have ht4 := ht4p
    simp only [ht4, ↓reduceIte] at h ⊢
    by_cases hx : fl.excludeChars = true
    · simp only [hx, ↓reduceIte] at h ⊢; cases h; rfl
    · have hx' := eq_false_of_ne_true hx
      simp only [hx', Bool.false_eq_true, ↓reduceIte] at h ⊢; cases h; rfl
  have ht4 := eq_false_of_ne_true ht4p
  simp only [ht4, Bool.false_eq_true, ↓reduceIte] at h ⊢
  by_cases ht5p : (((seekBegin c.ts.nextU).clear.nextU).cur == some "BEGIN") = true
  · have ht5 := ht5p
    simp only [ht5, ↓reduceIte] at h; cases h
  have ht5 := eq_false_of_ne_true ht5p
  simp only [ht5, Bool.false_eq_true, ↓reduceIte] at h ⊢
  cases h; rfl

theorem streamLoopR_att {σ} (cfg : Cfg) (fl : Flags) (S : Sink σ) : ∀ (n : Nat) (c : Core) (acc : σ) (r),
    c.ts.rest.length = n → streamLoopR cfg fl S c acc = .ok r →
    ∀ k l, streamLoopR cfg (att fl) S (setReg c k l) acc = .ok (setReg r.1 k l, r.2) := by
  intro n
  induction n using Nat.strongRecOn with
  | _ n ih =>
    intro c acc r hn h k l
    rw [streamLoopR.eq_def] at h ⊢
    by_cases hc : c.ts.eof = true
    · rw [if_pos hc] at h
      rw [if_pos (show (setReg c k l).ts.eof = true from hc)]
      cases h; rfl
    · rw [if_neg hc] at h
      rw [if_neg (show ¬ (setReg c k l).ts.eof = true from hc)]
      cases hs : streamStepR cfg fl S c acc with
      | error e => simp [hs] at h
      | ok x =>
        obtain ⟨c3, acc3⟩ := x
        rw [streamStepR_att cfg fl S c acc _ hs k l]
        simp only [hs] at h
        simp only []
        by_cases hp : c3.ts.rest.length < c.ts.rest.length
        · rw [dif_pos hp] at h
          rw [dif_pos (show (setReg c3 k l).ts.rest.length < (setReg c k l).ts.rest.length from hp)]
          exact ih _ (hn ▸ hp) c3 acc3 r rfl h k l
        · rw [dif_neg hp] at h
          rw [dif_neg (show ¬ (setReg c3 k l).ts.rest.length < (setReg c k l).ts.rest.length from hp)]
          by_cases he : c3.ts.eof = true
          · rw [if_pos he] at h
            rw [if_pos (show (setReg c3 k l).ts.eof = true from he)]
            cases h; rfl
          · rw [if_neg he] at h; cases h

theorem nexusRead_att {σ} (cfg : Cfg) (fl : Flags) (S : Sink σ) (c : Core) (acc : σ) (r)
    (h : nexusRead cfg fl S c acc = .ok r) (k l) :
    nexusRead cfg (att fl) S (setReg c k l) acc = .ok (setReg r.1 k l, r.2) := by
  unfold nexusRead at h ⊢
  by_cases hc : (c.ts.next.cur.map String.toUpper != some "#NEXUS") = true
  · simp only [hc, if_true] at h; cases h
  · simp only [hc] at h
    rw [if_neg (show ¬ ((setReg c k l).ts.next.cur.map String.toUpper != some "#NEXUS") = true from hc)]
    exact streamLoopR_att cfg fl S _ _ _ r rfl h k l
end DendroModel.C13.Aux
