import DendroModel.Theory.C10Ext
/-! C10 — bulk additions whose iterable mentions a `Taxon` more than once: every not-yet-member joins once, in order of first
mention, with the next free bits. -/
namespace DendroModel.C10.Aux
open DendroModel DendroModel.C10

/-- `add_taxa` on a mutable namespace: the old members stay a prefix; the newcomers `new` are duplicate-free, are exactly the
mentioned non-members, and the `k`-th newcomer gets bit `count + k`; the counter grows by the number of newcomers -/
theorem addTaxa_new : ∀ (ts : List Nat) (s : NS), Inv s → s.mutable_ = true →
    ∃ new, (s.addTaxa ts).1.taxa = s.taxa ++ new ∧ new.Nodup ∧ (∀ t ∈ new, t ∈ ts ∧ t ∉ s.taxa) ∧
      (∀ t ∈ ts, t ∈ s.taxa ∨ t ∈ new) ∧ (s.addTaxa ts).1.count = s.count + new.length ∧
      ∀ k t, new[k]? = some t → (s.addTaxa ts).1.t2a.get t = some (s.count + k) := by
  intro ts
  induction ts with
  | nil => intro s _ _; exact ⟨[], by simp [NS.addTaxa]⟩
  | cons t ts ih =>
    intro s hi hm
    obtain ⟨s1, hadd, _, hm1, _, _⟩ := addTaxon_mutable hi hm t
    have hi1 := inv_addTaxon hi hadd
    obtain ⟨new1, h1, h2, h3, h4, h5, h6⟩ := ih s1 hi1 hm1
    have hkeep := (addTaxa_mutable ts s1 hi1 hm1).2.2.1
    simp only [NS.addTaxa, hadd]
    rcases addTaxon_cases hadd with ⟨hc, rfl⟩ | ⟨hc, _, rfl⟩
    · have hmem : t ∈ s1.taxa := (hi.dom t).2 ((contains_iff s1 t).1 hc)
      refine ⟨new1, h1, h2, fun x hx => ⟨List.mem_cons_of_mem _ (h3 x hx).1, (h3 x hx).2⟩, ?_, h5, h6⟩
      intro x hx
      rcases List.mem_cons.1 hx with e | e
      · exact .inl (e ▸ hmem)
      · exact h4 x e
    · have hnot : t ∉ s.taxa := fun h => by
        have := (contains_iff s t).2 ((hi.dom t).1 h); rw [hc] at this; cases this
      simp only at h1 h3 h4 h5 h6 hkeep
      have htn : t ∉ new1 := fun h => (h3 t h).2 (by simp)
      refine ⟨t :: new1, by rw [h1]; simp, List.nodup_cons.2 ⟨htn, h2⟩, ?_, ?_, by rw [h5]; simp; omega, ?_⟩
      · intro x hx
        rcases List.mem_cons.1 hx with e | e
        · subst e; exact ⟨by simp, hnot⟩
        · exact ⟨List.mem_cons_of_mem _ (h3 x e).1, fun h => (h3 x e).2 (by simp [h])⟩
      · intro x hx
        rcases List.mem_cons.1 hx with e | e
        · subst e; exact .inr (by simp)
        · rcases h4 x e with h | h
          · rcases List.mem_append.1 h with h' | h'
            · exact .inl h'
            · simp at h'; subst h'; exact .inr (by simp)
          · exact .inr (List.mem_cons_of_mem _ h)
      · intro k x hx
        cases k with
        | zero =>
          simp at hx; subst hx
          exact hkeep t s.count (get_put_self _ _ _)
        | succ k =>
          simp at hx
          have := h6 k x hx
          rw [this]; congr 1; omega

/-- mentioning a taxon twice in a row is mentioning it once (whatever the namespace: member, newcomer or refused) -/
theorem addTaxa_twice (s : NS) (t : Nat) (r : List Nat) : s.addTaxa (t :: t :: r) = s.addTaxa (t :: r) := by
  simp only [NS.addTaxa]
  cases h : s.addTaxon t with
  | error e => rfl
  | ok s1 =>
    simp only
    have hc : s1.contains t = true := by
      rcases addTaxon_cases h with ⟨hc, rfl⟩ | ⟨_, _, rfl⟩
      · exact hc
      · simp [NS.contains, get_put_self]
    have : s1.addTaxon t = .ok s1 := by simp [NS.addTaxon, hc]
    rw [this]

end DendroModel.C10.Aux
