import DendroModel.Model.C13
/-! C13 — progress of the shared tree-statement parser: the run-time progress checks of the loops over it never fail. -/
namespace DendroModel.C13.Aux
open DendroModel.C13

theorem req_rest_lt {ts ts' : TS} (h : ts.req = .ok ts') : ts'.rest.length < ts.rest.length := TS.req_lt _ _ h

theorem tailLoop_le (cfg : Cfg) (isInternal : Bool) (kids : List Node) :
    ∀ (n : Nat) (s : PS) (coms : List String) (taxon : Option Nat) (label len : Option String) (lp : Bool) (nd : Node) (s' : PS),
      s.ts.rest.length = n → tailLoop cfg isInternal kids s coms taxon label len lp = .ok (nd, s') →
      s'.ts.rest.length ≤ s.ts.rest.length := by
  intro n
  induction n using Nat.strongRecOn with
  | _ n ih =>
    intro s coms taxon label len lp nd s' hn h
    rw [tailLoop.eq_def] at h
    simp only [] at h
    split at h
    · cases h
    · rename_i tok hc
      split at h
      · -- ':'
        split at h
        · cases h
        · rename_i ts1 h1
          split at h
          · cases h
          · rename_i ts2 h2
            have a := req_rest_lt h1
            have b := req_rest_lt h2
            have := ih _ (by show ts2.rest.length < n; rw [← hn]; simp [TS.clear] at a; omega) _ _ _ _ _ _ _ _ rfl h
            simp [TS.clear] at a this ⊢
            omega
      · split at h
        · cases h; simp [TS.clear]
        · split at h
          · split at h
            · cases h
            · cases h
              simp [TS.next_rest, TS.clear]
          · split at h
            · cases h
            · split at h
              · cases h
              · split at h
                · split at h
                  · cases h
                  · rename_i ts1 h1
                    have a := req_rest_lt h1
                    have := ih _ (by show ts1.rest.length < n; rw [← hn]; simp [TS.clear] at a; omega) _ _ _ _ _ _ _ _ rfl h
                    simp [TS.clear] at a this ⊢
                    omega
                · split at h
                  · cases h
                  · split at h
                    · cases h
                    · rename_i ts1 h1
                      have a := req_rest_lt h1
                      have := ih _ (by show ts1.rest.length < n; rw [← hn]; simp [TS.clear] at a; omega) _ _ _ _ _ _ _ _ rfl h
                      simp [TS.clear] at a this ⊢
                      omega

/-- the current token closes a node or the statement: unquoted `)`, `,` or `;` -/
def closing (ts : TS) : Bool := ts.isP ")" || ts.isP "," || ts.isP ";"

theorem tailLoop_lt (cfg : Cfg) (isInternal : Bool) (kids : List Node)
    (s : PS) (coms : List String) (taxon : Option Nat) (label len : Option String) (lp : Bool) (nd : Node) (s' : PS)
    (hcl : closing s.ts = false)
    (h : tailLoop cfg isInternal kids s coms taxon label len lp = .ok (nd, s')) :
    s'.ts.rest.length < s.ts.rest.length := by
  rw [tailLoop.eq_def] at h
  simp only [] at h
  split at h
  · cases h
  · rename_i tok hc
    have hcur : s.ts.cur = some tok := by simpa [TS.clear] using hc
    split at h
    · split at h
      · cases h
      · rename_i ts1 h1
        split at h
        · cases h
        · rename_i ts2 h2
          have a := req_rest_lt h1
          have b := req_rest_lt h2
          have := tailLoop_le cfg isInternal kids _ _ _ _ _ _ _ _ _ rfl h
          simp [TS.clear] at a this ⊢
          omega
    · split at h
      · rename_i hx
        exfalso
        simp [closing, TS.isP, hcur, TS.clear] at hcl hx
        rcases hx with ⟨h1 | h1, h2⟩ <;> simp_all
      · split at h
        · rename_i hx
          exfalso
          simp [closing, TS.isP, hcur, TS.clear] at hcl hx
          simp_all
        · split at h
          · cases h
          · split at h
            · cases h
            · split at h
              · split at h
                · cases h
                · rename_i ts1 h1
                  have a := req_rest_lt h1
                  have := tailLoop_le cfg isInternal kids _ _ _ _ _ _ _ _ _ rfl h
                  simp [TS.clear] at a this ⊢
                  omega
              · split at h
                · cases h
                · split at h
                  · cases h
                  · rename_i ts1 h1
                    have a := req_rest_lt h1
                    have := tailLoop_le cfg isInternal kids _ _ _ _ _ _ _ _ _ rfl h
                    simp [TS.clear] at a this ⊢
                    omega

theorem commaLoop_le : ∀ (n : Nat) (s : PS) (kids : List Node) (s' : PS) (kids' : List Node), s.ts.rest.length = n →
    commaLoop s kids = .ok (s', kids') → s'.ts.rest.length ≤ s.ts.rest.length := by
  intro n
  induction n using Nat.strongRecOn with
  | _ n ih =>
    intro s kids s' kids' hn h
    rw [commaLoop.eq_def] at h
    split at h
    · simp only [] at h
      split at h
      · cases h
      · rename_i ts2 h2
        have a := req_rest_lt h2
        have := ih _ (by show ts2.rest.length < n; rw [← hn]; simp [TS.clear] at a; omega) _ _ _ _ rfl h
        simp [TS.clear] at a this ⊢
        omega
    · cases h; exact Nat.le_refl _

theorem childLoop_le (cfg : Cfg) : ∀ (n : Nat) (s : PS) (count : Nat) (created : Bool) (kids : List Node) (s' : PS) (kids' : List Node),
    s.ts.rest.length = n → childLoop cfg s count created kids = .ok (s', kids') → s'.ts.rest.length ≤ s.ts.rest.length := by
  intro n
  induction n using Nat.strongRecOn with
  | _ n ih =>
    intro s count created kids s' kids' hn h
    rw [childLoop.eq_def] at h
    split at h
    · simp only [] at h
      split at h
      · cases h
      · split at h
        · cases h
        · split at h
          all_goals
            split at h
            · rename_i hp
              have := ih _ (hn ▸ hp) _ _ _ _ _ _ rfl h
              simp only [] at this hp
              omega
            · cases h
    · split at h
      · simp only [] at h
        split at h
        · cases h
        · rename_i ts1 h1
          cases h
          exact Nat.le_of_lt (req_rest_lt h1)
      · simp only [] at h
        split at h
        · cases h
        · split at h
          · rename_i hp
            have := ih _ (hn ▸ hp) _ _ _ _ _ _ rfl h
            omega
          · cases h

theorem closing_clear (ts : TS) : closing ts.clear = closing ts := rfl

theorem parseNode_le (cfg : Cfg) (s : PS) (i : Option Bool) (pre : List String) (nd : Node) (s' : PS)
    (h : parseNode cfg s i pre = .ok (nd, s')) : s'.ts.rest.length ≤ s.ts.rest.length := by
  rw [parseNode.eq_def] at h
  simp only [] at h
  split at h
  · split at h
    · cases h
    · rename_i ts1 h1
      split at h
      · cases h
      · rename_i s2 kids hc
        have a := req_rest_lt h1
        have b := childLoop_le cfg _ _ _ _ _ _ _ rfl hc
        have c := tailLoop_le cfg _ _ _ _ _ _ _ _ _ _ _ rfl h
        simp [TS.clear] at a b c ⊢
        omega
  · have c := tailLoop_le cfg _ _ _ _ _ _ _ _ _ _ _ rfl h
    simpa [TS.clear] using c

theorem parseNode_lt (cfg : Cfg) (s : PS) (i : Option Bool) (pre : List String) (nd : Node) (s' : PS)
    (hcl : closing s.ts = false) (h : parseNode cfg s i pre = .ok (nd, s')) : s'.ts.rest.length < s.ts.rest.length := by
  rw [parseNode.eq_def] at h
  simp only [] at h
  split at h
  · split at h
    · cases h
    · rename_i ts1 h1
      split at h
      · cases h
      · rename_i s2 kids hc
        have a := req_rest_lt h1
        have b := childLoop_le cfg _ _ _ _ _ _ _ rfl hc
        have c := tailLoop_le cfg _ _ _ _ _ _ _ _ _ _ _ rfl h
        simp [TS.clear] at a b c ⊢
        omega
  · have c := tailLoop_lt cfg _ _ _ _ _ _ _ _ _ _ (by simpa [closing_clear] using hcl) h
    simpa [TS.clear] using c

/-- a statement that starts on an unquoted `)` or `,` is returned at once and never completes -/
theorem parseNode_closing_incomplete (cfg : Cfg) (s : PS) (i : Option Bool) (pre : List String) (nd : Node) (s' : PS)
    (hcl : (s.ts.isP ")" || s.ts.isP ",") = true) (h : parseNode cfg s i pre = .ok (nd, s')) : s'.complete = false := by
  have hcur : s.ts.cur = some ")" ∨ s.ts.cur = some "," := by
    simp [TS.isP] at hcl; rcases hcl with h1 | h1
    · exact Or.inl h1.1
    · exact Or.inr h1.1
  have hq : s.ts.quoted = false := by
    simp [TS.isP] at hcl; rcases hcl with h1 | h1 <;> exact h1.2
  rw [parseNode.eq_def] at h
  simp only [] at h
  have hnp : s.ts.clear.isP "(" = false := by
    rcases hcur with h1 | h1 <;> simp [TS.isP, TS.clear, h1]
  simp only [hnp, Bool.false_eq_true, if_false] at h
  rw [tailLoop.eq_def] at h
  simp only [] at h
  split at h
  · cases h
  · rename_i tok hc'
    have hc2 : s.ts.cur = some tok := by simpa [TS.clear] using hc'
    have htok : tok = ")" ∨ tok = "," := by
      rcases hcur with h1 | h1 <;> rw [h1] at hc2 <;> cases hc2 <;> simp
    have hq2 : s.ts.clear.clear.quoted = false := by simpa [TS.clear] using hq
    split at h
    · rename_i hx
      exfalso
      rcases htok with rfl | rfl <;> simp at hx
    · split at h
      · cases h; rfl
      · rename_i hx
        exfalso
        rcases htok with rfl | rfl <;> simp [hq2] at hx

theorem skipLeadingSemis_spec : ∀ (n : Nat) (ts : TS) (coms : List String) (ts' : TS) (c' : List String), ts.rest.length = n →
    skipLeadingSemis ts coms = .ok (ts', c') →
    ts'.rest.length ≤ ts.rest.length ∧ ((ts'.isP ";" || ts'.cur == none) && !ts'.eof) = false := by
  intro n
  induction n using Nat.strongRecOn with
  | _ n ih =>
    intro ts coms ts' c' hn h
    rw [skipLeadingSemis.eq_def] at h
    split at h
    · split at h
      · cases h
      · rename_i ts1 h1
        have a := req_rest_lt h1
        have := ih _ (by show ts1.clear.rest.length < n; rw [← hn]; simpa [TS.clear] using a) _ _ _ _ rfl h
        simp [TS.clear] at this ⊢
        exact ⟨by omega, this.2⟩
    · rename_i hc
      cases h
      exact ⟨Nat.le_refl _, by simpa using hc⟩

theorem skipTrailingSemis_le : ∀ (n : Nat) (ts : TS), ts.rest.length = n → (skipTrailingSemis ts).rest.length ≤ ts.rest.length := by
  intro n
  induction n using Nat.strongRecOn with
  | _ n ih =>
    intro ts hn
    rw [skipTrailingSemis.eq_def]
    split
    · rename_i hc
      have hne : ts.rest ≠ [] := by simp at hc; exact hc.2
      have a := TS.next_lt ts.clear (by simpa [TS.clear] using hne)
      have := ih _ (by rw [← hn]; simpa [TS.clear] using a) ts.clear.next rfl
      simp [TS.clear] at a this ⊢
      omega
    · split
      · simp [TS.next_rest, TS.clear]
      · exact Nat.le_refl _

/-- `NewickReader._parse_tree_statement` consumes at least one token whenever it delivers a tree -/
theorem newickStmt_lt (cfg : Cfg) (ts : TS) (ns : List String) (mp : Mapper) (t : Tree) (ts' : TS) (ns' : List String) (mp' : Mapper)
    (h : newickStmt cfg ts ns mp = .ok (some t, ts', ns', mp')) : ts'.rest.length < ts.rest.length := by
  unfold newickStmt at h
  simp only [] at h
  split at h
  · cases h
  · rename_i ts1 treeComs hl
    have ⟨hle, hexit⟩ := skipLeadingSemis_spec _ _ _ _ _ rfl hl
    split at h
    · cases h
    · rename_i heof
      split at h
      · cases h
      · rename_i root s hp
        split at h
        · cases h
        · rename_i hcomp
          cases h
          have htr := skipTrailingSemis_le _ s.ts rfl
          have heof' : ts1.eof = false := by simpa using heof
          have hsemi : ts1.isP ";" = false := by
            simp [heof'] at hexit; exact hexit.1
          have hlt : s.ts.rest.length < ts1.rest.length := by
            by_cases hcl : closing ts1 = true
            · exfalso
              have hcl2 : (ts1.isP ")" || ts1.isP ",") = true := by
                simp [closing, hsemi] at hcl; simpa using hcl
              have := parseNode_closing_incomplete cfg _ none [] root s hcl2 hp
              simp [this] at hcomp
            · exact parseNode_lt cfg _ none [] root s (by simpa using hcl) hp
          simp [TS.clear] at hle
          omega

/-- `NexusReader._parse_tree_statement` (TREE name = …) consumes at least one token -/
theorem nexusTreeStmt_lt (cfg : Cfg) (d : Doc) (mp : Mapper) (t : Tree) (d1 : Doc) (mp1 : Mapper)
    (h : nexusTreeStmt cfg d mp = .ok (t, d1, mp1)) : d1.ts.rest.length < d.ts.rest.length := by
  have b : ∀ x : TS, x.next.rest.length ≤ x.rest.length := fun x => by rw [TS.next_rest]; simp
  unfold nexusTreeStmt at h
  simp only [] at h
  by_cases hstar : (d.ts.next.cur == some "*") = true
  · simp only [hstar, ↓reduceIte] at h
    split at h
    · cases h
    · split at h
      · cases h
      · cases h
      · rename_i t0 ts6 ns' mp' hs
        cases h
        have a := newickStmt_lt cfg _ _ _ _ _ _ _ hs
        have c := b d.ts
        have e := b d.ts.next
        have f := b d.ts.next.next
        have g := b d.ts.next.next.next.clear
        simp [TS.clear] at a g ⊢
        omega
  · have hstar' := eq_false_of_ne_true hstar
    simp only [hstar', Bool.false_eq_true, ↓reduceIte] at h
    split at h
    · cases h
    · split at h
      · cases h
      · cases h
      · rename_i t0 ts6 ns' mp' hs
        cases h
        have a := newickStmt_lt cfg _ _ _ _ _ _ _ hs
        have c := b d.ts
        have e := b d.ts.next
        have g := b d.ts.next.next.clear
        simp [TS.clear] at a g ⊢
        omega
end DendroModel.C13.Aux
