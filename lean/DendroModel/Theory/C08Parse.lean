import DendroModel.Theory.C08Base
import DendroModel.Theory.C15Build
/-! C08 — every tree the shared protocol parser returns has pairwise distinct node ids (reusing the C15 analysis of
`buildTree`), so the `(ids t).Nodup` hypothesis of the extraction / subtree theorems is derived for driver inputs. -/
namespace DendroModel.C08.Aux
open DendroModel

mutual
theorem ids_eq_nodes : ∀ t : T, ids t = (T.nodes t).map T.id
  | .node i x l s cs => by simp [ids, T.nodes, T.id, idsL_eq_nodes cs]
theorem idsL_eq_nodes : ∀ cs : List T, idsL cs = (T.nodesL cs).map T.id
  | [] => rfl
  | c :: cs => by simp [idsL, T.nodesL, ids_eq_nodes c, idsL_eq_nodes cs]
end

theorem parseTree_ids_nodup' (toks : List String) (t : T) (rest : List String) (h : parseTree toks = some (t, rest)) :
    (ids t).Nodup := by
  obtain ⟨f, par, tax, lens, labs, r, _, rfl, hr⟩ := C15.BuildAux.parseTree_build toks t rest h
  rw [ids_eq_nodes]
  exact C15.BuildAux.ids_nodup par tax lens labs f r (C15.BuildAux.acyc_root par r hr)

end DendroModel.C08.Aux
