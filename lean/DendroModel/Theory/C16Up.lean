import DendroModel.Theory.C16Fitch
import DendroModel.Model.C16Ext
import Mathlib.Tactic
/-! C16 theory, part 7: Fitch's final phase (`fitch_up_pass`, kernel `finalSet`) on one character of a binary tree computes, at every
internal node, exactly the set of states that the node takes in some most-parsimonious reconstruction.

`finAt F t p` follows the up pass from a node whose final set is `F` down the path `p` (`false` = first child, `true` = second child);
the root keeps its down-pass set (`finalAt`).  The proof generalises over an external cost `e` of the subtree's root state (what the
rest of the tree charges), which turns the statement into an induction down the path. -/
namespace DendroModel.C16

abbrev Path := List Bool

/-- the state an assignment gives to the node at the end of a path -/
def A.at : A → Path → Option Nat
  | a, [] => some a.root
  | .node _ l _, false :: p => l.at p
  | .node _ _ r, true :: p => r.at p
  | .leaf _, _ :: _ => none

def Bt.sub : B → Path → Option B
  | t, [] => some t
  | .node l _, false :: p => Bt.sub l p
  | .node _ r, true :: p => Bt.sub r p
  | .leaf _, _ :: _ => none

/-- what the up pass leaves on a child of a node whose final set is `F`: leaves are skipped (they keep their own set), an internal
    child gets `finalSet` of the parent's final set, its own down-pass set and its children's down-pass sets -/
def childFinal (F : SS) : B → SS
  | .leaf s => s
  | .node l r => finalSet F (fitch (.node l r)).1 (fitch l).1 (fitch r).1

def finAt (F : SS) : B → Path → Option SS
  | _, [] => some F
  | .node l _, false :: p => finAt (childFinal F l) l p
  | .node _ r, true :: p => finAt (childFinal F r) r p
  | .leaf _, _ :: _ => none

/-- the final set of the node at `p` after `fitch_down_pass` + `fitch_up_pass`: the root is skipped by the up pass -/
def finalAt (t : B) (p : Path) : Option SS := finAt (fitch t).1 t p

/-- total cost of an assignment of a subtree whose root state `x` is charged `e x` by the rest of the tree -/
def Tot (e : Nat → Nat) (a : A) : Nat := changes a + e a.root

def IsOpt (t : B) (e : Nat → Nat) (k : Nat) : Prop :=
  (∀ a, Valid t a → k ≤ Tot e a) ∧ ∃ a, Valid t a ∧ Tot e a = k

/-- some optimal assignment gives state `s` to the node at `p` -/
def Mpr (t : B) (e : Nat → Nat) (k : Nat) (p : Path) (s : Nat) : Prop :=
  ∃ a, Valid t a ∧ Tot e a = k ∧ a.at p = some s

namespace Aux

theorem exists_min (f : Nat → Nat) : ∃ x0, ∀ y, f x0 ≤ f y := by
  have h : ∀ n x, f x ≤ n → ∃ x0, ∀ y, f x0 ≤ f y := by
    intro n
    induction n with
    | zero => intro x hx; exact ⟨x, fun y => by omega⟩
    | succ n ih =>
      intro x hx
      by_cases hy : ∃ y, f y ≤ n
      · obtain ⟨y, hy⟩ := hy; exact ih y hy
      · refine ⟨x, fun y => ?_⟩
        have : ¬ f y ≤ n := fun h => hy ⟨y, h⟩
        omega
  exact h (f 0) 0 (Nat.le_refl _)

theorem pen_le_one (F : SS) (s : Nat) : pen F s ≤ 1 := by unfold pen; split <;> omega

theorem pen_eq_zero {F : SS} {s : Nat} : pen F s = 0 ↔ F.testBit s = true := by
  unfold pen; split <;> simp_all

/-- a subtree and the edge above it, below: at least the Fitch count, one more when the upper state is outside the Fitch set -/
theorem edge_lower (o : B) (ao : A) (hv : Valid o ao) (s : Nat) :
    (fitch o).2 + pen (fitch o).1 s ≤ changes ao + d ao.root s := by
  have h := fitch_lower o ao hv
  have : pen (fitch o).1 s ≤ pen (fitch o).1 ao.root + d ao.root s := by
    unfold pen d
    by_cases e : ao.root = s
    · subst e; simp
    · simp [e]; split <;> omega
  omega

theorem edge_upper (o : B) (hne : NonEmptyLeaves o) (s : Nat) :
    ∃ ao, Valid o ao ∧ changes ao + d ao.root s = (fitch o).2 + pen (fitch o).1 s := by
  by_cases hs : (fitch o).1.testBit s = true
  · obtain ⟨a, hv, hr, hc⟩ := fitch_upper o hne s hs
    exact ⟨a, hv, by simp [hc, hr, d, pen, hs]⟩
  · obtain ⟨z, hz⟩ := Nat.exists_testBit_of_ne_zero (fitch_nonempty o hne)
    obtain ⟨a, hv, hr, hc⟩ := fitch_upper o hne z hz
    have hzs : z ≠ s := fun e => hs (e ▸ hz)
    exact ⟨a, hv, by simp [hc, hr, d, pen, hs, hzs]⟩

/-- the cost split of a binary node as seen from one child `c` (the other child is `o`) -/
def sum2 (e : Nat → Nat) (s : Nat) (ac ao : A) : Nat :=
  changes ac + changes ao + d ac.root s + d ao.root s + e s

def IsOpt2 (c o : B) (e : Nat → Nat) (k : Nat) : Prop :=
  (∀ s ac ao, Valid c ac → Valid o ao → k ≤ sum2 e s ac ao) ∧
  ∃ s ac ao, Valid c ac ∧ Valid o ao ∧ sum2 e s ac ao = k

def Q (c o : B) (e : Nat → Nat) (k : Nat) (φ : Nat → A → Prop) : Prop :=
  ∃ s ac ao, Valid c ac ∧ Valid o ao ∧ sum2 e s ac ao = k ∧ φ s ac

theorem valid_node_inv {l r : B} {a : A} (h : Valid (.node l r) a) : ∃ s al ar, a = .node s al ar ∧ Valid l al ∧ Valid r ar := by
  cases a with
  | leaf s => simp [Valid] at h
  | node s al ar => exact ⟨s, al, ar, rfl, h.1, h.2⟩

theorem tot_node (e : Nat → Nat) (s : Nat) (al ar : A) : Tot e (.node s al ar) = sum2 e s al ar := by
  simp [Tot, changes, sum2, A.root]

theorem sum2_swap (e : Nat → Nat) (s : Nat) (a b : A) : sum2 e s a b = sum2 e s b a := by
  simp only [sum2]; omega

theorem isOpt_left {l r : B} {e : Nat → Nat} {k : Nat} (h : IsOpt (.node l r) e k) : IsOpt2 l r e k := by
  refine ⟨fun s ac ao hc ho => ?_, ?_⟩
  · have := h.1 (.node s ac ao) ⟨hc, ho⟩
    rwa [tot_node] at this
  · obtain ⟨a, hv, ht⟩ := h.2
    obtain ⟨s, al, ar, rfl, hl, hr⟩ := valid_node_inv hv
    exact ⟨s, al, ar, hl, hr, by rwa [tot_node] at ht⟩

theorem isOpt_right {l r : B} {e : Nat → Nat} {k : Nat} (h : IsOpt (.node l r) e k) : IsOpt2 r l e k := by
  refine ⟨fun s ac ao hc ho => ?_, ?_⟩
  · have := h.1 (.node s ao ac) ⟨ho, hc⟩
    rwa [tot_node, sum2_swap] at this
  · obtain ⟨a, hv, ht⟩ := h.2
    obtain ⟨s, al, ar, rfl, hl, hr⟩ := valid_node_inv hv
    exact ⟨s, ar, al, hr, hl, by rwa [tot_node, sum2_swap] at ht⟩

theorem mpr_left {l r : B} {e : Nat → Nat} {k : Nat} (p : Path) (s' : Nat) :
    Mpr (.node l r) e k (false :: p) s' ↔ Q l r e k (fun _ ac => ac.at p = some s') := by
  constructor
  · rintro ⟨a, hv, ht, ha⟩
    obtain ⟨s, al, ar, rfl, hl, hr⟩ := valid_node_inv hv
    exact ⟨s, al, ar, hl, hr, by rwa [tot_node] at ht, by simpa [A.at] using ha⟩
  · rintro ⟨s, ac, ao, hc, ho, hs, hφ⟩
    exact ⟨.node s ac ao, ⟨hc, ho⟩, by rwa [tot_node], by simpa [A.at] using hφ⟩

theorem mpr_right {l r : B} {e : Nat → Nat} {k : Nat} (p : Path) (s' : Nat) :
    Mpr (.node l r) e k (true :: p) s' ↔ Q r l e k (fun _ ac => ac.at p = some s') := by
  constructor
  · rintro ⟨a, hv, ht, ha⟩
    obtain ⟨s, al, ar, rfl, hl, hr⟩ := valid_node_inv hv
    exact ⟨s, ar, al, hr, hl, by rwa [tot_node, sum2_swap] at ht, by simpa [A.at] using ha⟩
  · rintro ⟨s, ac, ao, hc, ho, hs, hφ⟩
    exact ⟨.node s ao ac, ⟨ho, hc⟩, by rwa [tot_node, sum2_swap], by simpa [A.at] using hφ⟩

theorem mpr_root_left {l r : B} {e : Nat → Nat} {k : Nat} (x : Nat) :
    Mpr (.node l r) e k [] x ↔ Q l r e k (fun s _ => s = x) := by
  constructor
  · rintro ⟨a, hv, ht, ha⟩
    obtain ⟨s, al, ar, rfl, hl, hr⟩ := valid_node_inv hv
    exact ⟨s, al, ar, hl, hr, by rwa [tot_node] at ht, by simpa [A.at, A.root] using ha⟩
  · rintro ⟨s, ac, ao, hc, ho, hs, hφ⟩
    exact ⟨.node s ac ao, ⟨hc, ho⟩, by rwa [tot_node], by simp [A.at, A.root, hφ]⟩

theorem mpr_root_right {l r : B} {e : Nat → Nat} {k : Nat} (x : Nat) :
    Mpr (.node l r) e k [] x ↔ Q r l e k (fun s _ => s = x) := by
  rw [mpr_root_left]
  constructor
  · rintro ⟨s, ac, ao, hc, ho, hs, hφ⟩
    exact ⟨s, ao, ac, ho, hc, by rwa [sum2_swap], hφ⟩
  · rintro ⟨s, ac, ao, hc, ho, hs, hφ⟩
    exact ⟨s, ao, ac, ho, hc, by rwa [sum2_swap], hφ⟩

/-! ### one step down: child `c`, other child `o` -/

/-- what the rest of the tree (the parent's external cost and the other child) charges the parent's state, above the other child's
    own Fitch count -/
def hOf (o : B) (e : Nat → Nat) (x : Nat) : Nat := e x + pen (fitch o).1 x

/-- the external cost of the child's root state -/
def eChild (o : B) (e : Nat → Nat) (μ : Nat) (y : Nat) : Nat := (fitch o).2 + min (hOf o e y) (1 + μ)

theorem step_lower {o : B} {e : Nat → Nat} {μ : Nat} (hμ : ∀ x, μ ≤ hOf o e x) (s : Nat) (ac ao : A) (ho : Valid o ao) :
    changes ac + eChild o e μ ac.root ≤ sum2 e s ac ao := by
  have h1 := edge_lower o ao ho s
  have h2 := hμ s
  simp only [sum2, eChild, hOf] at *
  by_cases hs : ac.root = s
  · subst hs; simp only [d_self]; omega
  · have : d ac.root s = 1 := by simp [d, hs]
    omega

theorem step_upper {o : B} (hne : NonEmptyLeaves o) {e : Nat → Nat} {μ x0 : Nat} (hx0 : hOf o e x0 = μ) (ac : A) :
    ∃ s ao, Valid o ao ∧ sum2 e s ac ao = changes ac + eChild o e μ ac.root := by
  by_cases hle : hOf o e ac.root ≤ 1 + μ
  · obtain ⟨ao, hv, hc⟩ := edge_upper o hne ac.root
    refine ⟨ac.root, ao, hv, ?_⟩
    simp only [sum2, eChild, hOf, d_self] at *
    omega
  · obtain ⟨ao, hv, hc⟩ := edge_upper o hne x0
    have hne' : ac.root ≠ x0 := by
      intro e'; rw [e', hx0] at hle; omega
    have hd : d ac.root x0 = 1 := by simp [d, hne']
    refine ⟨x0, ao, hv, ?_⟩
    simp only [sum2, eChild, hOf] at *
    omega

theorem step_opt {c o : B} (hne : NonEmptyLeaves o) {e : Nat → Nat} {k μ x0 : Nat} (hx0 : hOf o e x0 = μ)
    (hμ : ∀ x, μ ≤ hOf o e x) (h : IsOpt2 c o e k) : IsOpt c (eChild o e μ) k := by
  constructor
  · intro ac hc
    obtain ⟨s, ao, ho, hs⟩ := step_upper hne hx0 ac
    have := h.1 s ac ao hc ho
    simp only [Tot]; omega
  · obtain ⟨s, ac, ao, hc, ho, hs⟩ := h.2
    refine ⟨ac, hc, ?_⟩
    have h1 := step_lower hμ s ac ao ho
    obtain ⟨s', ao', ho', hs'⟩ := step_upper hne hx0 ac
    have h2 := h.1 s' ac ao' hc ho'
    simp only [Tot]; omega

theorem step_mpr {c o : B} (hne : NonEmptyLeaves o) {e : Nat → Nat} {k μ x0 : Nat} (hx0 : hOf o e x0 = μ)
    (hμ : ∀ x, μ ≤ hOf o e x) (h : IsOpt2 c o e k) (p : Path) (s' : Nat) :
    Q c o e k (fun _ ac => ac.at p = some s') ↔ Mpr c (eChild o e μ) k p s' := by
  have hopt := step_opt hne hx0 hμ h
  constructor
  · rintro ⟨s, ac, ao, hc, ho, hs, hφ⟩
    refine ⟨ac, hc, ?_, hφ⟩
    have h1 := step_lower hμ s ac ao ho
    have h2 := hopt.1 ac hc
    simp only [Tot] at *; omega
  · rintro ⟨ac, hc, ht, hφ⟩
    obtain ⟨s, ao, ho, hs⟩ := step_upper hne hx0 ac
    exact ⟨s, ac, ao, hc, ho, by simp only [Tot] at ht; omega, hφ⟩

/-! ### the set rule -/

/-- exact cost of a binary node given its root state -/
theorem node_cost_lower {l r : B} {y : Nat} {al ar : A} (hl : Valid l al) (hr : Valid r ar) :
    (fitch l).2 + (fitch r).2 + pen (fitch l).1 y + pen (fitch r).1 y ≤ changes (.node y al ar) := by
  have h1 := edge_lower l al hl y
  have h2 := edge_lower r ar hr y
  simp only [changes]; omega

theorem node_cost_upper {l r : B} (hl : NonEmptyLeaves l) (hr : NonEmptyLeaves r) (y : Nat) :
    ∃ al ar, Valid l al ∧ Valid r ar ∧
      changes (.node y al ar) = (fitch l).2 + (fitch r).2 + pen (fitch l).1 y + pen (fitch r).1 y := by
  obtain ⟨al, hvl, hcl⟩ := edge_upper l hl y
  obtain ⟨ar, hvr, hcr⟩ := edge_upper r hr y
  exact ⟨al, ar, hvl, hvr, by simp only [changes]; omega⟩

theorem and_eq_iff_subset (p c : SS) : p &&& c = p ↔ ∀ y, p.testBit y = true → c.testBit y = true := by
  constructor
  · intro h y hy
    have : (p &&& c).testBit y = true := by rw [h]; exact hy
    simpa [Nat.testBit_and, hy] using this
  · intro h
    apply Nat.eq_of_testBit_eq
    intro i
    rw [Nat.testBit_and]
    cases hp : p.testBit i
    · simp
    · simp [h i hp]

theorem and_eq_zero_iff (l r : SS) : l &&& r = 0 ↔ ∀ y, ¬ (l.testBit y = true ∧ r.testBit y = true) := by
  constructor
  · intro h y ⟨h1, h2⟩; exact disj h h1 h2
  · intro h
    apply Nat.eq_of_testBit_eq
    intro i
    rw [Nat.testBit_and, Nat.zero_testBit]
    cases h1 : l.testBit i <;> cases h2 : r.testBit i <;> simp
    exact h i ⟨h1, h2⟩

/-- the penalties of the two children against the node's own count: `pen + pen = κ + δ` with `δ = 0` exactly on the node's set -/
theorem pens_split (a b : SS) (y : Nat) :
    (a &&& b = 0 → pen a y + pen b y = 1 + (if (a ||| b).testBit y = true then 0 else 1)) ∧
    (a &&& b ≠ 0 → pen a y + pen b y =
      (if (a &&& b).testBit y = true then 0 else if a.testBit y = true ∨ b.testBit y = true then 1 else 2)) := by
  constructor
  · intro h0
    have hd := (and_eq_zero_iff a b).mp h0 y
    simp only [pen, Nat.testBit_or]
    cases h1 : a.testBit y <;> cases h2 : b.testBit y <;> simp_all
  · intro _
    simp only [pen, Nat.testBit_and]
    cases h1 : a.testBit y <;> cases h2 : b.testBit y <;> simp

theorem finalSet_testBit (p c l r : SS) (y : Nat) :
    (finalSet p c l r).testBit y =
      if p &&& c = p then p.testBit y
      else if l &&& r = 0 then (p.testBit y || c.testBit y)
      else ((p.testBit y && l.testBit y) || (p.testBit y && r.testBit y) || c.testBit y) := by
  unfold finalSet
  by_cases h1 : p &&& c = p
  · simp [h1]
  · by_cases h2 : l &&& r = 0
    · simp [h1, h2, Nat.testBit_or]
    · simp [h1, h2, Nat.testBit_or, Nat.testBit_and]

theorem min_cases (u v : Nat) : ∃ m, min u v = m ∧ ((u ≤ v ∧ m = u) ∨ (v ≤ u ∧ m = v)) := by
  rcases Nat.le_total u v with h | h
  · exact ⟨u, Nat.min_eq_left h, Or.inl ⟨h, rfl⟩⟩
  · exact ⟨v, Nat.min_eq_right h, Or.inr ⟨h, rfl⟩⟩

theorem pen_bool (F : SS) (y : Nat) : pen F y = if F.testBit y = true then 0 else 1 := rfl

/-- **the up-pass rule is exact** (arithmetic core).  `hh` is what the rest of the tree charges the parent's state, `κ'` the parent's
    optimum above the Fitch counts, `F` the parent's optimal states; then `finalSet` yields exactly the child's optimal states. -/
theorem rule_exact (F a b : SS) (hh : Nat → Nat) (μ x0 κ' x1 : Nat)
    (hx0 : hh x0 = μ) (hμ : ∀ x, μ ≤ hh x)
    (hx1 : pen (comb a b).1 x1 + hh x1 = κ') (hκ : ∀ x, κ' ≤ pen (comb a b).1 x + hh x)
    (hF : ∀ x, F.testBit x = true ↔ pen (comb a b).1 x + hh x = κ') (y : Nat) :
    (finalSet F (comb a b).1 a b).testBit y = true ↔
      pen a y + pen b y + min (hh y) (1 + μ) = (comb a b).2 + κ' := by
  have hk1 : μ ≤ κ' := by have := hμ x1; omega
  have hk2 : κ' ≤ μ + 1 := by have := hκ x0; have := pen_le_one (comb a b).1 x0; omega
  have hy1 := hμ y
  have hFy := hF y
  have hκy := hκ y
  obtain ⟨m, hm, hmc⟩ := min_cases (hh y) (1 + μ)
  rw [hm, finalSet_testBit]
  by_cases hA : κ' = μ
  · -- the parent's optimal states all lie in the node's set: the final set is the parent's
    have hsub : F &&& (comb a b).1 = F := by
      rw [and_eq_iff_subset]
      intro x hx
      have h1 := (hF x).mp hx
      have h2 := hμ x
      apply pen_eq_zero.mp
      omega
    rw [if_pos hsub, hFy]
    rcases comb_cases a b with ⟨h0, hc⟩ | ⟨h0, hc⟩
    · have hd := (and_eq_zero_iff a b).mp h0 y
      rw [hc] at hκy ⊢
      simp only [pen_bool, Nat.testBit_or] at *
      cases h1 : a.testBit y <;> cases h2 : b.testBit y <;> simp [h1, h2] at hd hκy ⊢ <;> omega
    · rw [hc] at hκy ⊢
      simp only [pen_bool, Nat.testBit_and] at *
      cases h1 : a.testBit y <;> cases h2 : b.testBit y <;> simp [h1, h2] at hκy ⊢ <;> omega
  · have hB : κ' = μ + 1 := by omega
    -- `x0` is optimal for the parent and outside the node's set
    have hx0out : (comb a b).1.testBit x0 = false := by
      cases hb : (comb a b).1.testBit x0
      · rfl
      · have := hκ x0
        have : pen (comb a b).1 x0 = 0 := pen_eq_zero.mpr hb
        omega
    have hx0F : F.testBit x0 = true := by
      rw [hF]; simp [pen, hx0out]; omega
    have hnsub : ¬ (F &&& (comb a b).1 = F) := by
      rw [and_eq_iff_subset]
      intro h
      have := h x0 hx0F
      rw [hx0out] at this; cases this
    rw [if_neg hnsub]
    rcases comb_cases a b with ⟨h0, hc⟩ | ⟨h0, hc⟩
    · have hd := (and_eq_zero_iff a b).mp h0 y
      rw [if_pos h0]
      rw [hc] at hκy hFy ⊢
      simp only [pen_bool, Nat.testBit_or] at *
      cases h1 : a.testBit y <;> cases h2 : b.testBit y <;> cases h3 : F.testBit y <;>
        simp [h1, h2, h3] at hd hκy hFy ⊢ <;> omega
    · rw [if_neg h0]
      rw [hc] at hκy hFy ⊢
      simp only [pen_bool, Nat.testBit_and] at *
      cases h1 : a.testBit y <;> cases h2 : b.testBit y <;> cases h3 : F.testBit y <;>
        simp [h1, h2, h3] at hκy hFy ⊢ <;> omega

/-- the optimum of a binary node and its optimal root states, in closed form -/
theorem opt_root {l r : B} (hl : NonEmptyLeaves l) (hr : NonEmptyLeaves r) {e : Nat → Nat} {k : Nat}
    (hopt : IsOpt (.node l r) e k) :
    (∀ x, k ≤ (fitch l).2 + (fitch r).2 + pen (fitch l).1 x + pen (fitch r).1 x + e x) ∧
    (∃ x, (fitch l).2 + (fitch r).2 + pen (fitch l).1 x + pen (fitch r).1 x + e x = k) ∧
    (∀ x, Mpr (.node l r) e k [] x ↔ (fitch l).2 + (fitch r).2 + pen (fitch l).1 x + pen (fitch r).1 x + e x = k) := by
  have h1 : ∀ x, k ≤ (fitch l).2 + (fitch r).2 + pen (fitch l).1 x + pen (fitch r).1 x + e x := by
    intro x
    obtain ⟨al, ar, hvl, hvr, hc⟩ := node_cost_upper hl hr x
    have := hopt.1 (.node x al ar) ⟨hvl, hvr⟩
    simp only [Tot, root_node] at this; omega
  refine ⟨h1, ?_, ?_⟩
  · obtain ⟨a, hv, ht⟩ := hopt.2
    obtain ⟨s, al, ar, rfl, hvl, hvr⟩ := valid_node_inv hv
    have h2 := node_cost_lower (y := s) hvl hvr
    have h3 := h1 s
    simp only [Tot, root_node] at ht
    exact ⟨s, by omega⟩
  · intro x
    constructor
    · rintro ⟨a, hv, ht, ha⟩
      obtain ⟨s, al, ar, rfl, hvl, hvr⟩ := valid_node_inv hv
      have hs : s = x := by simpa [A.at, A.root] using ha
      subst hs
      have h2 := node_cost_lower (y := s) hvl hvr
      have h3 := h1 s
      simp only [Tot, root_node] at ht
      omega
    · intro hx
      obtain ⟨al, ar, hvl, hvr, hc⟩ := node_cost_upper hl hr x
      exact ⟨.node x al ar, ⟨hvl, hvr⟩, by simp only [Tot, root_node]; omega, by simp [A.at, A.root]⟩

/-- the set the up pass leaves on an internal child is exactly the set of the child's optimal root states -/
theorem child_final_exact {cl cr o : B} (hc : NonEmptyLeaves (.node cl cr)) {e : Nat → Nat} {k : Nat} (F : SS)
    (hroot : ∀ x, k ≤ (fitch (.node cl cr)).2 + (fitch o).2 + pen (fitch (.node cl cr)).1 x + pen (fitch o).1 x + e x)
    (hatt : ∃ x, (fitch (.node cl cr)).2 + (fitch o).2 + pen (fitch (.node cl cr)).1 x + pen (fitch o).1 x + e x = k)
    (hF : ∀ x, F.testBit x = true ↔
      (fitch (.node cl cr)).2 + (fitch o).2 + pen (fitch (.node cl cr)).1 x + pen (fitch o).1 x + e x = k)
    {μ x0 : Nat} (hx0 : hOf o e x0 = μ) (hμ : ∀ x, μ ≤ hOf o e x)
    (hoptc : IsOpt (.node cl cr) (eChild o e μ) k) (y : Nat) :
    (childFinal F (.node cl cr)).testBit y = true ↔ Mpr (.node cl cr) (eChild o e μ) k [] y := by
  obtain ⟨x1, hx1⟩ := hatt
  have hfit : fitch (.node cl cr) = ((comb (fitch cl).1 (fitch cr).1).1,
      (fitch cl).2 + (fitch cr).2 + (comb (fitch cl).1 (fitch cr).1).2) := rfl
  rw [hfit] at hroot hF hx1
  simp only at hroot hF hx1
  have hrule := rule_exact F (fitch cl).1 (fitch cr).1 (hOf o e) μ x0
    (pen (comb (fitch cl).1 (fitch cr).1).1 x1 + hOf o e x1) x1 hx0 hμ rfl
    (by intro x; have := hroot x; simp only [hOf]; omega)
    (by intro x; rw [hF x]; simp only [hOf]; omega) y
  have hchild := (opt_root hc.1 hc.2 hoptc).2.2 y
  rw [hchild]
  simp only [childFinal, hfit]
  rw [hrule]
  simp only [eChild, hOf] at *
  omega

/-- **the up pass is exact at every internal node** (generalised over the cost `e` the rest of the tree charges the root state) -/
theorem mpr_gen : ∀ (t : B), NonEmptyLeaves t → ∀ (e : Nat → Nat) (k : Nat) (F : SS), IsOpt t e k →
    (∀ x, F.testBit x = true ↔ Mpr t e k [] x) →
    ∀ (p : Path) (l r : B), Bt.sub t p = some (.node l r) → ∀ G, finAt F t p = some G →
    ∀ s, G.testBit s = true ↔ Mpr t e k p s
  | .leaf ss, _, _, _, _, _, _, p, l, r, hsub, _, _, _ => by
    cases p <;> simp [Bt.sub] at hsub
  | .node tl tr, hne, e, k, F, hopt, hF, [], l, r, _, G, hG, s => by
    simp only [finAt, Option.some.injEq] at hG
    subst hG
    exact hF s
  | .node tl tr, hne, e, k, F, hopt, hF, false :: p, l, r, hsub, G, hG, s => by
    simp only [Bt.sub] at hsub
    simp only [finAt] at hG
    obtain ⟨x0, hx0⟩ := exists_min (hOf tr e)
    have h2 := isOpt_left hopt
    have hoptc := step_opt hne.2 (rfl : hOf tr e x0 = hOf tr e x0) hx0 h2
    rw [mpr_left, step_mpr hne.2 rfl hx0 h2]
    refine mpr_gen tl hne.1 _ k (childFinal F tl) hoptc ?_ p l r hsub G hG s
    cases tl with
    | leaf sl => cases p <;> simp [Bt.sub] at hsub
    | node cl cr =>
      obtain ⟨r1, r2, r3⟩ := opt_root hne.1 hne.2 hopt
      exact child_final_exact hne.1 F r1 r2 (fun x => by rw [hF x, r3 x]) rfl hx0 hoptc
  | .node tl tr, hne, e, k, F, hopt, hF, true :: p, l, r, hsub, G, hG, s => by
    simp only [Bt.sub] at hsub
    simp only [finAt] at hG
    obtain ⟨x0, hx0⟩ := exists_min (hOf tl e)
    have h2 := isOpt_right hopt
    have hoptc := step_opt hne.1 (rfl : hOf tl e x0 = hOf tl e x0) hx0 h2
    rw [mpr_right, step_mpr hne.1 rfl hx0 h2]
    refine mpr_gen tr hne.2 _ k (childFinal F tr) hoptc ?_ p l r hsub G hG s
    cases tr with
    | leaf sl => cases p <;> simp [Bt.sub] at hsub
    | node cl cr =>
      obtain ⟨r1, r2, r3⟩ := opt_root hne.1 hne.2 hopt
      exact child_final_exact hne.2 F (fun x => by have := r1 x; omega)
        (by obtain ⟨x, hx⟩ := r2; exact ⟨x, by omega⟩)
        (fun x => by rw [hF x, r3 x]; omega) rfl hx0 hoptc

end Aux
end DendroModel.C16
