import DendroModel.Model.C02
/-! the tokenizer's fuel (`nextTok` uses `length + 1`) is enough on EVERY input: `next` never answers `.fuel` -/
namespace DendroModel.C02
namespace Aux

theorem skipWs_len : ∀ l : Str, (skipWs l).length ≤ l.length
  | [] => by simp [skipWs]
  | c :: cs => by
    simp only [skipWs]; split
    · have := skipWs_len cs; simp; omega
    · simp

theorem readPlain_rest_le (pu : Bool) : ∀ (n : Nat) (l : Str), l.length ≤ n → ∀ (acc : Str) (cm : List Str),
    (readPlain pu l acc cm).2.2.length ≤ l.length := by
  intro n
  induction n with
  | zero =>
    intro l hl acc cm
    have : l = [] := by cases l <;> simp_all
    subst this; simp [readPlain]
  | succ n ihn =>
    intro l hl acc cm
    cases l with
    | nil => simp [readPlain]
    | cons d ds =>
      rw [readPlain]
      split
      · simp
      · split
        · simp
        · split
          · have h1 := readComment_len ds 1 []
            have h2 := ihn (readComment ds 1 []).2 (by simp at hl; omega) acc (cm ++ [(readComment ds 1 []).1])
            simp; omega
          · have h2 := ihn ds (by simp at hl; omega) (acc ++ [conv pu d]) cm
            simp; omega

theorem readPlain_first (pu : Bool) (c : Char) (cs acc : Str) (cm : List Str)
    (h1 : isUncap c = false) (h2 : isCap c = false) :
    (readPlain pu (c :: cs) acc cm).2.2.length ≤ cs.length := by
  rw [readPlain]
  simp only [h1, h2, Bool.false_eq_true, if_false]
  split
  · exact Nat.le_trans (readPlain_rest_le pu _ _ (Nat.le_refl _) _ _) (readComment_len cs 1 [])
  · exact readPlain_rest_le pu _ _ (Nat.le_refl _) _ _

theorem next_no_fuel (pu : Bool) : ∀ (f : Nat) (inp : Str) (cm : List Str), inp.length < f → next pu f inp cm ≠ .fuel := by
  intro f
  induction f with
  | zero => intro inp cm h; omega
  | succ f ih =>
    intro inp cm h
    rw [next]
    have hws := skipWs_len inp
    split
    · simp
    · rename_i c cs hsk
      rw [hsk] at hws
      simp only [List.length_cons] at hws
      split
      · simp
      · split
        · split <;> simp
        · rename_i hcap hq
          have hunc : isUncap c = false := by
            cases hu : isUncap c with
            | false => rfl
            | true =>
              -- skipWs never returns a list that starts with whitespace
              exfalso
              have : ∀ l : Str, ∀ c cs, skipWs l = c :: cs → isUncap c = false := by
                intro l
                induction l with
                | nil => intro c cs h; simp [skipWs] at h
                | cons d ds ihl =>
                  intro c cs h
                  simp only [skipWs] at h
                  split at h
                  · exact ihl c cs h
                  · rename_i hd
                    cases h
                    simpa using hd
              have := this inp c cs hsk
              rw [hu] at this; cases this
          have hfirst := readPlain_first pu c cs [] cm hunc (by simpa using hcap)
          cases hr : readPlain pu (c :: cs) [] cm with
          | mk t r2 =>
            obtain ⟨cm', rest⟩ := r2
            rw [hr] at hfirst
            simp only at hfirst ⊢
            split
            · split
              · simp
              · exact ih rest cm' (by omega)
            · simp


theorem readQuoted_len (q : Char) : ∀ (n : Nat) (l acc t rest : Str), l.length ≤ n →
    readQuoted q l acc = some (t, rest) → rest.length ≤ l.length := by
  intro n
  induction n with
  | zero =>
    intro l acc t rest hl h
    have : l = [] := by cases l <;> simp_all
    subst this; simp [readQuoted] at h
  | succ n ihn =>
    intro l acc t rest hl h
    cases l with
    | nil => simp [readQuoted] at h
    | cons d ds =>
      rw [readQuoted.eq_def] at h
      simp only at h
      split at h
      · cases ds with
        | nil => simp at h; rw [← h.2]; simp
        | cons e es =>
          simp only at h
          split at h
          · have := ihn es _ t rest (by simp at hl; omega) h; simp; omega
          · simp at h; rw [← h.2]; simp
      · have := ihn ds _ t rest (by simp at hl; omega) h; simp; omega

theorem skipWs_head : ∀ (l : Str) (c : Char) (cs : Str), skipWs l = c :: cs → isUncap c = false := by
  intro l
  induction l with
  | nil => intro c cs h; simp [skipWs] at h
  | cons d ds ihl =>
    intro c cs h
    simp only [skipWs] at h
    split at h
    · exact ihl c cs h
    · rename_i hd
      cases h
      simpa using hd

/-- every token consumes at least one character -/
theorem next_shorter (pu : Bool) : ∀ (f : Nat) (inp : Str) (cm : List Str) (t : Str) (q : Bool) (cm' : List Str) (rest : Str),
    next pu f inp cm = .tok t q cm' rest → rest.length < inp.length := by
  intro f
  induction f with
  | zero => intro inp cm t q cm' rest h; simp [next] at h
  | succ f ih =>
    intro inp cm t q cm' rest h
    rw [next] at h
    have hws := skipWs_len inp
    split at h
    · cases h
    · rename_i c cs hsk
      rw [hsk] at hws
      simp only [List.length_cons] at hws
      split at h
      · cases h; omega
      · split at h
        · split at h
          · cases h
          · rename_i t' rest' hq
            cases h
            have := readQuoted_len c _ cs [] _ _ (Nat.le_refl _) hq; omega
        · rename_i hcap hq
          have hunc := skipWs_head inp c cs hsk
          have hfirst := readPlain_first pu c cs [] cm hunc (by simpa using hcap)
          cases hr : readPlain pu (c :: cs) [] cm with
          | mk t1 r2 =>
            obtain ⟨cm1, rest1⟩ := r2
            rw [hr] at hfirst h
            simp only at hfirst h
            split at h
            · split at h
              · cases h
              · have := ih rest1 cm1 t q cm' rest h; omega
            · cases h; omega

/-- the token stream does not depend on the fuel once it exceeds the length of the input: `tokenizeAll` never
    stops for lack of fuel -/
theorem tokenize_fuel_indep (pu : Bool) : ∀ (f : Nat) (inp : Str), inp.length < f → tokenize pu f inp = tokenize pu (f + 1) inp := by
  intro f
  induction f with
  | zero => intro inp h; omega
  | succ g ih =>
    intro inp h
    rw [tokenize, tokenize]
    cases hn : nextTok pu inp with
    | eof => rfl
    | err => rfl
    | fuel => rfl
    | tok t q cm rest =>
      have := next_shorter pu _ inp [] t q cm rest hn
      simp only
      rw [ih rest (by omega)]

theorem tokenize_fuel_any (pu : Bool) (inp : Str) : ∀ k, tokenize pu (inp.length + 1 + k) inp = tokenize pu (inp.length + 1) inp := by
  intro k
  induction k with
  | zero => rfl
  | succ k ih =>
    rw [← ih, show inp.length + 1 + (k + 1) = (inp.length + 1 + k) + 1 by omega]
    exact (tokenize_fuel_indep pu _ inp (by omega)).symm

end Aux
end DendroModel.C02
