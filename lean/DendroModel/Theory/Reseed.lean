import DendroModel.Theory.Inj
/-! Prototype: one edge inversion at the root (the step `reseed_at` iterates) keeps the set of
    normalised (unrooted) split masks — C01 c (unrooted), C04 c, C07 a -/
namespace DendroModel.Hier


theorem bits_sdiff (L m : Nat) : bits (sdiff L m) = bits L \ bits m := by
  ext i
  simp only [sdiff, bits, Set.mem_setOf_eq, Nat.testBit_xor, Nat.testBit_and, Set.mem_diff]
  cases L.testBit i <;> cases m.testBit i <;> simp

theorem norm_compl (L lo m : Nat) (hm : bits m ⊆ bits L) (hlo : bits lo ⊆ bits L)
    (hsingle : ∀ a, bits lo ⊆ bits a ∨ Disjoint (bits lo) (bits a)) (hne : lo ≠ 0) :
    norm L lo (sdiff L m) = norm L lo m := by
  unfold norm
  have hmL : m &&& L = m := (and_eq_left_iff m L).mpr hm
  by_cases h : m &&& lo ≠ 0
  · -- lo ⊆ m, so lo is disjoint from L \ m
    have hsub : bits lo ⊆ bits m := by
      rcases hsingle m with h1 | h1
      · exact h1
      · exfalso; apply h; rw [Nat.and_comm]; exact (and_eq_zero_iff _ _).mpr h1
    have hz : sdiff L m &&& lo = 0 := by
      rw [and_eq_zero_iff, bits_sdiff]
      exact Set.disjoint_left.mpr (fun x hx hxl => hx.2 (hsub hxl))
    simp only [h, hz, ne_eq, not_true_eq_false, not_false_eq_true, if_true, if_false]
    apply bits_inj; rw [bits_and, bits_sdiff]
    exact Set.inter_eq_left.mpr Set.diff_subset
  · push_neg at h
    have hdis : Disjoint (bits m) (bits lo) := (and_eq_zero_iff _ _).mp h
    have hnz : sdiff L m &&& lo ≠ 0 := by
      intro hz
      have hd := (and_eq_zero_iff _ _).mp hz
      rcases ne_zero_bits hne with ⟨x, hx⟩
      have : x ∈ bits (sdiff L m) := by
        rw [bits_sdiff]; exact ⟨hlo hx, fun hxm => (Set.disjoint_left.mp hdis) hxm hx⟩
      exact (Set.disjoint_left.mp hd) this hx
    simp only [hnz, h, ne_eq, not_false_eq_true, if_true, not_true_eq_false, if_false]
    apply bits_inj
    rw [bits_sdiff, bits_sdiff, hmL]
    ext x; simp only [Set.mem_diff]; constructor
    · rintro ⟨hL, hn⟩; by_contra hxm; exact hn ⟨hL, hxm⟩
    · intro hxm; exact ⟨hm hxm, fun hh => hh.2 hxm⟩

/-- the inversion step: child `x = node ds` (at any position, given as a split of the child list)
    becomes the root; the old root, minus `x`, is appended as its last child -/
def invertAt (pre : List T) (ds : List T) (post : List T) : T :=
  .node (ds ++ [.node (pre ++ post)])

def usplits (lo : Nat) (t : T) : List Nat :=
  match t with
  | .leaf _ => []
  | .node cs => (cladesL cs).map (norm (maskL cs) lo)

theorem maskL_invert (pre ds post : List T) :
    maskL (ds ++ [.node (pre ++ post)]) = maskL (pre ++ .node ds :: post) := by
  apply bits_inj
  simp only [maskL_append, bits_or, maskL, mask, Nat.or_zero]
  ext x; simp only [Set.mem_union]; tauto

theorem usplits_invert (lo : Nat) (pre ds post : List T)
    (hg : GoodL (pre ++ .node ds :: post)) (hlo : bits lo ⊆ bits (maskL (pre ++ .node ds :: post)))
    (hsingle : ∀ a, bits lo ⊆ bits a ∨ Disjoint (bits lo) (bits a)) (hne : lo ≠ 0) :
    ∀ s, s ∈ usplits lo (invertAt pre ds post) ↔ s ∈ usplits lo (.node (pre ++ .node ds :: post)) := by
  intro s
  simp only [usplits, invertAt, List.mem_map]
  rw [maskL_invert]
  set L := maskL (pre ++ .node ds :: post) with hL
  -- the two edge sets differ only in  maskL ds  vs  maskL (pre ++ post) = L \ maskL ds
  have hcompl : maskL (pre ++ post) = sdiff L (maskL ds) := by
    apply bits_inj
    rw [bits_sdiff, hL]
    simp only [maskL_append, bits_or, maskL, mask]
    -- disjointness of ds from pre and post
    have hdis : Disjoint (bits (maskL ds)) (bits (maskL pre) ∪ bits (maskL post)) := by
      rw [Set.disjoint_union_right]
      constructor
      · -- every member of pre is disjoint from node ds
        rw [Set.disjoint_left]; intro x hx hxp
        rw [bits_maskL] at hxp; simp only [Set.mem_iUnion] at hxp
        rcases hxp with ⟨c, hc, hxc⟩
        have hcm : c ∈ pre ++ T.node ds :: post := by simp [hc]
        have hxm : T.node ds ∈ pre ++ T.node ds :: post := by simp
        by_cases hcx : c = T.node ds
        · -- c occurs in pre and node ds occurs later: two positions with the same non-empty mask
          subst hcx
          have := masks_nodup hg
          rw [List.map_append, List.map_cons] at this
          have hmem : mask (T.node ds) ∈ pre.map mask := List.mem_map.mpr ⟨_, hc, rfl⟩
          exact (List.nodup_append.mp this).2.2 _ hmem _ (by simp) rfl
        · have hz : mask c &&& mask (T.node ds) = 0 := by
            by_contra hnz; exact hcx (goodL_eq_of_inter hg hcm hxm hnz)
          exact (Set.disjoint_left.mp ((and_eq_zero_iff _ _).mp hz)) hxc (by simpa [mask] using hx)
      · rw [Set.disjoint_left]; intro x hx hxp
        rw [bits_maskL] at hxp; simp only [Set.mem_iUnion] at hxp
        rcases hxp with ⟨c, hc, hxc⟩
        have hcm : c ∈ pre ++ T.node ds :: post := by simp [hc]
        have hxm : T.node ds ∈ pre ++ T.node ds :: post := by simp
        by_cases hcx : c = T.node ds
        · subst hcx
          have := masks_nodup hg
          rw [List.map_append, List.map_cons] at this
          have h2 := (List.nodup_append.mp this).2.1
          rw [List.nodup_cons] at h2
          exact h2.1 (List.mem_map.mpr ⟨_, hc, rfl⟩)
        · have hz : mask c &&& mask (T.node ds) = 0 := by
            by_contra hnz; exact hcx (goodL_eq_of_inter hg hcm hxm hnz)
          exact (Set.disjoint_left.mp ((and_eq_zero_iff _ _).mp hz)) hxc (by simpa [mask] using hx)
    ext x
    simp only [Set.mem_union, Set.mem_diff, Nat.or_zero]
    constructor
    · rintro (h | h)
      · exact ⟨Or.inl h, fun hd => (Set.disjoint_left.mp hdis) hd (Or.inl h)⟩
      · exact ⟨Or.inr (Or.inr h), fun hd => (Set.disjoint_left.mp hdis) hd (Or.inr h)⟩
    · rintro ⟨h | h | h, hn⟩
      · exact Or.inl h
      · exact absurd h hn
      · exact Or.inr h
  have hdsL : bits (maskL ds) ⊆ bits L := by
    rw [hL]; simp only [maskL_append, bits_or, maskL, mask]
    intro x hx; exact Or.inr (Or.inl hx)
  have hnorm : norm L lo (maskL (pre ++ post)) = norm L lo (maskL ds) := by
    rw [hcompl]; exact norm_compl L lo (maskL ds) hdsL hlo hsingle hne
  simp only [cladesL_append, cladesL, clades, List.append_nil, List.mem_append, List.mem_cons]
  constructor
  · rintro ⟨a, ha, rfl⟩
    rcases ha with h | h | h | h
    · exact ⟨a, Or.inr (Or.inl (Or.inr h)), rfl⟩
    · subst h; exact ⟨maskL ds, Or.inr (Or.inl (Or.inl rfl)), hnorm.symm⟩
    · exact ⟨a, Or.inl h, rfl⟩
    · exact ⟨a, Or.inr (Or.inr h), rfl⟩
  · rintro ⟨a, ha, rfl⟩
    rcases ha with h | (h | h) | h
    · exact ⟨a, Or.inr (Or.inr (Or.inl h)), rfl⟩
    · subst h; exact ⟨maskL (pre ++ post), Or.inr (Or.inl rfl), hnorm⟩
    · exact ⟨a, Or.inl h, rfl⟩
    · exact ⟨a, Or.inr (Or.inr (Or.inr h)), rfl⟩

end DendroModel.Hier
