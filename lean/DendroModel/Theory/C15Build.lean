import DendroModel.Model.C15Ext
import Mathlib.Data.List.Nodup
import Mathlib.Logic.Function.Iterate
import Mathlib.Tactic
/-! C15 — the tree the protocol parser builds (`buildTree` from the seed of a parent array) has pairwise distinct
node ids, for EVERY parent array (a cycle in the array is unreachable from an entry whose parent is -1), and every
child listed under a node points back to it in the array.  `up` is the parent pointer read off the array. -/
namespace DendroModel.C15.BuildAux
open DendroModel DendroModel.C15

/-- the parent pointer of the array: negative values (the seed's -1) are absorbing -/
def up (par : Array Int) (j : Int) : Int := if j < 0 then j else par[j.toNat]!

theorem up_nat (par : Array Int) (k : Nat) : up par (k : Int) = par[k]! := by
  unfold up
  have : ¬ ((k : Int) < 0) := by omega
  simp [this]

theorem up_iter_neg (par : Array Int) (j : Int) (hj : j < 0) : ∀ d, (up par)^[d] j = j
  | 0 => rfl
  | d + 1 => by
    rw [Function.iterate_succ_apply]
    have : up par j = j := by unfold up; simp [hj]
    rw [this]; exact up_iter_neg par j hj d

/-- no proper iterate of the parent pointer returns to `i` -/
def Acyc (par : Array Int) (i : Nat) : Prop := ∀ d, 1 ≤ d → (up par)^[d] (i : Int) ≠ (i : Int)

theorem acyc_root (par : Array Int) (r : Nat) (h : par[r]! = -1) : Acyc par r := by
  intro d hd
  obtain ⟨e, rfl⟩ : ∃ e, d = e + 1 := ⟨d - 1, by omega⟩
  rw [Function.iterate_succ_apply, up_nat, h, up_iter_neg par (-1) (by omega)]
  omega

theorem acyc_kid (par : Array Int) (i k : Nat) (hk : par[k]! = (i : Int)) (h : Acyc par i) : Acyc par k := by
  intro d hd hcyc
  apply h d hd
  have : (up par)^[d] (up par (k : Int)) = up par ((up par)^[d] (k : Int)) := by
    rw [← Function.iterate_succ_apply, Function.iterate_succ_apply']
  rw [hcyc, up_nat, hk] at this
  exact this

def idsOf (t : T) : List Nat := (T.nodes t).map T.id

theorem nodesL_map_ids {α : Type} (g : α → T) : ∀ l : List α,
    (T.nodesL (l.map g)).map T.id = l.flatMap (fun k => idsOf (g k))
  | [] => by simp [T.nodesL]
  | k :: l => by simp [T.nodesL, idsOf, nodesL_map_ids g l]

theorem idsOf_build_succ (f : Nat) (par : Array Int) (tax : Array (Option Nat)) (lens : Array (Option Frac))
    (labs : Array (Option String)) (i : Nat) :
    idsOf (buildTree (f + 1) par tax lens labs i)
      = i :: ((List.range par.size).filter (fun j => par[j]! == (i : Int))).flatMap
          (fun k => idsOf (buildTree f par tax lens labs k)) := by
  simp only [buildTree, idsOf, T.nodes, List.map_cons, T.id]
  rw [nodesL_map_ids]
  rfl

/-- every id in the built subtree climbs to the subtree's root through the array -/
theorem ids_climb (par : Array Int) (tax : Array (Option Nat)) (lens : Array (Option Frac)) (labs : Array (Option String)) :
    ∀ (f i m : Nat), m ∈ idsOf (buildTree f par tax lens labs i) → ∃ d, (up par)^[d] (m : Int) = (i : Int)
  | 0, i, m, h => by
    simp [buildTree, idsOf, T.nodes, T.nodesL, T.id] at h
    exact ⟨0, by simp [h]⟩
  | f + 1, i, m, h => by
    rw [idsOf_build_succ] at h
    rcases List.mem_cons.mp h with rfl | h
    · exact ⟨0, rfl⟩
    · obtain ⟨k, hk, hm⟩ := List.mem_flatMap.mp h
      obtain ⟨d, hd⟩ := ids_climb par tax lens labs f k m hm
      have hpk : par[k]! = (i : Int) := by
        have := (List.mem_filter.mp hk).2
        simpa using this
      refine ⟨d + 1, ?_⟩
      rw [Function.iterate_succ_apply', hd, up_nat, hpk]

/-- distinct ids, for any fuel and any array, from any entry that is not on a cycle -/
theorem ids_nodup (par : Array Int) (tax : Array (Option Nat)) (lens : Array (Option Frac)) (labs : Array (Option String)) :
    ∀ (f i : Nat), Acyc par i → (idsOf (buildTree f par tax lens labs i)).Nodup
  | 0, i, _ => by simp [buildTree, idsOf, T.nodes, T.nodesL]
  | f + 1, i, hac => by
    rw [idsOf_build_succ]
    have hkid : ∀ k ∈ (List.range par.size).filter (fun j => par[j]! == (i : Int)), par[k]! = (i : Int) := by
      intro k hk
      have := (List.mem_filter.mp hk).2
      simpa using this
    refine List.nodup_cons.mpr ⟨?_, List.nodup_flatMap.mpr ⟨?_, ?_⟩⟩
    · intro hmem
      obtain ⟨k, hk, hm⟩ := List.mem_flatMap.mp hmem
      obtain ⟨d, hd⟩ := ids_climb par tax lens labs f k i hm
      apply hac (d + 1) (by omega)
      rw [Function.iterate_succ_apply', hd, up_nat, hkid k hk]
    · intro k hk
      exact ids_nodup par tax lens labs f k (acyc_kid par i k (hkid k hk) hac)
    · have hnd : ((List.range par.size).filter (fun j => par[j]! == (i : Int))).Nodup :=
        List.Nodup.filter _ List.nodup_range
      refine List.Pairwise.imp_of_mem ?_ hnd
      intro k k' hk hk' hne
      -- an id below both k and k' would put i on a cycle
      have key : ∀ (a b : Nat) (m : Nat) (da db : Nat), par[a]! = (i : Int) → par[b]! = (i : Int) → a ≠ b →
          (up par)^[da] (m : Int) = (a : Int) → (up par)^[db] (m : Int) = (b : Int) → da ≤ db → False := by
        intro a b m da db ha hb hab hda hdb hle
        obtain ⟨e, rfl⟩ : ∃ e, db = e + da := ⟨db - da, by omega⟩
        rw [Function.iterate_add_apply, hda] at hdb
        by_cases he : e = 0
        · subst he; simp at hdb; exact hab (by exact_mod_cast hdb)
        · apply hac e (by omega)
          have : (up par)^[e] (up par (a : Int)) = up par ((up par)^[e] (a : Int)) := by
            rw [← Function.iterate_succ_apply, Function.iterate_succ_apply']
          rw [hdb, up_nat, up_nat, ha, hb] at this
          exact this
      intro m hm hm'
      obtain ⟨d, hd⟩ := ids_climb par tax lens labs f k m hm
      obtain ⟨d', hd'⟩ := ids_climb par tax lens labs f k' m hm'
      rcases Nat.le_total d d' with hle | hle
      · exact key k k' m d d' (hkid k hk) (hkid k' hk') hne hd hd' hle
      · exact key k' k m d' d (hkid k' hk') (hkid k hk) (Ne.symm hne) hd' hd hle


/-- what `parseTree` returns is `buildTree` over the array `parsePar` reads, started at an entry whose parent is -1 -/
theorem parseTree_build (toks : List String) (tree : T) (rest : List String) (h : parseTree toks = some (tree, rest)) :
    ∃ (f : Nat) (par : Array Int) (tax : Array (Option Nat)) (lens : Array (Option Frac)) (labs : Array (Option String))
      (r : Nat), parsePar toks = some par ∧ tree = buildTree f par tax lens labs r ∧ par[r]! = -1 := by
  unfold parseTree at h
  unfold parsePar
  split at h
  · simp at h
  · split at h
    · simp at h
    · rename_i hn
      split at h
      · simp at h
      · simp only [] at h
        split at h
        · rename_i hps _ _ _
          split at h
          · simp at h
          · rename_i root hroot
            simp only [Option.some.injEq, Prod.mk.injEq] at h
            refine ⟨_, _, _, _, _, root, ?_, h.1.symm, ?_⟩
            · simp only [hn, hps, Option.map_some]
            · have := List.find?_some hroot
              simpa using this
        · simp at h

theorem nodes_eq' (t : T) : T.nodes t = t :: T.nodesL t.cs := by
  cases t; simp [T.nodes, T.cs]

mutual
theorem find?_sublist (i : Nat) : ∀ (t t' : T), T.find? i t = some t' → (T.nodes t').Sublist (T.nodes t)
  | .node j x l s cs, t', h => by
    simp only [T.find?] at h
    split at h
    · simp only [Option.some.injEq] at h; subst h; exact List.Sublist.refl _
    · have := findL?_sublist i cs t' h
      simp only [T.nodes]
      exact this.trans (List.sublist_cons_self _ _)
theorem findL?_sublist (i : Nat) : ∀ (cs : List T) (t' : T), T.findL? i cs = some t' → (T.nodes t').Sublist (T.nodesL cs)
  | [], t', h => by simp [T.findL?] at h
  | c :: cs, t', h => by
    simp only [T.findL?] at h
    cases hc : T.find? i c with
    | some r =>
      rw [hc] at h
      simp only [Option.some.injEq] at h
      subst h
      simp only [T.nodesL]
      exact (find?_sublist i c r hc).trans (List.sublist_append_left _ _)
    | none =>
      rw [hc] at h
      simp only [T.nodesL]
      exact (findL?_sublist i cs t' h).trans (List.sublist_append_right _ _)
end

theorem hid_of_nodup (t : T) (h : (idsOf t).Nodup) : ∀ x ∈ T.nodesL t.cs, x.id ≠ t.id := by
  unfold idsOf at h
  rw [nodes_eq', List.map_cons, List.nodup_cons] at h
  intro x hx hxe
  exact h.1 (hxe ▸ List.mem_map_of_mem hx)

/-! ### the children listed under a node point back to it in the array -/

theorem build_id (f : Nat) (par : Array Int) (tax : Array (Option Nat)) (lens : Array (Option Frac))
    (labs : Array (Option String)) (i : Nat) : (buildTree f par tax lens labs i).id = i := by
  cases f <;> simp [buildTree, T.id]

theorem mem_nodesL_map {α : Type} (g : α → T) (x : T) : ∀ l : List α,
    x ∈ T.nodesL (l.map g) → ∃ k ∈ l, x ∈ T.nodes (g k)
  | [], h => by simp [T.nodesL] at h
  | k :: l, h => by
    simp only [List.map_cons, T.nodesL, List.mem_append] at h
    rcases h with h | h
    · exact ⟨k, by simp, h⟩
    · obtain ⟨k', hk', hx⟩ := mem_nodesL_map g x l h
      exact ⟨k', by simp [hk'], hx⟩

/-- every node `b` of the built tree lists exactly children whose array parent is `b` -/
theorem build_linked (par : Array Int) (tax : Array (Option Nat)) (lens : Array (Option Frac)) (labs : Array (Option String)) :
    ∀ (f i : Nat) (b : T), b ∈ T.nodes (buildTree f par tax lens labs i) → ∀ x ∈ b.cs, par[x.id]! = (b.id : Int)
  | 0, i, b, hb => by
    simp [buildTree, T.nodes, T.nodesL] at hb
    subst hb
    simp [T.cs]
  | f + 1, i, b, hb => by
    simp only [buildTree, T.nodes, List.mem_cons] at hb
    rcases hb with rfl | hb
    · intro x hx
      simp only [T.cs, List.mem_map] at hx
      obtain ⟨k, hk, rfl⟩ := hx
      rw [build_id]
      have := (List.mem_filter.mp hk).2
      simpa [T.id] using this
    · obtain ⟨k, _, hbk⟩ := mem_nodesL_map _ b _ hb
      exact build_linked par tax lens labs f k b hbk

end DendroModel.C15.BuildAux
