import DendroModel.Model.C06Proto
import Mathlib.Tactic.Ring
/-! Helper lemmas for the queue-level worker protocol of C06 (`Model/C06Proto.lean`): a termination measure and
the invariant of the end-marker protocol under asynchronous delivery. -/
namespace DendroModel.C06.Aux
open DendroModel DendroModel.C06

def wt (w : WState) : Nat := match w.phase with | .fresh => 2 | .asking => 1 | .done => 0
def nd (w : WState) : Nat := match w.phase with | .done => 0 | _ => 1

def sumBy (f : WState → Nat) : List WState → Nat
  | [] => 0
  | w :: r => f w + sumBy f r

def mu (s : PState) : Nat := 2 * s.inflight.length + s.delivered.length + sumBy wt s.ws

theorem sumBy_set (f : WState → Nat) : ∀ (ws : List WState) (i : Nat) (w w' : WState), ws[i]? = some w →
    sumBy f (ws.set i w') + f w = sumBy f ws + f w'
  | [], i, w, w', h => by simp at h
  | x :: r, 0, w, w', h => by
    simp at h; subst h; simp [sumBy]; omega
  | x :: r, i + 1, w, w', h => by
    have := sumBy_set f r i w w' (by simpa using h)
    simp [sumBy]; omega

theorem flatMap_set_perm {β : Type} (g : WState → List β) : ∀ (ws : List WState) (i : Nat) (w w' : WState), ws[i]? = some w →
    ((ws.set i w').flatMap g ++ g w).Perm (ws.flatMap g ++ g w')
  | [], i, w, w', h => by simp at h
  | x :: r, 0, w, w', h => by
    simp at h; subst h
    simp only [List.set_cons_zero, List.flatMap_cons]
    have h1 : (g w' ++ List.flatMap g r ++ g x).Perm (g x ++ (g w' ++ List.flatMap g r)) := List.perm_append_comm
    have h2 : (g x ++ (g w' ++ List.flatMap g r)).Perm (g x ++ (List.flatMap g r ++ g w')) :=
      List.Perm.append_left _ List.perm_append_comm
    rw [List.append_assoc (g x)]
    exact h1.trans h2
  | x :: r, i + 1, w, w', h => by
    have := flatMap_set_perm g r i w w' (by simpa using h)
    simp only [List.set_cons_succ, List.flatMap_cons, List.append_assoc]
    exact List.Perm.append_left _ this


theorem mem_enabled {b : Bool} {s : PState} {a : Act} (h : a ∈ enabledActs b s) :
    (a = Act.deliver ∧ s.inflight ≠ []) ∨ ∃ i, a = Act.step i ∧ stepEnabled b s i = true := by
  simp only [enabledActs, List.mem_append, List.mem_map, List.mem_filter, List.mem_range] at h
  rcases h with h | ⟨i, ⟨_, hi⟩, rfl⟩
  · left
    by_cases he : s.inflight.isEmpty
    · simp [he] at h
    · simp [he] at h
      exact ⟨h, by intro e; simp [e] at he⟩
  · right; exact ⟨i, rfl, hi⟩

/-- what an enabled worker step looks like -/
inductive StepCase (b : Bool) (s : PState) (i : Nat) : PState → Prop
  | start (w : WState) (hw : s.ws[i]? = some w) (hp : w.phase = .fresh) :
      StepCase b s i { s with ws := s.ws.set i { w with phase := .asking } }
  | quit (w : WState) (hw : s.ws[i]? = some w) (hp : w.phase = .asking) (hd : s.delivered = []) (hb : b = false) :
      StepCase b s i { s with ws := s.ws.set i { w with phase := .done } }
  | take (w : WState) (hw : s.ws[i]? = some w) (hp : w.phase = .asking) (k : Nat) (d : List Item) (hd : s.delivered = Item.file k :: d) :
      StepCase b s i { s with delivered := d, ws := s.ws.set i { w with taken := w.taken ++ [k] } }
  | stop (w : WState) (hw : s.ws[i]? = some w) (hp : w.phase = .asking) (d : List Item) (hd : s.delivered = Item.stop :: d) :
      StepCase b s i { s with delivered := d, ws := s.ws.set i { w with phase := .done } }

theorem step_cases {b : Bool} {s : PState} {i : Nat} (h : stepEnabled b s i = true) : StepCase b s i (stepW b s i) := by
  simp only [stepEnabled] at h
  cases hw : s.ws[i]? with
  | none => simp [hw] at h
  | some w =>
    simp only [hw] at h
    cases hp : w.phase with
    | fresh =>
      have : stepW b s i = { s with ws := s.ws.set i { w with phase := .asking } } := by simp [stepW, hw, hp]
      rw [this]; exact StepCase.start w hw hp
    | done => simp [hp] at h
    | asking =>
      simp only [hp] at h
      cases hd : s.delivered with
      | nil =>
        have hb : b = false := by simpa [hd] using h
        have : stepW b s i = { s with ws := s.ws.set i { w with phase := .done } } := by simp [stepW, hw, hp, hd, hb]
        rw [this]; exact StepCase.quit w hw hp hd hb
      | cons x d =>
        cases x with
        | file k =>
          have : stepW b s i = { s with delivered := d, ws := s.ws.set i { w with taken := w.taken ++ [k] } } := by
            simp [stepW, hw, hp, hd]
          rw [this]; exact StepCase.take w hw hp k d hd
        | stop =>
          have : stepW b s i = { s with delivered := d, ws := s.ws.set i { w with phase := .done } } := by
            simp [stepW, hw, hp, hd]
          rw [this]; exact StepCase.stop w hw hp d hd

theorem mu_apply {b : Bool} {s : PState} {a : Act} (h : a ∈ enabledActs b s) : mu (applyAct b s a) < mu s := by
  rcases mem_enabled h with ⟨rfl, hne⟩ | ⟨i, rfl, hi⟩
  · cases hin : s.inflight with
    | nil => exact absurd hin hne
    | cons x r => simp [applyAct, hin, mu]; omega
  · simp only [applyAct]
    have hc := step_cases hi
    generalize stepW b s i = s' at hc ⊢
    cases hc with
    | start w hw hp =>
      have := sumBy_set wt s.ws i w { w with phase := .asking } hw
      simp only [mu, wt, hp] at this ⊢; omega
    | quit w hw hp hd hb =>
      have := sumBy_set wt s.ws i w { w with phase := .done } hw
      simp only [mu, wt, hp] at this ⊢; omega
    | take w hw hp k d hd =>
      have := sumBy_set wt s.ws i w { w with taken := w.taken ++ [k] } hw
      simp only [mu, wt, hp, hd, List.length_cons] at this ⊢; omega
    | stop w hw hp d hd =>
      have := sumBy_set wt s.ws i w { w with phase := .done } hw
      simp only [mu, wt, hp, hd, List.length_cons] at this ⊢; omega

theorem chosen_mem (a : Act) (as : List Act) (c : Nat) : ((a :: as)[c % (as.length + 1)]?).getD a ∈ a :: as := by
  have hlt : c % (as.length + 1) < (a :: as).length := by simp; exact Nat.mod_lt _ (by omega)
  rw [List.getElem?_eq_getElem hlt]
  exact List.getElem_mem hlt

/-- enough fuel: the run ends where nothing is enabled -/
theorem run_terminal (b : Bool) : ∀ (fuel : Nat) (cs : List Nat) (s : PState), mu s < fuel →
    enabledActs b (runProto b fuel cs s) = [] := by
  intro fuel
  induction fuel with
  | zero => intro cs s h; omega
  | succ fuel ih =>
    intro cs s h
    simp only [runProto]
    cases he : enabledActs b s with
    | nil => simpa using he
    | cons a as =>
      simp only
      apply ih
      have hm : ((a :: as)[(cs.head?.getD 0) % (as.length + 1)]?).getD a ∈ enabledActs b s := by
        rw [he]; exact chosen_mem a as _
      have := mu_apply hm
      omega

/-- an invariant of enabled actions is an invariant of runs -/
theorem run_inv (b : Bool) (P : PState → Prop) (hP : ∀ s a, P s → a ∈ enabledActs b s → P (applyAct b s a)) :
    ∀ (fuel : Nat) (cs : List Nat) (s : PState), P s → P (runProto b fuel cs s) := by
  intro fuel
  induction fuel with
  | zero => intro cs s h; exact h
  | succ fuel ih =>
    intro cs s h
    simp only [runProto]
    cases he : enabledActs b s with
    | nil => exact h
    | cons a as =>
      simp only
      apply ih
      apply hP s _ h
      rw [he]; exact chosen_mem a as _


/-- invariant of the end-marker protocol under asynchronous delivery: the pipe followed by the in-flight items is
    `files not yet read` then `one marker per worker still running`; once a worker has stopped no file is left; every
    file is either still queued or in exactly one worker's `taken` -/
structure PInv (nw nfiles : Nat) (s : PState) : Prop where
  len : s.ws.length = nw
  queue : ∃ fs : List Nat, s.delivered ++ s.inflight = fs.map Item.file ++ List.replicate (sumBy nd s.ws) Item.stop ∧
    (sumBy nd s.ws < nw → fs = []) ∧ (fs ++ s.ws.flatMap (·.taken)).Perm (List.range nfiles)

theorem sumBy_replicate (f : WState → Nat) (w : WState) : ∀ n, sumBy f (List.replicate n w) = n * f w
  | 0 => by simp [sumBy]
  | n + 1 => by simp [List.replicate_succ, sumBy, sumBy_replicate f w n]; ring

theorem flatMap_replicate_nil (n : Nat) : (List.replicate n (⟨Phase.fresh, []⟩ : WState)).flatMap (·.taken) = [] := by
  induction n with
  | zero => rfl
  | succ n ih => simp [List.replicate_succ, ih]

theorem pinv_init (nw nfiles : Nat) : PInv nw nfiles (initP true nw nfiles) := by
  refine ⟨by simp [initP], List.range nfiles, ?_, ?_, ?_⟩
  · simp [initP, sumBy_replicate, nd]
  · intro h; simp [initP, sumBy_replicate, nd] at h
  · simp only [initP]; rw [flatMap_replicate_nil]; simp

theorem mu_init (b : Bool) (nw nfiles : Nat) : mu (initP b nw nfiles) < fuelOf nw nfiles := by
  simp only [mu, initP, fuelOf, sumBy_replicate, wt, List.length_append, List.length_map, List.length_range, List.length_nil]
  cases b <;> simp <;> omega

theorem pinv_apply {nw nfiles : Nat} (s : PState) (a : Act) (h : PInv nw nfiles s) (ha : a ∈ enabledActs true s) :
    PInv nw nfiles (applyAct true s a) := by
  obtain ⟨hlen, fs, hq, hfs, hperm⟩ := h
  rcases mem_enabled ha with ⟨rfl, hne⟩ | ⟨i, rfl, hi⟩
  · cases hin : s.inflight with
    | nil => exact absurd hin hne
    | cons x r =>
      refine ⟨by simpa [applyAct, hin] using hlen, fs, ?_, by simpa [applyAct, hin] using hfs, by simpa [applyAct, hin] using hperm⟩
      simp only [applyAct, hin]
      rw [hin] at hq
      simpa using hq
  · simp only [applyAct]
    have hc := step_cases hi
    generalize stepW true s i = s' at hc ⊢
    cases hc with
    | start w hw hp =>
      have hs := sumBy_set nd s.ws i w { w with phase := .asking } hw
      have hf := flatMap_set_perm (·.taken) s.ws i w { w with phase := .asking } hw
      have hsum : sumBy nd (s.ws.set i { w with phase := .asking }) = sumBy nd s.ws := by
        simp only [nd, hp] at hs; omega
      refine ⟨by simpa using hlen, fs, by simpa [hsum] using hq, by simpa [hsum] using hfs, ?_⟩
      have hX : ((s.ws.set i { w with phase := .asking }).flatMap (·.taken)).Perm (s.ws.flatMap (·.taken)) :=
        (List.perm_append_right_iff w.taken).1 hf
      exact (List.Perm.append_left fs hX).trans hperm
    | quit w hw hp hd hb => cases hb
    | take w hw hp k d hd =>
      have hs := sumBy_set nd s.ws i w { w with taken := w.taken ++ [k] } hw
      have hf := flatMap_set_perm (·.taken) s.ws i w { w with taken := w.taken ++ [k] } hw
      have hsum : sumBy nd (s.ws.set i { w with taken := w.taken ++ [k] }) = sumBy nd s.ws := by
        have e : nd { w with taken := w.taken ++ [k] } = nd w := rfl
        rw [e] at hs; omega
      rw [hd] at hq
      cases fs with
      | nil =>
        exfalso
        cases hm : sumBy nd s.ws with
        | zero => simp [hm] at hq
        | succ m => simp [hm, List.replicate_succ] at hq
      | cons k' fs' =>
        simp only [List.map_cons, List.cons_append, List.cons.injEq, Item.file.injEq] at hq
        obtain ⟨hk, hq⟩ := hq
        subst hk
        refine ⟨by simpa using hlen, fs', by simpa [hsum] using hq, ?_, ?_⟩
        · intro hlt; rw [hsum] at hlt; exact absurd (hfs hlt) (by simp)
        · have hX : ((s.ws.set i { w with taken := w.taken ++ [k] }).flatMap (·.taken)).Perm (s.ws.flatMap (·.taken) ++ [k]) := by
            apply (List.perm_append_right_iff w.taken).1
            refine hf.trans ?_
            simp only [List.append_assoc]
            exact List.Perm.append_left _ List.perm_append_comm
          refine ((List.Perm.append_left fs' hX).trans ?_).trans hperm
          rw [← List.append_assoc]
          exact List.perm_append_comm.trans (by simp)
    | stop w hw hp d hd =>
      have hs := sumBy_set nd s.ws i w { w with phase := .done } hw
      have hf := flatMap_set_perm (·.taken) s.ws i w { w with phase := .done } hw
      have hsum : sumBy nd (s.ws.set i { w with phase := .done }) + 1 = sumBy nd s.ws := by
        simp only [nd, hp] at hs; omega
      rw [hd] at hq
      cases fs with
      | cons k' fs' => simp at hq
      | nil =>
        refine ⟨by simpa using hlen, [], ?_, fun _ => rfl, ?_⟩
        · rw [← hsum, List.replicate_succ] at hq
          simpa using hq
        · have hX : ((s.ws.set i { w with phase := .done }).flatMap (·.taken)).Perm (s.ws.flatMap (·.taken)) :=
            (List.perm_append_right_iff w.taken).1 hf
          exact (List.Perm.append_left [] hX).trans hperm

theorem nd_le_sumBy {w : WState} : ∀ {ws : List WState}, w ∈ ws → nd w ≤ sumBy nd ws
  | [], h => by simp at h
  | x :: r, h => by
    simp only [List.mem_cons] at h
    rcases h with rfl | h
    · simp [sumBy]
    · have := nd_le_sumBy h; simp [sumBy]; omega

theorem sumBy_nd_done : ∀ {ws : List WState}, (∀ w ∈ ws, w.phase = Phase.done) → sumBy nd ws = 0
  | [], _ => rfl
  | x :: r, h => by
    have h1 : nd x = 0 := by simp [nd, h x (by simp)]
    have h2 : sumBy nd r = 0 := sumBy_nd_done (fun w hw => h w (List.mem_cons_of_mem _ hw))
    simp [sumBy, h1, h2]

/-- where nothing is enabled, every worker has stopped and every file has been read exactly once -/
theorem pinv_terminal {nw nfiles : Nat} {s : PState} (h : PInv nw nfiles s) (hnw : 0 < nw) (ht : enabledActs true s = []) :
    (∀ w ∈ s.ws, w.phase = Phase.done) ∧ (s.ws.flatMap (·.taken)).Perm (List.range nfiles) := by
  obtain ⟨hlen, fs, hq, hfs, hperm⟩ := h
  simp only [enabledActs, List.append_eq_nil_iff, List.map_eq_nil_iff, List.filter_eq_nil_iff, List.mem_range] at ht
  obtain ⟨hin, hst⟩ := ht
  have hin' : s.inflight = [] := by
    by_cases he : s.inflight.isEmpty
    · simpa using he
    · simp [he] at hin
  have hdone : ∀ w ∈ s.ws, w.phase = Phase.done := by
    intro w hw
    obtain ⟨i, hi, hget⟩ := List.getElem_of_mem hw
    have hget' : s.ws[i]? = some w := by rw [List.getElem?_eq_getElem hi, hget]
    have hen := hst i hi
    simp only [stepEnabled, hget'] at hen
    cases hp : w.phase with
    | done => rfl
    | fresh => simp [hp] at hen
    | asking =>
      exfalso
      simp only [hp, Bool.not_true, Bool.false_or, Bool.not_eq_true',
        List.isEmpty_eq_false_iff, ne_eq, not_not] at hen
      have hd : s.delivered = [] := by simpa using hen
      rw [hd, hin'] at hq
      have h1 := nd_le_sumBy hw
      simp only [nd, hp] at h1
      cases hm : sumBy nd s.ws with
      | zero => omega
      | succ m => simp [hm, List.replicate_succ] at hq
  refine ⟨hdone, ?_⟩
  have h0 := sumBy_nd_done hdone
  have : fs = [] := hfs (by omega)
  subst this
  simpa using hperm

/-! ### the end-marker protocol with failing reads: it still always terminates with every worker stopped -/

/-- an enabled worker step of the failing-read protocol is a step of the plain protocol, or the failing read of a file -/
theorem stepWF_cases (fails : List Nat → Nat → Bool) (s : PState) (i : Nat) :
    stepWF fails s i = stepW true s i ∨
    ∃ w k d, s.ws[i]? = some w ∧ w.phase = Phase.asking ∧ s.delivered = Item.file k :: d ∧ fails w.taken k = true ∧
      stepWF fails s i = { s with delivered := d, ws := s.ws.set i { phase := .done, taken := w.taken ++ [k] } } := by
  simp only [stepWF]
  cases hw : s.ws[i]? with
  | none => left; simp [stepW, hw]
  | some w =>
    simp only
    split
    · rename_i k d hp hd
      by_cases hf : fails w.taken k = true
      · right; exact ⟨w, k, d, rfl, hp, hd, hf, by simp [hf]⟩
      · left; simp [hf]
    · left; rfl

theorem stepWF_of_never (fails : List Nat → Nat → Bool) (hf : ∀ t k, fails t k = false) (s : PState) (i : Nat) :
    stepWF fails s i = stepW true s i := by
  rcases stepWF_cases fails s i with h | ⟨w, k, d, _, _, _, h, _⟩
  · exact h
  · rw [hf] at h; cases h

theorem runProtoF_of_never (fails : List Nat → Nat → Bool) (hf : ∀ t k, fails t k = false) :
    ∀ (fuel : Nat) (cs : List Nat) (s : PState), runProtoF fails fuel cs s = runProto true fuel cs s := by
  intro fuel
  induction fuel with
  | zero => intro cs s; rfl
  | succ fuel ih =>
    intro cs s
    simp only [runProtoF, runProto]
    cases he : enabledActs true s with
    | nil => rfl
    | cons a as =>
      simp only
      have : ∀ act, applyActF fails s act = applyAct true s act := by
        intro act; cases act with
        | deliver => rfl
        | step i => simp [applyActF, applyAct, stepWF_of_never fails hf]
      rw [this, ih]

theorem mu_applyF (fails : List Nat → Nat → Bool) {s : PState} {a : Act} (h : a ∈ enabledActs true s) :
    mu (applyActF fails s a) < mu s := by
  cases a with
  | deliver => exact mu_apply (b := true) h
  | step i =>
    simp only [applyActF]
    rcases stepWF_cases fails s i with e | ⟨w, k, d, hw, hp, hd, _, e⟩
    · rw [e]; exact mu_apply (b := true) h
    · rw [e]
      have := sumBy_set wt s.ws i w { phase := .done, taken := w.taken ++ [k] } hw
      simp only [mu, wt, hp, hd, List.length_cons] at this ⊢; omega

theorem run_terminalF (fails : List Nat → Nat → Bool) : ∀ (fuel : Nat) (cs : List Nat) (s : PState), mu s < fuel →
    enabledActs true (runProtoF fails fuel cs s) = [] := by
  intro fuel
  induction fuel with
  | zero => intro cs s h; omega
  | succ fuel ih =>
    intro cs s h
    simp only [runProtoF]
    cases he : enabledActs true s with
    | nil => simpa using he
    | cons a as =>
      simp only
      apply ih
      have hm : ((a :: as)[(cs.head?.getD 0) % (as.length + 1)]?).getD a ∈ enabledActs true s := by
        rw [he]; exact chosen_mem a as _
      have := mu_applyF fails hm
      omega

theorem run_invF (fails : List Nat → Nat → Bool) (P : PState → Prop)
    (hP : ∀ s a, P s → a ∈ enabledActs true s → P (applyActF fails s a)) :
    ∀ (fuel : Nat) (cs : List Nat) (s : PState), P s → P (runProtoF fails fuel cs s) := by
  intro fuel
  induction fuel with
  | zero => intro cs s h; exact h
  | succ fuel ih =>
    intro cs s h
    simp only [runProtoF]
    cases he : enabledActs true s with
    | nil => exact h
    | cons a as =>
      simp only
      apply ih
      apply hP s _ h
      rw [he]; exact chosen_mem a as _

/-- invariant that survives failing reads: the queue is `files not yet taken` then markers, and there are at least as many
    markers as workers still running (a worker that fails leaves its marker behind) -/
structure QInv (nw : Nat) (s : PState) : Prop where
  len : s.ws.length = nw
  queue : ∃ (fs : List Nat) (m : Nat), s.delivered ++ s.inflight = fs.map Item.file ++ List.replicate m Item.stop ∧ sumBy nd s.ws ≤ m

theorem qinv_init (nw nfiles : Nat) : QInv nw (initP true nw nfiles) := by
  refine ⟨by simp [initP], List.range nfiles, nw, ?_, ?_⟩
  · simp [initP]
  · simp [initP, sumBy_replicate, nd]

theorem head_file_of_queue {fs : List Nat} {m k : Nat} {d rest : List Item}
    (hq : Item.file k :: d ++ rest = fs.map Item.file ++ List.replicate m Item.stop) :
    ∃ fs', fs = k :: fs' ∧ d ++ rest = fs'.map Item.file ++ List.replicate m Item.stop := by
  cases fs with
  | nil =>
    cases m with
    | zero => simp at hq
    | succ m => simp [List.replicate_succ] at hq
  | cons k' fs' =>
    simp only [List.map_cons, List.cons_append, List.cons.injEq, Item.file.injEq] at hq
    exact ⟨fs', by rw [hq.1], hq.2⟩

theorem qinv_apply (fails : List Nat → Nat → Bool) {nw : Nat} (s : PState) (a : Act) (h : QInv nw s) (ha : a ∈ enabledActs true s) :
    QInv nw (applyActF fails s a) := by
  obtain ⟨hlen, fs, m, hq, hm⟩ := h
  rcases mem_enabled ha with ⟨rfl, hne⟩ | ⟨i, rfl, hi⟩
  · cases hin : s.inflight with
    | nil => exact absurd hin hne
    | cons x r =>
      refine ⟨by simpa [applyActF, applyAct, hin] using hlen, fs, m, ?_, by simpa [applyActF, applyAct, hin] using hm⟩
      simp only [applyActF, applyAct, hin]
      rw [hin] at hq
      simpa using hq
  · simp only [applyActF]
    rcases stepWF_cases fails s i with e | ⟨w, k, d, hw, hp, hd, _, e⟩
    · rw [e]
      have hc := step_cases hi
      generalize stepW true s i = s' at hc ⊢
      cases hc with
      | start w hw hp =>
        have hs := sumBy_set nd s.ws i w { w with phase := .asking } hw
        have hsum : sumBy nd (s.ws.set i { w with phase := .asking }) = sumBy nd s.ws := by
          simp only [nd, hp] at hs; omega
        exact ⟨by simpa using hlen, fs, m, by simpa using hq, by simpa [hsum] using hm⟩
      | quit w hw hp hd hb => cases hb
      | take w hw hp k d hd =>
        have hs := sumBy_set nd s.ws i w { w with taken := w.taken ++ [k] } hw
        have hsum : sumBy nd (s.ws.set i { w with taken := w.taken ++ [k] }) = sumBy nd s.ws := by
          have e : nd { w with taken := w.taken ++ [k] } = nd w := rfl
          rw [e] at hs; omega
        rw [hd] at hq
        obtain ⟨fs', _, hq'⟩ := head_file_of_queue hq
        exact ⟨by simpa using hlen, fs', m, by simpa using hq', by simpa [hsum] using hm⟩
      | stop w hw hp d hd =>
        have hs := sumBy_set nd s.ws i w { w with phase := .done } hw
        have hsum : sumBy nd (s.ws.set i { w with phase := .done }) + 1 = sumBy nd s.ws := by
          simp only [nd, hp] at hs; omega
        rw [hd] at hq
        cases fs with
        | cons k' fs' => simp at hq
        | nil =>
          cases m with
          | zero => simp at hq
          | succ m' =>
            refine ⟨by simpa using hlen, [], m', ?_, ?_⟩
            · simp only [List.replicate_succ, List.map_nil, List.nil_append, List.cons_append, List.cons.injEq, true_and] at hq
              simpa using hq
            · simp only; omega
    · rw [e]
      have hs := sumBy_set nd s.ws i w { phase := .done, taken := w.taken ++ [k] } hw
      have hsum : sumBy nd (s.ws.set i { phase := .done, taken := w.taken ++ [k] }) + 1 = sumBy nd s.ws := by
        simp only [nd, hp] at hs; omega
      rw [hd] at hq
      obtain ⟨fs', _, hq'⟩ := head_file_of_queue hq
      exact ⟨by simpa using hlen, fs', m, by simpa using hq', by simp only; omega⟩

/-- where nothing is enabled, every worker has stopped -/
theorem qinv_terminal {nw : Nat} {s : PState} (h : QInv nw s) (ht : enabledActs true s = []) :
    ∀ w ∈ s.ws, w.phase = Phase.done := by
  obtain ⟨hlen, fs, m, hq, hm⟩ := h
  simp only [enabledActs, List.append_eq_nil_iff, List.map_eq_nil_iff, List.filter_eq_nil_iff, List.mem_range] at ht
  obtain ⟨hin, hst⟩ := ht
  have hin' : s.inflight = [] := by
    by_cases he : s.inflight.isEmpty
    · simpa using he
    · simp [he] at hin
  intro w hw
  obtain ⟨i, hi, hget⟩ := List.getElem_of_mem hw
  have hget' : s.ws[i]? = some w := by rw [List.getElem?_eq_getElem hi, hget]
  have hen := hst i hi
  simp only [stepEnabled, hget'] at hen
  cases hp : w.phase with
  | done => rfl
  | fresh => simp [hp] at hen
  | asking =>
    exfalso
    simp only [hp, Bool.not_true, Bool.false_or, Bool.not_eq_true', List.isEmpty_eq_false_iff, ne_eq, not_not] at hen
    have hd : s.delivered = [] := by simpa using hen
    rw [hd, hin'] at hq
    have h1 := nd_le_sumBy hw
    simp only [nd, hp] at h1
    cases m with
    | zero => omega
    | succ m' =>
      cases fs <;> simp [List.replicate_succ] at hq

end DendroModel.C06.Aux
