import DendroModel.Theory.C16Fitch
/-! C16 theory, part 6: treating gaps as missing data never raises the Fitch count.

`q` is the set of proper (non-gap) states of a character.  `GapRel q F M` relates the set `F` a symbol denotes when the gap is a
state of its own to the set `M` it denotes when gaps are missing data: proper states of `F` stay in `M`, and if `F` contains a
state outside `q` (the gap) then `M` contains every proper state. -/
namespace DendroModel.C16

def GapRel (q F M : SS) : Prop :=
  ∀ s, F.testBit s = true →
    (q.testBit s = true → M.testBit s = true) ∧
    (q.testBit s = false → ∀ p, q.testBit p = true → M.testBit p = true)

inductive RelB (q : SS) : B → B → Prop
  | leaf {F M : SS} : GapRel q F M → RelB q (.leaf F) (.leaf M)
  | node {l l' r r' : B} : RelB q l l' → RelB q r r' → RelB q (.node l r) (.node l' r')

/-- push proper states down over nodes labelled with an improper state: such a node takes the (relabelled) state of its parent -/
def relabel (q : SS) (p : Nat) : A → A
  | .leaf s => .leaf (if q.testBit s = true then s else p)
  | .node s l r =>
    .node (if q.testBit s = true then s else p)
      (relabel q (if q.testBit s = true then s else p) l) (relabel q (if q.testBit s = true then s else p) r)

namespace Aux

theorem d_le_one (x y : Nat) : d x y ≤ 1 := by unfold d; split <;> omega

theorem d_ne {x y : Nat} (h : x ≠ y) : d x y = 1 := by simp [d, h]

theorem relabel_root (q : SS) (p : Nat) (a : A) :
    (relabel q p a).root = if q.testBit a.root = true then a.root else p := by
  cases a <;> rfl

theorem edge_le (q : SS) {s p0 p : Nat} (h0 : q.testBit p0 = true → p = p0) :
    d (if q.testBit s = true then s else p) p ≤ d s p0 := by
  by_cases hs : q.testBit s = true
  · simp only [hs, if_true]
    by_cases hq0 : q.testBit p0 = true
    · rw [h0 hq0]; exact Nat.le_refl _
    · have : s ≠ p0 := by intro e; subst e; exact hq0 hs
      rw [d_ne this]; exact d_le_one _ _
  · simp only [hs]
    simp [d]

theorem relabel_cost (q : SS) : ∀ (a : A) (p0 p : Nat), q.testBit p = true → (q.testBit p0 = true → p = p0) →
    changes (relabel q p a) ≤ changes a ∧ d (relabel q p a).root p ≤ d a.root p0
  | .leaf s, p0, p, hp, h0 => by
    refine ⟨by simp [relabel, changes], ?_⟩
    rw [relabel_root]
    exact edge_le q h0
  | .node s l r, p0, p, hp, h0 => by
    have hs' : q.testBit (if q.testBit s = true then s else p) = true := by
      by_cases hs : q.testBit s = true
      · simp [hs]
      · simp [hs, hp]
    have hcond : q.testBit s = true → (if q.testBit s = true then s else p) = s := by
      intro hs; simp [hs]
    have ⟨cl, el⟩ := relabel_cost q l s _ hs' hcond
    have ⟨cr, er⟩ := relabel_cost q r s _ hs' hcond
    refine ⟨?_, ?_⟩
    · simp only [relabel, changes]
      omega
    · rw [relabel_root]
      exact edge_le q h0

theorem relabel_valid {q : SS} {tF tM : B} (hrel : RelB q tF tM) : ∀ (a : A) (p : Nat), q.testBit p = true →
    Valid tF a → Valid tM (relabel q p a) := by
  induction hrel with
  | @leaf F M hg =>
    intro a p hp hv
    cases a with
    | node s l r => simp [Valid] at hv
    | leaf s =>
      simp only [Valid] at hv
      simp only [relabel, Valid]
      by_cases hs : q.testBit s = true
      · simp only [hs, if_true]; exact (hg s hv).1 hs
      · simp only [hs]
        exact (hg s hv).2 (by simpa using hs) p hp
  | node _ _ ihl ihr =>
    intro a p hp hv
    cases a with
    | leaf s => simp [Valid] at hv
    | node s l r =>
      simp only [Valid] at hv
      simp only [relabel, Valid]
      have hs' : q.testBit (if q.testBit s = true then s else p) = true := by
        by_cases hs : q.testBit s = true
        · simp [hs]
        · simp [hs, hp]
      exact ⟨ihl l _ hs' hv.1, ihr r _ hs' hv.2⟩

/-- gaps as missing data never need more changes than gaps as a state -/
theorem fitch_gap_mono {q : SS} {tF tM : B} (hrel : RelB q tF tM) (hq : q ≠ 0) (hF : NonEmptyLeaves tF)
    (hM : NonEmptyLeaves tM) : (fitch tM).2 ≤ (fitch tF).2 := by
  obtain ⟨a, hv, hc⟩ := (fitch_minimal tF hF).2
  obtain ⟨p, hp⟩ := Nat.exists_testBit_of_ne_zero hq
  have hv' := relabel_valid hrel a p hp hv
  have hlow := (fitch_minimal tM hM).1 _ hv'
  have hcost := (relabel_cost q a p p hp (fun _ => rfl)).1
  omega

end Aux
end DendroModel.C16
