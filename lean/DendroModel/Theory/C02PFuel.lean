import DendroModel.Model.C02
import DendroModel.Theory.C02Fuel
/-! the statement parser's fuel is enough on EVERY token list -/
namespace DendroModel.C02
namespace Aux

theorem eatCommas_len : ∀ (toks : List Tok) (acc : List RT), (eatCommas toks acc).2.length ≤ toks.length := by
  intro toks
  induction toks with
  | nil => intro acc; simp [eatCommas]
  | cons t ts ih =>
    intro acc
    cases t <;> simp [eatCommas]
    have := ih (acc ++ [blank]); omega

def NotClose : List Tok → Prop
  | .rp :: _ => False
  | .comma :: _ => False
  | _ => True

theorem parseTail_len (cs : List RT) (l e : Option Str) (toks : List Tok) :
    ∀ c r b, parseTail cs l e toks = some (c, r, b) → r.length ≤ toks.length ∧ (NotClose toks ∨ b = true → r.length < toks.length) := by
  fun_induction parseTail cs l e toks <;> intro c r b h
  all_goals first
    | (simp at h; done)
    | (rename_i ih; have := ih c r b h; simp [NotClose] at this ⊢; omega)
    | (simp at h; obtain ⟨_, rfl, rfl⟩ := h; simp [NotClose])


/-- third branch of the children loop, as a function of what the child parse returned -/
def afterChild (f : Nat) (acc : List RT) (cnt : Nat) : Option (RT × List Tok × Bool) → Option (List RT × List Tok)
  | none => none
  | some (_, _, true) => none
  | some (c, rest', false) => parseChildren f rest' (acc ++ [c]) true (cnt + 1)

theorem pc_other (f : Nat) (toks : List Tok) (acc : List RT) (cr : Bool) (cnt : Nat)
    (h1 : ∀ t, toks ≠ .comma :: t) (h2 : ∀ t, toks ≠ .rp :: t) :
    parseChildren (f + 1) toks acc cr cnt = afterChild f acc cnt (parseNode f toks) := by
  rw [parseChildren]
  · cases parseNode f toks with
    | none => rfl
    | some x => obtain ⟨c, r', b⟩ := x; cases b <;> rfl
  · intro rest h; exact h1 _ h
  · intro rest h; exact h2 _ h

/-- the `,` branch -/
def commaStep (f : Nat) (rest : List Tok) (acc : List RT) (cr : Bool) (cnt : Nat) : Option (List RT × List Tok) :=
  match eatCommas rest (if cr then acc else acc ++ [blank]) with
  | (acc2, rest2) =>
    match rest2 with
    | .rp :: _ => parseChildren f rest2 (acc2 ++ [blank]) true (cnt + 1)
    | _ => parseChildren f rest2 acc2 cr (cnt + 1)

theorem pc_comma' (f : Nat) (rest : List Tok) (acc : List RT) (cr : Bool) (cnt : Nat) :
    parseChildren (f + 1) (.comma :: rest) acc cr cnt = commaStep f rest acc cr cnt := by
  rw [parseChildren]; unfold commaStep; rfl

theorem lens (f : Nat) :
    (∀ toks c r b, parseNode f toks = some (c, r, b) → r.length ≤ toks.length ∧ (NotClose toks ∨ b = true → r.length < toks.length)) ∧
    (∀ toks acc cr cnt cs r, parseChildren f toks acc cr cnt = some (cs, r) → r.length < toks.length) := by
  induction f with
  | zero => exact ⟨fun toks c r b h => by simp [parseNode] at h, fun toks acc cr cnt cs r h => by simp [parseChildren] at h⟩
  | succ f ih =>
    obtain ⟨ihN, ihC⟩ := ih
    have hC : ∀ toks acc cr cnt cs r, parseChildren (f + 1) toks acc cr cnt = some (cs, r) → r.length < toks.length := by
      intro toks acc cr cnt cs r h
      by_cases hc : ∃ t, toks = .comma :: t
      · obtain ⟨rest, rfl⟩ := hc
        rw [pc_comma'] at h
        unfold commaStep at h
        have hl := eatCommas_len rest (if cr then acc else acc ++ [blank])
        cases he : eatCommas rest (if cr then acc else acc ++ [blank]) with
        | mk acc2 rest2 =>
          rw [he] at h hl
          simp only at h hl
          split at h
          · have := ihC _ _ _ _ _ _ h; simp only [List.length_cons] at this hl ⊢; omega
          · have := ihC _ _ _ _ _ _ h; simp only [List.length_cons] at this hl ⊢; omega
      · by_cases hr : ∃ t, toks = .rp :: t
        · obtain ⟨rest, rfl⟩ := hr
          simp [parseChildren] at h
          obtain ⟨_, rfl⟩ := h
          simp
        · rw [pc_other f toks acc cr cnt (fun t ht => hc ⟨t, ht⟩) (fun t ht => hr ⟨t, ht⟩)] at h
          cases hp : parseNode f toks with
          | none => rw [hp] at h; simp [afterChild] at h
          | some x =>
            obtain ⟨c, r', b⟩ := x
            rw [hp] at h
            cases b with
            | true => simp [afterChild] at h
            | false =>
              simp only [afterChild] at h
              have h1 := (ihN toks c r' false hp).1
              have h2 := ihC _ _ _ _ _ _ h
              omega
    refine ⟨?_, hC⟩
    intro toks c r b h
    by_cases hl : ∃ t, toks = .lp :: t
    · obtain ⟨rest, rfl⟩ := hl
      simp only [parseNode] at h
      cases hp : parseChildren f rest [] false 0 with
      | none => rw [hp] at h; simp at h
      | some x =>
        obtain ⟨cs, rest'⟩ := x
        rw [hp] at h
        simp only at h
        have h1 := ihC _ _ _ _ _ _ hp
        have h2 := (parseTail_len cs none none rest' c r b h).1
        simp [NotClose]; omega
    · have : parseNode (f + 1) toks = parseTail [] none none toks := by
        rw [parseNode]
        intro rest hh; exact absurd ⟨rest, hh⟩ hl
      rw [this] at h
      exact parseTail_len [] none none toks c r b h


theorem notClose_of (toks : List Tok) (h1 : ∀ t, toks ≠ .comma :: t) (h2 : ∀ t, toks ≠ .rp :: t) : NotClose toks := by
  cases toks with
  | nil => trivial
  | cons t ts => cases t <;> simp [NotClose] <;> first | exact h1 _ rfl | exact h2 _ rfl

/-- one more unit of fuel changes nothing once the fuel exceeds twice the number of tokens -/
theorem fuel_step (f : Nat) :
    (∀ toks, 2 * toks.length ≤ f → parseNode f toks = parseNode (f + 1) toks) ∧
    (∀ toks acc cr cnt, 2 * toks.length + 1 ≤ f → parseChildren f toks acc cr cnt = parseChildren (f + 1) toks acc cr cnt) := by
  induction f with
  | zero =>
    refine ⟨?_, fun toks acc cr cnt h => by omega⟩
    intro toks h
    have : toks = [] := by cases toks <;> simp_all
    subst this
    simp [parseNode, parseTail]
  | succ f ih =>
    obtain ⟨ihN, ihC⟩ := ih
    constructor
    · intro toks h
      by_cases hl : ∃ t, toks = .lp :: t
      · obtain ⟨rest, rfl⟩ := hl
        simp only [parseNode]
        rw [ihC rest [] false 0 (by simp at h; omega)]
      · have e1 : parseNode (f + 1) toks = parseTail [] none none toks := by
          rw [parseNode]; intro rest hh; exact absurd ⟨rest, hh⟩ hl
        have e2 : parseNode (f + 1 + 1) toks = parseTail [] none none toks := by
          rw [parseNode]; intro rest hh; exact absurd ⟨rest, hh⟩ hl
        rw [e1, e2]
    · intro toks acc cr cnt h
      by_cases hc : ∃ t, toks = .comma :: t
      · obtain ⟨rest, rfl⟩ := hc
        rw [pc_comma', pc_comma']
        unfold commaStep
        have hl := eatCommas_len rest (if cr then acc else acc ++ [blank])
        cases he : eatCommas rest (if cr then acc else acc ++ [blank]) with
        | mk acc2 rest2 =>
          rw [he] at hl
          simp only at hl ⊢
          split
          · rename_i tl heq
            rw [ihC _ _ _ _ (by simp only [List.length_cons] at h hl ⊢; omega)]
          · rw [ihC _ _ _ _ (by simp only [List.length_cons] at h ⊢; omega)]
      · by_cases hr : ∃ t, toks = .rp :: t
        · obtain ⟨rest, rfl⟩ := hr
          simp [parseChildren]
        · have h1 : ∀ t, toks ≠ .comma :: t := fun t ht => hc ⟨t, ht⟩
          have h2 : ∀ t, toks ≠ .rp :: t := fun t ht => hr ⟨t, ht⟩
          rw [pc_other f toks acc cr cnt h1 h2, pc_other (f + 1) toks acc cr cnt h1 h2, ← ihN toks (by omega)]
          cases hp : parseNode f toks with
          | none => rfl
          | some x =>
            obtain ⟨c, r', b⟩ := x
            cases b with
            | true => rfl
            | false =>
              simp only [afterChild]
              have hlt := ((lens f).1 toks c r' false hp).2 (Or.inl (notClose_of toks h1 h2))
              exact ihC _ _ _ _ (by omega)

/-- any amount of extra fuel changes nothing -/
theorem parseNode_fuel (toks : List Tok) (f : Nat) (h : 2 * toks.length ≤ f) : ∀ k, parseNode (f + k) toks = parseNode f toks := by
  intro k
  induction k with
  | zero => rfl
  | succ k ih => rw [← ih, ← Nat.add_assoc]; exact ((fuel_step (f + k)).1 toks (by omega)).symm


theorem skipSemis_len (atEof : Bool) : ∀ l : List TokE, (skipSemis atEof l).length ≤ l.length
  | [] => by simp [skipSemis]
  | t :: r => by
    simp only [skipSemis]; split
    · have := skipSemis_len atEof r; simp; omega
    · simp

/-- the extra fuel `k` handed to the statement parser changes nothing -/
theorem parseStmts_k (o : ROpts) (atEof : Bool) (k : Nat) : ∀ (f : Nat) (init : Bool) (l : List TokE) (m : Mapper) (acc : List PT),
    parseStmts o atEof k f init l m acc = parseStmts o atEof 0 f init l m acc := by
  intro f
  induction f with
  | zero => intro init l m acc; simp [parseStmts]
  | succ f ih =>
    intro init l m acc
    cases l with
    | nil => simp [parseStmts]
    | cons t r =>
      rw [parseStmts, parseStmts]
      have hfuel : parseNode (stmtFuel (t :: r) + k) ((t :: r).map kind) = parseNode (stmtFuel (t :: r) + 0) ((t :: r).map kind) := by
        rw [Nat.add_zero]
        exact parseNode_fuel _ _ (by simp [stmtFuel]; omega) k
      rw [hfuel]
      simp only [ih]

/-- the statement loop's own fuel: one more unit changes nothing once it exceeds the number of tokens -/
theorem parseStmts_f (o : ROpts) (atEof : Bool) : ∀ (f : Nat) (init : Bool) (l : List TokE) (m : Mapper) (acc : List PT),
    l.length < f → parseStmts o atEof 0 f init l m acc = parseStmts o atEof 0 (f + 1) init l m acc := by
  intro f
  induction f with
  | zero => intro init l m acc h; omega
  | succ f ih =>
    intro init l m acc h
    cases l with
    | nil => simp [parseStmts]
    | cons t r =>
      rw [parseStmts, parseStmts]
      simp only [List.length_cons] at h
      split
      · split
        · rfl
        · exact ih _ _ _ _ (by omega)
      · split
        · rfl
        · cases hp : parseNode (stmtFuel (t :: r) + 0) ((t :: r).map kind) with
          | none => rfl
          | some x =>
            obtain ⟨rt, rest, b⟩ := x
            cases b with
            | false => rfl
            | true =>
              simp only
              cases assign o rt ⟨m, []⟩ with
              | none => rfl
              | some y =>
                obtain ⟨nt, s⟩ := y
                simp only
                have hlt := ((lens _).1 _ rt rest true hp).2 (Or.inr rfl)
                simp only [List.length_map, List.length_cons] at hlt
                have hdrop : (List.drop ((t :: r).length - rest.length) (t :: r)).length = rest.length := by
                  rw [List.length_drop]; simp only [List.length_cons]; omega
                have h1 := skipSemis_len atEof (List.drop ((t :: r).length - rest.length) (t :: r))
                rw [hdrop] at h1
                exact ih _ _ _ _ (by omega)

theorem parseStmts_fuel (o : ROpts) (atEof : Bool) (init : Bool) (l : List TokE) (m : Mapper) (acc : List PT) (f : Nat)
    (h : l.length < f) : ∀ j, parseStmts o atEof 0 (f + j) init l m acc = parseStmts o atEof 0 f init l m acc := by
  intro j
  induction j with
  | zero => rfl
  | succ j ih => rw [← ih, ← Nat.add_assoc]; exact (parseStmts_f o atEof (f + j) init l m acc (by omega)).symm

/-- the reader with any amount of extra fuel is the reader -/
theorem parseTextK_eq (k : Nat) (o : ROpts) (m : Mapper) (text : Str) : parseTextK k o m text = parseTextK 0 o m text := by
  unfold parseTextK
  have ht : tokenize o.pu (text.length + 1 + k) text = tokenize o.pu (text.length + 1 + 0) text := by
    rw [tokenize_fuel_any o.pu text k, tokenize_fuel_any o.pu text 0]
  rw [ht]
  simp only [Nat.add_zero]
  cases (tokenize o.pu (text.length + 1) text).ok with
  | false => rfl
  | true =>
    simp only [Bool.not_true, Bool.false_eq_true, if_false]
    rw [parseStmts_k, parseStmts_fuel _ _ _ _ _ _ _ (by omega) k]

end Aux
end DendroModel.C02
