import DendroModel.Model.C02Nexml
/-! NeXML writer model: how many elements and ids one tree takes -/
namespace DendroModel.C02
namespace Aux

mutual
def sizeNT : NT → Nat
  | .node _ _ _ cs => 1 + sizeNTL cs
def sizeNTL : List NT → Nat
  | [] => 0
  | c :: cs => sizeNT c + sizeNTL cs
end

mutual
theorem number_next : ∀ (t : NT) (n : Nat), (number t n).2 = n + sizeNT t
  | .node tx lb ln cs, n => by
    have := numberL_next cs (n + 1)
    simp only [number, sizeNT]
    rw [this]; omega
theorem numberL_next : ∀ (cs : List NT) (n : Nat), (numberL cs n).2 = n + sizeNTL cs
  | [], n => by simp [numberL, sizeNTL]
  | c :: cs, n => by
    have h1 := number_next c n
    have h2 := numberL_next cs (number c n).2
    simp only [numberL, sizeNTL]
    rw [h2, h1]; omega
end

mutual
theorem nodes_len (f : Str → Option Nat) (r : Option Nat) : ∀ (t : NT) (n : Nat), (itNodes f r (number t n).1).length = sizeNT t
  | .node tx lb ln cs, n => by
    have := nodesL_len f r cs (n + 1)
    simp only [number, itNodes, sizeNT, List.length_cons]
    rw [this]; omega
theorem nodesL_len (f : Str → Option Nat) (r : Option Nat) : ∀ (cs : List NT) (n : Nat), (itNodesL f r (numberL cs n).1).length = sizeNTL cs
  | [], n => by simp [numberL, itNodesL, sizeNTL]
  | c :: cs, n => by
    have h1 := nodes_len f r c n
    have h2 := nodesL_len f r cs (number c n).2
    simp only [numberL, itNodesL, sizeNTL, List.length_append]
    rw [h1, h2]
end

mutual
theorem edges_len (sz : Nat) (p : Option Nat) : ∀ (t : NT) (n : Nat), (itEdges sz p (number t n).1).length = sizeNT t
  | .node tx lb ln cs, n => by
    have := edgesL_len sz (some n) cs (n + 1)
    simp only [number, itEdges, sizeNT, List.length_cons]
    rw [this]; omega
theorem edgesL_len (sz : Nat) (p : Option Nat) : ∀ (cs : List NT) (n : Nat), (itEdgesL sz p (numberL cs n).1).length = sizeNTL cs
  | [], n => by simp [numberL, itEdgesL, sizeNTL]
  | c :: cs, n => by
    have h1 := edges_len sz p c n
    have h2 := edgesL_len sz p cs (number c n).2
    simp only [numberL, itEdgesL, sizeNTL, List.length_append]
    rw [h1, h2]
end

/-! ### attribute quoting -/

theorem ent_amp : xmlEntity ['a', 'm', 'p'] = some '&' := by decide
theorem ent_lt : xmlEntity ['l', 't'] = some '<' := by decide
theorem ent_gt : xmlEntity ['g', 't'] = some '>' := by decide
theorem ent_quot : xmlEntity ['q', 'u', 'o', 't'] = some '"' := by decide
theorem ent_10 : xmlEntity ['#', '1', '0'] = some '\n' := by decide
theorem ent_13 : xmlEntity ['#', '1', '3'] = some '\r' := by decide
theorem ent_9 : xmlEntity ['#', '9'] = some '\t' := by decide

/-- reading a reference `&name;` whose name has no `;` -/
theorem dec_ref (q : Char) (hq : q ≠ '&') (name : Str) (hn : ∀ c ∈ name, c ≠ ';') (ch : Char) (he : xmlEntity name = some ch)
    (rest acc : Str) : decAttr q ('&' :: (name ++ ';' :: rest)) none acc = decAttr q rest none (acc ++ [ch]) := by
  have hq' : ('&' == q) = false := by simpa using fun h => hq h.symm
  have loop : ∀ (nm e : Str), (∀ c ∈ nm, c ≠ ';') →
      decAttr q (nm ++ ';' :: rest) (some e) acc = (match xmlEntity (e ++ nm) with
        | some ch => decAttr q rest none (acc ++ [ch]) | none => none) := by
    intro nm
    induction nm with
    | nil =>
      intro e _
      simp only [List.nil_append, List.append_nil, decAttr, beq_self_eq_true, if_true]
      cases xmlEntity e <;> rfl
    | cons c cs ih =>
      intro e h
      have hc : (c == ';') = false := by simpa using h c (by simp)
      simp only [List.cons_append, decAttr, hc, Bool.false_eq_true, if_false]
      rw [ih (e ++ [c]) (fun d hd => h d (by simp [hd]))]
      simp
  simp only [decAttr, hq', Bool.false_eq_true, if_false, beq_self_eq_true, if_true]
  rw [loop name [] hn]
  simp [he]

/-- one escaped character is read back as that character (any character other than the delimiter) -/
theorem dec_esc (q : Char) (hq : q = '"' ∨ q = '\'') (c : Char) (hc : c ≠ q) (rest acc : Str) :
    decAttr q (xmlEsc c ++ rest) none acc = decAttr q rest none (acc ++ [c]) := by
  have hqa : q ≠ '&' := by rcases hq with rfl | rfl <;> decide
  unfold xmlEsc
  by_cases h1 : c = '&'
  · subst h1; simpa using dec_ref q hqa ['a', 'm', 'p'] (by decide) '&' ent_amp rest acc
  by_cases h2 : c = '<'
  · subst h2; simpa using dec_ref q hqa ['l', 't'] (by decide) '<' ent_lt rest acc
  by_cases h3 : c = '>'
  · subst h3; simpa using dec_ref q hqa ['g', 't'] (by decide) '>' ent_gt rest acc
  by_cases h4 : c = '\n'
  · subst h4; simpa using dec_ref q hqa ['#', '1', '0'] (by decide) '\n' ent_10 rest acc
  by_cases h5 : c = '\r'
  · subst h5; simpa using dec_ref q hqa ['#', '1', '3'] (by decide) '\r' ent_13 rest acc
  by_cases h6 : c = '\t'
  · subst h6; simpa using dec_ref q hqa ['#', '9'] (by decide) '\t' ent_9 rest acc
  have hcq : (c == q) = false := by simpa using hc
  simp [h1, h2, h3, h4, h5, h6, decAttr, hcq]

theorem dec_quot (rest acc : Str) :
    decAttr '"' (['&', 'q', 'u', 'o', 't', ';'] ++ rest) none acc = decAttr '"' rest none (acc ++ ['"']) := by
  simpa using dec_ref '"' (by decide) ['q', 'u', 'o', 't'] (by decide) '"' ent_quot rest acc

/-- a whole escaped value without the delimiter in it, then the delimiter -/
theorem dec_all (q : Char) (hq : q = '"' ∨ q = '\'') (rest : Str) : ∀ (s acc : Str), (∀ c ∈ s, c ≠ q) →
    decAttr q (s.flatMap xmlEsc ++ q :: rest) none acc = some (acc ++ s, rest) := by
  intro s
  induction s with
  | nil => intro acc _; simp [decAttr]
  | cons c cs ih =>
    intro acc h
    simp only [List.flatMap_cons, List.append_assoc]
    rw [dec_esc q hq c (h c (by simp)), ih (acc ++ [c]) (fun d hd => h d (by simp [hd]))]
    simp

theorem esc_no (x : Char) (hx : x = '"' ∨ x = '\'') (c : Char) (hc : c ≠ x) : x ∉ xmlEsc c := by
  unfold xmlEsc
  rcases hx with rfl | rfl
  all_goals (repeat' split)
  all_goals first | decide | (simp only [List.mem_singleton]; exact fun h => hc h.symm)

theorem contains_esc (x : Char) (hx : x = '"' ∨ x = '\'') (s : Str) :
    (s.flatMap xmlEsc).contains x = s.contains x := by
  induction s with
  | nil => rfl
  | cons c cs ih =>
    simp only [List.flatMap_cons, List.contains_eq_mem, List.mem_append, List.mem_cons] at ih ⊢
    by_cases hc : c = x
    · subst hc
      have : c ∈ xmlEsc c := by
        unfold xmlEsc
        rcases hx with rfl | rfl <;> simp
      simp [this]
    · have := esc_no x hx c hc
      have hxc : ¬ x = c := fun h => hc h.symm
      simp only [this, false_or, hxc]
      simpa using ih

/-- with both quote characters in the value: `"` is written as `&quot;` -/
theorem dec_all_quot (rest : Str) : ∀ (s acc : Str),
    decAttr '"' ((s.flatMap xmlEsc).flatMap quotEsc ++ '"' :: rest) none acc = some (acc ++ s, rest) := by
  intro s
  induction s with
  | nil => intro acc; simp [decAttr]
  | cons c cs ih =>
    intro acc
    simp only [List.flatMap_cons, List.flatMap_append, List.append_assoc]
    by_cases hc : c = '"'
    · subst hc
      have : (xmlEsc '"').flatMap quotEsc = ['&', 'q', 'u', 'o', 't', ';'] := by decide
      rw [this, dec_quot, ih]
      simp
    · have hno := esc_no '"' (Or.inl rfl) c hc
      have : (xmlEsc c).flatMap quotEsc = xmlEsc c := by
        have : ∀ l : Str, '"' ∉ l → l.flatMap quotEsc = l := by
          intro l
          induction l with
          | nil => intro _; rfl
          | cons d ds ihl =>
            intro h
            have hd : (d == '"') = false := by simpa using fun e => h (by simp [e])
            simp only [List.flatMap_cons, quotEsc, hd, Bool.false_eq_true, if_false]
            rw [ihl (fun e => h (by simp [e]))]
            rfl
        exact this _ hno
      rw [this, dec_esc '"' (Or.inl rfl) c hc, ih]
      simp

theorem attr_roundtrip (s rest : Str) : parseAttr (quoteAttr s ++ rest) = some (s, rest) := by
  unfold quoteAttr
  simp only [contains_esc '"' (Or.inl rfl), contains_esc '\'' (Or.inr rfl)]
  by_cases h1 : s.contains '"' = true
  · by_cases h2 : s.contains '\'' = true
    · simp only [h1, h2, if_true, List.cons_append, List.append_assoc, parseAttr, beq_self_eq_true, Bool.true_or]
      have := dec_all_quot rest s []
      simpa using this
    · have h2' : s.contains '\'' = false := by simpa using h2
      simp only [h1, h2', if_true, Bool.false_eq_true, if_false, List.cons_append, List.append_assoc, parseAttr]
      have := dec_all '\'' (Or.inr rfl) rest s [] (by
        intro c hc e; subst e
        rw [List.contains_eq_mem] at h2'
        simp [hc] at h2')
      simpa using this
  · have h1' : s.contains '"' = false := by simpa using h1
    simp only [h1', Bool.false_eq_true, if_false, List.cons_append, List.append_assoc, parseAttr, beq_self_eq_true, Bool.true_or, if_true]
    have := dec_all '"' (Or.inl rfl) rest s [] (by
      intro c hc e; subst e
      rw [List.contains_eq_mem] at h1'
      simp [hc] at h1')
    simpa using this

end Aux
end DendroModel.C02
