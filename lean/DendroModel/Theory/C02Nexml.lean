import DendroModel.Model.C02Nexml
/-! NeXML writer model: how many elements and ids one tree takes -/
namespace DendroModel.C02
namespace Aux

mutual
def sizeNT : NT → Nat
  | .node _ _ _ cs => 1 + sizeNTL cs
def sizeNTL : List NT → Nat
  | [] => 0
  | c :: cs => sizeNT c + sizeNTL cs
end

mutual
theorem number_next : ∀ (t : NT) (n : Nat), (number t n).2 = n + sizeNT t
  | .node tx lb ln cs, n => by
    have := numberL_next cs (n + 1)
    simp only [number, sizeNT]
    rw [this]; omega
theorem numberL_next : ∀ (cs : List NT) (n : Nat), (numberL cs n).2 = n + sizeNTL cs
  | [], n => by simp [numberL, sizeNTL]
  | c :: cs, n => by
    have h1 := number_next c n
    have h2 := numberL_next cs (number c n).2
    simp only [numberL, sizeNTL]
    rw [h2, h1]; omega
end

mutual
theorem nodes_len (f : Str → Option Nat) (r : Option Nat) : ∀ (t : NT) (n : Nat), (itNodes f r (number t n).1).length = sizeNT t
  | .node tx lb ln cs, n => by
    have := nodesL_len f r cs (n + 1)
    simp only [number, itNodes, sizeNT, List.length_cons]
    rw [this]; omega
theorem nodesL_len (f : Str → Option Nat) (r : Option Nat) : ∀ (cs : List NT) (n : Nat), (itNodesL f r (numberL cs n).1).length = sizeNTL cs
  | [], n => by simp [numberL, itNodesL, sizeNTL]
  | c :: cs, n => by
    have h1 := nodes_len f r c n
    have h2 := nodesL_len f r cs (number c n).2
    simp only [numberL, itNodesL, sizeNTL, List.length_append]
    rw [h1, h2]
end

mutual
theorem edges_len (sz : Nat) (p : Option Nat) : ∀ (t : NT) (n : Nat), (itEdges sz p (number t n).1).length = sizeNT t
  | .node tx lb ln cs, n => by
    have := edgesL_len sz (some n) cs (n + 1)
    simp only [number, itEdges, sizeNT, List.length_cons]
    rw [this]; omega
theorem edgesL_len (sz : Nat) (p : Option Nat) : ∀ (cs : List NT) (n : Nat), (itEdgesL sz p (numberL cs n).1).length = sizeNTL cs
  | [], n => by simp [numberL, itEdgesL, sizeNTL]
  | c :: cs, n => by
    have h1 := edges_len sz p c n
    have h2 := edgesL_len sz p cs (number c n).2
    simp only [numberL, itEdgesL, sizeNTL, List.length_append]
    rw [h1, h2]
end

end Aux
end DendroModel.C02
