import DendroModel.Theory.C04Bridge
import DendroModel.Theory.FracRat
/-! C04 — per-split length sums over the tree AS DRAWN, and their invariance under the encoder's unifurcation
suppression (the suppressed node's length is added to its child's: `addLen`).  This is what makes the split → length
function the driver works with equal to "total length of the edges inducing the split", the definition the property
statement (and the Python oracle) uses. -/
namespace DendroModel.C04.Aux
open DendroModel DendroModel.C04

/-- an optional length as a rational, missing = 0 -/
def qlen (l : Option Frac) : Rat := (l.map fracToRat).getD 0

/-- total length of the listed edges whose leafset satisfies `P` -/
def psum (P : Nat → Bool) (es : List (Nat × Option Frac × Bool)) : Rat :=
  ((es.filter (fun e => P e.1)).map (fun e => qlen e.2.1)).sum

/-- a length, if present, has a non-zero denominator (every `Frac` built by `Frac.parse` / `mk'` / `+` has) -/
def OWF (l : Option Frac) : Prop := ∀ f, l = some f → f.den ≠ 0

mutual
def WFT : T → Prop
  | .node _ _ l _ cs => OWF l ∧ WFTL cs
def WFTL : List T → Prop
  | [] => True
  | c :: cs => WFT c ∧ WFTL cs
end

theorem psum_append (P : Nat → Bool) (a b : List (Nat × Option Frac × Bool)) : psum P (a ++ b) = psum P a + psum P b := by
  simp [psum, List.filter_append, List.map_append, List.sum_append]

theorem psum_nil (P : Nat → Bool) : psum P [] = 0 := by simp [psum]

theorem psum_single (P : Nat → Bool) (m : Nat) (l : Option Frac) (b : Bool) :
    psum P [(m, l, b)] = if P m then qlen l else 0 := by
  by_cases h : P m <;> simp [psum, h]

theorem qlen_addLen (a b : Option Frac) (ha : OWF a) (hb : OWF b) : qlen (addLen a b) = qlen a + qlen b := by
  cases b with
  | none => simp [addLen, qlen]
  | some y =>
    cases a with
    | none => simp [addLen, qlen]
    | some x =>
      simp only [addLen, qlen, Option.map_some, Option.getD_some]
      exact Frac.toRat_add x y (ha x rfl) (hb y rfl)

theorem owf_addLen (a b : Option Frac) (ha : OWF a) (hb : OWF b) : OWF (addLen a b) := by
  cases b with
  | none => simpa [addLen] using ha
  | some y =>
    cases a with
    | none => simpa [addLen] using hb
    | some x =>
      intro f hf
      simp only [addLen, Option.some.injEq] at hf
      subst hf; exact Frac.wf_add x y

theorem withLen_len (t : T) (l : Option Frac) : (t.withLen l).len = l := by cases t; rfl
theorem withLen_cs (t : T) (l : Option Frac) : (t.withLen l).cs = t.cs := by cases t; rfl
theorem withLen_mask' (t : T) (l : Option Frac) : (t.withLen l).mask = t.mask := by
  cases t with
  | node i x l' s cs => cases cs <;> rfl

theorem edgesPost_eq (b : Bool) (t : T) : edgesPost b t = edgesPostL t.cs ++ [(t.mask, t.len, b)] := by
  cases t with
  | node i x l s cs => simp [edgesPost, T.cs, T.len]

theorem sup_mask' (t : T) : (T.sup t).mask = t.mask := (C01.suppress_keeps_masks t).2.1

mutual
theorem sup_len_owf : ∀ t : T, WFT t → OWF (T.sup t).len
  | .node i x l s cs, h => by
    simp only [WFT] at h
    by_cases h1 : cs.length = 1
    · match cs, h1, h with
      | [c], _, h =>
        simp only [WFTL] at h
        rw [sup_node_one, withLen_len]
        exact owf_addLen _ _ (sup_len_owf c h.2.1) h.1
    · rw [sup_node_many _ _ _ _ _ h1]; exact h.1
end

mutual
/-- unifurcation suppression keeps the total length carried by the edges of every leafset -/
theorem psum_sup (P : Nat → Bool) : ∀ (t : T) (b : Bool), WFT t → psum P (edgesPost b (T.sup t)) = psum P (edgesPost b t)
  | .node i x l s cs, b, h => by
    simp only [WFT] at h
    by_cases h1 : cs.length = 1
    · match cs, h1, h with
      | [c], _, h =>
        simp only [WFTL] at h
        have ih := psum_sup P c false h.2.1
        rw [sup_node_one, edgesPost_eq b ((T.sup c).withLen _), withLen_cs, withLen_len, withLen_mask', psum_append, psum_single,
          qlen_addLen _ _ (sup_len_owf c h.2.1) h.1]
        rw [edgesPost_eq false (T.sup c), psum_append, psum_single] at ih
        rw [edgesPost_node, psum_append, psum_single]
        simp only [edgesPostL, List.append_nil]
        rw [← ih, sup_mask' c]
        have hm : T.mask (.node i x l s [c]) = c.mask := by simp [T.mask, T.maskL]
        rw [hm]
        by_cases hp : P c.mask <;> simp [hp]
        ring
    · have hm : T.mask (.node i x l s (T.supL cs)) = T.mask (.node i x l s cs) := by
        rw [← sup_node_many i x l s cs h1]; exact sup_mask' _
      rw [sup_node_many _ _ _ _ _ h1, edgesPost_node, edgesPost_node, psum_append, psum_append, hm, psum_supL P cs h.2]
theorem psum_supL (P : Nat → Bool) : ∀ cs : List T, WFTL cs → psum P (edgesPostL (T.supL cs)) = psum P (edgesPostL cs)
  | [], _ => rfl
  | c :: cs, h => by
    simp only [WFTL] at h
    simp only [T.supL, edgesPostL, psum_append, psum_sup P c false h.1, psum_supL P cs h.2]
end

end DendroModel.C04.Aux
