import DendroModel.Theory.C10Rel
import DendroModel.Theory.C10Sort
/-! C10 — world level: every operation updates the existing namespaces by primitive changes (`Upd`) or appends a
new namespace that satisfies the invariant. -/
namespace DendroModel.C10.Aux
open DendroModel DendroModel.C10

structure WInv (w : World) : Prop where
  ns : ∀ s ∈ w.nss, Inv s
  /-- members are `Taxon` objects that exist (so a newly created `Taxon` is in no namespace) -/
  fresh : ∀ s ∈ w.nss, ∀ t ∈ s.taxa, t < w.labels.length

def _root_.DendroModel.C10.Op.isSetMut : Op → Bool
  | .setMut _ _ => true
  | _ => false

def _root_.DendroModel.C10.Op.grows : Op → Bool
  | .add _ _ | .addTaxa _ _ | .new _ _ | .newTaxa _ _ | .req _ _ _ => true
  | _ => false

def _root_.DendroModel.C10.Op.appends : Op → Bool
  | .mkns _ _ | .copy _ | .deep _ | .mknsImm _ _ | .copyKw _ _ _ => true
  | _ => false

structure Upd (c : Cfg) (w w' : World) : Prop where
  len : w'.nss.length = w.nss.length
  labels : w.labels.length ≤ w'.labels.length
  rel : ∀ (j : Nat) (s : NS), w.nss[j]? = some s → ∃ s', w'.nss[j]? = some s' ∧ Rel c s s'

theorem upd_refl (c : Cfg) (w : World) : Upd c w w :=
  ⟨rfl, Nat.le_refl _, fun _ s h => ⟨s, h, .refl _⟩⟩

theorem upd_trans {c : Cfg} {w w1 w2 : World} (h1 : Upd c w w1) (h2 : Upd c w1 w2) : Upd c w w2 := by
  refine ⟨h2.len.trans h1.len, Nat.le_trans h1.labels h2.labels, ?_⟩
  intro j s hs
  obtain ⟨s1, hs1, r1⟩ := h1.rel j s hs
  obtain ⟨s2, hs2, r2⟩ := h2.rel j s1 hs1
  exact ⟨s2, hs2, r1.trans r2⟩

theorem upd_setNs {c : Cfg} {w : World} {n : Nat} {s s' : NS} (hs : w.nss[n]? = some s) (r : Rel c s s') :
    Upd c w (w.setNs n s') := by
  refine ⟨by simp [World.setNs], by simp [World.setNs], ?_⟩
  intro j sj hj
  by_cases e : j = n
  · subst e
    rw [hs] at hj; cases hj
    have hlt : j < w.nss.length := by
      rcases List.getElem?_eq_some_iff.1 hs with ⟨h, _⟩; exact h
    exact ⟨s', by simp [World.setNs, hlt], r⟩
  · refine ⟨sj, ?_, .refl _⟩
    have : n ≠ j := fun h => e h.symm
    simp [World.setNs, List.getElem?_set_ne this, hj]

theorem upd_labels {c : Cfg} {w : World} (ls : List String) (h : w.labels.length ≤ ls.length) :
    Upd c w { w with labels := ls } :=
  ⟨rfl, h, fun _ s hs => ⟨s, hs, .refl _⟩⟩

theorem Upd.mono {c c' : Cfg} (hc : c.le c') {w w' : World} (h : Upd c w w') : Upd c' w w' :=
  ⟨h.len, h.labels, fun j s hs => by obtain ⟨s', h1, h2⟩ := h.rel j s hs; exact ⟨s', h1, h2.mono hc⟩⟩

theorem newTaxon_upd (am : Bool) {w : World} {n : Nat} {s : NS} (l : String) (hs : w.nss[n]? = some s) :
    ∀ B, (newTaxon w n s l).1.labels.length ≤ B → Upd ⟨am, true, B⟩ w (newTaxon w n s l).1 := by
  unfold newTaxon
  by_cases hm : (!s.mutable_) = true
  · rw [if_pos hm]; intro B _; exact upd_refl _ _
  · rw [if_neg hm]
    simp only
    cases h : s.addTaxon w.labels.length with
    | error e =>
      intro B _
      exact upd_labels _ (by simp)
    | ok s' =>
      intro B hB
      simp [World.setNs] at hB
      have h1 : Upd ⟨am, true, B⟩ w { w with labels := w.labels ++ [l] } := upd_labels _ (by simp)
      have h2 : Upd ⟨am, true, B⟩ { w with labels := w.labels ++ [l] }
          (World.setNs { w with labels := w.labels ++ [l] } n s') :=
        upd_setNs (w := { w with labels := w.labels ++ [l] }) hs
          (.single (.add w.labels.length rfl (by simp; omega) h))
      exact upd_trans h1 h2

theorem newTaxaLoop_upd (am : Bool) (n : Nat) : ∀ (ls : List String) (w : World) (acc : List Nat) (B : Nat),
    (newTaxaLoop w n ls acc).1.labels.length ≤ B → Upd ⟨am, true, B⟩ w (newTaxaLoop w n ls acc).1 := by
  intro ls
  induction ls with
  | nil => intro w acc B _; exact upd_refl _ _
  | cons l ls ih =>
    intro w acc B
    unfold newTaxaLoop
    cases hs : w.nss[n]? with
    | none => intro _; exact upd_refl _ _
    | some s =>
      simp only
      have key := newTaxon_upd am l hs
      rcases hnt : newTaxon w n s l with ⟨w', r⟩
      rw [hnt] at key
      cases r with
      | error e => intro hB; exact key B hB
      | ok t =>
        simp only
        intro hB
        have h2 := ih w' (acc ++ [t]) B hB
        exact upd_trans (key B (Nat.le_trans h2.labels hB)) h2

theorem stepNs_upd {w : World} {n : Nat} {s : NS} (hs : w.nss[n]? = some s) (op : Op)
    (hr : op.refsOk w.labels.length = true) (ha : op.appends = false) :
    ∀ B, (stepNs w n s op).1.labels.length ≤ B → Upd ⟨op.isSetMut, op.grows, B⟩ w (stepNs w n s op).1 := by
  cases op with
  | mk l => intro B _; exact upd_refl _ _
  | mkns cs items => cases ha
  | copy n' => cases ha
  | deep n' => cases ha
  | relabel t l => intro B _; exact upd_refl _ _
  | add n' t =>
    simp only [stepNs]
    cases h : s.addTaxon t with
    | error e => intro B _; exact upd_refl _ _
    | ok s' =>
      intro B hB
      simp [World.setNs] at hB
      simp [Op.refsOk] at hr
      exact upd_setNs hs (.single (.add t rfl (by simp; omega) h))
  | addTaxa n' ts =>
    simp only [stepNs]
    have key : ∀ B, w.labels.length ≤ B → Rel ⟨false, true, B⟩ s (s.addTaxa ts).1 := by
      intro B hB
      refine addTaxa_rel rfl ts s ?_
      simp [Op.refsOk] at hr
      intro t ht; have := hr t ht; simp; omega
    rcases h : s.addTaxa ts with ⟨s', r⟩
    rw [h] at key
    cases r with
    | none => intro B hB; simp [World.setNs] at hB; exact upd_setNs hs (key B hB)
    | some e => intro B hB; simp [World.setNs] at hB; exact upd_setNs hs (key B hB)
  | new n' l =>
    simp only [stepNs]
    exact newTaxon_upd false l hs
  | newTaxa n' ls =>
    simp only [stepNs]
    by_cases hm : (!s.mutable_) = true
    · rw [if_pos hm]; intro B _; exact upd_refl _ _
    · rw [if_neg hm]; exact newTaxaLoop_upd false n ls w [] 
  | req n' c l =>
    simp only [stepNs]
    cases s.lookupFirst w.lab c l with
    | some t => intro B _; exact upd_refl _ _
    | none =>
      simp only
      by_cases hm : (!s.mutable_) = true
      · rw [if_pos hm]; intro B _; exact upd_refl _ _
      · rw [if_neg hm]; exact newTaxon_upd false l hs
  | rm n' t =>
    simp only [stepNs]
    cases h : s.removeTaxon t with
    | error e => intro B _; exact upd_refl _ _
    | ok s' => intro B _; exact upd_setNs hs (.single (.rm t rfl h))
  | del n' i =>
    simp only [stepNs]
    cases s.taxa[i]? with
    | none => intro B _; exact upd_refl _ _
    | some t =>
      simp only
      cases h : s.removeTaxon t with
      | error e => intro B _; exact upd_refl _ _
      | ok s' => intro B _; exact upd_setNs hs (.single (.rm t rfl h))
  | rml n' c l =>
    simp only [stepNs]
    cases hl : s.lookupAll w.lab c l with
    | nil => intro B _; exact upd_refl _ _
    | cons t ts =>
      simp only
      have key : ∀ B, Rel ⟨false, false, B⟩ s (s.removeAll (t :: ts)).1 := fun B => removeAll_rel rfl (t :: ts) s
      rcases h : s.removeAll (t :: ts) with ⟨s', r⟩
      rw [h] at key
      cases r with
      | none => intro B _; exact upd_setNs hs (key B)
      | some e => intro B _; exact upd_setNs hs (key B)
  | dl n' c l =>
    simp only [stepNs]
    have key : ∀ B, Rel ⟨false, false, B⟩ s (s.removeAll (s.lookupAll w.lab c l)).1 := fun B => removeAll_rel rfl _ s
    rcases h : s.removeAll (s.lookupAll w.lab c l) with ⟨s', r⟩
    rw [h] at key
    cases r with
    | none => intro B _; exact upd_setNs hs (key B)
    | some e => intro B _; exact upd_setNs hs (key B)
  | rmlf n' c l fixed =>
    simp only [stepNs]
    cases s.lookupFirst w.lab c l with
    | none => intro B _; exact upd_refl _ _
    | some t =>
      simp only
      cases fixed with
      | false => intro B _; exact upd_refl _ _
      | true =>
        simp only [if_true]
        cases h : s.removeTaxon t with
        | error e => intro B _; exact upd_refl _ _
        | ok s' => intro B _; exact upd_setNs hs (.single (.rm t rfl h))
  | dlf n' c l fixed =>
    simp only [stepNs]
    cases s.lookupFirst w.lab c l with
    | none => intro B _; exact upd_refl _ _
    | some t =>
      simp only
      cases fixed with
      | false => intro B _; exact upd_refl _ _
      | true =>
        simp only [if_true]
        cases h : s.removeTaxon t with
        | error e => intro B _; exact upd_refl _ _
        | ok s' => intro B _; exact upd_setNs hs (.single (.rm t rfl h))
  | sort n' rev =>
    simp only [stepNs]
    by_cases hc : sortRefused w.lab s.taxa = true
    · rw [if_pos hc]; intro B _; exact upd_refl _ _
    · rw [if_neg hc]; intro B _; exact upd_setNs hs (.single (.perm _ (sortBy_perm _ _ _)))
  | rev n' => intro B _; exact upd_setNs hs (.single (.perm _ (List.reverse_perm _)))
  | clear n' => intro B _; exact upd_setNs hs (.single (.clear rfl))
  | setMut n' b => intro B _; exact upd_setNs hs (.single (.setMut b rfl))
  | setCs n' b => intro B _; exact upd_setNs hs (.single (.setCs b))
  | get n' c l => intro B _; exact upd_refl _ _
  | find n' c l => intro B _; exact upd_refl _ _
  | gets n' c f ls => intro B _; exact upd_refl _ _
  | has n' c l => intro B _; exact upd_refl _ _
  | hasAll n' c ls => intro B _; exact upd_refl _ _
  | bm n' t =>
    simp only [stepNs]
    have key : ∀ B, Rel ⟨false, false, B⟩ s (s.taxonBitmask t).1 := fun B => taxonBitmask_rel s t
    rcases h : s.taxonBitmask t with ⟨s', r⟩
    rw [h] at key
    intro B _; exact upd_setNs hs (key B)
  | acc n' t => intro B _; exact upd_refl _ _
  | tbm n' ts =>
    simp only [stepNs]
    have key : ∀ B, Rel ⟨false, false, B⟩ s (s.taxaBitmask ts 0).1 := fun B => taxaBitmask_rel ts s 0
    rcases h : s.taxaBitmask ts 0 with ⟨s', r⟩
    rw [h] at key
    intro B _; exact upd_setNs hs (key B)
  | lbm n' c ls =>
    simp only [stepNs]
    have key : ∀ B, Rel ⟨false, false, B⟩ s (s.taxaBitmask (s.getTaxa w.lab c false ls []) 0).1 := fun B => taxaBitmask_rel _ s 0
    rcases h : s.taxaBitmask (s.getTaxa w.lab c false ls []) 0 with ⟨s', r⟩
    rw [h] at key
    intro B _; exact upd_setNs hs (key B)
  | all n' => intro B _; exact upd_refl _ _
  | btl n' m => intro B _; exact upd_refl _ _
  | nwk n' m ps qu =>
    simp only [stepNs]
    have key : ∀ B, Rel ⟨false, false, B⟩ s (s.newick w.lab m ps qu).1 := fun B => newick_rel s w.lab m ps qu
    rcases h : s.newick w.lab m ps qu with ⟨s', r⟩
    rw [h] at key
    intro B _; exact upd_setNs hs (key B)
  | bits n' m => intro B _; exact upd_refl _ _
  | isIn n' t => intro B _; exact upd_refl _ _
  | sortk n' k rev =>
    simp only [stepNs]
    by_cases hc : k = .label ∧ sortRefused w.lab s.taxa = true
    · rw [if_pos hc]; intro B _; exact upd_refl _ _
    · rw [if_neg hc]; intro B _; exact upd_setNs hs (.single (.perm _ (sortWith_perm _ _ _ _ _)))
  | sortx n' order =>
    simp only [stepNs]
    by_cases hc : sortRefused w.lab s.taxa = true ∧ order.isPerm s.taxa = true
    · rw [if_pos hc]; intro B _; exact upd_setNs hs (.single (.perm _ (List.isPerm_iff.1 hc.2)))
    · rw [if_neg hc]; intro B _; exact upd_refl _ _
  | btli n' m idx => intro B _; exact upd_refl _ _
  | tbmKw n' taxa labels c first =>
    simp only [stepNs]
    cases taxa with
    | some ts =>
      simp only
      have key : ∀ B, Rel ⟨false, false, B⟩ s (s.taxaBitmask ts 0).1 := fun B => taxaBitmask_rel ts s 0
      rcases h : s.taxaBitmask ts 0 with ⟨s', r⟩
      rw [h] at key
      intro B _; exact upd_setNs hs (key B)
    | none =>
      cases labels with
      | none => intro B _; exact upd_refl _ _
      | some ls =>
        simp only
        have key : ∀ B, Rel ⟨false, false, B⟩ s (s.taxaBitmask (s.getTaxa w.lab c first ls []) 0).1 :=
          fun B => taxaBitmask_rel _ s 0
        rcases h : s.taxaBitmask (s.getTaxa w.lab c first ls []) 0 with ⟨s', r⟩
        rw [h] at key
        intro B _; exact upd_setNs hs (key B)
  | mknsImm cs items => cases ha
  | copyKw n' cs mu => cases ha
  | scopedCopy n' => intro B _; exact upd_refl _ _
  | ltm n' c l => intro B _; exact upd_refl _ _

end DendroModel.C10.Aux
