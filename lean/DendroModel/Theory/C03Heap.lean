import DendroModel.Model.C03Heap
/-! C03 — heap refinement of `Node.remove_child`: the pointer-level removal (`Heap.removeChild`) refines the
tree-level removal `splice c (fun _ => [])`, with the frame lemma (a subtree mentioning neither node is untouched).
Ported from design-experiments/lean/Heap.lean onto the shared tree type. -/
namespace DendroModel.C03
open DendroModel

mutual
/-- heap `h` contains tree `t` with parent pointer `p` at its root: every node's parent pointer and child list
are exactly those of the tree (clause (a): parent/child book-keeping mutually consistent) -/
def Repr (h : Heap) : Option Nat → T → Prop
  | p, .node i _ _ _ cs => h.par i = p ∧ h.ch i = cs.map T.id ∧ ReprL h (some i) cs
def ReprL (h : Heap) : Option Nat → List T → Prop
  | _, [] => True
  | p, c :: cs => Repr h p c ∧ ReprL h p cs
end

namespace HeapAux

/-- what `Heap.removeChild` yields when `c` is listed under `p` -/
def rmHeap (h : Heap) (p c : Nat) : Heap :=
  { par := fun x => if x = c then none else h.par x
    ch := fun x => if x = p then (h.ch p).erase c else h.ch x }

theorem spliceL_nil_eq (c : Nat) (x : T) (xs : List T) (h : x.id = c) :
    spliceL c (fun _ => []) (x :: xs) = xs := by simp [spliceL, h]
theorem spliceL_nil_ne (c : Nat) (x : T) (xs : List T) (h : x.id ≠ c) :
    spliceL c (fun _ => []) (x :: xs) = splice c (fun _ => []) x :: spliceL c (fun _ => []) xs := by
  simp [spliceL, h]

theorem id_mem_ids : ∀ t : T, t.id ∈ ids t
  | .node i tx ln lb cs => by simp [T.id, ids]

theorem spliceNil_id (c : Nat) : ∀ t : T, (splice c (fun _ => []) t).id = t.id
  | .node i tx ln lb cs => by simp [splice, T.id]

mutual
theorem spliceNil_notin (c : Nat) : ∀ t : T, c ∉ ids t → splice c (fun _ => []) t = t
  | .node i tx ln lb cs, h => by
      simp only [ids, List.mem_cons, not_or] at h
      simp [splice, spliceNilL_notin c cs h.2]
theorem spliceNilL_notin (c : Nat) : ∀ cs : List T, c ∉ idsL cs → spliceL c (fun _ => []) cs = cs
  | [], _ => by simp [spliceL]
  | x :: xs, h => by
      simp only [idsL, List.mem_append, not_or] at h
      have hx : x.id ≠ c := fun e => h.1 (e ▸ id_mem_ids x)
      rw [spliceL_nil_ne c x xs hx, spliceNil_notin c x h.1, spliceNilL_notin c xs h.2]
end

-- frame: a subtree mentioning neither c nor p is unaffected
mutual
theorem frame (h : Heap) (p c : Nat) : ∀ (q : Option Nat) (t : T), c ∉ ids t → p ∉ ids t →
    Repr h q t → Repr (rmHeap h p c) q t
  | q, .node i tx ln lb cs, hc, hp, hr => by
      simp only [ids, List.mem_cons, not_or] at hc hp
      simp only [Repr] at hr ⊢
      refine ⟨?_, ?_, frameL h p c (some i) cs hc.2 hp.2 hr.2.2⟩
      · simp [rmHeap, Ne.symm hc.1, hr.1]
      · simp [rmHeap, Ne.symm hp.1, hr.2.1]
theorem frameL (h : Heap) (p c : Nat) : ∀ (q : Option Nat) (cs : List T), c ∉ idsL cs → p ∉ idsL cs →
    ReprL h q cs → ReprL (rmHeap h p c) q cs
  | _, [], _, _, _ => by simp [ReprL]
  | q, x :: xs, hc, hp, hr => by
      simp only [idsL, List.mem_append, not_or] at hc hp
      simp only [ReprL] at hr ⊢
      exact ⟨frame h p c q x hc.1 hp.1 hr.1, frameL h p c q xs hc.2 hp.2 hr.2⟩
end


mutual
theorem parent_in (h : Heap) (c p : Nat) : ∀ (q : Option Nat) (t : T), Repr h q t → c ∈ ids t → c ≠ t.id →
    h.par c = some p → p ∈ ids t
  | q, .node i tx ln lb cs, hr, hc, hne, hp => by
      simp only [ids, List.mem_cons] at hc ⊢
      simp only [T.id] at hne
      rcases hc with rfl | hc
      · exact absurd rfl hne
      · simp only [Repr] at hr
        exact parent_inL h c p i cs hr.2.2 hc hp
theorem parent_inL (h : Heap) (c p : Nat) : ∀ (i : Nat) (cs : List T), ReprL h (some i) cs → c ∈ idsL cs →
    h.par c = some p → p = i ∨ p ∈ idsL cs
  | _, [], _, hc, _ => by simp [idsL] at hc
  | i, x :: xs, hr, hc, hp => by
      simp only [idsL, List.mem_append] at hc ⊢
      simp only [ReprL] at hr
      rcases hc with hc | hc
      · by_cases hcx : c = x.id
        · left
          cases x with
          | node j tx ln lb js =>
            simp only [T.id] at hcx; subst hcx
            have := hr.1; simp only [Repr] at this
            rw [this.1] at hp; exact (Option.some.inj hp).symm
        · right; left; exact parent_in h c p (some i) x hr.1 hc hcx hp
      · rcases parent_inL h c p i xs hr.2 hc hp with h1 | h1
        · exact Or.inl h1
        · exact Or.inr (Or.inr h1)
end

theorem map_id_sub_idsL : ∀ cs : List T, ∀ j ∈ cs.map T.id, j ∈ idsL cs
  | [], j, hj => by simp at hj
  | x :: xs, j, hj => by
      simp only [List.map_cons, List.mem_cons] at hj
      simp only [idsL, List.mem_append]
      rcases hj with rfl | hj
      · exact Or.inl (id_mem_ids x)
      · exact Or.inr (map_id_sub_idsL xs j hj)

-- main refinement, list level: the sibling list `cs` hangs under node `i`
mutual
theorem spliceNil_repr (h : Heap) (p c : Nat) : ∀ (q : Option Nat) (t : T), Repr h q t → (ids t).Nodup →
    c ∈ ids t → c ≠ t.id → h.par c = some p → Repr (rmHeap h p c) q (splice c (fun _ => []) t)
  | q, .node i tx ln lb cs, hr, hnd, hc, hne, hp => by
      simp only [ids, List.nodup_cons] at hnd
      simp only [ids, List.mem_cons] at hc
      simp only [T.id] at hne
      have hcL : c ∈ idsL cs := by rcases hc with rfl | hc; exact absurd rfl hne; exact hc
      simp only [Repr] at hr
      simp only [splice, Repr]
      have hic : i ≠ c := fun e => hnd.1 (e ▸ hcL)
      have ⟨hch, hrl⟩ := spliceNilL_repr h p c i cs hr.2.2 hnd.1 hnd.2 hcL hp
      refine ⟨by simp [rmHeap, hic, hr.1], ?_, hrl⟩
      by_cases hpi : p = i
      · subst hpi
        simp only [rmHeap, if_true]
        rw [hr.2.1]; exact (hch.1 rfl).symm
      · simp only [rmHeap, Ne.symm hpi, if_false]
        rw [hr.2.1]; exact (hch.2 hpi).symm
theorem spliceNilL_repr (h : Heap) (p c : Nat) : ∀ (i : Nat) (cs : List T), ReprL h (some i) cs →
    i ∉ idsL cs → (idsL cs).Nodup → c ∈ idsL cs → h.par c = some p →
    ((p = i → (spliceL c (fun _ => []) cs).map T.id = (cs.map T.id).erase c) ∧
     (p ≠ i → (spliceL c (fun _ => []) cs).map T.id = cs.map T.id)) ∧
    ReprL (rmHeap h p c) (some i) (spliceL c (fun _ => []) cs)
  | _, [], _, _, _, hc, _ => by simp [idsL] at hc
  | i, x :: xs, hr, hi, hnd, hc, hp => by
      simp only [idsL, List.mem_append, not_or] at hi hc
      simp only [idsL] at hnd
      have hndx := (List.nodup_append.mp hnd).1
      have hndxs := (List.nodup_append.mp hnd).2.1
      have hdisj : ∀ a ∈ ids x, ∀ b ∈ idsL xs, a ≠ b := (List.nodup_append.mp hnd).2.2
      simp only [ReprL] at hr
      by_cases hxc : x.id = c
      · -- direct child, found at the head
        have hpi : p = i := by
          cases x with
          | node j tx ln lb js =>
            simp only [T.id] at hxc; subst hxc
            have := hr.1; simp only [Repr] at this
            rw [this.1] at hp; exact (Option.some.inj hp).symm
        subst hpi
        have hcx : c ∈ ids x := hxc ▸ id_mem_ids x
        have hcxs : c ∉ idsL xs := fun hh => hdisj c hcx c hh rfl
        rw [spliceL_nil_eq c x xs hxc]
        simp only [hxc, List.map_cons, List.erase_cons_head]
        refine ⟨⟨by simp, by intro hh; exact absurd rfl hh⟩, ?_⟩
        exact frameL h p c (some p) xs hcxs hi.2 hr.2
      · rw [spliceL_nil_ne c x xs hxc]
        simp only [List.map_cons, ReprL, spliceNil_id]
        rcases hc with hcx | hcxs
        · -- c strictly inside x
          have hcne : c ≠ x.id := fun e => hxc e.symm
          have hpx : p ∈ ids x := parent_in h c p (some i) x hr.1 hcx hcne hp
          have hcxs : c ∉ idsL xs := fun hh => hdisj c hcx c hh rfl
          have hpxs : p ∉ idsL xs := fun hh => hdisj p hpx p hh rfl
          have hpi : p ≠ i := fun e => hi.1 (e ▸ hpx)
          have hrest : spliceL c (fun _ => []) xs = xs := spliceNilL_notin c xs hcxs
          rw [hrest]
          refine ⟨⟨fun e => absurd e hpi, fun _ => rfl⟩, ?_, frameL h p c (some i) xs hcxs hpxs hr.2⟩
          exact spliceNil_repr h p c (some i) x hr.1 hndx hcx hcne hp
        · -- c in the tail
          have hcx : c ∉ ids x := fun hh => hdisj c hh c hcxs rfl
          have ⟨hm, hrl⟩ := spliceNilL_repr h p c i xs hr.2 hi.2 hndxs hcxs hp
          have hpx : p ∉ ids x := by
            intro hh
            rcases parent_inL h c p i xs hr.2 hcxs hp with e | e
            · exact hi.1 (e ▸ hh)
            · exact hdisj p hh p e rfl
          rw [spliceNil_notin c x hcx]
          refine ⟨⟨?_, ?_⟩, frame h p c (some i) x hcx hpx hr.1, hrl⟩
          · intro e; rw [hm.1 e]
            have : x.id ≠ c := hxc
            rw [List.erase_cons_tail (by simpa using this)]
          · intro e; rw [hm.2 e]
end


theorem removeChild_eq (h : Heap) (p c : Nat) (hc : c ∈ h.ch p) : Heap.removeChild h p c = some (rmHeap h p c) := by
  have : (h.ch p).contains c = true := by simpa using hc
  simp only [Heap.removeChild, this, if_true]
  rfl

-- in a represented heap a node that claims parent `p` is listed among `p`'s children
mutual
theorem child_listed (h : Heap) (c p : Nat) : ∀ (q : Option Nat) (t : T), Repr h q t → c ∈ ids t → c ≠ t.id →
    h.par c = some p → c ∈ h.ch p
  | q, .node i tx ln lb cs, hr, hc, hne, hp => by
      simp only [ids, List.mem_cons] at hc
      simp only [T.id] at hne
      simp only [Repr] at hr
      rcases hc with rfl | hc
      · exact absurd rfl hne
      · rcases child_listedL h c p i cs hr.2.2 hc hp with ⟨hm, e⟩ | hm
        · subst e; rw [hr.2.1]; exact hm
        · exact hm
theorem child_listedL (h : Heap) (c p : Nat) : ∀ (i : Nat) (cs : List T), ReprL h (some i) cs → c ∈ idsL cs →
    h.par c = some p → (c ∈ cs.map T.id ∧ p = i) ∨ c ∈ h.ch p
  | _, [], _, hc, _ => by simp [idsL] at hc
  | i, x :: xs, hr, hc, hp => by
      simp only [idsL, List.mem_append] at hc
      simp only [ReprL] at hr
      rcases hc with hc | hc
      · by_cases hcx : c = x.id
        · left
          cases x with
          | node j tx ln lb js =>
            simp only [T.id] at hcx; subst hcx
            have := hr.1; simp only [Repr] at this
            rw [this.1] at hp
            exact ⟨by simp [T.id], (Option.some.inj hp).symm⟩
        · right; exact child_listed h c p (some i) x hr.1 hc hcx hp
      · rcases child_listedL h c p i xs hr.2 hc hp with ⟨hm, e⟩ | hm
        · left; exact ⟨by simp only [List.map_cons, List.mem_cons]; exact Or.inr hm, e⟩
        · right; exact hm
end

/-! ### the heap built from a tree represents it -/
mutual
theorem agree (h h' : Heap) : ∀ (q : Option Nat) (t : T),
    (∀ x ∈ ids t, h'.par x = h.par x ∧ h'.ch x = h.ch x) → Repr h q t → Repr h' q t
  | q, .node i tx ln lb cs, ha, hr => by
      simp only [Repr] at hr ⊢
      have hi := ha i (by simp [ids])
      refine ⟨by rw [hi.1]; exact hr.1, by rw [hi.2]; exact hr.2.1, ?_⟩
      exact agreeL h h' (some i) cs (fun x hx => ha x (by simp [ids, hx])) hr.2.2
theorem agreeL (h h' : Heap) : ∀ (q : Option Nat) (cs : List T),
    (∀ x ∈ idsL cs, h'.par x = h.par x ∧ h'.ch x = h.ch x) → ReprL h q cs → ReprL h' q cs
  | _, [], _, _ => by simp [ReprL]
  | q, c :: cs, ha, hr => by
      simp only [ReprL] at hr ⊢
      exact ⟨agree h h' q c (fun x hx => ha x (by simp [idsL, hx])) hr.1,
             agreeL h h' q cs (fun x hx => ha x (by simp [idsL, hx])) hr.2⟩
end

mutual
theorem ofTree_outside : ∀ (t : T) (p : Option Nat) (h : Heap) (x : Nat), x ∉ ids t →
    (Heap.ofTree p h t).par x = h.par x ∧ (Heap.ofTree p h t).ch x = h.ch x
  | .node i tx ln lb cs, p, h, x, hx => by
      simp only [ids, List.mem_cons, not_or] at hx
      have := ofTreeL_outside cs (some i) ((h.setPar i p).setCh i (cs.map T.id)) x hx.2
      simp only [Heap.ofTree]
      rw [this.1, this.2]
      simp [Heap.setPar, Heap.setCh, hx.1]
theorem ofTreeL_outside : ∀ (cs : List T) (p : Option Nat) (h : Heap) (x : Nat), x ∉ idsL cs →
    (Heap.ofTreeL p h cs).par x = h.par x ∧ (Heap.ofTreeL p h cs).ch x = h.ch x
  | [], p, h, x, _ => by simp [Heap.ofTreeL]
  | c :: cs, p, h, x, hx => by
      simp only [idsL, List.mem_append, not_or] at hx
      have h1 := ofTree_outside c p h x hx.1
      have h2 := ofTreeL_outside cs p (Heap.ofTree p h c) x hx.2
      simp only [Heap.ofTreeL]
      rw [h2.1, h2.2]; exact h1
end

mutual
theorem ofTree_repr_aux : ∀ (t : T) (p : Option Nat) (h : Heap), (ids t).Nodup → Repr (Heap.ofTree p h t) p t
  | .node i tx ln lb cs, p, h, hnd => by
      simp only [ids, List.nodup_cons] at hnd
      have ho := ofTreeL_outside cs (some i) ((h.setPar i p).setCh i (cs.map T.id)) i hnd.1
      simp only [Heap.ofTree, Repr]
      refine ⟨?_, ?_, ofTreeL_repr_aux cs (some i) _ hnd.2⟩
      · rw [ho.1]; simp [Heap.setPar, Heap.setCh]
      · rw [ho.2]; simp [Heap.setPar, Heap.setCh]
theorem ofTreeL_repr_aux : ∀ (cs : List T) (p : Option Nat) (h : Heap), (idsL cs).Nodup →
    ReprL (Heap.ofTreeL p h cs) p cs
  | [], _, _, _ => by simp [ReprL]
  | c :: cs, p, h, hnd => by
      simp only [idsL] at hnd
      have hndc := (List.nodup_append.mp hnd).1
      have hndcs := (List.nodup_append.mp hnd).2.1
      have hdisj : ∀ a ∈ ids c, ∀ b ∈ idsL cs, a ≠ b := (List.nodup_append.mp hnd).2.2
      simp only [Heap.ofTreeL, ReprL]
      refine ⟨?_, ofTreeL_repr_aux cs p _ hndcs⟩
      apply agree (Heap.ofTree p h c) _ p c _ (ofTree_repr_aux c p h hndc)
      intro x hx
      exact ofTreeL_outside cs p (Heap.ofTree p h c) x (fun hh => hdisj x hx x hh rfl)
end

end HeapAux
end DendroModel.C03

namespace DendroModel.C03.HeapAux
open DendroModel DendroModel.C03

/-! ### attaching a fresh leaf (`add_child` / `insert_child` with a new node) refines `modify` -/

theorem reprL_append (h : Heap) (q : Option Nat) : ∀ a b : List T, ReprL h q a → ReprL h q b → ReprL h q (a ++ b)
  | [], b, _, hb => hb
  | x :: xs, b, ha, hb => by
      simp only [ReprL] at ha
      simp only [List.cons_append, ReprL]
      exact ⟨ha.1, reprL_append h q xs b ha.2 hb⟩

theorem reprL_take (h : Heap) (q : Option Nat) (n : Nat) : ∀ a : List T, ReprL h q a → ReprL h q (a.take n) ∧ ReprL h q (a.drop n) := by
  induction n with
  | zero => intro a ha; simp [ReprL, ha]
  | succ m ih =>
    intro a ha
    cases a with
    | nil => simp [ReprL]
    | cons x xs =>
      simp only [ReprL] at ha
      have := ih xs ha.2
      simp only [List.take_succ_cons, List.drop_succ_cons, ReprL]
      exact ⟨⟨ha.1, this.1⟩, this.2⟩

theorem modify_root_id (p : Nat) (f : T → T) (hf : ∀ x, (f x).id = x.id) : ∀ t : T, (modify p f t).id = t.id
  | .node j x l s cs => by
      simp only [modify]
      split
      · exact hf _
      · rfl

theorem modifyL_map_id (p : Nat) (f : T → T) (hf : ∀ x, (f x).id = x.id) : ∀ cs : List T,
    (modifyL p f cs).map T.id = cs.map T.id
  | [] => by simp [modifyL]
  | c :: cs => by simp [modifyL, modify_root_id p f hf c, modifyL_map_id p f hf cs]

mutual
theorem modify_notin (p : Nat) (f : T → T) : ∀ t : T, p ∉ ids t → modify p f t = t
  | .node j x l s cs, h => by
      simp only [ids, List.mem_cons, not_or] at h
      have : (j == p) = false := by simp; exact fun e => h.1 e.symm
      simp [modify, this, modifyL_notin p f cs h.2]
theorem modifyL_notin (p : Nat) (f : T → T) : ∀ cs : List T, p ∉ idsL cs → modifyL p f cs = cs
  | [], _ => by simp [modifyL]
  | c :: cs, h => by
      simp only [idsL, List.mem_append, not_or] at h
      simp [modifyL, modify_notin p f c h.1, modifyL_notin p f cs h.2]
end

/- generic attachment: the heap `h'` differs from `h` only in `par k` (now `some p`) and `ch p` (now the ids of
`g cs`), where `g` places the fresh leaf `k` somewhere among the old children -/
mutual
theorem attach_repr (h h' : Heap) (p k : Nat) (lf : T) (g : List T → List T)
    (hlf : lf.id = k ∧ lf.cs = []) (hk : h'.par k = some p ∧ h'.ch k = [])
    (hoth : ∀ x, x ≠ k → h'.par x = h.par x) (hoch : ∀ x, x ≠ p → x ≠ k → h'.ch x = h.ch x)
    (hp : ∀ cs : List T, h.ch p = cs.map T.id → h'.ch p = (g cs).map T.id)
    (hg : ∀ (hh : Heap) (q : Option Nat) (cs : List T), ReprL hh q cs → Repr hh q lf → ReprL hh q (g cs)) :
    ∀ (q : Option Nat) (t : T), Repr h q t → (ids t).Nodup → k ∉ ids t →
      Repr h' q (modify p (fun n => n.withCs (g n.cs)) t)
  | q, .node j x l s cs, hr, hnd, hkn => by
      simp only [ids, List.nodup_cons] at hnd
      simp only [ids, List.mem_cons, not_or] at hkn
      simp only [Repr] at hr
      have hjk : j ≠ k := fun e => hkn.1 e.symm
      simp only [modify]
      split
      · rename_i e
        have hjp : j = p := by simpa using e
        subst hjp
        simp only [T.withCs, T.cs, Repr]
        refine ⟨by rw [hoth j hjk]; exact hr.1, hp cs hr.2.1, ?_⟩
        apply hg
        · -- the old children: none of them is `j` or `k`
          apply agreeL h h' (some j) cs _ hr.2.2
          intro y hy
          have hyk : y ≠ k := fun e => hkn.2 (e ▸ hy)
          have hyp : y ≠ j := fun e => hnd.1 (e ▸ hy)
          exact ⟨hoth y hyk, hoch y hyp hyk⟩
        · cases lf with
          | node i a b c d =>
            simp only [T.id, T.cs] at hlf
            obtain ⟨rfl, rfl⟩ := hlf
            simp only [Repr, ReprL, List.map_nil, and_true]
            exact hk
      · rename_i e
        have hjp : j ≠ p := by simpa using e
        simp only [Repr]
        refine ⟨by rw [hoth j hjk]; exact hr.1, ?_, ?_⟩
        · rw [hoch j hjp hjk, hr.2.1, modifyL_map_id]; intro y; cases y; rfl
        · exact attachL_repr h h' p k lf g hlf hk hoth hoch hp hg (some j) cs hr.2.2 hnd.2 hkn.2
theorem attachL_repr (h h' : Heap) (p k : Nat) (lf : T) (g : List T → List T)
    (hlf : lf.id = k ∧ lf.cs = []) (hk : h'.par k = some p ∧ h'.ch k = [])
    (hoth : ∀ x, x ≠ k → h'.par x = h.par x) (hoch : ∀ x, x ≠ p → x ≠ k → h'.ch x = h.ch x)
    (hp : ∀ cs : List T, h.ch p = cs.map T.id → h'.ch p = (g cs).map T.id)
    (hg : ∀ (hh : Heap) (q : Option Nat) (cs : List T), ReprL hh q cs → Repr hh q lf → ReprL hh q (g cs)) :
    ∀ (q : Option Nat) (cs : List T), ReprL h q cs → (idsL cs).Nodup → k ∉ idsL cs →
      ReprL h' q (modifyL p (fun n => n.withCs (g n.cs)) cs)
  | _, [], _, _, _ => by simp [modifyL, ReprL]
  | q, c :: cs, hr, hnd, hkn => by
      simp only [idsL] at hnd
      simp only [idsL, List.mem_append, not_or] at hkn
      simp only [ReprL] at hr
      have hndc := (List.nodup_append.mp hnd).1
      have hndcs := (List.nodup_append.mp hnd).2.1
      simp only [modifyL, ReprL]
      exact ⟨attach_repr h h' p k lf g hlf hk hoth hoch hp hg q c hr.1 hndc hkn.1,
             attachL_repr h h' p k lf g hlf hk hoth hoch hp hg q cs hr.2 hndcs hkn.2⟩
end

end DendroModel.C03.HeapAux

namespace DendroModel.C03.HeapAux
open DendroModel DendroModel.C03

/- in a represented heap the child lists of the tree's nodes name nodes of the tree only -/
mutual
theorem ch_sub_ids (h : Heap) : ∀ (q : Option Nat) (t : T), Repr h q t → ∀ p ∈ ids t, ∀ k ∈ h.ch p, k ∈ ids t
  | q, .node j tx ln lb cs, hr, p, hp, k, hk => by
      simp only [Repr] at hr
      simp only [ids, List.mem_cons] at hp ⊢
      rcases hp with rfl | hp
      · right; rw [hr.2.1] at hk; exact map_id_sub_idsL cs k hk
      · right; exact chL_sub_ids h (some j) cs hr.2.2 p hp k hk
theorem chL_sub_ids (h : Heap) : ∀ (q : Option Nat) (cs : List T), ReprL h q cs → ∀ p ∈ idsL cs, ∀ k ∈ h.ch p, k ∈ idsL cs
  | _, [], _, p, hp, _, _ => by simp [idsL] at hp
  | q, c :: cs, hr, p, hp, k, hk => by
      simp only [ReprL] at hr
      simp only [idsL, List.mem_append] at hp ⊢
      rcases hp with hp | hp
      · left; exact ch_sub_ids h q c hr.1 p hp k hk
      · right; exact chL_sub_ids h q cs hr.2 p hp k hk
end

/-- the heap built from `t` knows nothing about a node that is not in `t` -/
theorem ofTree_fresh (t : T) (hw : (ids t).Nodup) (k : Nat) (hk : k ∉ ids t) :
    (Heap.ofTree none Heap.empty t).ch k = [] ∧ ∀ p, k ∉ (Heap.ofTree none Heap.empty t).ch p := by
  have ho := ofTree_outside t none Heap.empty k hk
  refine ⟨by rw [ho.2]; rfl, ?_⟩
  intro p hmem
  by_cases hp : p ∈ ids t
  · exact hk (ch_sub_ids _ none t (ofTree_repr_aux t none Heap.empty hw) p hp k hmem)
  · have := ofTree_outside t none Heap.empty p hp
    rw [this.2] at hmem; simp [Heap.empty] at hmem

end DendroModel.C03.HeapAux

namespace DendroModel.C03.HeapAux
open DendroModel DendroModel.C03

/- generic attachment of a represented subtree `w` (root id `k`): as `attach_repr`, with `w` in place of the fresh leaf -/
mutual
theorem attachSub_repr (h h' : Heap) (p k : Nat) (w : T) (g : List T → List T)
    (hwk : w.id = k) (hw' : Repr h' (some p) w)
    (hoth : ∀ x, x ≠ k → h'.par x = h.par x) (hoch : ∀ x, x ≠ p → x ≠ k → h'.ch x = h.ch x)
    (hp : ∀ cs : List T, h.ch p = cs.map T.id → h'.ch p = (g cs).map T.id)
    (hg : ∀ (hh : Heap) (q : Option Nat) (cs : List T), ReprL hh q cs → Repr hh q w → ReprL hh q (g cs)) :
    ∀ (q : Option Nat) (t : T), Repr h q t → (ids t).Nodup → k ∉ ids t →
      Repr h' q (modify p (fun n => n.withCs (g n.cs)) t)
  | q, .node j x l s cs, hr, hnd, hkn => by
      simp only [ids, List.nodup_cons] at hnd
      simp only [ids, List.mem_cons, not_or] at hkn
      simp only [Repr] at hr
      have hjk : j ≠ k := fun e => hkn.1 e.symm
      simp only [modify]
      split
      · rename_i e
        have hjp : j = p := by simpa using e
        subst hjp
        simp only [T.withCs, T.cs, Repr]
        refine ⟨by rw [hoth j hjk]; exact hr.1, hp cs hr.2.1, ?_⟩
        apply hg
        · apply agreeL h h' (some j) cs _ hr.2.2
          intro y hy
          have hyk : y ≠ k := fun e => hkn.2 (e ▸ hy)
          have hyp : y ≠ j := fun e => hnd.1 (e ▸ hy)
          exact ⟨hoth y hyk, hoch y hyp hyk⟩
        · exact hw'
      · rename_i e
        have hjp : j ≠ p := by simpa using e
        simp only [Repr]
        refine ⟨by rw [hoth j hjk]; exact hr.1, ?_, ?_⟩
        · rw [hoch j hjp hjk, hr.2.1, modifyL_map_id]; intro y; cases y; rfl
        · exact attachSubL_repr h h' p k w g hwk hw' hoth hoch hp hg (some j) cs hr.2.2 hnd.2 hkn.2
theorem attachSubL_repr (h h' : Heap) (p k : Nat) (w : T) (g : List T → List T)
    (hwk : w.id = k) (hw' : Repr h' (some p) w)
    (hoth : ∀ x, x ≠ k → h'.par x = h.par x) (hoch : ∀ x, x ≠ p → x ≠ k → h'.ch x = h.ch x)
    (hp : ∀ cs : List T, h.ch p = cs.map T.id → h'.ch p = (g cs).map T.id)
    (hg : ∀ (hh : Heap) (q : Option Nat) (cs : List T), ReprL hh q cs → Repr hh q w → ReprL hh q (g cs)) :
    ∀ (q : Option Nat) (cs : List T), ReprL h q cs → (idsL cs).Nodup → k ∉ idsL cs →
      ReprL h' q (modifyL p (fun n => n.withCs (g n.cs)) cs)
  | _, [], _, _, _ => by simp [modifyL, ReprL]
  | q, c :: cs, hr, hnd, hkn => by
      simp only [idsL] at hnd
      simp only [idsL, List.mem_append, not_or] at hkn
      simp only [ReprL] at hr
      have hndc := (List.nodup_append.mp hnd).1
      have hndcs := (List.nodup_append.mp hnd).2.1
      simp only [modifyL, ReprL]
      exact ⟨attachSub_repr h h' p k w g hwk hw' hoth hoch hp hg q c hr.1 hndc hkn.1,
             attachSubL_repr h h' p k w g hwk hw' hoth hoch hp hg q cs hr.2 hndcs hkn.2⟩
end


end DendroModel.C03.HeapAux
