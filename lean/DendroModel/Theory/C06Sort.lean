import DendroModel.Model.C06
import Mathlib.Tactic.Linarith
/-! C06 helper lemmas: the order `(frequency, mask)` used by `insDesc` (the `sort(reverse=True)` of `consensus_tree`) is
total, transitive and — on entries with distinct masks — antisymmetric, for fractions with positive denominators; hence
the insertion sort `foldr insDesc []` yields a sorted list. -/
namespace DendroModel.C06.Aux
open DendroModel DendroModel.C06

/-- `a ≤ b` as rationals (cross-multiplied) -/
def L (a b : Q) : Prop := a.num * b.den ≤ b.num * a.den

instance (a b : Q) : Decidable (L a b) := by unfold L; infer_instance

theorem le_iff_L (a b : Q) : Q.le a b = true ↔ L a b := by simp [Q.le, L]

theorem L_total (a b : Q) : L a b ∨ L b a := by unfold L; exact le_total _ _

theorem L_trans {a b c : Q} (hb : 0 < b.den) (h1 : L a b) (h2 : L b c) : L a c := by
  unfold L at *
  have hb' : (0 : Int) < b.den := by exact_mod_cast hb
  by_contra hc
  rw [not_le] at hc
  have e1 := mul_le_mul_of_nonneg_right h1 (Int.natCast_nonneg c.den)
  have e2 := mul_le_mul_of_nonneg_right h2 (Int.natCast_nonneg a.den)
  have e3 := mul_lt_mul_of_pos_right hc hb'
  nlinarith [e1, e2, e3]

/-- `x` goes before `y` in the descending order: greater frequency, or the same frequency and a mask not smaller -/
def geP (x y : Q × Nat) : Prop := if L y.1 x.1 ∧ L x.1 y.1 then y.2 ≤ x.2 else L y.1 x.1

instance (x y : Q × Nat) : Decidable (geP x y) := by unfold geP; infer_instance

theorem insDesc_cons (x y : Q × Nat) (r : List (Q × Nat)) :
    insDesc x (y :: r) = if geP x y then x :: y :: r else y :: insDesc x r := by
  simp only [insDesc, geP]
  by_cases h1 : L y.1 x.1 <;> by_cases h2 : L x.1 y.1 <;>
    simp [h1, h2, (le_iff_L _ _).2, show ∀ a b, ¬ L a b → Q.le a b = false from fun a b h => by
      cases hq : Q.le a b
      · rfl
      · exact absurd ((le_iff_L a b).1 hq) h]

theorem geP_total (x y : Q × Nat) (h : ¬ geP x y) : geP y x := by
  unfold geP at *
  have ht := L_total y.1 x.1
  by_cases h1 : L y.1 x.1 <;> by_cases h2 : L x.1 y.1 <;> (simp_all; try omega)

theorem geP_antisymm {x y : Q × Nat} (h1 : geP x y) (h2 : geP y x) : x.2 = y.2 := by
  unfold geP at *
  by_cases a1 : L y.1 x.1 <;> by_cases a2 : L x.1 y.1 <;> (simp_all; try omega)

theorem geP_trans {x y z : Q × Nat} (hx : 0 < x.1.den) (hy : 0 < y.1.den) (hz : 0 < z.1.den)
    (h1 : geP x y) (h2 : geP y z) : geP x z := by
  unfold geP at *
  by_cases a1 : L y.1 x.1 <;> by_cases a2 : L x.1 y.1 <;> by_cases b1 : L z.1 y.1 <;> by_cases b2 : L y.1 z.1 <;>
    simp only [a1, a2, b1, b2, and_self, and_true, and_false, if_true, if_false] at h1 h2
  all_goals first
    | (have c1 : L z.1 x.1 := L_trans hy b1 a1
       by_cases c2 : L x.1 z.1
       · first
         | (have : L y.1 z.1 := L_trans hx a1 c2; contradiction)
         | (have : L x.1 y.1 := L_trans hz c2 b1; contradiction)
         | (simp only [c1, c2, and_self, if_true]; omega)
       · simp only [c1, c2, and_false, if_false])

theorem mem_insDesc {x z : Q × Nat} {s : List (Q × Nat)} : z ∈ insDesc x s ↔ z = x ∨ z ∈ s := by
  induction s with
  | nil => simp [insDesc]
  | cons y r ih =>
    rw [insDesc_cons]
    split
    · simp
    · simp only [List.mem_cons, ih]
      constructor
      · rintro (h | h | h)
        · exact Or.inr (Or.inl h)
        · exact Or.inl h
        · exact Or.inr (Or.inr h)
      · rintro (h | h | h)
        · exact Or.inr (Or.inl h)
        · exact Or.inl h
        · exact Or.inr (Or.inr h)

theorem insDesc_sorted {x : Q × Nat} {s : List (Q × Nat)} (hx : 0 < x.1.den) (hs : ∀ z ∈ s, 0 < z.1.den)
    (h : s.Pairwise geP) : (insDesc x s).Pairwise geP := by
  induction s with
  | nil => simp [insDesc]
  | cons y r ih =>
    rw [insDesc_cons]
    rw [List.pairwise_cons] at h
    have hy := hs y (by simp)
    have hr : ∀ z ∈ r, 0 < z.1.den := fun z hz => hs z (by simp [hz])
    split
    · rename_i hg
      refine List.pairwise_cons.2 ⟨?_, List.pairwise_cons.2 h⟩
      intro z hz
      rcases List.mem_cons.1 hz with rfl | hz
      · exact hg
      · exact geP_trans hx hy (hr z hz) hg (h.1 z hz)
    · rename_i hg
      refine List.pairwise_cons.2 ⟨?_, ih hr h.2⟩
      intro z hz
      rcases mem_insDesc.1 hz with rfl | hz
      · exact geP_total _ _ hg
      · exact h.1 z hz

theorem sortDesc_sorted : ∀ (l : List (Q × Nat)), (∀ z ∈ l, 0 < z.1.den) → (l.foldr insDesc []).Pairwise geP
  | [], _ => by simp
  | x :: r, h => by
    simp only [List.foldr_cons]
    refine insDesc_sorted (h x (by simp)) ?_ (sortDesc_sorted r (fun z hz => h z (by simp [hz])))
    intro z hz
    have : z ∈ r := by
      clear h
      induction r with
      | nil => simp at hz
      | cons y r ih =>
        simp only [List.foldr_cons] at hz
        rcases mem_insDesc.1 hz with rfl | hz
        · simp
        · exact List.mem_cons_of_mem _ (ih hz)
    exact h z (by simp [this])

end DendroModel.C06.Aux
