import DendroModel.Model.C03
/-! C03 — clause (b) in identity form: the taxon-bearing leaves of a tree, as (node id, taxon) pairs, and how the
building blocks of the operations treat them.  `lc p t` counts the leaves of `t` that are node `p.1` carrying
taxon `p.2`; "`lc p t ≤ lc p t'`" says: if `p` was a leaf of `t`, it is still a leaf of `t'`, same node, same taxon. -/
namespace DendroModel.C03.Leaves
open DendroModel DendroModel.C03

def pairOf (l : T) : Option (Nat × Nat) := l.taxon.map (fun x => (l.id, x))
def lpairs (t : T) : List (Nat × Nat) := t.leaves.filterMap pairOf
def lpairsL (l : List T) : List (Nat × Nat) := (T.leavesL l).filterMap pairOf
def lc (p : Nat × Nat) (t : T) : Nat := (lpairs t).count p
def lcL (p : Nat × Nat) (l : List T) : Nat := (lpairsL l).count p

@[simp] theorem lcL_nil (p) : lcL p [] = 0 := by simp [lcL, lpairsL, T.leavesL]
@[simp] theorem lcL_cons (p) (c : T) (cs : List T) : lcL p (c :: cs) = lc p c + lcL p cs := by
  simp [lc, lcL, lpairs, lpairsL, T.leavesL, List.filterMap_append, List.count_append]
@[simp] theorem lcL_append (p) (a b : List T) : lcL p (a ++ b) = lcL p a + lcL p b := by
  induction a with
  | nil => simp
  | cons x xs ih => simp [ih]; omega
@[simp] theorem lc_node_cons (p) (i x l s c cs) : lc p (.node i x l s (c :: cs)) = lc p c + lcL p cs := by
  rw [← lcL_cons]; simp [lc, lcL, lpairs, lpairsL, T.leaves]
@[simp] theorem lc_withLen (p) (t : T) (l) : lc p (t.withLen l) = lc p t := by
  cases t with
  | node i x l' s cs => cases cs <;> simp [lc, lpairs, T.withLen, T.leaves, pairOf, T.taxon, T.id, List.filterMap_cons]

theorem lc_ge (p) (i x l s) (cs : List T) : lcL p cs ≤ lc p (.node i x l s cs) := by
  cases cs <;> simp
theorem lc_withCs_ge (p) (t : T) (cs : List T) : lcL p cs ≤ lc p (t.withCs cs) := by
  cases t; simp only [T.withCs]; exact lc_ge ..
theorem lc_eq_cs (p) (t : T) (h : t.cs ≠ []) : lc p t = lcL p t.cs := by
  cases t with
  | node i x l s cs =>
    cases cs with
    | nil => simp [T.cs] at h
    | cons c cs => simp [T.cs]
theorem lc_withCs_cons (p) (t : T) (c : T) (cs : List T) : lc p (t.withCs (c :: cs)) = lc p c + lcL p cs := by
  cases t; simp [T.withCs]
/-- a leaf that counts for `p` carries taxon `p.2` and is node `p.1` -/
theorem lc_leaf_pos (p : Nat × Nat) (i x l s) (h : 1 ≤ lc p (.node i x l s [])) : x = some p.2 ∧ i = p.1 := by
  cases x with
  | none => simp [lc, lpairs, T.leaves, pairOf, T.taxon] at h
  | some k =>
    simp only [lc, lpairs, T.leaves, pairOf, T.taxon, T.id, List.filterMap_cons, Option.map_some,
      List.filterMap_nil, List.count_cons, List.count_nil] at h
    split at h
    · rename_i e; have := beq_iff_eq.mp e; cases p; simp_all
    · omega

/-! ### unifurcation suppression keeps every leaf (equality) -/
theorem supL_length : ∀ cs : List T, (supL cs).length = cs.length
  | [] => rfl
  | c :: cs => by simp [supL, supL_length cs]

mutual
theorem sup_lc (p) : ∀ t : T, lc p (sup t) = lc p t
  | .node i x l s [] => by simp [sup, supL]
  | .node i x l s (c :: cs) => by
      have h := supL_lc p (c :: cs)
      have hl := supL_length (c :: cs)
      simp only [sup]
      split
      · rename_i c' hc
        rw [hc] at h
        rw [lc_withLen, lc_node_cons, ← lcL_cons, ← h]; simp
      · match hs : supL (c :: cs) with
        | [] => rw [hs] at hl; simp at hl
        | d :: ds => rw [lc_node_cons, lc_node_cons, ← lcL_cons, ← lcL_cons, ← h, hs]
theorem supL_lc (p) : ∀ cs : List T, lcL p (supL cs) = lcL p cs
  | [] => by simp [supL]
  | c :: cs => by simp only [supL, lcL_cons, sup_lc p c, supL_lc p cs]
end

/-! ### collapsing -/
theorem len2_ne_nil (l : List T) (h : l.length ≥ 2) : l ≠ [] := by
  intro e; rw [e] at h; simp at h

theorem collapseBasal_lc (p) (t t' : T) (h : collapseBasal t = some t') : lc p t ≤ lc p t' := by
  unfold collapseBasal at h
  split at h
  · rename_i a b hcs
    have ht : lc p t = lc p a + lc p b := by
      rw [lc_eq_cs p t (by rw [hcs]; simp), hcs]; simp
    split at h
    · rename_i hb
      injection h with h; subst h
      rw [lc_withCs_cons, lc_withLen, ht, lc_eq_cs p b (len2_ne_nil _ hb)]; omega
    · split at h
      · rename_i ha
        injection h with h; subst h
        have := lc_withCs_ge p t (a.cs ++ [b.withLen (addLen b.len a.len)])
        rw [lcL_append] at this
        rw [ht, lc_eq_cs p a (len2_ne_nil _ ha)]; simp at this; omega
      · cases h
  · cases h

theorem collapseBasalSt_lc (p) (su : Bool) (s : St) : lc p s.t ≤ lc p (collapseBasalSt su s).t := by
  unfold collapseBasalSt
  split
  · rename_i t' h; exact collapseBasal_lc p _ _ h
  · exact Nat.le_refl _

theorem encodeStruct_lc (p) (a b : Bool) (s : St) : lc p s.t ≤ lc p (encodeStruct a b s).t := by
  unfold encodeStruct
  have h1 := collapseBasalSt_lc p true s
  split
  · split
    · simp only; rw [sup_lc]; exact h1
    · exact h1
  · split
    · simp only; rw [sup_lc]; exact Nat.le_refl _
    · exact Nat.le_refl _

theorem finish_lc (p) (a b : Bool) (s : St) : lc p s.t ≤ lc p (finish a b s).t := by
  unfold finish
  split
  · split
    · refine Nat.le_trans ?_ (encodeStruct_lc p _ _ _); simp only; rw [sup_lc]; exact Nat.le_refl _
    · simp only; rw [sup_lc]; exact Nat.le_refl _
  · split
    · exact encodeStruct_lc p _ _ _
    · exact Nat.le_refl _

theorem isLeaf_false_ne (t : T) (h : (!t.isLeaf) = true) : t.cs ≠ [] := by
  intro e; simp [T.isLeaf, e] at h

theorem polyStep_lc (p) (t t' : T) (h : polyStep t = some t') : lc p t ≤ lc p t' := by
  unfold polyStep at h
  split at h
  · rename_i l hcs
    have ht : lc p t = lc p l := by rw [lc_eq_cs p t (by rw [hcs]; simp), hcs]; simp
    split at h
    · rename_i hl
      injection h with h; subst h
      have := lc_withCs_ge p (t.withLen (tryAdd t.len l.len)) l.cs
      rw [ht, lc_eq_cs p l (isLeaf_false_ne l hl)]; exact this
    · cases h
  · rename_i l r hcs
    have ht : lc p t = lc p l + lc p r := by rw [lc_eq_cs p t (by rw [hcs]; simp), hcs]; simp
    split at h
    · rename_i hr
      injection h with h; subst h
      rw [lc_withCs_cons, lc_withLen, ht, lc_eq_cs p r (isLeaf_false_ne r hr)]; omega
    · split at h
      · rename_i hl
        injection h with h; subst h
        rw [lc_withCs_cons, lc_withLen, ht, lc_eq_cs p l (isLeaf_false_ne l hl)]; omega
      · cases h
  · cases h

theorem polytomize_lc (p) : ∀ (f : Nat) (t : T), lc p t ≤ lc p (polytomize f t)
  | 0, t => by simp [polytomize]
  | f + 1, t => by
      simp only [polytomize]
      split
      · rename_i t' h
        exact Nat.le_trans (polyStep_lc p _ _ h) (polytomize_lc p f t')
      · exact Nat.le_refl _

mutual
theorem cu_lc (p) (thr : Frac) : ∀ t : T, lc p t ≤ lc p (cu thr t)
  | .node i x l s [] => by simp [cu, cuL]
  | .node i x l s (c :: cs) => by
      have h := cuL_lc p thr (c :: cs)
      simp only [cu]
      exact Nat.le_trans (by simpa using h) (lc_ge p i x l s _)
theorem cuL_lc (p) (thr : Frac) : ∀ cs : List T, lcL p cs ≤ lcL p (cuL thr cs)
  | [] => by simp [cuL]
  | c :: cs => by
      have h1 := cu_lc p thr c; have h2 := cuL_lc p thr cs
      simp only [cuL]
      split
      · rename_i hu
        have hne : (cu thr c).cs ≠ [] := by
          intro e; simp [unweighted, e] at hu
        rw [lcL_append, ← lc_eq_cs p _ hne, lcL_cons]; omega
      · simp; omega
end

/-! ### sorting and rotating keep every leaf (equalities) -/
theorem insertBy_lc (p) (le : T → T → Bool) (x : T) : ∀ l : List T, lcL p (insertBy le x l) = lc p x + lcL p l
  | [] => by simp [insertBy]
  | y :: ys => by
      simp only [insertBy]
      split
      · simp
      · have := insertBy_lc p le x ys; simp; omega

theorem sortBy_lc (p) (le : T → T → Bool) : ∀ l : List T, lcL p (sortBy le l) = lcL p l
  | [] => by simp [sortBy]
  | y :: ys => by
      have := sortBy_lc p le ys
      simp only [sortBy, List.foldr_cons] at this ⊢
      rw [insertBy_lc]; simp; omega

theorem sortBy_nil_iff (le : T → T → Bool) (l : List T) : sortBy le l = [] → l = [] := by
  intro h
  cases l with
  | nil => rfl
  | cons y ys =>
    exfalso
    have : (sortBy le (y :: ys)).length = 0 := by rw [h]; rfl
    have hi : ∀ (x : T) (l : List T), (insertBy le x l).length = l.length + 1 := by
      intro x l; induction l with
      | nil => simp [insertBy]
      | cons z zs ih => simp only [insertBy]; split <;> simp [ih]
    simp only [sortBy, List.foldr_cons] at this
    rw [hi] at this; omega

mutual
theorem sortAll_lc (p) (le : T → T → Bool) : ∀ t : T, lc p (sortAll le t) = lc p t
  | .node i x l s [] => by simp [sortAll, sortAllL, sortBy]
  | .node i x l s (c :: cs) => by
      have h := sortAllL_lc p le (c :: cs)
      simp only [sortAll]
      match hs : sortBy le (sortAllL le (c :: cs)) with
      | [] =>
        have := sortBy_nil_iff le _ hs
        simp [sortAllL] at this
      | d :: ds =>
        rw [lc_node_cons, lc_node_cons, ← lcL_cons, ← lcL_cons, ← hs, sortBy_lc, h]
theorem sortAllL_lc (p) (le : T → T → Bool) : ∀ cs : List T, lcL p (sortAllL le cs) = lcL p cs
  | [] => by simp [sortAllL]
  | c :: cs => by simp only [sortAllL, lcL_cons, sortAll_lc p le c, sortAllL_lc p le cs]
end

theorem lcL_reverse (p) (l : List T) : lcL p l.reverse = lcL p l := by
  induction l with
  | nil => simp
  | cons x xs ih => simp [ih]; omega

theorem lcL_drop_take (p) (n : Nat) (l : List T) : lcL p (l.drop n ++ l.take n) = lcL p l := by
  have h : lcL p (l.take n ++ l.drop n) = lcL p l := by rw [List.take_append_drop]
  rw [lcL_append] at h ⊢; omega

theorem lc_of_lcL_eq (p) (i x l s) (a b : List T) (h : lcL p a = lcL p b) (hab : a = [] ↔ b = []) :
    lc p (.node i x l s a) = lc p (.node i x l s b) := by
  cases a with
  | nil => have := hab.mp rfl; subst this; rfl
  | cons c cs =>
    cases b with
    | nil => have := hab.mpr rfl; cases this
    | cons d ds => simp at h ⊢; exact h

mutual
theorem rotate_lc (p) (m : Nat) : ∀ t : T, lc p (rotate m t) = lc p t
  | .node i x l s cs => by
      have h := rotateL_lc p m cs
      have hlen := rotateL_length m cs
      simp only [rotate]
      apply lc_of_lcL_eq
      · split
        · rw [lcL_reverse, h]
        · split
          · rw [lcL_drop_take, h]
          · exact h
      · have hnil : rotateL m cs = [] ↔ cs = [] := by
          constructor
          · intro e; rw [e] at hlen; exact List.length_eq_zero_iff.mp hlen.symm
          · intro e; subst e; rfl
        split
        · rw [List.reverse_eq_nil_iff]; exact hnil
        · split
          · constructor
            · intro e
              have hl : (List.drop 1 (rotateL m cs) ++ List.take 1 (rotateL m cs)).length = 0 := by rw [e]; rfl
              rw [List.length_append, List.length_drop, List.length_take] at hl
              apply hnil.mp; apply List.length_eq_zero_iff.mp; omega
            · intro e; rw [hnil.mpr e]; rfl
          · exact hnil
theorem rotateL_lc (p) (m : Nat) : ∀ cs : List T, lcL p (rotateL m cs) = lcL p cs
  | [] => by simp [rotateL]
  | c :: cs => by simp only [rotateL, lcL_cons, rotate_lc p m c, rotateL_lc p m cs]
theorem rotateL_length (m : Nat) : ∀ cs : List T, (rotateL m cs).length = cs.length
  | [] => rfl
  | c :: cs => by simp [rotateL, rotateL_length m cs]
end

/-! ### pruning keeps every leaf the filter accepts -/
theorem lc_ge' (p) (i x l s) (a b : List T) (h : lcL p a ≤ lcL p b) (ha : a ≠ []) :
    lc p (.node i x l s a) ≤ lc p (.node i x l s b) := by
  cases a with
  | nil => exact absurd rfl ha
  | cons c cs => exact Nat.le_trans (by simpa using h) (lc_ge p i x l s b)

mutual
theorem dropLeaves_lc (p) (keep : T → Bool) (hk : ∀ x : T, x.cs = [] → 1 ≤ lc p x → keep x = true) :
    ∀ t : T, lc p t ≤ lc p (dropLeaves keep t)
  | .node i x l s [] => by simp [dropLeaves, dropLeavesL]
  | .node i x l s (c :: cs) => by
      simp only [dropLeaves]
      exact lc_ge' p i x l s _ _ (dropLeavesL_lc p keep hk (c :: cs)) (by simp)
theorem dropLeavesL_lc (p) (keep : T → Bool) (hk : ∀ x : T, x.cs = [] → 1 ≤ lc p x → keep x = true) :
    ∀ cs : List T, lcL p cs ≤ lcL p (dropLeavesL keep cs)
  | [] => by simp [dropLeavesL]
  | c :: cs => by
      have h1 := dropLeaves_lc p keep hk c; have h2 := dropLeavesL_lc p keep hk cs
      simp only [dropLeavesL]
      split
      · rename_i hc
        have hc' : c.cs = [] := by simpa using hc
        split
        · simp; omega
        · rename_i hkc
          have : lc p c = 0 := by
            apply Nat.eq_zero_of_not_pos; intro hpos
            exact hkc (hk c hc' hpos)
          simp; omega
      · simp; omega
end

theorem dropLeavesFix_lc (p) (keep : T → Bool) (hk : ∀ x : T, x.cs = [] → 1 ≤ lc p x → keep x = true) :
    ∀ (f : Nat) (t : T), lc p t ≤ lc p (dropLeavesFix keep f t)
  | 0, t => by simp [dropLeavesFix]
  | f + 1, t => by
      simp only [dropLeavesFix]
      split
      · exact Nat.le_refl _
      · exact Nat.le_trans (dropLeaves_lc p keep hk t) (dropLeavesFix_lc p keep hk f _)

theorem loop_lc (p) (recursive : Bool) (keep : T → Bool) (hk : ∀ x : T, x.cs = [] → 1 ≤ lc p x → keep x = true) :
    ∀ (f : Nat) (t t' : T), filterLeaves.loop recursive keep f t = .ok t' → lc p t ≤ lc p t'
  | 0, t, t', h => by simp [filterLeaves.loop] at h; subst h; exact Nat.le_refl _
  | f + 1, t, t', h => by
      simp only [filterLeaves.loop] at h
      split at h
      · split at h
        · injection h with h; subst h; exact Nat.le_refl _
        · cases h
      · split at h
        · injection h with h; subst h; exact dropLeaves_lc p keep hk t
        · exact Nat.le_trans (dropLeaves_lc p keep hk t) (loop_lc p recursive keep hk f _ t' h)

theorem pt_root (bad : Nat → Bool) : ∀ t : T, (pt bad t).taxon = t.taxon ∧ (pt bad t).id = t.id
  | .node i x l s cs => by simp [pt, T.taxon, T.id]

mutual
theorem pt_lc (p : Nat × Nat) (bad : Nat → Bool) (hb : bad p.2 = false) : ∀ t : T, lc p t ≤ lc p (pt bad t)
  | .node i x l s [] => by simp [pt, ptL]
  | .node i x l s (c :: cs) => by
      simp only [pt]
      exact lc_ge' p i x l s _ _ (ptL_lc p bad hb (c :: cs)) (by simp)
theorem ptL_lc (p : Nat × Nat) (bad : Nat → Bool) (hb : bad p.2 = false) : ∀ cs : List T, lcL p cs ≤ lcL p (ptL bad cs)
  | [] => by simp [ptL]
  | c :: cs => by
      have h1 := pt_lc p bad hb c; have h2 := ptL_lc p bad hb cs
      simp only [ptL]
      by_cases hrm : ptDrop bad c (pt bad c) = true
      · rw [if_pos hrm]
        -- the pruned node is a leaf whose taxon is in the pruned set, so it is not `p`
        have hz : lc p (pt bad c) = 0 := by
          apply Nat.eq_zero_of_not_pos; intro hpos
          simp only [ptDrop, Bool.and_eq_true] at hrm
          have hroot := pt_root bad c
          cases hpt : pt bad c with
          | node j y l' s' ds =>
            rw [hpt] at hpos hroot
            have hds : ds = [] := by have := hrm.1; rw [hpt] at this; simpa [T.cs] using this
            subst hds
            have hy := (lc_leaf_pos p j y l' s' hpos).1
            have hct : c.taxon = some p.2 := by rw [← hroot.1]; exact hy
            have h2' := hrm.2
            rw [hct] at h2'
            simp [hb] at h2'
        simp; omega
      · rw [if_neg hrm]; simp; omega
end

/-! ### re-seeding at an internal node keeps every leaf -/
mutual
/-- every node named `target` has children -/
def TargetInternal (target : Nat) : T → Prop
  | .node i _ _ _ cs => (i = target → cs ≠ []) ∧ TargetInternalL target cs
def TargetInternalL (target : Nat) : List T → Prop
  | [] => True
  | c :: cs => TargetInternal target c ∧ TargetInternalL target cs
end

mutual
theorem find_internal (target : Nat) : ∀ (t n : T), TargetInternal target t → T.find? target t = some n → n.cs ≠ []
  | .node i x l s cs, n, hi, hf => by
      simp only [TargetInternal] at hi
      simp only [T.find?] at hf
      split at hf
      · rename_i e
        injection hf with hf; subst hf
        have : i = target := (beq_iff_eq.mp e).symm
        simpa [T.cs] using hi.1 this
      · exact findL_internal target cs n hi.2 hf
theorem findL_internal (target : Nat) : ∀ (cs : List T) (n : T), TargetInternalL target cs → T.findL? target cs = some n →
    n.cs ≠ []
  | [], n, _, hf => by simp [T.findL?] at hf
  | c :: cs, n, hi, hf => by
      simp only [TargetInternalL] at hi
      simp only [T.findL?] at hf
      split at hf
      · rename_i r hr; injection hf with hf; subst hf; exact find_internal target c _ hi.1 hr
      · exact findL_internal target cs n hi.2 hf
end

mutual
theorem reseedGo_lc (p) (target : Nat) (rl : Option Frac) :
    ∀ (t : T) (acc : List T) (r : T), TargetInternal target t → reseedGo target rl acc t = some r →
      lc p t + lcL p acc ≤ lc p r
  | .node i x l s cs, acc, r, hi, h => by
      simp only [TargetInternal] at hi
      simp only [reseedGo] at h
      split at h
      · rename_i e
        injection h with h; subst h
        have hne := hi.1 (beq_iff_eq.mp e)
        have := lc_ge p i x rl s (cs ++ acc)
        rw [lc_eq_cs p (.node i x l s cs) (by simpa [T.cs] using hne)]
        simp [T.cs] at this ⊢; omega
      · cases cs with
        | nil => simp [reseedGoL] at h
        | cons c cs =>
          have := reseedGoL_lc p target rl i x s (c :: cs) acc [] r hi.2 h
          simp at this ⊢; omega
theorem reseedGoL_lc (p) (target : Nat) (rl : Option Frac) (i : Nat) (x : Option Nat) (s : Option String) :
    ∀ (post acc pre : List T) (r : T), TargetInternalL target post → reseedGoL target rl i x s acc pre post = some r →
      lcL p pre + lcL p post + lcL p acc ≤ lc p r
  | [], acc, pre, r, _, h => by simp [reseedGoL] at h
  | c :: post, acc, pre, r, hi, h => by
      simp only [TargetInternalL] at hi
      simp only [reseedGoL] at h
      split at h
      · rename_i r' hr
        injection h with h; subst h
        have h1 := reseedGo_lc p target rl c _ _ hi.1 hr
        have h2 := lc_ge p i x c.len s (pre ++ post ++ acc)
        simp at h1 h2 ⊢; omega
      · have := reseedGoL_lc p target rl i x s post acc (pre ++ [c]) r hi.2 h
        simp at this ⊢; omega
end

theorem reseedCore_lc (p) (target : Nat) (b : Bool) (t : T) (hi : TargetInternal target t) :
    lc p t ≤ lc p (reseedCore target b t) := by
  unfold reseedCore
  split
  · exact Nat.le_refl _
  · split
    · exact Nat.le_refl _
    · rename_i n hf
      have hn := find_internal target t n hi hf
      split
      · exact Nat.le_refl _
      · rename_i t1 h1
        have h := reseedGo_lc p target t.len t [] t1 hi h1
        have : (n.cs.isEmpty && b) = false := by
          cases hc : n.cs with
          | nil => exact absurd hc hn
          | cons _ _ => simp
        simp only [this]
        simp at h ⊢; exact h

theorem reseedAt_lc (p) (target : Nat) (a b : Bool) (s : St) (hi : TargetInternal target s.t) :
    lc p s.t ≤ lc p (reseedAt target a b s).t := by
  unfold reseedAt
  exact Nat.le_trans (reseedCore_lc p target b s.t hi) (encodeStruct_lc p b a ⟨reseedCore target b s.t, s.rooted⟩)

theorem rerootAtNode_lc (p) (target : Nat) (ub a b : Bool) (s : St) (hi : TargetInternal target s.t) :
    lc p s.t ≤ lc p (rerootAtNode target ub a b s).t := by
  unfold rerootAtNode
  have h1 := reseedAt_lc p target false a s hi
  split
  · exact Nat.le_trans h1 (encodeStruct_lc p a b ⟨(reseedAt target false a s).t, some true⟩)
  · exact h1

theorem pruneNoTaxa_lc (p) (r ub sp : Bool) (s : St) : lc p s.t ≤ lc p (pruneNoTaxa r ub sp s).t := by
  unfold pruneNoTaxa
  refine Nat.le_trans ?_ (finish_lc p _ _ _)
  have hk : ∀ x : T, x.cs = [] → 1 ≤ lc p x → (fun (c : T) => c.taxon.isSome) x = true := by
    intro x hx hpos
    cases x with
    | node j y l' s' ds =>
      simp only [T.cs] at hx; subst hx
      have := (lc_leaf_pos p j y l' s' hpos).1
      simp [T.taxon, this]
  simp only
  split
  · exact dropLeavesFix_lc p _ hk _ _
  · exact dropLeaves_lc p _ hk _

end DendroModel.C03.Leaves
