import DendroModel.Model.C10
/-! C10 — NEXUS token escaping: when do two labels get the same token? -/
namespace DendroModel.C10.Aux
open DendroModel DendroModel.C10

/-- a blank or tab written as underscore (what an unquoted NEXUS token does to a label) -/
def blankToUs (c : Char) : Char := if c == ' ' || c == '\t' then '_' else c
def dbl (c : Char) : List Char := if c == '\'' then ['\'', '\''] else [c]

/-- `escapeToken` on character lists -/
def escL (ps qu : Bool) (cs : List Char) : List Char :=
  if !ps && !cs.contains '_' && !cs.any (fun c => Tables.protectDefault.contains c) then cs.map blankToUs
  else if cs.any (fun c => Tables.protectDefault.contains c) || cs.contains ' ' || (qu && cs.contains '_') then
    '\'' :: (cs.flatMap dbl ++ ['\''])
  else cs

theorem escapeToken_eq (ps qu : Bool) (l : String) : escapeToken ps qu l = String.ofList (escL ps qu l.toList) := by
  unfold escapeToken escL
  simp only
  split
  · rfl
  · split
    · apply String.toList_inj.1
      simp [String.toList_append]
      congr 1; funext c; simp [dbl]
    · simp

theorem escapeToken_eq_iff (ps qu : Bool) (a b : String) :
    escapeToken ps qu a = escapeToken ps qu b ↔ escL ps qu a.toList = escL ps qu b.toList := by
  rw [escapeToken_eq, escapeToken_eq, String.ofList_inj]

/-- the two facts about the (generated) protect class the argument rests on -/
theorem quote_protected : Tables.protectDefault.contains '\'' = true := by decide
theorem tab_protected : Tables.protectDefault.contains '\t' = true := by decide

theorem unprotected {cs : List Char} (h : cs.any (fun c => Tables.protectDefault.contains c) = false) :
    '\'' ∉ cs ∧ '\t' ∉ cs := by
  rw [List.any_eq_false] at h
  constructor
  · intro hm; exact h _ hm quote_protected
  · intro hm; exact h _ hm tab_protected

theorem unprotected' {cs : List Char} (h : (cs.any fun c => decide (c ∈ Tables.protectDefault)) = false) :
    '\'' ∉ cs ∧ '\t' ∉ cs := unprotected (by simpa using h)

theorem flatMap_dbl_inj : ∀ (a b : List Char), a.flatMap dbl = b.flatMap dbl → a = b := by
  intro a
  induction a with
  | nil =>
    intro b h
    cases b with
    | nil => rfl
    | cons d b' =>
      simp only [List.flatMap_nil, List.flatMap_cons, dbl] at h
      split at h <;> simp at h
  | cons c a' ih =>
    intro b h
    cases b with
    | nil =>
      simp only [List.flatMap_nil, List.flatMap_cons, dbl] at h
      split at h <;> simp at h
    | cons d b' =>
      simp only [List.flatMap_cons] at h
      by_cases hc : c = '\''
      · by_cases hd : d = '\''
        · subst hc hd
          simp only [dbl, beq_self_eq_true, if_true, List.cons_append, List.nil_append, List.cons.injEq, true_and] at h
          rw [ih b' h]
        · have e1 : dbl c = ['\'', '\''] := by simp [dbl, hc]
          have e2 : dbl d = [d] := by simp [dbl, hd]
          rw [e1, e2] at h
          simp only [List.cons_append, List.nil_append, List.cons.injEq] at h
          exact absurd h.1.symm hd
      · by_cases hd : d = '\''
        · have e1 : dbl c = [c] := by simp [dbl, hc]
          have e2 : dbl d = ['\'', '\''] := by simp [dbl, hd]
          rw [e1, e2] at h
          simp only [List.cons_append, List.nil_append, List.cons.injEq] at h
          exact absurd h.1 hc
        · have e1 : dbl c = [c] := by simp [dbl, hc]
          have e2 : dbl d = [d] := by simp [dbl, hd]
          rw [e1, e2] at h
          simp only [List.cons_append, List.nil_append, List.cons.injEq] at h
          rw [h.1, ih b' h.2]

theorem blankToUs_ne_quote {c : Char} (h : c ≠ '\'') : blankToUs c ≠ '\'' := by
  unfold blankToUs
  split
  · decide
  · exact h

theorem map_blank_no_quote {cs : List Char} (h : '\'' ∉ cs) : '\'' ∉ cs.map blankToUs := by
  intro hm
  obtain ⟨c, hc, e⟩ := List.mem_map.1 hm
  exact blankToUs_ne_quote (fun e' => h (e' ▸ hc)) e

/-- blanks-to-underscores is injective on strings without underscore and tab -/
theorem map_blank_inj : ∀ (a b : List Char), '_' ∉ a → '\t' ∉ a → '_' ∉ b → '\t' ∉ b →
    a.map blankToUs = b.map blankToUs → a = b := by
  intro a
  induction a with
  | nil => intro b _ _ _ _ h; cases b with
    | nil => rfl
    | cons _ _ => simp at h
  | cons c a' ih =>
    intro b ha1 ha2 hb1 hb2 h
    cases b with
    | nil => simp at h
    | cons d b' =>
      simp only [List.map_cons, List.cons.injEq] at h
      simp only [List.mem_cons, not_or] at ha1 ha2 hb1 hb2
      have hcd : c = d := by
        have h1 := h.1
        unfold blankToUs at h1
        by_cases e1 : (c == ' ' || c == '\t') = true
        · by_cases e2 : (d == ' ' || d == '\t') = true
          · simp only [Bool.or_eq_true, beq_iff_eq] at e1 e2
            rcases e1 with e1 | e1
            · rcases e2 with e2 | e2
              · rw [e1, e2]
              · exact absurd e2.symm hb2.1
            · exact absurd e1.symm ha2.1
          · rw [if_pos e1, if_neg e2] at h1
            exact absurd h1 hb1.1
        · by_cases e2 : (d == ' ' || d == '\t') = true
          · rw [if_neg e1, if_pos e2] at h1
            exact absurd h1.symm ha1.1
          · rw [if_neg e1, if_neg e2] at h1; exact h1
      rw [hcd, ih b' ha1.2 ha2.2 hb1.2 hb2.2 h.2]

theorem map_blank_id {cs : List Char} (h1 : ' ' ∉ cs) (h2 : '\t' ∉ cs) : cs.map blankToUs = cs := by
  induction cs with
  | nil => rfl
  | cons c cs ih =>
    simp only [List.mem_cons, not_or] at h1 h2
    have : blankToUs c = c := by
      unfold blankToUs
      have a : (c == ' ') = false := by simp; exact fun e => h1.1 e.symm
      have b : (c == '\t') = false := by simp; exact fun e => h2.1 e.symm
      simp [a, b]
    simp [this, ih h1.2 h2.2]

/-- the three shapes of a token -/
inductive Shape (ps qu : Bool) (cs : List Char) : Prop
  | bare (hps : ps = false) (hu : '_' ∉ cs) (hq : '\'' ∉ cs) (ht : '\t' ∉ cs) (e : escL ps qu cs = cs.map blankToUs)
  | quoted (e : escL ps qu cs = '\'' :: (cs.flatMap dbl ++ ['\'']))
  | asis (hs : ' ' ∉ cs) (hq : '\'' ∉ cs) (ht : '\t' ∉ cs) (hpq : ps = true ∨ ('_' ∈ cs ∧ qu = false)) (e : escL ps qu cs = cs)

theorem shape (ps qu : Bool) (cs : List Char) : Shape ps qu cs := by
  by_cases hA : (!ps && !cs.contains '_' && !cs.any (fun c => Tables.protectDefault.contains c)) = true
  · have e : escL ps qu cs = cs.map blankToUs := by unfold escL; rw [if_pos hA]
    simp only [Bool.and_eq_true, Bool.not_eq_true', List.contains_eq_mem, decide_eq_false_iff_not] at hA
    obtain ⟨hq, ht⟩ := unprotected' hA.2
    exact .bare hA.1.1 hA.1.2 hq ht e
  · by_cases hB : (cs.any (fun c => Tables.protectDefault.contains c) || cs.contains ' ' || (qu && cs.contains '_')) = true
    · exact .quoted (by unfold escL; rw [if_neg hA, if_pos hB])
    · have e : escL ps qu cs = cs := by unfold escL; rw [if_neg hA, if_neg hB]
      simp only [Bool.or_eq_true, Bool.and_eq_true, not_or, Bool.not_eq_true, List.contains_eq_mem,
        decide_eq_false_iff_not, not_and] at hB
      obtain ⟨⟨hP, hS⟩, hQU⟩ := hB
      obtain ⟨hq, ht⟩ := unprotected' hP
      refine .asis hS hq ht ?_ e
      cases hps : ps with
      | true => exact Or.inl rfl
      | false =>
        right
        have hU : '_' ∈ cs := by
          apply Classical.byContradiction
          intro hn
          apply hA
          simp [hps, hn, hP]
        refine ⟨hU, ?_⟩
        cases hqu : qu with
        | false => rfl
        | true => exact absurd hU (by simpa using hQU hqu)

theorem quoted_has_quote (cs : List Char) : '\'' ∈ ('\'' :: (cs.flatMap dbl ++ ['\''])) := by simp

/-- equal tokens: the labels agree once blanks are written as underscores -/
theorem escL_eq_imp (ps qu : Bool) (a b : List Char) (h : escL ps qu a = escL ps qu b) :
    a.map blankToUs = b.map blankToUs := by
  cases shape ps qu a with
  | bare _ hu hq ht e =>
    cases shape ps qu b with
    | bare _ hu' hq' ht' e' => rw [e, e'] at h; exact h
    | quoted e' =>
      rw [e, e'] at h
      exact absurd (h ▸ quoted_has_quote b) (map_blank_no_quote hq)
    | asis hs' hq' ht' _ e' =>
      rw [e, e'] at h
      rw [h, map_blank_id hs' ht']
  | quoted e =>
    cases shape ps qu b with
    | bare _ hu' hq' ht' e' =>
      rw [e, e'] at h
      exact absurd (h.symm ▸ quoted_has_quote a) (map_blank_no_quote hq')
    | quoted e' =>
      rw [e, e'] at h
      simp only [List.cons.injEq, true_and] at h
      rw [flatMap_dbl_inj a b (List.append_cancel_right h)]
    | asis hs' hq' ht' _ e' =>
      rw [e, e'] at h
      exact absurd (h.symm ▸ quoted_has_quote a) hq'
  | asis hs hq ht _ e =>
    cases shape ps qu b with
    | bare _ hu' hq' ht' e' =>
      rw [e, e'] at h
      rw [← h, map_blank_id hs ht]
    | quoted e' =>
      rw [e, e'] at h
      exact absurd (h ▸ quoted_has_quote b) hq
    | asis hs' hq' ht' _ e' => rw [e, e'] at h; rw [h]

/-- with `preserve_spaces` or `quote_underscores` the token determines the label -/
theorem escL_inj (ps qu : Bool) (hpq : ps = true ∨ qu = true) (a b : List Char) (h : escL ps qu a = escL ps qu b) : a = b := by
  have key : ∀ x y : List Char, ∀ (hps : ps = false) (hu : '_' ∉ x) (ht : '\t' ∉ x) (hs' : ' ' ∉ y) (ht' : '\t' ∉ y)
      (hpq' : ps = true ∨ ('_' ∈ y ∧ qu = false)), False := by
    intro x y hps _ _ _ _ hpq'
    rcases hpq' with h1 | ⟨_, h2⟩
    · rw [hps] at h1; cases h1
    · rcases hpq with h3 | h3
      · rw [hps] at h3; cases h3
      · rw [h2] at h3; cases h3
  cases shape ps qu a with
  | bare hps hu hq ht e =>
    cases shape ps qu b with
    | bare _ hu' hq' ht' e' => rw [e, e'] at h; exact map_blank_inj a b hu ht hu' ht' h
    | quoted e' =>
      rw [e, e'] at h
      exact absurd (h ▸ quoted_has_quote b) (map_blank_no_quote hq)
    | asis hs' hq' ht' hpq' e' => exact (key a b hps hu ht hs' ht' hpq').elim
  | quoted e =>
    cases shape ps qu b with
    | bare _ hu' hq' ht' e' =>
      rw [e, e'] at h
      exact absurd (h.symm ▸ quoted_has_quote a) (map_blank_no_quote hq')
    | quoted e' =>
      rw [e, e'] at h
      simp only [List.cons.injEq, true_and] at h
      exact flatMap_dbl_inj a b (List.append_cancel_right h)
    | asis hs' hq' ht' _ e' =>
      rw [e, e'] at h
      exact absurd (h.symm ▸ quoted_has_quote a) hq'
  | asis hs hq ht hpq1 e =>
    cases shape ps qu b with
    | bare hps' hu' hq' ht' e' => exact (key b a hps' hu' ht' hs ht hpq1).elim
    | quoted e' =>
      rw [e, e'] at h
      exact absurd (h ▸ quoted_has_quote b) hq
    | asis hs' hq' ht' _ e' => rw [e, e'] at h; exact h

end DendroModel.C10.Aux

namespace DendroModel.C10.Aux
open DendroModel DendroModel.C10

/-! ### the case folding on ASCII / Latin-1 is the closed form -/

/-- the closed form of `str.lower` on ASCII and Latin-1: `A`–`Z` and `À`–`Þ` (without `×`) move up by 32 -/
def latin1Lower (c : Char) : Char :=
  let n := c.toNat
  if 65 ≤ n ∧ n ≤ 90 then Char.ofNat (n + 32)
  else if 192 ≤ n ∧ n ≤ 222 ∧ n ≠ 215 then Char.ofNat (n + 32)
  else c

/-- a label made of ASCII and Latin-1 characters only: there `str.lower` is the closed form `latin1Lower`, character by character -/
def InScope (l : String) : Prop := ∀ c ∈ l.toList, c.toNat < 256

set_option maxRecDepth 100000 in
theorem lowerCp_latin1 : ∀ n : Fin 256, lowerCp n.val = [(latin1Lower (Char.ofNat n.val)).toNat] := by decide

set_option maxRecDepth 100000 in
theorem latin1Lower_lt : ∀ n : Fin 256, (latin1Lower (Char.ofNat n.val)).toNat < 256 := by decide

set_option maxRecDepth 100000 in
theorem latin1Lower_idem_fin : ∀ n : Fin 256, latin1Lower (latin1Lower (Char.ofNat n.val)) = latin1Lower (Char.ofNat n.val) := by
  decide

theorem lowerGo_latin1 : ∀ (cs pre : List Nat), (∀ c ∈ cs, c < 256) →
    lowerGo pre cs = cs.map (fun n => (latin1Lower (Char.ofNat n)).toNat) := by
  intro cs
  induction cs with
  | nil => intro _ _; rfl
  | cons c rest ih =>
    intro pre h
    have hc : c < 256 := h c (by simp)
    have hne : c ≠ C10Lower.capitalSigma := by
      have : C10Lower.capitalSigma = 931 := rfl
      omega
    unfold lowerGo
    rw [if_neg hne, ih (c :: pre) (fun x hx => h x (by simp [hx])), lowerCp_latin1 ⟨c, hc⟩]
    rfl

theorem pyLower_toList_latin1 (l : String) (h : InScope l) : (pyLower l).toList = l.toList.map latin1Lower := by
  unfold pyLower
  rw [String.toList_ofList, lowerGo_latin1 _ [] (by
    intro c hc
    obtain ⟨x, hx, rfl⟩ := List.mem_map.1 hc
    exact h x hx)]
  rw [List.map_map, List.map_map]
  apply List.map_congr_left
  intro c _
  simp [Char.ofNat_toNat]

theorem inScope_pyLower (l : String) (h : InScope l) : InScope (pyLower l) := by
  intro c hc
  rw [pyLower_toList_latin1 l h] at hc
  obtain ⟨x, hx, rfl⟩ := List.mem_map.1 hc
  have := latin1Lower_lt ⟨x.toNat, h x hx⟩
  simpa [Char.ofNat_toNat] using this

theorem pyLower_idem_latin1 (l : String) (h : InScope l) : pyLower (pyLower l) = pyLower l := by
  apply String.toList_inj.1
  rw [pyLower_toList_latin1 _ (inScope_pyLower l h), pyLower_toList_latin1 l h, List.map_map]
  apply List.map_congr_left
  intro c hc
  have := latin1Lower_idem_fin ⟨c.toNat, h c hc⟩
  simpa [Char.ofNat_toNat] using this

end DendroModel.C10.Aux

namespace DendroModel.C10.Aux
open DendroModel DendroModel.C10

set_option maxRecDepth 100000 in
theorem lowerCp_latin1_table : ∀ n : Fin 256, lowerCp n.val =
    [if (65 ≤ n.val ∧ n.val ≤ 90) ∨ (192 ≤ n.val ∧ n.val ≤ 222 ∧ n.val ≠ 215) then n.val + 32 else n.val] := by decide

end DendroModel.C10.Aux
