import DendroModel.Theory.C02NexusTr
/-! the whole NEXUS document: `#NEXUS`, the TAXA block (tokens and reader), then a TREES block given by a `BlockRun` -/
namespace DendroModel.C02
open DendroModel.Tables
namespace Aux

/-- the TREES block text `B`, after any white space, tokenizes to `BEGIN TREES ;` and tokens on which the block's command
    loop, over the namespace `ns`, yields the named trees `R` and the mapper `M` -/
def BlockRun (ro : ROpts) (ns : List Str) (B : Str) (R : List (Str × PT)) (M : Mapper) : Prop :=
  ∀ ws : Str, (∀ c ∈ ws, isUncap c = true) → ∃ toks,
    tokenizeAll ro.pu (ws ++ B) =
      ⟨⟨['B', 'E', 'G', 'I', 'N'], false, []⟩ :: ⟨['T', 'R', 'E', 'E', 'S'], false, []⟩ :: ⟨[';'], false, []⟩ :: toks, true, false⟩ ∧
    ∀ f, nexusBlockLoop ro false (f + 2) toks ⟨[], ns, true⟩ [] = some (R, M)

theorem ucase_BEGIN : ucase ['B', 'E', 'G', 'I', 'N'] = ['B', 'E', 'G', 'I', 'N'] := by decide
theorem ucase_TREES : ucase ['T', 'R', 'E', 'E', 'S'] = ['T', 'R', 'E', 'E', 'S'] := by decide

theorem nexusBlock_of_run (ro : ROpts) (ns : List Str) (B : Str) (R : List (Str × PT)) (M : Mapper)
    (h : BlockRun ro ns B R M) : nexusBlock ro ns B = some (R, M) := by
  obtain ⟨toks, htoks, hrun⟩ := h [] (by simp)
  rw [List.nil_append] at htoks
  unfold nexusBlock
  rw [htoks]
  simp only [Bool.not_true, Bool.false_eq_true, if_false, ucase_BEGIN, ucase_TREES, beq_self_eq_true, Bool.and_self, if_true,
    skipToSemi, List.length_cons]
  exact hrun _

/-- the block without TRANSLATE -/
theorem block_run_plain (o : WOpts) (ro : ROpts) (hc : Consistent o.ps o.uu ro.pu) (ns : List Str) (trees : List (Str × WT))
    (hok : ∀ x ∈ trees, (x.1 ≠ [] ∧ ∀ c ∈ x.1, labelChar c = true) ∧ OkT o x.2.2.2 ∧ isBlank (toRT o x.2.2.2) = false ∧
      (∀ w, x.2.2.1 = some w → WeightOk w) ∧ (taxaOf ro (toRT o x.2.2.2)).Nodup ∧ ∀ z ∈ taxaOf ro (toRT o x.2.2.2), z ∈ ns)
    (hU : CaseCons ro.cf ns) :
    BlockRun ro ns (treesBlockText o [] trees) (trees.map (namedResult o ro)) ⟨[], ns, true⟩ := by
  intro ws hws
  obtain ⟨gs, hgs, hlines⟩ := lines_tokens o ro.pu hc trees
    (fun x hx => ⟨(hok x hx).1, (hok x hx).2.1, (hok x hx).2.2.1, (hok x hx).2.2.2.1⟩) ['\n'] (by decide)
  let R := treeLines o trees ++ endBlock
  have etext : ws ++ treesBlockText o [] trees =
      ws ++ (['B', 'E', 'G', 'I', 'N'] ++ (' ' :: ([] ++ (['T', 'R', 'E', 'E', 'S'] ++ (';' :: (['\n'] ++ R)))))) := by
    simp [treesBlockText, translateText, beginTrees, R]
  have h1 := pre_word ro.pu ws ['B', 'E', 'G', 'I', 'N'] _ hws kw_BEGIN
    (stop_space ([] ++ (['T', 'R', 'E', 'E', 'S'] ++ (';' :: (['\n'] ++ R))))).1
  rw [(stop_space _).2] at h1
  have h2 := pre_word ro.pu [] ['T', 'R', 'E', 'E', 'S'] _ (by simp) kw_TREES (stop_semi (['\n'] ++ R)).1
  rw [(stop_semi _).2] at h2
  have h3 := pre_punct ro.pu [] ';' (['\n'] ++ R) (by simp) (by decide)
  rw [List.nil_append] at h3
  have hassign : ∀ x ∈ trees, isBlank (toRT o x.2.2.2) = false ∧
      ∃ seen, assign ro (toRT o x.2.2.2) ⟨⟨[], ns, true⟩, []⟩ = some (decode ro (toRT o x.2.2.2), ⟨⟨[], ns, true⟩, seen⟩) := by
    intro x hx
    obtain ⟨_, _, hws, _, hnd, hin⟩ := hok x hx
    refine ⟨hws, (taxaOf ro (toRT o x.2.2.2)).reverse ++ [], ?_⟩
    have := assign_known ro ns hU (toRT o x.2.2.2) ⟨[], ns, true⟩ [] rfl (Or.inr (fun z hz => hz)) (fun z hz => hz) hin (by simpa using hnd)
    rw [this, addAll_of_mem _ _ hin]
  refine ⟨gs.flatten ++ [⟨['E', 'N', 'D'], false, []⟩, ⟨[';'], false, []⟩], ?_, ?_⟩
  · rw [etext, ((h1.trans h2).trans h3).final hlines]
    rfl
  · intro f
    rw [namedResult_eq]
    exact block_loop_trees o ro ⟨[], ns, true⟩ _ trees gs hgs hassign (f + 1)

theorem caseCons_of_distinct (cf : Char → Char) : ∀ (ns : List Str), DistinctCI cf ns → CaseCons cf ns
  | [], _ => by intro a ha; simp at ha
  | x :: r, h => by
    have ih := caseCons_of_distinct cf r h.2
    intro a ha b hb hab
    rcases List.mem_cons.mp ha with rfl | ha' <;> rcases List.mem_cons.mp hb with rfl | hb'
    · rfl
    · exact absurd hab (h.1 b hb')
    · exact absurd hab.symm (h.1 a ha')
    · exact ih a ha' b hb' hab

/-! ### the TAXA block -/

theorem semi_protected : protectDefault.contains ';' = true := by decide

/-- the TAXLABELS list followed by any text `T`: one token per label, in order (a label `;` comes back quoted), then the
    unquoted `;`; a newline and `T` are left -/
theorem taxlabels_pre (ps uu pu : Bool) (hc : Consistent ps uu pu) (T : Str) : ∀ (ns : List Str),
    (∀ l ∈ ns, l ≠ [] ∧ ∀ c ∈ l, labelChar c = true) → ∀ (ws : Str), (∀ c ∈ ws, isUncap c = true) →
    ∃ ts, ts.map (·.text) = ns ∧ (∀ t ∈ ts, t.text = [';'] → t.quoted = true) ∧
      Pre pu (ws ++ (taxlabelsText ps uu ns ++ T)) (ts ++ [⟨[';'], false, []⟩]) (['\n'] ++ T) := by
  intro ns
  induction ns with
  | nil =>
    intro _ ws hws
    have hsp : ∀ c ∈ ws ++ [' ', ' '], isUncap c = true := by
      intro c hcm
      rcases List.mem_append.mp hcm with h | h
      · exact hws c h
      · have : ∀ d ∈ [' ', ' '], isUncap d = true := by decide
        exact this c h
    have e : ws ++ (taxlabelsText ps uu [] ++ T) = (ws ++ [' ', ' ']) ++ ';' :: (['\n'] ++ T) := by simp [taxlabelsText]
    refine ⟨[], rfl, by simp, ?_⟩
    rw [e]
    exact pre_punct pu _ ';' _ hsp (by decide)
  | cons l ns ih =>
    intro hadm ws hws
    obtain ⟨hne, hdom⟩ := hadm l (by simp)
    have hsp : ∀ c ∈ ws ++ indent8, isUncap c = true := by
      intro c hcm
      rcases List.mem_append.mp hcm with h | h
      · exact hws c h
      · have : ∀ d ∈ indent8, isUncap d = true := by decide
        exact this c h
    have e : ws ++ (taxlabelsText ps uu (l :: ns) ++ T) =
        (ws ++ indent8) ++ (escape ps (!uu) protectDefault l ++ '\n' :: (taxlabelsText ps uu ns ++ T)) := by
      simp [taxlabelsText]
    obtain ⟨q, ws', hw', hqk, h1⟩ := pre_label_ws ps uu pu hc (ws ++ indent8) l hsp hne hdom '\n' (by decide) (taxlabelsText ps uu ns ++ T)
    obtain ⟨ts, hts, hquo, h2⟩ := ih (fun l' hl' => hadm l' (by simp [hl'])) ws' hw'
    refine ⟨⟨l, q, []⟩ :: ts, by simp [hts], ?_, ?_⟩
    · intro t ht
      rcases List.mem_cons.mp ht with rfl | ht
      · intro hs
        rcases hqk with h | h
        · exact h
        · have := h ';' (by simp only at hs; rw [hs]; simp)
          rw [semi_protected] at this; cases this
      · exact hquo t ht
    · rw [e]
      exact h1.trans h2

theorem any_ci_false (cf : Char → Char) (acc : List Str) (w : Str) (h : ∀ x ∈ acc, lowerWith cf x ≠ lowerWith cf w) :
    acc.any (fun x => lowerWith cf x == lowerWith cf w) = false := by
  rw [List.any_eq_false]
  intro x hx
  simpa using h x hx

theorem ntax_ok (ntax : Option Nat) (att : Bool) (k : Nat) (h : att = true ∨ ∀ n, ntax = some n → k + 1 ≤ n) :
    ntaxFull ntax att k = false := by
  unfold ntaxFull
  cases ntax with
  | none => rfl
  | some n =>
    rcases h with h | h
    · simp [h]
    · have := h n rfl
      have : ¬ n ≤ k := by omega
      simp [this]

/-- `_parse_taxlabels_statement` on such tokens: the labels are appended in order (none is there yet up to the case
    folding, and the file-specified NTAX is not exceeded) -/
theorem taxlabels_reads (cf : Char → Char) (ntax : Option Nat) (att : Bool) (more : List TokE) : ∀ (ts : List TokE) (acc : List Str),
    (∀ t ∈ ts, t.text = [';'] → t.quoted = true) → DistinctCI cf (acc ++ ts.map (·.text)) →
    (att = true ∨ ∀ n, ntax = some n → acc.length + ts.length ≤ n) →
    nexusTaxlabels cf ntax att (ts ++ ⟨[';'], false, []⟩ :: more) acc = some (acc ++ ts.map (·.text), more) := by
  intro ts
  induction ts with
  | nil => intro acc _ _ _; simp [nexusTaxlabels]
  | cons t ts ih =>
    intro acc hq hd hn
    have hsemi : (t.text == [';'] && !t.quoted) = false := by
      cases h : (t.text == [';']) with
      | false => rfl
      | true => simp [hq t (by simp) (by simpa using h)]
    have hfresh : acc.any (fun x => lowerWith cf x == lowerWith cf t.text) = false :=
      any_ci_false cf acc t.text (distinct_snoc_fresh cf acc t.text (ts.map (·.text)) (by simpa using hd))
    have hnt := ntax_ok ntax att acc.length
      (hn.imp id (fun h n hn' => by have := h n hn'; simp only [List.length_cons] at this; omega))
    have := ih (acc ++ [t.text]) (fun t' ht' => hq t' (by simp [ht'])) (by simpa using hd)
      (hn.imp id (fun h n hn' => by have := h n hn'; simp only [List.length_cons, List.length_append, List.length_nil] at this ⊢; omega))
    simp only [List.cons_append, nexusTaxlabels, hsemi, Bool.false_eq_true, if_false, hfresh, hnt]
    rw [this]
    simp

theorem digits_plain (n : Nat) : PlainWord (Nat.toDigits 10 n) := by
  have key : ∀ x ∈ Nat.toDigits 10 n, lenChar x = true := by
    intro x hx
    have hd := Nat.isDigit_of_mem_toDigits (b := 10) (by decide) (by decide) hx
    simp [lenChar, hd]
  refine ⟨Nat.toDigits_ne_nil, ?_, ?_⟩
  · intro x hx
    refine ⟨(lenChar_ordinary x (key x hx)).1, ?_⟩
    intro h
    subst h
    exact absurd (key _ hx) (by decide)
  · intro c cs h
    exact (lenChar_ordinary c (key c (by rw [h]; simp))).2

theorem toUpper_digit (c : Char) (h : c.isDigit = true) : c.toUpper = c := by
  simp only [Char.isDigit, Bool.and_eq_true, decide_eq_true_eq] at h
  unfold Char.toUpper
  have : ¬ (c.val ≥ 97 ∧ c.val ≤ 122) := by
    intro ⟨h1, _⟩
    have h2 := h.2
    exact absurd (UInt32.le_trans h1 h2) (by decide)
  simp [this]

theorem ucase_digits (n : Nat) : ucase (Nat.toDigits 10 n) = Nat.toDigits 10 n := by
  unfold ucase
  conv => rhs; rw [← List.map_id (Nat.toDigits 10 n)]
  apply List.map_congr_left
  intro c hc
  exact toUpper_digit c (Nat.isDigit_of_mem_toDigits (b := 10) (by decide) (by decide) hc)

theorem isDigits_toDigits (n : Nat) : isDigits (Nat.toDigits 10 n) = true := by
  unfold isDigits
  have h1 : (Nat.toDigits 10 n).isEmpty = false := by
    cases h : Nat.toDigits 10 n with
    | nil => exact absurd h Nat.toDigits_ne_nil
    | cons _ _ => rfl
  rw [h1]
  simp only [Bool.not_false, Bool.true_and, List.all_eq_true]
  intro c hc
  exact Nat.isDigit_of_mem_toDigits (b := 10) (by decide) (by decide) hc

/-- the default TRANSLATE table lists the namespace in member order and its tokens are plain words (digit strings) -/
theorem defaultTable_spec (ns : List (Str × Nat)) :
    (defaultTable ns).map (·.2) = ns.map (·.1) ∧ ∀ p ∈ defaultTable ns, PlainWord p.1 := by
  refine ⟨by simp [defaultTable, Function.comp_def], ?_⟩
  intro p hp
  simp only [defaultTable, List.mem_map] at hp
  obtain ⟨q, _, rfl⟩ := hp
  have : (toString (q.2 + 1)).toList = Nat.toDigits 10 (q.2 + 1) := by simp
  simp only [this]
  exact digits_plain _

theorem natOf_toDigits (n : Nat) : natOf (Nat.toDigits 10 n) = n := Nat.ofDigitChars_ten_toDigits

theorem kw_TAXA : PlainWord ['T', 'A', 'X', 'A'] := ⟨by simp, by decide, by intro c cs h; cases h; decide⟩
theorem kw_DIMENSIONS : PlainWord ['D', 'I', 'M', 'E', 'N', 'S', 'I', 'O', 'N', 'S'] := ⟨by simp, by decide, by intro c cs h; cases h; decide⟩
theorem kw_NTAX : PlainWord ['N', 'T', 'A', 'X'] := ⟨by simp, by decide, by intro c cs h; cases h; decide⟩
theorem kw_TAXLABELS : PlainWord ['T', 'A', 'X', 'L', 'A', 'B', 'E', 'L', 'S'] := ⟨by simp, by decide, by intro c cs h; cases h; decide⟩
theorem kw_NEXUS : PlainWord ['#', 'N', 'E', 'X', 'U', 'S'] := ⟨by simp, by decide, by intro c cs h; cases h; decide⟩

theorem stop_eq (r : Str) : Stop ('=' :: r) ∧ plainAfter ('=' :: r) = '=' :: r := by
  have h1 : isCap '=' = true := by decide
  have h2 : isUncap '=' = false := by decide
  exact ⟨Or.inr h1, by simp [plainAfter, h2]⟩

/-- the tokens between `BEGIN TAXA ;` and the block's `END ;` -/
def taxaInner (n : Nat) (ts : List TokE) : List TokE :=
  [⟨['D', 'I', 'M', 'E', 'N', 'S', 'I', 'O', 'N', 'S'], false, []⟩, ⟨['N', 'T', 'A', 'X'], false, []⟩, ⟨['='], false, []⟩,
   ⟨Nat.toDigits 10 n, false, []⟩, ⟨[';'], false, []⟩, ⟨['T', 'A', 'X', 'L', 'A', 'B', 'E', 'L', 'S'], false, []⟩] ++
  (ts ++ [⟨[';'], false, []⟩])

/-- tokens of the TAXA block followed by any text `T` -/
theorem taxa_block_pre (ps uu pu : Bool) (hc : Consistent ps uu pu) (ns : List Str)
    (hadm : ∀ l ∈ ns, l ≠ [] ∧ ∀ c ∈ l, labelChar c = true) (T : Str) (ws : Str) (hws : ∀ c ∈ ws, isUncap c = true) :
    ∃ ts, ts.map (·.text) = ns ∧ (∀ t ∈ ts, t.text = [';'] → t.quoted = true) ∧
      Pre pu (ws ++ (taxaBlockText ps uu ns ++ T))
        ([⟨['B', 'E', 'G', 'I', 'N'], false, []⟩, ⟨['T', 'A', 'X', 'A'], false, []⟩, ⟨[';'], false, []⟩] ++ taxaInner ns.length ts ++
          [⟨['E', 'N', 'D'], false, []⟩, ⟨[';'], false, []⟩])
        (['\n', '\n'] ++ T) := by
  let D := Nat.toDigits 10 ns.length
  obtain ⟨ts, hts, hquo, hlab⟩ := taxlabels_pre ps uu pu hc (endBlock ++ T) ns hadm [] (by simp)
  let X6 := taxlabelsText ps uu ns ++ (endBlock ++ T)
  let X5 := ['T', 'A', 'X', 'L', 'A', 'B', 'E', 'L', 'S'] ++ ('\n' :: ([] ++ X6))
  let X4 := D ++ (';' :: (['\n', ' ', ' ', ' ', ' '] ++ X5))
  let X3 := ['N', 'T', 'A', 'X'] ++ ('=' :: ([] ++ X4))
  let X2 := ['D', 'I', 'M', 'E', 'N', 'S', 'I', 'O', 'N', 'S'] ++ (' ' :: ([] ++ X3))
  let X1 := ['T', 'A', 'X', 'A'] ++ (';' :: (['\n', ' ', ' ', ' ', ' '] ++ X2))
  have etext : ws ++ (taxaBlockText ps uu ns ++ T) = ws ++ (['B', 'E', 'G', 'I', 'N'] ++ (' ' :: ([] ++ X1))) := by
    have hD : (toString ns.length).toList = D := by simp [D]
    simp only [taxaBlockText, hD, X1, X2, X3, X4, X5, X6]
    simp
  have h1 := pre_word pu ws ['B', 'E', 'G', 'I', 'N'] _ hws kw_BEGIN (stop_space ([] ++ X1)).1
  rw [(stop_space _).2] at h1
  have h2 := pre_word pu [] ['T', 'A', 'X', 'A'] _ (by simp) kw_TAXA (stop_semi (['\n', ' ', ' ', ' ', ' '] ++ X2)).1
  rw [(stop_semi _).2] at h2
  have h3 := pre_punct pu [] ';' (['\n', ' ', ' ', ' ', ' '] ++ X2) (by simp) (by decide)
  rw [List.nil_append] at h3
  have h4 := pre_word pu ['\n', ' ', ' ', ' ', ' '] ['D', 'I', 'M', 'E', 'N', 'S', 'I', 'O', 'N', 'S'] _ (by decide) kw_DIMENSIONS
    (stop_space ([] ++ X3)).1
  rw [(stop_space _).2] at h4
  have h5 := pre_word pu [] ['N', 'T', 'A', 'X'] _ (by simp) kw_NTAX (stop_eq ([] ++ X4)).1
  rw [(stop_eq _).2] at h5
  have h6 := pre_punct pu [] '=' ([] ++ X4) (by simp) (by decide)
  rw [List.nil_append] at h6
  have h7 := pre_word pu [] D _ (by simp) (digits_plain ns.length) (stop_semi (['\n', ' ', ' ', ' ', ' '] ++ X5)).1
  rw [(stop_semi _).2] at h7
  have h8 := pre_punct pu [] ';' (['\n', ' ', ' ', ' ', ' '] ++ X5) (by simp) (by decide)
  rw [List.nil_append] at h8
  have h9 := pre_word pu ['\n', ' ', ' ', ' ', ' '] ['T', 'A', 'X', 'L', 'A', 'B', 'E', 'L', 'S'] _ (by decide) kw_TAXLABELS
    (stop_nl ([] ++ X6)).1
  rw [(stop_nl _).2] at h9
  have e10 : ['\n'] ++ (endBlock ++ T) = ['\n'] ++ (['E', 'N', 'D'] ++ (';' :: (['\n', '\n'] ++ T))) := by simp [endBlock]
  have h10 := pre_word pu ['\n'] ['E', 'N', 'D'] _ (by decide) kw_END (stop_semi (['\n', '\n'] ++ T)).1
  rw [(stop_semi _).2] at h10
  have h11 := pre_punct pu [] ';' (['\n', '\n'] ++ T) (by simp) (by decide)
  rw [List.nil_append] at h11
  rw [e10] at hlab
  refine ⟨ts, hts, hquo, ?_⟩
  rw [etext]
  have hall := ((((((((((h1.trans h2).trans h3).trans h4).trans h5).trans h6).trans h7).trans h8).trans h9).trans hlab).trans h10).trans h11
  unfold Pre at hall ⊢
  rw [hall]
  simp [taxaInner, D]

theorem any_ci_true (cf : Char → Char) (acc : List Str) (w : Str) (h : w ∈ acc) :
    acc.any (fun x => lowerWith cf x == lowerWith cf w) = true := by
  rw [List.any_eq_true]
  exact ⟨w, h, by simp⟩

/-- `_parse_taxlabels_statement` into a namespace that already holds every label: nothing is added -/
theorem taxlabels_reads_known (cf : Char → Char) (ntax : Option Nat) (att : Bool) (more : List TokE) (acc : List Str) : ∀ (ts : List TokE),
    (∀ t ∈ ts, t.text = [';'] → t.quoted = true) → (∀ t ∈ ts, t.text ∈ acc) →
    nexusTaxlabels cf ntax att (ts ++ ⟨[';'], false, []⟩ :: more) acc = some (acc, more) := by
  intro ts
  induction ts with
  | nil => intro _ _; simp [nexusTaxlabels]
  | cons t ts ih =>
    intro hq hin
    have hsemi : (t.text == [';'] && !t.quoted) = false := by
      cases h : (t.text == [';']) with
      | false => rfl
      | true => simp [hq t (by simp) (by simpa using h)]
    have hk := any_ci_true cf acc t.text (hin t (by simp))
    simp only [List.cons_append, nexusTaxlabels, hsemi, Bool.false_eq_true, if_false, hk, if_true]
    exact ih (fun t' ht' => hq t' (by simp [ht'])) (fun t' ht' => hin t' (by simp [ht']))

theorem ucase_kw :
    ucase ['D', 'I', 'M', 'E', 'N', 'S', 'I', 'O', 'N', 'S'] = ['D', 'I', 'M', 'E', 'N', 'S', 'I', 'O', 'N', 'S'] ∧
    ucase ['N', 'T', 'A', 'X'] = ['N', 'T', 'A', 'X'] ∧ ucase ['T', 'A', 'X', 'L', 'A', 'B', 'E', 'L', 'S'] = ['T', 'A', 'X', 'L', 'A', 'B', 'E', 'L', 'S'] ∧
    ucase ['T', 'A', 'X', 'A'] = ['T', 'A', 'X', 'A'] ∧ ucase [';'] = [';'] ∧ ucase ['#', 'N', 'E', 'X', 'U', 'S'] = ['#', 'N', 'E', 'X', 'U', 'S'] := by decide

/-- `_parse_dimensions_statement` on `NTAX = n ;` -/
theorem dimensions_reads (n : Nat) (more : List TokE) (f : Nat) :
    nexusDimensions (f + 2) (⟨['N', 'T', 'A', 'X'], false, []⟩ :: ⟨['='], false, []⟩ :: ⟨Nat.toDigits 10 n, false, []⟩ ::
      ⟨[';'], false, []⟩ :: more) none = some (some n, more) := by
  have d1 : ((['N', 'T', 'A', 'X'] : Str) == [';']) = false := by decide
  simp only [nexusDimensions, ucase_kw.2.1, d1, Bool.false_eq_true, if_false, beq_self_eq_true, Bool.true_or, if_true,
    ucase_digits, isDigits_toDigits, natOf_toDigits, ucase_kw.2.2.2.2.1]

/-- `_parse_taxa_block`'s loop on the tokens of a written TAXA block: the namespace (the labels in order when it starts
    empty; unchanged when it is the caller's and already holds them), the NTAX value, the tokens after `END ;` -/
theorem taxa_reads (cf : Char → Char) (ns : List Str) (att : Option (List Str)) (hatt : att = none ∨ att = some ns)
    (hd : DistinctCI cf ns) (ts : List TokE) (hts : ts.map (·.text) = ns) (hquo : ∀ t ∈ ts, t.text = [';'] → t.quoted = true)
    (more : List TokE) (F : Nat) (hF : 3 ≤ F) :
    nexusTaxaLoop cf att F (taxaInner ns.length ts ++ ([⟨['E', 'N', 'D'], false, []⟩, ⟨[';'], false, []⟩] ++ more)) none none =
      some (some ns, some ns.length, more) := by
  obtain ⟨f, rfl⟩ : ∃ f, F = f + 3 := ⟨F - 3, by omega⟩
  have hlab : nexusTaxlabels cf (some ns.length) att.isSome
      (ts ++ ⟨[';'], false, []⟩ :: (⟨['E', 'N', 'D'], false, []⟩ :: ⟨[';'], false, []⟩ :: more))
      (match (none : Option (List Str)) with | some l => l | none => att.getD []) =
      some (ns, ⟨['E', 'N', 'D'], false, []⟩ :: ⟨[';'], false, []⟩ :: more) := by
    rcases hatt with rfl | rfl
    · have := taxlabels_reads cf (some ns.length) false (⟨['E', 'N', 'D'], false, []⟩ :: ⟨[';'], false, []⟩ :: more) ts [] hquo
        (by simpa [hts] using hd) (Or.inr (fun n hn => by cases hn; simp [← hts]))
      simpa [hts] using this
    · have := taxlabels_reads_known cf (some ns.length) true (⟨['E', 'N', 'D'], false, []⟩ :: ⟨[';'], false, []⟩ :: more) ns ts hquo
        (fun t ht => by rw [← hts]; exact List.mem_map_of_mem ht)
      simpa using this
  have e : taxaInner ns.length ts ++ ([⟨['E', 'N', 'D'], false, []⟩, ⟨[';'], false, []⟩] ++ more) =
      ⟨['D', 'I', 'M', 'E', 'N', 'S', 'I', 'O', 'N', 'S'], false, []⟩ :: (⟨['N', 'T', 'A', 'X'], false, []⟩ :: ⟨['='], false, []⟩ ::
        ⟨Nat.toDigits 10 ns.length, false, []⟩ :: ⟨[';'], false, []⟩ :: (⟨['T', 'A', 'X', 'L', 'A', 'B', 'E', 'L', 'S'], false, []⟩ ::
          (ts ++ ⟨[';'], false, []⟩ :: (⟨['E', 'N', 'D'], false, []⟩ :: ⟨[';'], false, []⟩ :: more)))) := by
    simp [taxaInner]
  have d1 : ((['D', 'I', 'M', 'E', 'N', 'S', 'I', 'O', 'N', 'S'] : Str) == ['E', 'N', 'D']) = false := by decide
  have d2 : ((['D', 'I', 'M', 'E', 'N', 'S', 'I', 'O', 'N', 'S'] : Str) == ['E', 'N', 'D', 'B', 'L', 'O', 'C', 'K']) = false := by decide
  have d3 : ((['D', 'I', 'M', 'E', 'N', 'S', 'I', 'O', 'N', 'S'] : Str) == ['T', 'I', 'T', 'L', 'E']) = false := by decide
  have d4 : ((['T', 'A', 'X', 'L', 'A', 'B', 'E', 'L', 'S'] : Str) == ['E', 'N', 'D']) = false := by decide
  have d5 : ((['T', 'A', 'X', 'L', 'A', 'B', 'E', 'L', 'S'] : Str) == ['E', 'N', 'D', 'B', 'L', 'O', 'C', 'K']) = false := by decide
  have d6 : ((['T', 'A', 'X', 'L', 'A', 'B', 'E', 'L', 'S'] : Str) == ['T', 'I', 'T', 'L', 'E']) = false := by decide
  have d7 : ((['T', 'A', 'X', 'L', 'A', 'B', 'E', 'L', 'S'] : Str) == ['D', 'I', 'M', 'E', 'N', 'S', 'I', 'O', 'N', 'S']) = false := by decide
  rw [e, nexusTaxaLoop]
  simp only [ucase_kw.1, d1, d2, d3, Bool.or_self, Bool.false_eq_true, if_false, beq_self_eq_true, if_true, List.length_cons]
  rw [show (ts ++ ⟨[';'], false, []⟩ :: (⟨['E', 'N', 'D'], false, []⟩ :: ⟨[';'], false, []⟩ :: more)).length + 1 + 1 + 1 + 1 + 1 + 1 =
      ((ts ++ ⟨[';'], false, []⟩ :: (⟨['E', 'N', 'D'], false, []⟩ :: ⟨[';'], false, []⟩ :: more)).length + 4) + 2 by omega,
    dimensions_reads]
  simp only []
  rw [nexusTaxaLoop]
  simp only [ucase_kw.2.2.1, d4, d5, d6, d7, Bool.or_self, Bool.false_eq_true, if_false, beq_self_eq_true, if_true, hlab]
  rw [nexusTaxaLoop]
  simp [ucase_END, skipToSemi]

/-- the document loop on `BEGIN TAXA ; … END ; BEGIN TREES ; …` -/
theorem doc_loop (ro : ROpts) (ns : List Str) (att : Option (List Str)) (hatt : att = none ∨ att = some ns)
    (hd : DistinctCI ro.cf ns) (ts : List TokE) (hts : ts.map (·.text) = ns) (hquo : ∀ t ∈ ts, t.text = [';'] → t.quoted = true)
    (toks : List TokE) (R : List (Str × PT)) (M : Mapper)
    (hrun : ∀ f, nexusBlockLoop ro false (f + 2) toks ⟨[], ns, true⟩ [] = some (R, M)) (f : Nat) :
    nexusDocLoop ro att false (f + 2)
      (([⟨['B', 'E', 'G', 'I', 'N'], false, []⟩, ⟨['T', 'A', 'X', 'A'], false, []⟩, ⟨[';'], false, []⟩] ++ taxaInner ns.length ts ++
          [⟨['E', 'N', 'D'], false, []⟩, ⟨[';'], false, []⟩]) ++
        (⟨['B', 'E', 'G', 'I', 'N'], false, []⟩ :: ⟨['T', 'R', 'E', 'E', 'S'], false, []⟩ :: ⟨[';'], false, []⟩ :: toks)) none =
      some ⟨M.ns, M.tokmap, R⟩ := by
  let more : List TokE := ⟨['B', 'E', 'G', 'I', 'N'], false, []⟩ :: ⟨['T', 'R', 'E', 'E', 'S'], false, []⟩ :: ⟨[';'], false, []⟩ :: toks
  have e : (([⟨['B', 'E', 'G', 'I', 'N'], false, []⟩, ⟨['T', 'A', 'X', 'A'], false, []⟩, ⟨[';'], false, []⟩] ++ taxaInner ns.length ts ++
          [⟨['E', 'N', 'D'], false, []⟩, ⟨[';'], false, []⟩]) ++ more : List TokE) =
      ⟨['B', 'E', 'G', 'I', 'N'], false, []⟩ :: ⟨['T', 'A', 'X', 'A'], false, []⟩ :: ⟨[';'], false, []⟩ ::
        (taxaInner ns.length ts ++ ([⟨['E', 'N', 'D'], false, []⟩, ⟨[';'], false, []⟩] ++ more)) := by simp
  have d1 : ((['T', 'R', 'E', 'E', 'S'] : Str) == ['T', 'A', 'X', 'A']) = false := by decide
  show nexusDocLoop ro att false (f + 2) (_ ++ more) none = _
  rw [e, nexusDocLoop]
  simp only [ucase_BEGIN, bne_self_eq_false, Bool.false_eq_true, if_false, ucase_kw.2.2.2.1, beq_self_eq_true, if_true, Option.isSome_none,
    skipToSemi, List.length_cons]
  rw [taxa_reads ro.cf ns att hatt hd ts hts hquo more _ (by simp only [taxaInner, List.length_append, List.length_cons]; omega)]
  simp only [more]
  rw [nexusDocLoop]
  simp only [ucase_BEGIN, bne_self_eq_false, Bool.false_eq_true, if_false, ucase_TREES, d1, beq_self_eq_true, if_true, skipToSemi,
    List.length_cons, hrun]

/-- the whole document: `#NEXUS`, the TAXA block for `ns`, then a TREES block that runs as `BlockRun` says -/
theorem doc_of_run (ps uu : Bool) (ro : ROpts) (hc : Consistent ps uu ro.pu) (ns : List Str)
    (hadm : ∀ l ∈ ns, l ≠ [] ∧ ∀ c ∈ l, labelChar c = true) (hd : DistinctCI ro.cf ns)
    (att : Option (List Str)) (hatt : att = none ∨ att = some ns) (B : Str) (R : List (Str × PT)) (M : Mapper)
    (hrun : BlockRun ro ns B R M) :
    nexusDoc ro att (['#', 'N', 'E', 'X', 'U', 'S', '\n', '\n'] ++ (taxaBlockText ps uu ns ++ B)) = some ⟨M.ns, M.tokmap, R⟩ := by
  obtain ⟨toks, htoks, hloop⟩ := hrun ['\n', '\n'] (by decide)
  obtain ⟨ts, hts, hquo, hpre⟩ := taxa_block_pre ps uu ro.pu hc ns hadm B ['\n'] (by decide)
  have e : ['#', 'N', 'E', 'X', 'U', 'S', '\n', '\n'] ++ (taxaBlockText ps uu ns ++ B) =
      [] ++ (['#', 'N', 'E', 'X', 'U', 'S'] ++ ('\n' :: (['\n'] ++ (taxaBlockText ps uu ns ++ B)))) := by simp
  have h0 := pre_word ro.pu [] ['#', 'N', 'E', 'X', 'U', 'S'] _ (by simp) kw_NEXUS (stop_nl (['\n'] ++ (taxaBlockText ps uu ns ++ B))).1
  rw [(stop_nl _).2] at h0
  have hall := (h0.trans hpre).final htoks
  unfold nexusDoc
  rw [e, hall]
  simp only [Bool.not_true, Bool.false_eq_true, if_false, List.cons_append, List.nil_append, ucase_kw.2.2.2.2.2, beq_self_eq_true, if_true]
  have := doc_loop ro ns att hatt hd ts hts hquo toks R M hloop
  simp only [List.cons_append, List.nil_append, List.length_cons] at this ⊢
  exact this _

end Aux
end DendroModel.C02
