import DendroModel.Model.C10
/-! C10 — helper lemmas: dictionaries, the namespace invariant, its preservation by the primitive changes. -/
namespace DendroModel.C10.Aux
open DendroModel DendroModel.C10

/-! ## dictionaries -/
@[simp] theorem get_nil (k : Nat) : Map.get [] k = none := rfl

theorem get_cons (a b : Nat) (r : Map) (k : Nat) :
    Map.get ((a, b) :: r) k = if a = k then some b else Map.get r k := rfl

theorem get_erase_self (m : Map) (k : Nat) : (Map.erase m k).get k = none := by
  induction m with
  | nil => rfl
  | cons p r ih =>
    obtain ⟨a, b⟩ := p
    by_cases h : a = k
    · simp [Map.erase, h]; simpa [Map.erase] using ih
    · simp [Map.erase, h, get_cons]; simpa [Map.erase] using ih

theorem get_erase_ne (m : Map) (k k' : Nat) (h : k' ≠ k) : (Map.erase m k).get k' = m.get k' := by
  induction m with
  | nil => rfl
  | cons p r ih =>
    obtain ⟨a, b⟩ := p
    by_cases ha : a = k
    · have : a ≠ k' := by omega
      simp [Map.erase, ha, get_cons] at ih ⊢
      simp [ha] at this
      simp [this, ih]
    · simp [Map.erase, ha, get_cons] at ih ⊢
      simp [ih]

theorem get_erase_some (m : Map) (k k' v : Nat) (h : (Map.erase m k).get k' = some v) : m.get k' = some v := by
  by_cases hk : k' = k
  · subst hk; rw [get_erase_self] at h; cases h
  · rwa [get_erase_ne _ _ _ hk] at h

theorem get_put_self (m : Map) (k v : Nat) : (Map.put m k v).get k = some v := by
  simp [Map.put, get_cons]

theorem get_put_ne (m : Map) (k v k' : Nat) (h : k' ≠ k) : (Map.put m k v).get k' = m.get k' := by
  have : k ≠ k' := fun e => h e.symm
  simp [Map.put, get_cons, this, get_erase_ne _ _ _ h]

theorem keys_erase (m : Map) (k : Nat) (h : (m.map Prod.fst).Nodup) : ((Map.erase m k).map Prod.fst).Nodup :=
  h.sublist (List.Sublist.map _ List.filter_sublist)

theorem not_mem_keys_erase (m : Map) (k : Nat) : k ∉ (Map.erase m k).map Prod.fst := by
  simp [Map.erase]

theorem keys_put (m : Map) (k v : Nat) (h : (m.map Prod.fst).Nodup) : ((Map.put m k v).map Prod.fst).Nodup := by
  simp only [Map.put, List.map_cons, List.nodup_cons]
  exact ⟨not_mem_keys_erase m k, keys_erase m k h⟩

theorem get_of_mem : ∀ (m : Map) (a b : Nat), (m.map Prod.fst).Nodup → (a, b) ∈ m → m.get a = some b := by
  intro m
  induction m with
  | nil => intro a b _ h; cases h
  | cons p r ih =>
    intro a b hn h
    obtain ⟨x, y⟩ := p
    simp only [List.map_cons, List.nodup_cons] at hn
    rcases List.mem_cons.1 h with e | e
    · cases e; simp [get_cons]
    · have : x ≠ a := by
        intro e'; subst e'
        exact hn.1 (List.mem_map.2 ⟨(x, b), e, rfl⟩)
      simp [get_cons, this, ih a b hn.2 e]

/-! ## the invariant of one namespace -/
structure Inv (s : NS) : Prop where
  /-- no taxon is listed twice -/
  nodup : s.taxa.Nodup
  /-- the members are exactly the keys of the index map -/
  dom : ∀ t, t ∈ s.taxa ↔ (s.t2a.get t).isSome
  /-- every index handed out is below the counter -/
  lt : ∀ t i, s.t2a.get t = some i → i < s.count
  /-- the two index maps are inverse to each other (so the index is injective on members) -/
  inverse : ∀ t i, s.t2a.get t = some i ↔ s.a2t.get i = some t
  /-- the memo of `taxon_bitmask` only holds `1 <<< index` of current members -/
  memo : ∀ t m, s.bm.get t = some m → ∃ i, s.t2a.get t = some i ∧ m = 1 <<< i
  /-- the index → taxon dictionary has no shadowed entries -/
  keys : (s.a2t.map Prod.fst).Nodup

theorem inv_empty (cs : Bool) : Inv (NS.empty cs) := by
  constructor <;> simp [NS.empty]

theorem contains_iff (s : NS) (t : Nat) : s.contains t = true ↔ (s.t2a.get t).isSome := by
  simp [NS.contains]

theorem inv_injective {s : NS} (h : Inv s) {t t' i : Nat} (h1 : s.t2a.get t = some i) (h2 : s.t2a.get t' = some i) :
    t = t' := by
  have a := (h.inverse t i).1 h1
  have b := (h.inverse t' i).1 h2
  rw [a] at b; exact Option.some.inj b

/-- what a successful `add_taxon` does -/
theorem addTaxon_cases {s s' : NS} {t : Nat} (h : s.addTaxon t = .ok s') :
    (s.contains t = true ∧ s' = s) ∨
    (s.contains t = false ∧ s.mutable_ = true ∧
      s' = { s with taxa := s.taxa ++ [t], a2t := s.a2t.put s.count t, t2a := s.t2a.put t s.count, count := s.count + 1 }) := by
  unfold NS.addTaxon at h
  by_cases hc : s.contains t = true
  · rw [if_pos hc] at h; exact Or.inl ⟨hc, (Except.ok.inj h).symm⟩
  · rw [if_neg hc] at h
    by_cases hm : (!s.mutable_) = true
    · rw [if_pos hm] at h; cases h
    · rw [if_neg hm] at h
      exact Or.inr ⟨by simpa using hc, by simpa using hm, (Except.ok.inj h).symm⟩

theorem inv_addTaxon {s s' : NS} {t : Nat} (hi : Inv s) (h : s.addTaxon t = .ok s') : Inv s' := by
  rcases addTaxon_cases h with ⟨_, rfl⟩ | ⟨hc, _, rfl⟩
  · exact hi
  · have hnone : s.t2a.get t = none := by
      simp [NS.contains] at hc; exact hc
    have hnot : t ∉ s.taxa := by
      intro hm; have := (hi.dom t).1 hm; simp [hnone] at this
    have hfree : ∀ t', s.a2t.get s.count ≠ some t' := by
      intro t' hh
      have := hi.lt t' s.count ((hi.inverse t' s.count).2 hh); omega
    constructor
    · simp only; rw [List.nodup_append]
      refine ⟨hi.nodup, by simp, ?_⟩
      intro a ha b hb; simp at hb; subst hb; intro e; subst e; exact hnot ha
    · intro t'
      by_cases e : t' = t
      · subst e; simp [get_put_self]
      · simp [get_put_ne _ _ _ _ e, e, hi.dom t']
    · intro t' i hh
      by_cases e : t' = t
      · subst e; simp [get_put_self] at hh; simp; omega
      · simp [get_put_ne _ _ _ _ e] at hh; have := hi.lt t' i hh; simp; omega
    · intro t' i
      by_cases e : t' = t
      · subst e
        by_cases ei : i = s.count
        · subst ei; simp [get_put_self]
        · simp only [get_put_self, get_put_ne _ _ _ _ ei]
          constructor
          · intro hh; exact absurd (Option.some.inj hh).symm ei
          · intro hh; have := (hi.inverse t' i).2 hh; simp [hnone] at this
      · by_cases ei : i = s.count
        · subst ei
          simp only [get_put_self, get_put_ne _ _ _ _ e]
          constructor
          · intro hh; have := hi.lt t' _ hh; omega
          · intro hh; exact absurd (Option.some.inj hh).symm e
        · simp only [get_put_ne _ _ _ _ e, get_put_ne _ _ _ _ ei]; exact hi.inverse t' i
    · intro t' m hh
      obtain ⟨i, h1, h2⟩ := hi.memo t' m hh
      have e : t' ≠ t := by intro e; subst e; simp [hnone] at h1
      exact ⟨i, by simp [get_put_ne _ _ _ _ e, h1], h2⟩
    · exact keys_put _ _ _ hi.keys

theorem removeTaxon_cases {s s' : NS} {t : Nat} (h : s.removeTaxon t = .ok s') :
    t ∈ s.taxa ∧ s' = { s with taxa := s.taxa.filter (fun x => x ≠ t),
                               a2t := (match s.t2a.get t with | some i => s.a2t.erase i | none => s.a2t),
                               t2a := s.t2a.erase t, bm := s.bm.erase t } := by
  unfold NS.removeTaxon at h
  by_cases hc : s.taxa.contains t = true
  · rw [if_neg (not_not_intro hc)] at h
    exact ⟨by simpa using hc, (Except.ok.inj h).symm⟩
  · rw [if_pos hc] at h; cases h

theorem inv_removeTaxon {s s' : NS} {t : Nat} (hi : Inv s) (h : s.removeTaxon t = .ok s') : Inv s' := by
  obtain ⟨hm, rfl⟩ := removeTaxon_cases h
  obtain ⟨i, hti⟩ := Option.isSome_iff_exists.1 ((hi.dom t).1 hm)
  simp only [hti]
  constructor
  · exact hi.nodup.sublist List.filter_sublist
  · intro t'
    by_cases e : t' = t
    · subst e; simp [get_erase_self]
    · simp [get_erase_ne _ _ _ e, e, hi.dom t']
  · intro t' j hh; exact hi.lt t' j (get_erase_some _ _ _ _ hh)
  · intro t' j
    by_cases e : t' = t
    · subst e
      simp only [get_erase_self]
      constructor
      · intro hh; cases hh
      · intro hh
        have h1 := get_erase_some _ _ _ _ hh
        have h2 := (hi.inverse t' j).2 h1
        rw [hti] at h2; have := Option.some.inj h2; subst this
        rw [get_erase_self] at hh; cases hh
    · simp only [get_erase_ne _ _ _ e]
      by_cases ej : j = i
      · subst ej
        simp only [get_erase_self]
        constructor
        · intro hh; exact absurd (inv_injective hi hh hti) e
        · intro hh; cases hh
      · simp only [get_erase_ne _ _ _ ej]; exact hi.inverse t' j
  · intro t' m hh
    by_cases e : t' = t
    · subst e; rw [get_erase_self] at hh; cases hh
    · rw [get_erase_ne _ _ _ e] at hh
      obtain ⟨j, h1, h2⟩ := hi.memo t' m hh
      exact ⟨j, by simp [get_erase_ne _ _ _ e, h1], h2⟩
  · exact keys_erase _ _ hi.keys

theorem inv_clear {s : NS} (_hi : Inv s) : Inv s.clear := by
  constructor <;> simp [NS.clear]

theorem inv_perm {s : NS} (hi : Inv s) {l : List Nat} (hp : l.Perm s.taxa) : Inv { s with taxa := l } := by
  constructor
  · exact hp.nodup_iff.2 hi.nodup
  · intro t; simp only; rw [hp.mem_iff]; exact hi.dom t
  · exact hi.lt
  · exact hi.inverse
  · exact hi.memo
  · exact hi.keys

theorem inv_memo {s : NS} (hi : Inv s) {t i : Nat} (h : s.t2a.get t = some i) :
    Inv { s with bm := s.bm.put t (1 <<< i) } := by
  constructor
  · exact hi.nodup
  · exact hi.dom
  · exact hi.lt
  · exact hi.inverse
  · intro t' m hh
    by_cases e : t' = t
    · subst e; simp [get_put_self] at hh; exact ⟨i, h, hh.symm⟩
    · simp only [get_put_ne _ _ _ _ e] at hh; exact hi.memo t' m hh
  · exact hi.keys

theorem inv_flags {s : NS} (hi : Inv s) (m c : Bool) : Inv { s with mutable_ := m, caseSens := c } := by
  constructor
  · exact hi.nodup
  · exact hi.dom
  · exact hi.lt
  · exact hi.inverse
  · exact hi.memo
  · exact hi.keys

end DendroModel.C10.Aux
