import DendroModel.Theory.C08Base
import Mathlib.Tactic
/-! C08 (c) — path lengths between surviving leaves are unchanged by restriction (with or without suppression).
Lengths are read in `ℚ` (`None` = 0); the executable `Frac` addition is a homomorphism on fractions with non-zero
denominator (which the protocol parser and every `Frac` operation produce). -/
namespace DendroModel.C08
open DendroModel

def fval (a : Frac) : ℚ := (a.num : ℚ) / (a.den : ℚ)
def oval : Option Frac → ℚ
  | none => 0
  | some a => fval a
def OWF : Option Frac → Prop
  | none => True
  | some a => a.den ≠ 0

mutual
def LensWF : T → Prop
  | .node _ _ l _ cs => OWF l ∧ LensWFL cs
def LensWFL : List T → Prop
  | [] => True
  | c :: cs => LensWF c ∧ LensWFL cs
end

mutual
/-- length of the path from node `t` (its own edge excluded) down to the first leaf satisfying `p` -/
def reach (p : Acc) : T → Option ℚ
  | .node i x _ _ [] => if p i x then some 0 else none
  | .node _ _ _ _ (c :: cs) => reachL p (c :: cs)
def reachL (p : Acc) : List T → Option ℚ
  | [] => none
  | c :: cs => match reach p c with
    | some d => some (d + oval c.len)
    | none => reachL p cs
end

mutual
/-- length of the path between the first `p`-leaf and the first `q`-leaf below `t`, when they sit in different child subtrees
    of their junction (i.e. are different leaves) -/
def dist (p q : Acc) : T → Option ℚ
  | .node _ _ _ _ cs => distL p q cs
def distL (p q : Acc) : List T → Option ℚ
  | [] => none
  | c :: cs => match reach p c, reach q c with
    | some _, some _ => dist p q c
    | some x, none => (reachL q cs).map (fun y => x + oval c.len + y)
    | none, some y => (reachL p cs).map (fun x => x + (y + oval c.len))
    | none, none => distL p q cs
end

namespace Aux

theorem mk'_den (n : Int) (d : Nat) : (Frac.mk' n d).den ≠ 0 := by
  unfold Frac.mk'
  by_cases hd : d = 0
  · simp [hd]
  · have hg : Nat.gcd n.natAbs d ≠ 0 := by
      intro h; exact hd (Nat.eq_zero_of_gcd_eq_zero_right h)
    simp only [beq_iff_eq, hd, hg, if_false]
    have hdvd : Nat.gcd n.natAbs d ∣ d := Nat.gcd_dvd_right _ _
    intro h
    have := Nat.div_pos (Nat.le_of_dvd (Nat.pos_of_ne_zero hd) hdvd) (Nat.pos_of_ne_zero hg)
    omega

theorem mk'_fval (n : Int) {d : Nat} (hd : d ≠ 0) : fval (Frac.mk' n d) = (n : ℚ) / (d : ℚ) := by
  unfold Frac.mk' fval
  have hg : Nat.gcd n.natAbs d ≠ 0 := by
    intro h; exact hd (Nat.eq_zero_of_gcd_eq_zero_right h)
  simp only [beq_iff_eq, hd, hg, if_false]
  have hdvd : Nat.gcd n.natAbs d ∣ d := Nat.gcd_dvd_right _ _
  have hdvn : ((Nat.gcd n.natAbs d : ℕ) : ℤ) ∣ n := by
    have := Nat.gcd_dvd_left n.natAbs d
    exact Int.natCast_dvd.mpr this
  have hgq : ((Nat.gcd n.natAbs d : ℕ) : ℚ) ≠ 0 := by exact_mod_cast hg
  have hdq : (d : ℚ) ≠ 0 := by exact_mod_cast hd
  rw [Int.cast_div hdvn (by exact_mod_cast hg), Nat.cast_div hdvd hgq]
  push_cast
  field_simp

theorem add_fval {a b : Frac} (ha : a.den ≠ 0) (hb : b.den ≠ 0) : fval (a + b) = fval a + fval b := by
  show fval (Frac.add a b) = _
  unfold Frac.add
  rw [mk'_fval _ (Nat.mul_ne_zero ha hb)]
  have ha' : (a.den : ℚ) ≠ 0 := by exact_mod_cast ha
  have hb' : (b.den : ℚ) ≠ 0 := by exact_mod_cast hb
  unfold fval
  push_cast
  field_simp

theorem addLen_oval {a b : Option Frac} (ha : OWF a) (hb : OWF b) :
    oval (addLen a b) = oval a + oval b ∧ OWF (addLen a b) := by
  cases a <;> cases b <;> simp_all [addLen, oval, OWF]
  rename_i x y
  exact ⟨add_fval ha hb, by show (Frac.add x y).den ≠ 0; exact mk'_den _ _⟩

theorem reach_withLen (p : Acc) (t : T) (a : Option Frac) : reach p (t.withLen a) = reach p t := by
  obtain ⟨i, x, l, s, cs⟩ := t; cases cs <;> simp [T.withLen, reach]
theorem dist_withLen (p q : Acc) (t : T) (a : Option Frac) : dist p q (t.withLen a) = dist p q t := by
  obtain ⟨i, x, l, s, cs⟩ := t; simp [T.withLen, dist]
theorem withLen_len' (t : T) (a : Option Frac) : (t.withLen a).len = a := by
  obtain ⟨i, x, l, s, cs⟩ := t; rfl

theorem len_node (i x l s) (cs : List T) : (T.node i x l s cs).len = l := rfl

-- root-to-leaf lengths (the node's own edge included) are kept; nothing is reachable in a dropped subtree
mutual
theorem reach_restrict (keep p : Acc) (hp : ∀ i x, p i x = true → keep i x = true) (sup : Bool) : ∀ t : T, LensWF t →
    (∀ r, restrict keep sup t = some r →
      (reach p r).map (· + oval r.len) = (reach p t).map (· + oval t.len) ∧ OWF r.len) ∧
    (restrict keep sup t = none → reach p t = none)
  | .node i x l s [], hw => by
      simp only [LensWF] at hw
      simp only [restrict]
      by_cases hk : keep i x = true
      · simp only [hk, if_true, Option.some.injEq]
        exact ⟨fun r hr => by subst hr; exact ⟨rfl, hw.1⟩, fun h => by cases h⟩
      · have : p i x = false := by
          cases hpx : p i x with
          | false => rfl
          | true => exact absurd (hp i x hpx) hk
        simp [hk, reach, this]
  | .node i x l s (c :: cs), hw => by
      simp only [LensWF] at hw
      have hL := reachL_restrict keep p hp sup (c :: cs) hw.2
      simp only [restrict]
      generalize restrictL keep sup (c :: cs) = ks at hL
      match ks, sup with
      | [], _ =>
        refine ⟨fun r hr => by simp at hr, fun _ => ?_⟩
        simp only [reach]; rw [← hL.1]; simp [reachL]
      | [k], true =>
        simp only [if_true, Option.some.injEq]
        refine ⟨fun r hr => ?_, fun h => by cases h⟩
        subst hr
        have hk := hL.2 k (by simp)
        obtain ⟨e, w⟩ := addLen_oval hk hw.1
        rw [reach_withLen, withLen_len', e]
        refine ⟨?_, w⟩
        simp only [reach, len_node]
        rw [← hL.1]
        simp only [reachL]
        cases reach p k <;> simp [add_assoc]
      | [k], false =>
        simp only [Bool.false_eq_true, if_false, Option.some.injEq]
        refine ⟨fun r hr => ?_, fun h => by cases h⟩
        subst hr
        simp only [reach, len_node, hL.1]
        exact ⟨trivial, hw.1⟩
      | k1 :: k2 :: ks', _ =>
        simp only [Option.some.injEq]
        refine ⟨fun r hr => ?_, fun h => by cases h⟩
        subst hr
        simp only [reach, len_node, hL.1]
        exact ⟨trivial, hw.1⟩
theorem reachL_restrict (keep p : Acc) (hp : ∀ i x, p i x = true → keep i x = true) (sup : Bool) : ∀ cs : List T, LensWFL cs →
    reachL p (restrictL keep sup cs) = reachL p cs ∧ (∀ r ∈ restrictL keep sup cs, OWF r.len)
  | [], _ => by simp [restrictL, reachL]
  | c :: cs, hw => by
      simp only [LensWFL] at hw
      obtain ⟨h1, h2⟩ := reach_restrict keep p hp sup c hw.1
      obtain ⟨g1, g2⟩ := reachL_restrict keep p hp sup cs hw.2
      simp only [restrictL]
      cases hc : restrict keep sup c with
      | none => simp only [reachL, h2 hc]; exact ⟨g1, g2⟩
      | some r =>
        obtain ⟨e, w⟩ := h1 r hc
        refine ⟨?_, fun r' hr' => ?_⟩
        · simp only [reachL, g1]
          cases hr : reach p r <;> cases hcc : reach p c <;> simp_all
        · have hr'' : r' ∈ r :: restrictL keep sup cs := hr'
          rcases List.mem_cons.mp hr'' with rfl | hr''
          · exact w
          · exact g2 r' hr''
end

theorem reachL_none_cons (p : Acc) (c : T) (cs : List T) :
    reachL p (c :: cs) = none ↔ reach p c = none ∧ reachL p cs = none := by
  simp only [reachL]; cases reach p c <;> simp

mutual
theorem dist_none (p q : Acc) : ∀ t : T, reach p t = none ∨ reach q t = none → dist p q t = none
  | .node i x l s [], _ => by simp [dist, distL]
  | .node i x l s (c :: cs), h => by
      simp only [reach] at h
      simp only [dist]
      exact distL_none p q (c :: cs) h
theorem distL_none (p q : Acc) : ∀ cs : List T, reachL p cs = none ∨ reachL q cs = none → distL p q cs = none
  | [], _ => by simp [distL]
  | c :: cs, h => by
      simp only [reachL_none_cons] at h
      simp only [distL]
      rcases h with h | h
      · have ih := distL_none p q cs (Or.inl h.2)
        rw [h.1]
        cases reach q c <;> simp [h.2, ih]
      · have ih := distL_none p q cs (Or.inr h.2)
        rw [h.1]
        cases reach p c <;> simp [h.2, ih]
end

mutual
theorem dist_restrict (keep p q : Acc) (hp : ∀ i x, p i x = true → keep i x = true)
    (hq : ∀ i x, q i x = true → keep i x = true) (sup : Bool) : ∀ t : T, LensWF t →
    ∀ r, restrict keep sup t = some r → dist p q r = dist p q t
  | .node i x l s [], _, r, hr => by
      simp only [restrict] at hr
      split at hr
      · simp only [Option.some.injEq] at hr; subst hr; rfl
      · cases hr
  | .node i x l s (c :: cs), hw, r, hr => by
      simp only [LensWF] at hw
      have hL := distL_restrict keep p q hp hq sup (c :: cs) hw.2
      simp only [restrict] at hr
      simp only [dist]
      rw [← hL]
      generalize restrictL keep sup (c :: cs) = ks at hr
      match ks, sup with
      | [], _ => simp at hr
      | [k], true =>
        simp only [if_true, Option.some.injEq] at hr
        subst hr
        rw [dist_withLen]
        simp only [distL, reachL]
        cases h1 : reach p k <;> cases h2 : reach q k <;> simp [dist_none, h1, h2]
      | [k], false =>
        simp only [Bool.false_eq_true, if_false, Option.some.injEq] at hr
        subst hr; simp [dist]
      | k1 :: k2 :: ks', _ =>
        simp only [Option.some.injEq] at hr
        subst hr; simp [dist]
theorem distL_restrict (keep p q : Acc) (hp : ∀ i x, p i x = true → keep i x = true)
    (hq : ∀ i x, q i x = true → keep i x = true) (sup : Bool) : ∀ cs : List T, LensWFL cs →
    distL p q (restrictL keep sup cs) = distL p q cs
  | [], _ => by simp [restrictL]
  | c :: cs, hw => by
      simp only [LensWFL] at hw
      have ih := distL_restrict keep p q hp hq sup cs hw.2
      obtain ⟨p1, p2⟩ := reach_restrict keep p hp sup c hw.1
      obtain ⟨q1, q2⟩ := reach_restrict keep q hq sup c hw.1
      have pl := (reachL_restrict keep p hp sup cs hw.2).1
      have ql := (reachL_restrict keep q hq sup cs hw.2).1
      simp only [restrictL]
      cases hc : restrict keep sup c with
      | none => simp only [distL, p2 hc, q2 hc, ih]
      | some r =>
        have ep := (p1 r hc).1
        have eq := (q1 r hc).1
        have ed := dist_restrict keep p q hp hq sup c hw.1 r hc
        simp only [distL, pl, ql, ih, ed]
        cases h1 : reach p r <;> cases h2 : reach p c <;> cases h3 : reach q r <;> cases h4 : reach q c <;>
          simp_all
end

/-! ### the executable path lengths (`reachF`/`distF`, run by the driver) denote the rational ones -/
mutual
theorem reachF_val (p : Acc) : ∀ t : T, LensWF t →
    (reachF p t).map oval = reach p t ∧ (∀ d, reachF p t = some d → OWF d)
  | .node i x l s [], _ => by
      by_cases hp : p i x = true <;> simp [reachF, reach, hp, oval, OWF]
  | .node i x l s (c :: cs), hw => by
      simp only [LensWF] at hw
      simp only [reachF, reach]
      exact reachFL_val p (c :: cs) hw.2
theorem reachFL_val (p : Acc) : ∀ cs : List T, LensWFL cs →
    (reachFL p cs).map oval = reachL p cs ∧ (∀ d, reachFL p cs = some d → OWF d)
  | [], _ => by simp [reachFL, reachL]
  | c :: cs, hw => by
      simp only [LensWFL] at hw
      obtain ⟨a1, a2⟩ := reachF_val p c hw.1
      obtain ⟨b1, b2⟩ := reachFL_val p cs hw.2
      have hcl : OWF c.len := by obtain ⟨i, x, l, s, ds⟩ := c; simp only [LensWF] at hw; exact hw.1.1
      simp only [reachFL, reachL]
      cases hr : reachF p c with
      | none => rw [hr] at a1; simp at a1; simp [← a1, b1]; exact b2
      | some d =>
        rw [hr] at a1; simp at a1
        obtain ⟨e, w⟩ := addLen_oval (a2 d hr) hcl
        simp only [← a1, Option.map_some, e]
        exact ⟨trivial, fun d' hd' => by simp at hd'; subst hd'; exact w⟩
end

mutual
theorem distF_val (p q : Acc) : ∀ t : T, LensWF t → (distF p q t).map oval = dist p q t
  | .node i x l s cs, hw => by
      simp only [LensWF] at hw
      simp only [distF, dist]
      exact distFL_val p q cs hw.2
theorem distFL_val (p q : Acc) : ∀ cs : List T, LensWFL cs → (distFL p q cs).map oval = distL p q cs
  | [], _ => by simp [distFL, distL]
  | c :: cs, hw => by
      simp only [LensWFL] at hw
      obtain ⟨a1, a2⟩ := reachF_val p c hw.1
      obtain ⟨b1, b2⟩ := reachF_val q c hw.1
      obtain ⟨c1, c2⟩ := reachFL_val p cs hw.2
      obtain ⟨d1, d2⟩ := reachFL_val q cs hw.2
      have hcl : OWF c.len := by obtain ⟨i, x, l, s, ds⟩ := c; simp only [LensWF] at hw; exact hw.1.1
      have ih := distFL_val p q cs hw.2
      have it := distF_val p q c hw.1
      simp only [distFL, distL]
      cases hp : reachF p c with
      | none =>
        rw [hp] at a1; simp at a1
        cases hq : reachF q c with
        | none => rw [hq] at b1; simp at b1; simp [← a1, ← b1, ih]
        | some y =>
          rw [hq] at b1; simp at b1
          simp only [← a1, ← b1, ← c1]
          cases hx : reachFL p cs with
          | none => simp
          | some x' =>
            obtain ⟨e1, w1⟩ := addLen_oval (b2 y hq) hcl
            obtain ⟨e2, _⟩ := addLen_oval (c2 x' hx) w1
            simp [e2, e1]
      | some x' =>
        rw [hp] at a1; simp at a1
        cases hq : reachF q c with
        | some y => rw [hq] at b1; simp at b1; simp [← a1, ← b1, it]
        | none =>
          rw [hq] at b1; simp at b1
          simp only [← a1, ← b1, ← d1]
          cases hy : reachFL q cs with
          | none => simp
          | some y' =>
            obtain ⟨e1, w1⟩ := addLen_oval (a2 x' hp) hcl
            obtain ⟨e2, _⟩ := addLen_oval w1 (d2 y' hy)
            simp [e2, e1]
end

/-! ### every tree the driver parses has well-formed lengths; restriction keeps them well-formed -/
theorem parse_owf (s : String) (a : Frac) (h : Frac.parse s = some a) : a.den ≠ 0 := by
  unfold Frac.parse at h
  split at h
  · rename_i p _
    cases hp : p.toInt? with
    | none => simp [hp] at h
    | some v => simp [hp] at h; subst h; simp [Frac.ofInt]
  · rename_i p q _
    cases hp : p.toInt? with
    | none => simp [hp] at h
    | some v =>
      cases hq : q.toNat? with
      | none => simp [hp, hq] at h
      | some w =>
        simp only [hp, hq] at h
        split at h
        · cases h
        · simp at h; subst h; exact mk'_den _ _
  · cases h

theorem parseOLen_owf (s : String) (l : Option Frac) (h : parseOLen s = some l) : OWF l := by
  unfold parseOLen at h
  split at h
  · simp at h; subst h; trivial
  · cases hp : Frac.parse s with
    | none => simp [hp] at h
    | some a => simp [hp] at h; subst h; exact parse_owf s a hp

theorem mapM_owf : ∀ (ss : List String) (ls : List (Option Frac)), ss.mapM parseOLen = some ls → ∀ l ∈ ls, OWF l
  | [], ls, h => by simp at h; subst h; simp
  | s :: ss, ls, h => by
      simp only [List.mapM_cons] at h
      cases h1 : parseOLen s with
      | none => simp [h1] at h
      | some l =>
        cases h2 : ss.mapM parseOLen with
        | none => simp [h1, h2] at h
        | some ls' =>
          simp [h1, h2] at h; subst h
          intro l' hl'
          rcases List.mem_cons.mp hl' with rfl | hl'
          · exact parseOLen_owf s _ h1
          · exact mapM_owf ss ls' h2 l' hl'

theorem getElem!_owf (ls : List (Option Frac)) (h : ∀ l ∈ ls, OWF l) (i : Nat) : OWF (ls.toArray[i]!) := by
  by_cases hi : i < ls.length
  · have : ls.toArray[i]! = ls[i] := by simp [hi]
    rw [this]; exact h _ (List.getElem_mem hi)
  · have : ls.toArray[i]! = none := by simp [hi]; rfl
    rw [this]; trivial

theorem buildTree_lensWF (par : Array Int) (tax : Array (Option Nat)) (lens : Array (Option Frac)) (labs : Array (Option String))
    (h : ∀ i : Nat, OWF (lens[i]!)) : ∀ (fuel i : Nat), LensWF (buildTree fuel par tax lens labs i)
  | 0, i => by simp [buildTree, LensWF, LensWFL, OWF]
  | f + 1, i => by
      simp only [buildTree, LensWF]
      refine ⟨h i, ?_⟩
      generalize (List.range par.size).filter (fun j => par[j]! == (i : Int)) = kids
      induction kids with
      | nil => simp [LensWFL]
      | cons k ks ih => exact ⟨buildTree_lensWF par tax lens labs h f k, ih⟩

theorem parseTree_lensWF (toks : List String) (t : T) (rest : List String) (h : parseTree toks = some (t, rest)) : LensWF t := by
  unfold parseTree at h
  split at h
  · cases h
  · rename_i n rest0
    split at h
    · cases h
    · rename_i n'
      split at h
      · cases h
      · simp only at h
        split at h
        · rename_i ps xs ls ss hps hxs hls hss
          split at h
          · cases h
          · simp only [Option.some.injEq, Prod.mk.injEq] at h
            rw [← h.1]
            exact buildTree_lensWF _ _ _ _ (getElem!_owf ls (mapM_owf _ ls hls)) _ _
        · cases h

mutual
theorem restrict_lensWF (keep : Acc) (sup : Bool) : ∀ t r : T, LensWF t → restrict keep sup t = some r → LensWF r
  | .node i x l s [], r, hw, h => by
      simp only [restrict] at h
      split at h
      · simp at h; subst h; exact hw
      · cases h
  | .node i x l s (c :: cs), r, hw, h => by
      simp only [LensWF] at hw
      have hl := restrictL_lensWF keep sup (c :: cs) hw.2
      simp only [restrict] at h
      generalize restrictL keep sup (c :: cs) = ks at h hl
      match ks, sup with
      | [], _ => simp at h
      | [k], true =>
        simp at h; subst h
        simp only [LensWFL] at hl
        obtain ⟨j, y, m, u, ds⟩ := k
        simp only [LensWF] at hl
        simp only [T.withLen, T.len, LensWF]
        exact ⟨(addLen_oval hl.1.1 hw.1).2, hl.1.2⟩
      | [k], false => simp at h; subst h; exact ⟨hw.1, hl⟩
      | k1 :: k2 :: ks', _ => simp at h; subst h; exact ⟨hw.1, hl⟩
theorem restrictL_lensWF (keep : Acc) (sup : Bool) : ∀ cs : List T, LensWFL cs → LensWFL (restrictL keep sup cs)
  | [], _ => by simp [restrictL, LensWFL]
  | c :: cs, hw => by
      simp only [LensWFL] at hw
      have h2 := restrictL_lensWF keep sup cs hw.2
      simp only [restrictL]
      cases hc : restrict keep sup c with
      | none => exact h2
      | some r => exact ⟨restrict_lensWF keep sup c r hw.1 hc, h2⟩
end

end Aux
end DendroModel.C08
