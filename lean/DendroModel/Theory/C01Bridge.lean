import DendroModel.Model.C01
import DendroModel.Theory.IsoSame
import DendroModel.Theory.Reseed
import DendroModel.Theory.Unrooted
import DendroModel.Theory.Laminar
import DendroModel.Theory.Lsb
/-! C01 — bridge lemmas between the definitions the driver runs (`encode`, `encodeTree`, `collapseBasal`, `prep`,
`build`, `starOf`) and the shared hierarchy theory (`clades`, `usplits`, `norm`, `ins`).  Everything here is stated
with a normalisation bit `lo` given by hypotheses (non-zero, inside the leafset, a single bit); `Props/C01.lean`
instantiates it with the lowest set bit computed by the regenerated `least_significant_set_bit`. -/
namespace DendroModel.C01.Bridge
open DendroModel DendroModel.Hier

theorem zero_iff (x : Nat) : x = 0 ↔ ∀ i, x.testBit i = false :=
  ⟨fun h i => by simp [h], fun h => Nat.eq_of_testBit_eq (by intro i; simp [h i])⟩

/-! ### bitwise tests as set statements -/

theorem and_xor_zero_iff (a b : Nat) : a &&& (a ^^^ b) = 0 ↔ bits a ⊆ bits b := by
  rw [zero_iff]
  constructor
  · intro h i hi
    have := h i
    have hi' : a.testBit i = true := hi
    simp only [Nat.testBit_and, Nat.testBit_xor, hi'] at this
    show b.testBit i = true
    cases hb : b.testBit i <;> simp_all
  · intro h i
    simp only [Nat.testBit_and, Nat.testBit_xor]
    cases ha : a.testBit i
    · simp
    · have : b.testBit i = true := h (show i ∈ bits a from ha)
      simp [this]

theorem compl_and_zero_iff (f a b : Nat) (hb : bits b ⊆ bits f) : (f ^^^ a) &&& b = 0 ↔ bits b ⊆ bits a := by
  rw [zero_iff]
  constructor
  · intro h i hi
    have := h i
    have hi' : b.testBit i = true := hi
    have hf : f.testBit i = true := hb hi
    simp only [Nat.testBit_and, Nat.testBit_xor, hi', hf] at this
    show a.testBit i = true
    cases ha : a.testBit i <;> simp_all
  · intro h i
    simp only [Nat.testBit_and, Nat.testBit_xor]
    cases hbi : b.testBit i
    · simp
    · have h1 : a.testBit i = true := h (show i ∈ bits b from hbi)
      have h2 : f.testBit i = true := hb (show i ∈ bits b from hbi)
      simp [h1, h2]

theorem compl_and_xor_zero_iff (f a b : Nat) (ha : bits a ⊆ bits f) (hb : bits b ⊆ bits f) :
    (f ^^^ a) &&& (a ^^^ b) = 0 ↔ bits b ⊆ bits a := by
  rw [zero_iff]
  constructor
  · intro h i hi
    have := h i
    have hi' : b.testBit i = true := hi
    have hf : f.testBit i = true := hb hi
    simp only [Nat.testBit_and, Nat.testBit_xor, hi', hf] at this
    show a.testBit i = true
    cases ha' : a.testBit i <;> simp_all
  · intro h i
    simp only [Nat.testBit_and, Nat.testBit_xor]
    cases hai : a.testBit i
    · cases hbi : b.testBit i
      · simp
      · have h1 : a.testBit i = true := h (show i ∈ bits b from hbi)
        simp [hai] at h1
    · have h2 : f.testBit i = true := ha (show i ∈ bits a from hai)
      simp [h2]

theorem and_of_sub {a f : Nat} (h : bits a ⊆ bits f) : f &&& a = a := by
  rw [Nat.and_comm]; exact (and_eq_left_iff a f).mpr h

theorem sub_zero_bits {x : Nat} : bits x = ∅ ↔ x = 0 :=
  ⟨fun h => bits_inj (by rw [h, bits_zero]), fun h => by rw [h, bits_zero]⟩

theorem sdiff_self (L : Nat) : Hier.sdiff L L = 0 := by simp [Hier.sdiff]

theorem sdiff_of_disjoint_or {a b : Nat} (h : a &&& b = 0) : Hier.sdiff (a ||| b) a = b := by
  apply bits_inj
  rw [bits_sdiff, bits_or]
  have hd := (and_eq_zero_iff a b).mp h
  ext x; simp only [Set.mem_sdiff, Set.mem_union]
  constructor
  · rintro ⟨h1 | h1, h2⟩
    · exact absurd h1 h2
    · exact h1
  · intro hx; exact ⟨Or.inr hx, fun ha => (Set.disjoint_left.mp hd) ha hx⟩

/-- the root of a tree normalises to the empty split -/
theorem norm_self (L lo : Nat) (hne : lo ≠ 0) (hlo : bits lo ⊆ bits L) : Hier.norm L lo L = 0 := by
  unfold Hier.norm
  have : L &&& lo ≠ 0 := by rw [Nat.and_comm]; exact sub_inter_ne_zero hne hlo
  simp [this, sdiff_self]

/-- the split masks the encoder emits (root included) are the normalised clades; the root contributes `0` -/
theorem usplits_or_zero (lo : Nat) (t : Hier.T) (h : Hier.norm (mask t) lo (mask t) = 0) (s : Nat) :
    (s = 0 ∨ s ∈ usplits lo t) ↔ ∃ x ∈ clades t, Hier.norm (mask t) lo x = s := by
  cases t with
  | leaf i =>
    simp only [usplits, List.not_mem_nil, or_false, clades, List.mem_singleton, exists_eq_left]
    simp only [mask] at h ⊢
    rw [h]; exact eq_comm
  | node cs =>
    simp only [mask] at h
    simp only [usplits, clades, mask, List.mem_cons, List.mem_map, exists_eq_or_imp, h]
    constructor
    · rintro (h1 | h1)
      · exact Or.inl h1.symm
      · exact Or.inr h1
    · rintro (h1 | h1)
      · exact Or.inl h1.symm
      · exact Or.inr h1

/-! ### tree-level facts about the encoder's side effects -/

theorem withLen_mask (t : T) (l : Option Frac) : (t.withLen l).mask = t.mask := by
  cases t with
  | node i x l' s cs => cases cs <;> simp [T.withLen, T.mask]

theorem withLen_masksPost (t : T) (l : Option Frac) : (t.withLen l).masksPost = t.masksPost := by
  cases t with
  | node i x l' s cs => cases cs <;> simp [T.withLen, T.masksPost, T.mask]

theorem mask_mem_masksPost (t : T) : t.mask ∈ t.masksPost := by
  cases t with
  | node i x l s cs => simp [T.masksPost]

theorem maskL_append (a b : List T) : T.maskL (a ++ b) = T.maskL a ||| T.maskL b := by
  induction a with
  | nil => simp [T.maskL]
  | cons c cs ih => simp [T.maskL, ih, Nat.lor_assoc]

theorem masksPostL_append (a b : List T) : T.masksPostL (a ++ b) = T.masksPostL a ++ T.masksPostL b := by
  induction a with
  | nil => simp [T.masksPostL]
  | cons c cs ih => simp [T.masksPostL, ih]

theorem mask_of_cs {t : T} (h : 1 ≤ t.cs.length) : t.mask = T.maskL t.cs := by
  cases t with
  | node i x l s cs =>
    cases cs with
    | nil => simp [T.cs] at h
    | cons c r => simp [T.mask, T.cs]

theorem masksPost_of_cs (t : T) : t.masksPost = T.masksPostL t.cs ++ [t.mask] := by
  cases t with
  | node i x l s cs => simp [T.masksPost, T.cs]

/-- `collapse_basal_bifurcation` keeps the tree's leafset -/
theorem collapse_mask (t : T) : t.collapseBasal.mask = t.mask := by
  cases t with
  | node i x l s cs =>
    match cs with
    | [] => rfl
    | [_] => rfl
    | _ :: _ :: _ :: _ => rfl
    | [a, b] =>
      simp only [T.collapseBasal]
      split
      · rename_i hb
        have := mask_of_cs (t := b) (by omega)
        simp [T.mask, T.maskL, withLen_mask, this]
      · split
        · rename_i ha
          have := mask_of_cs (t := a) (by omega)
          cases hcs : a.cs ++ [b.withLen (tryAdd b.len a.len)] with
          | nil => simp at hcs
          | cons c r =>
            simp only [T.mask]
            rw [← hcs, maskL_append]
            simp [T.maskL, withLen_mask, this]
        · rfl

theorem mem_masksPost_node (i : Nat) (x : Option Nat) (l : Option Frac) (s : Option String) (cs : List T) (m : Nat) :
    m ∈ (T.node i x l s cs).masksPost ↔ m ∈ T.masksPostL cs ∨ m = (T.node i x l s cs).mask := by
  simp [T.masksPost]

/-- the unrooted collapse removes exactly one leafset mask from the list — that of the deleted basal child, which is the
    complement (within the tree) of its kept sibling, whose own leafset stays in the list: the set of NORMALISED masks
    is unchanged.  `hdis`: the two basal subtrees share no taxon. -/
theorem collapse_norm_image (lo : Nat) (t : T) (hdis : ∀ a b, t.cs = [a, b] → a.mask &&& b.mask = 0)
    (hne : lo ≠ 0) (hlo : bits lo ⊆ bits t.mask)
    (hsingle : ∀ a, bits lo ⊆ bits a ∨ Disjoint (bits lo) (bits a)) (z : Nat) :
    (∃ m ∈ t.collapseBasal.masksPost, Hier.norm t.mask lo m = z) ↔ (∃ m ∈ t.masksPost, Hier.norm t.mask lo m = z) := by
  cases t with
  | node i x l s cs =>
    match cs, hdis with
    | [], _ => exact Iff.rfl
    | [_], _ => exact Iff.rfl
    | _ :: _ :: _ :: _, _ => exact Iff.rfl
    | [a, b], hdis =>
      have hab : a.mask &&& b.mask = 0 := hdis a b rfl
      have hL : (T.node i x l s [a, b]).mask = a.mask ||| b.mask := by simp [T.mask, T.maskL]
      rw [hL] at hlo ⊢
      have key1 : Hier.norm (a.mask ||| b.mask) lo b.mask = Hier.norm (a.mask ||| b.mask) lo a.mask := by
        have := norm_compl (a.mask ||| b.mask) lo a.mask (by rw [bits_or]; exact Set.subset_union_left) hlo hsingle hne
        rwa [sdiff_of_disjoint_or hab] at this
      have hm := collapse_mask (.node i x l s [a, b])
      rw [hL] at hm
      by_cases hb : b.cs.length ≥ 2
      · have e : (T.node i x l s [a, b]).collapseBasal = .node i x l s (a.withLen (tryAdd a.len b.len) :: b.cs) := by
          simp [T.collapseBasal, hb]
        rw [e] at hm ⊢
        have hmem : ∀ m, m ∈ (T.node i x l s [a, b]).masksPost ↔
            m = b.mask ∨ m ∈ (T.node i x l s (a.withLen (tryAdd a.len b.len) :: b.cs)).masksPost := by
          intro m
          rw [mem_masksPost_node, mem_masksPost_node, hm, hL]
          simp only [T.masksPostL, List.mem_append, withLen_masksPost, List.append_nil]
          rw [masksPost_of_cs b]
          simp only [List.mem_append, List.mem_singleton]
          tauto
        constructor
        · rintro ⟨m, hm1, hm2⟩; exact ⟨m, (hmem m).mpr (Or.inr hm1), hm2⟩
        · rintro ⟨m, hm1, hm2⟩
          rcases (hmem m).mp hm1 with rfl | h
          · refine ⟨a.mask, ?_, key1.symm.trans hm2⟩
            rw [mem_masksPost_node]; left
            simp only [T.masksPostL, List.mem_append, withLen_masksPost]
            exact Or.inl (mask_mem_masksPost a)
          · exact ⟨m, h, hm2⟩
      · by_cases ha : a.cs.length ≥ 2
        · have e : (T.node i x l s [a, b]).collapseBasal = .node i x l s (a.cs ++ [b.withLen (tryAdd b.len a.len)]) := by
            simp [T.collapseBasal, hb, ha]
          rw [e] at hm ⊢
          have hmem : ∀ m, m ∈ (T.node i x l s [a, b]).masksPost ↔
              m = a.mask ∨ m ∈ (T.node i x l s (a.cs ++ [b.withLen (tryAdd b.len a.len)])).masksPost := by
            intro m
            rw [mem_masksPost_node, mem_masksPost_node, hm, hL]
            simp only [T.masksPostL, masksPostL_append, List.mem_append, withLen_masksPost, List.append_nil]
            rw [masksPost_of_cs a]
            simp only [List.mem_append, List.mem_singleton]
            tauto
          constructor
          · rintro ⟨m, hm1, hm2⟩; exact ⟨m, (hmem m).mpr (Or.inr hm1), hm2⟩
          · rintro ⟨m, hm1, hm2⟩
            rcases (hmem m).mp hm1 with rfl | h
            · refine ⟨b.mask, ?_, key1.trans hm2⟩
              rw [mem_masksPost_node]; left
              simp only [T.masksPostL, masksPostL_append, List.mem_append, withLen_masksPost, List.append_nil]
              exact Or.inr (mask_mem_masksPost b)
            · exact ⟨m, h, hm2⟩
        · have e : (T.node i x l s [a, b]).collapseBasal = .node i x l s [a, b] := by
            simp [T.collapseBasal, hb, ha]
          rw [e]

mutual
/-- the list of leafset masks is the list of `mask`s of the tree's nodes -/
theorem mem_masksPost_iff : ∀ (t : T) (m : Nat), m ∈ t.masksPost ↔ ∃ n ∈ t.nodes, m = n.mask
  | .node i x l s cs, m => by
    rw [mem_masksPost_node]
    simp only [T.nodes, List.mem_cons, exists_eq_or_imp]
    rw [mem_masksPostL_iff cs m]; exact or_comm
theorem mem_masksPostL_iff : ∀ (cs : List T) (m : Nat), m ∈ T.masksPostL cs ↔ ∃ n ∈ T.nodesL cs, m = n.mask
  | [], m => by simp [T.masksPostL, T.nodesL]
  | c :: cs, m => by
    simp only [T.masksPostL, T.nodesL, List.mem_append, mem_masksPost_iff c m, mem_masksPostL_iff cs m,
      or_and_right, exists_or]
end

/-! ### the star tree `from_split_bitmasks` starts from -/

theorem bits_maskL_leaves (ms : List Nat) : bits (maskL (ms.map Hier.T.leaf)) = {b | b ∈ ms} := by
  induction ms with
  | nil => simp [maskL]
  | cons b r ih =>
    simp only [List.map_cons, maskL, mask, bits_or, bits_shift, ih]
    ext x; simp

theorem goodL_leaves (ms : List Nat) (h : ms.Nodup) : GoodL (ms.map Hier.T.leaf) := by
  induction ms with
  | nil => simp [GoodL]
  | cons b r ih =>
    rw [List.nodup_cons] at h
    simp only [List.map_cons, GoodL, Good, mask, true_and]
    refine ⟨shift_ne_zero b, ?_, ih h.2⟩
    rw [and_eq_zero_iff, bits_shift, bits_maskL_leaves]
    simpa using h.1

theorem cladesL_leaves (ms : List Nat) (x : Nat) : x ∈ cladesL (ms.map Hier.T.leaf) ↔ ∃ b ∈ ms, x = 1 <<< b := by
  induction ms with
  | nil => simp [cladesL]
  | cons b r ih => simp [cladesL, clades, ih]

theorem starOf_mask (ms : List Nat) : mask (starOf ms) = maskL (ms.map Hier.T.leaf) := by
  unfold starOf; split <;> simp [mask, maskL]

theorem starOf_good (ms : List Nat) (h : ms.Nodup) : Good (starOf ms) := by
  unfold starOf; split
  · simp [Good]
  · simp only [Good]; exact goodL_leaves ms h

theorem starOf_clades (ms : List Nat) (x : Nat) :
    x ∈ clades (starOf ms) ↔ x = maskL (ms.map Hier.T.leaf) ∨ ∃ b ∈ ms, x = 1 <<< b := by
  unfold starOf; split
  · simp [clades, maskL, mask]
  · simp only [clades, List.mem_cons, cladesL_leaves]

/-- every split inside the star's leafset is compatible with the star -/
theorem compat_star (ms : List Nat) (S : Nat) (hS : bits S ⊆ bits (maskL (ms.map Hier.T.leaf))) :
    Compat S (clades (starOf ms)) := by
  intro C hC
  rcases (starOf_clades ms C).mp hC with rfl | ⟨b, _, rfl⟩
  · right; right; rw [Nat.and_comm]; exact (and_eq_left_iff _ _).mpr hS
  · by_cases hb : b ∈ bits S
    · right; left; exact (and_eq_left_iff _ _).mpr (by rw [bits_shift]; simpa using hb)
    · left; exact (and_eq_zero_iff _ _).mpr (by rw [bits_shift]; simpa using hb)

mutual
/-- every taxon of a tree's leafset is a (singleton) clade of the tree -/
theorem single_mem_clades : ∀ (h : Hier.T) (i : Nat), i ∈ bits (mask h) → 1 <<< i ∈ clades h
  | .leaf j, i, hi => by
    simp only [mask, bits_shift, Set.mem_singleton_iff] at hi; subst hi; simp [clades]
  | .node cs, i, hi => by
    simp only [clades, List.mem_cons]; right
    exact single_mem_cladesL cs i (by simpa [mask] using hi)
theorem single_mem_cladesL : ∀ (cs : List Hier.T) (i : Nat), i ∈ bits (maskL cs) → 1 <<< i ∈ cladesL cs
  | [], i, hi => by simp [maskL] at hi
  | c :: cs, i, hi => by
    simp only [maskL, bits_or, Set.mem_union] at hi
    simp only [cladesL, List.mem_append]
    rcases hi with h | h
    · exact Or.inl (single_mem_clades c i h)
    · exact Or.inr (single_mem_cladesL cs i h)
end

/-- the head filter of `from_split_bitmasks`, rooted, on a mask inside the namespace -/
theorem prep_rooted_of_sub (all s : Nat) (h : bits s ⊆ bits all) :
    prep all true s = if s ≠ all ∧ (s - 1) &&& s ≠ 0 then some s else none := by
  have e : s &&& all = s := (and_eq_left_iff s all).mpr h
  unfold prep
  simp only [e]
  by_cases h1 : s = all
  · simp [h1]
  · by_cases h2 : (s - 1) &&& s = 0
    · simp [h1, h2]
    · simp [h1, h2]

/-! ### the greedy insertion never creates a unifurcation -/

theorem insL_length (S : Nat) : ∀ cs : List Hier.T, (insL S cs).length = cs.length
  | [] => rfl
  | c :: cs => by
    simp only [insL]; split
    · simp
    · simp [insL_length S cs]

theorem noUnifL_filter (p : Hier.T → Bool) : ∀ cs : List Hier.T, NoUnifL cs → NoUnifL (cs.filter p)
  | [], _ => by simp [NoUnifL]
  | c :: cs, h => by
    simp only [NoUnifL] at h
    by_cases hp : p c = true
    · simp only [List.filter, hp, NoUnifL]; exact ⟨h.1, noUnifL_filter p cs h.2⟩
    · simp only [List.filter, hp]; exact noUnifL_filter p cs h.2

theorem noUnifL_append : ∀ (a b : List Hier.T), NoUnifL a → NoUnifL b → NoUnifL (a ++ b)
  | [], b, _, hb => by simpa using hb
  | c :: a, b, ha, hb => by
    simp only [NoUnifL] at ha
    simp only [List.cons_append, NoUnifL]; exact ⟨ha.1, noUnifL_append a b ha.2 hb⟩

mutual
/-- the greedy insertion never creates a unifurcation -/
theorem ins_noUnif (S : Nat) : ∀ t : Hier.T, NoUnif t → NoUnif (ins S t)
  | .leaf i, h => by simpa [ins] using h
  | .node cs, h => by
    simp only [NoUnif] at h
    simp only [ins]
    split
    · simp only [NoUnif, insL_length]; exact ⟨h.1, insL_noUnif S cs h.2⟩
    · rename_i hany
      split
      · simpa [NoUnif] using h
      · rename_i hroot
        split
        · rename_i hinn
          have hany' : ∀ c ∈ cs, S &&& mask c ≠ S := by
            intro c hc he; apply hany
            simp only [List.any_eq_true, beq_iff_eq]; exact ⟨c, hc, he⟩
          have hinnS : maskL (cs.filter (fun c => mask c &&& S != 0)) = S := by simpa using hinn
          have hin2 : 2 ≤ (cs.filter (fun c => mask c &&& S != 0)).length := by
            match hf : cs.filter (fun c => mask c &&& S != 0) with
            | [] =>
              exfalso
              rw [hf] at hinnS; simp only [maskL] at hinnS
              match cs, h.1 with
              | c :: _, _ => exact hany' c (by simp) (by rw [← hinnS]; simp)
            | [c] =>
              exfalso
              rw [hf] at hinnS; simp only [maskL, Nat.or_zero] at hinnS
              have hc : c ∈ cs := (List.mem_filter.mp (by rw [hf]; simp)).1
              exact hany' c hc (by rw [hinnS, Nat.and_self])
            | _ :: _ :: _ => simp
          have hout : (cs.filter (fun c => mask c &&& S == 0)) ≠ [] := by
            intro he
            apply hroot
            have hall : ∀ c ∈ cs, (mask c &&& S != 0) = true := by
              intro c hc
              have := (List.filter_eq_nil_iff.mp he) c hc
              simpa using this
            have : cs.filter (fun c => mask c &&& S != 0) = cs := List.filter_eq_self.mpr hall
            rw [this] at hinnS
            simp [hinnS]
          simp only [NoUnif]
          refine ⟨?_, noUnifL_append _ _ (noUnifL_filter _ cs h.2) ?_⟩
          · rw [List.length_append]
            have : 1 ≤ (cs.filter (fun c => mask c &&& S == 0)).length := by
              cases hq : cs.filter (fun c => mask c &&& S == 0) with
              | nil => exact absurd hq hout
              | cons _ _ => simp
            simp; omega
          · simp only [NoUnifL, NoUnif, and_true]; exact ⟨hin2, noUnifL_filter _ cs h.2⟩
        · simpa [NoUnif] using h
theorem insL_noUnif (S : Nat) : ∀ cs : List Hier.T, NoUnifL cs → NoUnifL (insL S cs)
  | [], h => by simpa [insL] using h
  | c :: cs, h => by
    simp only [NoUnifL] at h
    simp only [insL]; split
    · simp only [NoUnifL]; exact ⟨ins_noUnif S c h.1, h.2⟩
    · simp only [NoUnifL]; exact ⟨h.1, insL_noUnif S cs h.2⟩
end

theorem starOf_noUnif (ms : List Nat) (h : ms ≠ []) : NoUnif (starOf ms) := by
  unfold starOf
  split
  · simp [NoUnif]
  · rename_i hne
    simp only [NoUnif, List.length_map]
    refine ⟨?_, ?_⟩
    · match ms, h, hne with
      | [b], _, hne => exact absurd rfl (hne b)
      | _ :: _ :: _, _, _ => simp
    · clear hne h
      induction ms with
      | nil => simp [NoUnifL]
      | cons b r ih => simp [NoUnifL, NoUnif, ih]

theorem build_noUnif (all : Nat) (ms : List Nat) (rooted : Bool) (ss : List Nat) (h : ms ≠ []) :
    NoUnif (build all ms rooted ss) := by
  unfold build
  generalize ss.filterMap (prep all rooted) = fs
  have : ∀ (fs : List Nat) (t : Hier.T), NoUnif t → NoUnif (fs.foldl addSplit t) := by
    intro fs
    induction fs with
    | nil => intro t ht; simpa using ht
    | cons s r ih =>
      intro t ht
      simp only [List.foldl_cons]
      apply ih
      unfold addSplit
      split
      · exact ht
      · exact ins_noUnif s t ht
  exact this fs _ (starOf_noUnif ms h)

mutual
theorem sup_of_noUnif : ∀ t : Hier.T, NoUnif t → Hier.sup t = t
  | .leaf i, _ => rfl
  | .node cs, h => by
    simp only [NoUnif] at h
    simp only [Hier.sup, supL_of_noUnif cs h.2]
    match cs, h.1 with
    | _ :: _ :: _, _ => rfl
theorem supL_of_noUnif : ∀ cs : List Hier.T, NoUnifL cs → Hier.supL cs = cs
  | [], _ => rfl
  | c :: cs, h => by
    simp only [NoUnifL] at h
    simp [Hier.supL, sup_of_noUnif c h.1, supL_of_noUnif cs h.2]
end

end DendroModel.C01.Bridge
