import DendroModel.Theory.C16Cols
/-! C16 theory, part 5: polytomies.  On a node with more than two children the code folds the children left to right; that is
Fitch on the ladder resolution `(((c0, c1), c2), …, ck)`.  `toBV` reads any tree without unary nodes whose leaves have rows as the
binary tree of rows obtained by resolving every polytomy into its ladder. -/
namespace DendroModel.C16

def ladder : BV → List BV → BV
  | b, [] => b
  | b, x :: xs => ladder (.node b x) xs

mutual
def toBV (m : Matrix) : T → Option BV
  | .node _ x _ _ cs =>
    match toBVL m cs with
    | none => none
    | some [] => (lookupRow m x).map Bt.leaf
    | some [_] => none
    | some (b0 :: b1 :: bs) => some (ladder (.node b0 b1) bs)
def toBVL (m : Matrix) : List T → Option (List BV)
  | [] => some []
  | c :: cs =>
    match toBV m c, toBVL m cs with
    | some b, some bs => some (b :: bs)
    | _, _ => none
end

/-- sum of the Fitch counts of character `c` over a list of subtrees -/
def sumF (c : Nat) : List BV → Nat
  | [] => 0
  | b :: bs => (fitch (col c b)).2 + sumF c bs

def RowsOk (n : Nat) : List Row → List BV → Prop
  | [], [] => True
  | r :: rs, b :: bs => (r.length = n ∧ ∀ c, c < n → r.getD c 0 = (fitch (col c b)).1) ∧ RowsOk n rs bs
  | _, _ => False

def SpecTL (m : Matrix) (ws : List Nat) (n : Nat) (cs : List T) (bvs : List BV) : Prop :=
  ∀ (sc : Nat) (bc : List Nat), bc.length = n → ∃ rows sc' bc',
    accTL m ws cs sc bc = .ok (rows, sc', bc') ∧ bc'.length = n ∧ sc' + sumL bc = sc + sumL bc' ∧ RowsOk n rows bvs ∧
    ∀ c, c < n → bc'.getD c 0 = bc.getD c 0 + ws.getD c 0 * sumF c bvs

/-- rows of one length without empty sets -/
abbrev GoodRows (n : Nat) (bv : BV) : Prop := bv.All (fun row => row.length = n ∧ ∀ s, s ∈ row → s ≠ 0)

namespace Aux

theorem toBVL_length (m : Matrix) : ∀ (cs : List T) (bvs : List BV), toBVL m cs = some bvs → bvs.length = cs.length
  | [], bvs, h => by simp [toBVL] at h; simp [← h]
  | c :: cs, bvs, h => by
    simp only [toBVL] at h
    cases h1 : toBV m c with
    | none => simp [h1] at h
    | some b =>
      cases h2 : toBVL m cs with
      | none => simp [h1, h2] at h
      | some bs =>
        simp only [h1, h2, Option.some.injEq] at h
        subst h
        simp [toBVL_length m cs bs h2]

theorem ladder_all {p : Row → Prop} : ∀ (bs : List BV) (b : BV), b.All p → (∀ x, x ∈ bs → x.All p) → (ladder b bs).All p
  | [], b, hb, _ => by simpa [ladder] using hb
  | x :: xs, b, hb, hx => by
    simp only [ladder]
    exact ladder_all xs (.node b x) ⟨hb, hx x (List.mem_cons_self)⟩ (fun y hy => hx y (List.mem_cons_of_mem _ hy))

theorem foldRows_spec {ws : List Nat} {n : Nat} (hws : n ≤ ws.length) : ∀ (rs : List Row) (bvs : List BV) (L : Row) (B : BV)
    (sc : Nat) (bc : List Nat), RowsOk n rs bvs → L.length = n → (∀ c, c < n → L.getD c 0 = (fitch (col c B)).1) →
    bc.length = n → ∃ row sc' bc',
      foldRows ws L rs sc bc = .ok (row, sc', bc') ∧ row.length = n ∧ bc'.length = n ∧ sc' + sumL bc = sc + sumL bc' ∧
      ∀ c, c < n → row.getD c 0 = (fitch (col c (ladder B bvs))).1 ∧
        bc'.getD c 0 + ws.getD c 0 * ((fitch (col c B)).2 + sumF c bvs) =
          bc.getD c 0 + ws.getD c 0 * (fitch (col c (ladder B bvs))).2
  | [], [], L, B, sc, bc, _, hL, hLc, hbc => by
    refine ⟨L, sc, bc, by simp [foldRows], hL, hbc, rfl, ?_⟩
    intro c hc
    exact ⟨by simpa [ladder] using hLc c hc, by simp [ladder, sumF]⟩
  | r :: rs, b :: bvs, L, B, sc, bc, hok, hL, hLc, hbc => by
    simp only [RowsOk] at hok
    obtain ⟨⟨hr, hrc⟩, hrest⟩ := hok
    obtain ⟨p1, p2, p3⟩ := pairLoop_spec n ws L r hws hL hr
    obtain ⟨a1, a2, a3⟩ := addL_spec n bc (pairLoop ws L r).2 hbc p2
    have hL' : ∀ c, c < n → (pairLoop ws L r).1.getD c 0 = (fitch (col c (.node B b))).1 := by
      intro c hc
      simp only [col, Bt.map, fitch]
      rw [(p3 c hc).1, hLc c hc, hrc c hc]
      rfl
    obtain ⟨row, sc', bc', e, l1, l2, l3, l4⟩ := foldRows_spec hws rs bvs (pairLoop ws L r).1 (.node B b)
      (sc + sumL (pairLoop ws L r).2) (addL bc (pairLoop ws L r).2) hrest p1 hL' a1
    refine ⟨row, sc', bc', ?_, l1, l2, ?_, ?_⟩
    · simp only [foldRows, shortHit_false n ws L r hws hL hr]
      simpa using e
    · rw [a2] at l3; omega
    · intro c hc
      have ⟨h1, h2⟩ := l4 c hc
      refine ⟨by simpa [ladder] using h1, ?_⟩
      have hinc := (p3 c hc).2
      rw [hLc c hc, hrc c hc] at hinc
      have hbcc := a3 c hc
      simp only [ladder, sumF]
      have hf : (fitch (col c (.node B b))).2 =
          (fitch (col c B)).2 + (fitch (col c b)).2 + (comb (fitch (col c B)).1 (fitch (col c b)).1).2 := by
        simp only [col, Bt.map, fitch]
      rw [hf, hbcc, hinc] at h2
      simp only [Nat.mul_add] at h2 ⊢
      omega
  | [], _ :: _, _, _, _, _, h, _, _, _ => by simp [RowsOk] at h
  | _ :: _, [], _, _, _, _, h, _, _, _ => by simp [RowsOk] at h

/-- what is shown about one (sub)tree read as a binary tree of rows -/
def GoodBV (m : Matrix) (ws : List Nat) (n : Nat) (t : T) (bv : BV) : Prop :=
  SpecT m ws n t bv ∧ GoodRows n bv ∧ m ≠ []

def GoodBVL (m : Matrix) (ws : List Nat) (n : Nat) (cs : List T) (bvs : List BV) : Prop :=
  SpecTL m ws n cs bvs ∧ (∀ b, b ∈ bvs → GoodRows n b) ∧ (cs ≠ [] → m ≠ [])

mutual
/-- **polytomies**: any tree that `toBV` can read (no unary node, every leaf has a row) behaves, character by character, as
    Fitch on its ladder resolution -/
theorem good_T {m : Matrix} {ws : List Nat} {n : Nat} (hws : n ≤ ws.length)
    (hm : ∀ k row, getAttr m k = some row → row.length = n ∧ ∀ s, s ∈ row → s ≠ 0) :
    ∀ (t : T) (bv : BV), toBV m t = some bv → GoodBV m ws n t bv
  | .node i x l s cs, bv, h => by
    simp only [toBV] at h
    cases hl : toBVL m cs with
    | none => simp [hl] at h
    | some bvs =>
      have ih := good_TL hws hm cs bvs hl
      have hlen := toBVL_length m cs bvs hl
      rw [hl] at h
      match bvs, h, ih, hlen with
      | [], h, ih, hlen =>
        have hcs : cs = [] := List.eq_nil_of_length_eq_zero (by simpa using hlen.symm)
        subst hcs
        simp only [Option.map_eq_some_iff] at h
        obtain ⟨row, hrow, hbv⟩ := h
        subst hbv
        cases x with
        | none => simp [lookupRow] at hrow
        | some k =>
          have hk := hm k row (by simpa [lookupRow] using hrow)
          refine ⟨?_, hk, ?_⟩
          · intro sc bc hbc
            refine ⟨row, sc, bc, by simp [accT, accTL, nodeStep, hrow], hk.1, hbc, rfl, ?_⟩
            intro c _
            simp [col, Bt.map, fitch]
          · intro hm0
            rw [hm0] at hrow
            simp [lookupRow, getAttr] at hrow
      | [_], h, _, _ => simp at h
      | b0 :: b1 :: bs, h, ih, hlen =>
        simp only [Option.some.injEq] at h
        subst h
        obtain ⟨hspec, hall, hne⟩ := ih
        refine ⟨?_, ?_, ?_⟩
        · intro sc bc hbc
          obtain ⟨rows, scL, bcL, eL, lL, sL, hok, pL⟩ := hspec sc bc hbc
          match rows, hok, eL with
          | r0 :: r1 :: rs, hok, eL =>
            simp only [RowsOk] at hok
            obtain ⟨⟨hr0, hr0c⟩, hrest⟩ := hok
            obtain ⟨row, sc', bc', e, l1, l2, l3, l4⟩ := foldRows_spec hws (r1 :: rs) (b1 :: bs) r0 b0 scL bcL
              (by simp only [RowsOk]; exact hrest) hr0 hr0c lL
            refine ⟨row, sc', bc', ?_, l1, l2, by omega, ?_⟩
            · simp only [accT, eL, nodeStep]
              exact e
            · intro c hc
              have ⟨h1, h2⟩ := l4 c hc
              have h3 := pL c hc
              refine ⟨by simpa [ladder] using h1, ?_⟩
              simp only [ladder, sumF] at h1 h2 h3 ⊢
              simp only [Nat.mul_add] at h2 h3
              omega
          | [], hok, _ => simp [RowsOk] at hok
          | [_], hok, _ => simp [RowsOk] at hok
        · exact ladder_all bs (.node b0 b1)
            ⟨hall b0 (by simp), hall b1 (by simp)⟩ (fun y hy => hall y (by simp [hy]))
        · apply hne
          intro hcs
          subst hcs
          simp at hlen
theorem good_TL {m : Matrix} {ws : List Nat} {n : Nat} (hws : n ≤ ws.length)
    (hm : ∀ k row, getAttr m k = some row → row.length = n ∧ ∀ s, s ∈ row → s ≠ 0) :
    ∀ (cs : List T) (bvs : List BV), toBVL m cs = some bvs → GoodBVL m ws n cs bvs
  | [], bvs, h => by
    simp only [toBVL, Option.some.injEq] at h
    subst h
    refine ⟨?_, by simp, by simp⟩
    intro sc bc hbc
    exact ⟨[], sc, bc, by simp [accTL], hbc, rfl, by simp [RowsOk], by simp [sumF]⟩
  | c :: cs, bvs, h => by
    simp only [toBVL] at h
    cases h1 : toBV m c with
    | none => simp [h1] at h
    | some b =>
      cases h2 : toBVL m cs with
      | none => simp [h1, h2] at h
      | some bs =>
        simp only [h1, h2, Option.some.injEq] at h
        subst h
        obtain ⟨sc1, all1, ne1⟩ := good_T hws hm c b h1
        obtain ⟨scs, alls, _⟩ := good_TL hws hm cs bs h2
        refine ⟨?_, ?_, fun _ => ne1⟩
        · intro sc bc hbc
          obtain ⟨r, s1, b1, e1, lr, lb1, hs1, p1⟩ := sc1 sc bc hbc
          obtain ⟨rs, s2, b2, e2, lb2, hs2, hok2, p2⟩ := scs s1 b1 lb1
          refine ⟨r :: rs, s2, b2, by simp [accTL, e1, e2], lb2, by omega, ?_, ?_⟩
          · simp only [RowsOk]
            exact ⟨⟨lr, fun c hc => (p1 c hc).1⟩, hok2⟩
          · intro k hk
            rw [p2 k hk, (p1 k hk).2]
            simp only [sumF, Nat.mul_add]
            omega
        · intro y hy
          rcases List.mem_cons.mp hy with rfl | hy'
          · exact all1
          · exact alls y hy'
end

end Aux
end DendroModel.C16
