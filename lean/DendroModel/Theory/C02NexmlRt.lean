import DendroModel.Theory.C02Nexml
/-! NeXML: the reader's tree construction (`nxBuild`) on the node / edge elements the writer model emits -/
namespace DendroModel.C02
namespace Aux

abbrev IN (t : NT) (n : Nat) : IT := (number t n).1
abbrev INL (cs : List NT) (n : Nat) : List IT := (numberL cs n).1

theorem IN_node (tx lb ln : Option Str) (cs : List NT) (n : Nat) :
    IN (.node tx lb ln cs) n = .node n tx lb ln (INL cs (n + 1)) := by simp [IN, INL, number]
theorem INL_nil (n : Nat) : INL [] n = [] := by simp [INL, numberL]
theorem INL_cons (c : NT) (cs : List NT) (n : Nat) : INL (c :: cs) n = IN c n :: INL cs (n + sizeNT c) := by
  simp [INL, IN, numberL, number_next]

mutual
/-- every `node` element of a subtree numbered from `n` has its id in `[n, n + size)` -/
theorem node_ids (f : Str → Option Nat) (r : Option Nat) : ∀ (t : NT) (n : Nat) (x : XNode),
    x ∈ itNodes f r (IN t n) → n ≤ x.id ∧ x.id < n + sizeNT t
  | .node tx lb ln cs, n, x, h => by
    rw [IN_node, itNodes] at h
    rcases List.mem_cons.mp h with rfl | h
    · simp only [sizeNT]; omega
    · have := node_idsL f r cs (n + 1) x h
      simp only [sizeNT]; omega
theorem node_idsL (f : Str → Option Nat) (r : Option Nat) : ∀ (cs : List NT) (n : Nat) (x : XNode),
    x ∈ itNodesL f r (INL cs n) → n ≤ x.id ∧ x.id < n + sizeNTL cs
  | [], n, x, h => by simp [INL_nil, itNodesL] at h
  | c :: cs, n, x, h => by
    rw [INL_cons, itNodesL] at h
    rcases List.mem_append.mp h with h | h
    · have := node_ids f r c n x h
      simp only [sizeNTL]; omega
    · have := node_idsL f r cs (n + sizeNT c) x h
      simp only [sizeNTL]; omega
end

mutual
/-- sources of the edge elements of a subtree: the parent handed in, or an id of the subtree -/
theorem edge_src (sz : Nat) : ∀ (t : NT) (n : Nat) (p : Option Nat) (e : XEdge),
    e ∈ itEdges sz p (IN t n) → e.source = p ∨ ∃ j, e.source = some j ∧ n ≤ j ∧ j < n + sizeNT t
  | .node tx lb ln cs, n, p, e, h => by
    rw [IN_node, itEdges] at h
    rcases List.mem_cons.mp h with rfl | h
    · exact Or.inl rfl
    · rcases edge_srcL sz cs (n + 1) (some n) e h with h | ⟨j, hj, h1, h2⟩
      · exact Or.inr ⟨n, h, by omega, by simp only [sizeNT]; omega⟩
      · exact Or.inr ⟨j, hj, by omega, by simp only [sizeNT]; omega⟩
theorem edge_srcL (sz : Nat) : ∀ (cs : List NT) (n : Nat) (p : Option Nat) (e : XEdge),
    e ∈ itEdgesL sz p (INL cs n) → e.source = p ∨ ∃ j, e.source = some j ∧ n ≤ j ∧ j < n + sizeNTL cs
  | [], n, p, e, h => by simp [INL_nil, itEdgesL] at h
  | c :: cs, n, p, e, h => by
    rw [INL_cons, itEdgesL] at h
    rcases List.mem_append.mp h with h | h
    · rcases edge_src sz c n p e h with h | ⟨j, hj, h1, h2⟩
      · exact Or.inl h
      · exact Or.inr ⟨j, hj, h1, by simp only [sizeNTL]; omega⟩
    · rcases edge_srcL sz cs (n + sizeNT c) p e h with h | ⟨j, hj, h1, h2⟩
      · exact Or.inl h
      · exact Or.inr ⟨j, hj, by omega, by simp only [sizeNTL]; omega⟩
end

theorem filter_nil_of {l : List XEdge} {k : Nat} (h : ∀ e ∈ l, e.source ≠ some k) : kidsOf l k = [] := by
  unfold kidsOf
  rw [List.filter_eq_nil_iff]
  intro e he
  simpa using h e he

/-- no edge of a subtree has the source `k` when `k` is neither the parent handed in nor an id of the subtree -/
theorem kids_none (sz : Nat) (cs : List NT) (n : Nat) (p : Option Nat) (k : Nat) (hp : p ≠ some k)
    (hk : k < n ∨ n + sizeNTL cs ≤ k) : kidsOf (itEdgesL sz p (INL cs n)) k = [] := by
  apply filter_nil_of
  intro e he
  rcases edge_srcL sz cs n p e he with h | ⟨j, hj, h1, h2⟩
  · rw [h]; exact hp
  · rw [hj]; intro h; cases h; omega

def lenNT : NT → Option Str
  | .node _ _ ln _ => ln

/-- the edges into the children `cs` of node `k`, the first child numbered `n` -/
def tops (sz k : Nat) : List NT → Nat → List XEdge
  | [], _ => []
  | c :: cs, n => ⟨n + sz, some k, n, lenNT c⟩ :: tops sz k cs (n + sizeNT c)

theorem kidsOf_append (a b : List XEdge) (k : Nat) : kidsOf (a ++ b) k = kidsOf a k ++ kidsOf b k := by
  simp [kidsOf]

/-- the edges whose source is `k`, among the edges of `k`'s children: one per child, in order -/
theorem kids_tops (sz k : Nat) : ∀ (cs : List NT) (n : Nat), k < n → kidsOf (itEdgesL sz (some k) (INL cs n)) k = tops sz k cs n
  | [], n, _ => by simp [INL_nil, itEdgesL, kidsOf, tops]
  | .node tx lb ln cs' :: cs, n, h => by
    rw [INL_cons, itEdgesL, kidsOf_append, IN_node, itEdges]
    have h0 := kids_none sz cs' (n + 1) (some n) k (by intro e; cases e; omega) (Or.inl (by omega))
    have ih := kids_tops sz k cs (n + sizeNT (.node tx lb ln cs')) (by omega)
    rw [ih]
    have : kidsOf (⟨n + sz, some k, n, ln⟩ :: itEdgesL sz (some n) (INL cs' (n + 1))) k =
        ⟨n + sz, some k, n, ln⟩ :: kidsOf (itEdgesL sz (some n) (INL cs' (n + 1))) k := by
      simp [kidsOf]
    rw [this, h0]
    simp [tops, lenNT]

mutual
def txs : NT → List Str
  | .node tx _ _ cs => (match tx with | some s => [s] | none => []) ++ txsL cs
def txsL : List NT → List Str
  | [] => []
  | c :: cs => txs c ++ txsL cs
end

mutual
/-- what the reader builds for a written tree hanging on an edge of length `ln`: empty labels are not written -/
def normNT : NT → Option Str → NT
  | .node tx lb _ cs, ln => .node tx (truthy lb) ln (normNTL cs)
def normNTL : List NT → List NT
  | [] => []
  | c :: cs => normNT c (lenNT c) :: normNTL cs
end

theorem find_skip (N1 : List XNode) (x : XNode) (N2 : List XNode) (k : Nat) (h1 : ∀ y ∈ N1, y.id ≠ k) (hx : x.id = k) :
    (N1 ++ x :: N2).find? (fun y => y.id == k) = some x := by
  induction N1 with
  | nil => simp [List.find?, hx]
  | cons a as ih =>
    have : (a.id == k) = false := by simpa using h1 a (by simp)
    simp only [List.cons_append, List.find?, this]
    exact ih (fun y hy => h1 y (by simp [hy]))

/-- the taxon label `l` has an otu id that the reader's `otu id ↦ label` map sends back to `l` -/
def Resolves (f : Str → Option Nat) (otus : List (Nat × Str)) (l : Str) : Prop :=
  ∃ o, f l = some o ∧ otus.find? (fun p => p.1 == o) = some (o, l)

/-- the edges below the top edge of a subtree -/
def kidEdges (sz : Nat) : NT → Nat → List XEdge
  | .node _ _ _ cs, n => itEdgesL sz (some n) (INL cs (n + 1))

theorem itEdges_IN (sz : Nat) (p : Option Nat) (t : NT) (n : Nat) :
    itEdges sz p (IN t n) = ⟨n + sz, p, n, lenNT t⟩ :: kidEdges sz t n := by
  cases t with
  | node tx lb ln cs => rw [IN_node, itEdges]; rfl

theorem kidEdges_src (sz : Nat) (t : NT) (n : Nat) (e : XEdge) (h : e ∈ kidEdges sz t n) :
    ∃ j, e.source = some j ∧ n ≤ j ∧ j < n + sizeNT t := by
  cases t with
  | node tx lb ln cs =>
    rcases edge_srcL sz cs (n + 1) (some n) e h with h | ⟨j, hj, h1, h2⟩
    · exact ⟨n, h, by omega, by simp only [sizeNT]; omega⟩
    · exact ⟨j, hj, by omega, by simp only [sizeNT]; omega⟩

mutual
theorem build_tree (f : Str → Option Nat) (r : Option Nat) (otus : List (Nat × Str)) (sz : Nat) :
    ∀ (t : NT) (n : Nat) (N1 N2 : List XNode) (E1 E2 : List XEdge) (ln : Option Str) (fuel : Nat),
    (∀ y ∈ N1, y.id < n ∨ n + sizeNT t ≤ y.id) →
    (∀ e ∈ E1 ++ E2, ∀ j, e.source = some j → j < n ∨ n + sizeNT t ≤ j) →
    (∀ l ∈ txs t, Resolves f otus l) → sizeNT t ≤ fuel →
    nxBuild (N1 ++ (itNodes f r (IN t n) ++ N2)) otus (E1 ++ (kidEdges sz t n ++ E2)) fuel n ln = some (normNT t ln)
  | .node tx lb l0 cs, n, N1, N2, E1, E2, ln, fuel, hN, hE, hT, hF => by
    obtain ⟨g, rfl⟩ : ∃ g, fuel = g + 1 := ⟨fuel - 1, by simp only [sizeNT] at hF; omega⟩
    have hfind : (N1 ++ (itNodes f r (IN (.node tx lb l0 cs) n) ++ N2)).find? (fun y => y.id == n) =
        some ⟨n, truthy lb, tx.bind f, r == some n⟩ := by
      rw [IN_node, itNodes]
      exact find_skip N1 _ _ n (fun y hy => by have := hN y hy; simp only [sizeNT] at this; omega) rfl
    have hotu : (match tx.bind f with
        | none => some none
        | some o => (otus.find? (fun p => p.1 == o)).map (fun p => some p.2)) = some tx := by
      cases tx with
      | none => rfl
      | some l =>
        obtain ⟨o, h1, h2⟩ := hT l (by simp [txs])
        simp [h1, h2]
    have hkids : kidsOf (E1 ++ (kidEdges sz (.node tx lb l0 cs) n ++ E2)) n = tops sz n cs (n + 1) := by
      rw [kidsOf_append, kidsOf_append]
      have h1 : kidsOf E1 n = [] := filter_nil_of (fun e he h => by
        have := hE e (by simp [he]) n h; simp only [sizeNT] at this; omega)
      have h2 : kidsOf E2 n = [] := filter_nil_of (fun e he h => by
        have := hE e (by simp [he]) n h; simp only [sizeNT] at this; omega)
      rw [h1, h2]
      simp only [kidEdges, List.nil_append, List.append_nil]
      exact kids_tops sz n cs (n + 1) (by omega)
    have hL := build_list f r otus sz cs (n + 1) n (N1 ++ [⟨n, truthy lb, tx.bind f, r == some n⟩]) N2 E1 E2 g (by omega)
      (fun y hy => by
        rcases List.mem_append.mp hy with hy | hy
        · have := hN y hy; simp only [sizeNT] at this; omega
        · simp only [List.mem_singleton] at hy; subst hy; simp)
      (fun e he j hj => by have := hE e he j hj; simp only [sizeNT] at this; omega)
      (fun l hl => hT l (by simp [txs, hl])) (by simp only [sizeNT] at hF; omega)
    have eN : N1 ++ (itNodes f r (IN (.node tx lb l0 cs) n) ++ N2) =
        (N1 ++ [⟨n, truthy lb, tx.bind f, r == some n⟩]) ++ (itNodesL f r (INL cs (n + 1)) ++ N2) := by
      rw [IN_node, itNodes]; simp
    rw [nxBuild, hfind]
    simp only [hotu, hkids]
    rw [eN]
    have eE : kidEdges sz (.node tx lb l0 cs) n = itEdgesL sz (some n) (INL cs (n + 1)) := rfl
    rw [eE, hL]
    cases tx with
    | none => simp [normNT]
    | some l =>
      obtain ⟨o, h1, h2⟩ := hT l (by simp [txs])
      simp [h1, h2, normNT]
theorem build_list (f : Str → Option Nat) (r : Option Nat) (otus : List (Nat × Str)) (sz : Nat) :
    ∀ (cs : List NT) (n k : Nat) (N1 N2 : List XNode) (E1 E2 : List XEdge) (fuel : Nat), k < n →
    (∀ y ∈ N1, y.id < n ∨ n + sizeNTL cs ≤ y.id) →
    (∀ e ∈ E1 ++ E2, ∀ j, e.source = some j → j < n ∨ n + sizeNTL cs ≤ j) →
    (∀ l ∈ txsL cs, Resolves f otus l) → sizeNTL cs ≤ fuel →
    nxBuildL (N1 ++ (itNodesL f r (INL cs n) ++ N2)) otus (E1 ++ (itEdgesL sz (some k) (INL cs n) ++ E2)) fuel (tops sz k cs n) =
      some (normNTL cs)
  | [], n, k, N1, N2, E1, E2, fuel, _, _, _, _, _ => by simp [tops, nxBuildL, normNTL]
  | c :: cs, n, k, N1, N2, E1, E2, fuel, hk, hN, hE, hT, hF => by
    have eN : N1 ++ (itNodesL f r (INL (c :: cs) n) ++ N2) =
        N1 ++ (itNodes f r (IN c n) ++ (itNodesL f r (INL cs (n + sizeNT c)) ++ N2)) := by
      rw [INL_cons, itNodesL]; simp
    have eE : E1 ++ (itEdgesL sz (some k) (INL (c :: cs) n) ++ E2) =
        (E1 ++ [⟨n + sz, some k, n, lenNT c⟩]) ++ (kidEdges sz c n ++ (itEdgesL sz (some k) (INL cs (n + sizeNT c)) ++ E2)) := by
      rw [INL_cons, itEdgesL, itEdges_IN]; simp
    have h1 := build_tree f r otus sz c n N1 (itNodesL f r (INL cs (n + sizeNT c)) ++ N2)
      (E1 ++ [⟨n + sz, some k, n, lenNT c⟩]) (itEdgesL sz (some k) (INL cs (n + sizeNT c)) ++ E2) (lenNT c) fuel
      (fun y hy => by have := hN y hy; simp only [sizeNTL] at this; omega)
      (fun e he j hj => by
        simp only [List.append_assoc, List.mem_append, List.mem_singleton] at he
        rcases he with he | he | he | he
        · have := hE e (by simp [he]) j hj; simp only [sizeNTL] at this; omega
        · subst he; simp only at hj; cases hj; omega
        · rcases edge_srcL sz cs (n + sizeNT c) (some k) e he with h | ⟨j', hj', h1, h2⟩
          · rw [h] at hj; cases hj; omega
          · rw [hj'] at hj; cases hj; omega
        · have := hE e (by simp [he]) j hj; simp only [sizeNTL] at this; omega)
      (fun l hl => hT l (by simp [txsL, hl])) (by simp only [sizeNTL] at hF; omega)
    have eN2 : N1 ++ (itNodes f r (IN c n) ++ (itNodesL f r (INL cs (n + sizeNT c)) ++ N2)) =
        (N1 ++ itNodes f r (IN c n)) ++ (itNodesL f r (INL cs (n + sizeNT c)) ++ N2) := by simp
    have eE2 : (E1 ++ [⟨n + sz, some k, n, lenNT c⟩]) ++ (kidEdges sz c n ++ (itEdgesL sz (some k) (INL cs (n + sizeNT c)) ++ E2)) =
        (E1 ++ itEdges sz (some k) (IN c n)) ++ (itEdgesL sz (some k) (INL cs (n + sizeNT c)) ++ E2) := by
      rw [itEdges_IN]; simp
    have h2 := build_list f r otus sz cs (n + sizeNT c) k (N1 ++ itNodes f r (IN c n)) N2 (E1 ++ itEdges sz (some k) (IN c n)) E2 fuel
      (by omega)
      (fun y hy => by
        rcases List.mem_append.mp hy with hy | hy
        · have := hN y hy; simp only [sizeNTL] at this; omega
        · have := node_ids f r c n y hy; omega)
      (fun e he j hj => by
        simp only [List.append_assoc, List.mem_append] at he
        rcases he with he | he | he
        · have := hE e (by simp [he]) j hj; simp only [sizeNTL] at this; omega
        · rcases edge_src sz c n (some k) e he with h | ⟨j', hj', h1, h2⟩
          · rw [h] at hj; cases hj; omega
          · rw [hj'] at hj; cases hj; omega
        · have := hE e (by simp [he]) j hj; simp only [sizeNTL] at this; omega)
      (fun l hl => hT l (by simp [txsL, hl])) (by simp only [sizeNTL] at hF; omega)
    rw [eN, eE]
    simp only [tops, nxBuildL]
    rw [h1]
    simp only []
    rw [eN2, eE2, h2]
    simp [normNTL]
end

end Aux
end DendroModel.C02
