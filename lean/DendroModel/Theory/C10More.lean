import DendroModel.Theory.C10Step
import DendroModel.Theory.C10Bits
/-! C10 — multi-label lookups, removal by label, sortedness and stability of `sort`, the rendering of arbitrary masks. -/
namespace DendroModel.C10.Aux
open DendroModel DendroModel.C10

/-! ### `get_taxa`, `has_taxa_labels` -/
theorem getTaxa_first (s : NS) (lab : Nat → String) (c : Option Bool) : ∀ (ls : List String) (acc : List Nat),
    s.getTaxa lab c true ls acc = acc ++ ls.filterMap (fun l => s.lookupFirst lab c l) := by
  intro ls
  induction ls with
  | nil => intro acc; simp [NS.getTaxa]
  | cons l ls ih =>
    intro acc
    unfold NS.getTaxa
    cases h : s.lookupFirst lab c l with
    | none => simp [h, ih]
    | some t => simp [h, ih]

theorem getTaxa_all (s : NS) (lab : Nat → String) (c : Option Bool) : ∀ (ls : List String) (acc : List Nat),
    s.getTaxa lab c false ls acc =
      (ls.flatMap (fun l => s.lookupAll lab c l)).foldl (fun a t => if a.contains t then a else a ++ [t]) acc := by
  intro ls
  induction ls with
  | nil => intro acc; simp [NS.getTaxa]
  | cons l ls ih =>
    intro acc
    unfold NS.getTaxa
    simp [ih, List.foldl_append]

theorem mem_foldl_dedup : ∀ (xs acc : List Nat) (t : Nat),
    t ∈ xs.foldl (fun a t => if a.contains t then a else a ++ [t]) acc ↔ t ∈ acc ∨ t ∈ xs := by
  intro xs
  induction xs with
  | nil => intro acc t; simp
  | cons x xs ih =>
    intro acc t
    simp only [List.foldl_cons, ih, List.mem_cons]
    by_cases h : acc.contains x = true
    · simp only [h, if_true]
      have hx : x ∈ acc := by simpa using h
      constructor
      · rintro (h1 | h1)
        · exact Or.inl h1
        · exact Or.inr (Or.inr h1)
      · rintro (h1 | h1 | h1)
        · exact Or.inl h1
        · subst h1; exact Or.inl hx
        · exact Or.inr h1
    · simp only [h, Bool.false_eq_true, if_false, List.mem_append, List.mem_singleton]
      constructor
      · rintro ((h1 | h1) | h1)
        · exact Or.inl h1
        · exact Or.inr (Or.inl h1)
        · exact Or.inr (Or.inr h1)
      · rintro (h1 | h1 | h1)
        · exact Or.inl (Or.inl h1)
        · exact Or.inl (Or.inr h1)
        · exact Or.inr h1

theorem nodup_foldl_dedup : ∀ (xs acc : List Nat), acc.Nodup →
    (xs.foldl (fun a t => if a.contains t then a else a ++ [t]) acc).Nodup := by
  intro xs
  induction xs with
  | nil => intro acc h; exact h
  | cons x xs ih =>
    intro acc h
    simp only [List.foldl_cons]
    apply ih
    by_cases hc : acc.contains x = true
    · have hx : x ∈ acc := by simpa using hc
      simp [hx, h]
    · simp only [hc, Bool.false_eq_true, if_false]
      rw [List.nodup_append]
      refine ⟨h, by simp, ?_⟩
      intro a ha b hb; simp at hb; subst hb; intro e; subst e
      exact hc (by simpa using ha)

theorem hasTaxaLabels_eq (s : NS) (lab : Nat → String) (c : Option Bool) : ∀ (ls : List String),
    s.hasTaxaLabels lab c ls = ls.all (fun l => s.taxa.any (labelMatches lab (s.effCs c) l)) := by
  intro ls
  induction ls with
  | nil => rfl
  | cons l ls ih =>
    unfold NS.hasTaxaLabels
    have hl : s.lookupAll lab c l = s.taxa.filter (labelMatches lab (s.effCs c) l) := by
      simp [NS.lookupAll, scanAllEq]
    rw [hl, ih]
    cases ha : s.taxa.any (labelMatches lab (s.effCs c) l) with
    | true =>
      have : (s.taxa.filter (labelMatches lab (s.effCs c) l)).isEmpty = false := by
        rw [List.any_eq_true] at ha
        obtain ⟨x, hx, hp⟩ := ha
        cases hf : s.taxa.filter (labelMatches lab (s.effCs c) l) with
        | nil =>
          have : x ∈ s.taxa.filter (labelMatches lab (s.effCs c) l) := List.mem_filter.2 ⟨hx, hp⟩
          rw [hf] at this; cases this
        | cons _ _ => rfl
      simp [this, ha]
    | false =>
      have : (s.taxa.filter (labelMatches lab (s.effCs c) l)).isEmpty = true := by
        rw [List.any_eq_false] at ha
        cases hf : s.taxa.filter (labelMatches lab (s.effCs c) l) with
        | nil => rfl
        | cons y ys =>
          have : y ∈ s.taxa.filter (labelMatches lab (s.effCs c) l) := by rw [hf]; simp
          have := List.mem_filter.1 this
          exact absurd this.2 (ha y this.1)
      simp [this, ha]
where
  scanAllEq : ∀ (p : Nat → Bool) (l acc : List Nat), scanAll p l acc = acc ++ l.filter p := by
    intro p l
    induction l with
    | nil => intro acc; simp [scanAll]
    | cons x xs ih =>
      intro acc
      unfold scanAll
      by_cases h : p x = true
      · simp [h, ih]
      · simp [h, ih]

/-! ### removal of a list of members -/
theorem removeAll_taxa : ∀ (ts : List Nat) (s : NS), (∀ t ∈ ts, t ∈ s.taxa) → ts.Nodup →
    (s.removeAll ts).2 = none ∧ (s.removeAll ts).1.taxa = s.taxa.filter (fun x => !ts.contains x) := by
  intro ts
  induction ts with
  | nil =>
    intro s _ _
    refine ⟨rfl, ?_⟩
    simp only [NS.removeAll]
    induction s.taxa with
    | nil => rfl
    | cons x xs ih => simpa using ih
  | cons t ts ih =>
    intro s hm hn
    rw [List.nodup_cons] at hn
    have ht : t ∈ s.taxa := hm t (by simp)
    unfold NS.removeAll
    cases h : s.removeTaxon t with
    | error e => simp [NS.removeTaxon, ht] at h
    | ok s1 =>
      obtain ⟨_, hs1⟩ := removeTaxon_cases h
      have ht1 : s1.taxa = s.taxa.filter (fun x => decide (x ≠ t)) := by rw [hs1]
      simp only
      have hm1 : ∀ t' ∈ ts, t' ∈ s1.taxa := by
        intro t' ht'
        rw [ht1]
        refine List.mem_filter.2 ⟨hm t' (by simp [ht']), ?_⟩
        have : t' ≠ t := fun e => hn.1 (e ▸ ht')
        simp [this]
      obtain ⟨a, b⟩ := ih s1 hm1 hn.2
      refine ⟨a, ?_⟩
      rw [b, ht1]
      simp only [List.filter_filter]
      apply List.filter_congr
      intro x _
      by_cases e : x = t
      · subst e; simp
      · have : (t == x) = false := by simp; exact fun h => e h.symm
        simp [e]

/-! ### `sort` -/
/-- the order `sort(key=label, reverse=rev)` establishes between an earlier and a later member -/
def ordBy (lab : Nat → String) (rev : Bool) (a b : Nat) : Prop := if rev then lab b ≤ lab a else lab a ≤ lab b

instance (lab : Nat → String) (rev : Bool) (a b : Nat) : Decidable (ordBy lab rev a b) := by
  unfold ordBy; exact inferInstance

theorem ordBy_trans {lab : Nat → String} {rev : Bool} {a b c : Nat} (h1 : ordBy lab rev a b) (h2 : ordBy lab rev b c) :
    ordBy lab rev a c := by
  unfold ordBy at *
  cases rev
  · simp only [Bool.false_eq_true, if_false] at *; exact String.le_trans h1 h2
  · simp only [if_true] at *; exact String.le_trans h2 h1

theorem ordBy_total {lab : Nat → String} {rev : Bool} {a b : Nat} (h : ¬ ordBy lab rev a b) : ordBy lab rev b a := by
  unfold ordBy at *
  cases rev
  · simp only [Bool.false_eq_true, if_false] at *
    rcases String.le_total (lab a) (lab b) with h' | h'
    · exact absurd h' h
    · exact h'
  · simp only [if_true] at *
    rcases String.le_total (lab a) (lab b) with h' | h'
    · exact h'
    · exact absurd h' h

theorem insertBy_eq (lab : Nat → String) (rev : Bool) (x y : Nat) (ys : List Nat) :
    insertBy lab rev x (y :: ys) = if ordBy lab rev x y then x :: y :: ys else y :: insertBy lab rev x ys := rfl

theorem insertBy_sorted (lab : Nat → String) (rev : Bool) (x : Nat) : ∀ (l : List Nat),
    l.Pairwise (ordBy lab rev) → (insertBy lab rev x l).Pairwise (ordBy lab rev) := by
  intro l
  induction l with
  | nil => intro _; simp [insertBy]
  | cons y ys ih =>
    intro h
    rw [List.pairwise_cons] at h
    rw [insertBy_eq]
    by_cases hc : ordBy lab rev x y
    · rw [if_pos hc, List.pairwise_cons]
      refine ⟨?_, List.pairwise_cons.2 h⟩
      intro a ha
      rcases List.mem_cons.1 ha with e | e
      · subst e; exact hc
      · exact ordBy_trans hc (h.1 a e)
    · rw [if_neg hc, List.pairwise_cons]
      refine ⟨?_, ih h.2⟩
      intro a ha
      have := (insertBy_perm lab rev x ys).mem_iff.1 ha
      rcases List.mem_cons.1 this with e | e
      · subst e; exact ordBy_total hc
      · exact h.1 a e

theorem sortBy_sorted (lab : Nat → String) (rev : Bool) (l : List Nat) : (sortBy lab rev l).Pairwise (ordBy lab rev) := by
  induction l with
  | nil => simp [sortBy]
  | cons x xs ih =>
    simp only [sortBy, List.foldr_cons]
    exact insertBy_sorted lab rev x _ ih

theorem ordBy_refl_of_eq {lab : Nat → String} {rev : Bool} {a b : Nat} (h : lab a = lab b) : ordBy lab rev a b := by
  unfold ordBy; cases rev <;> simp [h]

theorem insertBy_filter (lab : Nat → String) (rev : Bool) (k : String) (x : Nat) : ∀ (l : List Nat),
    (insertBy lab rev x l).filter (fun t => lab t == k) =
      if lab x == k then x :: l.filter (fun t => lab t == k) else l.filter (fun t => lab t == k) := by
  intro l
  induction l with
  | nil => simp [insertBy, List.filter_cons]
  | cons y ys ih =>
    rw [insertBy_eq]
    by_cases hc : ordBy lab rev x y
    · rw [if_pos hc]; simp [List.filter_cons]
    · rw [if_neg hc]
      have hne : lab x ≠ lab y := fun e => hc (ordBy_refl_of_eq e)
      simp only [List.filter_cons, ih]
      by_cases hx : (lab x == k) = true
      · have hy : (lab y == k) = false := by
          have : lab x = k := by simpa using hx
          simp; intro e; exact hne (this.trans e.symm)
        simp [hx, hy]
      · simp only [Bool.not_eq_true] at hx
        simp [hx]

/-- stability: members with equal labels keep their relative order (in both directions) -/
theorem sortBy_stable (lab : Nat → String) (rev : Bool) (k : String) (l : List Nat) :
    (sortBy lab rev l).filter (fun t => lab t == k) = l.filter (fun t => lab t == k) := by
  induction l with
  | nil => simp [sortBy]
  | cons x xs ih =>
    simp only [sortBy, List.foldr_cons]
    rw [insertBy_filter]
    have ih' : (List.foldr (insertBy lab rev) [] xs).filter (fun t => lab t == k) = xs.filter (fun t => lab t == k) := ih
    rw [ih']
    by_cases hx : (lab x == k) = true
    · simp [hx]
    · simp only [Bool.not_eq_true] at hx
      simp [hx]

/-! ### the rendering of an arbitrary mask -/
theorem newick_any (s : NS) (hi : Inv s) (lab : Nat → String) (m : Nat) (ps qu : Bool) :
    (s.newick lab m ps qu).2 = .ok (
      if m = 0 ∨ m = s.allMask then .flat (s.taxa.map (fun t => escapeToken ps qu (lab t)))
      else .sides ((s.taxa.filter (fun t => onSide s m t)).map (fun t => escapeToken ps qu (lab t)))
                  ((s.taxa.filter (fun t => !onSide s m t)).map (fun t => escapeToken ps qu (lab t)))) := by
  unfold NS.newick
  simp only
  by_cases hf : m = 0 ∨ m = s.allMask
  · rw [if_pos hf, if_pos hf]
  · rw [if_neg hf, if_neg hf]
    have hz : ∀ p ∈ s.taxa.zip (s.taxa.map fun t => escapeToken ps qu (lab t)), p.1 ∈ s.taxa := by
      intro p hp; exact (List.of_mem_zip hp).1
    rw [nwkLoop_spec m _ s [] [] hi hz, zip_map_self]
    simp [List.filter_map, Function.comp_def]

end DendroModel.C10.Aux

namespace DendroModel.C10.Aux
open DendroModel DendroModel.C10

/-- the constructor's loop over an iterable of label strings -/
theorem ctorLoop_labels : ∀ (ls : List String) (w : World) (s : NS), Inv s → (∀ t ∈ s.taxa, t < w.labels.length) →
    s.mutable_ = true →
    (ctorLoop w s (ls.map .lab)).1.labels = w.labels ++ ls ∧ (ctorLoop w s (ls.map .lab)).1.nss = w.nss ∧
    (ctorLoop w s (ls.map .lab)).2.taxa = s.taxa ++ (List.range ls.length).map (w.labels.length + ·) ∧
    (ctorLoop w s (ls.map .lab)).2.count = s.count + ls.length ∧
    (∀ k, k < ls.length → (ctorLoop w s (ls.map .lab)).2.t2a.get (w.labels.length + k) = some (s.count + k)) ∧
    (∀ t, t < w.labels.length → (ctorLoop w s (ls.map .lab)).2.t2a.get t = s.t2a.get t) ∧
    (ctorLoop w s (ls.map .lab)).2.mutable_ = true ∧ (ctorLoop w s (ls.map .lab)).2.caseSens = s.caseSens := by
  intro ls
  induction ls with
  | nil => intro w s _ _ hm; simp [ctorLoop, hm]
  | cons l ls ih =>
    intro w s hi hf hm
    have hfresh : s.contains w.labels.length = false := by
      cases hc : s.contains w.labels.length with
      | false => rfl
      | true =>
        have := hf _ ((hi.dom _).2 ((contains_iff s _).1 hc)); omega
    have hadd : s.addTaxon w.labels.length = .ok
        { s with taxa := s.taxa ++ [w.labels.length], a2t := s.a2t.put s.count w.labels.length, t2a := s.t2a.put w.labels.length s.count, count := s.count + 1 } := by
      simp [NS.addTaxon, hfresh, hm]
    simp only [List.map_cons, ctorLoop, hadd]
    have hi1 := inv_addTaxon hi hadd
    have hf1 := prim_fresh (c := ⟨false, true, (w.labels ++ [l]).length⟩) (.add w.labels.length rfl (by simp) hadd)
      (fun t ht => by have := hf t ht; simp; omega)
    obtain ⟨a, b, c, d, e, f, g, h⟩ := ih { w with labels := w.labels ++ [l] } _ hi1 hf1 hm
    refine ⟨by rw [a]; simp, b, ?_, by rw [d]; simp; omega, ?_, ?_, g, h⟩
    · rw [c]
      simp only [List.length_append, List.length_cons, List.length_nil, List.append_assoc, List.singleton_append]
      rw [List.range_succ_eq_map]
      simp [Function.comp_def, Nat.add_assoc, Nat.add_comm 1]
    · intro k hk
      cases k with
      | zero =>
        rw [Nat.add_zero, f _ (by simp)]
        simp [get_put_self]
      | succ k =>
        have := e k (by simpa using hk)
        simp only [List.length_append, List.length_cons, List.length_nil] at this
        rw [show w.labels.length + (k + 1) = w.labels.length + 0 + 1 + k by omega, this]
        simp; omega
    · intro t ht
      rw [f t (by simp; omega)]
      have : t ≠ w.labels.length := by omega
      simp [get_put_ne _ _ _ _ this]

end DendroModel.C10.Aux
