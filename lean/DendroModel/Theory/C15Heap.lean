import DendroModel.Model.C15Ext
import DendroModel.Theory.C15Ptr
/-! C15 — frame and locality of the level-order generator over the mutable heap, and independence of two generators. -/
namespace DendroModel.C15.HeapAux
open DendroModel DendroModel.C15

/-- what a generator with private list `q` can see: all node lists and its own list -/
def Agree (q : Nat) (h h' : Heap) : Prop := h.kids = h'.kids ∧ h.priv q = h'.priv q

theorem lvLoop_q (h : Heap) (q : Nat) : (lvLoop h q).2.1.q = q := by
  unfold lvLoop; split <;> rfl

theorem lvNext_q (h : Heap) (s : LvSt) : (lvNext h s).2.1.q = s.q := by
  unfold lvNext; split <;> simp [lvLoop_q]

theorem lvLoop_frame (h : Heap) (q : Nat) :
    (lvLoop h q).1.kids = h.kids ∧ ∀ a, a ≠ q → (lvLoop h q).1.priv a = h.priv a := by
  unfold lvLoop
  split
  · exact ⟨rfl, fun _ _ => rfl⟩
  · refine ⟨rfl, fun a ha => ?_⟩
    simp [Heap.setPriv, ha]

/-- frame: a `next()` never touches a node's child list, nor any other generator's private list -/
theorem lvNext_frame (h : Heap) (s : LvSt) :
    (lvNext h s).1.kids = h.kids ∧ ∀ a, a ≠ s.q → (lvNext h s).1.priv a = h.priv a := by
  unfold lvNext
  split
  · exact ⟨rfl, fun _ _ => rfl⟩
  · rename_i self _
    have := lvLoop_frame (h.setPriv s.q (h.kids self)) s.q
    refine ⟨this.1, fun a ha => ?_⟩
    rw [this.2 a ha]; simp [Heap.setPriv, ha]
  · rename_i node _
    have := lvLoop_frame (h.setPriv s.q (h.priv s.q ++ h.kids node)) s.q
    refine ⟨this.1, fun a ha => ?_⟩
    rw [this.2 a ha]; simp [Heap.setPriv, ha]
  · exact ⟨rfl, fun _ _ => rfl⟩

theorem lvLoop_local (h h' : Heap) (q : Nat) (ha : Agree q h h') :
    (lvLoop h q).2 = (lvLoop h' q).2 ∧ Agree q (lvLoop h q).1 (lvLoop h' q).1 := by
  obtain ⟨hk, hp⟩ := ha
  unfold lvLoop
  rw [← hp]
  split
  · exact ⟨rfl, hk, hp⟩
  · refine ⟨rfl, hk, ?_⟩
    simp [Heap.setPriv]

/-- locality: what a `next()` does depends only on the node lists and the generator's own list -/
theorem lvNext_local (h h' : Heap) (s : LvSt) (ha : Agree s.q h h') :
    (lvNext h s).2 = (lvNext h' s).2 ∧ Agree s.q (lvNext h s).1 (lvNext h' s).1 := by
  obtain ⟨hk, hp⟩ := ha
  unfold lvNext
  split
  · exact ⟨rfl, hk, hp⟩
  · apply lvLoop_local
    exact ⟨hk, by simp [Heap.setPriv, hk]⟩
  · apply lvLoop_local
    exact ⟨hk, by simp [Heap.setPriv, hk, hp]⟩
  · exact ⟨rfl, hk, hp⟩

theorem lvSolo_congr : ∀ (k : Nat) (h h' : Heap) (s : LvSt), Agree s.q h h' → lvSolo h s k = lvSolo h' s k
  | 0, _, _, _, _ => rfl
  | k + 1, h, h', s, ha => by
    obtain ⟨h2, h1⟩ := lvNext_local h h' s ha
    simp only [lvSolo]
    rw [show (lvNext h s).2.2 = (lvNext h' s).2.2 from by rw [h2],
        show (lvNext h s).2.1 = (lvNext h' s).2.1 from by rw [h2]]
    congr 1
    apply lvSolo_congr k
    rw [← show (lvNext h s).2.1 = (lvNext h' s).2.1 from by rw [h2], lvNext_q]
    exact h1

/-- the other generator's step leaves everything this generator can see as it was -/
theorem other_step_agree (h : Heap) (s other : LvSt) (hne : s.q ≠ other.q) : Agree s.q (lvNext h other).1 h := by
  have := lvNext_frame h other
  exact ⟨this.1, this.2 s.q hne⟩

theorem sched_first : ∀ (σ : List Bool) (h : Heap) (s1 s2 : LvSt), s1.q ≠ s2.q →
    ((lvSched h s1 s2 σ).filter (fun e => e.1)).map (fun e => e.2) = lvSolo h s1 (σ.count true)
  | [], _, _, _, _ => rfl
  | true :: r, h, s1, s2, hne => by
    have ih := sched_first r (lvNext h s1).1 (lvNext h s1).2.1 s2 (by rw [lvNext_q]; exact hne)
    simp only [lvSched, List.filter_cons, if_true, List.map_cons, List.count_cons_self, lvSolo, ih]
  | false :: r, h, s1, s2, hne => by
    have ih := sched_first r (lvNext h s2).1 s1 (lvNext h s2).2.1 (by rw [lvNext_q]; exact hne)
    have hc := lvSolo_congr (r.count true) (lvNext h s2).1 h s1 (other_step_agree h s1 s2 hne)
    simp only [lvSched, List.filter_cons, Bool.false_eq_true, if_false, ih, hc]
    simp

theorem sched_second : ∀ (σ : List Bool) (h : Heap) (s1 s2 : LvSt), s1.q ≠ s2.q →
    ((lvSched h s1 s2 σ).filter (fun e => !e.1)).map (fun e => e.2) = lvSolo h s2 (σ.count false)
  | [], _, _, _, _ => rfl
  | false :: r, h, s1, s2, hne => by
    have ih := sched_second r (lvNext h s2).1 s1 (lvNext h s2).2.1 (by rw [lvNext_q]; exact hne)
    simp only [lvSched, List.filter_cons, Bool.not_false, if_true, List.map_cons, List.count_cons_self, lvSolo, ih]
  | true :: r, h, s1, s2, hne => by
    have ih := sched_second r (lvNext h s1).1 (lvNext h s1).2.1 s2 (by rw [lvNext_q]; exact hne)
    have hc := lvSolo_congr (r.count false) (lvNext h s1).1 h s2 (other_step_agree h s2 s1 (Ne.symm hne))
    simp only [lvSched, List.filter_cons, Bool.not_true, Bool.false_eq_true, if_false, ih, hc]
    simp


/-! ### the heap generator yields the level order, one item per `next()` -/
open DendroModel.C15.PtrAux DendroModel.C15.BuildAux

theorem solo_done (h : Heap) (q : Nat) : ∀ k, lvSolo h ⟨q, .done⟩ k = padTake k []
  | 0 => rfl
  | k + 1 => by
    simp only [lvSolo, lvNext, padTake]
    rw [solo_done h q k]

theorem size_eq' (t : T) : t.size = 1 + T.sizeL t.cs := by
  cases t; simp [T.size, T.cs]

theorem sizeL_append' (a b : List T) : T.sizeL (a ++ b) = T.sizeL a + T.sizeL b := by
  induction a with
  | nil => simp [T.sizeL]
  | cons x xs ih => simp [T.sizeL, ih]; omega

/-- from a suspension with queue `L` (ids in the private list): the outputs of the next `k+1` calls -/
theorem loop_spec (par : Array Int) (t : T) (hF : ∀ b ∈ T.nodes t, b.cs.map T.id = kidsOf par b.id) :
    ∀ (k fuel : Nat) (L : List T) (h : Heap) (q : Nat), h.kids = kidsOf par → h.priv q = L.map T.id →
      (∀ y ∈ L, y ∈ T.nodes t) → T.sizeL L ≤ fuel →
      (lvLoop h q).2.2 :: lvSolo (lvLoop h q).1 (lvLoop h q).2.1 k
        = padTake (k + 1) ((levelRun (fun _ => true) fuel L).map T.id)
  | k, fuel, [], h, q, _, hp, _, _ => by
    have : levelRun (fun _ => true) fuel ([] : List T) = [] := by cases fuel <;> simp [levelRun]
    simp only [lvLoop, hp, List.map_nil, this, padTake]
    rw [solo_done]
  | k, fuel, y :: R, h, q, hk, hp, hL, hsz => by
    obtain ⟨f, rfl⟩ : ∃ f, fuel = f + 1 := ⟨fuel - 1, by have := size_eq' y; simp [T.sizeL] at hsz; omega⟩
    simp only [lvLoop, hp, List.map_cons, levelRun, if_true, List.singleton_append, padTake]
    congr 1
    cases k with
    | zero => rfl
    | succ k' =>
      have hy : y ∈ T.nodes t := hL y List.mem_cons_self
      have hky : (h.setPriv q (R.map T.id)).kids y.id = y.cs.map T.id := by
        show h.kids y.id = _
        rw [hk, hF y hy]
      have ih := loop_spec par t hF k' f (R ++ y.cs)
        ((h.setPriv q (R.map T.id)).setPriv q ((h.setPriv q (R.map T.id)).priv q ++ (h.setPriv q (R.map T.id)).kids y.id)) q
        (by show h.kids = _; exact hk)
        (by rw [hky]; simp [Heap.setPriv])
        (by
          intro z hz
          rcases List.mem_append.mp hz with hz | hz
          · exact hL z (List.mem_cons_of_mem _ hz)
          · exact child_mem_nodes z t y hy hz)
        (by
          have := size_eq' y
          simp only [T.sizeL] at hsz
          rw [sizeL_append']; omega)
      simp only [lvSolo, lvNext]
      exact ih

/-- a fresh level-order generator started at the root of a faithful subtree `t`: `k` calls of `next()` return the
first `k` nodes of `levelIter`, then StopIteration -/
theorem solo_spec (par : Array Int) (t : T) (hF : ∀ b ∈ T.nodes t, b.cs.map T.id = kidsOf par b.id)
    (h : Heap) (hk : h.kids = kidsOf par) (q : Nat) :
    ∀ k, lvSolo h ⟨q, .init t.id⟩ k = padTake k ((levelIter (fun _ => true) t).map T.id)
  | 0 => rfl
  | k + 1 => by
    have ht : t ∈ T.nodes t := by rw [nodes_eq']; exact List.mem_cons_self
    simp only [lvSolo, lvNext, levelIter, if_true, List.singleton_append, List.map_cons, padTake]
    congr 1
    cases k with
    | zero => rfl
    | succ k' =>
      have := loop_spec par t hF k' t.size t.cs (h.setPriv q (h.kids t.id)) q (by show h.kids = _; exact hk)
        (by rw [hk, ← hF t ht]; simp [Heap.setPriv])
        (fun y hy => child_mem_nodes y t t ht hy) (by have := size_eq' t; omega)
      simp only [lvSolo, lvNext]
      exact this


/-! ### any two generators whose steps are framed and local are independent (pre-order and level-order instances) -/

/-- a step function that keeps its generator number, touches only its own private list, and reads only the node lists
and its own private list -/
structure Local (next : Heap → LvSt → Heap × LvSt × Option Nat) : Prop where
  keeps_q : ∀ h s, (next h s).2.1.q = s.q
  frame : ∀ h s, (next h s).1.kids = h.kids ∧ ∀ a, a ≠ s.q → (next h s).1.priv a = h.priv a
  loc : ∀ h h' s, Agree s.q h h' → (next h s).2 = (next h' s).2 ∧ Agree s.q (next h s).1 (next h' s).1

theorem lv_local : Local lvNext := ⟨lvNext_q, lvNext_frame, lvNext_local⟩

theorem pv_local : Local pvNext := by
  refine ⟨?_, ?_, ?_⟩
  · intro h s; unfold pvNext; split <;> simp [lvLoop_q]
  · intro h s
    unfold pvNext
    split
    · exact ⟨rfl, fun a ha => by simp [Heap.setPriv, ha]⟩
    · exact ⟨rfl, fun a ha => by simp [Heap.setPriv, ha]⟩
    · rename_i node _
      have := lvLoop_frame (h.setPriv s.q (h.kids node ++ h.priv s.q)) s.q
      refine ⟨this.1, fun a ha => ?_⟩
      rw [this.2 a ha]; simp [Heap.setPriv, ha]
    · exact ⟨rfl, fun _ _ => rfl⟩
  · intro h h' s ha
    obtain ⟨hk, hp⟩ := ha
    unfold pvNext
    split
    · exact ⟨rfl, hk, by simp [Heap.setPriv]⟩
    · exact ⟨rfl, hk, by simp [Heap.setPriv]⟩
    · apply lvLoop_local
      exact ⟨hk, by simp [Heap.setPriv, hk, hp]⟩
    · exact ⟨rfl, hk, hp⟩

theorem gSolo_congr {next : Heap → LvSt → Heap × LvSt × Option Nat} (hl : Local next) :
    ∀ (k : Nat) (h h' : Heap) (s : LvSt), Agree s.q h h' → gSolo next h s k = gSolo next h' s k
  | 0, _, _, _, _ => rfl
  | k + 1, h, h', s, ha => by
    obtain ⟨h2, h1⟩ := hl.loc h h' s ha
    simp only [gSolo]
    rw [show (next h s).2.2 = (next h' s).2.2 from by rw [h2],
        show (next h s).2.1 = (next h' s).2.1 from by rw [h2]]
    congr 1
    apply gSolo_congr hl k
    rw [← show (next h s).2.1 = (next h' s).2.1 from by rw [h2], hl.keeps_q]
    exact h1

theorem gsched_first {n1 n2 : Heap → LvSt → Heap × LvSt × Option Nat} (h1 : Local n1) (h2 : Local n2) :
    ∀ (σ : List Bool) (h : Heap) (s1 s2 : LvSt), s1.q ≠ s2.q →
    ((gSched n1 n2 h s1 s2 σ).filter (fun e => e.1)).map (fun e => e.2) = gSolo n1 h s1 (σ.count true)
  | [], _, _, _, _ => rfl
  | true :: r, h, s1, s2, hne => by
    have ih := gsched_first h1 h2 r (n1 h s1).1 (n1 h s1).2.1 s2 (by rw [h1.keeps_q]; exact hne)
    simp only [gSched, List.filter_cons, if_true, List.map_cons, List.count_cons_self, gSolo, ih]
  | false :: r, h, s1, s2, hne => by
    have ih := gsched_first h1 h2 r (n2 h s2).1 s1 (n2 h s2).2.1 (by rw [h2.keeps_q]; exact hne)
    have hag : Agree s1.q (n2 h s2).1 h := ⟨(h2.frame h s2).1, (h2.frame h s2).2 s1.q hne⟩
    have hc := gSolo_congr h1 (r.count true) (n2 h s2).1 h s1 hag
    simp only [gSched, List.filter_cons, Bool.false_eq_true, if_false, ih, hc]
    simp

theorem gsched_second {n1 n2 : Heap → LvSt → Heap × LvSt × Option Nat} (h1 : Local n1) (h2 : Local n2) :
    ∀ (σ : List Bool) (h : Heap) (s1 s2 : LvSt), s1.q ≠ s2.q →
    ((gSched n1 n2 h s1 s2 σ).filter (fun e => !e.1)).map (fun e => e.2) = gSolo n2 h s2 (σ.count false)
  | [], _, _, _, _ => rfl
  | false :: r, h, s1, s2, hne => by
    have ih := gsched_second h1 h2 r (n2 h s2).1 s1 (n2 h s2).2.1 (by rw [h2.keeps_q]; exact hne)
    simp only [gSched, List.filter_cons, Bool.not_false, if_true, List.map_cons, List.count_cons_self, gSolo, ih]
  | true :: r, h, s1, s2, hne => by
    have ih := gsched_second h1 h2 r (n1 h s1).1 (n1 h s1).2.1 s2 (by rw [h1.keeps_q]; exact hne)
    have hag : Agree s2.q (n1 h s1).1 h := ⟨(h1.frame h s1).1, (h1.frame h s1).2 s2.q (Ne.symm hne)⟩
    have hc := gSolo_congr h2 (r.count false) (n1 h s1).1 h s2 hag
    simp only [gSched, List.filter_cons, Bool.not_true, Bool.false_eq_true, if_false, ih, hc]
    simp

theorem gSolo_lv : ∀ (k : Nat) (h : Heap) (s : LvSt), gSolo lvNext h s k = lvSolo h s k
  | 0, _, _ => rfl
  | k + 1, h, s => by simp only [gSolo, lvSolo, gSolo_lv k]

/-! the pre-order heap generator yields the pre-order, one item per `next()` -/

theorem psolo_done (h : Heap) (q : Nat) : ∀ k, gSolo pvNext h ⟨q, .done⟩ k = padTake k []
  | 0 => rfl
  | k + 1 => by
    simp only [gSolo, pvNext, padTake]
    rw [psolo_done h q k]

theorem ploop_spec (par : Array Int) (t : T) (hF : ∀ b ∈ T.nodes t, b.cs.map T.id = kidsOf par b.id) :
    ∀ (k fuel : Nat) (L : List T) (h : Heap) (q : Nat), h.kids = kidsOf par → h.priv q = L.map T.id →
      (∀ y ∈ L, y ∈ T.nodes t) → T.sizeL L ≤ fuel →
      (lvLoop h q).2.2 :: gSolo pvNext (lvLoop h q).1 (lvLoop h q).2.1 k
        = padTake (k + 1) ((preRun (fun _ => true) fuel L).map T.id)
  | k, fuel, [], h, q, _, hp, _, _ => by
    have : preRun (fun _ => true) fuel ([] : List T) = [] := by cases fuel <;> simp [preRun]
    simp only [lvLoop, hp, List.map_nil, this, padTake]
    rw [psolo_done]
  | k, fuel, y :: R, h, q, hk, hp, hL, hsz => by
    obtain ⟨f, rfl⟩ : ∃ f, fuel = f + 1 := ⟨fuel - 1, by have := size_eq' y; simp [T.sizeL] at hsz; omega⟩
    simp only [lvLoop, hp, List.map_cons, preRun, if_true, List.singleton_append, padTake]
    congr 1
    cases k with
    | zero => rfl
    | succ k' =>
      have hy : y ∈ T.nodes t := hL y List.mem_cons_self
      have hky : (h.setPriv q (R.map T.id)).kids y.id = y.cs.map T.id := by
        show h.kids y.id = _
        rw [hk, hF y hy]
      have ih := ploop_spec par t hF k' f (y.cs ++ R)
        ((h.setPriv q (R.map T.id)).setPriv q ((h.setPriv q (R.map T.id)).kids y.id ++ (h.setPriv q (R.map T.id)).priv q)) q
        (by show h.kids = _; exact hk)
        (by rw [hky]; simp [Heap.setPriv])
        (by
          intro z hz
          rcases List.mem_append.mp hz with hz | hz
          · exact child_mem_nodes z t y hy hz
          · exact hL z (List.mem_cons_of_mem _ hz))
        (by
          have := size_eq' y
          simp only [T.sizeL] at hsz
          rw [sizeL_append']; omega)
      simp only [gSolo, pvNext]
      exact ih

theorem psolo_spec (par : Array Int) (t : T) (hF : ∀ b ∈ T.nodes t, b.cs.map T.id = kidsOf par b.id)
    (h : Heap) (hk : h.kids = kidsOf par) (q : Nat) :
    ∀ k, gSolo pvNext h ⟨q, .init t.id⟩ k = padTake k ((preIter (fun _ => true) t).map T.id)
  | 0 => rfl
  | k + 1 => by
    have ht : t ∈ T.nodes t := by rw [nodes_eq']; exact List.mem_cons_self
    have hsz : t.size = (t.size - 1) + 1 := by have := size_eq' t; omega
    unfold preIter
    rw [hsz]
    simp only [gSolo, pvNext, preRun, if_true, List.singleton_append, List.map_cons, padTake, List.append_nil]
    congr 1
    cases k with
    | zero => rfl
    | succ k' =>
      have := ploop_spec par t hF k' (t.size - 1) t.cs
        ((h.setPriv q []).setPriv q ((h.setPriv q []).kids t.id ++ (h.setPriv q []).priv q)) q
        (by show h.kids = _; exact hk)
        (by
          have : (h.setPriv q []).kids t.id = t.cs.map T.id := by
            show h.kids t.id = _
            rw [hk, hF t ht]
          rw [this]; simp [Heap.setPriv])
        (fun y hy => child_mem_nodes y t t ht hy) (by have := size_eq' t; omega)
      simp only [gSolo, pvNext]
      exact this

end DendroModel.C15.HeapAux
