import DendroModel.Theory.C08Extract
/-! C08 — `Node.extract_subtree` for BOTH filter flags (`fl`, `fi` arbitrary): the memo-driven fold computes `exSpec`. -/
namespace DendroModel.C08.Aux
open DendroModel

/-- the loop body on a node other than the seed, once the clones of its children are in the memo -/
theorem exStepG_inner (acc : Acc) (fl fi sup : Bool) (rootId : Nat) (st : ExSt) (i : Nat) (x l s) (cs : List T)
    (hi : i ≠ rootId) (hk : kidsOf st.memo cs = exSpecL acc fl fi sup cs) :
    exStep acc fl fi sup rootId st (.node i x l s cs) =
      match exSpec acc fl fi sup (.node i x l s cs) with
      | some r => { st with memo := (i, r) :: st.memo }
      | none => st := by
  have hne : (i == rootId) = false := by simpa using hi
  cases cs with
  | nil =>
    simp only [exStep, kidsOf, exSpec, List.isEmpty_nil, if_true]
    cases fl <;> by_cases ha : acc i x = true <;> simp [hne, ha]
  | cons c cs' =>
    simp only [exStep, exSpec, hk, List.isEmpty_cons, Bool.false_eq_true, if_false]
    by_cases hrej : (fi && !acc i x) = true
    · simp [hrej]
    · simp only [hrej, Bool.false_eq_true, if_false]
      generalize exSpecL acc fl fi sup (c :: cs') = ks
      match ks, sup with
      | [], _ => simp [hne]
      | [k], true => simp [hne]
      | [k], false => simp [hne]
      | k1 :: k2 :: r, true => simp [hne]
      | k1 :: k2 :: r, false => simp [hne]

mutual
theorem foldG_post (acc : Acc) (fl fi sup : Bool) (rootId : Nat) : ∀ (t : T) (st : ExSt),
    rootId ∉ ids t → (ids t).Nodup → (∀ j ∈ ids t, List.lookup j st.memo = none) →
    ((post t).foldl (exStep acc fl fi sup rootId) st).start = st.start ∧
    ((post t).foldl (exStep acc fl fi sup rootId) st).seedDeleted = st.seedDeleted ∧
    (∀ j, j ∉ ids t → List.lookup j ((post t).foldl (exStep acc fl fi sup rootId) st).memo = List.lookup j st.memo) ∧
    List.lookup t.id ((post t).foldl (exStep acc fl fi sup rootId) st).memo = exSpec acc fl fi sup t
  | .node i x l s cs, st, hroot, hnd, hnone => by
      simp only [ids, List.mem_cons, not_or, List.nodup_cons] at hroot hnd
      obtain ⟨h1, h2, h3, h4⟩ := foldG_postL acc fl fi sup rootId cs st hroot.2 hnd.2
        (fun j hj => hnone j (by simp [ids, hj]))
      have hstep := exStepG_inner acc fl fi sup rootId ((postL cs).foldl (exStep acc fl fi sup rootId) st) i x l s cs
        (fun h => hroot.1 h.symm) h4
      simp only [post, List.foldl_append, List.foldl_cons, List.foldl_nil, hstep, T.id]
      have hi_none : List.lookup i ((postL cs).foldl (exStep acc fl fi sup rootId) st).memo = none := by
        rw [h3 i hnd.1]; exact hnone i (by simp [ids])
      cases hr : exSpec acc fl fi sup (.node i x l s cs) with
      | none =>
        refine ⟨h1, h2, fun j hj => ?_, hi_none⟩
        simp only [ids, List.mem_cons, not_or] at hj
        exact h3 j hj.2
      | some r =>
        refine ⟨h1, h2, fun j hj => ?_, lookup_cons_self i r _⟩
        simp only [ids, List.mem_cons, not_or] at hj
        show List.lookup j ((i, r) :: _) = _
        rw [lookup_cons_ne hj.1]; exact h3 j hj.2
theorem foldG_postL (acc : Acc) (fl fi sup : Bool) (rootId : Nat) : ∀ (cs : List T) (st : ExSt),
    rootId ∉ idsL cs → (idsL cs).Nodup → (∀ j ∈ idsL cs, List.lookup j st.memo = none) →
    ((postL cs).foldl (exStep acc fl fi sup rootId) st).start = st.start ∧
    ((postL cs).foldl (exStep acc fl fi sup rootId) st).seedDeleted = st.seedDeleted ∧
    (∀ j, j ∉ idsL cs → List.lookup j ((postL cs).foldl (exStep acc fl fi sup rootId) st).memo = List.lookup j st.memo) ∧
    kidsOf ((postL cs).foldl (exStep acc fl fi sup rootId) st).memo cs = exSpecL acc fl fi sup cs
  | [], st, _, _, _ => by simp [postL, kidsOf, exSpecL]
  | c :: cs, st, hroot, hnd, hnone => by
      simp only [idsL, List.mem_append, not_or] at hroot
      simp only [idsL] at hnd
      have hdis := List.nodup_append.mp hnd
      obtain ⟨a1, a2, a3, a4⟩ := foldG_post acc fl fi sup rootId c st hroot.1 hdis.1
        (fun j hj => hnone j (by simp [idsL, hj]))
      have hnone2 : ∀ j ∈ idsL cs, List.lookup j ((post c).foldl (exStep acc fl fi sup rootId) st).memo = none := by
        intro j hj
        have hjc : j ∉ ids c := fun hc => hdis.2.2 j hc j hj rfl
        rw [a3 j hjc]; exact hnone j (by simp [idsL, hj])
      obtain ⟨b1, b2, b3, b4⟩ := foldG_postL acc fl fi sup rootId cs _ hroot.2 hdis.2.1 hnone2
      simp only [postL, List.foldl_append]
      refine ⟨b1.trans a1, b2.trans a2, fun j hj => ?_, ?_⟩
      · simp only [idsL, List.mem_append, not_or] at hj
        rw [b3 j hj.2, a3 j hj.1]
      · have hcid : c.id ∉ idsL cs := fun hc => hdis.2.2 c.id (id_mem_ids c) c.id hc rfl
        simp only [kidsOf, exSpecL, b3 c.id hcid, a4, b4]
end

/-- which exception the code raises when nothing is left: the seed itself rejected by the filter → `ValueError`
    (no start node at the end of the loop); the seed passes but none of its children made it → `SeedNodeDeletionException` -/
def exErr (acc : Acc) (fl fi : Bool) : T → ExRes
  | .node i x _ _ cs => if (if cs.isEmpty then fl else fi) && !acc i x then .valueError else .seedDeletion

theorem extractG_full (acc : Acc) (fl fi sup : Bool) (t : T) (hnd : (ids t).Nodup) :
    extractTree acc fl fi sup t =
      match exSpec acc fl fi sup t with
      | some r => .ok r
      | none => exErr acc fl fi t := by
  obtain ⟨i, x, l, s, cs⟩ := t
  simp only [ids, List.nodup_cons] at hnd
  obtain ⟨h1, h2, _, h4⟩ := foldG_postL acc fl fi sup i cs {} hnd.1 hnd.2 (fun j _ => by simp [List.lookup])
  simp only [extractTree, post, List.foldl_append, List.foldl_cons, List.foldl_nil, T.id]
  generalize (postL cs).foldl (exStep acc fl fi sup i) {} = st1 at h1 h2 h4
  have hs : st1.start = none := h1
  have hd : st1.seedDeleted = false := h2
  cases cs with
  | nil =>
    simp only [exStep, kidsOf, exSpec, exErr, List.isEmpty_nil, if_true]
    cases fl <;> by_cases ha : acc i x = true <;> simp [hs, hd, ha]
  | cons c cs' =>
    simp only [exStep, exSpec, exErr, h4, List.isEmpty_cons, Bool.false_eq_true, if_false]
    by_cases hrej : (fi && !acc i x) = true
    · simp [hrej, hs, hd]
    · simp only [hrej, Bool.false_eq_true, if_false]
      generalize exSpecL acc fl fi sup (c :: cs') = ks
      match ks, sup with
      | [], _ => simp [hs, hd]
      | [k], true => simp [hs, hd]
      | [k], false => simp [hs, hd]
      | k1 :: k2 :: r, true => simp [hs, hd]
      | k1 :: k2 :: r, false => simp [hs, hd]

-- without the internal-node filter the two-flag specification is the induced subtree
mutual
theorem exSpec_fi_false (acc : Acc) (fl sup : Bool) : ∀ t : T, exSpec acc fl false sup t = restrict (leafKeep fl acc) sup t
  | .node i x l s [] => by
      cases fl <;> by_cases ha : acc i x = true <;> simp [exSpec, restrict, leafKeep, ha]
  | .node i x l s (c :: cs) => by
      simp only [exSpec, restrict, exSpecL_fi_false acc fl sup (c :: cs)]
      simp
theorem exSpecL_fi_false (acc : Acc) (fl sup : Bool) : ∀ cs : List T, exSpecL acc fl false sup cs = restrictL (leafKeep fl acc) sup cs
  | [] => rfl
  | c :: cs => by simp only [exSpecL, restrictL, exSpec_fi_false acc fl sup c, exSpecL_fi_false acc fl sup cs]
end

end DendroModel.C08.Aux

namespace DendroModel.C08
open DendroModel
-- the filter accepts every node of the tree that has children
mutual
def AccInner (acc : Acc) : T → Prop
  | .node i x _ _ cs => (cs ≠ [] → acc i x = true) ∧ AccInnerL acc cs
def AccInnerL (acc : Acc) : List T → Prop
  | [] => True
  | c :: cs => AccInner acc c ∧ AccInnerL acc cs
end
end DendroModel.C08

namespace DendroModel.C08.Aux
open DendroModel

mutual
theorem exSpec_accInner (acc : Acc) (fl fi sup : Bool) : ∀ t : T, AccInner acc t →
    exSpec acc fl fi sup t = restrict (leafKeep fl acc) sup t
  | .node i x l s [], _ => by
      cases fl <;> by_cases ha : acc i x = true <;> simp [exSpec, restrict, leafKeep, ha]
  | .node i x l s (c :: cs), h => by
      simp only [AccInner] at h
      have ha : acc i x = true := h.1 (by simp)
      simp only [exSpec, restrict, exSpecL_accInner acc fl fi sup (c :: cs) h.2, ha]
      simp
theorem exSpecL_accInner (acc : Acc) (fl fi sup : Bool) : ∀ cs : List T, AccInnerL acc cs →
    exSpecL acc fl fi sup cs = restrictL (leafKeep fl acc) sup cs
  | [], _ => rfl
  | c :: cs, h => by
      simp only [AccInnerL] at h
      simp only [exSpecL, restrictL, exSpec_accInner acc fl fi sup c h.1, exSpecL_accInner acc fl fi sup cs h.2]
end

mutual
theorem accInner_taxonFilter (K : Nat → Bool) : ∀ t : T, InnerNoTaxon t → AccInner (taxonFilter K) t
  | .node i x l s cs, h => by
      simp only [InnerNoTaxon] at h
      refine ⟨fun hc => ?_, accInnerL_taxonFilter K cs h.2⟩
      rw [h.1 hc]; rfl
theorem accInnerL_taxonFilter (K : Nat → Bool) : ∀ cs : List T, InnerNoTaxonL cs → AccInnerL (taxonFilter K) cs
  | [], _ => trivial
  | c :: cs, h => by
      simp only [InnerNoTaxonL] at h
      exact ⟨accInner_taxonFilter K c h.1, accInnerL_taxonFilter K cs h.2⟩
end

end DendroModel.C08.Aux
