import DendroModel.Theory.C17Gamma
/-! C17 — final round: lineage counting on arbitrary (zero, negative) edge lengths; `pybus_harvey_gamma` succeeds on its
domain. -/
namespace DendroModel.C17.Aux
open DendroModel DendroModel.C17

/-! ## what `num_lineages_at` counts, whatever the edge lengths -/

theorem crosses_all {d prd rd : Frac} (hd : d.WF) (hp : prd.WF) (hr : rd.WF) :
    crosses d prd rd = decide (rd.toRat = d.toRat ∨ (prd.toRat < d.toRat ∧ d.toRat ≤ rd.toRat)) := by
  have h1 := Frac.beq_iff hr hd
  have h2 := Frac.le_iff hd hr
  have h3 := Frac.lt_iff hp hd
  rw [Bool.eq_iff_iff]
  simp only [crosses, Bool.or_eq_true, Bool.and_eq_true, h1, h2, h3, decide_eq_true_eq]
  constructor
  · rintro (h | ⟨h, h'⟩)
    · exact Or.inl h
    · exact Or.inr ⟨h', h⟩
  · rintro (h | ⟨h, h'⟩)
    · exact Or.inl h
    · exact Or.inr ⟨h', h⟩

theorem lineagesL_all {d : Frac} (hd : d.WF) : ∀ (cs : List T) (prd : Frac), prd.WF → WFTL cs → NoNoneL cs →
    lineagesL d prd cs = .ok ((edgesL prd.toRat cs).countP
      (fun e => decide (e.2 = d.toRat ∨ (e.1 < d.toRat ∧ d.toRat ≤ e.2))))
  | [], _, _, _, _ => by simp [lineagesL, edgesL]
  | .node i x l s ccs :: rest, prd, hp, hw, hn => by
    obtain ⟨⟨l', hl'⟩, hnc, hnr⟩ := hn
    simp only [T.len] at hl'
    subst hl'
    have hlw : l'.WF := hw.1.1
    have hrd : (l' + prd).WF := Frac.add_wf _ _
    have hrdq : (l' + prd).toRat = qlen (some l') + prd.toRat := by
      rw [Frac.add_toRat hlw hp]; rfl
    have h1 := lineagesL_all hd ccs (l' + prd) hrd hw.1.2 hnc
    have h2 := lineagesL_all hd rest prd hp hw.2 hnr
    have hcr := crosses_all hd hp hrd
    simp only [lineagesL, h1, h2, hcr, edgesL, List.countP_cons, List.countP_append, hrdq]
    congr 1
    by_cases hx : qlen (some l') + prd.toRat = d.toRat ∨ (prd.toRat < d.toRat ∧ d.toRat ≤ qlen (some l') + prd.toRat) <;>
      simp [hx] <;> omega

/-! ## gamma succeeds on strictly bifurcating, exactly ultrametric trees with positive lengths and ≥ 3 leaves -/

theorem binary_counts : ∀ t : T, binary t = true →
    ((T.nodes t).filter isBif).length + 1 = nLeaves t ∧ ((T.nodes t).filter (fun v => !isBif v)).length = nLeaves t
  | .node i x l s [], _ => by
    have hb : isBif (.node i x l s []) = false := rfl
    simp [T.nodes, T.nodesL, List.filter_cons, hb, nLeaves]
  | .node i x l s [a], hb => by simp [binary] at hb
  | .node i x l s (a :: b :: c :: r), hb => by simp [binary] at hb
  | .node i x l s [a, b], hb => by
    simp only [binary, Bool.and_eq_true] at hb
    obtain ⟨a1, a2⟩ := binary_counts a hb.1
    obtain ⟨b1, b2⟩ := binary_counts b hb.2
    have hroot : isBif (.node i x l s [a, b]) = true := rfl
    simp only [T.nodes, T.nodesL, List.append_nil, List.filter_cons, hroot, List.filter_append, List.length_cons,
      List.length_append, nLeaves, nLeavesL, Bool.not_true, Bool.false_eq_true, if_false, if_true]
    constructor <;> omega

theorem fageQ_nonneg : ∀ t : T, Pos t → 0 ≤ fageQ t
  | .node _ _ _ _ [], _ => by simp [fageQ]
  | .node _ _ _ _ (c :: _), h => by
    simp only [Pos, PosL] at h
    have := fageQ_nonneg c h.2.1
    have := pos_qlen h.1
    simp only [fageQ]; linarith

theorem fageQ_pos (t : T) (h : Pos t) (hi : t.isLeaf = false) : 0 < fageQ t := by
  match t, h, hi with
  | .node _ _ _ _ [], _, hi => simp [T.isLeaf, T.cs] at hi
  | .node _ _ _ _ (c :: _), h, _ =>
    simp only [Pos, PosL] at h
    have := fageQ_nonneg c h.2.1
    have := pos_qlen h.1
    simp only [fageQ]; linarith

mutual
theorem Pos_nodes : ∀ t : T, Pos t → ∀ v ∈ T.nodes t, Pos v
  | .node i x l s cs, h, v, hv => by
    simp only [T.nodes, List.mem_cons] at hv
    rcases hv with rfl | hv'
    · exact h
    · exact PosL_nodes cs h v hv'
theorem PosL_nodes : ∀ cs : List T, PosL cs → ∀ v ∈ T.nodesL cs, Pos v
  | [], _, v, hv => by simp [T.nodesL] at hv
  | c :: cs, h, v, hv => by
    simp only [T.nodesL, List.mem_append] at hv
    rcases hv with hv | hv
    · exact Pos_nodes c h.2.1 v hv
    · exact PosL_nodes cs h.2.2 v hv
end

/-- a descending list of positive numbers has a positive weighted interval sum -/
theorem wsum_intervalsQ_pos : ∀ (S : List ℚ) (i : Nat), 0 < i → S ≠ [] → S.Pairwise (fun a b => b ≤ a) →
    (∀ a ∈ S, 0 < a) → 0 < wsum i (intervalsQ S)
  | [], _, _, h, _, _ => absurd rfl h
  | [a], i, hi, _, _, hpos => by
    have : 0 < a := hpos a (by simp)
    have : (0 : ℚ) < i := by exact_mod_cast hi
    simp only [intervalsQ, wsum]; nlinarith
  | a :: b :: r, i, hi, _, hp, hpos => by
    have hp' := List.pairwise_cons.mp hp
    have hab : b ≤ a := hp'.1 b (by simp)
    have ih := wsum_intervalsQ_pos (b :: r) (i + 1) (by omega) (by simp) hp'.2
      (fun x hx => hpos x (List.mem_cons_of_mem _ hx))
    have : (0 : ℚ) < i := by exact_mod_cast hi
    simp only [intervalsQ, wsum]; nlinarith

/-! ## lineage counts at the boundaries and on zero-length edges -/

/-- what `num_lineages_at` counts (`lineages_spec_all`) -/
def crossAll (d : ℚ) (e : ℚ × ℚ) : Bool := decide (e.2 = d ∨ (e.1 < d ∧ d ≤ e.2))
/-- a zero-length edge lying exactly at distance `d` -/
def zeroAt (d : ℚ) (e : ℚ × ℚ) : Bool := decide (e.1 = d ∧ e.2 = d)

theorem cross_count_all (d H : ℚ) (hdH : d ≤ H) : ∀ (t : T) (r : ℚ), binary t = true → NonNeg t →
    (∀ x ∈ tipDists t, r + x = H) →
    (edgesL r t.cs).countP (crossAll d)
      = intBefore d r t + (if !t.isLeaf && decide (r < d) then 1 else 0) + (edgesL r t.cs).countP (zeroAt d)
  | .node _ _ _ _ [], r, _, _, _ => by simp [T.cs, edgesL, intBefore, T.isLeaf]
  | .node i x l s [a], r, hb, _, _ => by simp [binary] at hb
  | .node i x l s (a :: b :: c :: rest), r, hb, _, _ => by simp [binary] at hb
  | .node i x l s [a, b], r, hb, hp, htip => by
    simp only [binary, Bool.and_eq_true] at hb
    simp only [NonNeg, NonNegL] at hp
    have hpa : 0 ≤ qlen a.len := hp.1
    have hpb : 0 ≤ qlen b.len := hp.2.2.1
    have hta : ∀ y ∈ tipDists a, (qlen a.len + r) + y = H := by
      intro y hy
      have := htip (y + qlen a.len) (by rw [tipDists_node]; exact child_mem_tipDistsL List.mem_cons_self hy)
      linarith
    have htb : ∀ y ∈ tipDists b, (qlen b.len + r) + y = H := by
      intro y hy
      have := htip (y + qlen b.len) (by
        rw [tipDists_node]; exact child_mem_tipDistsL (List.mem_cons_of_mem _ List.mem_cons_self) hy)
      linarith
    have iha := cross_count_all d H hdH a (qlen a.len + r) hb.1 hp.2.1 hta
    have ihb := cross_count_all d H hdH b (qlen b.len + r) hb.2 hp.2.2.2.1 htb
    have key : ∀ (c : T), 0 ≤ qlen c.len → (∀ y ∈ tipDists c, (qlen c.len + r) + y = H) →
        (edgesL (qlen c.len + r) c.cs).countP (crossAll d)
          = intBefore d (qlen c.len + r) c + (if !c.isLeaf && decide (qlen c.len + r < d) then 1 else 0)
            + (edgesL (qlen c.len + r) c.cs).countP (zeroAt d) →
        (if crossAll d (r, qlen c.len + r) then 1 else 0) + (edgesL (qlen c.len + r) c.cs).countP (crossAll d)
          = intBefore d (qlen c.len + r) c + (if r < d then 1 else 0)
            + ((if zeroAt d (r, qlen c.len + r) then 1 else 0) + (edgesL (qlen c.len + r) c.cs).countP (zeroAt d)) := by
      intro c hpc htc ih
      rw [ih]
      by_cases h1 : r < d
      · have hz : zeroAt d (r, qlen c.len + r) = false := by
          simp only [zeroAt, decide_eq_false_iff_not, not_and]; intro h; linarith
        by_cases h2 : qlen c.len + r < d
        · have hint : c.isLeaf = false := by
            cases hc : c.isLeaf with
            | false => rfl
            | true =>
              exfalso
              have : tipDists c = [0] := by
                cases c with
                | node i x l s cs =>
                  cases cs with
                  | nil => simp [tipDists]
                  | cons k ks => simp [T.isLeaf, T.cs] at hc
              have := htc 0 (by rw [this]; simp)
              linarith
          have hcr : crossAll d (r, qlen c.len + r) = false := by
            simp only [crossAll, decide_eq_false_iff_not, not_or, not_and, not_le]
            exact ⟨ne_of_lt h2, fun _ => h2⟩
          simp [hcr, hint, h1, h2, hz]
        · have hcr : crossAll d (r, qlen c.len + r) = true := by
            simp only [crossAll, decide_eq_true_eq]; exact Or.inr ⟨h1, not_lt.mp h2⟩
          simp [hcr, h1, h2, hz]; omega
      · have h2 : ¬ (qlen c.len + r < d) := by intro h; exact h1 (by linarith)
        have heq : crossAll d (r, qlen c.len + r) = zeroAt d (r, qlen c.len + r) := by
          rw [Bool.eq_iff_iff]
          simp only [crossAll, zeroAt, decide_eq_true_eq]
          constructor
          · rintro (h | ⟨h, _⟩)
            · exact ⟨by linarith [not_lt.mp h1], h⟩
            · exact absurd h h1
          · rintro ⟨_, h⟩; exact Or.inl h
        simp [heq, h1, h2]; omega
    have ka := key a hpa hta iha
    have kb := key b hpb htb ihb
    have hcs : (T.node i x l s [a, b]).cs = [a, b] := rfl
    have hlf : (T.node i x l s [a, b]).isLeaf = false := rfl
    rw [hcs, hlf]
    simp only [edgesL_cons, edgesL, List.append_nil, List.countP_cons, List.countP_append, intBefore, intBeforeL]
    by_cases h1 : r < d <;> simp [h1] at ka kb ⊢ <;> omega

end DendroModel.C17.Aux
