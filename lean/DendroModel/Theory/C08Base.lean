import DendroModel.Model.C08
/-! C08 — helper lemmas (core Lean only): suppression commutes with restriction, the leaf-removal loop reaches the
induced subtree, the post-order pass of `prune_taxa` is one pass of that loop. -/
namespace DendroModel.C08
open DendroModel

-- every node that has children carries no taxon (taxa sit on leaves: the domain the property speaks about)
mutual
def InnerNoTaxon : T → Prop
  | .node _ x _ _ cs => (cs ≠ [] → x = none) ∧ InnerNoTaxonL cs
def InnerNoTaxonL : List T → Prop
  | [] => True
  | c :: cs => InnerNoTaxon c ∧ InnerNoTaxonL cs
end

/-- the filter rejects taxon-less nodes (every taxon-driven filter does) -/
def NoneRej (acc : Acc) : Prop := ∀ i, acc i none = false

namespace Aux

/-! ### suppression after restriction = restriction with merging -/
mutual
theorem restrict_sup (keep : Acc) : ∀ t : T, (restrict keep false t).map T.sup = restrict keep true t
  | .node i x l s [] => by
      simp only [restrict]; split <;> simp [T.sup, T.supL]
  | .node i x l s (c :: cs) => by
      have h := restrictL_sup keep (c :: cs)
      simp only [restrict]
      rw [← h]
      generalize restrictL keep false (c :: cs) = ks
      match ks with
      | [] => simp [T.supL]
      | [k] => simp [T.supL, T.sup]
      | k1 :: k2 :: r => simp [T.supL, T.sup]
theorem restrictL_sup (keep : Acc) : ∀ cs : List T, T.supL (restrictL keep false cs) = restrictL keep true cs
  | [] => rfl
  | c :: cs => by
      have h1 := restrict_sup keep c
      have h2 := restrictL_sup keep cs
      simp only [restrictL]
      cases hc : restrict keep false c with
      | none => rw [hc] at h1; simp at h1; rw [← h1]; simpa using h2
      | some r => rw [hc] at h1; simp at h1; rw [← h1]; simp [T.supL, h2]
end

theorem restrict_supIf (keep : Acc) (sup : Bool) (t : T) :
    (restrict keep false t).map (supIf sup) = restrict keep sup t := by
  cases sup
  · have : supIf false = id := by funext t; simp [supIf]
    rw [this]; simp
  · have : supIf true = T.sup := by funext t; simp [supIf]
    rw [this]; exact restrict_sup keep t

/-! ### one pass of the loop -/
theorem dropPass_leaf (acc : Acc) (i x l s) : dropPass acc (.node i x l s []) = .node i x l s [] := by
  simp [dropPass, dropPassL]

theorem rejected_leaf_restrict {acc : Acc} {sup : Bool} {c : T} (h : rejected acc c = true) : restrict acc sup c = none := by
  obtain ⟨i, x, l, s, cs⟩ := c
  cases cs with
  | nil => simp [rejected, T.isLeaf, T.cs, T.id, T.taxon] at h; simp [restrict, h]
  | cons d ds => simp [rejected, T.isLeaf, T.cs] at h

mutual
theorem dropPass_restrict (acc : Acc) (hN : NoneRej acc) : ∀ t : T, InnerNoTaxon t →
    restrict acc false (dropPass acc t) = restrict acc false t
  | .node i x l s [], _ => by rw [dropPass_leaf]
  | .node i x l s (c :: cs), h => by
      simp only [InnerNoTaxon] at h
      have hx : x = none := h.1 (by simp)
      have hl := dropPassL_restrict acc hN (c :: cs) h.2
      simp only [dropPass]
      cases hd : dropPassL acc (c :: cs) with
      | nil =>
        rw [hd] at hl
        have hl' : restrictL acc false (c :: cs) = [] := by rw [← hl]; simp [restrictL]
        simp only [restrict, hl', hx, hN i]
        simp
      | cons d ds =>
        rw [hd] at hl
        simp only [restrict, hl]
theorem dropPassL_restrict (acc : Acc) (hN : NoneRej acc) : ∀ cs : List T, InnerNoTaxonL cs →
    restrictL acc false (dropPassL acc cs) = restrictL acc false cs
  | [], _ => rfl
  | c :: cs, h => by
      simp only [InnerNoTaxonL] at h
      have h1 := dropPass_restrict acc hN c h.1
      have h2 := dropPassL_restrict acc hN cs h.2
      simp only [dropPassL]
      by_cases hr : rejected acc c = true
      · simp only [hr, if_true, restrictL, rejected_leaf_restrict hr, h2]
      · rw [if_neg hr]; simp only [restrictL, h1, h2]
end

mutual
theorem fix_restrict (acc : Acc) : ∀ t : T, rejLeaves acc t = [] → restrict acc false t = some t
  | .node i x l s [], h => by
      simp only [rejLeaves] at h
      by_cases ha : acc i x = true
      · simp [restrict, ha]
      · simp [ha] at h
  | .node i x l s (c :: cs), h => by
      simp only [rejLeaves] at h
      have hl := fixL_restrict acc (c :: cs) h
      simp only [restrict, hl]
      cases cs <;> simp
theorem fixL_restrict (acc : Acc) : ∀ cs : List T, rejLeavesL acc cs = [] → restrictL acc false cs = cs
  | [], _ => rfl
  | c :: cs, h => by
      simp only [rejLeavesL, List.append_eq_nil_iff] at h
      simp [restrictL, fix_restrict acc c h.1, fixL_restrict acc cs h.2]
end

theorem size_pos (t : T) : 0 < t.size := by
  obtain ⟨i, x, l, s, cs⟩ := t; simp [T.size]; omega

mutual
theorem dropPass_size_le (acc : Acc) : ∀ t : T, (dropPass acc t).size ≤ t.size
  | .node i x l s cs => by
      have := dropPassL_size_le acc cs
      simp only [dropPass, T.size]; omega
theorem dropPassL_size_le (acc : Acc) : ∀ cs : List T, T.sizeL (dropPassL acc cs) ≤ T.sizeL cs
  | [] => by simp [dropPassL]
  | c :: cs => by
      have h1 := dropPass_size_le acc c
      have h2 := dropPassL_size_le acc cs
      simp only [dropPassL]
      split
      · simp only [T.sizeL]; omega
      · simp only [T.sizeL]; omega
end

theorem rejLeaves_of_rejected {acc : Acc} {c : T} (h : rejected acc c = true) : rejLeaves acc c = [c.id] ∧ ids c = [c.id] := by
  obtain ⟨i, x, l, s, cs⟩ := c
  cases cs with
  | nil => simp [rejected, T.isLeaf, T.cs, T.id, T.taxon] at h; simp [rejLeaves, h, ids, idsL, T.id]
  | cons d ds => simp [rejected, T.isLeaf, T.cs] at h

theorem rejLeaves_leaf_ok {acc : Acc} {i x l s} (h : ¬ rejected acc (.node i x l s []) = true) :
    rejLeaves acc (.node i x l s []) = [] := by
  simp [rejected, T.isLeaf, T.cs, T.id, T.taxon] at h
  simp [rejLeaves, h]

mutual
theorem dropPass_size_lt (acc : Acc) : ∀ t : T, t.cs ≠ [] → rejLeaves acc t ≠ [] → (dropPass acc t).size < t.size
  | .node i x l s [], h, _ => by simp [T.cs] at h
  | .node i x l s (c :: cs), _, h => by
      simp only [rejLeaves] at h
      have := dropPassL_size_lt acc (c :: cs) h
      simp only [dropPass, T.size]; omega
theorem dropPassL_size_lt (acc : Acc) : ∀ cs : List T, rejLeavesL acc cs ≠ [] → T.sizeL (dropPassL acc cs) < T.sizeL cs
  | [], h => by simp [rejLeavesL] at h
  | c :: cs, h => by
      simp only [dropPassL]
      by_cases hr : rejected acc c = true
      · have := dropPassL_size_le acc cs
        have := size_pos c
        simp only [hr, if_true, T.sizeL]; omega
      · rw [if_neg hr]; simp only [T.sizeL]
        have hle1 := dropPass_size_le acc c
        have hle2 := dropPassL_size_le acc cs
        simp only [rejLeavesL] at h
        by_cases h1 : rejLeaves acc c = []
        · have h2 : rejLeavesL acc cs ≠ [] := by simpa [h1] using h
          have := dropPassL_size_lt acc cs h2
          omega
        · obtain ⟨i, x, l, s, ds⟩ := c
          cases ds with
          | nil => exact absurd (rejLeaves_leaf_ok hr) h1
          | cons d ds =>
            have := dropPass_size_lt acc (.node i x l s (d :: ds)) (by simp [T.cs]) h1
            omega
end

mutual
theorem dropPass_inner (acc : Acc) : ∀ t : T, InnerNoTaxon t → InnerNoTaxon (dropPass acc t)
  | .node i x l s cs, h => by
      simp only [InnerNoTaxon] at h
      simp only [dropPass, InnerNoTaxon]
      refine ⟨fun hne => h.1 ?_, dropPassL_inner acc cs h.2⟩
      intro hc; subst hc; simp [dropPassL] at hne
theorem dropPassL_inner (acc : Acc) : ∀ cs : List T, InnerNoTaxonL cs → InnerNoTaxonL (dropPassL acc cs)
  | [], _ => by simp [dropPassL, InnerNoTaxonL]
  | c :: cs, h => by
      simp only [InnerNoTaxonL] at h
      simp only [dropPassL]
      split
      · exact dropPassL_inner acc cs h.2
      · exact ⟨dropPass_inner acc c h.1, dropPassL_inner acc cs h.2⟩
end

mutual
theorem dropPass_perm (acc : Acc) : ∀ t : T, ¬ rejected acc t = true →
    (rejLeaves acc t ++ ids (dropPass acc t)).Perm (ids t)
  | .node i x l s [], h => by
      rw [rejLeaves_leaf_ok h, dropPass_leaf]; simp
  | .node i x l s (c :: cs), _ => by
      have h := dropPassL_perm acc (c :: cs)
      simp only [rejLeaves, dropPass, ids]
      exact (List.perm_middle).trans (List.Perm.cons i h)
theorem dropPassL_perm (acc : Acc) : ∀ cs : List T, (rejLeavesL acc cs ++ idsL (dropPassL acc cs)).Perm (idsL cs)
  | [] => by simp [rejLeavesL, dropPassL, idsL]
  | c :: cs => by
      have h2 := dropPassL_perm acc cs
      simp only [dropPassL, rejLeavesL]
      by_cases hr : rejected acc c = true
      · obtain ⟨e1, e2⟩ := rejLeaves_of_rejected hr
        simp only [hr, if_true, idsL, e1, e2]
        simpa using h2
      · have h1 := dropPass_perm acc c hr
        simp only [hr, idsL]
        -- (rc ++ rcs) ++ (ic' ++ ics') ~ ic ++ ics
        have : ((rejLeaves acc c ++ rejLeavesL acc cs) ++ (ids (dropPass acc c) ++ idsL (dropPassL acc cs))).Perm
            ((rejLeaves acc c ++ ids (dropPass acc c)) ++ (rejLeavesL acc cs ++ idsL (dropPassL acc cs))) := by
          simp only [List.append_assoc]
          apply List.Perm.append_left
          rw [← List.append_assoc, ← List.append_assoc]
          exact List.Perm.append_right _ List.perm_append_comm
        exact this.trans (List.Perm.append h1 h2)
end

/-! ### the loop reaches the induced subtree; its fuel suffices; the removed nodes are the complement -/
theorem dropLoop_spec (acc : Acc) (hN : NoneRej acc) : ∀ (fuel : Nat) (t : T) (rem : List Nat),
    InnerNoTaxon t → t.size ≤ fuel →
    (∀ r, restrict acc false t = some r →
        ∃ rm, dropLoop acc true fuel t rem = some (r, rem ++ rm) ∧ (rm ++ ids r).Perm (ids t)) ∧
    (restrict acc false t = none → dropLoop acc true fuel t rem = none)
  | 0, t, _, _, hs => by have := size_pos t; omega
  | f + 1, t, rem, hI, hs => by
      simp only [dropLoop]
      by_cases hb : rejLeaves acc t = []
      · have hfix := fix_restrict acc t hb
        simp only [hb, List.isEmpty_nil, if_true, hfix]
        refine ⟨fun r hr => ⟨[], ?_, ?_⟩, fun h => by simp at h⟩
        · simp at hr; simp [hr]
        · simp at hr; simp [hr]
      · have hbe : (rejLeaves acc t).isEmpty = false := by
          cases hh : rejLeaves acc t with
          | nil => exact absurd hh hb
          | cons a b => rfl
        simp only [hbe]
        by_cases hleaf : t.isLeaf = true
        · obtain ⟨i, x, l, s, cs⟩ := t
          cases cs with
          | cons d ds => simp [T.isLeaf, T.cs] at hleaf
          | nil =>
            have ha : acc i x = false := by
              by_cases ha : acc i x = true
              · simp [rejLeaves, ha] at hb
              · simpa using ha
            simp [T.isLeaf, T.cs, restrict, ha]
        · have hcs : t.cs ≠ [] := by
            intro h; apply hleaf; simp [T.isLeaf, h]
          have hlt := dropPass_size_lt acc t hcs hb
          have hrej : ¬ rejected acc t = true := by simp [rejected, hleaf]
          have ih := dropLoop_spec acc hN f (dropPass acc t) (rem ++ rejLeaves acc t) (dropPass_inner acc t hI) (by omega)
          rw [dropPass_restrict acc hN t hI] at ih
          simp only [hleaf, Bool.false_eq_true, if_false, if_true]
          refine ⟨fun r hr => ?_, fun h => ih.2 h⟩
          obtain ⟨rm, e, p⟩ := ih.1 r hr
          refine ⟨rejLeaves acc t ++ rm, by simpa [List.append_assoc] using e, ?_⟩
          have p2 := dropPass_perm acc t hrej
          calc (rejLeaves acc t ++ rm ++ ids r).Perm (rejLeaves acc t ++ (rm ++ ids r)) := by simp
            _ |>.Perm (rejLeaves acc t ++ ids (dropPass acc t)) := List.Perm.append_left _ p
            _ |>.Perm (ids t) := p2

end Aux
end DendroModel.C08
