import DendroModel.Theory.Suppress
/-! Prototype: the converse of `clades_injective` — trees that are the same up to child order have
    the same root mask and the same clade set.  Closes the "iff" of C01(c) (rooted). -/
namespace DendroModel.Hier

theorem isoL_mem {cs ds : List T} (h : IsoL cs ds) {c : T} (hc : c ∈ cs) : ∃ d ∈ ds, Iso c d := by
  induction cs with
  | nil => cases hc
  | cons x xs ih =>
    simp only [IsoL] at h
    rcases List.mem_cons.mp hc with rfl | h'
    · exact h.1
    · exact ih h.2 h'

mutual
theorem iso_same : ∀ (t u : T), Iso t u → Good t → Good u → mask t ≠ 0 → mask u ≠ 0 →
    mask t = mask u ∧ ∀ x, x ∈ clades t ↔ x ∈ clades u
  | .leaf i, u, h, _, _, _, _ => by
      simp only [Iso] at h; subst h; exact ⟨rfl, fun x => Iff.rfl⟩
  | .node cs, u, h, hgt, hgu, _, _ => by
      simp only [Iso] at h
      obtain ⟨ds, rfl, hlen, hL⟩ := h
      simp only [Good] at hgt hgu
      -- each child has a partner with the same mask and clades
      have hpart : ∀ c ∈ cs, ∃ d ∈ ds, mask c = mask d ∧ ∀ x, x ∈ clades c ↔ x ∈ clades d := by
        intro c hc
        obtain ⟨d, hd, hiso⟩ := isoL_mem hL hc
        have gc := goodL_mem hgt hc
        have gd := goodL_mem hgu hd
        have := iso_sameL cs c hc d hiso gc.1 gd.1 gc.2 gd.2
        exact ⟨d, hd, this.1, this.2⟩
      -- the mask lists are permutations of each other
      have hsub : (cs.map mask) ⊆ (ds.map mask) := by
        intro m hm
        rcases List.mem_map.mp hm with ⟨c, hc, rfl⟩
        obtain ⟨d, hd, hm', _⟩ := hpart c hc
        exact List.mem_map.mpr ⟨d, hd, hm'.symm⟩
      have hperm : (cs.map mask).Perm (ds.map mask) :=
        (List.subperm_of_subset (masks_nodup hgt) hsub).perm_of_length_le (by simp [hlen])
      -- hence every d has a c with the same mask, and that c's partner is d itself
      have hback : ∀ d ∈ ds, ∃ c ∈ cs, mask c = mask d ∧ ∀ x, x ∈ clades c ↔ x ∈ clades d := by
        intro d hd
        have : mask d ∈ cs.map mask := hperm.symm.subset (List.mem_map.mpr ⟨d, hd, rfl⟩)
        rcases List.mem_map.mp this with ⟨c, hc, hcm⟩
        obtain ⟨d', hd', hm', hcl⟩ := hpart c hc
        have hd0 := (goodL_mem hgu hd).2
        have hinter : mask d' &&& mask d ≠ 0 := by
          rw [← hm', hcm, Nat.and_self]; exact hd0
        have : d' = d := goodL_eq_of_inter hgu hd' hd hinter
        subst this
        exact ⟨c, hc, hm', hcl⟩
      have hroot : maskL cs = maskL ds := by
        apply bits_inj
        rw [bits_maskL, bits_maskL]
        ext y; simp only [Set.mem_iUnion]
        constructor
        · rintro ⟨c, hc, hy⟩
          obtain ⟨d, hd, hm, _⟩ := hpart c hc
          exact ⟨d, hd, by rw [← hm]; exact hy⟩
        · rintro ⟨d, hd, hy⟩
          obtain ⟨c, hc, hm, _⟩ := hback d hd
          exact ⟨c, hc, by rw [hm]; exact hy⟩
      refine ⟨by simpa [mask] using hroot, ?_⟩
      intro x
      simp only [clades, List.mem_cons, hroot, mem_cladesL]
      constructor
      · rintro (h | ⟨c, hc, hx⟩)
        · exact Or.inl h
        · obtain ⟨d, hd, _, hcl⟩ := hpart c hc
          exact Or.inr ⟨d, hd, (hcl x).mp hx⟩
      · rintro (h | ⟨d, hd, hx⟩)
        · exact Or.inl h
        · obtain ⟨c, hc, _, hcl⟩ := hback d hd
          exact Or.inr ⟨c, hc, (hcl x).mpr hx⟩
theorem iso_sameL : ∀ (cs : List T), ∀ c ∈ cs, ∀ d : T, Iso c d → Good c → Good d → mask c ≠ 0 → mask d ≠ 0 →
    mask c = mask d ∧ ∀ x, x ∈ clades c ↔ x ∈ clades d
  | [], c, hc => by cases hc
  | c0 :: cs, c, hc => by
      intro d h1 h2 h3 h4 h5
      rcases List.mem_cons.mp hc with h | hc'
      · rw [h] at h1 h2 h4 ⊢
        exact iso_same c0 d h1 h2 h3 h4 h5
      · exact iso_sameL cs c hc' d h1 h2 h3 h4 h5
end

/-- C01(c), rooted: for well-formed trees, equal clade sets ⇔ same topology after suppressing unifurcations -/
theorem clades_eq_iff_iso (t u : T) (hgt : Good t) (ht0 : mask t ≠ 0) (hgu : Good u) (hu0 : mask u ≠ 0) :
    (∀ x, x ∈ clades t ↔ x ∈ clades u) ↔ Iso (sup t) (sup u) := by
  constructor
  · exact same_clades_same_topology t u hgt ht0 hgu hu0
  · intro h x
    have := (iso_same (sup t) (sup u) h (sup_good t hgt) (sup_good u hgu)
      (by rw [sup_mask]; exact ht0) (by rw [sup_mask]; exact hu0)).2 x
    rw [sup_clades, sup_clades] at this
    exact this

end DendroModel.Hier
