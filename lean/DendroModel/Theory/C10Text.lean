import DendroModel.Theory.C10Esc
/-! C10 — the printed Newick rendering determines its token lists: a local tokenizer for one token, and injectivity of
the printer on well-formed (non-empty) tokens. -/
namespace DendroModel.C10.Aux
open DendroModel DendroModel.C10

/-- a separator or closing character follows (what comes after a token inside a group) -/
def StartsSep (cs : List Char) : Prop := ∃ r, cs = ',' :: r ∨ cs = ')' :: r

/-- the tokens `escapeToken` produces for non-empty labels: quoted with inner quotes doubled, or a non-empty run free
of quote, comma and closing parenthesis -/
inductive Tok : List Char → Prop
  | quoted (body : List Char) : Tok ('\'' :: (body.flatMap dbl ++ ['\'']))
  | bare (cs : List Char) (hne : cs ≠ []) (h : ∀ c ∈ cs, c ≠ '\'' ∧ c ≠ ',' ∧ c ≠ ')') : Tok cs

/-- read the rest of a quoted token (after the opening quote) up to and including the closing quote; the flag says
that the previous character was a quote that may be the closing one or the first half of a doubled quote -/
def lexQ : Bool → List Char → Option (List Char × List Char)
  | false, [] => none
  | true, [] => some ([], [])
  | false, c :: r =>
    if c = '\'' then (lexQ true r).map (fun p => ('\'' :: p.1, p.2)) else (lexQ false r).map (fun p => (c :: p.1, p.2))
  | true, c :: r =>
    if c = '\'' then (lexQ false r).map (fun p => ('\'' :: p.1, p.2)) else some ([], c :: r)

/-- read an unquoted token: up to the next comma or closing parenthesis -/
def lexB : List Char → List Char × List Char
  | [] => ([], [])
  | c :: r => if c = ',' ∨ c = ')' then ([], c :: r) else ((c :: (lexB r).1), (lexB r).2)

/-- read one token -/
def lexTok : List Char → Option (List Char × List Char)
  | [] => none
  | c :: r => if c = '\'' then (lexQ false r).map (fun p => ('\'' :: p.1, p.2)) else some (lexB (c :: r))

theorem lexQ_body : ∀ (body X : List Char), (∀ r, X ≠ '\'' :: r) →
    lexQ false (body.flatMap dbl ++ '\'' :: X) = some (body.flatMap dbl ++ ['\''], X) := by
  intro body
  induction body with
  | nil =>
    intro X hX
    cases X with
    | nil => simp [lexQ]
    | cons d r' =>
      have : d ≠ '\'' := fun e => hX r' (by rw [e])
      simp [lexQ, this]
  | cons c body ih =>
    intro X hX
    by_cases hc : c = '\''
    · subst hc
      have : dbl '\'' = ['\'', '\''] := by simp [dbl]
      simp only [List.flatMap_cons, this, List.cons_append, List.nil_append, lexQ, if_true, ih X hX]
      rfl
    · have : dbl c = [c] := by simp [dbl, hc]
      simp only [List.flatMap_cons, this, List.cons_append, List.nil_append, lexQ, if_neg hc, ih X hX]
      rfl

theorem lexB_spec : ∀ (t X : List Char), (∀ c ∈ t, c ≠ ',' ∧ c ≠ ')') → (X = [] ∨ StartsSep X) → lexB (t ++ X) = (t, X) := by
  intro t
  induction t with
  | nil =>
    intro X _ hX
    rcases hX with rfl | ⟨r, rfl | rfl⟩ <;> simp [lexB]
  | cons c t ih =>
    intro X h hX
    have hc := h c (by simp)
    have : ¬ (c = ',' ∨ c = ')') := by intro e; rcases e with e | e; exact hc.1 e; exact hc.2 e
    simp only [List.cons_append, lexB, if_neg this, ih X (fun x hx => h x (by simp [hx])) hX]

theorem startsSep_not_quote {X : List Char} (h : StartsSep X) : ∀ r, X ≠ '\'' :: r := by
  obtain ⟨r', h | h⟩ := h <;> (intro r e; rw [h] at e; simp at e)

/-- the tokenizer reads back exactly the token that was printed -/
theorem lexTok_spec {t : List Char} (ht : Tok t) (X : List Char) (hX : StartsSep X) : lexTok (t ++ X) = some (t, X) := by
  cases ht with
  | quoted body =>
    have e : '\'' :: (body.flatMap dbl ++ ['\'']) ++ X = '\'' :: (body.flatMap dbl ++ '\'' :: X) := by simp
    rw [e]
    simp only [lexTok, if_true, lexQ_body body X (startsSep_not_quote hX)]
    rfl
  | bare _ hne h =>
    cases t with
    | nil => exact absurd rfl hne
    | cons c r =>
      have hc := (h c (by simp)).1
      have := lexB_spec (c :: r) X (fun x hx => ⟨(h x hx).2.1, (h x hx).2.2⟩) (Or.inr hX)
      simp only [List.cons_append] at this ⊢
      simp only [lexTok, if_neg hc, this]

theorem tok_prefix_free {t t' X X' : List Char} (ht : Tok t) (ht' : Tok t') (hX : StartsSep X) (hX' : StartsSep X')
    (h : t ++ X = t' ++ X') : t = t' ∧ X = X' := by
  have a := lexTok_spec ht X hX
  have b := lexTok_spec ht' X' hX'
  rw [h, b] at a
  simp only [Option.some.injEq, Prod.mk.injEq] at a
  exact ⟨a.1.symm, a.2.symm⟩

theorem tok_head {t : List Char} (ht : Tok t) : ∃ c r, t = c :: r ∧ c ≠ ',' ∧ c ≠ ')' := by
  cases ht with
  | quoted body => exact ⟨'\'', _, rfl, by decide, by decide⟩
  | bare _ hne h =>
    cases t with
    | nil => exact absurd rfl hne
    | cons c r => exact ⟨c, r, rfl, (h c (by simp)).2.1, (h c (by simp)).2.2⟩

/-- tokens joined by a separator that starts with a comma -/
def renderItems (sep : List Char) : List (List Char) → List Char
  | [] => []
  | t :: ts => t ++ ts.flatMap (fun a => sep ++ a)

theorem intercalate_eq (sep : List Char) : ∀ (ts : List (List Char)), sep.intercalate ts = renderItems sep ts := by
  intro ts
  cases ts with
  | nil => simp [List.intercalate, renderItems]
  | cons t ts =>
    induction ts generalizing t with
    | nil => simp [List.intercalate, renderItems]
    | cons u us ih =>
      have := ih u
      simp only [List.intercalate, renderItems] at this ⊢
      simp [List.intersperse, this]

/-- the printer of a group is injective on well-formed tokens (whatever follows the closing parenthesis) -/
theorem renderItems_inj (sep' : List Char) : ∀ (l l' : List (List Char)) (X X' : List Char),
    (∀ t ∈ l, Tok t) → (∀ t ∈ l', Tok t) →
    renderItems (',' :: sep') l ++ ')' :: X = renderItems (',' :: sep') l' ++ ')' :: X' → l = l' ∧ X = X' := by
  have tail : ∀ (ts ts' : List (List Char)) (X X' : List Char), (∀ t ∈ ts, Tok t) → (∀ t ∈ ts', Tok t) →
      ts.flatMap (fun a => (',' :: sep') ++ a) ++ ')' :: X = ts'.flatMap (fun a => (',' :: sep') ++ a) ++ ')' :: X' →
      ts = ts' ∧ X = X' := by
    intro ts
    induction ts with
    | nil =>
      intro ts' X X' _ _ h
      cases ts' with
      | nil => simp at h; exact ⟨rfl, h⟩
      | cons u us => simp at h
    | cons u us ih =>
      intro ts' X X' hl hl' h
      cases ts' with
      | nil => simp at h
      | cons u' us' =>
        simp only [List.flatMap_cons, List.cons_append, List.append_assoc, List.cons.injEq, true_and] at h
        have hs : ∀ (ws : List (List Char)) (Y : List Char), StartsSep (ws.flatMap (fun a => (',' :: sep') ++ a) ++ ')' :: Y) := by
          intro ws Y
          cases ws with
          | nil => exact ⟨Y, Or.inr (by simp)⟩
          | cons w ws => exact ⟨_, Or.inl (by simp only [List.flatMap_cons, List.cons_append, List.append_assoc]; rfl)⟩
        -- strip the separator's tail `sep'`
        have h2 := List.append_cancel_left h
        obtain ⟨e1, e2⟩ := tok_prefix_free (hl u (by simp)) (hl' u' (by simp)) (hs us X) (hs us' X') h2
        obtain ⟨e3, e4⟩ := ih us' X X' (fun t ht => hl t (by simp [ht])) (fun t ht => hl' t (by simp [ht])) e2
        exact ⟨by rw [e1, e3], e4⟩
  intro l l' X X' hl hl' h
  have hs : ∀ (ws : List (List Char)) (Y : List Char), StartsSep (ws.flatMap (fun a => (',' :: sep') ++ a) ++ ')' :: Y) := by
    intro ws Y
    cases ws with
    | nil => exact ⟨Y, Or.inr (by simp)⟩
    | cons w ws => exact ⟨_, Or.inl (by simp only [List.flatMap_cons, List.cons_append, List.append_assoc]; rfl)⟩
  cases l with
  | nil =>
    cases l' with
    | nil => simp [renderItems] at h; exact ⟨rfl, h⟩
    | cons t' ts' =>
      obtain ⟨c, r, e, _, hc⟩ := tok_head (hl' t' (by simp))
      simp only [renderItems, List.nil_append, e, List.cons_append, List.cons.injEq] at h
      exact absurd h.1.symm hc
  | cons t ts =>
    cases l' with
    | nil =>
      obtain ⟨c, r, e, _, hc⟩ := tok_head (hl t (by simp))
      simp only [renderItems, List.nil_append, e, List.cons_append, List.cons.injEq] at h
      exact absurd h.1 hc
    | cons t' ts' =>
      simp only [renderItems, List.append_assoc] at h
      obtain ⟨e1, e2⟩ := tok_prefix_free (hl t (by simp)) (hl' t' (by simp)) (hs ts X) (hs ts' X') h
      obtain ⟨e3, e4⟩ := tail ts ts' X X' (fun t ht => hl t (by simp [ht])) (fun t ht => hl' t (by simp [ht])) e2
      exact ⟨by rw [e1, e3], e4⟩

end DendroModel.C10.Aux

namespace DendroModel.C10.Aux
open DendroModel DendroModel.C10

theorem comma_protected : Tables.protectDefault.contains ',' = true := by decide
theorem rparen_protected : Tables.protectDefault.contains ')' = true := by decide

theorem unprotected_chars {cs : List Char} (h : cs.any (fun c => Tables.protectDefault.contains c) = false) :
    ∀ c ∈ cs, c ≠ '\'' ∧ c ≠ ',' ∧ c ≠ ')' := by
  rw [List.any_eq_false] at h
  intro c hc
  refine ⟨?_, ?_, ?_⟩ <;> (intro e; subst e; exact h _ hc (by decide))

/-- the token of a non-empty label is well-formed -/
theorem escL_tok (ps qu : Bool) (cs : List Char) (hne : cs ≠ []) : Tok (escL ps qu cs) := by
  by_cases hA : (!ps && !cs.contains '_' && !cs.any (fun c => Tables.protectDefault.contains c)) = true
  · have e : escL ps qu cs = cs.map blankToUs := by unfold escL; rw [if_pos hA]
    rw [e]
    have hP : cs.any (fun c => Tables.protectDefault.contains c) = false := by
      simp only [Bool.and_eq_true, Bool.not_eq_true'] at hA; exact hA.2
    refine .bare _ (by simpa using hne) ?_
    intro c' hc'
    obtain ⟨c, hc, rfl⟩ := List.mem_map.1 hc'
    obtain ⟨h1, h2, h3⟩ := unprotected_chars hP c hc
    unfold blankToUs
    split
    · exact ⟨by decide, by decide, by decide⟩
    · exact ⟨h1, h2, h3⟩
  · by_cases hB : (cs.any (fun c => Tables.protectDefault.contains c) || cs.contains ' ' || (qu && cs.contains '_')) = true
    · have e : escL ps qu cs = '\'' :: (cs.flatMap dbl ++ ['\'']) := by unfold escL; rw [if_neg hA, if_pos hB]
      rw [e]; exact .quoted cs
    · have e : escL ps qu cs = cs := by unfold escL; rw [if_neg hA, if_neg hB]
      rw [e]
      have hP : cs.any (fun c => Tables.protectDefault.contains c) = false := by
        simp only [Bool.or_eq_true, not_or, Bool.not_eq_true] at hB; exact hB.1.1
      exact .bare _ hne (unprotected_chars hP)

/-- the characters of the two-group rendering -/
def sidesText (l r : List (List Char)) : List Char :=
  '(' :: '(' :: (renderItems [',', ' '] l ++ ')' :: ',' :: ' ' :: '(' :: (renderItems [',', ' '] r ++ [')', ')', ';']))

theorem text_toList (l r : List String) :
    (Rendering.text (.sides l r)).toList = sidesText (l.map String.toList) (r.map String.toList) := by
  simp only [Rendering.text, String.toList_append, String.toList_intercalate, intercalate_eq, sidesText]
  simp

theorem sidesText_inj (l r l' r' : List (List Char)) (hl : ∀ t ∈ l, Tok t) (hr : ∀ t ∈ r, Tok t)
    (hl' : ∀ t ∈ l', Tok t) (hr' : ∀ t ∈ r', Tok t) (h : sidesText l r = sidesText l' r') : l = l' ∧ r = r' := by
  simp only [sidesText, List.cons.injEq, true_and] at h
  obtain ⟨e1, e2⟩ := renderItems_inj [' '] l l' _ _ hl hl' h
  simp only [List.cons.injEq, true_and] at e2
  obtain ⟨e3, _⟩ := renderItems_inj [' '] r r' _ _ hr hr' e2
  exact ⟨e1, e3⟩

theorem toList_ne_nil {x : String} (h : x ≠ "") : x.toList ≠ [] := by
  intro e
  apply h
  have := String.ofList_toList (s := x)
  rw [e] at this
  exact this.symm

end DendroModel.C10.Aux
