import DendroModel.Theory.C02NexusDoc
import DendroModel.Theory.C02Nexml
/-! NeXML: the otus block the writer model emits, read by the reader model — namespace labels and order -/
namespace DendroModel.C02
namespace Aux

/-- `otu id ↦ label` as the reader records it for the writer's otus -/
def otuPairs : List Str → Nat → List (Nat × Str)
  | [], _ => []
  | l :: ls, i => (i, l) :: otuPairs ls (i + 1)

theorem truthy_some (l : Str) (h : l ≠ []) : truthy (some l) = some l := by
  cases l with
  | nil => exact absurd rfl h
  | cons a b => rfl

/-- into a namespace that holds none of the labels yet: appended in order -/
theorem otus_fresh (cf : Char → Char) : ∀ (ns : List Str) (k : Nat) (acc : List Str) (m : List (Nat × Str)),
    (∀ l ∈ ns, l ≠ []) → DistinctCI cf (acc ++ ns) →
    nxOtus cf (otuList ns k) acc m = some (acc ++ ns, m ++ otuPairs ns k)
  | [], k, acc, m, _, _ => by simp [otuList, nxOtus, otuPairs]
  | l :: ls, k, acc, m, hne, hd => by
    have hfresh := find_none cf acc l (distinct_snoc_fresh cf acc l ls hd)
    have ih := otus_fresh cf ls (k + 1) (acc ++ [l]) (m ++ [(k, l)]) (fun x hx => hne x (by simp [hx])) (by simpa using hd)
    simp only [otuList, truthy_some l (hne l (by simp)), nxOtus, hfresh]
    rw [ih]
    simp [otuPairs]

/-- into the caller's namespace that already holds the labels: unchanged, every otu resolves to its member -/
theorem otus_known (cf : Char → Char) (ns0 : List Str) (hU : CaseCons cf ns0) : ∀ (ns : List Str) (k : Nat) (m : List (Nat × Str)),
    (∀ l ∈ ns, l ≠ [] ∧ l ∈ ns0) →
    nxOtus cf (otuList ns k) ns0 m = some (ns0, m ++ otuPairs ns k)
  | [], k, m, _ => by simp [otuList, nxOtus, otuPairs]
  | l :: ls, k, m, h => by
    have hf := find_ci_mem cf ns0 hU l (h l (by simp)).2
    have ih := otus_known cf ns0 hU ls (k + 1) (m ++ [(k, l)]) (fun x hx => h x (by simp [hx]))
    simp only [otuList, truthy_some l (h l (by simp)).1, nxOtus, hf]
    rw [ih]
    simp [otuPairs]

end Aux
end DendroModel.C02
