import DendroModel.Theory.C16Up
import DendroModel.Theory.C16Cols
/-! C16 theory, part 8: the machines the driver runs — `runNodes` (down pass) followed by `runUp` (up pass) on the attribute store of a
fully bifurcating tree with distinct nodes — leave on every node the row whose character `c` is `finAt … (col c bv)`, the per-character
recursion of `Theory/C16Up.lean`. -/
namespace DendroModel.C16

/-- the down-pass row of a node (the sets do not depend on weights or accumulators) -/
def rowB (ws : List Nat) : BV → Row
  | .leaf row => row
  | .node l r => (pairLoop ws (rowB ws l) (rowB ws r)).1

/-- every node of `t` carries its down-pass row -/
inductive Stored (ws : List Nat) (attrs : Attrs) : T → BV → Prop
  | leaf {i : Nat} {x : Option Nat} {l : Option Frac} {s : Option String} {row : Row} :
      getAttr attrs i = some row → Stored ws attrs (.node i x l s []) (.leaf row)
  | node {i : Nat} {x : Option Nat} {l : Option Frac} {s : Option String} {a b : T} {ba bb : BV} :
      getAttr attrs i = some (rowB ws (.node ba bb)) → Stored ws attrs a ba → Stored ws attrs b bb →
      Stored ws attrs (.node i x l s [a, b]) (.node ba bb)

/-- the row the up pass leaves on a child of a node whose final row is `F` -/
def childFinalRow (ws : List Nat) (F : Row) : BV → Row
  | .leaf row => row
  | .node l r => upLoop F (rowB ws (.node l r)) (rowB ws l) (rowB ws r)

/-- the weighted number of changes the down pass adds to the score on this subtree -/
def costB (ws : List Nat) : BV → Nat
  | .leaf _ => 0
  | .node l r => costB ws l + costB ws r + sumL (pairLoop ws (rowB ws l) (rowB ws r)).2

/-- the node carries `F`, its descendants what the up pass derives from it -/
inductive FinStored (ws : List Nat) (attrs : Attrs) : Row → T → BV → Prop
  | leaf {i : Nat} {x : Option Nat} {l : Option Frac} {s : Option String} {row F : Row} :
      getAttr attrs i = some F → FinStored ws attrs F (.node i x l s []) (.leaf row)
  | node {i : Nat} {x : Option Nat} {l : Option Frac} {s : Option String} {a b : T} {ba bb : BV} {F : Row} :
      getAttr attrs i = some F → FinStored ws attrs (childFinalRow ws F ba) a ba → FinStored ws attrs (childFinalRow ws F bb) b bb →
      FinStored ws attrs F (.node i x l s [a, b]) (.node ba bb)

namespace Aux

theorem stored_root {ws : List Nat} {attrs : Attrs} {t : T} {bv : BV} (h : Stored ws attrs t bv) :
    getAttr attrs t.id = some (rowB ws bv) := by
  cases h with
  | leaf h => simpa [T.id, rowB] using h
  | node h _ _ => simpa [T.id] using h

theorem stored_congr {ws : List Nat} {attrs attrs' : Attrs} {t : T} {bv : BV} (h : Stored ws attrs t bv)
    (hf : ∀ j, j ∈ ids t → getAttr attrs' j = getAttr attrs j) : Stored ws attrs' t bv := by
  induction h with
  | @leaf i x l s row h => exact .leaf (by rw [hf i (by simp [ids_leaf])]; exact h)
  | @node i x l s a b ba bb h _ _ iha ihb =>
    have hi : ∀ j, j ∈ ids a ∨ j ∈ ids b → j ∈ ids (T.node i x l s [a, b]) := by
      intro j hj; rw [ids_node2]; simp only [List.mem_cons, List.mem_append]; exact Or.inr hj
    exact .node (by rw [hf i (by rw [ids_node2]; simp)]; exact h)
      (iha (fun j hj => hf j (hi j (Or.inl hj)))) (ihb (fun j hj => hf j (hi j (Or.inr hj))))

theorem finStored_congr {ws : List Nat} {attrs attrs' : Attrs} {F : Row} {t : T} {bv : BV} (h : FinStored ws attrs F t bv)
    (hf : ∀ j, j ∈ ids t → getAttr attrs' j = getAttr attrs j) : FinStored ws attrs' F t bv := by
  induction h with
  | @leaf i x l s row F h => exact .leaf (by rw [hf i (by simp [ids_leaf])]; exact h)
  | @node i x l s a b ba bb F h _ _ iha ihb =>
    have hi : ∀ j, j ∈ ids a ∨ j ∈ ids b → j ∈ ids (T.node i x l s [a, b]) := by
      intro j hj; rw [ids_node2]; simp only [List.mem_cons, List.mem_append]; exact Or.inr hj
    exact .node (by rw [hf i (by rw [ids_node2]; simp)]; exact h)
      (iha (fun j hj => hf j (hi j (Or.inl hj)))) (ihb (fun j hj => hf j (hi j (Or.inr hj))))

theorem ne_of_mem {j i : Nat} {L : List Nat} (hj : j ∈ L) (hi : i ∉ L) : j ≠ i := fun e => hi (e ▸ hj)

theorem nodup2 {i : Nat} {A B : List Nat} (h : (i :: (A ++ B)).Nodup) :
    i ∉ A ∧ i ∉ B ∧ A.Nodup ∧ B.Nodup ∧ (∀ j, j ∈ A → j ∉ B) := by
  simp only [List.nodup_cons, List.nodup_append, List.mem_append, not_or] at h
  exact ⟨h.1.1, h.1.2, h.2.1, h.2.2.1, fun j ha hb => h.2.2.2 j ha j hb rfl⟩

theorem stepNode_bin {m : Matrix} {ws : List Nat} {st : St} {i : Nat} {x : Option Nat} {l : Option Frac} {s : Option String}
    {a b : T} {L R : Row} (ra : getAttr st.attrs a.id = some L) (rb : getAttr st.attrs b.id = some R) :
    stepNode m ws st (.node i x l s [a, b]) =
      if shortHit ws L R then .error .indexError
      else .ok { attrs := (i, (pairLoop ws L R).1) :: st.attrs, score := st.score + sumL (pairLoop ws L R).2,
                 bychar := addL st.bychar (pairLoop ws L R).2 } := by
  simp only [stepNode, T.cs, ra, foldKids, rb, id_node]
  by_cases hs : shortHit ws L R = true <;> simp [hs]

/-- **the down pass leaves every node its down-pass row** -/
theorem down_stored {m : Matrix} {ws : List Nat} {t : T} {bv : BV} (hv : View m t bv) :
    (ids t).Nodup → ∀ st st' : St, runNodes m ws st (post t) = .ok st' →
      Stored ws st'.attrs t bv ∧ (∀ j, j ∉ ids t → getAttr st'.attrs j = getAttr st.attrs j) ∧
      st'.score = st.score + costB ws bv := by
  induction hv with
  | @leaf i x l s row h =>
    intro _ st st' hr
    simp only [post, postL, List.nil_append, runNodes, stepNode, T.cs, T.taxon, h, T.id] at hr
    cases hr
    refine ⟨.leaf (getAttr_cons_self _ _ _), ?_, by simp [costB]⟩
    intro j hj
    rw [ids_leaf] at hj
    exact getAttr_cons_ne (by simpa using hj) _ _
  | @node i x l s a b ba bb hva hvb iha ihb =>
    intro hid st st' hr
    rw [ids_node2] at hid
    obtain ⟨hia, hib, hna, hnb, hdisj⟩ := nodup2 hid
    have hp : post (.node i x l s [a, b]) = post a ++ (post b ++ [.node i x l s [a, b]]) := by simp [post, postL]
    rw [hp, runNodes_append] at hr
    cases h1 : runNodes m ws st (post a) with
    | error e => rw [h1] at hr; cases hr
    | ok st1 =>
      rw [h1] at hr
      simp only at hr
      rw [runNodes_append] at hr
      cases h2 : runNodes m ws st1 (post b) with
      | error e => rw [h2] at hr; cases hr
      | ok st2 =>
        rw [h2] at hr
        simp only [runNodes] at hr
        obtain ⟨sa, fa, ca⟩ := iha hna st st1 h1
        obtain ⟨sb, fb, cb⟩ := ihb hnb st1 st2 h2
        have sa2 : Stored ws st2.attrs a ba := stored_congr sa (fun j hj => fb j (hdisj j hj))
        have ra := stored_root sa2
        have rb := stored_root sb
        rw [stepNode_bin ra rb] at hr
        by_cases hs : shortHit ws (rowB ws ba) (rowB ws bb) = true
        · simp [hs] at hr
        · simp [hs] at hr
          subst hr
          refine ⟨.node (getAttr_cons_self _ _ _) (stored_congr sa2 fun j hj => getAttr_cons_ne (ne_of_mem hj hia) _ _)
            (stored_congr sb fun j hj => getAttr_cons_ne (ne_of_mem hj hib) _ _), ?_, by simp only [costB]; omega⟩
          intro j hj
          rw [ids_node2] at hj
          simp only [List.mem_cons, List.mem_append, not_or] at hj
          rw [getAttr_cons_ne hj.1, fb j hj.2.2, fa j hj.2.1]

theorem rowB_len {ws : List Nat} {n : Nat} (hws : n ≤ ws.length) : ∀ (bv : BV), bv.All (fun row => row.length = n) →
    (rowB ws bv).length = n
  | .leaf _, h => h
  | .node l r, h => by
    have := (pairLoop_spec n ws _ _ hws (rowB_len hws l h.1) (rowB_len hws r h.2)).1
    simpa [rowB] using this

theorem runNodesNP_append (ws : List Nat) : ∀ (l₁ : List T) (st : St) (l₂ : List T),
    runNodesNP ws st (l₁ ++ l₂) =
      match runNodesNP ws st l₁ with
      | (st', none) => runNodesNP ws st' l₂
      | (st', some e) => (st', some e)
  | [], st, l₂ => by simp [runNodesNP]
  | nd :: l₁, st, l₂ => by
    simp only [List.cons_append, runNodesNP]
    cases stepNodeN ws st nd with
    | error e => rfl
    | ok st' => exact runNodesNP_append ws l₁ st' l₂

/-- **the down pass without a map on nodes that carry the rows of an earlier pass** recomputes the same rows and adds the same cost -/
theorem nomap_run {ws : List Nat} {n : Nat} (hws : n ≤ ws.length) : ∀ (bv : BV) (t : T) (A : Attrs), Stored ws A t bv →
    bv.All (fun row => row.length = n) → ∀ st : St, (∀ j, getAttr st.attrs j = getAttr A j) →
    ∃ st', runNodesNP ws st (post t) = (st', none) ∧ (∀ j, getAttr st'.attrs j = getAttr A j) ∧
      st'.score = st.score + costB ws bv := by
  intro bv
  induction bv with
  | leaf row =>
    intro t A h _ st heq
    cases h with
    | @leaf i x l s _ h =>
      refine ⟨st, ?_, heq, by simp [costB]⟩
      simp [post, postL, runNodesNP, stepNodeN, T.cs, id_node, heq i, h]
  | node ba bb iha ihb =>
    intro t A h hr st heq
    cases h with
    | @node i x l s a b _ _ h sa sb =>
      have hp : post (.node i x l s [a, b]) = post a ++ (post b ++ [.node i x l s [a, b]]) := by simp [post, postL]
      obtain ⟨st1, r1, e1, c1⟩ := iha a A sa hr.1 st heq
      obtain ⟨st2, r2, e2, c2⟩ := ihb b A sb hr.2 st1 e1
      have ra : getAttr st2.attrs a.id = some (rowB ws ba) := by rw [e2]; exact stored_root sa
      have rb : getAttr st2.attrs b.id = some (rowB ws bb) := by rw [e2]; exact stored_root sb
      have hl := (rowB_len hws ba hr.1)
      have hrr := (rowB_len hws bb hr.2)
      have hsh := shortHit_false n ws _ _ hws hl hrr
      refine ⟨{ attrs := (i, (pairLoop ws (rowB ws ba) (rowB ws bb)).1) :: st2.attrs,
                score := st2.score + sumL (pairLoop ws (rowB ws ba) (rowB ws bb)).2,
                bychar := addL st2.bychar (pairLoop ws (rowB ws ba) (rowB ws bb)).2 }, ?_, ?_, by simp only [costB]; omega⟩
      · rw [hp, runNodesNP_append, r1]
        simp only
        rw [runNodesNP_append, r2]
        simp only [runNodesNP, stepNodeN, T.cs]
        rw [stepNode_bin ra rb]
        simp [hsh]
      · intro j
        by_cases hj : j = i
        · subst hj
          rw [getAttr_cons_self, h]; rfl
        · rw [getAttr_cons_ne hj, e2]

theorem runUp_append (m : Option Matrix) : ∀ (l₁ : List (Option Nat × T)) (attrs : Attrs) (l₂ : List (Option Nat × T)),
    runUp m attrs (l₁ ++ l₂) =
      match runUp m attrs l₁ with
      | (attrs', none) => runUp m attrs' l₂
      | (attrs', some e) => (attrs', some e)
  | [], attrs, l₂ => by simp [runUp]
  | (par, nd) :: l₁, attrs, l₂ => by
    simp only [List.cons_append, runUp]
    cases upStep m attrs par nd with
    | error e => rfl
    | ok attrs' => exact runUp_append m l₁ attrs' l₂

/-- **the up pass below a node whose final row is stored**: every node of the subtree gets its final row, nothing else changes -/
theorem up_stored {ws : List Nat} : ∀ (bv : BV) (t : T) (attrs : Attrs), Stored ws attrs t bv → (ids t).Nodup →
    ∀ (p : Nat) (Fp : Row), getAttr attrs p = some Fp → p ∉ ids t →
    ∃ attrs', runUp none attrs (preP (some p) t) = (attrs', none) ∧
      FinStored ws attrs' (childFinalRow ws Fp bv) t bv ∧ ∀ j, j ∉ ids t → getAttr attrs' j = getAttr attrs j := by
  intro bv
  induction bv with
  | leaf row =>
    intro t attrs h _ p Fp _ _
    cases h with
    | leaf h =>
      exact ⟨attrs, by simp [preP, prePL, runUp, upStep, T.cs], .leaf (by simpa [childFinalRow] using h), fun _ _ => rfl⟩
  | node ba bb iha ihb =>
    intro t attrs h hid p Fp hp hpn
    cases h with
    | @node i x l s a b _ _ h sa sb =>
      rw [ids_node2] at hid hpn
      obtain ⟨hia, hib, hna, hnb, hdisj⟩ := nodup2 hid
      simp only [List.mem_cons, List.mem_append, not_or] at hpn
      have ra := stored_root sa
      have rb := stored_root sb
      let F := upLoop Fp (rowB ws (.node ba bb)) (rowB ws ba) (rowB ws bb)
      have hstep : upStep none attrs (some p) (.node i x l s [a, b]) = .ok ((i, F) :: attrs) := by
        simp only [upStep, T.cs, childSets, ra, rb, hp, h, id_node, F]
      have hpre : preP (some p) (.node i x l s [a, b]) =
          (some p, .node i x l s [a, b]) :: (preP (some i) a ++ preP (some i) b) := by simp [preP, prePL]
      have sa1 : Stored ws ((i, F) :: attrs) a ba := stored_congr sa fun j hj => getAttr_cons_ne (ne_of_mem hj hia) _ _
      obtain ⟨attrs2, hr2, fa, fra⟩ := iha a _ sa1 hna i F (getAttr_cons_self _ _ _) hia
      have sb2 : Stored ws attrs2 b bb := stored_congr sb fun j hj => by
        rw [fra j (fun hja => hdisj j hja hj), getAttr_cons_ne (ne_of_mem hj hib)]
      have hi2 : getAttr attrs2 i = some F := by rw [fra i hia]; exact getAttr_cons_self _ _ _
      obtain ⟨attrs3, hr3, fb, frb⟩ := ihb b _ sb2 hnb i F hi2 hib
      refine ⟨attrs3, ?_, ?_, ?_⟩
      · rw [hpre]
        simp only [runUp, hstep]
        rw [runUp_append, hr2]
        exact hr3
      · refine .node (by rw [frb i hib]; exact hi2) (finStored_congr fa fun j hj => frb j (hdisj j hj)) fb
      · intro j hj
        rw [ids_node2] at hj
        simp only [List.mem_cons, List.mem_append, not_or] at hj
        rw [frb j hj.2.2, fra j hj.2.1, getAttr_cons_ne hj.1]

/-- `fitch_up_pass(tree.preorder_node_iter())` after a down pass: the seed keeps its row, every other node gets its final row -/
theorem upPass_stored {ws : List Nat} {t : T} {bv : BV} {attrs : Attrs} (h : Stored ws attrs t bv) (hid : (ids t).Nodup) :
    ∃ attrs', upPass none attrs t = (attrs', none) ∧ FinStored ws attrs' (rowB ws bv) t bv := by
  cases h with
  | leaf h => exact ⟨attrs, by simp [upPass, preP, prePL, runUp, upStep, T.cs], .leaf (by simpa [rowB] using h)⟩
  | @node i x l s a b ba bb h sa sb =>
    rw [ids_node2] at hid
    obtain ⟨hia, hib, hna, hnb, hdisj⟩ := nodup2 hid
    obtain ⟨attrs2, hr2, fa, fra⟩ := up_stored ba a attrs sa hna i _ h hia
    have sb2 : Stored ws attrs2 b bb := stored_congr sb fun j hj => fra j (fun hja => hdisj j hja hj)
    have hi2 : getAttr attrs2 i = some (rowB ws (.node ba bb)) := by rw [fra i hia]; exact h
    obtain ⟨attrs3, hr3, fb, frb⟩ := up_stored bb b attrs2 sb2 hnb i _ hi2 hib
    refine ⟨attrs3, ?_, .node (by rw [frb i hib]; exact hi2) (finStored_congr fa fun j hj => frb j (hdisj j hj)) fb⟩
    have hpre : preP none (.node i x l s [a, b]) = (none, .node i x l s [a, b]) :: (preP (some i) a ++ preP (some i) b) := by
      simp [preP, prePL]
    simp only [upPass, hpre, runUp, upStep, T.cs]
    rw [runUp_append, hr2]
    exact hr3

/-! ### rows to characters -/

theorem rowB_spec {ws : List Nat} {n : Nat} (hws : n ≤ ws.length) : ∀ (bv : BV), bv.All (fun row => row.length = n) →
    (rowB ws bv).length = n ∧ ∀ c, c < n → (rowB ws bv).getD c 0 = (fitch (col c bv)).1
  | .leaf row, h => ⟨h, fun c _ => by simp [rowB, col, Bt.map, fitch]⟩
  | .node l r, h => by
    obtain ⟨l1, l2⟩ := rowB_spec hws l h.1
    obtain ⟨r1, r2⟩ := rowB_spec hws r h.2
    obtain ⟨p1, _, p3⟩ := pairLoop_spec n ws _ _ hws l1 r1
    refine ⟨by simpa [rowB] using p1, fun c hc => ?_⟩
    have := (p3 c hc).1
    simp only [rowB, col, Bt.map, fitch] at this ⊢
    rw [this, l2 c hc, r2 c hc]
    rfl

theorem upLoop_spec : ∀ (n : Nat) (P C L R : Row), P.length = n → C.length = n → L.length = n → R.length = n →
    (upLoop P C L R).length = n ∧
    ∀ c, c < n → (upLoop P C L R).getD c 0 = finalSet (P.getD c 0) (C.getD c 0) (L.getD c 0) (R.getD c 0)
  | 0, [], [], [], [], _, _, _, _ => by simp [upLoop]
  | n + 1, p :: P, q :: C, l :: L, r :: R, h1, h2, h3, h4 => by
    have ih := upLoop_spec n P C L R (by simpa using h1) (by simpa using h2) (by simpa using h3) (by simpa using h4)
    refine ⟨by simp [upLoop, ih.1], fun c hc => ?_⟩
    cases c with
    | zero => simp [upLoop]
    | succ c => simpa [upLoop] using ih.2 c (by omega)
  | 0, _ :: _, _, _, _, h, _, _, _ => by simp at h
  | 0, [], _ :: _, _, _, _, h, _, _ => by simp at h
  | 0, [], [], _ :: _, _, _, _, h, _ => by simp at h
  | 0, [], [], [], _ :: _, _, _, _, h => by simp at h
  | n + 1, [], _, _, _, h, _, _, _ => by simp at h
  | n + 1, _ :: _, [], _, _, _, h, _, _ => by simp at h
  | n + 1, _ :: _, _ :: _, [], _, _, _, h, _ => by simp at h
  | n + 1, _ :: _, _ :: _, _ :: _, [], _, _, _, h => by simp at h

theorem childFinalRow_spec {ws : List Nat} {n : Nat} (hws : n ≤ ws.length) (F : Row) (hF : F.length = n) :
    ∀ (bv : BV), bv.All (fun row => row.length = n) →
    (childFinalRow ws F bv).length = n ∧
    ∀ c, c < n → (childFinalRow ws F bv).getD c 0 = childFinal (F.getD c 0) (col c bv)
  | .leaf row, h => ⟨h, fun c _ => by simp [childFinalRow, col, Bt.map, childFinal]⟩
  | .node l r, h => by
    obtain ⟨n1, n2⟩ := rowB_spec hws (.node l r) h
    obtain ⟨l1, l2⟩ := rowB_spec hws l h.1
    obtain ⟨r1, r2⟩ := rowB_spec hws r h.2
    obtain ⟨u1, u2⟩ := upLoop_spec n F _ _ _ hF n1 l1 r1
    refine ⟨by simpa [childFinalRow] using u1, fun c hc => ?_⟩
    simp only [childFinalRow]
    rw [u2 c hc, n2 c hc, l2 c hc, r2 c hc]
    rfl

end Aux

/-- the subtree at the end of a path of a fully bifurcating tree -/
def subT : T → Path → Option T
  | t, [] => some t
  | .node _ _ _ _ [a, _], false :: p => subT a p
  | .node _ _ _ _ [_, b], true :: p => subT b p
  | _, _ :: _ => none

namespace Aux

/-- the rows stored after the up pass, character by character, are the recursion `finAt` -/
theorem finStored_cols {ws : List Nat} {n : Nat} (hws : n ≤ ws.length) {attrs : Attrs} {F : Row} {t : T} {bv : BV}
    (h : FinStored ws attrs F t bv) : F.length = n → bv.All (fun row => row.length = n) →
    ∀ (p : Path) (u : T), subT t p = some u →
    ∃ row, getAttr attrs u.id = some row ∧ row.length = n ∧ ∀ c, c < n → finAt (F.getD c 0) (col c bv) p = some (row.getD c 0) := by
  induction h with
  | @leaf i x l s row F h =>
    intro hF _ p u hu
    cases p with
    | nil =>
      simp only [subT, Option.some.injEq] at hu
      subst hu
      exact ⟨F, by simpa [T.id] using h, hF, fun c _ => by simp [finAt]⟩
    | cons b p => simp [subT] at hu
  | @node i x l s a b ba bb F h _ _ iha ihb =>
    intro hF hr p u hu
    cases p with
    | nil =>
      simp only [subT, Option.some.injEq] at hu
      subst hu
      exact ⟨F, by simpa [T.id] using h, hF, fun c _ => by simp [finAt]⟩
    | cons d p =>
      cases d with
      | false =>
        simp only [subT] at hu
        obtain ⟨c1, c2⟩ := childFinalRow_spec hws F hF ba hr.1
        obtain ⟨row, g1, g2, g3⟩ := iha c1 hr.1 p u hu
        refine ⟨row, g1, g2, fun c hc => ?_⟩
        have := g3 c hc
        rw [c2 c hc] at this
        simpa [col, Bt.map, finAt] using this
      | true =>
        simp only [subT] at hu
        obtain ⟨c1, c2⟩ := childFinalRow_spec hws F hF bb hr.2
        obtain ⟨row, g1, g2, g3⟩ := ihb c1 hr.2 p u hu
        refine ⟨row, g1, g2, fun c hc => ?_⟩
        have := g3 c hc
        rw [c2 c hc] at this
        simpa [col, Bt.map, finAt] using this

/-- paths of the tree are paths of its tree of rows, and of every character -/
theorem view_sub {m : Matrix} {t : T} {bv : BV} (hv : View m t bv) : ∀ (p : Path) (u : T), subT t p = some u →
    ∃ bu, View m u bu ∧ ∀ c, Bt.sub (col c bv) p = some (col c bu) := by
  induction hv with
  | @leaf i x l s row h =>
    intro p u hu
    cases p with
    | nil =>
      simp only [subT, Option.some.injEq] at hu
      subst hu
      exact ⟨_, .leaf h, fun c => by simp [Bt.sub]⟩
    | cons b p => simp [subT] at hu
  | @node i x l s a b ba bb hva hvb iha ihb =>
    intro p u hu
    cases p with
    | nil =>
      simp only [subT, Option.some.injEq] at hu
      subst hu
      exact ⟨_, .node hva hvb, fun c => by simp [Bt.sub]⟩
    | cons d p =>
      cases d with
      | false =>
        simp only [subT] at hu
        obtain ⟨bu, v, e⟩ := iha p u hu
        exact ⟨bu, v, fun c => by simpa [col, Bt.map, Bt.sub] using e c⟩
      | true =>
        simp only [subT] at hu
        obtain ⟨bu, v, e⟩ := ihb p u hu
        exact ⟨bu, v, fun c => by simpa [col, Bt.map, Bt.sub] using e c⟩

end Aux
end DendroModel.C16
