import DendroModel.Theory.C15Build
import DendroModel.Theory.C15Ext
/-! C15 — refinement of the parent chain computed on the way down (`ancPath`) from the pointer-level climb
(`climbIds` over the parent array), on every tree `buildTree` produces. -/
namespace DendroModel.C15.PtrAux
open DendroModel DendroModel.C15 DendroModel.C15.BuildAux

theorem mem_nodesL_of_mem (a : T) : ∀ cs : List T, a ∈ cs → a ∈ T.nodesL cs
  | [], h => by cases h
  | c :: cs, h => by
    simp only [T.nodesL, List.mem_append]
    rcases List.mem_cons.mp h with rfl | h
    · left; rw [nodes_eq']; exact List.mem_cons_self
    · right; exact mem_nodesL_of_mem a cs h

mutual
theorem child_mem_nodes (a : T) : ∀ (t b : T), b ∈ T.nodes t → a ∈ b.cs → a ∈ T.nodes t
  | .node j x l s cs, b, hb, ha => by
    simp only [T.nodes, List.mem_cons] at hb ⊢
    rcases hb with rfl | hb
    · right; exact mem_nodesL_of_mem a cs (by simpa [T.cs] using ha)
    · right; exact child_mem_nodesL a cs b hb ha
theorem child_mem_nodesL (a : T) : ∀ (cs : List T) (b : T), b ∈ T.nodesL cs → a ∈ b.cs → a ∈ T.nodesL cs
  | [], b, hb, _ => by simp [T.nodesL] at hb
  | c :: cs, b, hb, ha => by
    simp only [T.nodesL, List.mem_append] at hb ⊢
    rcases hb with hb | hb
    · left; exact child_mem_nodes a c b hb ha
    · right; exact child_mem_nodesL a cs b hb ha
end

theorem size_le_sizeL (a : T) : ∀ cs : List T, a ∈ cs → a.size ≤ T.sizeL cs
  | [], h => by cases h
  | c :: cs, h => by
    simp only [T.sizeL]
    rcases List.mem_cons.mp h with rfl | h
    · omega
    · have := size_le_sizeL a cs h; omega

theorem size_lt_of_child (a b : T) (h : a ∈ b.cs) : a.size < b.size := by
  have := size_le_sizeL a b.cs h
  cases b
  simp only [T.size, T.cs] at *
  omega

/-- along a parent chain the subtree sizes strictly grow, so the chain is shorter than the tree it ends in -/
theorem upChain_size (tree : T) : ∀ (chain : List T) (c : T), UpChain (c :: chain) →
    (c :: chain).getLast? = some tree → c.size + chain.length ≤ tree.size
  | [], c, _, hl => by simp at hl; subst hl; simp
  | b :: r, c, hch, hl => by
    have ih := upChain_size tree r b hch.2 (by simpa using hl)
    have := size_lt_of_child c b hch.1
    simp only [List.length_cons]
    omega

theorem upChain_mem (tree : T) : ∀ (chain : List T) (c : T), UpChain (c :: chain) →
    (c :: chain).getLast? = some tree → ∀ y ∈ c :: chain, y ∈ T.nodes tree
  | [], c, _, hl => by
    simp at hl; subst hl
    intro y hy; simp at hy; subst hy
    rw [nodes_eq']; exact List.mem_cons_self
  | b :: r, c, hch, hl => by
    have ih := upChain_mem tree r b hch.2 (by simpa using hl)
    intro y hy
    rcases List.mem_cons.mp hy with rfl | hy
    · exact child_mem_nodes _ tree b (ih b List.mem_cons_self) hch.1
    · exact ih y hy

/-- the pointer climb from the first entry of a parent chain of a linked tree reads off exactly the rest of the chain -/
theorem climb_chain (par : Array Int) (tree : T)
    (hl : ∀ b ∈ T.nodes tree, ∀ x ∈ b.cs, par[x.id]! = (b.id : Int)) (hr : par[tree.id]! = -1) :
    ∀ (chain : List T) (c : T), UpChain (c :: chain) → (c :: chain).getLast? = some tree →
      ∀ fuel, chain.length < fuel → climbIds par fuel c.id = chain.map T.id
  | [], c, _, hlast, fuel, hf => by
    simp at hlast; subst hlast
    obtain ⟨f, rfl⟩ : ∃ f, fuel = f + 1 := ⟨fuel - 1, by simp at hf; omega⟩
    simp [climbIds, hr]
  | b :: r, c, hch, hlast, fuel, hf => by
    obtain ⟨f, rfl⟩ : ∃ f, fuel = f + 1 := ⟨fuel - 1, by simp at hf; omega⟩
    have hmem := upChain_mem tree (b :: r) c hch hlast
    have hpc : par[c.id]! = (b.id : Int) := hl b (hmem b (by simp)) c hch.1
    have ih := climb_chain par tree hl hr r b hch.2 (by simpa using hlast) f (by simp at hf; omega)
    have hnn : ¬ ((b.id : Int) < 0) := by omega
    simp only [climbIds, hpc, hnn, if_false, Int.toNat_natCast, List.map_cons, ih]

mutual
theorem find?_id (i : Nat) : ∀ (t t' : T), T.find? i t = some t' → t'.id = i
  | .node j x l s cs, t', h => by
    simp only [T.find?] at h
    split at h
    · rename_i hij
      simp only [Option.some.injEq] at h; subst h
      simp only [T.id]
      exact (by simpa using hij : i = j).symm
    · exact findL?_id i cs t' h
theorem findL?_id (i : Nat) : ∀ (cs : List T) (t' : T), T.findL? i cs = some t' → t'.id = i
  | [], t', h => by simp [T.findL?] at h
  | c :: cs, t', h => by
    simp only [T.findL?] at h
    cases hc : T.find? i c with
    | some r => rw [hc] at h; simp only [Option.some.injEq] at h; subst h; exact find?_id i c r hc
    | none => rw [hc] at h; exact findL?_id i cs t' h
end

end DendroModel.C15.PtrAux
