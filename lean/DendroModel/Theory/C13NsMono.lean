import DendroModel.Model.C13
import DendroModel.Theory.C13Hom
/-! C13 — a read only ever APPENDS to the taxon namespace: the labels present before a read are still there, at the same
    positions, afterwards (the positions are what the trees refer to: a tree read earlier into a shared namespace stays
    attached to the same taxa whatever is read later). -/
namespace DendroModel.C13.Aux
open DendroModel.C13

theorem require_prefix (m : Mapper) (ns : List String) (sym : String) : ns <+: (m.require ns sym).2.2 := by
  unfold Mapper.require
  split
  · exact List.prefix_refl _
  · split
    · exact List.prefix_refl _
    · split
      · exact List.prefix_refl _
      · exact List.prefix_append _ _

theorem tailLoop_ns (cfg : Cfg) (isInternal : Bool) (kids : List Node) :
    ∀ (n : Nat) (s : PS) (coms : List String) (taxon : Option Nat) (label len : Option String) (lp : Bool) (nd : Node) (s' : PS),
      s.ts.rest.length = n → tailLoop cfg isInternal kids s coms taxon label len lp = .ok (nd, s') → s.ns <+: s'.ns := by
  intro n
  induction n using Nat.strongRecOn with
  | _ n ih =>
    intro s coms taxon label len lp nd s' hn h
    rw [tailLoop.eq_def] at h
    simp only [] at h
    split at h
    · cases h
    · rename_i tok hc
      split at h
      · -- ':'
        split at h
        · cases h
        · rename_i ts1 h1
          split at h
          · cases h
          · rename_i ts2 h2
            have a := TS.req_lt _ _ h1
            have b := TS.req_lt _ _ h2
            have := ih _ (by show ts2.rest.length < n; rw [← hn]; simp [TS.clear] at a; omega) _ _ _ _ _ _ _ _ rfl h
            exact this
      · split at h
        · cases h; exact List.prefix_refl _
        · split at h
          · split at h
            · cases h
            · cases h; exact List.prefix_refl _
          · split at h
            · cases h
            · split at h
              · cases h
              · split at h
                · split at h
                  · cases h
                  · rename_i ts1 h1
                    have a := TS.req_lt _ _ h1
                    have := ih _ (by show ts1.rest.length < n; rw [← hn]; simp [TS.clear] at a; omega) _ _ _ _ _ _ _ _ rfl h
                    exact this
                · split at h
                  · cases h
                  · split at h
                    · cases h
                    · rename_i ts1 h1
                      have a := TS.req_lt _ _ h1
                      have := ih _ (by show ts1.rest.length < n; rw [← hn]; simp [TS.clear] at a; omega) _ _ _ _ _ _ _ _ rfl h
                      exact (require_prefix _ _ _).trans this

theorem commaLoop_ns : ∀ (n : Nat) (s : PS) (kids : List Node) (s' : PS) (kids' : List Node), s.ts.rest.length = n →
    commaLoop s kids = .ok (s', kids') → s'.ns = s.ns := by
  intro n
  induction n using Nat.strongRecOn with
  | _ n ih =>
    intro s kids s' kids' hn h
    rw [commaLoop.eq_def] at h
    split at h
    · simp only [] at h
      split at h
      · cases h
      · rename_i ts2 h2
        have a := TS.req_lt _ _ h2
        have := ih _ (by show ts2.rest.length < n; rw [← hn]; simp [TS.clear] at a; omega) _ _ _ _ rfl h
        exact this
    · cases h; rfl

/-- the two mutually recursive parsers, by one induction on the number of unread tokens -/
theorem node_ns (cfg : Cfg) : ∀ (n : Nat),
    (∀ (s : PS) (i : Option Bool) (pre : List String) (nd : Node) (s' : PS), s.ts.rest.length = n →
      parseNode cfg s i pre = .ok (nd, s') → s.ns <+: s'.ns) ∧
    (∀ (s : PS) (count : Nat) (created : Bool) (kids : List Node) (s' : PS) (kids' : List Node), s.ts.rest.length = n →
      childLoop cfg s count created kids = .ok (s', kids') → s.ns <+: s'.ns) := by
  intro n
  induction n using Nat.strongRecOn with
  | _ n ih =>
    have hnode : ∀ (s : PS) (i : Option Bool) (pre : List String) (nd : Node) (s' : PS), s.ts.rest.length = n →
        parseNode cfg s i pre = .ok (nd, s') → s.ns <+: s'.ns := by
      intro s i pre nd s' hn h
      rw [parseNode.eq_def] at h
      simp only [] at h
      split at h
      · split at h
        · cases h
        · rename_i ts1 h1
          split at h
          · cases h
          · rename_i s2 kids hc
            have a := TS.req_lt _ _ h1
            have b := (ih ts1.rest.length (by rw [← hn]; simpa [TS.clear] using a)).2 _ _ _ _ _ _ rfl hc
            have c := tailLoop_ns cfg _ _ _ _ _ _ _ _ _ _ _ rfl h
            exact b.trans c
      · have c := tailLoop_ns cfg _ _ _ _ _ _ _ _ _ _ _ rfl h
        exact c
    refine ⟨hnode, ?_⟩
    intro s count created kids s' kids' hn h
    rw [childLoop.eq_def] at h
    split at h
    · simp only [] at h
      split at h
      · cases h
      · rename_i ts2 h2
        split at h
        · cases h
        · rename_i s3 kids3 hcm
          have e3 := commaLoop_ns _ _ _ _ _ rfl hcm
          split at h
          all_goals
            split at h
            · rename_i hp
              have := (ih _ (hn ▸ hp)).2 _ _ _ _ _ _ rfl h
              have e : s3.ns = s.ns := by rw [e3]; cases created <;> rfl
              rw [← e]; exact this
            · cases h
    · split at h
      · simp only [] at h
        split at h
        · cases h
        · cases h; exact List.prefix_refl _
      · simp only [] at h
        split at h
        · cases h
        · rename_i nd s2 hpn
          split at h
          · rename_i hp
            have a := hnode _ _ _ _ _ (by simpa [TS.clear] using hn) hpn
            have b := (ih _ (hn ▸ hp)).2 _ _ _ _ _ _ rfl h
            exact a.trans b
          · cases h

theorem newickStmt_ns (cfg : Cfg) (ts : TS) (ns : List String) (mp : Mapper) (r : Option Tree) (ts' : TS) (ns' : List String) (mp' : Mapper)
    (h : newickStmt cfg ts ns mp = .ok (r, ts', ns', mp')) : ns <+: ns' := by
  unfold newickStmt at h
  simp only [] at h
  split at h
  · cases h
  · split at h
    · cases h; exact List.prefix_refl _
    · split at h
      · cases h
      · rename_i root s hp
        split at h
        · cases h
        · cases h
          have := (node_ns cfg _).1 _ _ _ _ _ rfl hp
          exact this

theorem newickIter_ns {σ} (cfg : Cfg) (S : Sink σ) : ∀ (n : Nat) (ts : TS) (ns : List String) (mp : Mapper) (acc : σ) (r : σ × List String),
    ts.rest.length = n → newickIter cfg S ts ns mp acc = .ok r → ns <+: r.2 := by
  intro n
  induction n using Nat.strongRecOn with
  | _ n ih =>
    intro ts ns mp acc r hn h
    rw [newickIter.eq_def] at h
    split at h
    · cases h
    · rename_i hs
      cases h
      exact newickStmt_ns _ _ _ _ _ _ _ _ hs
    · rename_i t ts' ns' mp' hs
      have a := newickStmt_ns _ _ _ _ _ _ _ _ hs
      split at h
      · rename_i hp
        exact a.trans (ih _ (hn ▸ hp) _ _ _ _ _ rfl h)
      · cases h

theorem nexusTreeStmt_ns (cfg : Cfg) (d : Doc) (mp : Mapper) (r : Tree × Doc × Mapper)
    (h : nexusTreeStmt cfg d mp = .ok r) : d.ns <+: r.2.1.ns := by
  unfold nexusTreeStmt at h
  simp only [] at h
  by_cases hstar : (d.ts.next.cur == some "*") = true
  · simp only [hstar, ↓reduceIte] at h
    split at h
    · cases h
    · split at h
      · cases h
      · cases h
      · rename_i t0 ts6 ns' mp' hs
        cases h
        exact newickStmt_ns _ _ _ _ _ _ _ _ hs
  · have hstar' := eq_false_of_ne_true hstar
    simp only [hstar', Bool.false_eq_true, ↓reduceIte] at h
    split at h
    · cases h
    · split at h
      · cases h
      · cases h
      · rename_i t0 ts6 ns' mp' hs
        cases h
        exact newickStmt_ns _ _ _ _ _ _ _ _ hs

theorem treeRunR_ns {σ} (cfg : Cfg) (S : Sink σ) : ∀ (n : Nat) (d : Doc) (mp : Mapper) (acc : σ) (r : Doc × Mapper × σ × Option String),
    d.ts.rest.length = n → treeRunR cfg S d mp acc = .ok r → d.ns <+: r.1.ns := by
  intro n
  induction n using Nat.strongRecOn with
  | _ n ih =>
    intro d mp acc r hn h
    rw [treeRunR.eq_def] at h
    split at h
    · cases h
    · rename_i t d1 mp1 hst
      have a := nexusTreeStmt_ns cfg d mp _ hst
      simp only [] at h a
      split at h
      · cases h; exact a
      · split at h
        · cases h; exact a
        · split at h
          · rename_i hp
            have := ih _ (hn ▸ hp) _ _ _ _ rfl h
            exact a.trans this
          · cases h

theorem taxlabelsLoop_ns (b : Bool) : ∀ (n : Nat) (ts : TS) (ns : List String) (ntax : Option Nat) (r : List String × TS),
    ts.rest.length = n → taxlabelsLoop b ts ns ntax = .ok r → ns <+: r.1 := by
  intro n
  induction n using Nat.strongRecOn with
  | _ n ih =>
    intro ts ns ntax r hn h
    rw [taxlabelsLoop.eq_def] at h
    split at h
    · cases h
    · split at h
      · cases h; exact List.prefix_refl _
      · split at h
        · cases h
        · rename_i hne
          have e : ts.next.clear.rest.length < ts.rest.length := by simpa [TS.clear] using TS.next_lt ts hne
          split at h
          · exact ih _ (hn ▸ e) _ _ _ _ rfl h
          · cases ntax with
            | none =>
              simp only [Bool.false_eq_true, if_false] at h
              exact (List.prefix_append _ _).trans (ih _ (hn ▸ e) _ _ _ _ rfl h)
            | some m =>
              simp only [] at h
              split at h
              · cases h
              · exact (List.prefix_append _ _).trans (ih _ (hn ▸ e) _ _ _ _ rfl h)

theorem translateLoop_ns : ∀ (n : Nat) (d : Doc) (ntax : Option Nat) (mp : Mapper) (r : Doc × Mapper), d.ts.rest.length = n →
    translateLoop d ntax mp = .ok r → d.ns <+: r.1.ns := by
  intro n
  induction n using Nat.strongRecOn with
  | _ n ih =>
    intro d ntax mp r hn h
    rw [translateLoop.eq_def] at h
    split at h
    · cases h
    · simp only [] at h
      split at h
      · cases h
      · split at h
        · cases h
        · split at h
          · cases h
          · rename_i lab hl
            split at h
            · cases h
            · rename_i t ns1 hr
              have hns : d.ns <+: ns1 := by
                split at hr
                · cases hr; exact List.prefix_refl _
                · split at hr
                  · cases hr; exact List.prefix_append _ _
                  · cases hr
              split at h
              · cases h; exact hns
              · split at h
                · cases h; exact hns
                · split at h
                  · cases h
                  · split at h
                    · rename_i hp
                      have := ih _ (hn ▸ hp) _ _ _ _ rfl h
                      exact hns.trans this
                    · cases h

theorem newNamespace_ns (fl : Flags) (c : Core) (t : Option String) : (newNamespace fl c t).ns = c.ns := by
  unfold newNamespace; split <;> rfl

theorem getNamespace_ns (fl : Flags) (c c' : Core) (t : Option String) (h : getNamespace fl c t = .ok c') : c'.ns = c.ns := by
  unfold getNamespace at h
  split at h
  · cases h; rfl
  · split at h
    · split at h
      · cases h; exact newNamespace_ns _ _ _
      · split at h
        · cases h; rfl
        · cases h
    · split at h
      · cases h; rfl
      · cases h

theorem taxaStep_ns (fl : Flags) (c : Core) (hv : Bool) (r : Core × Bool × Option String) (h : taxaStep fl c hv = .ok r) :
    c.ns <+: r.1.ns := by
  unfold taxaStep at h
  split at h
  · cases h
  · rename_i c1 have1 tok1 h1
    have e1 : c1.ns = c.ns := by
      unfold taxaTitle at h1
      simp only [] at h1
      split at h1
      · split at h1
        · cases h1
        · cases h1; exact newNamespace_ns _ _ _
      · cases h1; rfl
    split at h
    · cases h
    · rename_i c2 h2
      have e2 : c2.ns = c1.ns := by
        unfold taxaDims at h2
        split at h2
        · split at h2
          · cases h2
          · cases h2; rfl
        · cases h2; rfl
      split at h
      · cases h
      · rename_i c4 have4 h3
        cases h
        have e3 : c2.ns <+: c4.ns := by
          unfold taxaLabels at h3
          split at h3
          · simp only [] at h3
            split at h3
            · cases h3
            · rename_i x hp
              cases h3
              have a := taxlabelsLoop_ns _ _ _ _ _ _ rfl hp
              have e : (if have1 = true then c2 else newNamespace fl c2 none).ns = c2.ns := by
                split
                · rfl
                · exact newNamespace_ns _ _ _
              rw [e] at a
              exact a
          · cases h3; exact List.prefix_refl _
        rw [← e1, ← e2]; exact e3

theorem taxaLoop_ns (fl : Flags) : ∀ (n : Nat) (c : Core) (hv : Bool) (c' : Core), c.ts.rest.length = n →
    taxaLoop fl c hv = .ok c' → c.ns <+: c'.ns := by
  intro n
  induction n using Nat.strongRecOn with
  | _ n ih =>
    intro c hv c' hn h
    rw [taxaLoop.eq_def] at h
    split at h
    · cases h
    · split at h
      · cases h
      · rename_i c4 have4 tok1 hs
        have a := taxaStep_ns _ _ _ _ hs
        simp only [] at a
        split at h
        · cases h; exact a
        · split at h
          · rename_i hp
            exact a.trans (ih _ (hn ▸ hp) _ _ _ rfl h)
          · cases h

theorem parseTaxaBlock_ns (fl : Flags) (c c' : Core) (h : parseTaxaBlock fl c = .ok c') : c.ns <+: c'.ns := by
  unfold parseTaxaBlock at h
  have := taxaLoop_ns fl _ _ _ _ rfl h
  exact this

theorem treesStepR_ns {σ} (cfg : Cfg) (fl : Flags) (S : Sink σ) (c : Core) (v : BlockVars) (acc : σ) (r : Core × BlockVars × σ)
    (h : treesStepR cfg fl S c v acc = .ok r) : c.ns <+: r.1.ns := by
  unfold treesStepR at h
  simp only [] at h
  have hres : ∀ c2, (if v.haveNs = true then Except.ok { c with ts := c.ts.nextU } else getNamespace fl { c with ts := c.ts.nextU } v.link) = Except.ok c2 →
      c2.ns = c.ns := by
    intro c2 hn
    split at hn
    · cases hn; rfl
    · have := getNamespace_ns _ _ _ _ hn
      exact this
  split at h
  · split at h
    · cases h
    · cases h; exact List.prefix_refl _
  · split at h
    · split at h
      · cases h
      · cases h; exact List.prefix_refl _
    · split at h
      · split at h
        · cases h
        · rename_i c2 hn
          have e := hres c2 hn
          split at h
          · cases h
          · rename_i x hp
            cases h
            unfold parseTranslate at hp
            cases ht : translateLoop c2.doc c2.ntax (mapperOr v.mapper c2.ns) with
            | error e => simp [ht, Except.map] at hp
            | ok y =>
              simp only [ht, Except.map] at hp
              cases hp
              have a := translateLoop_ns _ _ _ _ _ rfl ht
              rw [← e]; exact a
      · split at h
        · split at h
          · cases h
          · rename_i c2 hn
            have e := hres c2 hn
            split at h
            · cases h
            · rename_i x hp
              cases h
              have a := treeRunR_ns cfg S _ _ _ _ _ rfl hp
              rw [← e]; exact a
        · split at h
          · cases h
          · cases h; exact List.prefix_refl _

theorem treesLoopR_ns {σ} (cfg : Cfg) (fl : Flags) (S : Sink σ) : ∀ (n : Nat) (c : Core) (v : BlockVars) (acc : σ) (r : Core × σ),
    c.ts.rest.length = n → treesLoopR cfg fl S c v acc = .ok r → c.ns <+: r.1.ns := by
  intro n
  induction n using Nat.strongRecOn with
  | _ n ih =>
    intro c v acc r hn h
    rw [treesLoopR.eq_def] at h
    split at h
    · cases h; exact List.prefix_refl _
    · split at h
      · cases h
      · rename_i c5 v5 acc5 hs
        have a := treesStepR_ns cfg fl S c v acc _ hs
        simp only [] at a
        split at h
        · rename_i hp
          exact a.trans (ih _ (hn ▸ hp) _ _ _ _ rfl h)
        · split at h
          · cases h; exact a
          · cases h

theorem treesBlockR_ns {σ} (cfg : Cfg) (fl : Flags) (S : Sink σ) (c : Core) (acc : σ) (r : Core × σ)
    (h : treesBlockR cfg fl S c acc = .ok r) : c.ns <+: r.1.ns := by
  unfold treesBlockR at h
  simp only [] at h
  split at h
  · cases h
  · have := treesLoopR_ns cfg fl S _ _ _ _ _ rfl h
    exact this

theorem streamStepR_ns {σ} (cfg : Cfg) (fl : Flags) (S : Sink σ) (c : Core) (acc : σ) (r : Core × σ)
    (h : streamStepR cfg fl S c acc = .ok r) : c.ns <+: r.1.ns := by
  unfold streamStepR at h
  simp only [] at h
  split at h
  · cases hp : parseTaxaBlock fl { c with ts := (seekBegin c.ts.nextU).clear.nextU } with
    | error e => simp [hp, Except.map] at h
    | ok c' =>
      simp only [hp, Except.map] at h
      cases h
      have := parseTaxaBlock_ns _ _ _ hp
      exact this
  · split at h
    · split at h
      · cases h; exact List.prefix_refl _
      · cases h; exact List.prefix_refl _
    · split at h
      · have := treesBlockR_ns cfg fl S _ _ _ h
        exact this
      · split at h
        · split at h
          · cases h; exact List.prefix_refl _
          · cases h; exact List.prefix_refl _
        · split at h
          · cases h
          · cases h; exact List.prefix_refl _

theorem streamLoopR_ns {σ} (cfg : Cfg) (fl : Flags) (S : Sink σ) : ∀ (n : Nat) (c : Core) (acc : σ) (r : Core × σ),
    c.ts.rest.length = n → streamLoopR cfg fl S c acc = .ok r → c.ns <+: r.1.ns := by
  intro n
  induction n using Nat.strongRecOn with
  | _ n ih =>
    intro c acc r hn h
    rw [streamLoopR.eq_def] at h
    split at h
    · cases h; exact List.prefix_refl _
    · split at h
      · cases h
      · rename_i c3 acc3 hs
        have a := streamStepR_ns cfg fl S c acc _ hs
        simp only [] at a
        split at h
        · rename_i hp
          exact a.trans (ih _ (hn ▸ hp) _ _ _ rfl h)
        · split at h
          · cases h; exact a
          · cases h

theorem nexusRead_ns {σ} (cfg : Cfg) (fl : Flags) (S : Sink σ) (c : Core) (acc : σ) (r : Core × σ)
    (h : nexusRead cfg fl S c acc = .ok r) : c.ns <+: r.1.ns := by
  unfold nexusRead at h
  simp only [] at h
  split at h
  · cases h
  · have := streamLoopR_ns cfg fl S _ _ _ _ rfl h
    exact this

/-- every reader route, any tree-list factory: the namespace after the read extends the namespace before it -/
theorem readWith_ns {σ} (sch : Schema) (cfg : Cfg) (fl : Flags) (S : Sink σ) (toks : List Tok) (tail : List String) (ns : NSObj) (acc : σ)
    (r : σ × NSObj) (h : readWith sch cfg fl S toks tail ns acc = .ok r) : ns.labels <+: r.2.labels := by
  cases sch with
  | newick =>
    simp only [readWith, newickRead] at h
    cases hr : newickIter cfg S { rest := toks, tail := tail } ns.labels (Mapper.new ns.labels false) (S.newList acc) with
    | error e => simp [hr, Except.map] at h
    | ok x =>
      simp only [hr, Except.map] at h
      cases h
      exact newickIter_ns cfg S _ _ _ _ _ _ rfl hr
  | nexus =>
    simp only [readWith] at h
    cases hr : nexusRead cfg fl S (coreOf toks tail ns) acc with
    | error e => simp [hr, Except.map] at h
    | ok x =>
      simp only [hr, Except.map] at h
      cases h
      exact nexusRead_ns cfg fl S _ _ _ hr


/-! the iterator's copies -/

theorem streamStepY_ns (cfg : Cfg) (fl : Flags) (c : Core) (out : List Tree) (r : Core × List Tree)
    (h : streamStepY cfg fl c out = .ok r) : c.ns <+: r.1.ns := by
  unfold streamStepY at h
  simp only [] at h
  split at h
  · cases hp : parseTaxaBlock fl { c with ts := (seekBegin c.ts.nextU).clear.nextU } with
    | error e => simp [hp, Except.map] at h
    | ok c' =>
      simp only [hp, Except.map] at h
      cases h
      have := parseTaxaBlock_ns _ _ _ hp
      exact this
  · split at h
    · rw [treesBlockY_eq] at h
      have := treesBlockR_ns cfg fl pseudoSink _ _ _ h
      exact this
    · split at h
      · cases h
      · cases h; exact List.prefix_refl _

theorem streamLoopY_ns (cfg : Cfg) (fl : Flags) : ∀ (n : Nat) (c : Core) (out : List Tree) (r : Core × List Tree),
    c.ts.rest.length = n → streamLoopY cfg fl c out = .ok r → c.ns <+: r.1.ns := by
  intro n
  induction n using Nat.strongRecOn with
  | _ n ih =>
    intro c out r hn h
    rw [streamLoopY.eq_def] at h
    split at h
    · cases h; exact List.prefix_refl _
    · split at h
      · cases h
      · rename_i c3 out3 hs
        have a := streamStepY_ns cfg fl c out _ hs
        simp only [] at a
        split at h
        · rename_i hp
          exact a.trans (ih _ (hn ▸ hp) _ _ _ rfl h)
        · split at h
          · cases h; exact a
          · cases h

theorem yieldFrom_ns (sch : Schema) (cfg : Cfg) (fl : Flags) (toks : List Tok) (tail : List String) (ns : NSObj)
    (r : List Tree × NSObj) (h : yieldFrom sch cfg fl toks tail ns = .ok r) : ns.labels <+: r.2.labels := by
  cases sch with
  | newick =>
    simp only [yieldFrom, newickYield] at h
    rw [newickYieldLoop_eq cfg fl _ _ _ _ _ rfl] at h
    cases hr : newickIter cfg pseudoSink { rest := toks, tail := tail } ns.labels (Mapper.new ns.labels false) [] with
    | error e => simp [hr, Except.map] at h
    | ok x =>
      simp only [hr, Except.map] at h
      cases h
      exact newickIter_ns cfg pseudoSink _ _ _ _ _ _ rfl hr
  | nexus =>
    simp only [yieldFrom, nexusYield] at h
    split at h
    · simp [Except.map] at h
    · cases hr : streamLoopY cfg { fl with attached := true } { coreOf toks tail ns with ts := (coreOf toks tail ns).ts.next } [] with
      | error e => simp [hr, Except.map] at h
      | ok x =>
        simp only [hr, Except.map] at h
        cases h
        have := streamLoopY_ns cfg _ _ _ _ _ rfl hr
        exact this

end DendroModel.C13.Aux
