import DendroModel.Basic.Frac
import Mathlib.Tactic
import Mathlib.Data.Rat.Defs
import Mathlib.Algebra.Order.Field.Rat
/-! `Frac` (the executable exact fractions of the models) is rational arithmetic: `toRat` is a homomorphism
for `+`, `-`, `*`, halving and the order tests, on fractions with a non-zero denominator — which every
`Frac` produced by `parse`, `mk'` and the operations has (`den_ne_zero_*`). -/
namespace DendroModel.Frac

def toRat (f : Frac) : Rat := mkRat f.num f.den

/-- well-formed: positive denominator -/
def WF (f : Frac) : Prop := f.den ≠ 0

theorem gcd_ne_zero (n : Int) {d : Nat} (hd : d ≠ 0) : Nat.gcd n.natAbs d ≠ 0 := by
  intro h; exact hd (Nat.eq_zero_of_gcd_eq_zero_right h)

theorem wf_mk' (n : Int) (d : Nat) : WF (mk' n d) := by
  unfold mk' WF
  by_cases hd : d = 0
  · simp [hd]
  · have hg := gcd_ne_zero n hd
    simp only [beq_iff_eq, hd, if_false, hg]
    intro h
    have hdvd : Nat.gcd n.natAbs d ∣ d := Nat.gcd_dvd_right _ _
    have : d / Nat.gcd n.natAbs d * Nat.gcd n.natAbs d = d := Nat.div_mul_cancel hdvd
    rw [h] at this; omega

theorem toRat_mk' (n : Int) (d : Nat) (hd : d ≠ 0) : toRat (mk' n d) = mkRat n d := by
  unfold mk' toRat
  have hg := gcd_ne_zero n hd
  simp only [beq_iff_eq, hd, if_false, hg]
  set g := Nat.gcd n.natAbs d with hgdef
  have hdvd : g ∣ d := Nat.gcd_dvd_right _ _
  have hdvn : (g : Int) ∣ n := by
    have := Nat.gcd_dvd_left n.natAbs d
    exact Int.natCast_dvd.mpr this
  have e1 : n / (g : Int) * (g : Int) = n := Int.ediv_mul_cancel hdvn
  have e2 : d / g * g = d := Nat.div_mul_cancel hdvd
  conv_rhs => rw [← e1, ← e2]
  rw [Rat.mkRat_mul_right hg]

theorem wf_add (a b : Frac) : WF (a + b) := wf_mk' _ _
theorem wf_mul (a b : Frac) : WF (a * b) := wf_mk' _ _
theorem wf_half (a : Frac) : WF (half a) := wf_mk' _ _
theorem wf_neg (a : Frac) (h : WF a) : WF (-a) := h
theorem wf_sub (a b : Frac) : WF (a - b) := wf_mk' _ _
theorem wf_ofInt (n : Int) : WF (ofInt n) := by simp [WF, ofInt]
theorem wf_zero : WF zero := by simp [WF, zero]

theorem toRat_add (a b : Frac) (ha : WF a) (hb : WF b) : toRat (a + b) = toRat a + toRat b := by
  show toRat (add a b) = _
  unfold add
  rw [toRat_mk' _ _ (Nat.mul_ne_zero ha hb)]
  unfold toRat
  rw [Rat.mkRat_add_mkRat _ _ ha hb]

theorem toRat_neg (a : Frac) : toRat (-a) = - toRat a := by
  show toRat (neg a) = _
  unfold neg toRat
  rw [Rat.neg_mkRat]

theorem toRat_sub (a b : Frac) (ha : WF a) (hb : WF b) : toRat (a - b) = toRat a - toRat b := by
  show toRat (sub a b) = _
  unfold sub
  have h1 := toRat_add a (-b) ha hb
  have h2 := toRat_neg b
  show toRat (a + -b) = _
  rw [h1, h2]; ring

theorem toRat_mul (a b : Frac) (ha : WF a) (hb : WF b) : toRat (a * b) = toRat a * toRat b := by
  show toRat (mul a b) = _
  unfold mul
  rw [toRat_mk' _ _ (Nat.mul_ne_zero ha hb)]
  unfold toRat
  rw [Rat.mkRat_mul_mkRat]

theorem toRat_zero : toRat zero = 0 := by simp [toRat, zero]
theorem toRat_ofInt (n : Int) : toRat (ofInt n) = (n : Rat) := by
  simp [toRat, ofInt, Rat.mkRat_eq_div]

theorem toRat_half (a : Frac) (ha : WF a) : toRat (half a) = toRat a / 2 := by
  unfold half
  rw [toRat_mk' _ _ (Nat.mul_ne_zero ha (by decide))]
  unfold toRat
  rw [Rat.mkRat_eq_div, Rat.mkRat_eq_div]
  push_cast
  field_simp

theorem toRat_eq_div (a : Frac) : toRat a = (a.num : Rat) / (a.den : Rat) := by
  unfold toRat; exact Rat.mkRat_eq_div _ _

/-- the order tests decide the order of the denoted rationals -/
theorem lt_iff (a b : Frac) (ha : WF a) (hb : WF b) : lt a b = true ↔ toRat a < toRat b := by
  unfold lt
  rw [toRat_eq_div, toRat_eq_div, decide_eq_true_iff]
  have h1 : (0 : Rat) < (a.den : Rat) := by exact_mod_cast Nat.pos_of_ne_zero ha
  have h2 : (0 : Rat) < (b.den : Rat) := by exact_mod_cast Nat.pos_of_ne_zero hb
  rw [div_lt_div_iff₀ h1 h2]
  exact_mod_cast Iff.rfl

theorem le_iff (a b : Frac) (ha : WF a) (hb : WF b) : le a b = true ↔ toRat a ≤ toRat b := by
  unfold le
  rw [toRat_eq_div, toRat_eq_div, decide_eq_true_iff]
  have h1 : (0 : Rat) < (a.den : Rat) := by exact_mod_cast Nat.pos_of_ne_zero ha
  have h2 : (0 : Rat) < (b.den : Rat) := by exact_mod_cast Nat.pos_of_ne_zero hb
  rw [div_le_div_iff₀ h1 h2]
  exact_mod_cast Iff.rfl

theorem beq_iff (a b : Frac) (ha : WF a) (hb : WF b) : beq a b = true ↔ toRat a = toRat b := by
  unfold beq
  rw [toRat_eq_div, toRat_eq_div, beq_iff_eq]
  have h1 : (a.den : Rat) ≠ 0 := by exact_mod_cast ha
  have h2 : (b.den : Rat) ≠ 0 := by exact_mod_cast hb
  rw [div_eq_div_iff h1 h2]
  exact_mod_cast Iff.rfl

end DendroModel.Frac
