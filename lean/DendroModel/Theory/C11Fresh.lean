import DendroModel.Model.C11
/-! C11 — freshness as a history invariant: every taxon id referred to anywhere in the store (namespace members, node taxa,
sequence keys) is an allocated one (`< nTaxa`).  It holds in the empty world and is preserved by EVERY `step`, with no side
condition; it is the hypothesis `FreshNs` of the clause-(b) theorems of `Props/C11.lean`. -/
namespace DendroModel.C11.Fresh
open DendroModel.C11

structure FrAll (s : Store) : Prop where
  ns : ∀ n x, x ∈ mem s n → x < s.nTaxa
  tree : ∀ t x, some x ∈ (s.tree t).taxa → x < s.nTaxa
  mat : ∀ m x, x ∈ (s.mat m).keys → x < s.nTaxa

theorem frAll_init : FrAll init := by
  refine ⟨?_, ?_, ?_⟩ <;> simp [init, mem]

/-- operations that touch neither namespaces, nor trees, nor matrices -/
theorem frAll_of_eq {s s' : Store} (h : FrAll s) (e1 : s'.ns = s.ns) (e2 : s'.nTaxa = s.nTaxa) (e3 : s'.tree = s.tree)
    (e4 : s'.mat = s.mat) : FrAll s' := by
  refine ⟨?_, ?_, ?_⟩
  · intro n x hx; simp only [mem, e1, e2] at hx ⊢; exact h.ns n x hx
  · intro t x hx; rw [e3] at hx; rw [e2]; exact h.tree t x hx
  · intro m x hx; rw [e4] at hx; rw [e2]; exact h.mat m x hx

theorem frAll_addMember {s : Store} (h : FrAll s) (n x : Nat) (hx : x < s.nTaxa) :
    FrAll (addMember s n x) ∧ (addMember s n x).nTaxa = s.nTaxa := by
  unfold addMember
  split
  · exact ⟨h, rfl⟩
  · refine ⟨⟨?_, h.tree, h.mat⟩, rfl⟩
    intro n' y hy
    simp only [mem, upd] at hy ⊢
    split at hy
    · simp at hy
      rcases hy with hy | hy
      · next e => exact h.ns n y hy
      · rw [hy]; exact hx
    · exact h.ns n' y hy

theorem frAll_newTaxon {s : Store} (h : FrAll s) (n : Nat) (l : String) :
    FrAll (newTaxon s n l).1 ∧ (newTaxon s n l).1.nTaxa = s.nTaxa + 1 ∧ (newTaxon s n l).2 < (newTaxon s n l).1.nTaxa := by
  refine ⟨⟨?_, ?_, ?_⟩, rfl, by simp [newTaxon]⟩
  · intro n' y hy
    simp only [newTaxon, mem, upd] at hy ⊢
    split at hy
    · simp at hy
      rcases hy with hy | hy
      · exact Nat.lt_succ_of_lt (h.ns n y hy)
      · omega
    · exact Nat.lt_succ_of_lt (h.ns n' y hy)
  · intro t x hx; exact Nat.lt_succ_of_lt (h.tree t x hx)
  · intro m x hx; exact Nat.lt_succ_of_lt (h.mat m x hx)

theorem frAll_require {s : Store} (h : FrAll s) (n : Nat) (cs : Bool) (l : String) :
    FrAll (require s n cs l).1 ∧ s.nTaxa ≤ (require s n cs l).1.nTaxa ∧ (require s n cs l).2 < (require s n cs l).1.nTaxa := by
  unfold require
  split
  · next x hx =>
    unfold lookupFirst at hx
    exact ⟨h, Nat.le_refl _, h.ns n x (List.mem_of_find?_eq_some hx)⟩
  · obtain ⟨a, b, c⟩ := frAll_newTaxon h n l
    exact ⟨a, by omega, c⟩

theorem frAll_requireLast {s : Store} (h : FrAll s) (n : Nat) (cs : Bool) (l : String) :
    FrAll (requireLast s n cs l).1 ∧ s.nTaxa ≤ (requireLast s n cs l).1.nTaxa
      ∧ (requireLast s n cs l).2 < (requireLast s n cs l).1.nTaxa := by
  unfold requireLast
  split
  · next x hx =>
    unfold lookupLast at hx
    have := List.mem_of_find?_eq_some hx
    exact ⟨h, Nat.le_refl _, h.ns n x (by simpa using this)⟩
  · obtain ⟨a, b, c⟩ := frAll_newTaxon h n l
    exact ⟨a, by omega, c⟩

theorem frAll_requireList (n : Nat) (cs : Bool) : ∀ (ls : List String) {s : Store}, FrAll s →
    FrAll (requireList s n cs ls).1 ∧ s.nTaxa ≤ (requireList s n cs ls).1.nTaxa
      ∧ ∀ x, x ∈ (requireList s n cs ls).2 → x < (requireList s n cs ls).1.nTaxa
  | [], s, h => ⟨h, Nat.le_refl _, by simp [requireList]⟩
  | l :: ls, s, h => by
    simp only [requireList]
    obtain ⟨a, b, c⟩ := frAll_require h n cs l
    obtain ⟨a2, b2, c2⟩ := frAll_requireList n cs ls a
    refine ⟨a2, Nat.le_trans b b2, ?_⟩
    intro x hx
    simp at hx
    rcases hx with e | hx
    · rw [e]; exact Nat.lt_of_lt_of_le c b2
    · exact c2 x hx

theorem frAll_requireLastList (n : Nat) (cs : Bool) : ∀ (ls : List String) {s : Store}, FrAll s →
    FrAll (requireLastList s n cs ls).1 ∧ s.nTaxa ≤ (requireLastList s n cs ls).1.nTaxa
      ∧ ∀ x, x ∈ (requireLastList s n cs ls).2 → x < (requireLastList s n cs ls).1.nTaxa
  | [], s, h => ⟨h, Nat.le_refl _, by simp [requireLastList]⟩
  | l :: ls, s, h => by
    simp only [requireLastList]
    obtain ⟨a, b, c⟩ := frAll_requireLast h n cs l
    obtain ⟨a2, b2, c2⟩ := frAll_requireLastList n cs ls a
    refine ⟨a2, Nat.le_trans b b2, ?_⟩
    intro x hx
    simp at hx
    rcases hx with e | hx
    · rw [e]; exact Nat.lt_of_lt_of_le c b2
    · exact c2 x hx

theorem frAll_newNs {s : Store} (h : FrAll s) (cs : Bool) : FrAll (newNs s cs).1 ∧ (newNs s cs).1.nTaxa = s.nTaxa := by
  refine ⟨⟨?_, h.tree, h.mat⟩, rfl⟩
  intro n x hx
  simp only [newNs, mem, upd] at hx ⊢
  split at hx
  · next e => subst e; exact h.ns _ x hx
  · exact h.ns n x hx

theorem frAll_newTaxa (n : Nat) : ∀ (ls : List String) {s : Store}, FrAll s → FrAll (newTaxa s n ls)
  | [], _, h => h
  | l :: ls, _, h => by simp only [newTaxa]; exact frAll_newTaxa n ls (frAll_newTaxon h n l).1

/-- every value of the memo is an allocated taxon -/
def MV (s : Store) (m : Memo) : Prop := ∀ x y, memoGet m x = some y → y < s.nTaxa

theorem mv_nil (s : Store) : MV s [] := by intro x y h; simp [memoGet] at h

theorem mv_mono {s s' : Store} {m : Memo} (h : MV s m) (le : s.nTaxa ≤ s'.nTaxa) : MV s' m :=
  fun x y hxy => Nat.lt_of_lt_of_le (h x y hxy) le

theorem mv_cons {s : Store} {m : Memo} (h : MV s m) (a b : Nat) (hb : b < s.nTaxa) : MV s ((a, b) :: m) := by
  intro x y hxy
  simp only [memoGet, List.find?_cons] at hxy
  by_cases e : a = x
  · subst e; simp at hxy; rw [← hxy]; exact hb
  · have : (a == x) = false := by simp [e]
    simp only [this] at hxy
    exact h x y hxy

theorem frAll_mapOne {s : Store} (h : FrAll s) (n : Nat) (u : Bool) (memo : Memo) (x : Nat) (hx : x < s.nTaxa) (hm : MV s memo) :
    FrAll (mapOne s n u memo x).1 ∧ s.nTaxa ≤ (mapOne s n u memo x).1.nTaxa
      ∧ (mapOne s n u memo x).2.2 < (mapOne s n u memo x).1.nTaxa ∧ MV (mapOne s n u memo x).1 (mapOne s n u memo x).2.1 := by
  unfold mapOne
  split
  · cases hg : memoGet memo x with
    | some t =>
      simp only []
      obtain ⟨a, b⟩ := frAll_addMember h n t (hm x t hg)
      exact ⟨a, by omega, by rw [b]; exact hm x t hg, mv_mono hm (by omega)⟩
    | none =>
      simp only []
      split
      · obtain ⟨a, b, c⟩ := frAll_require h n (s.ns n).cs (s.label x)
        exact ⟨a, b, c, mv_cons (mv_mono hm b) _ _ c⟩
      · obtain ⟨a, b, c⟩ := frAll_newTaxon h n (s.label x)
        exact ⟨a, by omega, c, mv_cons (mv_mono hm (by omega)) _ _ c⟩
  · exact ⟨h, Nat.le_refl _, hx, hm⟩

theorem frAll_mapTaxa (n : Nat) (u : Bool) : ∀ (xs : List (Option Nat)) {s : Store} (memo : Memo), FrAll s →
    (∀ x, some x ∈ xs → x < s.nTaxa) → MV s memo →
    FrAll (mapTaxa s n u memo xs).1 ∧ s.nTaxa ≤ (mapTaxa s n u memo xs).1.nTaxa
      ∧ (∀ y, some y ∈ (mapTaxa s n u memo xs).2.2 → y < (mapTaxa s n u memo xs).1.nTaxa)
      ∧ MV (mapTaxa s n u memo xs).1 (mapTaxa s n u memo xs).2.1
  | [], s, memo, h, _, hm => ⟨h, Nat.le_refl _, by simp [mapTaxa], hm⟩
  | none :: xs, s, memo, h, hx, hm => by
    simp only [mapTaxa]
    obtain ⟨a, b, c, d⟩ := frAll_mapTaxa n u xs memo h (fun x hx' => hx x (by simp [hx'])) hm
    exact ⟨a, b, fun y hy => by simp at hy; exact c y hy, d⟩
  | some x :: xs, s, memo, h, hx, hm => by
    simp only [mapTaxa]
    obtain ⟨a1, b1, c1, d1⟩ := frAll_mapOne h n u memo x (hx x (by simp)) hm
    obtain ⟨a, b, c, d⟩ := frAll_mapTaxa n u xs _ a1 (fun x' hx' => Nat.lt_of_lt_of_le (hx x' (by simp [hx'])) b1) d1
    refine ⟨a, Nat.le_trans b1 b, ?_, d⟩
    intro y hy
    simp at hy
    rcases hy with e | hy
    · rw [e]; exact Nat.lt_of_lt_of_le c1 b
    · exact c y hy

theorem frAll_mapKeys (n : Nat) (u : Bool) : ∀ (xs : List Nat) {s : Store} (memo : Memo) (cur : List Nat), FrAll s →
    (∀ x, x ∈ xs → x < s.nTaxa) → (∀ x, x ∈ cur → x < s.nTaxa) → MV s memo →
    FrAll (mapKeys s n u memo cur xs).1 ∧ s.nTaxa ≤ (mapKeys s n u memo cur xs).1.nTaxa
      ∧ (∀ y, y ∈ (mapKeys s n u memo cur xs).2.2.1 → y < (mapKeys s n u memo cur xs).1.nTaxa)
      ∧ MV (mapKeys s n u memo cur xs).1 (mapKeys s n u memo cur xs).2.1
  | [], s, memo, cur, h, _, hc, hm => ⟨h, Nat.le_refl _, by simpa [mapKeys] using hc, hm⟩
  | x :: xs, s, memo, cur, h, hx, hc, hm => by
    simp only [mapKeys]
    obtain ⟨a1, b1, c1, d1⟩ := frAll_mapOne h n u memo x (hx x (by simp)) hm
    have hx' : ∀ x', x' ∈ xs → x' < (mapOne s n u memo x).1.nTaxa := fun x' h' => Nat.lt_of_lt_of_le (hx x' (by simp [h'])) b1
    have hc' : ∀ x', x' ∈ cur → x' < (mapOne s n u memo x).1.nTaxa := fun x' h' => Nat.lt_of_lt_of_le (hc x' h') b1
    split
    · split
      · obtain ⟨a, b, c, d⟩ := frAll_mapKeys n u xs _ cur a1 hx' hc' d1
        exact ⟨a, Nat.le_trans b1 b, c, d⟩
      · split
        · exact ⟨a1, b1, hc', d1⟩
        · obtain ⟨a, b, c, d⟩ := frAll_mapKeys n u xs _ (cur.filter (fun k => k != x) ++ [(mapOne s n u memo x).2.2]) a1 hx'
            (by
              intro y hy
              simp only [List.mem_append, List.mem_filter, List.mem_singleton] at hy
              rcases hy with ⟨hy, _⟩ | hy
              · exact hc' y hy
              · rw [hy]; exact c1) d1
          exact ⟨a, Nat.le_trans b1 b, c, d⟩
    · obtain ⟨a, b, c, d⟩ := frAll_mapKeys n u xs memo cur h (fun x' h' => hx x' (by simp [h'])) hc hm
      exact ⟨a, b, c, d⟩

theorem frAll_cloneMemo (tgt : Nat) : ∀ (xs : List Nat) {s : Store}, FrAll s →
    FrAll (cloneMemo s tgt xs).1 ∧ s.nTaxa ≤ (cloneMemo s tgt xs).1.nTaxa ∧ MV (cloneMemo s tgt xs).1 (cloneMemo s tgt xs).2
  | [], s, h => ⟨h, Nat.le_refl _, mv_nil s⟩
  | x :: xs, s, h => by
    simp only [cloneMemo]
    obtain ⟨a, b, c⟩ := frAll_require h tgt (s.ns tgt).cs (s.label x)
    obtain ⟨a2, b2, c2⟩ := frAll_cloneMemo tgt xs a
    exact ⟨a2, Nat.le_trans b b2, mv_cons c2 _ _ (Nat.lt_of_lt_of_le c b2)⟩

theorem applyMemo_lt {s : Store} {m : Memo} (hm : MV s m) (x : Nat) (hx : x < s.nTaxa) : applyMemo m x < s.nTaxa := by
  unfold applyMemo
  cases hg : memoGet m x with
  | some y => simpa using hm x y hg
  | none => simpa using hx

theorem frAll_addTaxa (n : Nat) : ∀ (xs : List (Option Nat)) {s : Store}, FrAll s → (∀ x, some x ∈ xs → x < s.nTaxa) →
    FrAll (addTaxa s n xs) ∧ (addTaxa s n xs).nTaxa = s.nTaxa
  | [], _, h, _ => ⟨h, rfl⟩
  | none :: xs, s, h, hx => by
    simpa [addTaxa] using frAll_addTaxa n xs h (fun x hx' => hx x (by simp [hx']))
  | some x :: xs, s, h, hx => by
    simp only [addTaxa, List.foldl_cons]
    obtain ⟨a, b⟩ := frAll_addMember h n x (hx x (by simp))
    obtain ⟨a2, b2⟩ := frAll_addTaxa n xs a (fun x' hx' => by rw [b]; exact hx x' (by simp [hx']))
    exact ⟨a2, by simp only [addTaxa] at b2; rw [b2, b]⟩

/-! ## trees, lists, matrices -/

theorem frAll_setTree {s : Store} (h : FrAll s) (t : Nat) (v : Tree) (hv : ∀ x, some x ∈ v.taxa → x < s.nTaxa) :
    FrAll (setTree s t v) := by
  refine ⟨h.ns, ?_, h.mat⟩
  intro t' x hx
  simp only [setTree, upd] at hx
  split at hx
  · exact hv x hx
  · exact h.tree t' x hx

theorem frAll_allocTree {s : Store} (h : FrAll s) (v : Tree) (hv : ∀ x, some x ∈ v.taxa → x < s.nTaxa) :
    FrAll (allocTree s v).1 := by
  refine ⟨h.ns, ?_, h.mat⟩
  intro t' x hx
  simp only [allocTree, upd] at hx
  split at hx
  · exact hv x hx
  · exact h.tree t' x hx

theorem frAll_setMat {s : Store} (h : FrAll s) (m : Nat) (v : Mat) (hv : ∀ x, x ∈ v.keys → x < s.nTaxa) :
    FrAll { s with mat := upd s.mat m v } := by
  refine ⟨h.ns, h.tree, ?_⟩
  intro m' x hx
  simp only [upd] at hx
  split at hx
  · exact hv x hx
  · exact h.mat m' x hx

theorem frAll_allocMat {s : Store} (h : FrAll s) (v : Mat) (hv : ∀ x, x ∈ v.keys → x < s.nTaxa) : FrAll (allocMat s v).1 := by
  refine ⟨h.ns, h.tree, ?_⟩
  intro m' x hx
  simp only [allocMat, upd] at hx
  split at hx
  · exact hv x hx
  · exact h.mat m' x hx

theorem frAll_setTrees {s : Store} (h : FrAll s) (l : Nat) (ts : List Nat) : FrAll (setTrees s l ts) :=
  frAll_of_eq h rfl rfl rfl rfl

theorem frAll_allocTl {s : Store} (h : FrAll s) (n : Nat) : FrAll (allocTl s n).1 := frAll_of_eq h rfl rfl rfl rfl

theorem frAll_setDs {s : Store} (h : FrAll s) (d : Nat) (v : DS) : FrAll (setDs s d v) := frAll_of_eq h rfl rfl rfl rfl

theorem frAll_migrateTree {s : Store} (h : FrAll s) (t n : Nat) (u : Bool) (memo : Memo) (hm : MV s memo) :
    FrAll (migrateTree s t n u memo).1 ∧ s.nTaxa ≤ (migrateTree s t n u memo).1.nTaxa
      ∧ MV (migrateTree s t n u memo).1 (migrateTree s t n u memo).2 := by
  simp only [migrateTree]
  obtain ⟨a, b, c, d⟩ := frAll_mapTaxa n u (s.tree t).taxa memo h (h.tree t) hm
  exact ⟨frAll_setTree a t _ c, b, d⟩

theorem frAll_migrateTrees (n : Nat) (u : Bool) : ∀ (ts : List Nat) {s : Store} (memo : Memo), FrAll s → MV s memo →
    FrAll (migrateTrees s n u memo ts).1 ∧ s.nTaxa ≤ (migrateTrees s n u memo ts).1.nTaxa
      ∧ MV (migrateTrees s n u memo ts).1 (migrateTrees s n u memo ts).2
  | [], s, memo, h, hm => ⟨h, Nat.le_refl _, hm⟩
  | t :: ts, s, memo, h, hm => by
    simp only [migrateTrees]
    obtain ⟨a, b, c⟩ := frAll_migrateTree h t n u memo hm
    obtain ⟨a2, b2, c2⟩ := frAll_migrateTrees n u ts _ a c
    exact ⟨a2, Nat.le_trans b b2, c2⟩

theorem frAll_migrateTl {s : Store} (h : FrAll s) (l n : Nat) (u : Bool) (memo : Memo) (hm : MV s memo) :
    FrAll (migrateTl s l n u memo).1 ∧ s.nTaxa ≤ (migrateTl s l n u memo).1.nTaxa
      ∧ MV (migrateTl s l n u memo).1 (migrateTl s l n u memo).2 := by
  simp only [migrateTl]
  exact frAll_migrateTrees n u (s.tl l).trees memo (frAll_of_eq h rfl rfl rfl rfl) hm

theorem frAll_migrateTls (n : Nat) : ∀ (ls : List Nat) {s : Store} (memo : Memo), FrAll s → MV s memo →
    FrAll (migrateTls s n memo ls).1 ∧ s.nTaxa ≤ (migrateTls s n memo ls).1.nTaxa
      ∧ MV (migrateTls s n memo ls).1 (migrateTls s n memo ls).2
  | [], s, memo, h, hm => ⟨h, Nat.le_refl _, hm⟩
  | l :: ls, s, memo, h, hm => by
    simp only [migrateTls]
    obtain ⟨a, b, c⟩ := frAll_migrateTl h l n true memo hm
    obtain ⟨a2, b2, c2⟩ := frAll_migrateTls n ls _ a c
    exact ⟨a2, Nat.le_trans b b2, c2⟩

theorem frAll_migrateMat {s : Store} (h : FrAll s) (m n : Nat) (u : Bool) (memo : Memo) (hm : MV s memo) :
    FrAll (migrateMat s m n u memo).1 ∧ s.nTaxa ≤ (migrateMat s m n u memo).1.nTaxa
      ∧ MV (migrateMat s m n u memo).1 (migrateMat s m n u memo).2.1 := by
  simp only [migrateMat]
  obtain ⟨a, b, c, d⟩ := frAll_mapKeys n u (s.mat m).keys memo (s.mat m).keys h (h.mat m) (h.mat m) hm
  exact ⟨frAll_setMat a m _ c, b, d⟩

theorem frAll_migrateMats (n : Nat) : ∀ (ms : List Nat) {s : Store} (memo : Memo), FrAll s → MV s memo →
    FrAll (migrateMats s n memo ms).1
  | [], _, _, h, _ => h
  | m :: ms, s, memo, h, hm => by
    simp only [migrateMats]
    obtain ⟨a, b, c⟩ := frAll_migrateMat h m n true memo hm
    split
    · exact frAll_migrateMats n ms _ a c
    · exact a

theorem frAll_importTree {s : Store} (h : FrAll s) (n : Nat) (st : Strat) (t : Nat) : FrAll (importTree s n st t) := by
  unfold importTree
  split
  · exact h
  · cases st with
    | migrate => exact (frAll_migrateTree h t n true [] (mv_nil s)).1
    | add =>
      simp only [addTree]
      have := frAll_addTaxa n (s.tree t).taxa h (h.tree t)
      simp only [addTaxa] at this
      apply frAll_setTree this.1
      intro x hx; rw [this.2]; exact h.tree t x hx

theorem frAll_importTrees (n : Nat) (st : Strat) : ∀ (ts : List Nat) {s : Store}, FrAll s → FrAll (importTrees s n st ts)
  | [], _, h => h
  | t :: ts, _, h => by simp only [importTrees]; exact frAll_importTrees n st ts (frAll_importTree h n st t)

theorem frAll_cloneTree {s : Store} (h : FrAll s) (src n : Nat) : FrAll (cloneTree s src n).1 := by
  unfold cloneTree
  simp only []
  split
  · exact frAll_allocTree h _ (h.tree src)
  · obtain ⟨a, b, c⟩ := frAll_cloneMemo n (mem s (s.tree src).ns) h
    apply frAll_allocTree a
    intro x hx
    simp only [List.mem_map] at hx
    obtain ⟨o, ho, e⟩ := hx
    cases o with
    | none => simp at e
    | some y =>
      simp at e; subst e
      exact applyMemo_lt c y (Nat.lt_of_lt_of_le (h.tree src y ho) b)

theorem frAll_cloneTrees (n : Nat) : ∀ (ts : List Nat) {s : Store}, FrAll s → FrAll (cloneTrees s n ts).1
  | [], _, h => h
  | t :: ts, _, h => by simp only [cloneTrees]; exact frAll_cloneTrees n ts (frAll_cloneTree h t n)

theorem frAll_copyTrees (n : Nat) (m : Memo) : ∀ (ts : List Nat) {s : Store} (seen : List (Nat × Nat)), FrAll s → MV s m →
    FrAll (copyTrees s n m seen ts).1
  | [], _, _, h, _ => h
  | t :: ts, s, seen, h, hm => by
    simp only [copyTrees]
    split
    · exact frAll_copyTrees n m ts seen h hm
    · show FrAll (copyTrees _ n m _ ts).1
      refine frAll_copyTrees n m ts _ ?_ (fun x y hxy => hm x y hxy)
      apply frAll_allocTree h
      intro x hx
      simp only [List.mem_map] at hx
      obtain ⟨o, ho, e⟩ := hx
      cases o with
      | none => simp at e
      | some y => simp at e; subst e; exact applyMemo_lt hm y (h.tree t y ho)

theorem frAll_readTrees (n : Nat) : ∀ (docs : List (List String)) {s : Store}, FrAll s → FrAll (readTrees s n docs).1
  | [], _, h => h
  | labs :: rest, s, h => by
    simp only [readTrees]
    obtain ⟨a, b, c⟩ := frAll_requireLastList n (s.ns n).cs labs h
    apply frAll_readTrees n rest
    apply frAll_allocTree a
    intro x hx
    simp at hx
    exact c x hx

theorem frAll_spliceT {s : Store} (h : FrAll s) (l a b : Nat) (st : Strat) (ts : List Nat) : FrAll (spliceT s l a b st ts) := by
  simp only [spliceT]; exact frAll_setTrees (frAll_importTrees _ st ts h) _ _

theorem frAll_spliceL {s : Store} (h : FrAll s) (l a b l2 : Nat) : FrAll (spliceL s l a b l2) := by
  simp only [spliceL]; exact frAll_setTrees (frAll_cloneTrees _ _ h) _ _

theorem frAll_srcInto {s : Store} (h : FrAll s) (l a b : Nat) (src : Src) : FrAll (srcInto s l a b src) := by
  cases src with
  | trees ts => exact frAll_spliceT h l a b _ ts
  | list l2 => exact frAll_spliceL h l a b l2

theorem mergeKeys_sub : ∀ (xs acc : List Nat) (k : Nat), k ∈ mergeKeys acc xs → k ∈ acc ∨ k ∈ xs
  | [], acc, k => by simp [mergeKeys]
  | x :: xs, acc, k => by
    simp only [mergeKeys]
    split
    · intro hk; rcases mergeKeys_sub xs acc k hk with h | h
      · exact Or.inl h
      · exact Or.inr (by simp [h])
    · intro hk; rcases mergeKeys_sub xs _ k hk with h | h
      · simp at h; rcases h with h | h
        · exact Or.inl h
        · exact Or.inr (by simp [h])
      · exact Or.inr (by simp [h])

theorem frAll_cloneMat {s : Store} (h : FrAll s) (src n : Nat) : FrAll (cloneMat s src n).1 := by
  unfold cloneMat
  simp only []
  split
  · exact frAll_allocMat h _ (h.mat src)
  · obtain ⟨a, b, c⟩ := frAll_cloneMemo n (mem s (s.mat src).ns) h
    split
    · apply frAll_allocMat a
      intro x hx
      simp only [List.mem_map] at hx
      obtain ⟨y, hy, e⟩ := hx
      subst e
      exact applyMemo_lt c y (Nat.lt_of_lt_of_le (h.mat src y hy) b)
    · exact a

theorem frAll_readInto {s : Store} (h : FrAll s) (l : Nat) (pre : List String) (docs : List (List String)) :
    FrAll (readInto s l pre docs) := by
  simp only [readInto]
  exact frAll_setTrees (frAll_readTrees _ docs (frAll_requireList _ _ pre h).1) _ _

theorem frAll_chain : ∀ (gs : List Mig) {s : Store} (memo : Memo), FrAll s → MV s memo → FrAll (chain s memo gs).1
  | [], _, _, h, _ => h
  | g :: gs, s, memo, h, hm => by
    simp only [chain]
    split
    · obtain ⟨a, _, c⟩ := frAll_migrateTree h g.obj g.ns g.unify memo hm
      exact frAll_chain gs _ a c
    · obtain ⟨a, _, c⟩ := frAll_migrateTl h g.obj g.ns g.unify memo hm
      exact frAll_chain gs _ a c
    · obtain ⟨a, _, c⟩ := frAll_migrateMat h g.obj g.ns g.unify memo hm
      split
      · exact frAll_chain gs _ a c
      · exact a

/-! ## the `taxon_namespace` setter + `update_taxon_namespace()`, matrix combination, `purge_taxon_namespace` -/

theorem frAll_addTree {s : Store} (h : FrAll s) (t n : Nat) : FrAll (addTree s t n) ∧ (addTree s t n).nTaxa = s.nTaxa := by
  simp only [addTree]
  have := frAll_addTaxa n (s.tree t).taxa h (h.tree t)
  simp only [addTaxa] at this
  refine ⟨?_, this.2⟩
  apply frAll_setTree this.1
  intro x hx; rw [this.2]; exact h.tree t x hx

theorem frAll_addTrees (n : Nat) : ∀ (ts : List Nat) {s : Store}, FrAll s → FrAll (addTrees s n ts)
  | [], _, h => h
  | t :: ts, _, h => by simp only [addTrees]; exact frAll_addTrees n ts (frAll_addTree h t n).1

theorem frAll_addTl {s : Store} (h : FrAll s) (l n : Nat) : FrAll (addTl s l n) := by
  simp only [addTl]
  exact frAll_addTrees n (s.tl l).trees (frAll_of_eq h rfl rfl rfl rfl)

theorem frAll_addKeys (n : Nat) : ∀ (xs : List Nat) {s : Store}, FrAll s → (∀ x, x ∈ xs → x < s.nTaxa) →
    FrAll (xs.foldl (fun acc x => addMember acc n x) s) ∧ (xs.foldl (fun acc x => addMember acc n x) s).nTaxa = s.nTaxa
      ∧ (xs.foldl (fun acc x => addMember acc n x) s).mat = s.mat
  | [], _, h, _ => ⟨h, rfl, rfl⟩
  | x :: xs, s, h, hx => by
    simp only [List.foldl_cons]
    obtain ⟨a, b⟩ := frAll_addMember h n x (hx x (by simp))
    obtain ⟨a2, b2, c2⟩ := frAll_addKeys n xs a (fun x' hx' => by rw [b]; exact hx x' (by simp [hx']))
    refine ⟨a2, by rw [b2, b], ?_⟩
    rw [c2]
    unfold addMember
    split <;> rfl

theorem frAll_addMat {s : Store} (h : FrAll s) (m n : Nat) : FrAll (addMat s m n) := by
  simp only [addMat]
  obtain ⟨a, b, c⟩ := frAll_addKeys n (s.mat m).keys h (h.mat m)
  apply frAll_setMat a m
  intro x hx
  rw [b]; exact h.mat m x hx

theorem frAll_purge {s : Store} (h : FrAll s) (n : Nat) (keep : List Nat) : FrAll (purge s n keep) := by
  refine ⟨?_, h.tree, h.mat⟩
  intro k x hx
  simp only [purge, mem, upd] at hx
  split at hx
  · next e => subst e; exact h.ns _ x (List.mem_filter.mp hx).1
  · exact h.ns k x hx

theorem mergeKeys_sub' : ∀ (xs acc : List Nat) (k : Nat), k ∈ mergeKeys acc xs → k ∈ acc ∨ k ∈ xs
  | [], acc, k, h => Or.inl (by simpa [mergeKeys] using h)
  | x :: xs, acc, k, h => by
    simp only [mergeKeys] at h
    split at h
    · rcases mergeKeys_sub' xs acc k h with h | h
      · exact Or.inl h
      · exact Or.inr (by simp [h])
    · rcases mergeKeys_sub' xs (acc ++ [x]) k h with h | h
      · simp at h
        rcases h with h | h
        · exact Or.inl h
        · exact Or.inr (by simp [h])
      · exact Or.inr (by simp [h])


end DendroModel.C11.Fresh
