import DendroModel.Model.C10
/-! C10 — `sort(key=…, reverse=…)` for an arbitrary key function: permutation, sortedness with respect to the key order,
stability.  Everything is stated for any key type `κ` and any comparison `le` that is total and transitive (what
CPython's `list.sort` requires of `<` on the key values). -/
namespace DendroModel.C10.Aux
open DendroModel DendroModel.C10

/-- the order `sort(key=key, reverse=rev)` establishes between an earlier and a later member -/
def ordByK {κ : Type} (le : κ → κ → Bool) (key : Nat → κ) (rev : Bool) (a b : Nat) : Prop :=
  (if rev then le (key b) (key a) else le (key a) (key b)) = true

instance {κ : Type} (le : κ → κ → Bool) (key : Nat → κ) (rev : Bool) (a b : Nat) : Decidable (ordByK le key rev a b) := by
  unfold ordByK; exact inferInstance

/-- what `list.sort` needs of the comparison of key values -/
structure TotalPreorder {κ : Type} (le : κ → κ → Bool) : Prop where
  total : ∀ a b, le a b = true ∨ le b a = true
  trans : ∀ a b c, le a b = true → le b c = true → le a c = true

theorem TotalPreorder.refl {κ : Type} {le : κ → κ → Bool} (h : TotalPreorder le) (a : κ) : le a a = true := by
  rcases h.total a a with h' | h' <;> exact h'

theorem insertByK_eq {κ : Type} (le : κ → κ → Bool) (key : Nat → κ) (rev : Bool) (x y : Nat) (ys : List Nat) :
    insertByK le key rev x (y :: ys) = if ordByK le key rev x y then x :: y :: ys else y :: insertByK le key rev x ys := rfl

theorem insertByK_perm {κ : Type} (le : κ → κ → Bool) (key : Nat → κ) (rev : Bool) (x : Nat) (l : List Nat) :
    (insertByK le key rev x l).Perm (x :: l) := by
  induction l with
  | nil => exact List.Perm.refl _
  | cons y ys ih =>
    rw [insertByK_eq]
    by_cases h : ordByK le key rev x y
    · rw [if_pos h]
    · rw [if_neg h]; exact (List.Perm.cons y ih).trans (List.Perm.swap x y ys)

theorem sortByK_perm {κ : Type} (le : κ → κ → Bool) (key : Nat → κ) (rev : Bool) (l : List Nat) :
    (sortByK le key rev l).Perm l := by
  induction l with
  | nil => exact List.Perm.refl _
  | cons x xs ih =>
    simp only [sortByK, List.foldr_cons]
    exact (insertByK_perm le key rev x _).trans (List.Perm.cons x ih)

theorem ordByK_trans {κ : Type} {le : κ → κ → Bool} (hle : TotalPreorder le) {key : Nat → κ} {rev : Bool} {a b c : Nat}
    (h1 : ordByK le key rev a b) (h2 : ordByK le key rev b c) : ordByK le key rev a c := by
  unfold ordByK at *
  cases rev
  · simp only [Bool.false_eq_true, if_false] at *; exact hle.trans _ _ _ h1 h2
  · simp only [if_true] at *; exact hle.trans _ _ _ h2 h1

theorem ordByK_total {κ : Type} {le : κ → κ → Bool} (hle : TotalPreorder le) {key : Nat → κ} {rev : Bool} {a b : Nat}
    (h : ¬ ordByK le key rev a b) : ordByK le key rev b a := by
  unfold ordByK at *
  cases rev
  · simp only [Bool.false_eq_true, if_false] at *
    rcases hle.total (key a) (key b) with h' | h'
    · exact absurd h' h
    · exact h'
  · simp only [if_true] at *
    rcases hle.total (key a) (key b) with h' | h'
    · exact h'
    · exact absurd h' h

theorem ordByK_of_eq {κ : Type} {le : κ → κ → Bool} (hle : TotalPreorder le) {key : Nat → κ} {rev : Bool} {a b : Nat}
    (h : key a = key b) : ordByK le key rev a b := by
  unfold ordByK; cases rev <;> simp [h, hle.refl]

theorem insertByK_sorted {κ : Type} {le : κ → κ → Bool} (hle : TotalPreorder le) (key : Nat → κ) (rev : Bool) (x : Nat) :
    ∀ (l : List Nat), l.Pairwise (ordByK le key rev) → (insertByK le key rev x l).Pairwise (ordByK le key rev) := by
  intro l
  induction l with
  | nil => intro _; simp [insertByK]
  | cons y ys ih =>
    intro h
    rw [List.pairwise_cons] at h
    rw [insertByK_eq]
    by_cases hc : ordByK le key rev x y
    · rw [if_pos hc, List.pairwise_cons]
      refine ⟨?_, List.pairwise_cons.2 h⟩
      intro a ha
      rcases List.mem_cons.1 ha with e | e
      · subst e; exact hc
      · exact ordByK_trans hle hc (h.1 a e)
    · rw [if_neg hc, List.pairwise_cons]
      refine ⟨?_, ih h.2⟩
      intro a ha
      have := (insertByK_perm le key rev x ys).mem_iff.1 ha
      rcases List.mem_cons.1 this with e | e
      · subst e; exact ordByK_total hle hc
      · exact h.1 a e

theorem sortByK_sorted {κ : Type} {le : κ → κ → Bool} (hle : TotalPreorder le) (key : Nat → κ) (rev : Bool) (l : List Nat) :
    (sortByK le key rev l).Pairwise (ordByK le key rev) := by
  induction l with
  | nil => simp [sortByK]
  | cons x xs ih =>
    simp only [sortByK, List.foldr_cons]
    exact insertByK_sorted hle key rev x _ ih

theorem insertByK_filter {κ : Type} [DecidableEq κ] {le : κ → κ → Bool} (hle : TotalPreorder le) (key : Nat → κ) (rev : Bool)
    (k : κ) (x : Nat) : ∀ (l : List Nat),
    (insertByK le key rev x l).filter (fun t => decide (key t = k)) =
      if key x = k then x :: l.filter (fun t => decide (key t = k)) else l.filter (fun t => decide (key t = k)) := by
  intro l
  induction l with
  | nil => simp [insertByK, List.filter_cons]
  | cons y ys ih =>
    rw [insertByK_eq]
    by_cases hc : ordByK le key rev x y
    · rw [if_pos hc]; simp [List.filter_cons]
    · rw [if_neg hc]
      have hne : key x ≠ key y := fun e => hc (ordByK_of_eq hle e)
      simp only [List.filter_cons, ih]
      by_cases hx : key x = k
      · have hy : key y ≠ k := fun e => hne (hx.trans e.symm)
        simp [hx, hy]
      · simp [hx]

/-- stability: the members carrying one key value keep their relative order (in both directions) -/
theorem sortByK_stable {κ : Type} [DecidableEq κ] {le : κ → κ → Bool} (hle : TotalPreorder le) (key : Nat → κ) (rev : Bool)
    (k : κ) (l : List Nat) :
    (sortByK le key rev l).filter (fun t => decide (key t = k)) = l.filter (fun t => decide (key t = k)) := by
  induction l with
  | nil => simp [sortByK]
  | cons x xs ih =>
    simp only [sortByK, List.foldr_cons]
    rw [insertByK_filter hle]
    have ih' : (List.foldr (insertByK le key rev) [] xs).filter (fun t => decide (key t = k)) =
        xs.filter (fun t => decide (key t = k)) := ih
    rw [ih']
    by_cases hx : key x = k
    · simp [hx]
    · simp [hx]

/-! ### the comparisons of the key kinds the driver has -/
theorem strLe_preorder : TotalPreorder strLe :=
  ⟨fun a b => by
      rcases String.le_total a b with h | h
      · left; simp [strLe, h]
      · right; simp [strLe, h],
   fun a b c h1 h2 => by
      simp only [strLe, decide_eq_true_eq] at *
      exact String.le_trans h1 h2⟩

theorem natBle_preorder : TotalPreorder Nat.ble :=
  ⟨fun a b => by
      rcases Nat.le_total a b with h | h
      · left; exact Nat.ble_eq_true_of_le h
      · right; exact Nat.ble_eq_true_of_le h,
   fun a b c h1 h2 => Nat.ble_eq_true_of_le (Nat.le_trans (Nat.le_of_ble_eq_true h1) (Nat.le_of_ble_eq_true h2))⟩

theorem pairLe_iff (a b : Nat × String) : pairLe a b = true ↔ a.1 < b.1 ∨ (a.1 = b.1 ∧ a.2 ≤ b.2) := by
  simp [pairLe, strLe]

theorem pairLe_preorder : TotalPreorder pairLe :=
  ⟨fun a b => by
      rw [pairLe_iff, pairLe_iff]
      rcases Nat.lt_trichotomy a.1 b.1 with h | h | h
      · exact .inl (.inl h)
      · rcases String.le_total a.2 b.2 with h' | h'
        · exact .inl (.inr ⟨h, h'⟩)
        · exact .inr (.inr ⟨h.symm, h'⟩)
      · exact .inr (.inl h),
   fun a b c h1 h2 => by
      rw [pairLe_iff] at *
      rcases h1 with h1 | ⟨e1, h1⟩
      · rcases h2 with h2 | ⟨e2, _⟩
        · exact .inl (Nat.lt_trans h1 h2)
        · exact .inl (e2 ▸ h1)
      · rcases h2 with h2 | ⟨e2, h2⟩
        · exact .inl (e1 ▸ h2)
        · exact .inr ⟨e1.trans e2, String.le_trans h1 h2⟩⟩

/-- every key kind of the driver sorts by a total preorder: `sortWith` is `sortByK` of some key with such a comparison -/
theorem sortWith_perm (w : World) (s : NS) (k : SortKey) (rev : Bool) (l : List Nat) : (sortWith w s k rev l).Perm l := by
  cases k <;> exact sortByK_perm _ _ _ _

/-- the default key is the `label` kind: `sort(reverse=rev)` and `sort(key=lambda x: x.label, reverse=rev)` coincide -/
theorem insertBy_eq_insertByK (lab : Nat → String) (rev : Bool) (x : Nat) (l : List Nat) :
    insertBy lab rev x l = insertByK strLe lab rev x l := by
  induction l with
  | nil => rfl
  | cons y ys ih =>
    unfold insertBy insertByK
    rw [ih]
    cases rev <;> simp [strLe]

theorem sortBy_eq_sortByK (lab : Nat → String) (rev : Bool) (l : List Nat) : sortBy lab rev l = sortByK strLe lab rev l := by
  induction l with
  | nil => rfl
  | cons x xs ih =>
    simp only [sortBy, sortByK, List.foldr_cons] at *
    rw [ih, insertBy_eq_insertByK]

end DendroModel.C10.Aux
