import DendroModel.Theory.C17Perm
/-! C17 — extension round: root distances of all nodes, lineage counts versus node ages, edge lengths from ages
within a precision, returned lists. -/
namespace DendroModel.C17.Aux
open DendroModel DendroModel.C17

/-! ## distance from the root of every node, defined from the node upwards -/

mutual
/-- every node `v` of the subtree, pre-order, with the length of the path from the subtree's root down to `v`:
    built bottom-up (a node below child `c` is `qlen c.len` further away than it is from `c`) -/
def below : T → List (T × ℚ)
  | .node i x l s cs => (.node i x l s cs, 0) :: belowL cs
def belowL : List T → List (T × ℚ)
  | [] => []
  | c :: cs => (below c).map (fun q => (q.1, q.2 + qlen c.len)) ++ belowL cs
end

mutual
theorem below_fst : ∀ t : T, (below t).map (·.1) = T.nodes t
  | .node i x l s cs => by simp [below, T.nodes, belowL_fst cs]
theorem belowL_fst : ∀ cs : List T, (belowL cs).map (·.1) = T.nodesL cs
  | [] => by simp [belowL, T.nodesL]
  | c :: cs => by
    have e : ((fun x : T × ℚ => x.1) ∘ fun q : T × ℚ => (q.1, q.2 + qlen c.len)) = (·.1) := rfl
    simp only [belowL, T.nodesL, List.map_append, List.map_map, e, below_fst c, belowL_fst cs]
end

mutual
/-- distance from the root to `v` plus distance from `v` to any of its tips is a root-to-tip path length -/
theorem below_tip : ∀ (t : T) (q : T × ℚ), q ∈ below t → ∀ y ∈ tipDists q.1, q.2 + y ∈ tipDists t
  | .node i x l s cs, q, hq, y, hy => by
    simp only [below, List.mem_cons] at hq
    rcases hq with rfl | hq
    · simpa using hy
    · match cs, hq with
      | c :: cs', hq =>
        rw [tipDists_node]
        exact belowL_tip (c :: cs') q hq y hy
theorem belowL_tip : ∀ (cs : List T) (q : T × ℚ), q ∈ belowL cs → ∀ y ∈ tipDists q.1, q.2 + y ∈ tipDistsL cs
  | [], q, hq, _, _ => by simp [belowL] at hq
  | c :: cs, q, hq, y, hy => by
    simp only [belowL, List.mem_append, List.mem_map] at hq
    simp only [tipDistsL, List.mem_append, List.mem_map]
    rcases hq with ⟨q0, hq0, rfl⟩ | hq
    · left
      exact ⟨q0.2 + y, below_tip c q0 hq0 y hy, by ring⟩
    · right
      exact belowL_tip cs q hq y hy
end

mutual
theorem depths_all : ∀ (t : T) (d : Frac), d.WF → WFT t → NoNone t →
    ∃ r, depths d t = .ok r ∧
      r.map (fun p => (p.1, p.2.1, p.2.2.toRat)) = (below t).map (fun q => (q.1.id, q.1.isLeaf, q.2 + d.toRat))
  | .node i x l s cs, d, hd, hw, hn => by
    obtain ⟨r, hr, hl⟩ := depthsL_all cs d hd hw.2 hn
    refine ⟨(i, cs.isEmpty, d) :: r, by simp [depths, hr], ?_⟩
    simp [below, hl, T.id, T.isLeaf, T.cs]
theorem depthsL_all : ∀ (cs : List T) (d : Frac), d.WF → WFTL cs → NoNoneL cs →
    ∃ r, depthsL d cs = .ok r ∧
      r.map (fun p => (p.1, p.2.1, p.2.2.toRat)) = (belowL cs).map (fun q => (q.1.id, q.1.isLeaf, q.2 + d.toRat))
  | [], d, _, _, _ => ⟨[], by simp [depthsL], by simp [belowL]⟩
  | c :: cs, d, hd, hw, hn => by
    obtain ⟨⟨l, hl⟩, hnc, hncs⟩ := hn
    have hlw : l.WF := by have := WFT_len hw.1; rw [hl] at this; exact this
    obtain ⟨r1, hr1, h1⟩ := depths_all c (l + d) (Frac.add_wf _ _) hw.1 hnc
    obtain ⟨r2, hr2, h2⟩ := depthsL_all cs d hd hw.2 hncs
    refine ⟨r1 ++ r2, by simp [depthsL, hl, hr1, hr2], ?_⟩
    rw [List.map_append, h1, h2, Frac.add_toRat hlw hd]
    simp only [belowL, List.map_append, List.map_map, qlen, hl, olen]
    congr 1
    apply List.map_congr_left
    intro a _; simp only [Function.comp, Prod.mk.injEq, true_and]; ring
end

/-! ## lineage counts and node ages on binary ultrametric trees -/

theorem edgesL_cons (r : ℚ) (c : T) (rest : List T) :
    edgesL r (c :: rest) = (r, qlen c.len + r) :: (edgesL (qlen c.len + r) c.cs ++ edgesL r rest) := by
  cases c; simp [edgesL, T.len, T.cs]

/-- the crossing test of `lineages_spec` -/
def crossQ (d : ℚ) (e : ℚ × ℚ) : Bool := decide (e.1 < d ∧ d ≤ e.2)

mutual
/-- number of internal nodes of the subtree (whose root is at distance `r`) that are closer to the root than `d` -/
def intBefore (d r : ℚ) : T → Nat
  | .node _ _ _ _ [] => 0
  | .node _ _ _ _ (c :: cs) => (if r < d then 1 else 0) + intBeforeL d r (c :: cs)
def intBeforeL (d r : ℚ) : List T → Nat
  | [] => 0
  | c :: cs => intBefore d (qlen c.len + r) c + intBeforeL d r cs
end

theorem pos_qlen {c : T} (h : ∃ l, c.len = some l ∧ l.WF ∧ 0 < l.toRat) : 0 < qlen c.len := by
  obtain ⟨l, hl, _, hpos⟩ := h
  simp [qlen, hl, olen, hpos]

/-- Counting the edges that cross distance `d` on a strictly bifurcating tree whose tips are all at distance `H ≥ d`:
    one more than the number of internal nodes before `d` (when the subtree's root is before `d`). -/
theorem cross_count (d H : ℚ) (hdH : d ≤ H) : ∀ (t : T) (r : ℚ), binary t = true → Pos t →
    (∀ x ∈ tipDists t, r + x = H) →
    (edgesL r t.cs).countP (crossQ d) = intBefore d r t + (if !t.isLeaf && decide (r < d) then 1 else 0)
  | .node _ _ _ _ [], r, _, _, _ => by simp [T.cs, edgesL, intBefore, T.isLeaf]
  | .node i x l s [a], r, hb, _, _ => by simp [binary] at hb
  | .node i x l s (a :: b :: c :: rest), r, hb, _, _ => by simp [binary] at hb
  | .node i x l s [a, b], r, hb, hp, htip => by
    simp only [binary, Bool.and_eq_true] at hb
    simp only [Pos, PosL] at hp
    have hpa : 0 < qlen a.len := pos_qlen hp.1
    have hpb : 0 < qlen b.len := pos_qlen hp.2.2.1
    have hta : ∀ y ∈ tipDists a, (qlen a.len + r) + y = H := by
      intro y hy
      have := htip (y + qlen a.len) (by rw [tipDists_node]; exact child_mem_tipDistsL List.mem_cons_self hy)
      linarith
    have htb : ∀ y ∈ tipDists b, (qlen b.len + r) + y = H := by
      intro y hy
      have := htip (y + qlen b.len) (by
        rw [tipDists_node]; exact child_mem_tipDistsL (List.mem_cons_of_mem _ List.mem_cons_self) hy)
      linarith
    have iha := cross_count d H hdH a (qlen a.len + r) hb.1 hp.2.1 hta
    have ihb := cross_count d H hdH b (qlen b.len + r) hb.2 hp.2.2.2.1 htb
    -- contribution of one child: its own edge plus what is below it
    have key : ∀ (c : T), 0 < qlen c.len → (∀ y ∈ tipDists c, (qlen c.len + r) + y = H) →
        (edgesL (qlen c.len + r) c.cs).countP (crossQ d)
          = intBefore d (qlen c.len + r) c + (if !c.isLeaf && decide (qlen c.len + r < d) then 1 else 0) →
        (if crossQ d (r, qlen c.len + r) then 1 else 0) + (edgesL (qlen c.len + r) c.cs).countP (crossQ d)
          = intBefore d (qlen c.len + r) c + (if r < d then 1 else 0) := by
      intro c hpc htc ih
      rw [ih]
      by_cases h1 : r < d
      · by_cases h2 : qlen c.len + r < d
        · have hint : c.isLeaf = false := by
            cases hc : c.isLeaf with
            | false => rfl
            | true =>
              exfalso
              have : tipDists c = [0] := by
                cases c with
                | node i x l s cs =>
                  cases cs with
                  | nil => simp [tipDists]
                  | cons k ks => simp [T.isLeaf, T.cs] at hc
              have := htc 0 (by rw [this]; simp)
              linarith
          have hcr : crossQ d (r, qlen c.len + r) = false := by
            simp [crossQ, h1]; exact h2
          simp [hcr, hint, h1, h2]
        · have hcr : crossQ d (r, qlen c.len + r) = true := by
            simp [crossQ, h1]; exact not_lt.mp h2
          simp [hcr, h1, h2]; omega
      · have h2 : ¬ (qlen c.len + r < d) := by intro h; exact h1 (by linarith)
        have hcr : crossQ d (r, qlen c.len + r) = false := by simp [crossQ, h1]
        simp [hcr, h1, h2]
    have ka := key a hpa hta iha
    have kb := key b hpb htb ihb
    have hcs : (T.node i x l s [a, b]).cs = [a, b] := rfl
    have hlf : (T.node i x l s [a, b]).isLeaf = false := rfl
    rw [hcs, hlf]
    simp only [edgesL_cons, edgesL, List.append_nil, List.countP_cons, List.countP_append, intBefore, intBeforeL]
    by_cases h1 : r < d <;> simp [h1] at ka kb ⊢ <;> omega

mutual
/-- on an exactly ultrametric subtree (all tips at distance `H`, its root at `r`): an internal node is closer to the
    root than `d` iff its (first-child-chain) age exceeds `H − d` -/
theorem intBefore_ages (d H : ℚ) : ∀ (t : T) (r : ℚ), (∀ x ∈ tipDists t, r + x = H) →
    intBefore d r t = (T.nodes t).countP (fun v => !v.isLeaf && decide (H - d < fageQ v))
  | .node _ _ _ _ [], r, _ => by simp [intBefore, T.nodes, T.nodesL, T.isLeaf, T.cs]
  | .node i x l s (c :: cs), r, htip => by
    have hL := intBeforeL_ages d H (c :: cs) r (by rw [tipDists_node] at htip; exact htip)
    have hr : r + fageQ (.node i x l s (c :: cs)) = H := htip _ (fageQ_mem _)
    simp only [intBefore, hL, nodes_node, List.countP_cons, T.isLeaf, T.cs, List.isEmpty_cons, Bool.not_false,
      Bool.true_and, decide_eq_true_eq]
    have : (r < d) ↔ (H - d < fageQ (.node i x l s (c :: cs))) := by constructor <;> intro h <;> linarith
    by_cases h : r < d
    · simp [h, this.mp h]; omega
    · have h' : ¬ (H - d < fageQ (.node i x l s (c :: cs))) := fun hh => h (this.mpr hh)
      simp [h, h']
theorem intBeforeL_ages (d H : ℚ) : ∀ (cs : List T) (r : ℚ), (∀ x ∈ tipDistsL cs, r + x = H) →
    intBeforeL d r cs = (T.nodesL cs).countP (fun v => !v.isLeaf && decide (H - d < fageQ v))
  | [], r, _ => by simp [intBeforeL, T.nodesL]
  | c :: cs, r, htip => by
    have h1 := intBefore_ages d H c (qlen c.len + r) (by
      intro y hy
      have := htip (y + qlen c.len) (child_mem_tipDistsL List.mem_cons_self hy)
      linarith)
    have h2 := intBeforeL_ages d H cs r (by
      intro y hy; exact htip y (by simp only [tipDistsL, List.mem_append]; exact Or.inr hy))
    simp only [intBeforeL, h1, h2, T.nodesL, List.countP_append]
end

/-- in a descending list, exactly the first `j+1` members exceed `y` when `S_j > y ≥ S_{j+1}` -/
theorem countP_desc : ∀ (S : List ℚ) (j : Nat) (y : ℚ), S.Pairwise (fun a b => b ≤ a) → j < S.length →
    y < S.getD j 0 → (j + 1 < S.length → S.getD (j + 1) 0 ≤ y) →
    S.countP (fun a => decide (y < a)) = j + 1
  | [], j, _, _, hj, _, _ => by simp at hj
  | a :: S, 0, y, hp, _, h0, h1 => by
    have hp' := List.pairwise_cons.mp hp
    simp only [List.getD_cons_zero] at h0
    have hrest : S.countP (fun a => decide (y < a)) = 0 := by
      rw [List.countP_eq_zero]
      intro b hb
      simp only [decide_eq_true_eq, not_lt]
      match S, hb, h1, hp' with
      | s0 :: S', hb, h1, hp' =>
        have hs0 : s0 ≤ y := by simpa using h1 (by simp)
        rcases List.mem_cons.mp hb with rfl | hb'
        · exact hs0
        · exact le_trans ((List.pairwise_cons.mp hp'.2).1 b hb') hs0
    simp [List.countP_cons, h0, hrest]
  | a :: S, j + 1, y, hp, hj, h0, h1 => by
    have hp' := List.pairwise_cons.mp hp
    simp only [List.getD_cons_succ] at h0 h1
    have hj' : j < S.length := by simpa using hj
    have ih := countP_desc S j y hp'.2 hj' h0 (fun h => h1 (by simpa using h))
    have ha : y < a := by
      have hmem : S.getD j 0 ∈ S := by
        rw [List.getD_eq_getElem?_getD, List.getElem?_eq_getElem hj']; simp
      exact lt_of_lt_of_le h0 (hp'.1 _ hmem)
    simp [List.countP_cons, ha, ih]

/-! ## edge lengths from ages, within a precision -/

/-- the error flag can only fire when the minimum length is negative or absent -/
def NegOK (minLen : Option Frac) (errNeg : Bool) : Prop :=
  errNeg = true → ∃ m, minLen = some m ∧ 0 ≤ m.toRat

theorem newLen_within {minLen : Option Frac} (hm : MinOK minLen) {errNeg : Bool} (hneg : NegOK minLen errNeg)
    {pa a : Frac} (hpa : pa.WF) (ha : a.WF) {len ε : ℚ} (hlen : 0 ≤ len) (hclose : |pa.toRat - a.toRat - len| ≤ ε) :
    ∃ e, newLen minLen errNeg pa a = .ok e ∧ e.WF ∧ |e.toRat - len| ≤ ε := by
  have he : (pa - a).toRat = pa.toRat - a.toRat := Frac.sub_toRat hpa ha
  have hwf : (pa - a).WF := Frac.sub_wf _ _
  have hcl := abs_le.mp hclose
  unfold newLen
  cases minLen with
  | none =>
    have hen : errNeg = false := by
      cases errNeg with
      | false => rfl
      | true => obtain ⟨m, hm', _⟩ := hneg rfl; cases hm'
    exact ⟨pa - a, by simp [hen], hwf, by rw [he]; exact hclose⟩
  | some m =>
    obtain ⟨hmw, hm0⟩ := hm m rfl
    by_cases hlt : Frac.lt (pa - a) m = true
    · have hq := (Frac.lt_iff hwf hmw).mp hlt
      rw [he] at hq
      have hz : (errNeg && Frac.lt m Frac.zero) = false := by
        cases errNeg with
        | false => rfl
        | true =>
          obtain ⟨m', hm', hpos⟩ := hneg rfl
          cases hm'
          have : Frac.lt m Frac.zero = false := by
            rw [Frac.lt_false_iff hmw Frac.zero_wf, Frac.zero_toRat]; exact hpos
          simp [this]
      refine ⟨m, by simp [hlt, hz], hmw, ?_⟩
      rw [abs_le]; constructor <;> linarith
    · have hf : Frac.lt (pa - a) m = false := by simpa using hlt
      have hq := (Frac.lt_false_iff hwf hmw).mp hf
      rw [he] at hq
      have hz : (errNeg && Frac.lt (pa - a) Frac.zero) = false := by
        cases errNeg with
        | false => rfl
        | true =>
          obtain ⟨m', hm', hpos⟩ := hneg rfl
          cases hm'
          have : Frac.lt (pa - a) Frac.zero = false := by
            rw [Frac.lt_false_iff hwf Frac.zero_wf, Frac.zero_toRat, he]; linarith
          simp [this]
      exact ⟨pa - a, by simp [hf, hz], hwf, by rw [he]; exact hclose⟩

/-- same ids, lengths within `ε` -/
def LensClose (ε : ℚ) (x y : Nat × ℚ) : Prop := x.1 = y.1 ∧ |x.2 - y.2| ≤ ε

theorem setLensL_within {minLen : Option Frac} (hm : MinOK minLen) {errNeg : Bool} (hneg : NegOK minLen errNeg)
    {ε : ℚ} (hε : 0 ≤ ε) :
    ∀ (cs : List T) (pa : Frac), pa.WF → WFTL cs → LocalOKL ε cs → NonNegL cs →
      (∀ k ∈ cs, |pa.toRat - (fageQ k + qlen k.len)| ≤ ε) →
      ∃ r, setLensL minLen errNeg pa (annotL cs) = .ok r ∧ List.Forall₂ (LensClose ε) (atLensL r) (tLensL cs)
  | [], _, _, _, _, _, _ => ⟨[], by simp [annotL, setLensL], by simp [atLensL, tLensL]⟩
  | .node i x l s ccs :: rest, pa, hpa, hwf, hloc, hnn, hpar => by
    have hc : WFT (.node i x l s ccs) := hwf.1
    have hfa := fage_toRat _ hc
    have hpc := hpar _ List.mem_cons_self
    have hq : 0 ≤ qlen l := hnn.1
    have hcl : |pa.toRat - (fage (.node i x l s ccs)).toRat - qlen l| ≤ ε := by
      rw [hfa]
      have e2 : pa.toRat - fageQ (T.node i x l s ccs) - qlen l = pa.toRat - (fageQ (T.node i x l s ccs) + qlen l) := by ring
      rw [e2]; exact hpc
    obtain ⟨e, hnl, hew, hec⟩ := newLen_within (ε := ε) hm hneg hpa (fage_wf (.node i x l s ccs)) hq hcl
    have hchild : ∀ k ∈ ccs, |(fage (.node i x l s ccs)).toRat - (fageQ k + qlen k.len)| ≤ ε := by
      intro k hk
      rw [hfa]
      match ccs, hk, hloc.1 with
      | c0 :: cs0, hk, hl =>
        rcases List.mem_cons.mp hk with rfl | hk'
        · simpa [fageQ] using hε
        · simpa [fageQ] using hl.2 k hk'
    have hlocc : LocalOKL ε ccs := by
      match ccs, hloc.1 with
      | [], _ => simp [LocalOKL]
      | c0 :: cs0, hl => exact hl.1
    obtain ⟨r1, hr1, hl1⟩ := setLensL_within hm hneg hε ccs (fage (.node i x l s ccs)) (fage_wf _) hc.2 hlocc hnn.2.1 hchild
    obtain ⟨r2, hr2, hl2⟩ := setLensL_within hm hneg hε rest pa hpa hwf.2 hloc.2 hnn.2.2
      (fun k hk => hpar k (List.mem_cons_of_mem _ hk))
    refine ⟨.node i (fage (.node i x l s ccs)) (some e) r1 :: r2, ?_, ?_⟩
    · simp only [annotL, annot, setLensL, hnl, hr1, hr2]
    · simp only [atLensL, atLens, tLensL, tLens, List.cons_append]
      exact List.Forall₂.cons ⟨rfl, hec⟩ (List.rel_append hl1 hl2)

end DendroModel.C17.Aux
