import DendroModel.Model.C17
import DendroModel.Theory.C17Frac
/-! C17 — helper lemmas about `calc_node_ages`: without forcing, the result is the tree annotated with the
first-child-chain distance `fage`, and the run is accepted iff every node passes the local comparison. -/
namespace DendroModel.C17.Aux
open DendroModel DendroModel.C17

mutual
/-- the tree annotated with `fage` at every node -/
def annot : T → AT
  | .node i x l s cs => .node i (fage (.node i x l s cs)) l (annotL cs)
def annotL : List T → List AT
  | [] => []
  | c :: cs => annot c :: annotL cs
end

/-- the comparison loop on the un-annotated children -/
def withinT (p age : Frac) : List T → Bool
  | [] => true
  | c :: cs => if Frac.lt p (Frac.abs (age - (fage c + olen c.len))) then false else withinT p age cs

mutual
/-- every internal node passes the comparison of its other children against the first one -/
def allWithin (p : Option Frac) : T → Bool
  | .node _ _ _ _ [] => true
  | .node _ _ _ _ (c :: cs) =>
    allWithinL p (c :: cs) &&
      (match p with
       | none => true
       | some p => withinT p (fage c + olen c.len) cs)
def allWithinL (p : Option Frac) : List T → Bool
  | [] => true
  | c :: cs => allWithin p c && allWithinL p cs
end

theorem annot_age (t : T) : (annot t).age = fage t := by
  cases t; simp [annot, AT.age]
theorem annot_len (t : T) : (annot t).len = t.len := by
  cases t; simp [annot, AT.len, T.len]
theorem annot_id (t : T) : (annot t).id = t.id := by
  cases t; simp [annot, AT.id, T.id]

theorem othersWithin_annotL (p age : Frac) : ∀ cs : List T, othersWithin p age (annotL cs) = withinT p age cs
  | [] => by simp [annotL, othersWithin, withinT]
  | c :: cs => by
    simp only [annotL, othersWithin, withinT, annot_age, annot_len, othersWithin_annotL p age cs]

mutual
theorem calcAges_nonforce (cfg : Cfg) (h1 : cfg.forceMax = false) (h2 : cfg.forceMin = false) : ∀ t : T,
    calcAges cfg t = if allWithin cfg.checking t then .ok (annot t) else .error .ultra
  | .node i x l s [] => by simp [calcAges, calcAgesL, allWithin, annot, annotL, fage]
  | .node i x l s (c :: cs) => by
    have ih := calcAgesL_nonforce cfg h1 h2 (c :: cs)
    rw [calcAges, ih]
    by_cases hA : allWithinL cfg.checking (c :: cs) = true
    · simp only [hA, if_true, annotL, ageToSet, h1, h2, annot_age, annot_len, allWithin, Bool.true_and]
      cases hc : cfg.checking with
      | none => simp [annot, annotL, fage]
      | some p =>
        simp only [othersWithin_annotL]
        by_cases hw : withinT p (fage c + olen c.len) cs = true
        · simp [hw, annot, annotL, fage]
        · simp [hw]
    · simp [hA, allWithin]
theorem calcAgesL_nonforce (cfg : Cfg) (h1 : cfg.forceMax = false) (h2 : cfg.forceMin = false) : ∀ cs : List T,
    calcAgesL cfg cs = if allWithinL cfg.checking cs then .ok (annotL cs) else .error .ultra
  | [] => by simp [calcAgesL, allWithinL, annotL]
  | c :: cs => by
    rw [calcAgesL, calcAges_nonforce cfg h1 h2 c, calcAgesL_nonforce cfg h1 h2 cs]
    by_cases h : allWithin cfg.checking c = true <;> by_cases h' : allWithinL cfg.checking cs = true <;>
      simp [h, h', allWithinL, annotL]
end

/-! ## reading in ℚ -/

/-- edge length as a rational, `None` = 0 -/
def qlen (l : Option Frac) : ℚ := (olen l).toRat

mutual
/-- distances from a node to each of its descendant tips (left to right) -/
def tipDists : T → List ℚ
  | .node _ _ _ _ [] => [0]
  | .node _ _ _ _ (c :: cs) => tipDistsL (c :: cs)
/-- distances from the parent of the listed nodes to each tip below them -/
def tipDistsL : List T → List ℚ
  | [] => []
  | c :: cs => (tipDists c).map (· + qlen c.len) ++ tipDistsL cs
end

mutual
/-- every edge length is a well-formed fraction -/
def WFT : T → Prop
  | .node _ _ l _ cs => (olen l).WF ∧ WFTL cs
def WFTL : List T → Prop
  | [] => True
  | c :: cs => WFT c ∧ WFTL cs
end

/-- first-child chain distance, in ℚ -/
def fageQ : T → ℚ
  | .node _ _ _ _ [] => 0
  | .node _ _ _ _ (c :: _) => fageQ c + qlen c.len

theorem WFT_len {t : T} (h : WFT t) : (olen t.len).WF := by
  cases t; exact h.1

theorem WFTL_mem {cs : List T} (h : WFTL cs) {c : T} (hc : c ∈ cs) : WFT c := by
  induction cs with
  | nil => cases hc
  | cons d ds ih =>
    rcases List.mem_cons.mp hc with rfl | h'
    · exact h.1
    · exact ih h.2 h'

theorem fage_wf : ∀ t : T, (fage t).WF
  | .node _ _ _ _ [] => Frac.zero_wf
  | .node _ _ _ _ (_ :: _) => Frac.add_wf _ _

theorem fage_toRat : ∀ t : T, WFT t → (fage t).toRat = fageQ t
  | .node _ _ _ _ [], _ => Frac.zero_toRat
  | .node _ _ _ _ (c :: _), h => by
    have hc : WFT c := h.2.1
    simp only [fage, fageQ, qlen]
    rw [Frac.add_toRat (fage_wf c) (WFT_len hc), fage_toRat c hc]

theorem tipDists_ne_nil : ∀ t : T, tipDists t ≠ []
  | .node _ _ _ _ [] => by simp [tipDists]
  | .node _ _ _ _ (c :: cs) => by
    have := tipDists_ne_nil c
    simp [tipDists, tipDistsL, this]

/-- the first-child chain ends in a tip: the assigned age is a genuine distance to a descendant tip -/
theorem fageQ_mem : ∀ t : T, fageQ t ∈ tipDists t
  | .node _ _ _ _ [] => by simp [fageQ, tipDists]
  | .node _ _ _ _ (c :: cs) => by
    have := fageQ_mem c
    simp only [fageQ, tipDists, tipDistsL, List.mem_append, List.mem_map]
    exact Or.inl ⟨_, this, rfl⟩

theorem child_mem_tipDistsL {cs : List T} {c : T} (hc : c ∈ cs) {d : ℚ} (hd : d ∈ tipDists c) :
    d + qlen c.len ∈ tipDistsL cs := by
  induction cs with
  | nil => cases hc
  | cons x xs ih =>
    simp only [tipDistsL, List.mem_append, List.mem_map]
    rcases List.mem_cons.mp hc with rfl | h'
    · exact Or.inl ⟨d, hd, rfl⟩
    · exact Or.inr (ih h')

theorem tipDists_node (i x l s) (c : T) (cs : List T) :
    tipDists (.node i x l s (c :: cs)) = tipDistsL (c :: cs) := by simp [tipDists]

/-- root-to-tip (node-to-tip) path lengths agree within `ε` -/
def Within (ε : ℚ) (t : T) : Prop := ∀ d ∈ tipDists t, ∀ d' ∈ tipDists t, |d - d'| ≤ ε

theorem Within_child {ε : ℚ} {i x l s} {cs : List T} (h : Within ε (.node i x l s cs)) {c : T} (hc : c ∈ cs) :
    Within ε c := by
  intro d hd d' hd'
  match cs, hc with
  | k :: ks, hc =>
    have h1 := child_mem_tipDistsL hc hd
    have h2 := child_mem_tipDistsL hc hd'
    have := h _ (by rw [tipDists_node]; exact h1) _ (by rw [tipDists_node]; exact h2)
    simpa using this

mutual
/-- the local criterion, in ℚ: at every internal node, every other child agrees with the first child within `ε` -/
def LocalOK (ε : ℚ) : T → Prop
  | .node _ _ _ _ [] => True
  | .node _ _ _ _ (c :: cs) =>
    LocalOKL ε (c :: cs) ∧ ∀ k ∈ cs, |(fageQ c + qlen c.len) - (fageQ k + qlen k.len)| ≤ ε
def LocalOKL (ε : ℚ) : List T → Prop
  | [] => True
  | c :: cs => LocalOK ε c ∧ LocalOKL ε cs
end

theorem withinT_iff {p age : Frac} (hp : p.WF) (ha : age.WF) : ∀ cs : List T, WFTL cs →
    (withinT p age cs = true ↔ ∀ k ∈ cs, |age.toRat - (fageQ k + qlen k.len)| ≤ p.toRat)
  | [], _ => by simp [withinT]
  | c :: cs, h => by
    have hc : WFT c := h.1
    have hsum : (fage c + olen c.len).WF := Frac.add_wf _ _
    have hsub : (age - (fage c + olen c.len)).WF := Frac.sub_wf _ _
    have key : (Frac.abs (age - (fage c + olen c.len))).toRat = |age.toRat - (fageQ c + qlen c.len)| := by
      rw [Frac.abs_toRat, Frac.sub_toRat ha hsum, Frac.add_toRat (fage_wf c) (WFT_len hc), fage_toRat c hc]; rfl
    have ih := withinT_iff hp ha cs h.2
    simp only [withinT, List.forall_mem_cons]
    by_cases hlt : Frac.lt p (Frac.abs (age - (fage c + olen c.len))) = true
    · have := (Frac.lt_iff hp (Frac.abs_wf hsub)).mp hlt
      rw [key] at this
      simp only [hlt, if_true]
      constructor
      · intro h; cases h
      · intro h; exact absurd h.1 (not_le.mpr this)
    · have hf : Frac.lt p (Frac.abs (age - (fage c + olen c.len))) = false := by simpa using hlt
      have := (Frac.lt_false_iff hp (Frac.abs_wf hsub)).mp hf
      rw [key] at this
      simp only [hf, Bool.false_eq_true, if_false, ih]
      exact ⟨fun h => ⟨this, h⟩, fun h => h.2⟩

mutual
theorem allWithin_iff {p : Frac} (hp : p.WF) : ∀ t : T, WFT t → (allWithin (some p) t = true ↔ LocalOK p.toRat t)
  | .node _ _ _ _ [], _ => by simp [allWithin, LocalOK]
  | .node _ _ _ _ (c :: cs), h => by
    have hc : WFT c := h.2.1
    have ih := allWithinL_iff hp (c :: cs) h.2
    have hw := withinT_iff hp (Frac.add_wf (fage c) (olen c.len)) cs h.2.2
    rw [Frac.add_toRat (fage_wf c) (WFT_len hc), fage_toRat c hc] at hw
    simp only [allWithin, LocalOK, Bool.and_eq_true, ih, hw]; rfl
theorem allWithinL_iff {p : Frac} (hp : p.WF) : ∀ cs : List T, WFTL cs → (allWithinL (some p) cs = true ↔ LocalOKL p.toRat cs)
  | [], _ => by simp [allWithinL, LocalOKL]
  | c :: cs, h => by
    simp only [allWithinL, LocalOKL, Bool.and_eq_true, allWithin_iff hp c h.1, allWithinL_iff hp cs h.2]
end

mutual
theorem allWithin_none : ∀ t : T, allWithin none t = true
  | .node _ _ _ _ [] => by simp [allWithin]
  | .node _ _ _ _ (c :: cs) => by simp [allWithin, allWithinL_none (c :: cs)]
theorem allWithinL_none : ∀ cs : List T, allWithinL none cs = true
  | [] => by simp [allWithinL]
  | c :: cs => by simp [allWithinL, allWithin_none c, allWithinL_none cs]
end

mutual
/-- paths agreeing within ε (globally) imply the local criterion -/
theorem LocalOK_of_Within {ε : ℚ} : ∀ t : T, Within ε t → LocalOK ε t
  | .node _ _ _ _ [], _ => by simp [LocalOK]
  | .node i x l s (c :: cs), h => by
    refine ⟨LocalOKL_of_Within (c :: cs) (fun k hk => Within_child h hk), ?_⟩
    intro k hk
    apply h
    · rw [tipDists_node]; exact child_mem_tipDistsL (List.mem_cons_self) (fageQ_mem c)
    · rw [tipDists_node]; exact child_mem_tipDistsL (List.mem_cons_of_mem _ hk) (fageQ_mem k)
theorem LocalOKL_of_Within {ε : ℚ} : ∀ cs : List T, (∀ k ∈ cs, Within ε k) → LocalOKL ε cs
  | [], _ => by simp [LocalOKL]
  | c :: cs, h => ⟨LocalOK_of_Within c (h c List.mem_cons_self),
      LocalOKL_of_Within cs (fun k hk => h k (List.mem_cons_of_mem _ hk))⟩
end

/-! ## forcing options -/

mutual
/-- age under a forcing option whose selection function is `pick` (`maxList` / `minList`) -/
def page (pick : Frac → List Frac → Frac) : T → Frac
  | .node _ _ _ _ [] => Frac.zero
  | .node _ _ _ _ (c :: cs) => pick (page pick c + olen c.len) (pageSums pick cs)
def pageSums (pick : Frac → List Frac → Frac) : List T → List Frac
  | [] => []
  | c :: cs => (page pick c + olen c.len) :: pageSums pick cs
end

mutual
def annotP (pick : Frac → List Frac → Frac) : T → AT
  | .node i x l s cs => .node i (page pick (.node i x l s cs)) l (annotPL pick cs)
def annotPL (pick : Frac → List Frac → Frac) : List T → List AT
  | [] => []
  | c :: cs => annotP pick c :: annotPL pick cs
end

mutual
/-- no edge below the root has length `None` -/
def NoNone : T → Prop
  | .node _ _ _ _ cs => NoNoneL cs
def NoNoneL : List T → Prop
  | [] => True
  | c :: cs => (∃ l, c.len = some l) ∧ NoNone c ∧ NoNoneL cs
end

theorem annotP_age (pick) (t : T) : (annotP pick t).age = page pick t := by
  cases t; simp [annotP, AT.age]
theorem annotP_len (pick) (t : T) : (annotP pick t).len = t.len := by
  cases t; simp [annotP, AT.len, T.len]

theorem childSums_annotPL (pick) : ∀ cs : List T, NoNoneL cs → childSums (annotPL pick cs) = .ok (pageSums pick cs)
  | [], _ => by simp [annotPL, childSums, pageSums]
  | c :: cs, h => by
    obtain ⟨⟨l, hl⟩, _, h3⟩ := h
    simp only [annotPL, childSums, childSum, annotP_len, annotP_age, hl, childSums_annotPL pick cs h3, pageSums, olen]

/-- the selection function a forcing configuration uses -/
def Forcing (cfg : Cfg) (pick : Frac → List Frac → Frac) : Prop :=
  (cfg.forceMax = true ∧ pick = maxList) ∨ (cfg.forceMax = false ∧ cfg.forceMin = true ∧ pick = minList)

theorem checking_of_forcing {cfg : Cfg} {pick} (h : Forcing cfg pick) : cfg.checking = none := by
  rcases h with ⟨h, _⟩ | ⟨_, h, _⟩ <;> simp [Cfg.checking, h]

theorem ageToSet_forcing {cfg : Cfg} {pick} (h : Forcing cfg pick) (a : AT) (as : List AT) (v : Frac) (vs : List Frac)
    (hs : childSums (a :: as) = .ok (v :: vs)) : ageToSet cfg a as = .ok (pick v vs) := by
  rcases h with ⟨h, rfl⟩ | ⟨h1, h2, rfl⟩
  · simp [ageToSet, h, hs]
  · simp [ageToSet, h1, h2, hs]

mutual
theorem calcAges_forcing {cfg : Cfg} {pick} (hf : Forcing cfg pick) : ∀ t : T, NoNone t →
    calcAges cfg t = .ok (annotP pick t)
  | .node i x l s [], _ => by simp [calcAges, calcAgesL, annotP, annotPL, page]
  | .node i x l s (c :: cs), h => by
    have ih := calcAgesL_forcing hf (c :: cs) h
    have hs := childSums_annotPL pick (c :: cs) h
    simp only [annotPL, pageSums] at hs
    rw [calcAges, ih]
    simp only [annotPL, ageToSet_forcing hf _ _ _ _ hs, checking_of_forcing hf, annotP, page]
theorem calcAgesL_forcing {cfg : Cfg} {pick} (hf : Forcing cfg pick) : ∀ cs : List T, NoNoneL cs →
    calcAgesL cfg cs = .ok (annotPL pick cs)
  | [], _ => by simp [calcAgesL, annotPL]
  | c :: cs, h => by
    rw [calcAgesL, calcAges_forcing hf c h.2.1, calcAgesL_forcing hf cs h.2.2]
    simp [annotPL]
end

/-- what a selection function must satisfy with respect to an order `R` on ℚ -/
structure Picks (pick : Frac → List Frac → Frac) (R : ℚ → ℚ → Prop) : Prop where
  mem : ∀ x ys, pick x ys ∈ x :: ys
  bound : ∀ x ys, x.WF → (∀ y ∈ ys, y.WF) → ∀ y ∈ x :: ys, R y.toRat (pick x ys).toRat
  trans : ∀ a b c, R a b → R b c → R a c
  shift : ∀ a b c, R a b → R (a + c) (b + c)
  refl : ∀ a, R a a

theorem maxList_mem : ∀ (ys : List Frac) (x : Frac), maxList x ys ∈ x :: ys
  | [], x => by simp [maxList]
  | y :: ys, x => by
    have := maxList_mem ys (if Frac.lt x y then y else x)
    simp only [maxList]
    rcases List.mem_cons.mp this with h | h
    · rw [h]; split <;> simp
    · exact List.mem_cons_of_mem _ (List.mem_cons_of_mem _ h)

theorem maxList_ge : ∀ (ys : List Frac) (x : Frac), x.WF → (∀ y ∈ ys, y.WF) →
    ∀ y ∈ x :: ys, y.toRat ≤ (maxList x ys).toRat
  | [], x, _, _ => by simp [maxList]
  | z :: ys, x, hx, hys => by
    have hz : z.WF := hys z List.mem_cons_self
    have hys' : ∀ y ∈ ys, y.WF := fun y hy => hys y (List.mem_cons_of_mem _ hy)
    intro y hy
    simp only [maxList]
    by_cases hlt : Frac.lt x z = true
    · have hxz := (Frac.lt_iff hx hz).mp hlt
      have ih := maxList_ge ys z hz hys'
      simp only [hlt, if_true]
      rcases List.mem_cons.mp hy with rfl | hy'
      · exact le_trans (le_of_lt hxz) (ih z List.mem_cons_self)
      · exact ih y hy'
    · have hf : Frac.lt x z = false := by simpa using hlt
      have hzx := (Frac.lt_false_iff hx hz).mp hf
      have ih := maxList_ge ys x hx hys'
      simp only [hf, Bool.false_eq_true, if_false]
      rcases List.mem_cons.mp hy with rfl | hy'
      · exact ih y List.mem_cons_self
      · rcases List.mem_cons.mp hy' with rfl | hy''
        · exact le_trans hzx (ih x List.mem_cons_self)
        · exact ih y (List.mem_cons_of_mem _ hy'')

theorem minList_mem : ∀ (ys : List Frac) (x : Frac), minList x ys ∈ x :: ys
  | [], x => by simp [minList]
  | y :: ys, x => by
    have := minList_mem ys (if Frac.lt y x then y else x)
    simp only [minList]
    rcases List.mem_cons.mp this with h | h
    · rw [h]; split <;> simp
    · exact List.mem_cons_of_mem _ (List.mem_cons_of_mem _ h)

theorem minList_le : ∀ (ys : List Frac) (x : Frac), x.WF → (∀ y ∈ ys, y.WF) →
    ∀ y ∈ x :: ys, (minList x ys).toRat ≤ y.toRat
  | [], x, _, _ => by simp [minList]
  | z :: ys, x, hx, hys => by
    have hz : z.WF := hys z List.mem_cons_self
    have hys' : ∀ y ∈ ys, y.WF := fun y hy => hys y (List.mem_cons_of_mem _ hy)
    intro y hy
    simp only [minList]
    by_cases hlt : Frac.lt z x = true
    · have hzx := (Frac.lt_iff hz hx).mp hlt
      have ih := minList_le ys z hz hys'
      simp only [hlt, if_true]
      rcases List.mem_cons.mp hy with rfl | hy'
      · exact le_trans (ih z List.mem_cons_self) (le_of_lt hzx)
      · exact ih y hy'
    · have hf : Frac.lt z x = false := by simpa using hlt
      have hxz := (Frac.lt_false_iff hz hx).mp hf
      have ih := minList_le ys x hx hys'
      simp only [hf, Bool.false_eq_true, if_false]
      rcases List.mem_cons.mp hy with rfl | hy'
      · exact ih y List.mem_cons_self
      · rcases List.mem_cons.mp hy' with rfl | hy''
        · exact le_trans (ih x List.mem_cons_self) hxz
        · exact ih y (List.mem_cons_of_mem _ hy'')

theorem picks_max : Picks maxList (· ≤ ·) where
  mem := fun x ys => maxList_mem ys x
  bound := fun x ys hx hys => maxList_ge ys x hx hys
  trans := fun _ _ _ => le_trans
  shift := fun _ _ c h => by linarith
  refl := fun _ => le_refl _

theorem picks_min : Picks minList (· ≥ ·) where
  mem := fun x ys => minList_mem ys x
  bound := fun x ys hx hys => minList_le ys x hx hys
  trans := fun _ _ _ h1 h2 => ge_trans h1 h2
  shift := fun _ _ c h => by show _ ≥ _; linarith [h]
  refl := fun _ => le_refl _

mutual
theorem page_wf (pick) (hp : ∀ x ys, pick x ys ∈ x :: ys) : ∀ t : T, (page pick t).WF
  | .node _ _ _ _ [] => Frac.zero_wf
  | .node _ _ _ _ (c :: cs) => by
    simp only [page]
    rcases List.mem_cons.mp (hp (page pick c + olen c.len) (pageSums pick cs)) with h | h
    · rw [h]; exact Frac.add_wf _ _
    · exact pageSums_wf pick hp cs _ h
theorem pageSums_wf (pick) (hp : ∀ x ys, pick x ys ∈ x :: ys) : ∀ cs : List T, ∀ s ∈ pageSums pick cs, s.WF
  | [], s, h => by simp [pageSums] at h
  | c :: cs, s, h => by
    simp only [pageSums] at h
    rcases List.mem_cons.mp h with rfl | h'
    · exact Frac.add_wf _ _
    · exact pageSums_wf pick hp cs s h'
end

mutual
/-- under a forcing option the age is the `R`-extreme distance to a descendant tip -/
theorem page_spec {pick R} (hp : Picks pick R) : ∀ t : T, WFT t →
    (page pick t).toRat ∈ tipDists t ∧ ∀ d ∈ tipDists t, R d (page pick t).toRat
  | .node _ _ _ _ [], _ => by
    simp only [page, tipDists, Frac.zero_toRat, List.mem_singleton, true_and]
    intro d hd; rw [hd]; exact hp.refl 0
  | .node i x l s (c :: cs), h => by
    obtain ⟨h1, h2⟩ := pageSums_spec hp (c :: cs) h.2
    have hwf := pageSums_wf pick hp.mem (c :: cs)
    simp only [pageSums] at h1 h2 hwf
    have hmem := hp.mem (page pick c + olen c.len) (pageSums pick cs)
    simp only [page, tipDists_node]
    refine ⟨h1 _ hmem, ?_⟩
    intro d hd
    obtain ⟨s, hs, hR⟩ := h2 d hd
    exact hp.trans _ _ _ hR (hp.bound _ _ (hwf _ List.mem_cons_self)
      (fun y hy => hwf y (List.mem_cons_of_mem _ hy)) s hs)
theorem pageSums_spec {pick R} (hp : Picks pick R) : ∀ cs : List T, WFTL cs →
    (∀ s ∈ pageSums pick cs, s.toRat ∈ tipDistsL cs) ∧ (∀ d ∈ tipDistsL cs, ∃ s ∈ pageSums pick cs, R d s.toRat)
  | [], _ => by simp [pageSums, tipDistsL]
  | c :: cs, h => by
    obtain ⟨hc1, hc2⟩ := page_spec hp c h.1
    obtain ⟨ih1, ih2⟩ := pageSums_spec hp cs h.2
    have hsum : (page pick c + olen c.len).toRat = (page pick c).toRat + qlen c.len :=
      Frac.add_toRat (page_wf pick hp.mem c) (WFT_len h.1)
    constructor
    · intro s hs
      simp only [pageSums] at hs
      simp only [tipDistsL, List.mem_append, List.mem_map]
      rcases List.mem_cons.mp hs with rfl | hs'
      · exact Or.inl ⟨_, hc1, hsum.symm⟩
      · exact Or.inr (ih1 s hs')
    · intro d hd
      simp only [tipDistsL, List.mem_append, List.mem_map] at hd
      rcases hd with ⟨d0, hd0, rfl⟩ | hd
      · refine ⟨page pick c + olen c.len, by simp [pageSums], ?_⟩
        rw [hsum]; exact hp.shift _ _ _ (hc2 d0 hd0)
      · obtain ⟨s, hs, hR⟩ := ih2 d hd
        exact ⟨s, by simp [pageSums, hs], hR⟩
end

/-! ## edge lengths from ages -/

mutual
/-- `(id, length)` of every node in pre-order, lengths read in ℚ (`None` = 0) -/
def tLens : T → List (Nat × ℚ)
  | .node i _ l _ cs => (i, qlen l) :: tLensL cs
def tLensL : List T → List (Nat × ℚ)
  | [] => []
  | c :: cs => tLens c ++ tLensL cs
end

mutual
def atLens : AT → List (Nat × ℚ)
  | .node i _ l cs => (i, qlen l) :: atLensL cs
def atLensL : List AT → List (Nat × ℚ)
  | [] => []
  | c :: cs => atLens c ++ atLensL cs
end

mutual
/-- no edge below the root has negative length -/
def NonNeg : T → Prop
  | .node _ _ _ _ cs => NonNegL cs
def NonNegL : List T → Prop
  | [] => True
  | c :: cs => 0 ≤ qlen c.len ∧ NonNeg c ∧ NonNegL cs
end

/-- `minimum_edge_length` is `None` or not positive -/
def MinOK (minLen : Option Frac) : Prop := ∀ m, minLen = some m → m.WF ∧ m.toRat ≤ 0

theorem newLen_exact {minLen : Option Frac} (hm : MinOK minLen) (errNeg : Bool) {pa a : Frac} (hpa : pa.WF) (ha : a.WF)
    (hnn : 0 ≤ pa.toRat - a.toRat) :
    newLen minLen errNeg pa a = .ok (pa - a) := by
  have he : (pa - a).toRat = pa.toRat - a.toRat := Frac.sub_toRat hpa ha
  have hwf : (pa - a).WF := Frac.sub_wf _ _
  have hz : Frac.lt (pa - a) Frac.zero = false := by
    rw [Frac.lt_false_iff hwf Frac.zero_wf, Frac.zero_toRat, he]; exact hnn
  unfold newLen
  cases minLen with
  | none => simp [hz]
  | some m =>
    obtain ⟨hmw, hm0⟩ := hm m rfl
    have : Frac.lt (pa - a) m = false := by
      rw [Frac.lt_false_iff hwf hmw, he]; linarith
    simp [this, hz]

theorem LocalOK_zero_children {i x l s} {c : T} {cs : List T} (h : LocalOK 0 (.node i x l s (c :: cs))) :
    ∀ k ∈ c :: cs, fageQ (.node i x l s (c :: cs)) = fageQ k + qlen k.len := by
  intro k hk
  rcases List.mem_cons.mp hk with rfl | hk'
  · simp [fageQ]
  · have := h.2 k hk'
    have h0 := abs_nonpos_iff.mp this
    simp only [fageQ]; linarith

theorem LocalOKL_mem {ε : ℚ} {cs : List T} (h : LocalOKL ε cs) {c : T} (hc : c ∈ cs) : LocalOK ε c := by
  induction cs with
  | nil => cases hc
  | cons d ds ih =>
    rcases List.mem_cons.mp hc with rfl | h'
    · exact h.1
    · exact ih h.2 h'

theorem setLensL_exact {minLen : Option Frac} (hm : MinOK minLen) (errNeg : Bool) :
    ∀ (cs : List T) (pa : Frac), pa.WF → WFTL cs → LocalOKL 0 cs → NonNegL cs →
      (∀ k ∈ cs, pa.toRat = fageQ k + qlen k.len) →
      ∃ r, setLensL minLen errNeg pa (annotL cs) = .ok r ∧ atLensL r = tLensL cs
  | [], _, _, _, _, _, _ => ⟨[], by simp [annotL, setLensL], by simp [atLensL, tLensL]⟩
  | .node i x l s ccs :: rest, pa, hpa, hwf, hloc, hnn, hpar => by
    have hc : WFT (.node i x l s ccs) := hwf.1
    have hpc := hpar _ List.mem_cons_self
    have hq : 0 ≤ qlen l := hnn.1
    have hfa := fage_toRat _ hc
    have hnl := newLen_exact hm errNeg hpa (fage_wf (.node i x l s ccs))
      (by rw [hfa, hpc]; simpa [T.len] using hq)
    have hchild : ∀ k ∈ ccs, (fage (.node i x l s ccs)).toRat = fageQ k + qlen k.len := by
      intro k hk
      rw [hfa]
      match ccs, hk, hloc.1 with
      | c0 :: cs0, hk, hl => exact LocalOK_zero_children hl k hk
    have hlocc : LocalOKL 0 ccs := by
      match ccs, hloc.1 with
      | [], _ => simp [LocalOKL]
      | c0 :: cs0, hl => exact hl.1
    obtain ⟨r1, hr1, hl1⟩ := setLensL_exact hm errNeg ccs (fage (.node i x l s ccs)) (fage_wf _) hc.2 hlocc hnn.2.1 hchild
    obtain ⟨r2, hr2, hl2⟩ := setLensL_exact hm errNeg rest pa hpa hwf.2 hloc.2 hnn.2.2
      (fun k hk => hpar k (List.mem_cons_of_mem _ hk))
    refine ⟨.node i (fage (.node i x l s ccs)) (some (pa - fage (.node i x l s ccs))) r1 :: r2, ?_, ?_⟩
    · simp only [annotL, annot, setLensL, hnl, hr1, hr2]
    · have hlen : qlen (some (pa - fage (.node i x l s ccs))) = qlen l := by
        simp only [qlen, olen]
        rw [Frac.sub_toRat hpa (fage_wf _), hfa, hpc]
        show fageQ (T.node i x l s ccs) + qlen l - fageQ (T.node i x l s ccs) = qlen l
        ring
      simp only [atLensL, atLens, tLensL, tLens, hl1, hl2, hlen]

/-! ## lineages -/

/-- `(distance of the tail from the root, distance of the head from the root)` of every edge below nodes at distance `prd` -/
def edgesL (prd : ℚ) : List T → List (ℚ × ℚ)
  | [] => []
  | .node _ _ l _ cs :: rest => (prd, qlen l + prd) :: (edgesL (qlen l + prd) cs ++ edgesL prd rest)

mutual
/-- every edge below the root has a (well-formed) strictly positive length -/
def Pos : T → Prop
  | .node _ _ _ _ cs => PosL cs
def PosL : List T → Prop
  | [] => True
  | c :: cs => (∃ l, c.len = some l ∧ l.WF ∧ 0 < l.toRat) ∧ Pos c ∧ PosL cs
end

theorem crosses_iff {d prd rd : Frac} (hd : d.WF) (hp : prd.WF) (hr : rd.WF) (hlt : prd.toRat < rd.toRat) :
    crosses d prd rd = decide (prd.toRat < d.toRat ∧ d.toRat ≤ rd.toRat) := by
  have h1 := Frac.beq_iff hr hd
  have h2 := Frac.le_iff hd hr
  have h3 := Frac.lt_iff hp hd
  rw [Bool.eq_iff_iff]
  simp only [crosses, Bool.or_eq_true, Bool.and_eq_true, h1, h2, h3, decide_eq_true_eq]
  constructor
  · rintro (h | ⟨h, h'⟩)
    · rw [← h]; exact ⟨hlt, le_refl _⟩
    · exact ⟨h', h⟩
  · rintro ⟨h, h'⟩; exact Or.inr ⟨h', h⟩

theorem lineagesL_spec {d : Frac} (hd : d.WF) : ∀ (cs : List T) (prd : Frac), prd.WF → PosL cs →
    lineagesL d prd cs = .ok ((edgesL prd.toRat cs).countP (fun e => decide (e.1 < d.toRat ∧ d.toRat ≤ e.2)))
  | [], _, _, _ => by simp [lineagesL, edgesL]
  | .node i x l s ccs :: rest, prd, hp, h => by
    obtain ⟨⟨l', hl', hlw, hlpos⟩, hc, hr⟩ := h
    simp only [T.len] at hl'
    subst hl'
    have hrd : (l' + prd).WF := Frac.add_wf _ _
    have hrdq : (l' + prd).toRat = qlen (some l') + prd.toRat := by
      rw [Frac.add_toRat hlw hp]; rfl
    have h1 := lineagesL_spec hd ccs (l' + prd) hrd hc
    have h2 := lineagesL_spec hd rest prd hp hr
    have hcr := crosses_iff hd hp hrd (by rw [Frac.add_toRat hlw hp]; linarith)
    simp only [lineagesL, h1, h2, hcr, edgesL, List.countP_cons, List.countP_append, hrdq]
    congr 1
    by_cases hx : prd.toRat < d.toRat ∧ d.toRat ≤ qlen (some l') + prd.toRat <;> simp [hx] <;> omega

/-! ## accepted trees: how far an age can be from a tip distance -/

theorem height_le_heightL {k : T} : ∀ {cs : List T}, k ∈ cs → height k ≤ heightL cs
  | [], h => by cases h
  | c :: cs, h => by
    simp only [heightL]
    rcases List.mem_cons.mp h with rfl | h'
    · exact Nat.le_max_left _ _
    · exact Nat.le_trans (height_le_heightL h') (Nat.le_max_right _ _)

theorem mem_tipDistsL {d : ℚ} : ∀ {cs : List T}, d ∈ tipDistsL cs → ∃ k ∈ cs, ∃ d0 ∈ tipDists k, d = d0 + qlen k.len
  | [], h => by simp [tipDistsL] at h
  | c :: cs, h => by
    simp only [tipDistsL, List.mem_append, List.mem_map] at h
    rcases h with ⟨d0, hd0, rfl⟩ | h
    · exact ⟨c, List.mem_cons_self, d0, hd0, rfl⟩
    · obtain ⟨k, hk, d0, hd0, he⟩ := mem_tipDistsL h
      exact ⟨k, List.mem_cons_of_mem _ hk, d0, hd0, he⟩

mutual
/-- on a tree passing the local comparisons at precision `ε`, a node's first-child-chain age is within
`height · ε` of its distance to every descendant tip -/
theorem localOK_bound {ε : ℚ} (hε : 0 ≤ ε) : ∀ t : T, LocalOK ε t →
    ∀ d ∈ tipDists t, |fageQ t - d| ≤ (height t : ℚ) * ε
  | .node _ _ _ _ [], _, d, hd => by
    simp only [tipDists, List.mem_singleton] at hd
    simp [fageQ, height, hd]
  | .node i x l s (c :: cs), h, d, hd => by
    rw [tipDists_node] at hd
    obtain ⟨k, hk, d0, hd0, rfl⟩ := mem_tipDistsL hd
    have ihk := localOKL_bound hε (c :: cs) h.1 k hk d0 hd0
    have hloc : |(fageQ c + qlen c.len) - (fageQ k + qlen k.len)| ≤ ε := by
      rcases List.mem_cons.mp hk with rfl | hk'
      · simpa using hε
      · exact h.2 k hk'
    have hh : (height k : ℚ) ≤ (heightL (c :: cs) : ℚ) := by exact_mod_cast height_le_heightL hk
    have hmul : (height k : ℚ) * ε ≤ (heightL (c :: cs) : ℚ) * ε := mul_le_mul_of_nonneg_right hh hε
    have e : fageQ (.node i x l s (c :: cs)) - (d0 + qlen k.len)
        = ((fageQ c + qlen c.len) - (fageQ k + qlen k.len)) + (fageQ k - d0) := by simp only [fageQ]; ring
    rw [e]
    calc |((fageQ c + qlen c.len) - (fageQ k + qlen k.len)) + (fageQ k - d0)|
        ≤ |(fageQ c + qlen c.len) - (fageQ k + qlen k.len)| + |fageQ k - d0| := abs_add_le _ _
      _ ≤ ε + (height k : ℚ) * ε := add_le_add hloc ihk
      _ ≤ (height (.node i x l s (c :: cs)) : ℚ) * ε := by
          simp only [height]; push_cast; nlinarith
theorem localOKL_bound {ε : ℚ} (hε : 0 ≤ ε) : ∀ cs : List T, LocalOKL ε cs →
    ∀ k ∈ cs, ∀ d ∈ tipDists k, |fageQ k - d| ≤ (height k : ℚ) * ε
  | [], _, k, hk, _, _ => by cases hk
  | c :: cs, h, k, hk, d, hd => by
    rcases List.mem_cons.mp hk with h1 | hk'
    · have h1' := h1.symm
      subst h1'
      exact localOK_bound hε c h.1 d hd
    · exact localOKL_bound hε cs h.2 k hk' d hd
end

mutual
theorem LocalOK_nodes {ε : ℚ} : ∀ t : T, LocalOK ε t → ∀ v ∈ T.nodes t, LocalOK ε v
  | .node i x l s cs, h, v, hv => by
    simp only [T.nodes, List.mem_cons] at hv
    rcases hv with rfl | hv'
    · exact h
    · have hL : LocalOKL ε cs := by
        match cs, h with
        | [], _ => simp [LocalOKL]
        | c :: cs', h => exact h.1
      exact LocalOKL_nodes cs hL v hv'
theorem LocalOKL_nodes {ε : ℚ} : ∀ cs : List T, LocalOKL ε cs → ∀ v ∈ T.nodesL cs, LocalOK ε v
  | [], _, v, hv => by simp [T.nodesL] at hv
  | c :: cs, h, v, hv => by
    simp only [T.nodesL, List.mem_append] at hv
    rcases hv with hv | hv
    · exact LocalOK_nodes c h.1 v hv
    · exact LocalOKL_nodes cs h.2 v hv
end

theorem checking_nonneg {cfg : Cfg} {p : Frac} (hp : p.WF) (h : cfg.checking = some p) : 0 ≤ p.toRat := by
  unfold Cfg.checking at h
  split at h
  · cases h
  · split at h
    · cases h
    · split at h
      · cases h
      · rename_i q _ hlt
        have hq : q = p := by simpa using h
        subst hq
        have := (Frac.lt_false_iff hp Frac.zero_wf).mp (by simpa using hlt)
        simpa [Frac.zero_toRat] using this

end DendroModel.C17.Aux
