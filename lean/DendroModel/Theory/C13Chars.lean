import DendroModel.Model.C13
import DendroModel.Theory.C13Sets
/-! C13 — the reader that PARSES character / SETS-class blocks (`exclude_chars = False`: `DataSet.get`) delivers the same trees
    as the reader that skips them (`exclude_chars = True`: every tree route), on documents whose such blocks are well formed
    (`charsClean`).  In this model a parsed block is its statement skeleton (the matrix parser is C09's). -/
namespace DendroModel.C13.Aux
open DendroModel.C13

/-- the same settings with `exclude_chars := b` -/
def withExclude (fl : Flags) (b : Bool) : Flags := { fl with excludeChars := b }

theorem taxaLoop_flag (fl : Flags) (b : Bool) : ∀ (n : Nat) (c : Core) (hv : Bool), c.ts.rest.length = n →
    taxaLoop (withExclude fl b) c hv = taxaLoop fl c hv := by
  intro n
  induction n using Nat.strongRecOn with
  | _ n ih =>
    intro c hv hn
    rw [taxaLoop.eq_def (withExclude fl b), taxaLoop.eq_def fl]
    have e : taxaStep (withExclude fl b) c hv = taxaStep fl c hv := rfl
    rw [e]
    split
    · rfl
    · cases taxaStep fl c hv with
      | error e => rfl
      | ok r =>
        obtain ⟨c4, have4, tok1⟩ := r
        simp only []
        split
        · rfl
        · split
          · rename_i hp
            exact ih _ (hn ▸ hp) _ _ rfl
          · rfl

theorem parseTaxaBlock_flag (fl : Flags) (b : Bool) (c : Core) : parseTaxaBlock (withExclude fl b) c = parseTaxaBlock fl c := by
  unfold parseTaxaBlock; exact taxaLoop_flag fl b _ _ _ rfl

theorem treesLoopR_flag {σ} (cfg : Cfg) (fl : Flags) (b : Bool) (S : Sink σ) : ∀ (n : Nat) (c : Core) (v : BlockVars) (acc : σ),
    c.ts.rest.length = n → treesLoopR cfg (withExclude fl b) S c v acc = treesLoopR cfg fl S c v acc := by
  intro n
  induction n using Nat.strongRecOn with
  | _ n ih =>
    intro c v acc hn
    rw [treesLoopR.eq_def cfg (withExclude fl b), treesLoopR.eq_def cfg fl]
    have e : treesStepR cfg (withExclude fl b) S c v acc = treesStepR cfg fl S c v acc := rfl
    rw [e]
    split
    · rfl
    · cases treesStepR cfg fl S c v acc with
      | error e => rfl
      | ok r =>
        obtain ⟨c5, v5, acc5⟩ := r
        simp only []
        split
        · rename_i hp
          exact ih _ (hn ▸ hp) _ _ _ rfl
        · rfl

theorem treesBlockR_flag {σ} (cfg : Cfg) (fl : Flags) (b : Bool) (S : Sink σ) (c : Core) (acc : σ) :
    treesBlockR cfg (withExclude fl b) S c acc = treesBlockR cfg fl S c acc := by
  unfold treesBlockR
  simp only []
  split
  · rfl
  · exact treesLoopR_flag cfg fl b S _ _ _ _ rfl

/-- a turn on a character block: the parsing reader goes past `END;`, the skipping reader stops at `END` -/
theorem streamStepR_chars {σ} (cfg : Cfg) (fl : Flags) (S : Sink σ) (c : Core) (acc : σ)
    (hk : ((afterBegin c.ts).cur == some "CHARACTERS" || (afterBegin c.ts).cur == some "DATA") = true) :
    streamStepR cfg (withExclude fl false) S c acc
        = .ok ({ c with ts := skipSemi (consumeToEndOfBlock (afterBegin c.ts) (afterBegin c.ts).cur) }, acc) ∧
    streamStepR cfg (withExclude fl true) S c acc
        = .ok ({ c with ts := consumeToEndOfBlock (afterBegin c.ts) (afterBegin c.ts).cur }, acc) := by
  unfold streamStepR
  unfold afterBegin at hk ⊢
  generalize hcur : ((seekBegin c.ts.nextU).clear.nextU).cur = cur at *
  simp only [Bool.or_eq_true, beq_iff_eq] at hk
  rcases hk with hk | hk <;> subst hk <;> simp [hcur, withExclude, parsedBlockSkeleton]

theorem streamStepR_sets_parsed {σ} (cfg : Cfg) (fl : Flags) (S : Sink σ) (c : Core) (acc : σ)
    (hk : isSetsKw (afterBegin c.ts).cur = true) :
    streamStepR cfg (withExclude fl false) S c acc = .ok ({ c with ts := parsedBlockSkeleton (afterBegin c.ts) }, acc) := by
  unfold streamStepR
  unfold afterBegin at hk ⊢
  generalize hcur : ((seekBegin c.ts.nextU).clear.nextU).cur = cur at *
  simp only [isSetsKw, Bool.or_eq_true, beq_iff_eq] at hk
  rcases hk with (hk | hk) | hk <;> subst hk <;> simp [hcur, withExclude, isSetsKw]

/-- on every other block the two readers take the same turn -/
theorem streamStepR_other {σ} (cfg : Cfg) (fl : Flags) (S : Sink σ) (c : Core) (acc : σ)
    (h1 : ((afterBegin c.ts).cur == some "CHARACTERS" || (afterBegin c.ts).cur == some "DATA") = false)
    (h2 : isSetsKw (afterBegin c.ts).cur = false) :
    streamStepR cfg (withExclude fl false) S c acc = streamStepR cfg (withExclude fl true) S c acc := by
  unfold streamStepR
  unfold afterBegin at h1 h2
  simp only [h1, h2, parseTaxaBlock_flag, treesBlockR_flag, Bool.false_eq_true, if_false]

theorem streamLoopR_exclude_irrelevant {σ} (cfg : Cfg) (fl : Flags) (S : Sink σ) :
    ∀ (n : Nat) (c : Core) (acc : σ), c.ts.rest.length = n → charsClean cfg fl S c acc = true →
      streamLoopR cfg (withExclude fl false) S c acc = streamLoopR cfg (withExclude fl true) S c acc := by
  intro n
  induction n using Nat.strongRecOn with
  | _ n ih =>
    intro c acc hn hs
    rw [streamLoopR_dead cfg (withExclude fl false), streamLoopR_dead cfg (withExclude fl true)]
    rw [charsClean.eq_def] at hs
    by_cases heof : c.ts.eof = true
    · simp [heof]
    · simp only [heof, Bool.false_eq_true, if_false, Bool.and_eq_true] at hs ⊢
      obtain ⟨hblock, hrest⟩ := hs
      have hrest' : ∀ c3 acc3, streamStepR cfg (withExclude fl false) S c acc = .ok (c3, acc3) →
          c3.ts.rest.length < c.ts.rest.length → charsClean cfg fl S c3 acc3 = true := by
        intro c3 acc3 hst hp
        have : streamStepR cfg { fl with excludeChars := false } S c acc = .ok (c3, acc3) := hst
        simp only [this] at hrest
        simpa [hp] using hrest
      -- the two places where the readers leave a block, `a` (skipping) and `b` (parsing)
      have key : ∀ (a b : TS), Steps a b → a.eof = false → cleanSkip a b = true →
          b.rest.length < c.ts.rest.length →
          streamStepR cfg (withExclude fl false) S c acc = .ok ({ c with ts := b }, acc) →
          streamStepR cfg (withExclude fl true) S c acc = .ok ({ c with ts := a }, acc) →
          (match streamStepR cfg (withExclude fl false) S c acc with
            | .error e => (Except.error e : Except Err (Core × σ))
            | .ok (c3, acc3) => streamLoopR cfg (withExclude fl false) S c3 acc3) =
          (match streamStepR cfg (withExclude fl true) S c acc with
            | .error e => (Except.error e : Except Err (Core × σ))
            | .ok (c3, acc3) => streamLoopR cfg (withExclude fl true) S c3 acc3) := by
        intro a b hst ha hc hlt hI hE
        rw [hI, hE]
        simp only []
        rw [ih _ (hn ▸ hlt) _ _ rfl (hrest' _ _ hI hlt)]
        obtain ⟨hb, habs⟩ := cleanSkip_absorb a b hst ha hc
        exact (streamLoopR_absorb cfg (withExclude fl true) S c a b acc ha hb habs).symm
      by_cases hk1 : ((afterBegin c.ts).cur == some "CHARACTERS" || (afterBegin c.ts).cur == some "DATA") = true
      · simp only [hk1, if_true, Bool.and_eq_true, Bool.not_eq_true'] at hblock
        obtain ⟨hI, hE⟩ := streamStepR_chars cfg fl S c acc hk1
        have hne : c.ts.rest ≠ [] := by
          intro hd
          have := (afterBegin_dry c.ts hd).1
          rw [this] at hk1
          simp at hk1
        have hlt : (skipSemi (consumeToEndOfBlock (afterBegin c.ts) (afterBegin c.ts).cur)).rest.length < c.ts.rest.length :=
          Nat.lt_of_le_of_lt (Nat.le_trans (skipSemi_le _) (consumeToEndOfBlock_le _ _)) (afterBegin_lt _ hne)
        exact key _ _ (skipSemi_steps _ _ rfl) hblock.1 hblock.2 hlt hI hE
      · have hk1' : ((afterBegin c.ts).cur == some "CHARACTERS" || (afterBegin c.ts).cur == some "DATA") = false := by
          simpa using hk1
        by_cases hk2 : isSetsKw (afterBegin c.ts).cur = true
        · simp only [hk1', hk2, if_true, Bool.false_eq_true, if_false, Bool.and_eq_true, Bool.not_eq_true'] at hblock
          have hI := streamStepR_sets_parsed cfg fl S c acc hk2
          have hE := streamStepR_sets cfg (withExclude fl true) S rfl c acc hk2
          have hne : c.ts.rest ≠ [] := by
            intro hd
            have := (afterBegin_dry c.ts hd).1
            rw [this] at hk2
            simp [isSetsKw] at hk2
          have hlt : (parsedBlockSkeleton (afterBegin c.ts)).rest.length < c.ts.rest.length :=
            Nat.lt_of_le_of_lt (parsedBlockSkeleton_le _) (afterBegin_lt _ hne)
          have hsteps : Steps (afterBegin c.ts) (parsedBlockSkeleton (afterBegin c.ts)) := by
            unfold parsedBlockSkeleton
            exact (consumeToEndOfBlock_steps _ _).trans (skipSemi_steps _ _ rfl)
          exact key _ _ hsteps hblock.1 hblock.2 hlt hI hE
        · have hk2' : isSetsKw (afterBegin c.ts).cur = false := by simpa using hk2
          rw [← streamStepR_other cfg fl S c acc hk1' hk2']
          cases hst : streamStepR cfg (withExclude fl false) S c acc with
          | error e => rfl
          | ok r =>
            obtain ⟨c3, acc3⟩ := r
            simp only []
            by_cases hp : c3.ts.rest.length < c.ts.rest.length
            · exact ih _ (hn ▸ hp) _ _ rfl (hrest' _ _ hst hp)
            · have hle := streamStepR_le cfg _ S c acc _ hst
              have hd : c.ts.rest = [] := by
                by_cases hne : c.ts.rest = []
                · exact hne
                · exact absurd (hle.2 hne) hp
              have he : c3.ts.eof = true := streamStepR_dry cfg _ S c acc _ hd hst
              rw [streamLoopR_eof _ _ _ _ _ he, streamLoopR_eof _ _ _ _ _ he]

end DendroModel.C13.Aux
