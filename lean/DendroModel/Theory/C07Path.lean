import Mathlib.Tactic
/-! (C07 copy of Theory/PathLen.lean with rational instead of integer edge lengths.)
    Leaf-to-leaf path length on rose trees with rational edge lengths, and its invariance
    under the edge inversion that `reseed_at` iterates (C07 a; the same `distL` is what the
    phylogenetic distance matrix must compute, C14 a) -/
namespace DendroModel.C07.Path

inductive LT where
  | leaf (i : Nat) (len : ℚ)
  | node (len : ℚ) (cs : List LT)

mutual
def leaves : LT → List Nat
  | .leaf i _ => [i]
  | .node _ cs => leavesL cs
def leavesL : List LT → List Nat
  | [] => []
  | c :: cs => leaves c ++ leavesL cs
end

-- distance from the parent-side end of the edge of t down to leaf a
mutual
def down : LT → Nat → Option ℚ
  | .leaf i l, a => if i = a then some l else none
  | .node l cs, a => (downL cs a).map (· + l)
def downL : List LT → Nat → Option ℚ
  | [], _ => none
  | c :: cs, a => match down c a with
    | some d => some d
    | none => downL cs a
end

-- path length between two leaves inside t (not using the edge of t itself)
mutual
def dist : LT → Nat → Nat → Option ℚ
  | .leaf _ _, _, _ => none
  | .node _ cs, a, b => distL cs a b
def distL : List LT → Nat → Nat → Option ℚ
  | [], _, _ => none
  | c :: cs, a, b =>
    match down c a, down c b with
    | some _, some _ => dist c a b                       -- both below c
    | some x, none => (downL cs b).map (x + ·)           -- path turns at this node
    | none, some y => (downL cs a).map (· + y)
    | none, none => distL cs a b
end

mutual
theorem down_some_iff : ∀ (t : LT) (a : Nat), (down t a).isSome ↔ a ∈ leaves t
  | .leaf i l, a => by
      simp only [down, leaves, List.mem_singleton]
      by_cases h : i = a <;> simp [h, eq_comm]
  | .node l cs, a => by
      simp only [down, leaves, Option.isSome_map]
      exact downL_some_iff cs a
theorem downL_some_iff : ∀ (cs : List LT) (a : Nat), (downL cs a).isSome ↔ a ∈ leavesL cs
  | [], a => by simp [downL, leavesL]
  | c :: cs, a => by
      simp only [downL, leavesL, List.mem_append]
      have h1 := down_some_iff c a
      have h2 := downL_some_iff cs a
      cases hd : down c a with
      | some d => simp [hd] at h1 ⊢; exact Or.inl h1
      | none =>
        simp only [hd] at h1 ⊢
        constructor
        · intro h; exact Or.inr (h2.mp h)
        · rintro (h | h)
          · have := h1.mpr h; simp at this
          · exact h2.mpr h
end

theorem down_none_of_not_mem {t : LT} {a : Nat} (h : a ∉ leaves t) : down t a = none := by
  cases hd : down t a with
  | none => rfl
  | some d => exact absurd ((down_some_iff t a).mp (by simp [hd])) h

theorem downL_none_of_not_mem {cs : List LT} {a : Nat} (h : a ∉ leavesL cs) : downL cs a = none := by
  cases hd : downL cs a with
  | none => rfl
  | some d => exact absurd ((downL_some_iff cs a).mp (by simp [hd])) h

/-- lists whose members contain neither leaf contribute nothing -/
theorem distL_none_of_not_mem : ∀ (cs : List LT) (a b : Nat), a ∉ leavesL cs → b ∉ leavesL cs → distL cs a b = none
  | [], _, _, _, _ => rfl
  | c :: cs, a, b, ha, hb => by
      simp only [leavesL, List.mem_append, not_or] at ha hb
      simp only [distL, down_none_of_not_mem ha.1, down_none_of_not_mem hb.1]
      exact distL_none_of_not_mem cs a b ha.2 hb.2

theorem downL_append (xs ys : List LT) (a : Nat) :
    downL (xs ++ ys) a = match downL xs a with | some d => some d | none => downL ys a := by
  induction xs with
  | nil => simp [downL]
  | cons c cs ih =>
    simp only [List.cons_append, downL]
    cases down c a with
    | some d => rfl
    | none => exact ih


theorem leavesL_append (xs ys : List LT) : leavesL (xs ++ ys) = leavesL xs ++ leavesL ys := by
  induction xs with
  | nil => simp [leavesL]
  | cons c cs ih => simp [leavesL, ih]

theorem nodup_append_disj {xs ys : List LT} (h : (leavesL (xs ++ ys)).Nodup) :
    (leavesL xs).Nodup ∧ (leavesL ys).Nodup ∧ ∀ a, a ∈ leavesL xs → a ∈ leavesL ys → False := by
  rw [leavesL_append] at h
  have := List.nodup_append.mp h
  exact ⟨this.1, this.2.1, fun a h1 h2 => this.2.2 a h1 a h2 rfl⟩

/-- L1: both leaves in the front part -/
theorem distL_front : ∀ (xs ys : List LT) (a b : Nat), a ∈ leavesL xs → b ∈ leavesL xs →
    distL (xs ++ ys) a b = distL xs a b
  | [], _, _, _, ha, _ => by simp [leavesL] at ha
  | c :: cs, ys, a, b, ha, hb => by
      simp only [List.cons_append, distL]
      simp only [leavesL, List.mem_append] at ha hb
      cases hda : down c a <;> cases hdb : down c b <;> simp only
      · -- neither in c
        have ha' : a ∈ leavesL cs := by
          rcases ha with h | h
          · have := (down_some_iff c a).mpr h; simp [hda] at this
          · exact h
        have hb' : b ∈ leavesL cs := by
          rcases hb with h | h
          · have := (down_some_iff c b).mpr h; simp [hdb] at this
          · exact h
        exact distL_front cs ys a b ha' hb'
      · have ha' : a ∈ leavesL cs := by
          rcases ha with h | h
          · have := (down_some_iff c a).mpr h; simp [hda] at this
          · exact h
        rw [downL_append]
        have := (downL_some_iff cs a).mpr ha'
        cases hx : downL cs a with
        | none => simp [hx] at this
        | some d => rfl
      · have hb' : b ∈ leavesL cs := by
          rcases hb with h | h
          · have := (down_some_iff c b).mpr h; simp [hdb] at this
          · exact h
        rw [downL_append]
        have := (downL_some_iff cs b).mpr hb'
        cases hx : downL cs b with
        | none => simp [hx] at this
        | some d => rfl

/-- L2: neither leaf in the front part -/
theorem distL_back : ∀ (xs ys : List LT) (a b : Nat), a ∉ leavesL xs → b ∉ leavesL xs →
    distL (xs ++ ys) a b = distL ys a b
  | [], _, _, _, _, _ => rfl
  | c :: cs, ys, a, b, ha, hb => by
      simp only [leavesL, List.mem_append, not_or] at ha hb
      simp only [List.cons_append, distL, down_none_of_not_mem ha.1, down_none_of_not_mem hb.1]
      exact distL_back cs ys a b ha.2 hb.2

/-- L3: one leaf in the front part, the other in the back part -/
theorem distL_split : ∀ (xs ys : List LT) (a b : Nat) (x y : ℚ), downL xs a = some x → downL ys b = some y →
    b ∉ leavesL xs → a ∉ leavesL ys → distL (xs ++ ys) a b = some (x + y)
  | [], _, _, _, _, _, hx, _, _, _ => by simp [downL] at hx
  | c :: cs, ys, a, b, x, y, hx, hy, hb, ha => by
      simp only [leavesL, List.mem_append, not_or] at hb
      simp only [List.cons_append, distL, down_none_of_not_mem hb.1]
      simp only [downL] at hx
      cases hda : down c a with
      | some d =>
        simp only [hda] at hx ⊢
        cases hx
        rw [downL_append, downL_none_of_not_mem hb.2, hy]; rfl
      | none =>
        simp only [hda] at hx ⊢
        exact distL_split cs ys a b x y hx hy hb.2 ha

theorem distL_split' : ∀ (xs ys : List LT) (a b : Nat) (x y : ℚ), downL xs b = some y → downL ys a = some x →
    a ∉ leavesL xs → b ∉ leavesL ys → distL (xs ++ ys) a b = some (x + y)
  | [], _, _, _, _, _, hy, _, _, _ => by simp [downL] at hy
  | c :: cs, ys, a, b, x, y, hy, hx, ha, hb => by
      simp only [leavesL, List.mem_append, not_or] at ha
      simp only [List.cons_append, distL, down_none_of_not_mem ha.1]
      simp only [downL] at hy
      cases hdb : down c b with
      | some d =>
        simp only [hdb] at hy ⊢
        cases hy
        rw [downL_append, downL_none_of_not_mem ha.2, hx]; rfl
      | none =>
        simp only [hdb] at hy ⊢
        exact distL_split' cs ys a b x y hy hx ha.2 hb


/-! ### one edge inversion at the root -/

theorem get_down {cs : List LT} {a : Nat} (h : a ∈ leavesL cs) : ∃ x, downL cs a = some x := by
  have := (downL_some_iff cs a).mpr h
  cases hx : downL cs a with
  | none => simp [hx] at this
  | some x => exact ⟨x, rfl⟩

theorem down_node (l : ℚ) (cs : List LT) (a : Nat) (x : ℚ) (h : downL cs a = some x) :
    downL [LT.node l cs] a = some (x + l) := by
  simp [downL, down, h]

theorem distL_single_node (l : ℚ) (cs : List LT) (a b : Nat) (ha : a ∈ leavesL cs) (hb : b ∈ leavesL cs) :
    distL [LT.node l cs] a b = distL cs a b := by
  obtain ⟨x, hx⟩ := get_down ha
  obtain ⟨y, hy⟩ := get_down hb
  simp [distL, down, hx, hy, dist]

theorem invert_dist (pre ds post : List LT) (l : ℚ)
    (hnd : (leavesL (pre ++ (LT.node l ds :: post))).Nodup)
    (a b : Nat) (ha : a ∈ leavesL (pre ++ (LT.node l ds :: post))) (hb : b ∈ leavesL (pre ++ (LT.node l ds :: post))) :
    distL (ds ++ [LT.node l (pre ++ post)]) a b = distL (pre ++ (LT.node l ds :: post)) a b := by
  -- disjointness facts
  have hcons : LT.node l ds :: post = [LT.node l ds] ++ post := rfl
  obtain ⟨_, hnd2, hpx⟩ := nodup_append_disj hnd
  rw [hcons] at hnd2
  obtain ⟨_, _, hxq⟩ := nodup_append_disj hnd2
  have hX : leavesL [LT.node l ds] = leavesL ds := by simp [leavesL, leaves]
  have hpd : ∀ z, z ∈ leavesL pre → z ∈ leavesL ds → False := fun z h1 h2 =>
    hpx z h1 (by rw [hcons, leavesL_append, hX]; exact List.mem_append_left _ h2)
  have hpq : ∀ z, z ∈ leavesL pre → z ∈ leavesL post → False := fun z h1 h2 =>
    hpx z h1 (by rw [hcons, leavesL_append]; exact List.mem_append_right _ h2)
  have hdq : ∀ z, z ∈ leavesL ds → z ∈ leavesL post → False := fun z h1 h2 => hxq z (by rw [hX]; exact h1) h2
  have hR : leavesL [LT.node l (pre ++ post)] = leavesL pre ++ leavesL post := by
    simp [leavesL, leaves, leavesL_append]
  -- where are a and b?
  rw [hcons, leavesL_append, leavesL_append, hX] at ha hb
  simp only [List.mem_append] at ha hb
  have hold : pre ++ (LT.node l ds :: post) = pre ++ ([LT.node l ds] ++ post) := rfl
  rw [hold]
  rcases ha with hap | had | haq <;> rcases hb with hbp | hbd | hbq
  · -- both in pre
    rw [distL_front pre _ a b hap hbp]
    rw [distL_back ds _ a b (fun h => hpd a hap h) (fun h => hpd b hbp h)]
    rw [distL_single_node l _ a b (by rw [leavesL_append]; exact List.mem_append_left _ hap)
      (by rw [leavesL_append]; exact List.mem_append_left _ hbp)]
    exact distL_front pre post a b hap hbp
  · -- a in pre, b in ds
    obtain ⟨x, hx⟩ := get_down hap
    obtain ⟨y, hy⟩ := get_down hbd
    have hy' : downL ([LT.node l ds] ++ post) b = some (y + l) := by
      rw [downL_append, down_node l ds b y hy]
    rw [distL_split pre _ a b x (y + l) hx hy' (fun h => hpd b h hbd)
      (by rw [leavesL_append, hX]; intro h; rcases List.mem_append.mp h with h | h; exact hpd a hap h; exact hpq a hap h)]
    have hx' : downL [LT.node l (pre ++ post)] a = some (x + l) := by
      apply down_node; rw [downL_append, hx]
    rw [distL_split' ds _ a b (x + l) y hy hx' (fun h => hpd a hap h) (by rw [hR]; intro h; rcases List.mem_append.mp h with h | h; exact hpd b h hbd; exact hdq b hbd h)]
    congr 1; ring
  · -- a in pre, b in post
    obtain ⟨x, hx⟩ := get_down hap
    obtain ⟨y, hy⟩ := get_down hbq
    have hy' : downL ([LT.node l ds] ++ post) b = some y := by
      rw [downL_append, downL_none_of_not_mem (by rw [hX]; exact fun h => hdq b h hbq), hy]
    rw [distL_split pre _ a b x y hx hy' (fun h => hpq b h hbq)
      (by rw [leavesL_append, hX]; intro h; rcases List.mem_append.mp h with h | h; exact hpd a hap h; exact hpq a hap h)]
    rw [distL_back ds _ a b (fun h => hpd a hap h) (fun h => hdq b h hbq)]
    rw [distL_single_node l _ a b (by rw [leavesL_append]; exact List.mem_append_left _ hap)
      (by rw [leavesL_append]; exact List.mem_append_right _ hbq)]
    exact distL_split pre post a b x y hx hy (fun h => hpq b h hbq) (fun h => hpq a hap h)
  · -- a in ds, b in pre
    obtain ⟨x, hx⟩ := get_down had
    obtain ⟨y, hy⟩ := get_down hbp
    have hx' : downL ([LT.node l ds] ++ post) a = some (x + l) := by
      rw [downL_append, down_node l ds a x hx]
    rw [distL_split' pre _ a b (x + l) y hy hx' (fun h => hpd a h had)
      (by rw [leavesL_append, hX]; intro h; rcases List.mem_append.mp h with h | h; exact hpd b hbp h; exact hpq b hbp h)]
    have hy' : downL [LT.node l (pre ++ post)] b = some (y + l) := by
      apply down_node; rw [downL_append, hy]
    rw [distL_split ds _ a b x (y + l) hx hy' (fun h => hpd b hbp h) (by rw [hR]; intro h; rcases List.mem_append.mp h with h | h; exact hpd a h had; exact hdq a had h)]
    congr 1; ring
  · -- both in ds
    rw [distL_front ds _ a b had hbd]
    rw [distL_back pre _ a b (fun h => hpd a h had) (fun h => hpd b h hbd)]
    rw [distL_front [LT.node l ds] post a b (by rw [hX]; exact had) (by rw [hX]; exact hbd)]
    exact (distL_single_node l ds a b had hbd).symm
  · -- a in ds, b in post
    obtain ⟨x, hx⟩ := get_down had
    obtain ⟨y, hy⟩ := get_down hbq
    rw [distL_back pre _ a b (fun h => hpd a h had) (fun h => hpq b h hbq)]
    rw [distL_split [LT.node l ds] post a b (x + l) y (down_node l ds a x hx) hy
      (by rw [hX]; exact fun h => hdq b h hbq) (fun h => hdq a had h)]
    have hy' : downL [LT.node l (pre ++ post)] b = some (y + l) := by
      apply down_node; rw [downL_append, downL_none_of_not_mem (fun h => hpq b h hbq), hy]
    rw [distL_split ds _ a b x (y + l) hx hy' (fun h => hdq b h hbq) (by rw [hR]; intro h; rcases List.mem_append.mp h with h | h; exact hpd a h had; exact hdq a had h)]
    congr 1; ring
  · -- a in post, b in pre
    obtain ⟨x, hx⟩ := get_down haq
    obtain ⟨y, hy⟩ := get_down hbp
    have hx' : downL ([LT.node l ds] ++ post) a = some x := by
      rw [downL_append, downL_none_of_not_mem (by rw [hX]; exact fun h => hdq a h haq), hx]
    rw [distL_split' pre _ a b x y hy hx' (fun h => hpq a h haq)
      (by rw [leavesL_append, hX]; intro h; rcases List.mem_append.mp h with h | h; exact hpd b hbp h; exact hpq b hbp h)]
    rw [distL_back ds _ a b (fun h => hdq a h haq) (fun h => hpd b hbp h)]
    rw [distL_single_node l _ a b (by rw [leavesL_append]; exact List.mem_append_right _ haq)
      (by rw [leavesL_append]; exact List.mem_append_left _ hbp)]
    exact distL_split' pre post a b x y hy hx (fun h => hpq a h haq) (fun h => hpq b hbp h)
  · -- a in post, b in ds
    obtain ⟨x, hx⟩ := get_down haq
    obtain ⟨y, hy⟩ := get_down hbd
    rw [distL_back pre _ a b (fun h => hpq a h haq) (fun h => hpd b h hbd)]
    rw [distL_split' [LT.node l ds] post a b x (y + l) (down_node l ds b y hy) hx
      (by rw [hX]; exact fun h => hdq a h haq) (fun h => hdq b hbd h)]
    have hx' : downL [LT.node l (pre ++ post)] a = some (x + l) := by
      apply down_node; rw [downL_append, downL_none_of_not_mem (fun h => hpq a h haq), hx]
    rw [distL_split' ds _ a b (x + l) y hy hx' (fun h => hdq a h haq) (by rw [hR]; intro h; rcases List.mem_append.mp h with h | h; exact hpd b h hbd; exact hdq b hbd h)]
    congr 1; ring
  · -- both in post
    rw [distL_back pre _ a b (fun h => hpq a h haq) (fun h => hpq b h hbq)]
    rw [distL_back [LT.node l ds] post a b (by rw [hX]; exact fun h => hdq a h haq) (by rw [hX]; exact fun h => hdq b h hbq)]
    rw [distL_back ds _ a b (fun h => hdq a h haq) (fun h => hdq b h hbq)]
    rw [distL_single_node l _ a b (by rw [leavesL_append]; exact List.mem_append_right _ haq)
      (by rw [leavesL_append]; exact List.mem_append_right _ hbq)]
    exact distL_back pre post a b (fun h => hpq a h haq) (fun h => hpq b h hbq)

end DendroModel.C07.Path