import DendroModel.Theory.C04Bridge
/-! C04 — the clades of a well-formed, unifurcation-free hierarchy are pairwise distinct, hence so are the splits the
driver lists for a rooted tree (`edgeRecs (some true)`): no two edges of a rooted tree induce the same split. -/
namespace DendroModel.Hier

theorem eq_zero_of_sub_disj {x a b : Nat} (h1 : bits x ⊆ bits a) (h2 : bits x ⊆ bits b) (hd : a &&& b = 0) : x = 0 := by
  apply bits_inj
  rw [bits_zero]
  have hdis := (and_eq_zero_iff a b).mp hd
  apply Set.eq_empty_of_forall_notMem
  intro i hi
  exact (Set.disjoint_left.mp hdis) (h1 hi) (h2 hi)

theorem maskL_ne_zero_of_mem {cs : List T} {c : T} (hc : c ∈ cs) (h0 : mask c ≠ 0) : maskL cs ≠ 0 := by
  intro hz
  apply h0
  apply bits_inj
  have := bits_maskL_subset_of_mem hc
  rw [hz, bits_zero] at this
  rw [bits_zero]; exact Set.subset_empty_iff.mp this

/-- with at least two (pairwise disjoint, non-empty) children, the union of the children is contained in none of them -/
theorem maskL_not_sub_child {cs : List T} (hg : GoodL cs) (h2 : 2 ≤ cs.length) {c : T} (hc : c ∈ cs) :
    ¬ bits (maskL cs) ⊆ bits (mask c) := by
  match cs, hg, h2, hc with
  | a :: b :: rest, hg, _, hc =>
    intro hsub
    simp only [GoodL] at hg
    obtain ⟨_, ha0, hdis, _, hb0, _, _⟩ := hg
    have hR0 : maskL (b :: rest) ≠ 0 := maskL_ne_zero_of_mem (List.mem_cons_self) hb0
    have hRsub : bits (maskL (b :: rest)) ⊆ bits (maskL (a :: b :: rest)) := by
      rw [show maskL (a :: b :: rest) = mask a ||| maskL (b :: rest) from rfl, bits_or]; exact Set.subset_union_right
    have hAsub : bits (mask a) ⊆ bits (maskL (a :: b :: rest)) := by
      rw [show maskL (a :: b :: rest) = mask a ||| maskL (b :: rest) from rfl, bits_or]; exact Set.subset_union_left
    rcases List.mem_cons.mp hc with rfl | hc'
    · -- c is the head: the rest would lie inside it
      exact hR0 (eq_zero_of_sub_disj (hRsub.trans hsub) (le_refl _) hdis)
    · -- c is in the tail: the head would lie inside the tail
      have hcR := bits_maskL_subset_of_mem hc'
      exact ha0 (eq_zero_of_sub_disj (le_refl _) ((hAsub.trans hsub).trans hcR) hdis)

mutual
/-- the clades of a well-formed tree without unifurcations are pairwise distinct -/
theorem clades_nodup : ∀ t : T, Good t → NoUnif t → (clades t).Nodup
  | .leaf i, _, _ => by simp [clades]
  | .node cs, hg, hn => by
    simp only [Good] at hg
    simp only [NoUnif] at hn
    simp only [clades, List.nodup_cons]
    refine ⟨?_, cladesL_nodup cs hg hn.2⟩
    intro hmem
    obtain ⟨c, hc, hx⟩ := (mem_cladesL cs _).mp hmem
    exact maskL_not_sub_child hg hn.1 hc (clades_sub c _ hx)
theorem cladesL_nodup : ∀ cs : List T, GoodL cs → NoUnifL cs → (cladesL cs).Nodup
  | [], _, _ => by simp [cladesL]
  | c :: cs, hg, hn => by
    simp only [GoodL] at hg
    simp only [NoUnifL] at hn
    simp only [cladesL]
    rw [List.nodup_append]
    refine ⟨clades_nodup c hg.1 hn.1, cladesL_nodup cs hg.2.2.2 hn.2, ?_⟩
    intro x hx y hy hxy
    subst hxy
    exact clades_ne_zero c hg.1 hg.2.1 x hx (eq_zero_of_sub_disj (clades_sub c x hx) (cladesL_sub cs x hy) hg.2.2.1)
end

end DendroModel.Hier

namespace DendroModel.C04.Aux
open DendroModel DendroModel.C04

mutual
/-- the post-order leafset list of a model tree is a permutation of the clade list of its mask-labelled view -/
theorem masksPost_perm : ∀ t : T, (T.masksPost t).Perm (Hier.clades (T.toH t))
  | .node i x l s [] => by
    cases x <;> simp [T.masksPost, T.masksPostL, T.toH, Hier.clades, Hier.cladesL, Hier.maskL, T.mask]
  | .node i x l s (c :: cs) => by
    have h := masksPostL_perm (c :: cs)
    have hm := C01.Aux.toHL_mask (c :: cs)
    simp only [T.masksPost, T.toH, Hier.clades, T.mask, hm]
    exact (List.perm_append_singleton _ _).trans (List.Perm.cons _ h)
theorem masksPostL_perm : ∀ cs : List T, (T.masksPostL cs).Perm (Hier.cladesL (T.toHL cs))
  | [] => by simp [T.masksPostL, T.toHL, Hier.cladesL]
  | c :: cs => by
    simp only [T.masksPostL, T.toHL, Hier.cladesL]
    exact List.Perm.append (masksPost_perm c) (masksPostL_perm cs)
end

/-- after unifurcation suppression the leafset masks of a well-formed tree are pairwise distinct -/
theorem masksPost_sup_nodup (t : T) (hg : Hier.Good (T.toH t)) (h0 : T.mask t ≠ 0) : (T.masksPost (T.sup t)).Nodup := by
  rw [(masksPost_perm (T.sup t)).nodup_iff, C01.Aux.sup_toH]
  exact Hier.clades_nodup _ (Hier.sup_good _ hg) (Hier.sup_noUnif _ hg (by rw [C01.Aux.toH_mask]; exact h0))

end DendroModel.C04.Aux
