import DendroModel.Theory.Reseed
/-! Unrooted trees in canonical seed position (the lowest leaf hangs directly from a seed of degree ≥ 3):
the set of normalised split masks determines the clade set, hence (by `clades_injective`) the topology.
Together with `usplits_invert` (moving the seed keeps the normalised split set) this is C01(c), unrooted. -/
namespace DendroModel.Hier

/-- canonical seed position for normalisation bit `k` -/
def Canon (k : Nat) (t : T) : Prop :=
  ∃ cs, t = .node cs ∧ T.leaf k ∈ cs ∧ 3 ≤ cs.length

theorem and_shift_eq_zero_of_not_mem {x k : Nat} (h : k ∉ bits x) : x &&& (1 <<< k) = 0 := by
  apply (and_eq_zero_iff _ _).mpr
  rw [bits_shift, Set.disjoint_left]
  intro i hi hik
  rw [Set.mem_singleton_iff] at hik; subst hik; exact h hi

theorem mem_bits_of_and_shift_ne_zero {x k : Nat} (h : x &&& (1 <<< k) ≠ 0) : k ∈ bits x := by
  by_contra hn; exact h (and_shift_eq_zero_of_not_mem hn)

section
variable {k : Nat} {cs : List T}

/-- clades of the children other than the lowest leaf avoid bit `k` and are proper subsets of `L \ {k}` -/
theorem other_child_clades (hg : GoodL cs) (hk : T.leaf k ∈ cs) {c : T} (hc : c ∈ cs) (hne : c ≠ T.leaf k)
    {x : Nat} (hx : x ∈ clades c) : k ∉ bits x ∧ bits x ⊆ bits (mask c) ∧ bits (mask c) ⊆ bits (maskL cs) := by
  have hsub := clades_sub c x hx
  refine ⟨?_, hsub, bits_maskL_subset_of_mem hc⟩
  intro hkx
  have hz : mask c &&& mask (T.leaf k) = 0 := by
    by_contra hnz; exact hne (goodL_eq_of_inter hg hc hk hnz)
  have hd := (and_eq_zero_iff _ _).mp hz
  have : k ∈ bits (mask (T.leaf k)) := by simp [mask]
  exact (Set.disjoint_left.mp hd) (hsub hkx) this

theorem k_mem_L (hk : T.leaf k ∈ cs) : k ∈ bits (maskL cs) := by
  have := bits_maskL_subset_of_mem hk
  apply this; simp [mask]

/-- the normalised split masks of a tree in canonical position -/
theorem usplits_canon (hg : GoodL cs) (hk : T.leaf k ∈ cs) (x : Nat) :
    x ∈ usplits (1 <<< k) (.node cs) ↔
      x = sdiff (maskL cs) (1 <<< k) ∨ ∃ c ∈ cs, c ≠ T.leaf k ∧ x ∈ clades c := by
  simp only [usplits, List.mem_map]
  constructor
  · rintro ⟨a, ha, rfl⟩
    obtain ⟨c, hc, hac⟩ := (mem_cladesL _ _).mp ha
    by_cases hck : c = T.leaf k
    · subst hck
      simp only [clades, List.mem_singleton] at hac
      subst hac
      left
      unfold norm
      have : (1 <<< k) &&& (1 <<< k) ≠ 0 := by rw [Nat.and_self]; exact shift_ne_zero k
      simp [this]
    · right
      obtain ⟨h1, h2, h3⟩ := other_child_clades hg hk hc hck hac
      refine ⟨c, hc, hck, ?_⟩
      unfold norm
      have hz : a &&& (1 <<< k) = 0 := and_shift_eq_zero_of_not_mem h1
      simp only [hz, ne_eq, not_true_eq_false, if_false]
      have : a &&& maskL cs = a := (and_eq_left_iff _ _).mpr (h2.trans h3)
      rw [this]; exact hac
  · rintro (rfl | ⟨c, hc, hck, hxc⟩)
    · refine ⟨1 <<< k, (mem_cladesL _ _).mpr ⟨T.leaf k, hk, by simp [clades]⟩, ?_⟩
      unfold norm
      have : (1 <<< k) &&& (1 <<< k) ≠ 0 := by rw [Nat.and_self]; exact shift_ne_zero k
      simp [this]
    · obtain ⟨h1, h2, h3⟩ := other_child_clades hg hk hc hck hxc
      refine ⟨x, (mem_cladesL _ _).mpr ⟨c, hc, hxc⟩, ?_⟩
      unfold norm
      have hz : x &&& (1 <<< k) = 0 := and_shift_eq_zero_of_not_mem h1
      simp only [hz, ne_eq, not_true_eq_false, if_false]
      exact (and_eq_left_iff _ _).mpr (h2.trans h3)

/-- with a seed of degree ≥ 3, "everything but the lowest leaf" is not a clade of any child -/
theorem compl_not_child_clade (hg : GoodL cs) (hk : T.leaf k ∈ cs) (h3 : 3 ≤ cs.length)
    {c : T} (hc : c ∈ cs) (hne : c ≠ T.leaf k) : sdiff (maskL cs) (1 <<< k) ∉ clades c := by
  intro hx
  obtain ⟨_, h2, _⟩ := other_child_clades hg hk hc hne hx
  -- a third child c' (≠ c, ≠ leaf k) has a point inside L \ {k} that is outside mask c
  have hex : ∃ c' ∈ cs, c' ≠ c ∧ c' ≠ T.leaf k := by
    by_contra hno
    have hall : ∀ c' ∈ cs, c' = c ∨ c' = T.leaf k := by
      intro c' hc'; by_contra hh; push_neg at hh; exact hno ⟨c', hc', hh.1, hh.2⟩
    have hnd : cs.Nodup := by
      have := masks_nodup hg
      exact List.Nodup.of_map _ this
    have hsubl : cs ⊆ [c, T.leaf k] := by
      intro y hy; rcases hall y hy with rfl | rfl <;> simp
    have := (List.subperm_of_subset hnd hsubl).length_le
    simp at this; omega
  obtain ⟨c', hc', hc'c, hc'k⟩ := hex
  have hgm := goodL_mem hg hc'
  obtain ⟨y, hy⟩ := ne_zero_bits hgm.2
  have hyL : y ∈ bits (maskL cs) := bits_maskL_subset_of_mem hc' hy
  have hyk : y ≠ k := by
    intro e; subst e
    have hz : mask c' &&& mask (T.leaf y) = 0 := by
      by_contra hnz; exact hc'k (goodL_eq_of_inter hg hc' hk hnz)
    have hd := (and_eq_zero_iff _ _).mp hz
    exact (Set.disjoint_left.mp hd) hy (by simp [mask])
  have hyin : y ∈ bits (sdiff (maskL cs) (1 <<< k)) := by
    rw [bits_sdiff, bits_shift]; exact ⟨hyL, by simpa using hyk⟩
  have hyc : y ∈ bits (mask c) := h2 hyin
  have hz : mask c' &&& mask c = 0 := by
    by_contra hnz; exact hc'c (goodL_eq_of_inter hg hc' hc hnz)
  exact (Set.disjoint_left.mp ((and_eq_zero_iff _ _).mp hz)) hy hyc

/-- the clade set of a tree in canonical position, read off its normalised split set -/
theorem clades_of_usplits (hg : GoodL cs) (hk : T.leaf k ∈ cs) (h3 : 3 ≤ cs.length) (x : Nat) :
    x ∈ clades (.node cs) ↔
      x = maskL cs ∨ x = 1 <<< k ∨ (x ∈ usplits (1 <<< k) (.node cs) ∧ x ≠ sdiff (maskL cs) (1 <<< k)) := by
  simp only [clades, List.mem_cons]
  constructor
  · rintro (rfl | hx)
    · exact Or.inl rfl
    · obtain ⟨c, hc, hxc⟩ := (mem_cladesL _ _).mp hx
      by_cases hck : c = T.leaf k
      · subst hck; simp only [clades, List.mem_singleton] at hxc; exact Or.inr (Or.inl hxc)
      · right; right
        refine ⟨(usplits_canon hg hk x).mpr (Or.inr ⟨c, hc, hck, hxc⟩), ?_⟩
        rintro rfl
        exact compl_not_child_clade hg hk h3 hc hck hxc
  · rintro (rfl | rfl | ⟨hx, hne⟩)
    · exact Or.inl rfl
    · exact Or.inr ((mem_cladesL _ _).mpr ⟨T.leaf k, hk, by simp [clades]⟩)
    · rcases (usplits_canon hg hk x).mp hx with rfl | ⟨c, hc, _, hxc⟩
      · exact absurd rfl hne
      · exact Or.inr ((mem_cladesL _ _).mpr ⟨c, hc, hxc⟩)
end

/-- two well-formed, unifurcation-free trees over the same leaves, both seeded next to the lowest leaf, with equal sets of
    normalised split masks are the same tree up to child order -/
theorem usplits_injective_canon (k : Nat) (t u : T) (hgt : Good t) (hgu : Good u)
    (hnt : NoUnif t) (hnu : NoUnif u) (hct : Canon k t) (hcu : Canon k u) (hL : mask t = mask u)
    (hs : ∀ s, s ∈ usplits (1 <<< k) t ↔ s ∈ usplits (1 <<< k) u) : Iso t u := by
  obtain ⟨cs, rfl, hk1, h31⟩ := hct
  obtain ⟨ds, rfl, hk2, h32⟩ := hcu
  simp only [Good] at hgt hgu
  simp only [mask] at hL
  have h0 : maskL cs ≠ 0 := by
    intro hz
    have := k_mem_L hk1
    rw [hz, bits_zero] at this; exact this
  apply clades_injective (.node cs) (.node ds) (by simpa [Good] using hgt) (by simpa [mask] using h0)
    (by simpa [Good] using hgu) (by simpa [mask, ← hL] using h0) hnt hnu
  intro x
  rw [clades_of_usplits hgt hk1 h31 x, clades_of_usplits hgu hk2 h32 x, hL, hs x]

end DendroModel.Hier
