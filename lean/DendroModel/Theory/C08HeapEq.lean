import DendroModel.Theory.C08Heap
/-! C08 — the object-store model and the functional model of extraction compute the same thing (suppression declined): on any
store that holds the source tree, `extractHeap … false` ends with the exception `extractTree … false` ends with, or with a start
address at which the store holds exactly the tree `extractTree … false` returns. -/
namespace DendroModel.C08.Aux
open DendroModel

mutual
/-- the object at address `a` of store `h`, with everything below it, is the tree `r` (a clone is identified by its
    `extraction_source` reference) -/
def Reads (h : List Cell) : Nat → T → Prop
  | a, .node i x l s ks => ∃ c, h[a]? = some c ∧ c.src = some i ∧ c.taxon = x ∧ c.len = l ∧ c.label = s ∧ ReadsL h c.kids ks
def ReadsL (h : List Cell) : List Nat → List T → Prop
  | [], [] => True
  | a :: as, k :: ks => Reads h a k ∧ ReadsL h as ks
  | [], _ :: _ => False
  | _ :: _, [] => False
end

/-- the store holds the source tree: the node with id `i` sits at address `i` with its attributes and the addresses of its children -/
def Holds (h : List Cell) (t : T) : Prop :=
  ∀ n ∈ post t, ∃ c, h[n.id]? = some c ∧ c.taxon = n.taxon ∧ c.kids = n.cs.map T.id ∧ c.len = n.len ∧ c.label = n.label

theorem get_append_of_some {h e : List Cell} {a : Nat} {c : Cell} (hc : h[a]? = some c) : (h ++ e)[a]? = some c := by
  have : a < h.length := by
    obtain ⟨hl, _⟩ := List.getElem?_eq_some_iff.mp hc
    exact hl
  rw [List.getElem?_append_left this]; exact hc

mutual
theorem reads_mono (h e : List Cell) : ∀ (a : Nat) (r : T), Reads h a r → Reads (h ++ e) a r
  | a, .node i x l s ks, hr => by
      simp only [Reads] at hr ⊢
      obtain ⟨c, h1, h2, h3, h4, h5, h6⟩ := hr
      exact ⟨c, get_append_of_some h1, h2, h3, h4, h5, readsL_mono h e c.kids ks h6⟩
theorem readsL_mono (h e : List Cell) : ∀ (as : List Nat) (ks : List T), ReadsL h as ks → ReadsL (h ++ e) as ks
  | [], [], _ => by simp [ReadsL]
  | a :: as, k :: ks, hr => by
      simp only [ReadsL] at hr ⊢
      exact ⟨reads_mono h e a k hr.1, readsL_mono h e as ks hr.2⟩
  | [], _ :: _, hr => by simp [ReadsL] at hr
  | _ :: _, [], hr => by simp [ReadsL] at hr
end

theorem readsL_isEmpty (h : List Cell) : ∀ (as : List Nat) (ks : List T), ReadsL h as ks → as.isEmpty = ks.isEmpty
  | [], [], _ => rfl
  | _ :: _, _ :: _, _ => rfl
  | [], _ :: _, hr => by simp [ReadsL] at hr
  | _ :: _, [], hr => by simp [ReadsL] at hr

/-- the two memos have the same keys in the same order and the store holds, at each clone address, the functional clone -/
def MemoRel (h : List Cell) : List (Nat × Nat) → List (Nat × T) → Prop
  | [], [] => True
  | p :: ps, q :: qs => p.1 = q.1 ∧ Reads h p.2 q.2 ∧ MemoRel h ps qs
  | [], _ :: _ => False
  | _ :: _, [] => False

theorem memoRel_mono (h e : List Cell) : ∀ (m : List (Nat × Nat)) (m' : List (Nat × T)), MemoRel h m m' → MemoRel (h ++ e) m m'
  | [], [], _ => by trivial
  | p :: ps, q :: qs, hr => by
      simp only [MemoRel] at hr ⊢
      exact ⟨hr.1, reads_mono h e _ _ hr.2.1, memoRel_mono h e ps qs hr.2.2⟩
  | [], _ :: _, hr => by simp [MemoRel] at hr
  | _ :: _, [], hr => by simp [MemoRel] at hr

theorem memoRel_lookup (h : List Cell) : ∀ (m : List (Nat × Nat)) (m' : List (Nat × T)), MemoRel h m m' → ∀ k : Nat,
    (m.lookup k = none ∧ m'.lookup k = none) ∨ ∃ a r, m.lookup k = some a ∧ m'.lookup k = some r ∧ Reads h a r
  | [], [], _, k => Or.inl ⟨rfl, rfl⟩
  | (k1, a1) :: ps, (k2, r2) :: qs, hr, k => by
      simp only [MemoRel] at hr
      obtain ⟨e, hrd, hrest⟩ := hr
      have e : k1 = k2 := e
      subst e
      simp only [List.lookup]
      by_cases hk : (k == k1) = true
      · simp only [hk]
        exact Or.inr ⟨a1, r2, rfl, rfl, hrd⟩
      · have hk' : (k == k1) = false := by simpa using hk
        simp only [hk']
        exact memoRel_lookup h ps qs hrest k
  | [], _ :: _, hr, _ => by simp [MemoRel] at hr
  | _ :: _, [], hr, _ => by simp [MemoRel] at hr

theorem kids_rel (h : List Cell) (m : List (Nat × Nat)) (m' : List (Nat × T)) (hm : MemoRel h m m') :
    ∀ cs : List T, ReadsL h ((cs.map T.id).filterMap (fun k => m.lookup k)) (kidsOf m' cs)
  | [] => by simp [kidsOf, ReadsL]
  | c :: cs => by
      have ih := kids_rel h m m' hm cs
      simp only [List.map_cons, List.filterMap_cons, kidsOf]
      rcases memoRel_lookup h m m' hm c.id with ⟨h1, h2⟩ | ⟨a, r, h1, h2, h3⟩
      · simp only [h1, h2]; exact ih
      · simp only [h1, h2, ReadsL]; exact ⟨h3, ih⟩

def StartRel (h : List Cell) : Option Nat → Option T → Prop
  | some a, some r => Reads h a r
  | none, none => True
  | _, _ => False

theorem startRel_mono (h e : List Cell) (a : Option Nat) (r : Option T) (hs : StartRel h a r) : StartRel (h ++ e) a r := by
  cases a <;> cases r <;> simp only [StartRel] at hs ⊢
  exact reads_mono h e _ _ hs

/-- the relation between the two loop states while no exception is pending -/
structure Rel (h0 : List Cell) (hs : HSt) (st : ExSt) : Prop where
  ext : ∃ e, hs.heap = h0 ++ e
  memo : MemoRel hs.heap hs.memo st.memo
  start : StartRel hs.heap hs.start st.start
  flags : hs.done = false ∧ hs.crashed = false ∧ hs.seedDeleted = false ∧ st.seedDeleted = false

def RelOr (h0 : List Cell) (hs : HSt) (st : ExSt) : Prop :=
  (hs.seedDeleted = true ∧ st.seedDeleted = true) ∨ Rel h0 hs st

theorem exStep_seedDeleted (acc : Acc) (fl fi sup : Bool) (rootId : Nat) (st : ExSt) (n : T) (h : st.seedDeleted = true) :
    (exStep acc fl fi sup rootId st n).seedDeleted = true := by
  obtain ⟨i, x, l, s, cs⟩ := n
  simp only [exStep]
  repeat' split
  all_goals first | exact h | simp

theorem step_rel (acc : Acc) (fl fi : Bool) (rootId : Nat) (h0 : List Cell) (t : T) (hh : Holds h0 t) (n : T) (hn : n ∈ post t)
    (hs : HSt) (st : ExSt) (R : RelOr h0 hs st) :
    RelOr h0 (hStep acc fl fi false rootId hs n) (exStep acc fl fi false rootId st n) := by
  rcases R with ⟨d1, d2⟩ | R
  · left
    refine ⟨?_, exStep_seedDeleted acc fl fi false rootId st n d2⟩
    unfold hStep
    simp [d1]
  obtain ⟨c0, hc0, hx, hk, hl, hlab⟩ := hh n hn
  obtain ⟨i, x, l, s, cs⟩ := n
  simp only [T.id, T.taxon, T.cs, T.len, T.label] at hc0 hx hk hl hlab
  obtain ⟨e, he⟩ := R.ext
  obtain ⟨f1, f2, f3, f4⟩ := R.flags
  have hread : hs.heap[i]? = some c0 := by rw [he]; exact get_append_of_some hc0
  have hkids := kids_rel hs.heap hs.memo st.memo R.memo cs
  have hke : (List.map T.id cs).isEmpty = cs.isEmpty := by cases cs <;> rfl
  unfold hStep
  simp only [f1, f2, f3, Bool.or_self, Bool.false_eq_true, if_false, T.id, hread, Option.getD_some, exStep, hx, hke, hk]
  by_cases hrej : ((if cs.isEmpty = true then fl else fi) && !acc i x) = true
  · rw [if_pos hrej, if_pos hrej]; exact Or.inr R
  rw [if_neg hrej, if_neg hrej]
  have hie := readsL_isEmpty _ _ _ hkids
  generalize hK : (cs.map T.id).filterMap (fun k => hs.memo.lookup k) = K at hkids hie
  generalize hK' : kidsOf st.memo cs = K' at hkids hie
  by_cases hempty : (K'.isEmpty && !cs.isEmpty) = true
  · have hempty2 : (K.isEmpty && !cs.isEmpty) = true := by
      rw [hie]; exact hempty
    rw [if_pos hempty, if_pos hempty2]
    by_cases hr : (i == rootId) = true
    · rw [if_pos hr, if_pos hr]; exact Or.inl ⟨rfl, rfl⟩
    · rw [if_neg hr, if_neg hr]; exact Or.inr R
  have hempty2 : ¬ (K.isEmpty && !cs.isEmpty) = true := by
    rw [hie]; exact hempty
  rw [if_neg hempty, if_neg hempty2]
  -- suppression declined: both allocate a fresh clone
  have halloc : Reads (hs.heap ++ [{ taxon := x, len := c0.len, label := c0.label, kids := K, src := some i }]) hs.heap.length
      (T.node i x l s K') := by
    simp only [Reads]
    exact ⟨_, List.getElem?_concat_length, rfl, rfl, hl, hlab, readsL_mono _ _ _ _ hkids⟩
  have hmemo := memoRel_mono hs.heap [{ taxon := x, len := c0.len, label := c0.label, kids := K, src := some i }] _ _ R.memo
  have hstart := startRel_mono hs.heap [{ taxon := x, len := c0.len, label := c0.label, kids := K, src := some i }] _ _ R.start
  have hext : ∃ e', hs.heap ++ [{ taxon := x, len := c0.len, label := c0.label, kids := K, src := some i }] = h0 ++ e' :=
    ⟨e ++ [_], by rw [he, List.append_assoc]⟩
  have key : RelOr h0
      (if (i == rootId) = true then
        ({ heap := hs.heap ++ [{ taxon := x, len := c0.len, label := c0.label, kids := K, src := some i }],
           memo := (i, hs.heap.length) :: hs.memo, last := some hs.heap.length, start := some hs.heap.length } : HSt)
       else
        ({ heap := hs.heap ++ [{ taxon := x, len := c0.len, label := c0.label, kids := K, src := some i }],
           memo := (i, hs.heap.length) :: hs.memo, last := some hs.heap.length, start := hs.start } : HSt))
      { st with memo := (i, T.node i x l s K') :: st.memo, start := if (i == rootId) = true then some (T.node i x l s K') else st.start } := by
    right
    by_cases hr : (i == rootId) = true
    · rw [if_pos hr]
      refine ⟨hext, ?_, ?_, rfl, rfl, rfl, f4⟩
      · simp only [MemoRel]; exact ⟨trivial, halloc, hmemo⟩
      · simp only [hr, if_true, StartRel]; exact halloc
    · rw [if_neg hr]
      refine ⟨hext, ?_, ?_, rfl, rfl, rfl, f4⟩
      · simp only [MemoRel]; exact ⟨trivial, halloc, hmemo⟩
      · simp only [hr, Bool.false_eq_true, if_false]; exact hstart
  match K, K', key with
  | [], [], key => exact key
  | [], [_], key => exact key
  | [], _ :: _ :: _, key => exact key
  | [_], [], key => exact key
  | [_], [_], key => exact key
  | [_], _ :: _ :: _, key => exact key
  | _ :: _ :: _, [], key => exact key
  | _ :: _ :: _, [_], key => exact key
  | _ :: _ :: _, _ :: _ :: _, key => exact key

theorem fold_rel (acc : Acc) (fl fi : Bool) (rootId : Nat) (h0 : List Cell) (t : T) (hh : Holds h0 t) :
    ∀ (ns : List T), (∀ n ∈ ns, n ∈ post t) → ∀ (hs : HSt) (st : ExSt), RelOr h0 hs st →
      RelOr h0 (ns.foldl (hStep acc fl fi false rootId) hs) (ns.foldl (exStep acc fl fi false rootId) st)
  | [], _, _, _, R => R
  | n :: ns, hsub, hs, st, R => by
      simp only [List.foldl_cons]
      exact fold_rel acc fl fi rootId h0 t hh ns (fun m hm => hsub m (List.mem_cons_of_mem _ hm)) _ _
        (step_rel acc fl fi rootId h0 t hh n (hsub n List.mem_cons_self) hs st R)

end DendroModel.C08.Aux
