import DendroModel.Theory.Inj
/-! Prototype: suppressing unifurcations keeps the clade set, removes all unary nodes, keeps well-formedness;
    corollary: rooted trees with equal clade sets have the same topology whatever their unifurcations -/
namespace DendroModel.Hier

theorem supL_length : ∀ cs : List T, (supL cs).length = cs.length
  | [] => rfl
  | c :: cs => by simp [supL, supL_length cs]

mutual
theorem sup_mask : ∀ t : T, mask (sup t) = mask t
  | .leaf i => rfl
  | .node cs => by
      have h := supL_mask cs
      simp only [sup]
      split
      · rename_i c hc
        simp only [mask]; rw [← h, hc]; simp [maskL]
      · simp only [mask, h]
theorem supL_mask : ∀ cs : List T, maskL (supL cs) = maskL cs
  | [] => rfl
  | c :: cs => by simp [supL, maskL, sup_mask c, supL_mask cs]
end

mutual
theorem sup_clades : ∀ t : T, ∀ x, x ∈ clades (sup t) ↔ x ∈ clades t
  | .leaf i, x => Iff.rfl
  | .node cs, x => by
      have h := supL_clades cs x
      have hm := supL_mask cs
      simp only [sup]
      split
      · rename_i c hc
        rw [hc] at h hm
        simp only [cladesL, List.append_nil] at h
        simp only [maskL, Nat.or_zero] at hm
        simp only [clades, List.mem_cons]
        rw [← h, ← hm]
        constructor
        · intro hx; exact Or.inr hx
        · rintro (hx | hx)
          · rw [hx]; exact mask_mem_clades c
          · exact hx
      · simp only [clades, List.mem_cons, hm, h]
theorem supL_clades : ∀ cs : List T, ∀ x, x ∈ cladesL (supL cs) ↔ x ∈ cladesL cs
  | [], x => Iff.rfl
  | c :: cs, x => by simp only [supL, cladesL, List.mem_append, sup_clades c x, supL_clades cs x]
end

mutual
theorem sup_good : ∀ t : T, Good t → Good (sup t)
  | .leaf i, _ => by simp [sup, Good]
  | .node cs, h => by
      simp only [Good] at h
      have hl := supL_good cs h
      simp only [sup]
      split
      · rename_i c hc
        rw [hc] at hl; simp only [GoodL] at hl; exact hl.1
      · simpa [Good] using hl
theorem supL_good : ∀ cs : List T, GoodL cs → GoodL (supL cs)
  | [], _ => by simp [supL, GoodL]
  | c :: cs, h => by
      simp only [GoodL] at h
      simp only [supL, GoodL, sup_mask, supL_mask]
      exact ⟨sup_good c h.1, h.2.1, h.2.2.1, supL_good cs h.2.2.2⟩
end

mutual
theorem sup_noUnif : ∀ t : T, Good t → mask t ≠ 0 → NoUnif (sup t)
  | .leaf i, _, _ => by simp [sup, NoUnif]
  | .node cs, h, h0 => by
      simp only [Good] at h
      have hl := supL_noUnif cs h
      simp only [sup]
      split
      · rename_i c hc
        rw [hc] at hl; simp only [NoUnifL] at hl; exact hl.1
      · rename_i hne
        simp only [NoUnif]
        refine ⟨?_, hl⟩
        -- supL cs is neither [] (mask ≠ 0) nor a singleton
        match hs : supL cs with
        | [] =>
          exfalso; apply h0
          have := supL_mask cs; rw [hs] at this; simp [mask, ← this, maskL]
        | [c] => exact absurd hs (hne c)
        | _ :: _ :: _ => simp
theorem supL_noUnif : ∀ cs : List T, GoodL cs → NoUnifL (supL cs)
  | [], _ => by simp [supL, NoUnifL]
  | c :: cs, h => by
      simp only [GoodL] at h
      simp only [supL, NoUnifL]
      exact ⟨sup_noUnif c h.1 h.2.1, supL_noUnif cs h.2.2.2⟩
end

/-- C01(c), rooted half: equal clade sets ⇒ same topology, whatever the unifurcations and child order -/
theorem same_clades_same_topology (t u : T) (hgt : Good t) (ht0 : mask t ≠ 0) (hgu : Good u) (hu0 : mask u ≠ 0)
    (h : ∀ x, x ∈ clades t ↔ x ∈ clades u) : Iso (sup t) (sup u) :=
  clades_injective (sup t) (sup u) (sup_good t hgt) (by rw [sup_mask]; exact ht0)
    (sup_good u hgu) (by rw [sup_mask]; exact hu0) (sup_noUnif t hgt ht0) (sup_noUnif u hgu hu0)
    (fun x => by rw [sup_clades, sup_clades]; exact h x)

end DendroModel.Hier
