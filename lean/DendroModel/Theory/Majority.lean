/-! Prototype: weighted pigeonhole behind the majority-rule consensus (C05 b):
    two splits each carried by more than half of the total tree weight occur together in some tree -/
namespace DendroModel.Majority

structure WT where
  splits : List Nat
  weight : Nat

def total : List WT → Nat
  | [] => 0
  | t :: ts => t.weight + total ts

def cnt (s : Nat) : List WT → Nat
  | [] => 0
  | t :: ts => (if s ∈ t.splits then t.weight else 0) + cnt s ts

theorem cnt_le_total (s : Nat) : ∀ ts, cnt s ts ≤ total ts
  | [] => Nat.le_refl _
  | t :: ts => by
    have := cnt_le_total s ts
    simp only [cnt, total]; split <;> omega

/-- if no tree carries both splits, their counts add up to at most the total weight -/
theorem disjoint_support (a b : Nat) : ∀ ts : List WT, (∀ t ∈ ts, ¬ (a ∈ t.splits ∧ b ∈ t.splits)) →
    cnt a ts + cnt b ts ≤ total ts
  | [], _ => Nat.le_refl _
  | t :: ts, h => by
    have ih := disjoint_support a b ts (fun t' ht' => h t' (List.mem_cons_of_mem _ ht'))
    have ht := h t (List.mem_cons_self)
    simp only [cnt, total]
    by_cases ha : a ∈ t.splits <;> by_cases hb : b ∈ t.splits <;> simp [ha, hb] <;> first | omega | (exact absurd ⟨ha, hb⟩ ht)

theorem majority_cooccur (a b : Nat) (ts : List WT)
    (ha : total ts < 2 * cnt a ts) (hb : total ts < 2 * cnt b ts) :
    ∃ t ∈ ts, a ∈ t.splits ∧ b ∈ t.splits := by
  apply Classical.byContradiction
  intro hno
  have := disjoint_support a b ts (fun t ht hab => hno ⟨t, ht, hab⟩)
  omega

end DendroModel.Majority