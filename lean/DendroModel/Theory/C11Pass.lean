import DendroModel.Model.C11
import DendroModel.Theory.C11Fresh
/-! C11 — `unify_taxa_by_label=False` over WHOLE passes.  A pass into namespace `n` that started from a store with `b` taxa, member
list `M0` of `n` and labels `L0` keeps the invariant `PassF`: the only members of `n` below `b` are those of `M0`, every memo entry
sends a taxon that was foreign at the start to a taxon created by the pass (`≥ b`), a member of `n` carrying the same label, and the
memo is injective.  `mapOne_fresh` is the step, `mapTaxa_fresh` the pass over the nodes of a tree, `passF_pair` the conclusion
"two items end on one taxon exactly when they were on one taxon".  The headline theorems are in `Props/C11.lean`. -/
namespace DendroModel.C11

/-- position-wise relation between the taxon references of an object before and after a pass: same length, a node without
taxon stays without, a node with taxon `x` gets a taxon `y` with `R x y` -/
def related (R : Nat → Nat → Prop) : List (Option Nat) → List (Option Nat) → Prop
  | [], [] => True
  | none :: xs, none :: ys => related R xs ys
  | some x :: xs, some y :: ys => R x y ∧ related R xs ys
  | _, _ => False

namespace Aux

theorem related_mono {R R' : Nat → Nat → Prop} :
    ∀ (xs ys : List (Option Nat)), (∀ x y, some x ∈ xs → R x y → R' x y) → related R xs ys → related R' xs ys
  | [], [], _, _ => trivial
  | [], _ :: _, _, hr => by simp [related] at hr
  | none :: xs, [], _, hr => by simp [related] at hr
  | some _ :: xs, [], _, hr => by simp [related] at hr
  | none :: xs, none :: ys, h, hr => by
    simp only [related] at hr ⊢; exact related_mono xs ys (fun x y hx => h x y (by simp [hx])) hr
  | none :: xs, some _ :: ys, _, hr => by simp [related] at hr
  | some _ :: xs, none :: ys, _, hr => by simp [related] at hr
  | some x :: xs, some y :: ys, h, hr => by
    simp only [related] at hr ⊢
    exact ⟨h x y (by simp) hr.1, related_mono xs ys (fun x y hx => h x y (by simp [hx])) hr.2⟩

theorem related_length {R : Nat → Nat → Prop} : ∀ (xs ys : List (Option Nat)), related R xs ys → xs.length = ys.length
  | [], [], _ => rfl
  | [], _ :: _, hr => by simp [related] at hr
  | none :: xs, [], hr => by simp [related] at hr
  | some _ :: xs, [], hr => by simp [related] at hr
  | none :: xs, none :: ys, hr => by simp only [related] at hr; simp [related_length xs ys hr]
  | none :: xs, some _ :: ys, hr => by simp [related] at hr
  | some _ :: xs, none :: ys, hr => by simp [related] at hr
  | some x :: xs, some y :: ys, hr => by simp only [related] at hr; simp [related_length xs ys hr.2]

/-- the relation read off at one position -/
theorem related_get {R : Nat → Nat → Prop} : ∀ (xs ys : List (Option Nat)) (i x y : Nat), related R xs ys →
    xs[i]? = some (some x) → ys[i]? = some (some y) → R x y
  | [], _, i, x, y, _, hx, _ => by simp at hx
  | _ :: _, [], i, x, y, _, _, hy => by simp at hy
  | none :: xs, none :: ys, 0, x, y, _, hx, _ => by simp at hx
  | none :: xs, none :: ys, i + 1, x, y, hr, hx, hy => by
    simp only [related] at hr
    exact related_get xs ys i x y hr (by simpa using hx) (by simpa using hy)
  | none :: xs, some _ :: ys, _, _, _, hr, _, _ => by simp [related] at hr
  | some _ :: xs, none :: ys, _, _, _, hr, _, _ => by simp [related] at hr
  | some a :: xs, some c :: ys, 0, x, y, hr, hx, hy => by
    simp only [related] at hr
    simp at hx hy
    subst hx; subst hy
    exact hr.1
  | some a :: xs, some c :: ys, i + 1, x, y, hr, hx, hy => by
    simp only [related] at hr
    exact related_get xs ys i x y hr.2 (by simpa using hx) (by simpa using hy)

/-- every position with a taxon has a counterpart with a taxon -/
theorem related_get_some {R : Nat → Nat → Prop} : ∀ (xs ys : List (Option Nat)) (i x : Nat), related R xs ys →
    xs[i]? = some (some x) → ∃ y, ys[i]? = some (some y) ∧ R x y
  | [], _, i, x, _, hx => by simp at hx
  | none :: xs, [], _, _, hr, _ => by simp [related] at hr
  | some _ :: xs, [], _, _, hr, _ => by simp [related] at hr
  | none :: xs, none :: ys, 0, x, _, hx => by simp at hx
  | none :: xs, none :: ys, i + 1, x, hr, hx => by
    simp only [related] at hr
    obtain ⟨y, hy, r⟩ := related_get_some xs ys i x hr (by simpa using hx)
    exact ⟨y, by simpa using hy, r⟩
  | none :: xs, some _ :: ys, _, _, hr, _ => by simp [related] at hr
  | some _ :: xs, none :: ys, _, _, hr, _ => by simp [related] at hr
  | some a :: xs, some c :: ys, 0, x, hr, hx => by
    simp only [related] at hr
    simp at hx
    subst hx
    exact ⟨c, by simp, hr.1⟩
  | some a :: xs, some c :: ys, i + 1, x, hr, hx => by
    simp only [related] at hr
    obtain ⟨y, hy, r⟩ := related_get_some xs ys i x hr.2 (by simpa using hx)
    exact ⟨y, by simpa using hy, r⟩

end Aux

namespace Pass

theorem memoGet_cons (a b : Nat) (m : Memo) (q : Nat) :
    memoGet ((a, b) :: m) q = if a = q then some b else memoGet m q := by
  simp only [memoGet, List.find?_cons]
  by_cases e : a = q
  · simp [e]
  · have : (a == q) = false := by simp [e]
    simp [this, e]

/-- the state of a `unify_taxa_by_label=False` pass into namespace `n` that started with `b` allocated taxa, the member list `M0`
of `n` and the label table `L0` -/
structure PassF (b : Nat) (M0 : List Nat) (L0 : Nat → String) (n : Nat) (s : Store) (m : Memo) : Prop where
  nT : b ≤ s.nTaxa
  m0 : ∀ x, x ∈ M0 → x < b
  memb : ∀ x, x < b → (x ∈ mem s n ↔ x ∈ M0)
  fresh : ∀ x, x ∈ mem s n → x < s.nTaxa
  lab : ∀ y, y < b → s.label y = L0 y
  memo : ∀ x y, memoGet m x = some y → x < b ∧ x ∉ M0 ∧ b ≤ y ∧ y ∈ mem s n ∧ s.label y = L0 x
  inj : ∀ x x' y, memoGet m x = some y → memoGet m x' = some y → x = x'

/-- the start of a pass with an empty memo -/
theorem passF_start (s : Store) (n : Nat) (hf : ∀ x, x ∈ mem s n → x < s.nTaxa) :
    PassF s.nTaxa (mem s n) s.label n s [] :=
  ⟨Nat.le_refl _, hf, fun _ _ => Iff.rfl, hf, fun _ _ => rfl,
   fun x y h => by simp [memoGet] at h, fun x x' y h => by simp [memoGet] at h⟩

/-- the invariant only looks at namespaces, labels and the taxon counter -/
theorem passF_of_eq {b : Nat} {M0 : List Nat} {L0 : Nat → String} {n : Nat} {s s' : Store} {m : Memo}
    (P : PassF b M0 L0 n s m) (e1 : s'.ns = s.ns) (e2 : s'.nTaxa = s.nTaxa) (e3 : s'.label = s.label) : PassF b M0 L0 n s' m := by
  have em : mem s' n = mem s n := by simp [mem, e1]
  refine ⟨by rw [e2]; exact P.nT, P.m0, ?_, ?_, ?_, ?_, P.inj⟩
  · intro x hx; rw [em]; exact P.memb x hx
  · intro x hx; rw [em] at hx; rw [e2]; exact P.fresh x hx
  · intro y hy; rw [e3]; exact P.lab y hy
  · intro x y h; rw [em, e3]; exact P.memo x y h

/-- ONE ITEM of a non-unifying pass: a member of the target keeps its taxon; a foreign taxon is sent to what the memo holds for it
afterwards (a taxon created by this pass); the memo only grows; the invariant is kept -/
theorem mapOne_fresh {b : Nat} {M0 : List Nat} {L0 : Nat → String} {n : Nat} {s : Store} {m : Memo}
    (P : PassF b M0 L0 n s m) (x : Nat) (hx : x < b) :
    PassF b M0 L0 n (mapOne s n false m x).1 (mapOne s n false m x).2.1
    ∧ (x ∈ M0 → (mapOne s n false m x).2.2 = x)
    ∧ (x ∉ M0 → memoGet (mapOne s n false m x).2.1 x = some (mapOne s n false m x).2.2)
    ∧ (∀ q z, memoGet m q = some z → memoGet (mapOne s n false m x).2.1 q = some z) := by
  by_cases hmem : x ∈ mem s n
  · have c : ((mem s n).contains x) = true := by simpa using hmem
    have e : mapOne s n false m x = (s, m, x) := by
      unfold mapOne
      simp only [c, Bool.false_or, Bool.not_true, Bool.false_eq_true, if_false]
    rw [e]
    refine ⟨P, fun _ => rfl, fun h => absurd ((P.memb x hx).mp hmem) h, fun _ _ h => h⟩
  · have c : ((mem s n).contains x) = false := by simpa using hmem
    have hM0 : x ∉ M0 := fun h => hmem ((P.memb x hx).mpr h)
    cases hg : memoGet m x with
    | some t =>
      obtain ⟨_, _, _, tin, _⟩ := P.memo x t hg
      have ea : addMember s n t = s := by simp [addMember, tin]
      have e : mapOne s n false m x = (s, m, t) := by
        unfold mapOne
        simp only [c, hg, Bool.false_or, Bool.not_false, if_true, ea]
      rw [e]
      exact ⟨P, fun h => absurd h hM0, fun _ => hg, fun _ _ h => h⟩
    | none =>
      have e : mapOne s n false m x = ((newTaxon s n (s.label x)).1, (x, s.nTaxa) :: m, s.nTaxa) := by
        unfold mapOne
        simp only [c, hg, Bool.false_or, Bool.not_false, if_true, Bool.false_eq_true, if_false]
        rfl
      rw [e]
      have memS : ∀ y, y ∈ mem (newTaxon s n (s.label x)).1 n ↔ y ∈ mem s n ∨ y = s.nTaxa := by
        intro y; simp [newTaxon, mem, upd]
      have labS : ∀ y, y ≠ s.nTaxa → (newTaxon s n (s.label x)).1.label y = s.label y := by
        intro y hy; simp [newTaxon, upd, hy]
      have labN : (newTaxon s n (s.label x)).1.label s.nTaxa = s.label x := by simp [newTaxon, upd]
      refine ⟨⟨?_, P.m0, ?_, ?_, ?_, ?_, ?_⟩, fun h => absurd h hM0, ?_, ?_⟩
      · show b ≤ s.nTaxa + 1
        exact Nat.le_succ_of_le P.nT
      · intro y hy
        rw [memS]
        constructor
        · intro h
          rcases h with h | h
          · exact (P.memb y hy).mp h
          · have := P.nT; omega
        · intro h; exact Or.inl ((P.memb y hy).mpr h)
      · intro y hy
        show y < s.nTaxa + 1
        rcases (memS y).mp hy with h | h
        · exact Nat.lt_succ_of_lt (P.fresh y h)
        · omega
      · intro y hy
        rw [labS y (by have := P.nT; omega)]
        exact P.lab y hy
      · intro q z hq
        rw [memoGet_cons] at hq
        by_cases eq : x = q
        · subst eq
          simp at hq
          subst hq
          refine ⟨hx, hM0, P.nT, (memS _).mpr (Or.inr rfl), ?_⟩
          rw [labN]; exact P.lab x hx
        · simp only [eq, if_false] at hq
          obtain ⟨a1, a2, a3, a4, a5⟩ := P.memo q z hq
          refine ⟨a1, a2, a3, (memS _).mpr (Or.inl a4), ?_⟩
          rw [labS z (Nat.ne_of_lt (P.fresh z a4))]
          exact a5
      · intro q q' z hq hq'
        rw [memoGet_cons] at hq hq'
        by_cases eq : x = q
        · by_cases eq' : x = q'
          · rw [← eq, ← eq']
          · simp only [eq, if_true] at hq
            simp only [eq', if_false] at hq'
            have hz : z = s.nTaxa := (Option.some.inj hq).symm
            obtain ⟨_, _, _, a4, _⟩ := P.memo q' z hq'
            have := P.fresh z a4
            omega
        · by_cases eq' : x = q'
          · simp only [eq', if_true] at hq'
            simp only [eq, if_false] at hq
            have hz : z = s.nTaxa := (Option.some.inj hq').symm
            obtain ⟨_, _, _, a4, _⟩ := P.memo q z hq
            have := P.fresh z a4
            omega
          · simp only [eq, if_false] at hq
            simp only [eq', if_false] at hq'
            exact P.inj q q' z hq hq'
      · intro _
        rw [memoGet_cons]; simp
      · intro q z hq
        rw [memoGet_cons]
        by_cases eq : x = q
        · subst eq; rw [hg] at hq; cases hq
        · simp only [eq, if_false]; exact hq

/-- the relation a non-unifying pass establishes between an item's old taxon `x` and its new taxon `y`, read against the memo `mf`
the pass ends with -/
def RF (M0 : List Nat) (mf : Memo) (x y : Nat) : Prop := (x ∈ M0 → y = x) ∧ (x ∉ M0 → memoGet mf x = some y)

theorem rf_mono {M0 : List Nat} {m m' : Memo} (h : ∀ q z, memoGet m q = some z → memoGet m' q = some z) {x y : Nat}
    (r : RF M0 m x y) : RF M0 m' x y :=
  ⟨r.1, fun hn => h x y (r.2 hn)⟩

/-- THE NODES OF ONE TREE: nothing dropped or invented, every node related by `RF` to the memo the pass ends with -/
theorem mapTaxa_fresh {b : Nat} {M0 : List Nat} {L0 : Nat → String} (n : Nat) : ∀ (xs : List (Option Nat)) (s : Store) (m : Memo),
    PassF b M0 L0 n s m → (∀ x, some x ∈ xs → x < b) →
    PassF b M0 L0 n (mapTaxa s n false m xs).1 (mapTaxa s n false m xs).2.1
    ∧ related (RF M0 (mapTaxa s n false m xs).2.1) xs (mapTaxa s n false m xs).2.2
    ∧ (∀ q z, memoGet m q = some z → memoGet (mapTaxa s n false m xs).2.1 q = some z)
  | [], s, m, P, _ => ⟨P, trivial, fun _ _ h => h⟩
  | none :: xs, s, m, P, hx => by
    simp only [mapTaxa, related]
    exact mapTaxa_fresh n xs s m P (fun x h => hx x (by simp [h]))
  | some x :: xs, s, m, P, hx => by
    simp only [mapTaxa, related]
    obtain ⟨P1, a1, b1, g1⟩ := mapOne_fresh P x (hx x (by simp))
    obtain ⟨P2, r2, g2⟩ := mapTaxa_fresh n xs _ _ P1 (fun x' h => hx x' (by simp [h]))
    exact ⟨P2, ⟨⟨a1, fun hn => g2 _ _ (b1 hn)⟩, r2⟩, fun q z h => g2 q z (g1 q z h)⟩

/-- THE CONCLUSION: two items of a non-unifying pass (of one tree, or of two trees sharing the memo) sit on one taxon afterwards
exactly when they sat on one taxon before -/
theorem passF_pair {b : Nat} {M0 : List Nat} {L0 : Nat → String} {n : Nat} {s : Store} {mf : Memo}
    (P : PassF b M0 L0 n s mf) {x x' y y' : Nat} (hx : x < b) (hx' : x' < b) (r : RF M0 mf x y) (r' : RF M0 mf x' y') :
    y = y' ↔ x = x' := by
  by_cases h : x ∈ M0
  · by_cases h' : x' ∈ M0
    · rw [r.1 h, r'.1 h']
    · obtain ⟨_, _, ge, _, _⟩ := P.memo x' y' (r'.2 h')
      have e := r.1 h
      constructor
      · intro e'; omega
      · intro e'; exact absurd (e' ▸ h) h'
  · by_cases h' : x' ∈ M0
    · obtain ⟨_, _, ge, _, _⟩ := P.memo x y (r.2 h)
      have e := r'.1 h'
      constructor
      · intro e'; omega
      · intro e'; exact absurd (e' ▸ h') h
    · constructor
      · intro e
        exact P.inj x x' y (r.2 h) (e ▸ r'.2 h')
      · intro e
        have a := r.2 h
        have c := r'.2 h'
        rw [e] at a
        rw [a] at c
        exact Option.some.inj c

/-- what `RF` says about one item: a member stays; a foreign taxon lands on a taxon the pass created — not a member before, a
member now, with the same label -/
theorem passF_item {b : Nat} {M0 : List Nat} {L0 : Nat → String} {n : Nat} {s : Store} {mf : Memo}
    (P : PassF b M0 L0 n s mf) {x y : Nat} (r : RF M0 mf x y) :
    (x ∈ M0 → y = x) ∧ (x ∉ M0 → b ≤ y ∧ y ∉ M0 ∧ y ∈ mem s n ∧ s.label y = L0 x) := by
  refine ⟨r.1, fun hn => ?_⟩
  obtain ⟨_, _, ge, hin, hl⟩ := P.memo x y (r.2 hn)
  refine ⟨ge, ?_, hin, hl⟩
  intro hM
  have := P.m0 y hM
  omega

end Pass
end DendroModel.C11
