import DendroModel.Model.C16
/-! C16 theory, part 1: Fitch's down pass on one character of a binary tree computes the minimum number of changes.

`Bt α` is a binary tree with data at the leaves; `B = Bt SS` carries one state set per leaf (one character),
`Bt Row` carries the whole row (all characters).  `fitch` uses the model's `comb`, i.e. the very function the
per-character loop of the model (`pairLoop`) applies. -/
namespace DendroModel.C16

inductive Bt (α : Type) where
  | leaf (a : α)
  | node (l r : Bt α)

abbrev B := Bt SS

namespace Bt
def map {α β : Type} (f : α → β) : Bt α → Bt β
  | .leaf a => .leaf (f a)
  | .node l r => .node (map f l) (map f r)

def All {α : Type} (p : α → Prop) : Bt α → Prop
  | .leaf a => p a
  | .node l r => All p l ∧ All p r
end Bt

/-- (state set, number of changes) of the down pass for one character -/
def fitch : B → SS × Nat
  | .leaf s => (s, 0)
  | .node l r => ((comb (fitch l).1 (fitch r).1).1, (fitch l).2 + (fitch r).2 + (comb (fitch l).1 (fitch r).1).2)

/-- an assignment of one state to every node -/
inductive A where
  | leaf (s : Nat)
  | node (s : Nat) (l r : A)

def A.root : A → Nat
  | .leaf s => s
  | .node s _ _ => s

/-- the assignment has the tree's shape and gives every leaf a member of its state set -/
def Valid : B → A → Prop
  | .leaf ss, .leaf s => ss.testBit s = true
  | .node l r, .node _ al ar => Valid l al ∧ Valid r ar
  | _, _ => False

def d (x y : Nat) : Nat := if x = y then 0 else 1

/-- number of edges whose two ends carry different states -/
def changes : A → Nat
  | .leaf _ => 0
  | .node s l r => changes l + changes r + d l.root s + d r.root s

abbrev NonEmptyLeaves (t : B) : Prop := t.All (fun s => s ≠ 0)

namespace Aux

theorem comb_cases (a b : SS) :
    (a &&& b = 0 ∧ comb a b = (a ||| b, 1)) ∨ (a &&& b ≠ 0 ∧ comb a b = (a &&& b, 0)) := by
  by_cases h : a &&& b = 0
  · left; simp [comb, h]
  · right; simp [comb, h]

theorem comb_comm (a b : SS) : comb a b = comb b a := by
  simp [comb, Nat.and_comm, Nat.or_comm]

theorem disj {a b : SS} (h : a &&& b = 0) {x : Nat} (ha : a.testBit x = true) (hb : b.testBit x = true) : False := by
  have : (a &&& b).testBit x = true := by simp [Nat.testBit_and, ha, hb]
  rw [h] at this; simp at this

theorem or_ne_zero_left {a b : SS} (h : a ≠ 0) : a ||| b ≠ 0 := by
  obtain ⟨i, hi⟩ := Nat.exists_testBit_of_ne_zero h
  intro h0
  have : (a ||| b).testBit i = true := by simp [Nat.testBit_or, hi]
  rw [h0] at this; simp at this

def pen (F : SS) (s : Nat) : Nat := if F.testBit s = true then 0 else 1

theorem key (F : SS) (x s : Nat) (h : F.testBit s = false) : pen F x + d x s ≥ 1 := by
  unfold pen d
  by_cases hx : x = s
  · subst hx; simp [h]
  · simp [hx]

theorem d_triangle (x y z : Nat) : d x z ≤ d x y + d y z := by
  unfold d
  by_cases h1 : x = y <;> by_cases h2 : y = z <;> by_cases h3 : x = z <;> simp_all

theorem d_self (x : Nat) : d x x = 0 := by simp [d]

theorem d_comm (x y : Nat) : d x y = d y x := by
  unfold d; by_cases h : x = y
  · simp [h]
  · have : ¬ y = x := fun e => h e.symm
    simp [h, this]

@[simp] theorem root_node (s : Nat) (l r : A) : (A.node s l r).root = s := rfl

theorem fitch_nonempty : ∀ t : B, NonEmptyLeaves t → (fitch t).1 ≠ 0
  | .leaf ss, h => by simpa [fitch, Bt.All] using h
  | .node l r, h => by
    have hl := fitch_nonempty l h.1
    simp only [fitch]
    rcases comb_cases (fitch l).1 (fitch r).1 with ⟨_, hc⟩ | ⟨h0, hc⟩
    · rw [hc]; exact or_ne_zero_left hl
    · rw [hc]; exact h0

theorem fitch_lower (t : B) : ∀ (a : A), Valid t a → changes a ≥ (fitch t).2 + pen (fitch t).1 a.root := by
  induction t with
  | leaf ss =>
    intro a h
    cases a with
    | leaf s => simp only [Valid] at h; simp [fitch, changes, pen, A.root, h]
    | node s al ar => simp [Valid] at h
  | node l r ihl ihr =>
    intro a h
    cases a with
    | leaf s => simp [Valid] at h
    | node s al ar =>
      simp only [Valid] at h
      have hl := ihl al h.1
      have hr := ihr ar h.2
      simp only [fitch, changes, root_node]
      rcases comb_cases (fitch l).1 (fitch r).1 with ⟨h0, hc⟩ | ⟨h0, hc⟩
      · rw [hc]
        cases hA : (fitch l).1.testBit s <;> cases hB : (fitch r).1.testBit s
        · have k1 := key _ al.root s hA
          have k2 := key _ ar.root s hB
          have : pen ((fitch l).1 ||| (fitch r).1) s = 1 := by simp [pen, Nat.testBit_or, hA, hB]
          simp only; omega
        · have k1 := key _ al.root s hA
          have : pen ((fitch l).1 ||| (fitch r).1) s = 0 := by simp [pen, Nat.testBit_or, hB]
          simp only; omega
        · have k2 := key _ ar.root s hB
          have : pen ((fitch l).1 ||| (fitch r).1) s = 0 := by simp [pen, Nat.testBit_or, hA]
          simp only; omega
        · exact (disj h0 hA hB).elim
      · rw [hc]
        have hp : pen ((fitch l).1 &&& (fitch r).1) s ≤ 1 := by unfold pen; split <;> omega
        cases hA : (fitch l).1.testBit s <;> cases hB : (fitch r).1.testBit s
        · have k1 := key _ al.root s hA
          simp only; omega
        · have k1 := key _ al.root s hA
          simp only; omega
        · have k2 := key _ ar.root s hB
          simp only; omega
        · have : pen ((fitch l).1 &&& (fitch r).1) s = 0 := by simp [pen, Nat.testBit_and, hA, hB]
          simp only; omega

theorem fitch_upper (t : B) : NonEmptyLeaves t → ∀ s, (fitch t).1.testBit s = true →
    ∃ a : A, Valid t a ∧ a.root = s ∧ changes a = (fitch t).2 := by
  induction t with
  | leaf ss =>
    intro _ s hs
    exact ⟨.leaf s, by simpa [Valid, fitch] using hs, rfl, by simp [changes, fitch]⟩
  | node l r ihl ihr =>
    intro hne s hs
    simp only [fitch] at hs ⊢
    rcases comb_cases (fitch l).1 (fitch r).1 with ⟨h0, hc⟩ | ⟨h0, hc⟩
    · rw [hc] at hs ⊢
      simp only [Nat.testBit_or, Bool.or_eq_true] at hs
      rcases hs with hA | hB
      · obtain ⟨al, hvl, hrl, hcl⟩ := ihl hne.1 s hA
        obtain ⟨y, hy⟩ := Nat.exists_testBit_of_ne_zero (fitch_nonempty r hne.2)
        obtain ⟨ar, hvr, hrr, hcr⟩ := ihr hne.2 y hy
        have hys : y ≠ s := by
          intro e; subst e; exact disj h0 hA hy
        refine ⟨.node s al ar, ⟨hvl, hvr⟩, rfl, ?_⟩
        simp [changes, hcl, hcr, hrl, hrr, d, hys]
      · obtain ⟨ar, hvr, hrr, hcr⟩ := ihr hne.2 s hB
        obtain ⟨x, hx⟩ := Nat.exists_testBit_of_ne_zero (fitch_nonempty l hne.1)
        obtain ⟨al, hvl, hrl, hcl⟩ := ihl hne.1 x hx
        have hxs : x ≠ s := by
          intro e; subst e; exact disj h0 hx hB
        refine ⟨.node s al ar, ⟨hvl, hvr⟩, rfl, ?_⟩
        simp [changes, hcl, hcr, hrl, hrr, d, hxs]
    · rw [hc] at hs ⊢
      simp only [Nat.testBit_and, Bool.and_eq_true] at hs
      obtain ⟨hA, hB⟩ := hs
      obtain ⟨al, hvl, hrl, hcl⟩ := ihl hne.1 s hA
      obtain ⟨ar, hvr, hrr, hcr⟩ := ihr hne.2 s hB
      refine ⟨.node s al ar, ⟨hvl, hvr⟩, rfl, ?_⟩
      simp [changes, hcl, hcr, hrl, hrr, d]

/-- Fitch's count is the minimum number of changes over all assignments of states to the nodes -/
theorem fitch_minimal (t : B) (h : NonEmptyLeaves t) :
    (∀ a, Valid t a → (fitch t).2 ≤ changes a) ∧ (∃ a, Valid t a ∧ changes a = (fitch t).2) := by
  constructor
  · intro a ha; have := fitch_lower t a ha; omega
  · obtain ⟨s, hs⟩ := Nat.exists_testBit_of_ne_zero (fitch_nonempty t h)
    obtain ⟨a, hv, _, hc⟩ := fitch_upper t h s hs
    exact ⟨a, hv, hc⟩

end Aux
end DendroModel.C16
