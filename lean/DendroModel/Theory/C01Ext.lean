import DendroModel.Model.C01Ext
import DendroModel.Gen.C01Kernels
import DendroModel.Theory.Lsb
import Mathlib.Tactic.Ring
import Mathlib.Tactic.NormNum
import Mathlib.Tactic.SplitIfs
/-! C01, extension round 3 — helper theory: the regenerated kernels (`Gen/C01Kernels.lean`) against the model's own definitions,
the `set_bit_index_iter` loop, multiplicity of the encoding. -/
namespace DendroModel.C01.Ext
open DendroModel DendroModel.C01

theorem pyAnd_comm (a b : Int) : pyAnd a b = pyAnd b a := by
  cases a <;> cases b <;> simp [pyAnd, Nat.and_comm, Nat.or_comm]

/-- `(b & f) ^ f` is `~b & f` (complement within the fill), for all Python ints -/
theorem pyXor_and_self (b f : Int) : pyXor (pyAnd b f) f = pyAnd (pyNot b) f := by
  rcases b with b | b <;> rcases f with f | f <;> simp only [pyAnd, pyXor, pyNot, natDiff] <;> congr 1 <;>
    (apply Nat.eq_of_testBit_eq; intro i; simp only [Nat.testBit_xor, Nat.testBit_and, Nat.testBit_or]
     cases b.testBit i <;> cases f.testBit i <;> rfl)

theorem pyAnd_ofNat (a b : Nat) : pyAnd (a : Int) (b : Int) = ((a &&& b : Nat) : Int) := rfl
theorem pyOr_ofNat (a b : Nat) : pyOr (a : Int) (b : Int) = ((a ||| b : Nat) : Int) := rfl

theorem pyAnd_neg_one (a : Nat) : pyAnd (a : Int) (-1) = (a : Int) := by
  show pyAnd (Int.ofNat a) (Int.negSucc 0) = _
  simp [pyAnd, natDiff]

theorem pyShl_one_nat (a : Nat) : pyShl (a : Int) 1 = ((2 * a : Nat) : Int) := by
  simp [pyShl]; ring

theorem pyShl_nat (k : Nat) : pyShl 1 (k : Int) = ((2 ^ k : Nat) : Int) := by
  simp [pyShl]

/-! ### `set_bit_index_iter` -/

theorem and_two_pow_ne_zero (m i : Nat) : (m &&& 2 ^ i ≠ 0) ↔ m.testBit i = true := by
  rw [Nat.and_two_pow]
  cases h : m.testBit i <;> simp

theorem testBit_false_of_lt {m i j : Nat} (h : m < 2 ^ i) (hij : i ≤ j) : m.testBit j = false :=
  Nat.testBit_lt_two_pow (Nat.lt_of_lt_of_le h (Nat.pow_le_pow_right (by decide) hij))

theorem filter_testBit_range'_nil {m i : Nat} (h : m < 2 ^ i) (n : Nat) :
    (List.range' i n).filter (fun j => m.testBit j) = [] := by
  rw [List.filter_eq_nil_iff]
  intro j hj
  have := (List.mem_range'_1.mp hj).1
  simp [testBit_false_of_lt h this]

/-- the loop, standard ordination, started at bit `i` with index `off + i`: it reports `off + j` for exactly the set bits
    `j ≥ i` of the masked value, in increasing order, whatever fuel is left (a bit beyond `i + fuel` is reported iff it is reached;
    with `sbiFuel` none is set) -/
theorem sbiLoop_std (m : Nat) (fill : Int) (off : Int) : ∀ (fuel i : Nat),
    sbiLoop (m : Int) fill true fuel (off + (i : Int)) ((2 ^ i : Nat) : Int) =
      (((List.range' i fuel).filter (fun j => m.testBit j)).map (fun (j : Nat) => off + (j : Int))) := by
  intro fuel
  induction fuel with
  | zero => intro i; simp [sbiLoop]
  | succ n ih =>
    intro i
    unfold sbiLoop
    by_cases hle : 2 ^ i ≤ m
    · have hle' : ((2 ^ i : Nat) : Int) ≤ (m : Int) := by exact_mod_cast hle
      rw [if_pos hle', pyAnd_ofNat, pyShl_one_nat]
      have e2 : 2 * 2 ^ i = 2 ^ (i + 1) := by rw [Nat.pow_succ]; ring
      have eoff : (if (true || pyAnd fill ((2 ^ i : Nat) : Int) != 0) = true then off + (i : Int) + 1 else off + (i : Int))
          = off + ((i + 1 : Nat) : Int) := by simp; ring
      rw [eoff, e2, ih (i + 1), List.range'_succ, List.filter_cons]
      by_cases hb : m.testBit i = true
      · have : (((m &&& 2 ^ i : Nat) : Int) != 0) = true := by
          have := (and_two_pow_ne_zero m i).mpr hb
          simp; exact_mod_cast this
        simp [this, hb]
      · have hb' : m.testBit i = false := by simpa using hb
        have : (((m &&& 2 ^ i : Nat) : Int) != 0) = false := by
          have h0 : m &&& 2 ^ i = 0 := by
            by_contra hne; exact hb ((and_two_pow_ne_zero m i).mp hne)
          simp [h0]
        simp [this, hb']
    · have hlt : m < 2 ^ i := by omega
      have hle' : ¬ (((2 ^ i : Nat) : Int) ≤ (m : Int)) := by
        intro h; exact hle (by exact_mod_cast h)
      rw [if_neg hle', filter_testBit_range'_nil hlt]; rfl

theorem log2_lt_two_pow (m : Nat) : m < 2 ^ (m.log2 + 1) := Nat.lt_log2_self

/-! ### multiplicity: one pair per node -/

mutual
theorem masksPost_perm : ∀ t : T, (T.masksPost t).Perm ((T.nodes t).map T.mask)
  | .node i x l s cs => by
    simp only [T.masksPost, T.nodes, List.map_cons]
    exact (List.perm_append_comm).trans (List.Perm.cons _ (masksPostL_perm cs))
theorem masksPostL_perm : ∀ cs : List T, (T.masksPostL cs).Perm ((T.nodesL cs).map T.mask)
  | [] => by simp [T.masksPostL, T.nodesL]
  | c :: cs => by
    simp only [T.masksPostL, T.nodesL, List.map_append]
    exact (masksPost_perm c).append (masksPostL_perm cs)
end

/-- `indexes_of_set_bits(s)` with the default arguments (and with `one_based`): exactly the indices of the set bits of `s`,
    increasing -/
theorem indexes_default (s : Nat) (oneBased : Bool) :
    indexesOfSetBits (s : Int) (-1) oneBased false =
      ((List.range (s.log2 + 1)).filter (fun j => s.testBit j)).map (fun (j : Nat) => (if oneBased then 1 else 0) + (j : Int)) := by
  unfold indexesOfSetBits
  simp only [pyAnd_neg_one, sbiFuel, Int.toNat_natCast, Bool.not_false]
  have h := sbiLoop_std s (-1) (if oneBased then 1 else 0) (s.log2 + 1) 0
  simp only [Nat.cast_zero, add_zero, pow_zero, Nat.cast_one] at h
  rw [h, List.range_eq_range']

/-- … as a set: an index is reported iff that bit of `s` is set -/
theorem mem_indexes_default (s j : Nat) : ((j : Int) ∈ indexesOfSetBits (s : Int) (-1) false false) ↔ s.testBit j = true := by
  rw [indexes_default, List.mem_map]
  constructor
  · rintro ⟨k, hk, e⟩
    rw [List.mem_filter] at hk
    have : k = j := by
      have e' : (0 : Int) + (k : Int) = (j : Int) := by simpa using e
      omega
    subst this; exact hk.2
  · intro h
    refine ⟨j, List.mem_filter.mpr ⟨List.mem_range.mpr ?_, h⟩, by simp⟩
    by_contra hge
    have : s < 2 ^ j := Nat.lt_of_lt_of_le (log2_lt_two_pow s) (Nat.pow_le_pow_right (by decide) (by omega))
    rw [Nat.testBit_lt_two_pow this] at h; exact Bool.noConfusion h

/-! ### the regenerated kernels against the model -/

theorem decide_eq_beq (x y : Int) : decide (x = y) = (x == y) := by by_cases h : x = y <;> simp [h]
theorem decide_cast_ne (x y : Nat) : decide ((x : Int) ≠ (y : Int)) = (x != y) := by
  by_cases h : x = y
  · subst h; simp
  · have : ¬ ((x : Int) = (y : Int)) := by omega
    simp [h, this]
theorem decide_cast_ne_zero (x : Nat) : decide ((x : Int) ≠ 0) = (x != 0) := decide_cast_ne x 0
theorem decide_cast_eq (x y : Nat) : decide ((x : Int) = (y : Int)) = (x == y) := by
  by_cases h : x = y
  · subst h; simp
  · have : ¬ ((x : Int) = (y : Int)) := by omega
    simp [h, this]
theorem pyAnd_one_left (m : Nat) : pyAnd (1 : Int) (m : Int) = ((1 &&& m : Nat) : Int) := rfl

theorem k_leafset_nested (a b f : Int) : C01Kernels.leafset_nested a f b = isNested a b f := by
  simp only [C01Kernels.leafset_nested, isNested, decide_eq_beq]

theorem k_nested_within (r m : Bool) (lf sp olf osp f : Int) :
    C01Kernels.nested_within r m lf sp olf osp f = nestedWithin r m lf sp olf osp f := by
  cases r <;> cases m <;> simp [C01Kernels.nested_within, nestedWithin, decide_eq_beq]

theorem k_normalize_lsb0 (b f lo : Int) : C01Kernels.normalize_lsb0 b f lo = normalizeConv false b f lo := by
  by_cases h : pyAnd lo b = 0 <;> simp [C01Kernels.normalize_lsb0, normalizeConv, h]

theorem k_normalize_lsb1 (b f lo : Int) : C01Kernels.normalize_lsb1 b f lo = normalizeConv true b f lo := by
  by_cases h : pyAnd lo b = 0 <;> simp [C01Kernels.normalize_lsb1, normalizeConv, h]

/-- the instance method `normalize(…, "lsb0")` and the static `normalize_bitmask` are the same function -/
theorem k_normalize_lsb0_static (b f lo : Int) : C01Kernels.normalize_lsb0 b f lo = PyBits.normalize_bitmask b f lo := by
  by_cases h : pyAnd b lo = 0 <;> simp [C01Kernels.normalize_lsb0, PyBits.normalize_bitmask, pyAnd_comm lo b, h, pyXor_and_self]

theorem k_compile_split (r : Bool) (L m : Nat) :
    splitOf r L m = C01Kernels.compile_split r (m : Int) (L : Int) (lsbOf L) := by
  cases r <;> simp [splitOf, C01Kernels.compile_split]

theorem k_lowest_relevant_bit (L : Int) (h : L ≠ 0) :
    C01Kernels.lowest_relevant_bit L = some (PyBits.least_significant_set_bit L) := by
  simp [C01Kernels.lowest_relevant_bit, h]

theorem k_compileBip (r : Bool) (L m : Int) :
    compileBip r L m = (pyAnd m L, C01Kernels.compile_split r (pyAnd m L) L (PyBits.least_significant_set_bit L)) := by
  cases r <;> simp [compileBip, C01Kernels.compile_split]

theorem k_collapse_cond (c : Bool) (r : Option Bool) (n : Nat) :
    C01Kernels.collapse_cond c (r == some true) (n : Int) = (c && r != some true && n == 2) := by
  have e : decide ((n : Int) = 2) = (n == 2) := decide_cast_eq n 2
  simp only [C01Kernels.collapse_cond, e]
  cases c <;> cases r <;> simp <;> rename_i b <;> cases b <;> simp

theorem k_suppress_cond (s : Bool) (n : Nat) : C01Kernels.suppress_cond s (n : Int) = (s && n == 1) := by
  have e : decide ((n : Int) = 1) = (n == 1) := decide_cast_eq n 1
  simp only [C01Kernels.suppress_cond, e]
  cases s <;> simp

theorem k_accumulate (c : T) (cs : List T) :
    ((T.maskL (c :: cs) : Nat) : Int) = C01Kernels.accumulate (T.mask c : Int) (T.maskL cs : Int) := by
  simp [T.maskL, C01Kernels.accumulate, pyOr_ofNat]

theorem sub_one_and (m : Nat) : pyAnd ((m : Int) - 1) (m : Int) = (((m - 1) &&& m : Nat) : Int) := by
  by_cases h : m = 0
  · subst h; decide
  · have : ((m : Int) - 1) = ((m - 1 : Nat) : Int) := by omega
    rw [this, pyAnd_ofNat]

theorem pyAnd_not_ofNat (b f : Nat) : pyAnd (pyNot (b : Int)) (f : Int) = ((Hier.sdiff f b : Nat) : Int) := rfl

theorem k_head_filter (r : Bool) (all s : Nat) :
    C01Kernels.head_filter r (s : Int) (all : Int) = (prep all r s).map Int.ofNat := by
  have c1 : (((s &&& all : Nat) : Int) = (all : Int)) ↔ (s &&& all = all) := Int.natCast_inj
  have c2 : ((((s &&& all) - 1 &&& (s &&& all) : Nat) : Int) = 0) ↔ ((s &&& all) - 1 &&& (s &&& all) = 0) := by omega
  have c3 : (((1 &&& (s &&& all) : Nat) : Int) = 0) ↔ (1 &&& (s &&& all) = 0) := by omega
  unfold C01Kernels.head_filter prep
  simp only [pyAnd_ofNat, sub_one_and, pyAnd_not_ofNat, pyAnd_one_left]
  by_cases h1 : s &&& all = all
  · simp only [ne_eq, c1, h1, not_true_eq_false, decide_false, Bool.false_and, Bool.false_eq_true, if_false, bne_self_eq_false]
    rfl
  · by_cases h2 : (s &&& all) - 1 &&& (s &&& all) = 0
    · simp only [ne_eq, c1, c2, h1, h2, not_true_eq_false, not_false_eq_true, decide_true, decide_false, Bool.and_false,
        Bool.false_eq_true, if_false, bne_self_eq_false]
      rfl
    · have b1 : (s &&& all != all) = true := by simp [h1]
      have b2 : ((s &&& all) - 1 &&& (s &&& all) != 0) = true := by simp [h2]
      simp only [ne_eq, c1, c2, c3, h1, h2, not_false_eq_true, decide_true, Bool.and_self, if_true, b1, b2]
      cases r
      · by_cases h3 : 1 &&& (s &&& all) = 0
        · have b3 : (1 &&& (s &&& all) != 0) = false := by rw [h3]; rfl
          simp only [Bool.false_eq_true, if_false, h3, not_true_eq_false, decide_false, b3]; rfl
        · have b3 : (1 &&& (s &&& all) != 0) = true := by rw [bne_iff_ne]; exact h3
          simp only [Bool.false_eq_true, if_false, h3, not_false_eq_true, decide_true, if_true, b3]; rfl
      · simp only [if_true]; rfl

theorem k_skip_not_in_root (S M : Nat) : C01Kernels.skip_not_in_root (S : Int) (M : Int) = (S &&& M != S) := by
  simp only [C01Kernels.skip_not_in_root, pyAnd_ofNat]
  exact decide_cast_ne _ _

theorem k_addSplit (t : Hier.T) (m : Nat) :
    addSplit t m = if C01Kernels.skip_not_in_root (m : Int) (Hier.mask t : Int) then t else Hier.ins m t := by
  rw [k_skip_not_in_root]; rfl

theorem k_climb_further (S M : Nat) : C01Kernels.climb_further (S : Int) (M : Int) = !(S &&& M == S) := by
  simp only [C01Kernels.climb_further, pyAnd_ofNat]
  exact decide_cast_ne _ _

theorem k_already_present (S M : Nat) : C01Kernels.already_present (S : Int) (M : Int) = (M == S) := by
  simp only [C01Kernels.already_present]
  exact decide_cast_eq _ _

theorem k_child_meets (S M : Nat) : C01Kernels.child_meets (S : Int) (M : Int) = (M &&& S != 0) := by
  simp only [C01Kernels.child_meets, pyAnd_ofNat]
  exact decide_cast_ne_zero _

theorem k_reencode_first (u : Bool) (o : TreeObj) :
    reencodeFirst u o = C01Kernels.reencode_first u (match o.stored with | some (enc, _) => !enc.isEmpty | none => false) := rfl

theorem k_all_taxa_bitmask (n : Nat) : C01Kernels.all_taxa_bitmask (n : Int) = ((allMask n : Nat) : Int) := by
  have h : 1 ≤ 2 ^ n := Nat.one_le_two_pow
  simp only [C01Kernels.all_taxa_bitmask, pyShl_nat, allMask]
  omega

theorem k_taxon_bitmask (i : Nat) : C01Kernels.taxon_bitmask (i : Int) = ((taxonBit i : Nat) : Int) := by
  simp only [C01Kernels.taxon_bitmask, pyShl_nat, taxonBit, Nat.one_shiftLeft]

/-- one turn of the `while` loop, in the regenerated tests and steps -/
theorem k_sbi_step (masked fill : Int) (std : Bool) (fuel : Nat) (idx tb : Int) :
    sbiLoop masked fill std (fuel + 1) idx tb =
      if C01Kernels.sbi_continue tb masked then
        (if C01Kernels.sbi_yield masked tb then [idx] else []) ++
          sbiLoop masked fill std fuel (if C01Kernels.sbi_advance std fill tb then idx + 1 else idx) (C01Kernels.sbi_next_bit tb)
      else [] := by
  simp [sbiLoop, C01Kernels.sbi_continue, C01Kernels.sbi_yield, C01Kernels.sbi_advance, C01Kernels.sbi_next_bit]

theorem k_sbi_init (s fill : Int) (ob om : Bool) :
    indexesOfSetBits s fill ob om =
      sbiLoop (C01Kernels.sbi_masked s fill) fill (C01Kernels.sbi_standard om) (sbiFuel (C01Kernels.sbi_masked s fill))
        (C01Kernels.sbi_first_index ob) C01Kernels.sbi_first_bit := by
  simp [indexesOfSetBits, C01Kernels.sbi_masked, C01Kernels.sbi_standard, C01Kernels.sbi_first_index, C01Kernels.sbi_first_bit]

end DendroModel.C01.Ext
