import DendroModel.Model.C15Ext
import DendroModel.Theory.FracRat
/-! C15 — the stable insertion sort of `ageorder_iter` for an order test that decides `<` on a rational key
(the real comparator `Frac.lt (age a) (age b)` through `Frac.lt_iff`), and well-formedness of every age the
driver can parse. -/
namespace DendroModel.C15.AgeAux
open DendroModel DendroModel.C15

theorem insertBy_perm (lt : T → T → Bool) (x : T) : ∀ l : List T, (insertBy lt x l).Perm (x :: l)
  | [] => by simp [insertBy]
  | y :: ys => by
    simp only [insertBy]
    split
    · exact ((insertBy_perm lt x ys).cons y).trans (List.Perm.swap x y ys)
    · exact List.Perm.refl _

theorem stableSort_perm (lt : T → T → Bool) : ∀ l : List T, (stableSort lt l).Perm l
  | [] => by simp [stableSort]
  | x :: xs => by
    have ih := stableSort_perm lt xs
    simp only [stableSort, List.foldr_cons] at *
    exact (insertBy_perm lt x _).trans (ih.cons x)

theorem insertBy_sorted (k : T → Rat) (lt : T → T → Bool) (hlt : ∀ a b, lt a b = true ↔ k a < k b) (x : T) :
    ∀ l : List T, l.Pairwise (fun a b => k a ≤ k b) → (insertBy lt x l).Pairwise (fun a b => k a ≤ k b)
  | [], _ => by simp [insertBy]
  | y :: ys, h => by
    have hy := List.pairwise_cons.mp h
    simp only [insertBy]
    split
    · rename_i hc
      have hyx : k y < k x := (hlt y x).mp hc
      refine List.pairwise_cons.mpr ⟨?_, insertBy_sorted k lt hlt x ys hy.2⟩
      intro z hz
      have hz' := (List.Perm.mem_iff (insertBy_perm lt x ys)).mp hz
      rcases List.mem_cons.mp hz' with rfl | hz''
      · exact le_of_lt hyx
      · exact hy.1 z hz''
    · rename_i hc
      have hxy : k x ≤ k y := not_lt.mp (fun h' => hc ((hlt y x).mpr h'))
      refine List.pairwise_cons.mpr ⟨?_, h⟩
      intro z hz
      rcases List.mem_cons.mp hz with rfl | hz'
      · exact hxy
      · exact le_trans hxy (hy.1 z hz')

theorem stableSort_sorted (k : T → Rat) (lt : T → T → Bool) (hlt : ∀ a b, lt a b = true ↔ k a < k b) :
    ∀ l : List T, (stableSort lt l).Pairwise (fun a b => k a ≤ k b)
  | [] => by simp [stableSort]
  | x :: xs => by
    have ih := stableSort_sorted k lt hlt xs
    simp only [stableSort, List.foldr_cons] at ih ⊢
    exact insertBy_sorted k lt hlt x _ ih

theorem insertBy_filter (k : T → Rat) (lt : T → T → Bool) (hlt : ∀ a b, lt a b = true ↔ k a < k b) (v : Rat) (x : T) :
    ∀ l : List T, (insertBy lt x l).filter (fun a => decide (k a = v)) = (x :: l).filter (fun a => decide (k a = v))
  | [] => by simp [insertBy]
  | y :: ys => by
    simp only [insertBy]
    split
    · rename_i hc
      have hyx : k y < k x := (hlt y x).mp hc
      have ih := insertBy_filter k lt hlt v x ys
      simp only [List.filter_cons] at ih ⊢
      rw [ih]
      by_cases h1 : k y = v <;> by_cases h2 : k x = v
      · exfalso; rw [h1, h2] at hyx; exact lt_irrefl _ hyx
      · simp [h1, h2]
      · simp [h1, h2]
      · simp [h1, h2]
    · rfl

theorem stableSort_filter (k : T → Rat) (lt : T → T → Bool) (hlt : ∀ a b, lt a b = true ↔ k a < k b) (v : Rat) :
    ∀ l : List T, (stableSort lt l).filter (fun a => decide (k a = v)) = l.filter (fun a => decide (k a = v))
  | [] => by simp [stableSort]
  | x :: xs => by
    have ih := stableSort_filter k lt hlt v xs
    simp only [stableSort, List.foldr_cons] at ih ⊢
    rw [insertBy_filter k lt hlt v x, List.filter_cons, List.filter_cons, ih]

theorem filter_comm' (p q : T → Bool) (l : List T) : (l.filter p).filter q = (l.filter q).filter p := by
  simp only [List.filter_filter]
  congr 1; funext a; exact Bool.and_comm _ _

/-- sort, then filter: monotone in the key, each passing element exactly once, and the elements of equal key
in their original relative order -/
theorem sort_filter_spec (k : T → Rat) (lt : T → T → Bool) (hlt : ∀ a b, lt a b = true ↔ k a < k b)
    (p : T → Bool) (l : List T) :
    ((stableSort lt l).filter p).Pairwise (fun a b => k a ≤ k b)
    ∧ ((stableSort lt l).filter p).Perm (l.filter p)
    ∧ ∀ v : Rat, ((stableSort lt l).filter p).filter (fun a => decide (k a = v))
        = (l.filter p).filter (fun a => decide (k a = v)) := by
  refine ⟨(stableSort_sorted k lt hlt l).sublist List.filter_sublist, (stableSort_perm lt l).filter p, fun v => ?_⟩
  rw [filter_comm', stableSort_filter k lt hlt v l, filter_comm']

/-- every fraction the protocol parser accepts has a non-zero denominator -/
theorem parse_wf (s : String) (f : Frac) (h : Frac.parse s = some f) : Frac.WF f := by
  unfold Frac.parse at h
  split at h
  · rename_i p _
    cases hp : p.toInt? with
    | none => rw [hp] at h; simp at h
    | some n => rw [hp] at h; simp at h; subst h; exact Frac.wf_ofInt n
  · split at h
    · split at h
      · simp at h
      · simp at h; subst h; exact Frac.wf_mk' _ _
    · simp at h
  · simp at h

theorem parsed_wf : ∀ (ss : List String) (as : List Frac), ss.mapM Frac.parse = some as → ∀ a ∈ as, Frac.WF a
  | [], as, h => by simp at h; subst h; simp
  | s :: ss, as, h => by
    rw [List.mapM_cons] at h
    cases hs : Frac.parse s with
    | none => rw [hs] at h; simp at h
    | some a0 =>
      cases hr : ss.mapM Frac.parse with
      | none => rw [hs, hr] at h; simp at h
      | some as0 =>
        rw [hs, hr] at h
        simp at h
        subst h
        intro a ha
        rcases List.mem_cons.mp ha with rfl | ha'
        · exact parse_wf s _ hs
        · exact parsed_wf ss as0 hr a ha'

theorem ageOf_wf (as : List Frac) (h : ∀ a ∈ as, Frac.WF a) (x : T) : Frac.WF (ageOf as x) := by
  unfold ageOf
  rw [List.getD_eq_getElem?_getD]
  cases hg : as[x.id]? with
  | none => simpa using Frac.wf_zero
  | some a => simpa using h a (List.mem_of_getElem? hg)

end DendroModel.C15.AgeAux
