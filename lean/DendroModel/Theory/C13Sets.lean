import DendroModel.Model.C13
import DendroModel.Theory.C13Hom
import DendroModel.Theory.C13Mono
/-! C13 — the stuttering simulation between the reader's and the iterator's treatment of a SETS-class block.

With `exclude_chars` the reader does nothing on `BEGIN SETS` and lets its scan for the next `BEGIN` run over the block; the
iterator skips the block statement by statement up to `END`.  Both end up at the same next block whenever the skipped
statements hold no token `BEGIN` and do not run into the end of input (`cleanSkip`).  Ingredients: the run-time progress
check of the stream loops is dead code (`Theory/C13Mono.lean`), a turn of the block loop depends on the tokenizer state
only through `seekBegin ts.nextU`, and `seekBegin` absorbs clean tokens. -/
namespace DendroModel.C13.Aux
open DendroModel.C13

/-! ### the progress check of the stream loops is dead code -/

theorem streamLoopR_eof {σ} (cfg : Cfg) (fl : Flags) (S : Sink σ) (c : Core) (acc : σ) (h : c.ts.eof = true) :
    streamLoopR cfg fl S c acc = .ok (c, acc) := by
  rw [streamLoopR.eq_def]; simp [h]

theorem streamLoopR_dead {σ} (cfg : Cfg) (fl : Flags) (S : Sink σ) (c : Core) (acc : σ) :
    streamLoopR cfg fl S c acc =
      if c.ts.eof then .ok (c, acc)
      else match streamStepR cfg fl S c acc with
        | .error e => .error e
        | .ok (c3, acc3) => streamLoopR cfg fl S c3 acc3 := by
  conv => lhs; rw [streamLoopR.eq_def]
  split
  · rfl
  · cases hst : streamStepR cfg fl S c acc with
    | error e => rfl
    | ok r =>
      obtain ⟨c3, acc3⟩ := r
      simp only []
      have hle := streamStepR_le cfg fl S c acc _ hst
      by_cases hp : c3.ts.rest.length < c.ts.rest.length
      · simp only [dif_pos hp]
      · simp only [dif_neg hp]
        have hd : c.ts.rest = [] := by
          by_cases hne : c.ts.rest = []
          · exact hne
          · exact absurd (hle.2 hne) hp
        have he : c3.ts.eof = true := streamStepR_dry cfg fl S c acc _ hd hst
        simp only [he, if_true]
        exact (streamLoopR_eof cfg fl S c3 acc3 he).symm

/-! ### the yielder's turn: same bounds -/

theorem treesBlockY_le (cfg : Cfg) (fl : Flags) (c : Core) (out : List Tree) (r : Core × List Tree)
    (h : treesBlockY cfg fl c out = .ok r) : r.1.ts.rest.length ≤ c.ts.rest.length := by
  rw [treesBlockY_eq] at h
  exact treesBlockR_le cfg fl pseudoSink c out r h

theorem streamStepY_le_afterBegin (cfg : Cfg) (fl : Flags) (c : Core) (out : List Tree) (r : Core × List Tree)
    (h : streamStepY cfg fl c out = .ok r) : r.1.ts.rest.length ≤ (afterBegin c.ts).rest.length := by
  unfold streamStepY at h
  simp only [] at h
  show r.1.ts.rest.length ≤ ((seekBegin c.ts.nextU).clear.nextU).rest.length
  split at h
  · cases hp : parseTaxaBlock fl { c with ts := (seekBegin c.ts.nextU).clear.nextU } with
    | error e => simp [hp, Except.map] at h
    | ok c' =>
      simp only [hp, Except.map] at h
      cases h
      exact parseTaxaBlock_le _ _ _ hp
  · split at h
    · exact treesBlockY_le cfg fl _ _ _ h
    · split at h
      · cases h
      · cases h; exact consumeToEndOfBlock_le _ _

theorem streamStepY_le (cfg : Cfg) (fl : Flags) (c : Core) (out : List Tree) (r : Core × List Tree)
    (h : streamStepY cfg fl c out = .ok r) :
    r.1.ts.rest.length ≤ c.ts.rest.length ∧ (c.ts.rest ≠ [] → r.1.ts.rest.length < c.ts.rest.length) := by
  have a := streamStepY_le_afterBegin cfg fl c out r h
  constructor
  · exact Nat.le_trans a (afterBegin_le _)
  · intro hne
    exact Nat.lt_of_le_of_lt a (afterBegin_lt _ hne)

theorem streamStepY_dry (cfg : Cfg) (fl : Flags) (c : Core) (out : List Tree) (r : Core × List Tree)
    (hd : c.ts.rest = []) (h : streamStepY cfg fl c out = .ok r) : r.1.ts.eof = true := by
  obtain ⟨hc, he, _⟩ := afterBegin_dry c.ts hd
  unfold afterBegin at hc he
  unfold streamStepY at h
  simp only [hc] at h
  simp at h
  cases h
  simp only [consumeToEndOfBlock]
  rw [consumeLoop_eof _ _ he]
  exact he

theorem streamLoopY_eof (cfg : Cfg) (fl : Flags) (c : Core) (out : List Tree) (h : c.ts.eof = true) :
    streamLoopY cfg fl c out = .ok (c, out) := by
  rw [streamLoopY.eq_def]; simp [h]

theorem streamLoopY_dead (cfg : Cfg) (fl : Flags) (c : Core) (out : List Tree) :
    streamLoopY cfg fl c out =
      if c.ts.eof then .ok (c, out)
      else match streamStepY cfg fl c out with
        | .error e => .error e
        | .ok (c3, out3) => streamLoopY cfg fl c3 out3 := by
  conv => lhs; rw [streamLoopY.eq_def]
  split
  · rfl
  · cases hst : streamStepY cfg fl c out with
    | error e => rfl
    | ok r =>
      obtain ⟨c3, out3⟩ := r
      simp only []
      have hle := streamStepY_le cfg fl c out _ hst
      by_cases hp : c3.ts.rest.length < c.ts.rest.length
      · simp only [dif_pos hp]
      · simp only [dif_neg hp]
        have hd : c.ts.rest = [] := by
          by_cases hne : c.ts.rest = []
          · exact hne
          · exact absurd (hle.2 hne) hp
        have he : c3.ts.eof = true := streamStepY_dry cfg fl c out _ hd hst
        simp only [he, if_true]
        exact (streamLoopY_eof cfg fl c3 out3 he).symm

/-! ### `seekBegin` absorbs clean tokens -/

/-- the same unread input: what the next `__next__` of the tokenizer sees -/
def SameIn (s s' : TS) : Prop := s.rest = s'.rest ∧ s.cap = s'.cap ∧ s.tail = s'.tail

theorem nextU_congr {s s' : TS} (h : SameIn s s') : s.nextU = s'.nextU := by
  obtain ⟨h1, h2, h3⟩ := h
  cases s; cases s'
  simp only at h1 h2 h3
  subst h1 h2 h3
  rename_i rest tail cur quoted cap eof cur' quoted' eof'
  cases rest <;> simp [TS.nextU, TS.step]

/-- `s'` lies `pre` further down the same stream as `s` (no step ran dry in between) -/
def Adv (s s' : TS) (pre : List Tok) : Prop :=
  s.rest = pre ++ s'.rest ∧ s'.cap = s.cap ++ pre.flatMap (·.coms) ∧ s'.tail = s.tail

theorem nextU_cur_dry (x : TS) (h : x.rest = []) : x.nextU.cur = none := by
  unfold TS.nextU TS.step; rw [h]; simp

theorem seekBegin_none (s : TS) (h : s.cur = none) : seekBegin s = s := by
  rw [seekBegin.eq_def]; simp [h]

theorem seekBegin_absorb_one (s : TS) (t : Tok) (r : List Tok) (hr : s.rest = t :: r) (hc : cleanTok t = true) :
    seekBegin s.nextU = seekBegin s.nextU.nextU := by
  have hcur : s.nextU.cur = some t.text.toUpper := by simp [TS.nextU, TS.step, hr]
  have heof : s.nextU.eof = t.eof := by simp [TS.nextU, TS.step, hr]
  simp only [cleanTok, Bool.and_eq_true, bne_iff_ne, ne_eq, Bool.not_eq_true'] at hc
  conv => lhs; rw [seekBegin.eq_def]
  have hcond : (s.nextU.cur != none && s.nextU.cur != some "BEGIN" && !s.nextU.eof) = true := by
    simp [hcur, heof, hc.1, hc.2]
  simp only [hcond, if_true]
  split
  · rename_i hnil
    have : s.nextU.nextU.cur = none := nextU_cur_dry _ hnil
    exact (seekBegin_none _ this).symm
  · rfl

theorem seekBegin_absorb : ∀ (pre : List Tok) (s s' : TS), Adv s s' pre → pre.all cleanTok = true →
    seekBegin s.nextU = seekBegin s'.nextU := by
  intro pre
  induction pre with
  | nil =>
    intro s s' h _
    obtain ⟨h1, h2, h3⟩ := h
    have : SameIn s s' := ⟨by simpa using h1, by simpa using h2.symm, h3.symm⟩
    rw [nextU_congr this]
  | cons t p ih =>
    intro s s' h hc
    obtain ⟨h1, h2, h3⟩ := h
    simp only [List.all_cons, Bool.and_eq_true] at hc
    have hr : s.rest = t :: (p ++ s'.rest) := by simpa using h1
    rw [seekBegin_absorb_one s t _ hr hc.1]
    apply ih s.nextU s' _ hc.2
    refine ⟨?_, ?_, ?_⟩
    · simp [TS.nextU_rest, hr]
    · simp [TS.nextU, TS.step, hr, h2, List.flatMap_cons, List.append_assoc]
    · simp [TS.nextU, TS.step, hr, h3]

/-! ### what the skipping functions do to the stream: a sequence of `__next__` calls -/

inductive Steps : TS → TS → Prop
  | refl (s : TS) : Steps s s
  | next {s s' : TS} : Steps s.next s' → Steps s s'
  | nextU {s s' : TS} : Steps s.nextU s' → Steps s s'

theorem Steps.trans {a b c : TS} (h1 : Steps a b) (h2 : Steps b c) : Steps a c := by
  induction h1 with
  | refl s => exact h2
  | next _ ih => exact Steps.next (ih h2)
  | nextU _ ih => exact Steps.nextU (ih h2)

theorem skipSemi_steps : ∀ (n : Nat) (s : TS), s.rest.length = n → Steps s (skipSemi s) := by
  intro n
  induction n using Nat.strongRecOn with
  | _ n ih =>
    intro s hn
    rw [skipSemi.eq_def]
    split
    · exact Steps.next (Steps.refl _)
    · rename_i h
      simp only []
      split
      · exact Steps.next (Steps.refl _)
      · exact Steps.next (ih _ (hn ▸ TS.next_lt s h) s.next rfl)

theorem consumeLoop_steps : ∀ (n : Nat) (ts : TS) (tok : Option String), ts.rest.length = n → Steps ts (consumeLoop ts tok) := by
  intro n
  induction n using Nat.strongRecOn with
  | _ n ih =>
    intro ts tok hn
    rw [consumeLoop.eq_def]
    split
    · exact Steps.refl _
    · simp only []
      have h0 : Steps ts (skipSemi ts).nextU :=
        Steps.trans (skipSemi_steps _ ts rfl) (Steps.nextU (Steps.refl _))
      split
      · rename_i hp
        exact Steps.trans h0 (ih _ (hn ▸ hp) _ _ rfl)
      · exact h0

theorem consumeToEndOfBlock_steps (ts : TS) (tok : Option String) : Steps ts (consumeToEndOfBlock ts tok) := by
  unfold consumeToEndOfBlock; exact consumeLoop_steps _ _ _ rfl

/-- once the stream ran dry every later state is at end of input -/
theorem Steps.dry_stays {x s' : TS} (h : Steps x s') : x.rest = [] → x.eof = true → s'.eof = true := by
  induction h with
  | refl s => intro _ h2; exact h2
  | next _ ih =>
    intro h1 _
    apply ih
    · simp [TS.next_rest, h1]
    · simp [TS.next, TS.step, h1]
  | nextU _ ih =>
    intro h1 _
    apply ih
    · simp [TS.nextU_rest, h1]
    · simp [TS.nextU, TS.step, h1]

theorem adv_next (s : TS) (t : Tok) (r : List Tok) (hr : s.rest = t :: r) : Adv s s.next [t] := by
  refine ⟨?_, ?_, ?_⟩
  · simp [TS.next_rest, hr]
  · simp [TS.next, TS.step, hr]
  · simp [TS.next, TS.step, hr]

theorem adv_nextU (s : TS) (t : Tok) (r : List Tok) (hr : s.rest = t :: r) : Adv s s.nextU [t] := by
  refine ⟨?_, ?_, ?_⟩
  · simp [TS.nextU_rest, hr]
  · simp [TS.nextU, TS.step, hr]
  · simp [TS.nextU, TS.step, hr]

theorem Adv.trans {a b c : TS} {p q : List Tok} (h1 : Adv a b p) (h2 : Adv b c q) : Adv a c (p ++ q) := by
  obtain ⟨a1, a2, a3⟩ := h1
  obtain ⟨b1, b2, b3⟩ := h2
  refine ⟨?_, ?_, ?_⟩
  · rw [a1, b1, List.append_assoc]
  · rw [b2, a2, List.flatMap_append, List.append_assoc]
  · rw [b3, a3]

/-- a sequence of `__next__` calls that does not end at end of input never ran dry: it just moved down the stream -/
theorem Steps.adv {s s' : TS} (h : Steps s s') : s'.eof = false → ∃ pre, Adv s s' pre := by
  induction h with
  | refl s => intro _; exact ⟨[], by simp [Adv]⟩
  | @next s s' hst ih =>
    intro he
    obtain ⟨q, hq⟩ := ih he
    cases hr : s.rest with
    | nil =>
      have : s'.eof = true := hst.dry_stays (by simp [TS.next_rest, hr]) (by simp [TS.next, TS.step, hr])
      rw [this] at he; cases he
    | cons t r => exact ⟨[t] ++ q, (adv_next s t r hr).trans hq⟩
  | @nextU s s' hst ih =>
    intro he
    obtain ⟨q, hq⟩ := ih he
    cases hr : s.rest with
    | nil =>
      have : s'.eof = true := hst.dry_stays (by simp [TS.nextU_rest, hr]) (by simp [TS.nextU, TS.step, hr])
      rw [this] at he; cases he
    | cons t r => exact ⟨[t] ++ q, (adv_nextU s t r hr).trans hq⟩

/-- the executable check `cleanSkip` yields the absorption -/
theorem cleanSkip_absorb (a b : TS) (hst : Steps a b) (ha : a.eof = false) (hc : cleanSkip a b = true) :
    b.eof = false ∧ seekBegin a.nextU = seekBegin b.nextU := by
  simp only [cleanSkip, ha, Bool.false_or, Bool.and_eq_true, Bool.not_eq_true'] at hc
  obtain ⟨hb, hall⟩ := hc
  obtain ⟨pre, hadv⟩ := hst.adv hb
  have hpre : a.rest.take (a.rest.length - b.rest.length) = pre := by
    rw [hadv.1]; simp
  rw [hpre] at hall
  exact ⟨hb, seekBegin_absorb pre a b hadv hall⟩

/-! ### a turn of the block loop sees the tokenizer only through `seekBegin ts.nextU` -/

theorem streamStepR_congr {σ} (cfg : Cfg) (fl : Flags) (S : Sink σ) (c : Core) (s s' : TS) (acc : σ)
    (h : seekBegin s.nextU = seekBegin s'.nextU) :
    streamStepR cfg fl S { c with ts := s } acc = streamStepR cfg fl S { c with ts := s' } acc := by
  unfold streamStepR
  simp only [h]

theorem streamLoopR_absorb {σ} (cfg : Cfg) (fl : Flags) (S : Sink σ) (c : Core) (s s' : TS) (acc : σ)
    (hs : s.eof = false) (hs' : s'.eof = false) (h : seekBegin s.nextU = seekBegin s'.nextU) :
    streamLoopR cfg fl S { c with ts := s } acc = streamLoopR cfg fl S { c with ts := s' } acc := by
  have e1 := streamLoopR_dead cfg fl S { c with ts := s } acc
  have e2 := streamLoopR_dead cfg fl S { c with ts := s' } acc
  rw [e1, e2, streamStepR_congr cfg fl S c s s' acc h]
  simp [hs, hs']

/-! ### the iterator's stream loop = the reader's, SETS-class blocks included -/

theorem streamStepY_sets (cfg : Cfg) (fl : Flags) (c : Core) (out : List Tree) (hk : isSetsKw (afterBegin c.ts).cur = true) :
    streamStepY cfg fl c out =
      .ok ({ c with ts := consumeToEndOfBlock (afterBegin c.ts) (afterBegin c.ts).cur }, out) := by
  unfold streamStepY
  unfold afterBegin at hk ⊢
  generalize hcur : ((seekBegin c.ts.nextU).clear.nextU).cur = cur at *
  simp only [isSetsKw, Bool.or_eq_true, beq_iff_eq] at hk
  rcases hk with (hk | hk) | hk <;> subst hk <;> simp [hcur]

theorem streamStepR_sets {σ} (cfg : Cfg) (fl : Flags) (S : Sink σ) (hx : fl.excludeChars = true) (c : Core) (acc : σ)
    (hk : isSetsKw (afterBegin c.ts).cur = true) :
    streamStepR cfg fl S c acc = .ok ({ c with ts := afterBegin c.ts }, acc) := by
  unfold streamStepR
  unfold afterBegin at hk ⊢
  generalize hcur : ((seekBegin c.ts.nextU).clear.nextU).cur = cur at *
  have hk' := hk
  simp only [isSetsKw, Bool.or_eq_true, beq_iff_eq] at hk
  rcases hk with (hk | hk) | hk <;> subst hk <;> simp [hcur, hx, isSetsKw]

theorem streamLoopY_eq_clean (cfg : Cfg) (fl : Flags) (hx : fl.excludeChars = true) :
    ∀ (n : Nat) (c : Core) (out : List Tree), c.ts.rest.length = n → setsClean cfg fl c out = true →
      streamLoopY cfg fl c out = streamLoopR cfg fl pseudoSink c out := by
  intro n
  induction n using Nat.strongRecOn with
  | _ n ih =>
    intro c out hn hs
    rw [streamLoopY_dead, streamLoopR_dead]
    rw [setsClean.eq_def] at hs
    by_cases heof : c.ts.eof = true
    · simp [heof]
    · simp only [heof, Bool.false_eq_true, if_false, Bool.and_eq_true] at hs ⊢
      obtain ⟨hblock, hrest⟩ := hs
      by_cases hk : isSetsKw (afterBegin c.ts).cur = true
      · -- a SETS-class block: the iterator skips it, the reader leaves it to its next scan for BEGIN
        simp only [hk, if_true] at hblock
        have hY := streamStepY_sets cfg fl c out hk
        have hR := streamStepR_sets cfg fl pseudoSink hx c out hk
        rw [hY, hR]
        simp only [hY] at hrest
        simp only []
        have hne : c.ts.rest ≠ [] := by
          intro hd
          have := (afterBegin_dry c.ts hd).1
          rw [this] at hk
          simp [isSetsKw] at hk
        have hlt : (consumeToEndOfBlock (afterBegin c.ts) (afterBegin c.ts).cur).rest.length < c.ts.rest.length :=
          Nat.lt_of_le_of_lt (consumeToEndOfBlock_le _ _) (afterBegin_lt _ hne)
        have hrest' : setsClean cfg fl { c with ts := consumeToEndOfBlock (afterBegin c.ts) (afterBegin c.ts).cur } out = true := by
          simpa [hlt] using hrest
        rw [ih _ (hn ▸ hlt) _ _ rfl hrest']
        -- the reader from the skipped-to position = the reader from `BEGIN SETS`
        by_cases ha : (afterBegin c.ts).eof = true
        · have : consumeToEndOfBlock (afterBegin c.ts) (afterBegin c.ts).cur = afterBegin c.ts := by
            unfold consumeToEndOfBlock; exact consumeLoop_eof _ _ ha
          rw [this]
        · have ha' : (afterBegin c.ts).eof = false := by simpa using ha
          obtain ⟨hb, habs⟩ := cleanSkip_absorb _ _ (consumeToEndOfBlock_steps (afterBegin c.ts) (afterBegin c.ts).cur) ha' hblock
          exact (streamLoopR_absorb cfg fl pseudoSink c _ _ out ha' hb habs).symm
      · have hk' : isSetsKw (dispatchTok c) = false := by simpa [dispatchTok, afterBegin] using hk
        rw [streamStepY_eq cfg fl hx c out hk']
        cases hst : streamStepR cfg fl pseudoSink c out with
        | error e => rfl
        | ok r =>
          obtain ⟨c3, out3⟩ := r
          simp only []
          have hstY : streamStepY cfg fl c out = .ok (c3, out3) := by rw [streamStepY_eq cfg fl hx c out hk']; exact hst
          simp only [hstY] at hrest
          by_cases hp : c3.ts.rest.length < c.ts.rest.length
          · simp only [dif_pos hp] at hrest
            exact ih _ (hn ▸ hp) _ _ rfl hrest
          · have hle := streamStepR_le cfg fl pseudoSink c out _ hst
            have hd : c.ts.rest = [] := by
              by_cases hne : c.ts.rest = []
              · exact hne
              · exact absurd (hle.2 hne) hp
            have he : c3.ts.eof = true := streamStepR_dry cfg fl pseudoSink c out _ hd hst
            rw [streamLoopY_eof _ _ _ _ he, streamLoopR_eof _ _ _ _ _ he]

end DendroModel.C13.Aux
