import DendroModel.Model.C10
import DendroModel.Basic.PyInt
/-! C10 — keyword forms: the `index` argument of `bitmask_taxa_list` shifts the mask; the loop of `label_taxon_map` keeps the last match. -/
namespace DendroModel.C10.Aux
open DendroModel DendroModel.C10

/-- `&` of the translator's operator mapping on two non-negative integers -/
theorem pyAnd_natCast (m n : Nat) : pyAnd (m : Int) (n : Int) = ((m &&& n : Nat) : Int) := rfl

theorem btl_double (a2t : Map) (x j : Nat) : btl a2t (2 * x) j = btl a2t x (j + 1) := by
  rw [btl]
  by_cases h0 : x = 0
  · subst h0; simp [btl]
  · have h1 : 2 * x ≠ 0 := by omega
    have h2 : (2 * x) % 2 ≠ 1 := by omega
    have h3 : 2 * x / 2 = x := by omega
    simp [h1, h3]

theorem btl_shift (a2t : Map) (m : Nat) : ∀ (k j : Nat), btl a2t (m <<< k) j = btl a2t m (j + k) := by
  intro k
  induction k with
  | zero => intro j; simp
  | succ k ih =>
    intro j
    rw [Nat.shiftLeft_succ, btl_double, ih]
    congr 1; omega

theorem scanLast_eq (p : Nat → Bool) : ∀ (l : List Nat) (acc : Option Nat),
    scanLast p l acc = match (l.filter p).getLast? with | some t => some t | none => acc := by
  intro l
  induction l with
  | nil => intro acc; simp [scanLast]
  | cons x xs ih =>
    intro acc
    unfold scanLast
    rw [ih]
    by_cases h : p x = true
    · simp only [h, if_true, List.filter_cons_of_pos]
      cases hx : (xs.filter p).getLast? with
      | none =>
        have : xs.filter p = [] := List.getLast?_eq_none_iff.1 hx
        simp [this]
      | some t =>
        have hne : xs.filter p ≠ [] := by intro e; simp [e] at hx
        simp [List.getLast?_cons_of_ne_nil hne, hx]
    · simp [h]

end DendroModel.C10.Aux
