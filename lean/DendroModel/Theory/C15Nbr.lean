import DendroModel.Model.C15Nbr
import DendroModel.Theory.C15Build
import DendroModel.Theory.C15Ptr
import DendroModel.Theory.C15Ext
import DendroModel.Theory.C15Apply
/-! C15 — lemmas about the one-step iterators and first-hit searches (`Model/C15Nbr.lean`): the child loops are filters,
`firstWhere` is the head of a filter and a first hit, and the pointer-level readings of `sibling_nodes` /
`adjacent_nodes` over the parent array agree with the tree-level ones on every faithful, linked tree. -/
namespace DendroModel.C15.NbrAux
open DendroModel DendroModel.C15 DendroModel.C15.BuildAux DendroModel.C15.PtrAux DendroModel.C15.ExtAux
  DendroModel.C15.ApplyAux

theorem childRun_eq (keep : T → Bool) : ∀ l : List T, childRun keep l = l.filter keep
  | [] => rfl
  | c :: cs => by
    simp only [childRun, childRun_eq keep cs, List.filter_cons]
    cases keep c <;> simp

theorem childEdgeRun_eq (keep : E → Bool) : ∀ l : List T,
    childEdgeRun keep l = (l.filter (fun n => keep ⟨n⟩)).map E.mk
  | [] => rfl
  | c :: cs => by
    simp only [childEdgeRun, childEdgeRun_eq keep cs, List.filter_cons]
    cases keep ⟨c⟩ <;> simp

theorem firstWhere_eq (p : T → Bool) : ∀ l : List T, firstWhere p l = (l.filter p).head?
  | [] => rfl
  | x :: xs => by
    simp only [firstWhere, List.filter_cons]
    cases p x <;> simp [firstWhere_eq p xs]

/-- the head of a filtered list is a first hit: it passes, and nothing before it does -/
theorem head?_filter_some (p : T → Bool) : ∀ (l : List T) (x : T), (l.filter p).head? = some x →
    ∃ l1 l2, l = l1 ++ x :: l2 ∧ p x = true ∧ ∀ y ∈ l1, p y = false
  | [], x, h => by simp at h
  | a :: l, x, h => by
    by_cases ha : p a = true
    · simp only [List.filter_cons, ha, if_true, List.head?_cons, Option.some.injEq] at h
      subst h
      exact ⟨[], l, rfl, ha, by simp⟩
    · simp only [List.filter_cons, ha] at h
      obtain ⟨l1, l2, hl, hx, hb⟩ := head?_filter_some p l x (by simpa using h)
      refine ⟨a :: l1, l2, by simp [hl], hx, ?_⟩
      intro y hy
      rcases List.mem_cons.mp hy with rfl | hy
      · simpa using ha
      · exact hb y hy

theorem head?_filter_none (p : T → Bool) (l : List T) : (l.filter p).head? = none ↔ ∀ y ∈ l, p y = false := by
  rw [List.head?_eq_none_iff, List.filter_eq_nil_iff]
  constructor
  · intro h y hy; simpa using h y hy
  · intro h y hy; simp [h y hy]

theorem map_id_filter_ne (self : Nat) : ∀ l : List T,
    (l.filter (fun c => c.id != self)).map T.id = (l.map T.id).filter (fun k => k != self)
  | [] => rfl
  | c :: cs => by
    simp only [List.filter_cons, List.map_cons]
    cases h : (c.id != self) <;> simp [map_id_filter_ne self cs]

/-- both pointer-level readings on a linked tree whose nodes list exactly the children the array gives them -/
theorem nbr_ptr (par : Array Int) (tree : T)
    (hl : ∀ b ∈ T.nodes tree, ∀ x ∈ b.cs, par[x.id]! = (b.id : Int)) (hr : par[tree.id]! = -1)
    (hfaith : ∀ b ∈ T.nodes tree, b.cs.map T.id = kidsOf par b.id)
    (start : Nat) (self : T) (hf : tree.find? start = some self) :
    (siblingNodes tree start false).map (List.map T.id) = some (siblingPtr par start)
    ∧ (adjacentNodes tree start false).map (List.map T.id) = some (adjacentPtr par start) := by
  have hid : self.id = start := find?_id start tree self hf
  cases hp : ancPath start tree with
  | none => rw [ancPath_none start tree hp] at hf; cases hf
  | some p =>
    obtain ⟨hne, hhead, hlast, hch⟩ := ancPath_some start tree p hp
    cases p with
    | nil => exact absurd rfl hne
    | cons a up =>
      simp only [List.head?_cons, hf, Option.some.injEq] at hhead
      subst hhead
      have hmem := upChain_mem tree up a hch hlast
      have hself := hfaith a (hmem a (by simp))
      cases up with
      | nil =>
        simp at hlast
        subst hlast
        have hneg : par[start]! < 0 := by rw [← hid, hr]; omega
        simp [siblingNodes, adjacentNodes, hp, siblingPtr, adjacentPtr, hneg, hself, hid]
      | cons b r =>
        have hpc : par[a.id]! = (b.id : Int) := hl b (hmem b (by simp)) a hch.1
        have hb := hfaith b (hmem b (by simp))
        rw [hid] at hpc
        have hnn : ¬ ((b.id : Int) < 0) := by omega
        constructor
        · simp only [siblingNodes, hp, Option.map_some, siblingPtr, hpc, hnn, if_false, Int.toNat_natCast,
            Bool.false_eq_true, Option.some.injEq]
          rw [map_id_filter_ne, hb, hid]
        · simp only [adjacentNodes, hp, Option.map_some, adjacentPtr, hpc, hnn, if_false, Int.toNat_natCast,
            Bool.false_eq_true, Option.some.injEq, List.map_append, hself, hid]
          simp

end DendroModel.C15.NbrAux
