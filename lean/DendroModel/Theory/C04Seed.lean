import DendroModel.Theory.C04Bridge
import Mathlib.Logic.Relation
/-! C04 — paths of seed moves on mask-labelled trees: every step keeps well-formedness, the leafset and the set of
normalised split masks, hence so does any path (the iteration `reseed_at` performs). -/
namespace DendroModel.Hier

theorem goodL_split : ∀ (pre : List T) (x : T) (post : List T), GoodL (pre ++ x :: post) →
    GoodL (pre ++ post) ∧ Good x ∧ mask x ≠ 0 ∧ mask x &&& maskL (pre ++ post) = 0
  | [], x, post, h => by
    simp only [List.nil_append, GoodL] at h ⊢
    exact ⟨h.2.2.2, h.1, h.2.1, h.2.2.1⟩
  | c :: pre, x, post, h => by
    simp only [List.cons_append, GoodL] at h
    obtain ⟨hc, hc0, hcd, hrest⟩ := h
    obtain ⟨ih1, ih2, ih3, ih4⟩ := goodL_split pre x post hrest
    have hcd' := (and_eq_zero_iff _ _).mp hcd
    rw [maskL_append, bits_or] at hcd'
    simp only [maskL, bits_or] at hcd'
    have d1 : Disjoint (bits (mask c)) (bits (maskL pre)) := Set.disjoint_of_subset_right Set.subset_union_left hcd'
    have d2 : Disjoint (bits (mask c)) (bits (mask x)) :=
      Set.disjoint_of_subset_right (Set.subset_union_left.trans Set.subset_union_right) hcd'
    have d3 : Disjoint (bits (mask c)) (bits (maskL post)) :=
      Set.disjoint_of_subset_right (Set.subset_union_right.trans Set.subset_union_right) hcd'
    refine ⟨?_, ih2, ih3, ?_⟩
    · simp only [List.cons_append, GoodL]
      refine ⟨hc, hc0, ?_, ih1⟩
      rw [and_eq_zero_iff, maskL_append, bits_or, Set.disjoint_union_right]
      exact ⟨d1, d3⟩
    · have ih4' := (and_eq_zero_iff _ _).mp ih4
      rw [and_eq_zero_iff]
      simp only [List.cons_append, maskL, bits_or]
      rw [Set.disjoint_union_right]
      exact ⟨d2.symm, ih4'⟩

/-- one seed move: the seed's child `node ds` becomes the seed, the old seed (which keeps at least one other child) hangs
    below it as its last child -/
inductive SeedStep : T → T → Prop
  | mk (pre ds post : List T) (h : pre ++ post ≠ []) : SeedStep (.node (pre ++ .node ds :: post)) (invertAt pre ds post)

/-- every clade, normalised within the tree's own leafset on bit mask `lo` (the seed's own clade included) -/
def nsplits (lo : Nat) (t : T) : List Nat := (clades t).map (norm (mask t) lo)

theorem step_good {a b : T} (h : SeedStep a b) (hg : Good a) : Good b ∧ mask b = mask a := by
  cases h with
  | mk pre ds post hne =>
    simp only [Good] at hg
    obtain ⟨h1, h2, h3, h4⟩ := goodL_split pre (.node ds) post hg
    refine ⟨?_, ?_⟩
    · simp only [invertAt, Good]
      simp only [Good] at h2
      apply goodL_snoc h2 (by simpa [Good] using h1)
      · simp only [mask]
        match hpp : pre ++ post, hne with
        | c :: rest, _ =>
          rw [hpp] at h1
          simp only [GoodL] at h1
          exact maskL_ne_zero_of_mem' (List.mem_cons_self) h1.2.1
      · intro c hc
        have hsub := bits_maskL_subset_of_mem hc
        have hd := (and_eq_zero_iff _ _).mp h4
        simp only [mask] at hd ⊢
        rw [and_eq_zero_iff]
        exact Set.disjoint_of_subset_left hsub hd
    · simp only [invertAt, mask]; exact maskL_invert pre ds post
where
  maskL_ne_zero_of_mem' {cs : List T} {c : T} (hc : c ∈ cs) (h0 : mask c ≠ 0) : maskL cs ≠ 0 := by
    intro hz
    apply h0
    apply bits_inj
    have := bits_maskL_subset_of_mem hc
    rw [hz, bits_zero] at this
    rw [bits_zero]; exact Set.subset_empty_iff.mp this

theorem step_nsplits {a b : T} (h : SeedStep a b) (hg : Good a) (lo : Nat) (hlo : bits lo ⊆ bits (mask a))
    (hsingle : ∀ x, bits lo ⊆ bits x ∨ Disjoint (bits lo) (bits x)) (hne : lo ≠ 0) :
    ∀ s, s ∈ nsplits lo b ↔ s ∈ nsplits lo a := by
  have hm := (step_good h hg).2
  cases h with
  | mk pre ds post hpp =>
    intro s
    simp only [Good] at hg
    have hinv := usplits_invert lo pre ds post hg (by simpa [mask] using hlo) hsingle hne s
    simp only [nsplits, hm]
    simp only [usplits, invertAt, maskL_invert, List.mem_map] at hinv
    simp only [invertAt, clades, mask, maskL_invert, List.map_cons, List.mem_cons, List.mem_map]
    constructor
    · rintro (h | h)
      · exact Or.inl h
      · exact Or.inr (hinv.mp h)
    · rintro (h | h)
      · exact Or.inl h
      · exact Or.inr (hinv.mpr h)

/-- a path of seed moves keeps well-formedness, the leafset and the set of normalised splits -/
theorem path_nsplits {a b : T} (h : Relation.ReflTransGen SeedStep a b) (hg : Good a) (lo : Nat)
    (hlo : bits lo ⊆ bits (mask a)) (hsingle : ∀ x, bits lo ⊆ bits x ∨ Disjoint (bits lo) (bits x)) (hne : lo ≠ 0) :
    Good b ∧ mask b = mask a ∧ ∀ s, s ∈ nsplits lo b ↔ s ∈ nsplits lo a := by
  induction h with
  | refl => exact ⟨hg, rfl, fun _ => Iff.rfl⟩
  | tail _ hstep ih =>
    obtain ⟨g1, m1, s1⟩ := ih
    obtain ⟨g2, m2⟩ := step_good hstep g1
    refine ⟨g2, m2.trans m1, fun s => ?_⟩
    rw [step_nsplits hstep g1 lo (by rw [m1]; exact hlo) hsingle hne s, s1 s]

end DendroModel.Hier
