import Mathlib.Algebra.BigOperators.Group.Finset.Basic
import Mathlib.Algebra.Order.BigOperators.Group.Finset
import Mathlib.Algebra.Order.Field.Basic
import Mathlib.Data.Finset.Max
import Mathlib.Data.Finset.Prod
import Mathlib.Tactic.Linarith
import Mathlib.Tactic.Ring
/-! C14 — the neighbour-joining consistency lemma (Saitou–Nei / Studier–Keppler) as a statement about finite metrics.

On a finite set of labels with a symmetric dissimilarity that satisfies the *strict four-point condition* (every four different
labels form a resolved quartet), a pair `f, g` that minimises the Q-criterion `(N-2)·D f g − R f − R g` is a cherry: every other two
labels `k, l` are on the same side of it, `D f k + D g l = D f l + D g k`.

The proof needs no tree.  Order the other labels by `p m = D f m − D g m` (where the path to `m` leaves the path `f … g`).  If `p` is
not constant, the labels at which `p` is smallest (`S₁`, nearest `f`) and those at which it is largest are disjoint, so one of the two
groups — by the symmetry `f ↔ g`, say `S₁` — holds at most half of the other labels.  If `S₁ = {k}`, every term of
`Q(f,g) − Q(f,k) = ∑ₘ (D f g + D k m − D f k − D g m)` is positive.  Otherwise take `a ≠ b` in `S₁` that maximise
`D f a + D g b − D a b` (the deepest pair of the group): in `Q(f,g) − Q(a,b) = ∑ₘ (D f g − D f m − D g m − D a b + D a m + D b m)`
every `m` outside `S₁` contributes more than `c = D f a + D g b − D f g − D a b > 0` and every `m` inside at least `−c`.  Either way
a pair with smaller Q exists.  Everything is stated with `Finset` sums; `Props/C14.lean` converts the list sums of the model. -/
namespace DendroModel.C14.Cherry
open Finset

section identities
variable {α : Type} [Field α]

/-- row sum over the other labels -/
def R (P : Finset Nat) (D : Nat → Nat → α) (a : Nat) : α := ∑ m ∈ P.erase a, D a m

/-- the Q-criterion of neighbour joining over a finite label set -/
def QF (P : Finset Nat) (D : Nat → Nat → α) (a b : Nat) : α := ((P.card - 2 : Nat) : α) * D a b - R P D a - R P D b

theorem sum_split3 (P : Finset Nat) (F : Nat → α) (f g k : Nat) (hf : f ∈ P) (hg : g ∈ P) (hk : k ∈ P)
    (hfg : f ≠ g) (hfk : f ≠ k) (hgk : g ≠ k) :
    ∑ m ∈ P, F m = ∑ m ∈ P \ {f, g, k}, F m + (F f + F g + F k) := by
  have hsub : ({f, g, k} : Finset Nat) ⊆ P := by
    intro x hx; simp only [mem_insert, mem_singleton] at hx; rcases hx with rfl | rfl | rfl <;> assumption
  rw [← sum_sdiff hsub]
  congr 1
  rw [sum_insert (by simp [hfg, hfk]), sum_insert (by simp [hgk]), sum_singleton]; ring

theorem sum_split4 (P : Finset Nat) (F : Nat → α) (f g a b : Nat) (hf : f ∈ P) (hg : g ∈ P) (ha : a ∈ P) (hb : b ∈ P)
    (hfg : f ≠ g) (hfa : f ≠ a) (hfb : f ≠ b) (hga : g ≠ a) (hgb : g ≠ b) (hab : a ≠ b) :
    ∑ m ∈ P, F m = ∑ m ∈ P \ {f, g, a, b}, F m + (F f + F g + F a + F b) := by
  have hsub : ({f, g, a, b} : Finset Nat) ⊆ P := by
    intro x hx; simp only [mem_insert, mem_singleton] at hx; rcases hx with rfl | rfl | rfl | rfl <;> assumption
  rw [← sum_sdiff hsub]
  congr 1
  rw [sum_insert (by simp [hfg, hfa, hfb]), sum_insert (by simp [hga, hgb]), sum_insert (by simp [hab]), sum_singleton]; ring

theorem card_split3 (P : Finset Nat) (f g k : Nat) (hf : f ∈ P) (hg : g ∈ P) (hk : k ∈ P)
    (hfg : f ≠ g) (hfk : f ≠ k) (hgk : g ≠ k) : P.card = (P \ {f, g, k}).card + 3 := by
  have hsub : ({f, g, k} : Finset Nat) ⊆ P := by
    intro x hx; simp only [mem_insert, mem_singleton] at hx; rcases hx with rfl | rfl | rfl <;> assumption
  rw [← card_sdiff_add_card_eq_card hsub]
  congr 1
  rw [card_insert_of_notMem (by simp [hfg, hfk]), card_insert_of_notMem (by simp [hgk]), card_singleton]

theorem card_split4 (P : Finset Nat) (f g a b : Nat) (hf : f ∈ P) (hg : g ∈ P) (ha : a ∈ P) (hb : b ∈ P)
    (hfg : f ≠ g) (hfa : f ≠ a) (hfb : f ≠ b) (hga : g ≠ a) (hgb : g ≠ b) (hab : a ≠ b) :
    P.card = (P \ {f, g, a, b}).card + 4 := by
  have hsub : ({f, g, a, b} : Finset Nat) ⊆ P := by
    intro x hx; simp only [mem_insert, mem_singleton] at hx; rcases hx with rfl | rfl | rfl | rfl <;> assumption
  rw [← card_sdiff_add_card_eq_card hsub]
  congr 1
  rw [card_insert_of_notMem (by simp [hfg, hfa, hfb]), card_insert_of_notMem (by simp [hga, hgb]),
    card_insert_of_notMem (by simp [hab]), card_singleton]

theorem R_eq (P : Finset Nat) (D : Nat → Nat → α) (a : Nat) (ha : a ∈ P) : R P D a = ∑ m ∈ P, D a m - D a a := by
  rw [R, sum_erase_eq_sub ha]

/-- `Q(f,g) − Q(f,k)` as a sum over the other labels -/
theorem QF_diff_shared (P : Finset Nat) (D : Nat → Nat → α) (hs : ∀ a ∈ P, ∀ b ∈ P, D a b = D b a)
    (f g k : Nat) (hf : f ∈ P) (hg : g ∈ P) (hk : k ∈ P) (hfg : f ≠ g) (hfk : f ≠ k) (hgk : g ≠ k) :
    QF P D f g - QF P D f k = ∑ m ∈ P \ {f, g, k}, (D f g + D k m - D f k - D g m) := by
  have hc := card_split3 P f g k hf hg hk hfg hfk hgk
  have e : ((P.card - 2 : Nat) : α) = ((P \ {f, g, k}).card : α) + 1 := by
    rw [hc, show (P \ {f, g, k}).card + 3 - 2 = (P \ {f, g, k}).card + 1 by omega]; push_cast; ring
  simp only [QF, R_eq P D f hf, R_eq P D g hg, R_eq P D k hk, e,
    sum_split3 P (D g) f g k hf hg hk hfg hfk hgk, sum_split3 P (D k) f g k hf hg hk hfg hfk hgk,
    sum_add_distrib, sum_sub_distrib, sum_const, nsmul_eq_mul]
  have s1 := hs g hg f hf; have s2 := hs k hk f hf; have s3 := hs k hk g hg
  rw [s1, s2, s3]; ring

/-- `Q(f,g) − Q(a,b)` for two disjoint pairs as a sum over the other labels -/
theorem QF_diff_disjoint (P : Finset Nat) (D : Nat → Nat → α) (hs : ∀ a ∈ P, ∀ b ∈ P, D a b = D b a)
    (f g a b : Nat) (hf : f ∈ P) (hg : g ∈ P) (ha : a ∈ P) (hb : b ∈ P)
    (hfg : f ≠ g) (hfa : f ≠ a) (hfb : f ≠ b) (hga : g ≠ a) (hgb : g ≠ b) (hab : a ≠ b) :
    QF P D f g - QF P D a b = ∑ m ∈ P \ {f, g, a, b}, (D f g - D f m - D g m - D a b + D a m + D b m) := by
  have hc := card_split4 P f g a b hf hg ha hb hfg hfa hfb hga hgb hab
  have e : ((P.card - 2 : Nat) : α) = ((P \ {f, g, a, b}).card : α) + 2 := by
    rw [hc, show (P \ {f, g, a, b}).card + 4 - 2 = (P \ {f, g, a, b}).card + 2 by omega]; push_cast; ring
  simp only [QF, R_eq P D f hf, R_eq P D g hg, R_eq P D a ha, R_eq P D b hb, e,
    sum_split4 P (D f) f g a b hf hg ha hb hfg hfa hfb hga hgb hab, sum_split4 P (D g) f g a b hf hg ha hb hfg hfa hfb hga hgb hab,
    sum_split4 P (D a) f g a b hf hg ha hb hfg hfa hfb hga hgb hab, sum_split4 P (D b) f g a b hf hg ha hb hfg hfa hfb hga hgb hab,
    sum_add_distrib, sum_sub_distrib, sum_const, nsmul_eq_mul]
  have s1 := hs g hg f hf; have s2 := hs a ha f hf; have s3 := hs b hb f hf
  have s4 := hs a ha g hg; have s5 := hs b hb g hg; have s6 := hs b hb a ha
  rw [s1, s2, s3, s4, s5, s6]; ring

end identities

section cherry
variable {α : Type} [Field α] [LinearOrder α] [IsStrictOrderedRing α]

/-- a resolved quartet: of the three pairing sums one is strictly smaller than the other two, which are equal -/
def Quartet (D : Nat → Nat → α) (p q r s : Nat) : Prop :=
  (D p q + D r s < D p r + D q s ∧ D p r + D q s = D p s + D q r) ∨
  (D p r + D q s < D p q + D r s ∧ D p q + D r s = D p s + D q r) ∨
  (D p s + D q r < D p q + D r s ∧ D p q + D r s = D p r + D q s)


/-- One end of the path `f … g`.  `S1` is a group of other labels that all leave the path `f … g` at the same place (`heq`),
nearer to `f` than every remaining label (`hlt`), and it is not more than two larger than the remainder.  Then some pair has a
strictly smaller Q than `f, g`. -/
theorem one_sided (P : Finset Nat) (D : Nat → Nat → α) (hs : ∀ a ∈ P, ∀ b ∈ P, D a b = D b a)
    (hq : ∀ p ∈ P, ∀ q ∈ P, ∀ r ∈ P, ∀ t ∈ P, p ≠ q → p ≠ r → p ≠ t → q ≠ r → q ≠ t → r ≠ t → Quartet D p q r t)
    (f g : Nat) (hf : f ∈ P) (hg : g ∈ P) (hfg : f ≠ g) (S1 : Finset Nat) (hS1 : S1 ⊆ (P.erase f).erase g)
    (heq : ∀ a ∈ S1, ∀ b ∈ S1, D f a + D g b = D f b + D g a)
    (hlt : ∀ a ∈ S1, ∀ m ∈ ((P.erase f).erase g) \ S1, D f a + D g m < D f m + D g a)
    (hne1 : S1.Nonempty) (hne2 : (((P.erase f).erase g) \ S1).Nonempty)
    (hcard : S1.card ≤ (((P.erase f).erase g) \ S1).card + 2) :
    ∃ a ∈ P, ∃ b ∈ P, a ≠ b ∧ QF P D a b < QF P D f g := by
  have memS : ∀ m, m ∈ (P.erase f).erase g ↔ m ∈ P ∧ m ≠ f ∧ m ≠ g := by
    intro m; simp only [mem_erase]; tauto
  have memS1 : ∀ m ∈ S1, m ∈ P ∧ m ≠ f ∧ m ≠ g := fun m hm => (memS m).mp (hS1 hm)
  have memR : ∀ m, m ∈ ((P.erase f).erase g) \ S1 ↔ (m ∈ P ∧ m ≠ f ∧ m ≠ g) ∧ m ∉ S1 := by
    intro m; rw [mem_sdiff, memS]
  -- a label of the group and one of the rest form the quartet `f a | g m`
  have qrest : ∀ a ∈ S1, ∀ m ∈ ((P.erase f).erase g) \ S1, D f g + D a m = D f m + D g a := by
    intro a ha m hm
    obtain ⟨aP, af, ag⟩ := memS1 a ha
    obtain ⟨⟨mP, mf, mg⟩, mS⟩ := (memR m).mp hm
    have am : a ≠ m := fun e => mS (e ▸ ha)
    have := hlt a ha m hm
    rcases hq f hf g hg a aP m mP hfg (Ne.symm af) (Ne.symm mf) (Ne.symm ag) (Ne.symm mg) am with ⟨h1, h2⟩ | ⟨h1, h2⟩ | ⟨h1, h2⟩
    · linarith
    · linarith
    · linarith
  by_cases h1 : S1.card = 1
  · -- the group is a single label `k`: compare with `(f, k)`
    obtain ⟨k, rfl⟩ := card_eq_one.mp h1
    have hk := memS1 k (mem_singleton_self k)
    refine ⟨f, hf, k, hk.1, Ne.symm hk.2.1, ?_⟩
    have hd := QF_diff_shared P D hs f g k hf hg hk.1 hfg (Ne.symm hk.2.1) (Ne.symm hk.2.2)
    have hset : P \ {f, g, k} = ((P.erase f).erase g) \ {k} := by
      ext m; simp only [mem_sdiff, mem_insert, mem_singleton, mem_erase]; tauto
    rw [hset] at hd
    have hpos : 0 < ∑ m ∈ ((P.erase f).erase g) \ {k}, (D f g + D k m - D f k - D g m) := by
      apply sum_pos _ hne2
      intro m hm
      have e := qrest k (mem_singleton_self k) m hm
      have l := hlt k (mem_singleton_self k) m hm
      have s := hs g hg k hk.1
      linarith
    linarith
  · -- at least two labels: the deepest pair of the group
    have h2 : 1 < S1.card := by
      have := card_pos.mpr hne1; omega
    have hnt : S1.offDiag.Nonempty := by
      obtain ⟨a, ha, b, hb, hab⟩ := one_lt_card.mp h2
      exact ⟨(a, b), mem_offDiag.mpr ⟨ha, hb, hab⟩⟩
    obtain ⟨⟨a, b⟩, hab, hmax⟩ := exists_max_image S1.offDiag (fun p : Nat × Nat => D f p.1 + D g p.2 - D p.1 p.2) hnt
    obtain ⟨ha, hb, hne⟩ := mem_offDiag.mp hab
    simp only at ha hb hne hmax
    obtain ⟨aP, af, ag⟩ := memS1 a ha
    obtain ⟨bP, bf, bg⟩ := memS1 b hb
    refine ⟨a, aP, b, bP, hne, ?_⟩
    have hd := QF_diff_disjoint P D hs f g a b hf hg aP bP hfg (Ne.symm af) (Ne.symm bf) (Ne.symm ag) (Ne.symm bg) hne
    -- the quartet `f g | a b`
    have cpos : 0 < D f a + D g b - D f g - D a b := by
      have := heq a ha b hb
      rcases hq f hf g hg a aP b bP hfg (Ne.symm af) (Ne.symm bf) (Ne.symm ag) (Ne.symm bg) hne with ⟨h1, h2⟩ | ⟨h1, h2⟩ | ⟨h1, h2⟩
      · linarith
      · linarith
      · linarith
    have hset : P \ {f, g, a, b} = (((P.erase f).erase g) \ S1) ∪ ((S1.erase a).erase b) := by
      ext m
      simp only [mem_sdiff, mem_insert, mem_singleton, mem_erase, mem_union]
      constructor
      · rintro ⟨mP, hm⟩
        by_cases hmS : m ∈ S1
        · right; tauto
        · left; tauto
      · rintro (⟨⟨mg, mf, mP⟩, hmS⟩ | ⟨mb, ma, hmS⟩)
        · refine ⟨mP, ?_⟩
          rintro (rfl | rfl | rfl | rfl)
          · exact mf rfl
          · exact mg rfl
          · exact hmS ha
          · exact hmS hb
        · obtain ⟨mP, mf, mg⟩ := memS1 m hmS
          exact ⟨mP, by tauto⟩
    have hdisj : Disjoint (((P.erase f).erase g) \ S1) ((S1.erase a).erase b) := by
      rw [disjoint_left]
      intro m hm hm'
      exact ((memR m).mp hm).2 (mem_of_mem_erase (mem_of_mem_erase hm'))
    rw [hset, sum_union hdisj] at hd
    set c := D f a + D g b - D f g - D a b with hc
    -- labels outside the group contribute more than `c`
    have hout : ∑ _m ∈ ((P.erase f).erase g) \ S1, c < ∑ m ∈ ((P.erase f).erase g) \ S1, (D f g - D f m - D g m - D a b + D a m + D b m) := by
      apply sum_lt_sum_of_nonempty hne2
      intro m hm
      have e1 := qrest a ha m hm
      have e2 := qrest b hb m hm
      have l := hlt a ha m hm
      linarith
    -- labels inside the group contribute at least `-c`
    have hin : ∑ _m ∈ (S1.erase a).erase b, (-c) ≤ ∑ m ∈ (S1.erase a).erase b, (D f g - D f m - D g m - D a b + D a m + D b m) := by
      apply sum_le_sum
      intro m hm
      have mb : m ≠ b := (mem_erase.mp hm).1
      have hm1 := mem_of_mem_erase hm
      have ma : m ≠ a := (mem_erase.mp hm1).1
      have mS := mem_of_mem_erase hm1
      obtain ⟨mP, _, _⟩ := memS1 m mS
      have m1 := hmax (a, m) (mem_offDiag.mpr ⟨ha, mS, Ne.symm ma⟩)
      have m2 := hmax (m, b) (mem_offDiag.mpr ⟨mS, hb, mb⟩)
      simp only at m1 m2
      have s := hs b bP m mP
      linarith
    rw [sum_const, nsmul_eq_mul] at hout hin
    have hc2 : (((S1.erase a).erase b).card : α) ≤ ((((P.erase f).erase g) \ S1).card : α) := by
      have e : ((S1.erase a).erase b).card = S1.card - 2 := by
        rw [card_erase_of_mem (mem_erase.mpr ⟨Ne.symm hne, hb⟩), card_erase_of_mem ha]; omega
      rw [e]; exact_mod_cast (by omega : S1.card - 2 ≤ (((P.erase f).erase g) \ S1).card)
    have := mul_le_mul_of_nonneg_right hc2 (le_of_lt cpos)
    linarith

/-- **The cherry-picking lemma** (Saitou–Nei; Studier–Keppler) for a finite label set: under the strict four-point condition, a pair
of minimal Q splits every other two labels evenly. -/
theorem minQ_cherry (P : Finset Nat) (D : Nat → Nat → α) (hs : ∀ a ∈ P, ∀ b ∈ P, D a b = D b a)
    (hq : ∀ p ∈ P, ∀ q ∈ P, ∀ r ∈ P, ∀ t ∈ P, p ≠ q → p ≠ r → p ≠ t → q ≠ r → q ≠ t → r ≠ t → Quartet D p q r t)
    (f g : Nat) (hf : f ∈ P) (hg : g ∈ P) (hfg : f ≠ g)
    (hmin : ∀ a ∈ P, ∀ b ∈ P, a ≠ b → QF P D f g ≤ QF P D a b)
    (k l : Nat) (hk : k ∈ P) (hl : l ∈ P) (kf : k ≠ f) (kg : k ≠ g) (lf : l ≠ f) (lg : l ≠ g) :
    D f k + D g l = D f l + D g k := by
  by_contra hne
  set S := (P.erase f).erase g with hS
  have kS : k ∈ S := mem_erase.mpr ⟨kg, mem_erase.mpr ⟨kf, hk⟩⟩
  have lS : l ∈ S := mem_erase.mpr ⟨lg, mem_erase.mpr ⟨lf, hl⟩⟩
  obtain ⟨lo, loS, hlo⟩ := exists_min_image S (fun m => D f m - D g m) ⟨k, kS⟩
  obtain ⟨hi, hiS, hhi⟩ := exists_max_image S (fun m => D f m - D g m) ⟨k, kS⟩
  have hlohi : D f lo - D g lo < D f hi - D g hi := by
    have a1 := hlo k kS; have a2 := hlo l lS; have b1 := hhi k kS; have b2 := hhi l lS
    rcases lt_or_gt_of_ne hne with h | h <;> linarith
  set S1 := S.filter (fun m => D f m - D g m = D f lo - D g lo) with hS1
  set S2 := S.filter (fun m => D f m - D g m = D f hi - D g hi) with hS2
  have hdis : Disjoint S1 S2 := by
    rw [disjoint_left]; intro m h1 h2
    have e1 := (mem_filter.mp h1).2; have e2 := (mem_filter.mp h2).2
    linarith
  have hcard : S1.card + S2.card ≤ S.card := by
    rw [← card_union_of_disjoint hdis]
    exact card_le_card (union_subset (filter_subset _ _) (filter_subset _ _))
  have hsub1 : S1 ⊆ S := filter_subset _ _
  have hsub2 : S2 ⊆ S := filter_subset _ _
  have c1 : (S \ S1).card = S.card - S1.card := card_sdiff_of_subset hsub1
  have c2 : (S \ S2).card = S.card - S2.card := card_sdiff_of_subset hsub2
  have l1 := card_le_card hsub1
  have l2 := card_le_card hsub2
  by_cases hhalf : 2 * S1.card ≤ S.card
  · -- the group nearest `f`
    obtain ⟨a, aP, b, bP, hab, hlt⟩ := one_sided P D hs hq f g hf hg hfg S1 hsub1
      (by
        intro a ha b hb
        have e1 := (mem_filter.mp ha).2; have e2 := (mem_filter.mp hb).2
        linarith)
      (by
        intro a ha m hm
        have e1 := (mem_filter.mp ha).2
        obtain ⟨mS, mn⟩ := mem_sdiff.mp hm
        have e2 := hlo m mS
        have e3 : D f m - D g m ≠ D f lo - D g lo := fun e => mn (mem_filter.mpr ⟨mS, e⟩)
        have := lt_of_le_of_ne e2 (Ne.symm e3)
        linarith)
      ⟨lo, mem_filter.mpr ⟨loS, rfl⟩⟩
      ⟨hi, mem_sdiff.mpr ⟨hiS, fun h => by have := (mem_filter.mp h).2; linarith⟩⟩
      (by rw [c1]; omega)
    exact absurd (hmin a aP b bP hab) (not_le.mpr hlt)
  · -- the group nearest `g`: the same argument with `f` and `g` exchanged
    have hSS : (P.erase g).erase f = S := erase_right_comm
    obtain ⟨a, aP, b, bP, hab, hlt⟩ := one_sided P D hs hq g f hg hf (Ne.symm hfg) S2 (by rw [hSS]; exact hsub2)
      (by
        intro a ha b hb
        have e1 := (mem_filter.mp ha).2; have e2 := (mem_filter.mp hb).2
        linarith)
      (by
        rw [hSS]
        intro a ha m hm
        have e1 := (mem_filter.mp ha).2
        obtain ⟨mS, mn⟩ := mem_sdiff.mp hm
        have e2 := hhi m mS
        have e3 : D f m - D g m ≠ D f hi - D g hi := fun e => mn (mem_filter.mpr ⟨mS, e⟩)
        have := lt_of_le_of_ne e2 e3
        linarith)
      ⟨hi, mem_filter.mpr ⟨hiS, rfl⟩⟩
      (by rw [hSS]; exact ⟨lo, mem_sdiff.mpr ⟨loS, fun h => by have := (mem_filter.mp h).2; linarith⟩⟩)
      (by rw [hSS, c2]; omega)
    have e : QF P D g f = QF P D f g := by
      simp only [QF, hs g hg f hf]; ring
    rw [e] at hlt
    exact absurd (hmin a aP b bP hab) (not_le.mpr hlt)

end cherry

section lists
variable {α : Type} [Field α]

/-- the row sum as the model writes it (a filtered list) is the `Finset` row sum -/
theorem rowsum_list (pool : List Nat) (hnd : pool.Nodup) (D : Nat → Nat → α) (a : Nat) :
    ((pool.filter (fun m => m ≠ a)).map (D a)).sum = R pool.toFinset D a := by
  rw [R, ← List.sum_toFinset (D a) (hnd.filter _), List.toFinset_filter]
  congr 1
  ext m
  simp only [mem_filter, List.mem_toFinset, mem_erase, decide_eq_true_eq]
  tauto

/-- the Q-criterion written with list sums (`Qfun` of `Props/C14.lean`) is `QF` of the label set -/
theorem qlist_eq_QF (pool : List Nat) (hnd : pool.Nodup) (D : Nat → Nat → α) (a b : Nat) :
    ((pool.length - 2 : Nat) : α) * D a b - ((pool.filter (fun m => m ≠ a)).map (D a)).sum
      - ((pool.filter (fun m => m ≠ b)).map (D b)).sum = QF pool.toFinset D a b := by
  rw [QF, rowsum_list pool hnd D a, rowsum_list pool hnd D b, List.toFinset_card_of_nodup hnd]
end lists

end DendroModel.C14.Cherry
