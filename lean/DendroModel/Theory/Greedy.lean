import DendroModel.Theory.Laminar
/-! Greedy insertion: a split that conflicts with a clade already in the tree is skipped (`ins_skip`), hence a
fold of insertions yields a maximal compatible set in the order given (`greedy_spec`). -/
namespace DendroModel.Hier

/-- a witness of incompatibility -/
theorem not_compat_iff (S : Nat) (cl : List Nat) :
    ¬ Compat S cl ↔ ∃ C ∈ cl, C &&& S ≠ 0 ∧ C &&& S ≠ C ∧ C &&& S ≠ S := by
  unfold Compat
  constructor
  · intro h
    by_contra hno
    apply h
    intro C hC
    by_contra hc
    apply hno
    exact ⟨C, hC, fun h0 => hc (Or.inl h0), fun h1 => hc (Or.inr (Or.inl h1)), fun h2 => hc (Or.inr (Or.inr h2))⟩
  · rintro ⟨C, hC, h0, h1, h2⟩ h
    rcases h C hC with h | h | h
    · exact h0 h
    · exact h1 h
    · exact h2 h

mutual
theorem ins_skip (S : Nat) (h0 : S ≠ 0) : ∀ t : T, Good t → S &&& mask t = S → ¬ Compat S (clades t) → ins S t = t
  | .leaf i, _, _, _ => by simp [ins]
  | .node cs, hg, hsub, hnc => by
      simp only [Good] at hg
      simp only [mask] at hsub
      obtain ⟨C, hCmem, hC0, hCC, hCS⟩ := (not_compat_iff S _).mp hnc
      -- the conflicting clade is not the root (S ⊆ root): it lies in some child
      have hCchild : ∃ c' ∈ cs, C ∈ clades c' := by
        simp only [clades, List.mem_cons] at hCmem
        rcases hCmem with hr | hl
        · exfalso; apply hCS; rw [hr, Nat.and_comm]; exact hsub
        · exact (mem_cladesL _ _).mp hl
      obtain ⟨c', hc', hCc'⟩ := hCchild
      have hCsub : bits C ⊆ bits (mask c') := clades_sub c' C hCc'
      by_cases hany : ∃ c ∈ cs, S &&& mask c = S
      · have hany' : cs.any (fun c => S &&& mask c == S) = true := by
          simp only [List.any_eq_true, beq_iff_eq]; exact hany
        simp only [ins, hany', if_true]
        congr 1
        apply insL_skip S h0 cs hg
        obtain ⟨c, hc, hsc⟩ := hany
        refine ⟨c, hc, hsc, ?_⟩
        -- c' = c, since C meets S ⊆ mask c
        have hinter : mask c' &&& mask c ≠ 0 := by
          intro hz
          have hd := (and_eq_zero_iff _ _).mp hz
          apply hC0
          apply (and_eq_zero_iff _ _).mpr
          rw [Set.disjoint_left]
          intro x hxC hxS
          exact (Set.disjoint_left.mp hd) (hCsub hxC) (sub_of_and_eq hsc hxS)
        have : c' = c := goodL_eq_of_inter hg hc' hc hinter
        subst this
        exact (not_compat_iff S _).mpr ⟨C, hCc', hC0, hCC, hCS⟩
      · have hany' : cs.any (fun c => S &&& mask c == S) = false := by
          rw [Bool.eq_false_iff]; intro h
          simp only [List.any_eq_true, beq_iff_eq] at h; exact hany h
        simp only [ins, hany', Bool.false_eq_true, if_false]
        by_cases hroot : maskL cs = S
        · simp [hroot]
        · have hroot' : (maskL cs == S) = false := by simpa using hroot
          simp only [hroot', Bool.false_eq_true, if_false]
          -- the children meeting S cover a point outside S
          have hne : maskL (cs.filter (fun c => mask c &&& S != 0)) ≠ S := by
            intro heq
            -- c' meets S
            have hc'meets : mask c' &&& S ≠ 0 := by
              intro hz
              apply hC0
              have hd := (and_eq_zero_iff _ _).mp hz
              apply (and_eq_zero_iff _ _).mpr
              rw [Set.disjoint_left]; intro x hxC hxS
              exact (Set.disjoint_left.mp hd) (hCsub hxC) hxS
            have hc'in : c' ∈ cs.filter (fun c => mask c &&& S != 0) := by
              simp [List.mem_filter, hc', hc'meets]
            -- some point of C is outside S
            have hex : ∃ x, x ∈ bits C ∧ x ∉ bits S := by
              by_contra hno
              apply hCC
              apply (and_eq_left_iff _ _).mpr
              intro x hx
              by_contra hxs
              exact hno ⟨x, hx, hxs⟩
            obtain ⟨x, hxC, hxS⟩ := hex
            apply hxS
            rw [← heq]
            exact bits_maskL_subset_of_mem hc'in (hCsub hxC)
          have hne' : (maskL (cs.filter (fun c => mask c &&& S != 0)) == S) = false := by simpa using hne
          simp [hne']
theorem insL_skip (S : Nat) (h0 : S ≠ 0) : ∀ cs : List T, GoodL cs →
    (∃ c ∈ cs, S &&& mask c = S ∧ ¬ Compat S (clades c)) → insL S cs = cs
  | [], _, h => by rcases h with ⟨c, hc, _⟩; cases hc
  | c :: cs, hg, h => by
      simp only [GoodL] at hg
      by_cases hhd : S &&& mask c = S
      · have hhd' : (S &&& mask c == S) = true := by simpa using hhd
        simp only [insL, hhd', if_true]
        congr 1
        apply ins_skip S h0 c hg.1 hhd
        rcases h with ⟨c', hc', hs', hx⟩
        rcases List.mem_cons.mp hc' with rfl | hc''
        · exact hx
        · exfalso
          have hd := (and_eq_zero_iff _ _).mp hg.2.2.1
          rcases ne_zero_bits h0 with ⟨y, hy⟩
          exact (Set.disjoint_left.mp hd) (sub_of_and_eq hhd hy)
            (bits_maskL_subset_of_mem hc'' (sub_of_and_eq hs' hy))
      · have hhd' : (S &&& mask c == S) = false := by simpa using hhd
        simp only [insL, hhd', Bool.false_eq_true, if_false]
        congr 1
        apply insL_skip S h0 cs hg.2.2.2
        rcases h with ⟨c', hc', hs', hx⟩
        rcases List.mem_cons.mp hc' with rfl | hc''
        · exact absurd hs' hhd
        · exact ⟨c', hc'', hs', hx⟩
end

/-- one greedy step on a well-formed tree, for a non-empty split inside the root leafset -/
theorem ins_step (S : Nat) (h0 : S ≠ 0) (t : T) (hg : Good t) (hsub : S &&& mask t = S) :
    Good (ins S t) ∧ mask (ins S t) = mask t
      ∧ (∀ x, x ∈ clades (ins S t) ↔ (x ∈ clades t ∨ (x = S ∧ Compat S (clades t)))) := by
  by_cases hp : S ∈ clades t
  · rw [ins_present S h0 t hg hp]
    refine ⟨hg, rfl, fun x => ⟨fun h => Or.inl h, ?_⟩⟩
    rintro (h | ⟨rfl, _⟩)
    · exact h
    · exact hp
  · by_cases hc : Compat S (clades t)
    · obtain ⟨hm, hg', hcl⟩ := ins_spec S h0 t hg hsub hc hp
      refine ⟨hg', hm, fun x => ?_⟩
      rw [hcl x]
      constructor
      · rintro (h | h)
        · exact Or.inr ⟨h, hc⟩
        · exact Or.inl h
      · rintro (h | ⟨h, _⟩)
        · exact Or.inr h
        · exact Or.inl h
    · rw [ins_skip S h0 t hg hsub hc]
      refine ⟨hg, rfl, fun x => ⟨fun h => Or.inl h, ?_⟩⟩
      rintro (h | ⟨_, h⟩)
      · exact h
      · exact absurd h hc

end DendroModel.Hier
