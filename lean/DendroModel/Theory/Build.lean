import DendroModel.Theory.Inj
namespace DendroModel.Hier

mutual
theorem ins_present (S : Nat) (h0 : S ≠ 0) : ∀ t : T, Good t → S ∈ clades t → ins S t = t
  | .leaf i, _, _ => by simp [ins]
  | .node cs, hg, hmem => by
      simp only [Good] at hg
      by_cases hany : ∃ c ∈ cs, S &&& mask c = S
      · have hany' : cs.any (fun c => S &&& mask c == S) = true := by
          simp only [List.any_eq_true, beq_iff_eq]; exact hany
        simp only [ins, hany', if_true]
        congr 1
        apply insL_present S h0 cs hg
        -- S is a clade of the (unique) child containing it
        rcases hany with ⟨c, hc, hsc⟩
        refine ⟨c, hc, hsc, ?_⟩
        simp only [clades, List.mem_cons] at hmem
        rcases hmem with hr | hl
        · -- S = root: then mask c = S
          have h1 : bits S ⊆ bits (mask c) := sub_of_and_eq hsc
          have h2 : bits (mask c) ⊆ bits S := by rw [hr]; exact bits_maskL_subset_of_mem hc
          have : mask c = S := bits_inj (Set.Subset.antisymm h2 h1)
          rw [← this]; exact mask_mem_clades c
        · rcases (mem_cladesL _ _).mp hl with ⟨c', hc', hx⟩
          have hsub' : bits S ⊆ bits (mask c') := clades_sub c' S hx
          have hsub : bits S ⊆ bits (mask c) := sub_of_and_eq hsc
          have hinter : mask c' &&& mask c ≠ 0 := by
            intro hz
            have hd := (and_eq_zero_iff _ _).mp hz
            rcases ne_zero_bits h0 with ⟨y, hy⟩
            exact (Set.disjoint_left.mp hd) (hsub' hy) (hsub hy)
          have : c' = c := goodL_eq_of_inter hg hc' hc hinter
          subst this; exact hx
      · have hany' : cs.any (fun c => S &&& mask c == S) = false := by
          rw [Bool.eq_false_iff]; intro h
          simp only [List.any_eq_true, beq_iff_eq] at h; exact hany h
        -- S must be the root mask
        have hroot : maskL cs = S := by
          simp only [clades, List.mem_cons] at hmem
          rcases hmem with hr | hl
          · exact hr.symm
          · exfalso
            rcases (mem_cladesL _ _).mp hl with ⟨c', hc', hx⟩
            apply hany
            exact ⟨c', hc', (and_eq_left_iff _ _).mpr (clades_sub c' S hx)⟩
        simp [ins, hany', hroot]
theorem insL_present (S : Nat) (h0 : S ≠ 0) : ∀ cs : List T, GoodL cs →
    (∃ c ∈ cs, S &&& mask c = S ∧ S ∈ clades c) → insL S cs = cs
  | [], _, h => by rcases h with ⟨c, hc, _⟩; cases hc
  | c :: cs, hg, h => by
      simp only [GoodL] at hg
      by_cases hhd : S &&& mask c = S
      · have hhd' : (S &&& mask c == S) = true := by simpa using hhd
        simp only [insL, hhd', if_true]
        congr 1
        apply ins_present S h0 c hg.1
        rcases h with ⟨c', hc', hs', hx⟩
        rcases List.mem_cons.mp hc' with rfl | hc''
        · exact hx
        · exfalso
          -- c' in tail contains S, and c contains S: masks intersect, contradiction with disjointness
          have hd := (and_eq_zero_iff _ _).mp hg.2.2.1
          rcases ne_zero_bits h0 with ⟨y, hy⟩
          exact (Set.disjoint_left.mp hd) (sub_of_and_eq hhd hy)
            (bits_maskL_subset_of_mem hc'' (sub_of_and_eq hs' hy))
      · have hhd' : (S &&& mask c == S) = false := by simpa using hhd
        simp only [insL, hhd', Bool.false_eq_true, if_false]
        congr 1
        apply insL_present S h0 cs hg.2.2.2
        rcases h with ⟨c', hc', hs', hx⟩
        rcases List.mem_cons.mp hc' with rfl | hc''
        · exact absurd hs' hhd
        · exact ⟨c', hc'', hs', hx⟩
end



theorem buildFrom_cons (t : T) (s : Nat) (rest : List Nat) : buildFrom t (s :: rest) = buildFrom (ins s t) rest := rfl

def Lam (a b : Nat) : Prop := b &&& a = 0 ∨ b &&& a = b ∨ b &&& a = a

theorem build_spec (t0 : T) :
    ∀ (ss : List Nat) (t : T) (done : List Nat),
      Good t → mask t = mask t0 → (∀ x, x ∈ clades t ↔ x ∈ clades t0 ∨ x ∈ done) →
      (∀ s ∈ ss, s ≠ 0 ∧ s &&& mask t0 = s ∧ Compat s (clades t0)) →
      (∀ s ∈ ss, ∀ b ∈ done ++ ss, Lam s b) →
      Good (buildFrom t ss) ∧ mask (buildFrom t ss) = mask t0 ∧
        ∀ x, x ∈ clades (buildFrom t ss) ↔ x ∈ clades t0 ∨ x ∈ done ∨ x ∈ ss := by
  intro ss
  induction ss with
  | nil =>
    intro t done hg hm hcl _ _
    simp only [buildFrom, List.foldl_nil, List.not_mem_nil, or_false]
    exact ⟨hg, hm, hcl⟩
  | cons s rest ih =>
    intro t done hg hm hcl hss hlam
    have hs := hss s (by simp)
    rw [buildFrom_cons]
    have hrest : ∀ s' ∈ rest, s' ≠ 0 ∧ s' &&& mask t0 = s' ∧ Compat s' (clades t0) :=
      fun s' h' => hss s' (by simp [h'])
    have hlam' : ∀ s' ∈ rest, ∀ b ∈ (s :: done) ++ rest, Lam s' b := by
      intro s' h' b hb
      apply hlam s' (by simp [h']) b
      simp only [List.cons_append, List.mem_cons, List.mem_append] at hb ⊢
      tauto
    by_cases hpres : s ∈ clades t
    · rw [ins_present s hs.1 t hg hpres]
      have := ih t (s :: done) hg hm (by
        intro x; rw [hcl x]
        constructor
        · rintro (h | h)
          · exact Or.inl h
          · exact Or.inr (by simp [h])
        · rintro (h | h)
          · exact Or.inl h
          · rcases List.mem_cons.mp h with rfl | h'
            · exact (hcl _).mp hpres
            · exact Or.inr h') hrest hlam'
      refine ⟨this.1, this.2.1, ?_⟩
      intro x; rw [this.2.2 x]; simp only [List.mem_cons]; tauto
    · have hcompat : Compat s (clades t) := by
        intro C hC
        rcases (hcl C).mp hC with h | h
        · exact hs.2.2 C h
        · exact hlam s (by simp) C (by simp [h])
      have hsub : s &&& mask t = s := by rw [hm]; exact hs.2.1
      have ⟨hm', hg', hcl'⟩ := ins_spec s hs.1 t hg hsub hcompat hpres
      have := ih (ins s t) (s :: done) hg' (hm'.trans hm) (by
        intro x; rw [hcl' x, hcl x]; simp only [List.mem_cons]; tauto) hrest hlam'
      refine ⟨this.1, this.2.1, ?_⟩
      intro x; rw [this.2.2 x]; simp only [List.mem_cons]; tauto

end DendroModel.Hier
