import DendroModel.Model.C15Calls
import DendroModel.Model.C15Nbr
/-! C15 — the traced machines (`Model/C15Calls.lean`) project onto the plain ones: what they yield is the plain machine
under `guard && keep`, what they show to the filter is the plain machine under `guard` alone. -/
namespace DendroModel.C15.CallsAux
open DendroModel DendroModel.C15

theorem shownL_append (a b : List FEv) : shownL (a ++ b) = shownL a ++ shownL b := by
  induction a with
  | nil => rfl
  | cons e r ih => cases e <;> simp [shownL, ih]

theorem yieldL_append (a b : List FEv) : yieldL (a ++ b) = yieldL a ++ yieldL b := by
  induction a with
  | nil => rfl
  | cons e r ih => cases e <;> simp [yieldL, ih]

theorem shownL_visit (guard keep : T → Bool) (x : T) : shownL (visit guard keep x) = if guard x then [x] else [] := by
  unfold visit
  cases guard x <;> cases keep x <;> simp [shownL]

theorem yieldL_visit (guard keep : T → Bool) (x : T) :
    yieldL (visit guard keep x) = if (guard x && keep x) then [x] else [] := by
  unfold visit
  cases guard x <;> cases keep x <;> simp [yieldL]

theorem preRunE_shown (guard keep : T → Bool) : ∀ (f : Nat) (st : List T),
    shownL (preRunE guard keep f st) = preRun guard f st
  | 0, _ => rfl
  | _ + 1, [] => rfl
  | f + 1, t :: rest => by
    simp only [preRunE, preRun, shownL_append, shownL_visit, preRunE_shown guard keep f]

theorem preRunE_yield (guard keep : T → Bool) : ∀ (f : Nat) (st : List T),
    yieldL (preRunE guard keep f st) = preRun (fun x => guard x && keep x) f st
  | 0, _ => rfl
  | _ + 1, [] => rfl
  | f + 1, t :: rest => by
    simp only [preRunE, preRun, yieldL_append, yieldL_visit, preRunE_yield guard keep f]

theorem postRunE_shown (guard keep : T → Bool) : ∀ (f : Nat) (st : List (T × Bool)),
    shownL (postRunE guard keep f st) = postRun guard f st
  | 0, _ => rfl
  | _ + 1, [] => rfl
  | f + 1, (n, true) :: rest => by
    simp only [postRunE, postRun, shownL_append, shownL_visit, postRunE_shown guard keep f]
  | f + 1, (n, false) :: rest => by
    simp only [postRunE, postRun, postRunE_shown guard keep f]

theorem postRunE_yield (guard keep : T → Bool) : ∀ (f : Nat) (st : List (T × Bool)),
    yieldL (postRunE guard keep f st) = postRun (fun x => guard x && keep x) f st
  | 0, _ => rfl
  | _ + 1, [] => rfl
  | f + 1, (n, true) :: rest => by
    simp only [postRunE, postRun, yieldL_append, yieldL_visit, postRunE_yield guard keep f]
  | f + 1, (n, false) :: rest => by
    simp only [postRunE, postRun, postRunE_yield guard keep f]

theorem levelRunE_shown (guard keep : T → Bool) : ∀ (f : Nat) (st : List T),
    shownL (levelRunE guard keep f st) = levelRun guard f st
  | 0, _ => rfl
  | _ + 1, [] => rfl
  | f + 1, t :: rest => by
    simp only [levelRunE, levelRun, shownL_append, shownL_visit, levelRunE_shown guard keep f]

theorem levelRunE_yield (guard keep : T → Bool) : ∀ (f : Nat) (st : List T),
    yieldL (levelRunE guard keep f st) = levelRun (fun x => guard x && keep x) f st
  | 0, _ => rfl
  | _ + 1, [] => rfl
  | f + 1, t :: rest => by
    simp only [levelRunE, levelRun, yieldL_append, yieldL_visit, levelRunE_yield guard keep f]

theorem childRunE_shown (keep : T → Bool) : ∀ l : List T, shownL (childRunE keep l) = l
  | [] => rfl
  | c :: cs => by simp [childRunE, shownL_append, shownL_visit, childRunE_shown keep cs]

theorem childRunE_yield (keep : T → Bool) : ∀ l : List T, yieldL (childRunE keep l) = childRun keep l
  | [] => rfl
  | c :: cs => by simp [childRunE, childRun, yieldL_append, yieldL_visit, childRunE_yield keep cs]

theorem internalKeep_split (excl hp : Bool) (sid : Nat) (keep : T → Bool) (x : T) :
    internalKeep excl sid hp keep x = (internalGuard excl sid hp x && keep x) := by
  simp [internalKeep, internalGuard]

end DendroModel.C15.CallsAux
