import DendroModel.Model.C02
namespace DendroModel.C02
open DendroModel.Tables

def labelChar (c : Char) : Bool := c == '\t' || (32 ≤ c.toNat && c.toNat ≤ 126) || 128 ≤ c.toNat
def tokSpecial : List Char := tokUncaptured ++ tokCaptured ++ tokQuote ++ tokCommentBegin ++ tokCommentEnd

namespace Aux
theorem special_protected_tables :
    (∀ c ∈ tokSpecial, labelChar c = true → (c ∈ protectDefault ∨ c = ' ')) ∧
    (∀ c ∈ tokSpecial, labelChar c = true → (c ∈ protectNewick ∨ c = ' ')) := by decide

theorem quote_table : tokQuote = ['\''] := by decide
theorem cap_not_uncap : ∀ d ∈ tokCaptured, d ∉ tokUncaptured := by decide
theorem cap_not_quote : ∀ d ∈ tokCaptured, d ∉ tokQuote := by decide

theorem dbl_cons_q (cs : Str) : dbl ('\'' :: cs) = '\'' :: '\'' :: dbl cs := by simp [dbl]
theorem dbl_cons_nq (c : Char) (cs : Str) (h : c ≠ '\'') : dbl (c :: cs) = c :: dbl cs := by simp [dbl, h]

/-- what may follow a closing quote: anything but another quote (or the end of the input) -/
def NoQuoteHead : Str → Prop
  | [] => True
  | d :: _ => d ≠ '\''

theorem readQuoted_dbl (l : Str) : ∀ (acc suf : Str), NoQuoteHead suf →
    readQuoted '\'' (dbl l ++ '\'' :: suf) acc = some (acc ++ l, suf) := by
  induction l with
  | nil =>
    intro acc suf hd
    cases suf with
    | nil => simp [dbl, readQuoted]
    | cons d rest =>
      have hd' : d ≠ '\'' := hd
      simp [dbl, readQuoted, hd']
  | cons c cs ih =>
    intro acc suf hd
    by_cases hc : c = '\''
    · subst hc
      rw [dbl_cons_q]
      show readQuoted '\'' ('\'' :: '\'' :: (dbl cs ++ '\'' :: suf)) acc = _
      rw [readQuoted.eq_def]
      simp only [beq_self_eq_true, if_true]
      rw [ih _ _ hd]; simp
    · rw [dbl_cons_nq c cs hc]
      show readQuoted '\'' (c :: (dbl cs ++ '\'' :: suf)) acc = _
      rw [readQuoted.eq_def]
      have hc' : (c == '\'') = false := by simpa using hc
      simp only [hc', Bool.false_eq_true, if_false]
      rw [ih _ _ hd]; simp

/-- a character that the unquoted-token loop simply accumulates -/
def ordinary (c : Char) : Bool := !isUncap c && !isCap c && !isCB c

/-- what may follow an unquoted token: the end of the input, whitespace, or a captured delimiter -/
def Stop : Str → Prop
  | [] => True
  | d :: _ => isUncap d = true ∨ isCap d = true

/-- the input left after an unquoted token: a whitespace follower is consumed, a captured delimiter is kept -/
def plainAfter : Str → Str
  | [] => []
  | d :: rest => if isUncap d then rest else d :: rest

theorem readPlain_plain (pu : Bool) (l : Str) : ∀ (acc : Str) (cm : List Str) (suf : Str),
    (∀ c ∈ l, ordinary c = true) → Stop suf →
    readPlain pu (l ++ suf) acc cm = (acc ++ l.map (conv pu), cm, plainAfter suf) := by
  induction l with
  | nil =>
    intro acc cm suf _ hs
    cases suf with
    | nil => simp [readPlain, plainAfter]
    | cons d rest =>
      cases hu : isUncap d with
      | true => rw [List.nil_append, readPlain]; simp [hu, plainAfter]
      | false =>
        have hc : isCap d = true := by
          rcases hs with h | h
          · rw [hu] at h; cases h
          · exact h
        rw [List.nil_append, readPlain]; simp [hu, hc, plainAfter]
  | cons c cs ih =>
    intro acc cm suf hl hs
    have hc := hl c (by simp)
    simp only [ordinary, Bool.and_eq_true, Bool.not_eq_true'] at hc
    obtain ⟨⟨h1, h2⟩, h3⟩ := hc
    simp only [List.cons_append]
    rw [readPlain]
    simp only [h1, h2, h3, Bool.false_eq_true, if_false]
    rw [ih _ _ _ (fun c' hc' => hl c' (by simp [hc'])) hs]
    simp

theorem next_plain (pu : Bool) (f : Nat) (c : Char) (cs suf : Str)
    (hl : ∀ x ∈ c :: cs, ordinary x = true) (hq : isQuote c = false) (hs : Stop suf)
    (cm0 : List Str) :
    next pu (f + 1) ((c :: cs) ++ suf) cm0 = .tok ((c :: cs).map (conv pu)) false cm0 (plainAfter suf) := by
  have hc := hl c (by simp)
  simp only [ordinary, Bool.and_eq_true, Bool.not_eq_true'] at hc
  obtain ⟨⟨h1, h2⟩, _⟩ := hc
  rw [next]
  simp only [List.cons_append, skipWs, h1, Bool.false_eq_true, if_false, h2, hq]
  have := readPlain_plain pu (c :: cs) [] cm0 suf hl hs
  simp only [List.cons_append, List.nil_append] at this
  rw [this]
  simp

theorem next_quoted (pu : Bool) (f : Nat) (l suf : Str) (hd : NoQuoteHead suf) (cm0 : List Str) :
    next pu (f + 1) ('\'' :: (dbl l ++ ['\'']) ++ suf) cm0 = .tok l true cm0 suf := by
  have e : '\'' :: (dbl l ++ ['\'']) ++ suf = '\'' :: (dbl l ++ '\'' :: suf) := by simp
  have h1 : isUncap '\'' = false := by decide
  have h2 : isCap '\'' = false := by decide
  have h3 : isQuote '\'' = true := by decide
  rw [e, next]
  simp only [skipWs, h1, h2, h3, Bool.false_eq_true, if_false, if_true]
  rw [readQuoted_dbl l [] suf hd]
  simp

/-- a protect class that covers every special character of the label domain except the space, and the tab -/
def Covers (p : List Char) : Prop :=
  (∀ c ∈ tokSpecial, labelChar c = true → (c ∈ p ∨ c = ' ')) ∧ p.contains '\t' = true

theorem covers_newick : Covers protectNewick := ⟨special_protected_tables.2, by decide⟩
theorem covers_default : Covers protectDefault := ⟨special_protected_tables.1, by decide⟩

theorem unprotected_ordinary (p : List Char) (hP : Covers p) (c : Char) (hl : labelChar c = true) (hp : p.contains c = false) (hs : c ≠ ' ') :
    ordinary c = true ∧ isQuote c = false := by
  have key : c ∈ tokSpecial → False := by
    intro hm
    rcases hP.1 c hm hl with h | h
    · have : p.contains c = true := by simpa using h
      rw [hp] at this; cases this
    · exact hs h
  have a : isUncap c = false := by
    cases h : isUncap c with
    | false => rfl
    | true => exact absurd (by simp [isUncap] at h; simp [tokSpecial, h]) key
  have b : isCap c = false := by
    cases h : isCap c with
    | false => rfl
    | true => exact absurd (by simp [isCap] at h; simp [tokSpecial, h]) key
  have d : isCB c = false := by
    cases h : isCB c with
    | false => rfl
    | true => exact absurd (by simp [isCB] at h; simp [tokSpecial, h]) key
  have e : isQuote c = false := by
    cases h : isQuote c with
    | false => rfl
    | true => exact absurd (by simp [isQuote] at h; simp [tokSpecial, h]) key
  simp [ordinary, a, b, d, e]


theorem underscore_ok : ordinary '_' = true ∧ isQuote '_' = false := by decide

theorem hasProt_false {p : List Char} {l : Str} (h : hasProt p l = false) : ∀ c ∈ l, p.contains c = false := by
  intro c hc
  simp only [hasProt, List.any_eq_false] at h
  have := h c hc
  simpa using this

end Aux

/-- writer/reader option triples under which labels survive: `unquoted_underscores` needs `preserve_underscores`,
    which in turn needs `preserve_spaces` -/
def Consistent (ps uu pu : Bool) : Prop := (uu = true → pu = true) ∧ (pu = true → ps = true)

namespace Aux
/-- followers after which a written label ends: end of input, whitespace, or a captured delimiter -/
def Follower (suf : Str) : Prop := Stop suf ∧ NoQuoteHead suf

theorem follower_cap (d : Char) (hd : d ∈ tokCaptured) (rest : Str) : Follower (d :: rest) ∧ plainAfter (d :: rest) = d :: rest := by
  have hdc : isCap d = true := by simpa [isCap] using hd
  have hdu : isUncap d = false := by
    have := cap_not_uncap d hd
    cases h : isUncap d with
    | false => rfl
    | true => exact absurd (by simpa [isUncap] using h) this
  have hdq : d ≠ '\'' := by
    have := cap_not_quote d hd
    rw [quote_table] at this
    simpa using this
  exact ⟨⟨Or.inr hdc, hdq⟩, by simp [plainAfter, hdu]⟩

theorem uncap_not_quote : ∀ d ∈ tokUncaptured, d ∉ tokQuote := by decide

theorem follower_ws (d : Char) (hd : d ∈ tokUncaptured) (rest : Str) : Follower (d :: rest) ∧ plainAfter (d :: rest) = rest := by
  have hdu : isUncap d = true := by simpa [isUncap] using hd
  have hdq : d ≠ '\'' := by
    have := uncap_not_quote d hd
    rw [quote_table] at this
    simpa using this
  exact ⟨⟨Or.inl hdu, hdq⟩, by simp [plainAfter, hdu]⟩

/-- one `__next__` call on an escaped admissible label followed by `suf`, for any protect class that covers the
    special characters, any fuel ≥ 1, any pending comments: the token is the label; a quoted token leaves `suf`
    untouched, an unquoted one consumes a whitespace follower -/
theorem next_escape_gen (p : List Char) (hP : Covers p) (ps uu pu : Bool) (hc : Consistent ps uu pu) (l : Str) (hne : l ≠ [])
    (hdom : ∀ c ∈ l, labelChar c = true) (suf : Str) (hsuf : Follower suf) :
    ∃ q, (∀ f cm0, next pu (f + 1) (escape ps (!uu) p l ++ suf) cm0 = .tok l q cm0 (if q then suf else plainAfter suf)) ∧
      (q = true ∨ ∀ c ∈ l, p.contains c = false) := by
  have tab_protected := hP.2
  unfold escape
  split
  · -- spaces to underscores, unquoted
    rename_i h
    simp only [Bool.and_eq_true, Bool.not_eq_true'] at h
    obtain ⟨⟨hps, hus⟩, hpr⟩ := h
    have hpu : pu = false := by
      cases pu with
      | false => rfl
      | true => have := hc.2 rfl; rw [hps] at this; cases this
    have hnp := hasProt_false hpr
    have hno_ : ∀ c ∈ l, c ≠ '_' := by
      intro c hc' he; subst he
      have : l.contains '_' = true := by simpa using hc'
      rw [hus] at this; cases this
    have hord : ∀ x ∈ l.map spaceToUnderscore, ordinary x = true ∧ isQuote x = false := by
      intro x hx
      simp only [List.mem_map] at hx
      obtain ⟨c, hcl, rfl⟩ := hx
      by_cases hsp : c = ' '
      · subst hsp; exact underscore_ok
      · have hnt : c ≠ '\t' := by
          intro he; subst he
          have := hnp _ hcl; rw [tab_protected] at this; cases this
        have : spaceToUnderscore c = c := by simp [spaceToUnderscore, hsp, hnt]
        rw [this]
        exact unprotected_ordinary p hP c (hdom c hcl) (hnp c hcl) hsp
    have hback : (l.map spaceToUnderscore).map (conv pu) = l := by
      rw [hpu, List.map_map]
      conv => rhs; rw [← List.map_id l]
      apply List.map_congr_left
      intro c hcl
      by_cases hsp : c = ' '
      · subst hsp; simp [spaceToUnderscore, conv]
      · have hnt : c ≠ '\t' := by
          intro he; subst he
          have := hnp _ hcl; rw [tab_protected] at this; cases this
        simp [spaceToUnderscore, conv, hsp, hnt, hno_ c hcl]
    cases hl : l.map spaceToUnderscore with
    | nil => simp at hl; exact absurd hl hne
    | cons c cs =>
      refine ⟨false, ?_, Or.inr hnp⟩
      intro f cm0
      have h1 : ∀ x ∈ c :: cs, ordinary x = true := fun x hx => (hord x (hl ▸ hx)).1
      have h2 : isQuote c = false := (hord c (hl ▸ by simp)).2
      rw [next_plain pu _ c cs suf h1 h2 hsuf.1 cm0, ← hl, hback]; simp
  · split
    · -- quoted
      refine ⟨true, ?_, Or.inl rfl⟩
      intro f cm0
      simpa using next_quoted pu f l suf hsuf.2 cm0
    · -- verbatim
      rename_i h1 h2
      simp only [Bool.and_eq_true, Bool.not_eq_true', not_and, Bool.not_eq_false] at h1
      simp only [Bool.or_eq_true, Bool.and_eq_true, not_or, not_and, Bool.not_eq_true, Bool.not_eq_true'] at h2
      obtain ⟨⟨hpr, hsp⟩, hq⟩ := h2
      have hnp := hasProt_false hpr
      have hnsp : ∀ c ∈ l, c ≠ ' ' := by
        intro c hc' he; subst he
        have : l.contains ' ' = true := by simpa using hc'
        rw [hsp] at this; cases this
      have hord : ∀ x ∈ l, ordinary x = true ∧ isQuote x = false :=
        fun x hx => unprotected_ordinary p hP x (hdom x hx) (hnp x hx) (hnsp x hx)
      have hback : l.map (conv pu) = l := by
        conv => rhs; rw [← List.map_id l]
        apply List.map_congr_left
        intro c hcl
        by_cases hu : c = '_'
        · subst hu
          have hc_ : l.contains '_' = true := by simpa using hcl
          have huu : uu = true := by
            cases huu : uu with
            | true => rfl
            | false => have := hq (by simp [huu]); rw [hc_] at this; cases this
          have := hc.1 huu
          simp [conv, this]
        · simp [conv, hu]
      cases hl : l with
      | nil => exact absurd hl hne
      | cons c cs =>
        refine ⟨false, ?_, Or.inr (hl ▸ hnp)⟩
        intro f cm0
        have h1' : ∀ x ∈ c :: cs, ordinary x = true := fun x hx => (hord x (hl ▸ hx)).1
        have h2' : isQuote c = false := (hord c (hl ▸ by simp)).2
        rw [next_plain pu _ c cs suf h1' h2' hsuf.1 cm0, ← hl, hback]; simp


/-- the Newick writer's class, captured follower (the form used inside tree statements) -/
theorem next_escape (ps uu pu : Bool) (hc : Consistent ps uu pu) (l : Str) (hne : l ≠ [])
    (hdom : ∀ c ∈ l, labelChar c = true) (d : Char) (hd : d ∈ tokCaptured) (rest : Str) :
    ∃ q, (∀ f cm0, next pu (f + 1) (escape ps (!uu) protectNewick l ++ d :: rest) cm0 = .tok l q cm0 (d :: rest)) ∧
      (q = true ∨ ∀ c ∈ l, protectNewick.contains c = false) := by
  obtain ⟨hf, ha⟩ := follower_cap d hd rest
  obtain ⟨q, h, hk⟩ := next_escape_gen protectNewick covers_newick ps uu pu hc l hne hdom (d :: rest) hf
  refine ⟨q, ?_, hk⟩
  intro f cm0
  rw [h f cm0, ha]
  cases q <;> simp

theorem skipWs_prefix : ∀ (ws inp : Str), (∀ c ∈ ws, isUncap c = true) → skipWs (ws ++ inp) = skipWs inp := by
  intro ws
  induction ws with
  | nil => intro inp _; rfl
  | cons c cs ih =>
    intro inp h
    simp only [List.cons_append, skipWs, h c (by simp), if_true]
    exact ih inp (fun d hd => h d (by simp [hd]))

theorem next_skip (pu : Bool) (f : Nat) (ws inp : Str) (cm : List Str) (h : ∀ c ∈ ws, isUncap c = true) :
    next pu (f + 1) (ws ++ inp) cm = next pu (f + 1) inp cm := by
  rw [next, next, skipWs_prefix ws inp h]

end Aux
end DendroModel.C02
