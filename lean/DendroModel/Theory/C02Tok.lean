import DendroModel.Model.C02
namespace DendroModel.C02
open DendroModel.Tables

def labelChar (c : Char) : Bool := c == '\t' || (32 ≤ c.toNat && c.toNat ≤ 126) || 128 ≤ c.toNat
def tokSpecial : List Char := tokUncaptured ++ tokCaptured ++ tokQuote ++ tokCommentBegin ++ tokCommentEnd

namespace Aux
theorem special_protected_tables :
    (∀ c ∈ tokSpecial, labelChar c = true → (c ∈ protectDefault ∨ c = ' ')) ∧
    (∀ c ∈ tokSpecial, labelChar c = true → (c ∈ protectNewick ∨ c = ' ')) := by decide

theorem quote_table : tokQuote = ['\''] := by decide
theorem cap_not_uncap : ∀ d ∈ tokCaptured, d ∉ tokUncaptured := by decide
theorem cap_not_quote : ∀ d ∈ tokCaptured, d ∉ tokQuote := by decide

theorem dbl_cons_q (cs : Str) : dbl ('\'' :: cs) = '\'' :: '\'' :: dbl cs := by simp [dbl]
theorem dbl_cons_nq (c : Char) (cs : Str) (h : c ≠ '\'') : dbl (c :: cs) = c :: dbl cs := by simp [dbl, h]

theorem readQuoted_dbl (l : Str) : ∀ (acc rest : Str) (d : Char), d ≠ '\'' →
    readQuoted '\'' (dbl l ++ '\'' :: d :: rest) acc = some (acc ++ l, d :: rest) := by
  induction l with
  | nil =>
    intro acc rest d hd
    simp [dbl, readQuoted, hd]
  | cons c cs ih =>
    intro acc rest d hd
    by_cases hc : c = '\''
    · subst hc
      rw [dbl_cons_q]
      show readQuoted '\'' ('\'' :: '\'' :: (dbl cs ++ '\'' :: d :: rest)) acc = _
      rw [readQuoted.eq_def]
      simp only [beq_self_eq_true, if_true]
      rw [ih _ _ _ hd]; simp
    · rw [dbl_cons_nq c cs hc]
      show readQuoted '\'' (c :: (dbl cs ++ '\'' :: d :: rest)) acc = _
      rw [readQuoted.eq_def]
      have hc' : (c == '\'') = false := by simpa using hc
      simp only [hc', Bool.false_eq_true, if_false]
      rw [ih _ _ _ hd]; simp

/-- a character that the unquoted-token loop simply accumulates -/
def ordinary (c : Char) : Bool := !isUncap c && !isCap c && !isCB c

theorem readPlain_plain (pu : Bool) (l : Str) : ∀ (acc : Str) (cm : List Str) (rest : Str) (d : Char),
    (∀ c ∈ l, ordinary c = true) → isCap d = true → isUncap d = false →
    readPlain pu (l ++ d :: rest) acc cm = (acc ++ l.map (conv pu), cm, d :: rest) := by
  induction l with
  | nil =>
    intro acc cm rest d _ hd hu
    simp [readPlain, hd, hu]
  | cons c cs ih =>
    intro acc cm rest d hl hd hu
    have hc := hl c (by simp)
    simp only [ordinary, Bool.and_eq_true, Bool.not_eq_true'] at hc
    obtain ⟨⟨h1, h2⟩, h3⟩ := hc
    simp only [List.cons_append]
    rw [readPlain]
    simp only [h1, h2, h3, Bool.false_eq_true, if_false]
    rw [ih _ _ _ _ (fun c' hc' => hl c' (by simp [hc'])) hd hu]
    simp


theorem next_plain (pu : Bool) (f : Nat) (c : Char) (cs rest : Str) (d : Char)
    (hl : ∀ x ∈ c :: cs, ordinary x = true) (hq : isQuote c = false) (hd : isCap d = true) (hu : isUncap d = false)
    (cm0 : List Str) :
    next pu (f + 1) ((c :: cs) ++ d :: rest) cm0 = .tok ((c :: cs).map (conv pu)) false cm0 (d :: rest) := by
  have hc := hl c (by simp)
  simp only [ordinary, Bool.and_eq_true, Bool.not_eq_true'] at hc
  obtain ⟨⟨h1, h2⟩, _⟩ := hc
  rw [next]
  simp only [List.cons_append, skipWs, h1, Bool.false_eq_true, if_false, h2, hq]
  have := readPlain_plain pu (c :: cs) [] cm0 rest d hl hd hu
  simp only [List.cons_append, List.nil_append] at this
  rw [this]
  simp

theorem next_quoted (pu : Bool) (f : Nat) (l rest : Str) (d : Char) (hd : d ≠ '\'') (cm0 : List Str) :
    next pu (f + 1) ('\'' :: (dbl l ++ ['\'']) ++ d :: rest) cm0 = .tok l true cm0 (d :: rest) := by
  have e : '\'' :: (dbl l ++ ['\'']) ++ d :: rest = '\'' :: (dbl l ++ '\'' :: d :: rest) := by simp
  have h1 : isUncap '\'' = false := by decide
  have h2 : isCap '\'' = false := by decide
  have h3 : isQuote '\'' = true := by decide
  rw [e, next]
  simp only [skipWs, h1, h2, h3, Bool.false_eq_true, if_false, if_true]
  rw [readQuoted_dbl l [] rest d hd]
  simp


theorem unprotected_ordinary (c : Char) (hl : labelChar c = true) (hp : protectNewick.contains c = false) (hs : c ≠ ' ') :
    ordinary c = true ∧ isQuote c = false := by
  have key : c ∈ tokSpecial → False := by
    intro hm
    rcases special_protected_tables.2 c hm hl with h | h
    · have : protectNewick.contains c = true := by simpa using h
      rw [hp] at this; cases this
    · exact hs h
  have a : isUncap c = false := by
    cases h : isUncap c with
    | false => rfl
    | true => exact absurd (by simp [isUncap] at h; simp [tokSpecial, h]) key
  have b : isCap c = false := by
    cases h : isCap c with
    | false => rfl
    | true => exact absurd (by simp [isCap] at h; simp [tokSpecial, h]) key
  have d : isCB c = false := by
    cases h : isCB c with
    | false => rfl
    | true => exact absurd (by simp [isCB] at h; simp [tokSpecial, h]) key
  have e : isQuote c = false := by
    cases h : isQuote c with
    | false => rfl
    | true => exact absurd (by simp [isQuote] at h; simp [tokSpecial, h]) key
  simp [ordinary, a, b, d, e]


theorem tab_protected : protectNewick.contains '\t' = true := by decide
theorem underscore_ok : ordinary '_' = true ∧ isQuote '_' = false := by decide

theorem hasProt_false {p : List Char} {l : Str} (h : hasProt p l = false) : ∀ c ∈ l, p.contains c = false := by
  intro c hc
  simp only [hasProt, List.any_eq_false] at h
  have := h c hc
  simpa using this

end Aux

/-- writer/reader option triples under which labels survive: `unquoted_underscores` needs `preserve_underscores`,
    which in turn needs `preserve_spaces` -/
def Consistent (ps uu pu : Bool) : Prop := (uu = true → pu = true) ∧ (pu = true → ps = true)

namespace Aux
/-- one `__next__` call on an escaped admissible label followed by a captured delimiter, any fuel ≥ 1, any pending comments -/
theorem next_escape (ps uu pu : Bool) (hc : Consistent ps uu pu) (l : Str) (hne : l ≠ [])
    (hdom : ∀ c ∈ l, labelChar c = true) (d : Char) (hd : d ∈ tokCaptured) (rest : Str) :
    ∃ q, (∀ f cm0, next pu (f + 1) (escape ps (!uu) protectNewick l ++ d :: rest) cm0 = .tok l q cm0 (d :: rest)) ∧
      (q = true ∨ ∀ c ∈ l, protectNewick.contains c = false) := by
  have hdc : isCap d = true := by simpa [isCap] using hd
  have hdu : isUncap d = false := by
    have := cap_not_uncap d hd
    cases h : isUncap d with
    | false => rfl
    | true => exact absurd (by simpa [isUncap] using h) this
  have hdq : d ≠ '\'' := by
    have := cap_not_quote d hd
    rw [quote_table] at this
    simpa using this
  unfold escape
  split
  · -- spaces to underscores, unquoted
    rename_i h
    simp only [Bool.and_eq_true, Bool.not_eq_true'] at h
    obtain ⟨⟨hps, hus⟩, hpr⟩ := h
    have hpu : pu = false := by
      cases pu with
      | false => rfl
      | true => have := hc.2 rfl; rw [hps] at this; cases this
    have hnp := hasProt_false hpr
    have hno_ : ∀ c ∈ l, c ≠ '_' := by
      intro c hc' he; subst he
      have : l.contains '_' = true := by simpa using hc'
      rw [hus] at this; cases this
    have hord : ∀ x ∈ l.map spaceToUnderscore, ordinary x = true ∧ isQuote x = false := by
      intro x hx
      simp only [List.mem_map] at hx
      obtain ⟨c, hcl, rfl⟩ := hx
      by_cases hsp : c = ' '
      · subst hsp; exact underscore_ok
      · have hnt : c ≠ '\t' := by
          intro he; subst he
          have := hnp _ hcl; rw [tab_protected] at this; cases this
        have : spaceToUnderscore c = c := by simp [spaceToUnderscore, hsp, hnt]
        rw [this]
        exact unprotected_ordinary c (hdom c hcl) (hnp c hcl) hsp
    have hback : (l.map spaceToUnderscore).map (conv pu) = l := by
      rw [hpu, List.map_map]
      conv => rhs; rw [← List.map_id l]
      apply List.map_congr_left
      intro c hcl
      by_cases hsp : c = ' '
      · subst hsp; simp [spaceToUnderscore, conv]
      · have hnt : c ≠ '\t' := by
          intro he; subst he
          have := hnp _ hcl; rw [tab_protected] at this; cases this
        simp [spaceToUnderscore, conv, hsp, hnt, hno_ c hcl]
    cases hl : l.map spaceToUnderscore with
    | nil => simp at hl; exact absurd hl hne
    | cons c cs =>
      refine ⟨false, ?_, Or.inr hnp⟩
      intro f cm0
      have h1 : ∀ x ∈ c :: cs, ordinary x = true := fun x hx => (hord x (hl ▸ hx)).1
      have h2 : isQuote c = false := (hord c (hl ▸ by simp)).2
      rw [next_plain pu _ c cs rest d h1 h2 hdc hdu cm0, ← hl, hback]
  · split
    · -- quoted
      refine ⟨true, ?_, Or.inl rfl⟩
      intro f cm0
      exact next_quoted pu _ l rest d hdq cm0
    · -- verbatim
      rename_i h1 h2
      simp only [Bool.and_eq_true, Bool.not_eq_true', not_and, Bool.not_eq_false] at h1
      simp only [Bool.or_eq_true, Bool.and_eq_true, not_or, not_and, Bool.not_eq_true, Bool.not_eq_true'] at h2
      obtain ⟨⟨hpr, hsp⟩, hq⟩ := h2
      have hnp := hasProt_false hpr
      have hnsp : ∀ c ∈ l, c ≠ ' ' := by
        intro c hc' he; subst he
        have : l.contains ' ' = true := by simpa using hc'
        rw [hsp] at this; cases this
      have hord : ∀ x ∈ l, ordinary x = true ∧ isQuote x = false :=
        fun x hx => unprotected_ordinary x (hdom x hx) (hnp x hx) (hnsp x hx)
      have hback : l.map (conv pu) = l := by
        conv => rhs; rw [← List.map_id l]
        apply List.map_congr_left
        intro c hcl
        by_cases hu : c = '_'
        · subst hu
          have hc_ : l.contains '_' = true := by simpa using hcl
          have huu : uu = true := by
            cases huu : uu with
            | true => rfl
            | false => have := hq (by simp [huu]); rw [hc_] at this; cases this
          have := hc.1 huu
          simp [conv, this]
        · simp [conv, hu]
      cases hl : l with
      | nil => exact absurd hl hne
      | cons c cs =>
        refine ⟨false, ?_, Or.inr (hl ▸ hnp)⟩
        intro f cm0
        have h1' : ∀ x ∈ c :: cs, ordinary x = true := fun x hx => (hord x (hl ▸ hx)).1
        have h2' : isQuote c = false := (hord c (hl ▸ by simp)).2
        rw [next_plain pu _ c cs rest d h1' h2' hdc hdu cm0, ← hl, hback]


end Aux
end DendroModel.C02
