import DendroModel.Model.C13
import DendroModel.Theory.C13Progress
/-! C13 — no front-end parser gives tokens back: every turn of the block loop of the stream consumes at least one token,
    or the stream is dry and the turn ends at end of input.  Hence the run-time progress check of the stream loops is dead
    code (`Props/C13.lean`: `streamLoopR_check_dead`, `streamLoopY_check_dead`). -/
namespace DendroModel.C13.Aux
open DendroModel.C13

theorem next_le (s : TS) : s.next.rest.length ≤ s.rest.length := by
  rw [TS.next_rest]; simp [List.length_tail]
theorem nextU_le (s : TS) : s.nextU.rest.length ≤ s.rest.length := by
  rw [TS.nextU_rest]; simp [List.length_tail]
theorem req_le {ts ts' : TS} (h : ts.req = .ok ts') : ts'.rest.length ≤ ts.rest.length :=
  Nat.le_of_lt (TS.req_lt _ _ h)
@[simp] theorem castU_req_rest (ts : TS) : ts.castU.rest = ts.rest := rfl

theorem skipSemi_le' : ∀ (n : Nat) (s : TS), s.rest.length = n → (skipSemi s).rest.length ≤ s.rest.length := by
  intro n
  induction n using Nat.strongRecOn with
  | _ n ih =>
    intro s hn
    rw [skipSemi.eq_def]
    split
    · exact next_le s
    · rename_i h
      simp only []
      split
      · exact next_le s
      · have h1 := TS.next_lt s h
        have h2 := ih _ (hn ▸ h1) s.next rfl
        omega

theorem skipSemi_le (s : TS) : (skipSemi s).rest.length ≤ s.rest.length := skipSemi_le' _ s rfl

theorem seekBegin_le' : ∀ (n : Nat) (s : TS), s.rest.length = n → (seekBegin s).rest.length ≤ s.rest.length := by
  intro n
  induction n using Nat.strongRecOn with
  | _ n ih =>
    intro s hn
    rw [seekBegin.eq_def]
    split
    · split
      · exact nextU_le s
      · rename_i h
        have h1 := TS.nextU_lt s h
        have h2 := ih _ (hn ▸ h1) s.nextU rfl
        omega
    · exact Nat.le_refl _

theorem seekBegin_le (s : TS) : (seekBegin s).rest.length ≤ s.rest.length := seekBegin_le' _ s rfl

theorem consumeLoop_le' : ∀ (n : Nat) (ts : TS) (tok : Option String), ts.rest.length = n →
    (consumeLoop ts tok).rest.length ≤ ts.rest.length := by
  intro n
  induction n using Nat.strongRecOn with
  | _ n ih =>
    intro ts tok hn
    rw [consumeLoop.eq_def]
    split
    · exact Nat.le_refl _
    · simp only []
      have h0 : (skipSemi ts).nextU.rest.length ≤ ts.rest.length :=
        Nat.le_trans (nextU_le _) (skipSemi_le ts)
      split
      · rename_i hp
        have h2 := ih _ (hn ▸ hp) (skipSemi ts).nextU (skipSemi ts).nextU.cur rfl
        omega
      · exact h0

theorem consumeLoop_le (ts : TS) (tok : Option String) : (consumeLoop ts tok).rest.length ≤ ts.rest.length :=
  consumeLoop_le' _ ts tok rfl

theorem consumeToEndOfBlock_le (ts : TS) (tok : Option String) : (consumeToEndOfBlock ts tok).rest.length ≤ ts.rest.length := by
  unfold consumeToEndOfBlock; exact consumeLoop_le _ _

theorem parsedBlockSkeleton_le (ts : TS) : (parsedBlockSkeleton ts).rest.length ≤ ts.rest.length := by
  unfold parsedBlockSkeleton
  exact Nat.le_trans (skipSemi_le _) (consumeToEndOfBlock_le _ _)

/-! ### statement parsers -/

theorem parseTitle_le (ts : TS) (r : String × TS) (h : parseTitle ts = .ok r) : r.2.rest.length ≤ ts.rest.length := by
  unfold parseTitle at h
  split at h
  · cases h
  · split at h
    · cases h
    · rename_i ts1 h1
      have a := req_le h1
      split at h
      · rename_i title ts2 hc h2
        have b := req_le h2
        split at h
        · cases h; simp at a ⊢; omega
        · cases h
      · cases h

theorem linkLoop_le : ∀ (n : Nat) (ts : TS) (taxa : Option String) (r : Option String × TS), ts.rest.length = n →
    linkLoop ts taxa = .ok r → r.2.rest.length ≤ ts.rest.length := by
  intro n
  induction n using Nat.strongRecOn with
  | _ n ih =>
    intro ts taxa r hn h
    rw [linkLoop.eq_def] at h
    split at h
    · cases h
    · split at h
      · cases h; exact Nat.le_refl _
      · split at h
        · split at h
          · rename_i h3
            simp only [] at h
            split at h
            · cases h
            · have e : ts.next.next.nextU.rest.length < ts.rest.length := by
                simp [TS.next_rest, TS.nextU_rest]; omega
              have := ih _ (hn ▸ e) _ _ _ rfl h
              omega
          · cases h
        · split at h
          · cases h
          · rename_i hne
            have e := TS.nextU_lt ts hne
            have := ih _ (hn ▸ e) _ _ _ rfl h
            omega

theorem parseLink_le (ts : TS) (r : Option String × TS) (h : parseLink ts = .ok r) : r.2.rest.length ≤ ts.rest.length := by
  unfold parseLink at h
  split at h
  · cases h
  · have := linkLoop_le _ _ _ _ rfl h
    have := nextU_le ts
    omega

theorem dimLoop_le : ∀ (n : Nat) (ts : TS) (ntax : Option Nat) (r : Option Nat × TS), ts.rest.length = n →
    dimLoop ts ntax = .ok r → r.2.rest.length ≤ ts.rest.length := by
  intro n
  induction n using Nat.strongRecOn with
  | _ n ih =>
    intro ts ntax r hn h
    rw [dimLoop.eq_def] at h
    split at h
    · cases h
    · split at h
      · cases h; exact Nat.le_refl _
      · split at h
        · split at h
          · rename_i h3
            simp only [] at h
            split at h
            · cases h
            · split at h
              · cases h
              · have e : ts.nextU.nextU.nextU.rest.length < ts.rest.length := by
                  simp [TS.nextU_rest]; omega
                have := ih _ (hn ▸ e) _ _ _ rfl h
                omega
          · cases h
        · split at h
          · cases h
          · split at h
            · cases h
            · rename_i hne
              have e := TS.nextU_lt ts hne
              have := ih _ (hn ▸ e) _ _ _ rfl h
              omega

theorem parseDimensions_le (ts : TS) (r : Option Nat × TS) (h : parseDimensions ts = .ok r) : r.2.rest.length ≤ ts.rest.length := by
  unfold parseDimensions at h
  split at h
  · cases h
  · have := dimLoop_le _ _ _ _ rfl h
    have := nextU_le ts
    omega

theorem taxlabelsLoop_le (b : Bool) : ∀ (n : Nat) (ts : TS) (ns : List String) (ntax : Option Nat) (r : List String × TS),
    ts.rest.length = n → taxlabelsLoop b ts ns ntax = .ok r → r.2.rest.length ≤ ts.rest.length := by
  intro n
  induction n using Nat.strongRecOn with
  | _ n ih =>
    intro ts ns ntax r hn h
    rw [taxlabelsLoop.eq_def] at h
    split at h
    · cases h
    · split at h
      · cases h; exact Nat.le_refl _
      · split at h
        · cases h
        · rename_i hne
          have e : ts.next.clear.rest.length < ts.rest.length := by simpa [TS.clear] using TS.next_lt ts hne
          split at h
          · have := ih _ (hn ▸ e) _ _ _ _ rfl h
            omega
          · cases ntax with
            | none =>
              simp only [Bool.false_eq_true, if_false] at h
              have := ih _ (hn ▸ e) _ _ _ _ rfl h
              omega
            | some m =>
              simp only [] at h
              split at h
              · cases h
              · have := ih _ (hn ▸ e) _ _ _ _ rfl h
                omega

/-! ### TAXA block -/

@[simp] theorem newNamespace_ts (fl : Flags) (c : Core) (t : Option String) : (newNamespace fl c t).ts = c.ts := by
  unfold newNamespace; split <;> rfl

theorem getNamespace_ts (fl : Flags) (c c' : Core) (t : Option String) (h : getNamespace fl c t = .ok c') : c'.ts = c.ts := by
  unfold getNamespace at h
  split at h
  · cases h; rfl
  · split at h
    · split at h
      · cases h; simp
      · split at h
        · cases h; rfl
        · cases h
    · split at h
      · cases h; rfl
      · cases h

theorem taxaTitle_le (fl : Flags) (c : Core) (hv : Bool) (r : Core × Bool × Option String) (h : taxaTitle fl c hv = .ok r) :
    r.1.ts.rest.length ≤ c.ts.rest.length := by
  unfold taxaTitle at h
  simp only [] at h
  split at h
  · split at h
    · cases h
    · rename_i x hp
      cases h
      have a := parseTitle_le _ _ hp
      have b := nextU_le c.ts
      simp at a ⊢; omega
  · cases h
    exact nextU_le c.ts

theorem taxaDims_le (c : Core) (tok : Option String) (c' : Core) (h : taxaDims c tok = .ok c') :
    c'.ts.rest.length ≤ c.ts.rest.length := by
  unfold taxaDims at h
  split at h
  · split at h
    · cases h
    · rename_i x hp
      cases h
      exact parseDimensions_le _ _ hp
  · cases h; exact Nat.le_refl _

theorem taxaLabels_le (fl : Flags) (c : Core) (hv : Bool) (tok : Option String) (r : Core × Bool) (h : taxaLabels fl c hv tok = .ok r) :
    r.1.ts.rest.length ≤ c.ts.rest.length := by
  unfold taxaLabels at h
  split at h
  · simp only [] at h
    split at h
    · cases h
    · rename_i x hp
      cases h
      have a := taxlabelsLoop_le _ _ _ _ _ _ rfl hp
      have e : (if hv = true then c else newNamespace fl c none).ts = c.ts := by split <;> simp
      rw [e] at a
      have b := next_le c.ts.clear
      simp [TS.clear] at a b ⊢
      omega
  · cases h; exact Nat.le_refl _

theorem taxaStep_le (fl : Flags) (c : Core) (hv : Bool) (r : Core × Bool × Option String) (h : taxaStep fl c hv = .ok r) :
    r.1.ts.rest.length ≤ c.ts.rest.length := by
  unfold taxaStep at h
  split at h
  · cases h
  · rename_i c1 have1 tok1 h1
    split at h
    · cases h
    · rename_i c2 h2
      split at h
      · cases h
      · rename_i c4 have4 h3
        cases h
        have a := taxaTitle_le _ _ _ _ h1
        have b := taxaDims_le _ _ _ h2
        have d := taxaLabels_le _ _ _ _ _ h3
        simp at a b d ⊢
        omega

theorem taxaLoop_le (fl : Flags) : ∀ (n : Nat) (c : Core) (hv : Bool) (c' : Core), c.ts.rest.length = n →
    taxaLoop fl c hv = .ok c' → c'.ts.rest.length ≤ c.ts.rest.length := by
  intro n
  induction n using Nat.strongRecOn with
  | _ n ih =>
    intro c hv c' hn h
    rw [taxaLoop.eq_def] at h
    split at h
    · cases h
    · split at h
      · cases h
      · rename_i c4 have4 tok1 hs
        have a := taxaStep_le _ _ _ _ hs
        simp only [] at a
        split at h
        · cases h
          have := skipSemi_le c4.ts
          simp; omega
        · split at h
          · rename_i hp
            have := ih _ (hn ▸ hp) _ _ _ rfl h
            omega
          · cases h

theorem parseTaxaBlock_le (fl : Flags) (c c' : Core) (h : parseTaxaBlock fl c = .ok c') : c'.ts.rest.length ≤ c.ts.rest.length := by
  unfold parseTaxaBlock at h
  have := taxaLoop_le fl _ _ _ _ rfl h
  have := skipSemi_le c.ts
  simp at *; omega

/-! ### TREES block -/

theorem translateLoop_le : ∀ (n : Nat) (d : Doc) (ntax : Option Nat) (mp : Mapper) (r : Doc × Mapper), d.ts.rest.length = n →
    translateLoop d ntax mp = .ok r → r.1.ts.rest.length ≤ d.ts.rest.length := by
  intro n
  induction n using Nat.strongRecOn with
  | _ n ih =>
    intro d ntax mp r hn h
    rw [translateLoop.eq_def] at h
    split at h
    · cases h
    · simp only [] at h
      split at h
      · cases h
      · split at h
        · cases h
        · split at h
          · cases h
          · have e3 : d.ts.next.next.next.rest.length ≤ d.ts.rest.length :=
              Nat.le_trans (next_le _) (Nat.le_trans (next_le _) (next_le _))
            split at h
            · cases h
            · split at h
              · cases h; exact e3
              · split at h
                · cases h; exact e3
                · split at h
                  · cases h
                  · split at h
                    · rename_i hp
                      have := ih _ (hn ▸ hp) _ _ _ _ rfl h
                      simp only [] at this hp
                      omega
                    · cases h

theorem parseTranslate_le (c : Core) (mp : Option Mapper) (r : Core × Mapper) (h : parseTranslate c mp = .ok r) :
    r.1.ts.rest.length ≤ c.ts.rest.length := by
  unfold parseTranslate at h
  cases ht : translateLoop c.doc c.ntax (mapperOr mp c.ns) with
  | error e => simp [ht, Except.map] at h
  | ok x =>
    simp only [ht, Except.map] at h
    cases h
    exact translateLoop_le _ _ _ _ _ rfl ht

theorem treeRunR_le {σ} (cfg : Cfg) (S : Sink σ) : ∀ (n : Nat) (d : Doc) (mp : Mapper) (acc : σ) (r : Doc × Mapper × σ × Option String),
    d.ts.rest.length = n → treeRunR cfg S d mp acc = .ok r → r.1.ts.rest.length ≤ d.ts.rest.length := by
  intro n
  induction n using Nat.strongRecOn with
  | _ n ih =>
    intro d mp acc r hn h
    rw [treeRunR.eq_def] at h
    split at h
    · cases h
    · rename_i t d1 mp1 hst
      have a := nexusTreeStmt_lt cfg d mp t d1 mp1 hst
      simp only [] at h
      split at h
      · cases h; exact Nat.le_of_lt a
      · split at h
        · cases h; exact Nat.le_of_lt a
        · split at h
          · rename_i hp
            have := ih _ (hn ▸ hp) _ _ _ _ rfl h
            simp only [] at this hp
            omega
          · cases h

theorem treesStepR_le {σ} (cfg : Cfg) (fl : Flags) (S : Sink σ) (c : Core) (v : BlockVars) (acc : σ) (r : Core × BlockVars × σ)
    (h : treesStepR cfg fl S c v acc = .ok r) : r.1.ts.rest.length ≤ c.ts.rest.length := by
  unfold treesStepR at h
  simp only [] at h
  have b := nextU_le c.ts
  have hres : ∀ c2, (if v.haveNs = true then Except.ok { c with ts := c.ts.nextU } else getNamespace fl { c with ts := c.ts.nextU } v.link) = Except.ok c2 →
      c2.ts = c.ts.nextU := by
    intro c2 hn
    split at hn
    · cases hn; rfl
    · exact getNamespace_ts _ _ _ _ hn
  split at h
  · split at h
    · cases h
    · rename_i x hp
      cases h
      have a := parseLink_le _ _ hp
      simp at a ⊢; omega
  · split at h
    · split at h
      · cases h
      · rename_i x hp
        cases h
        have a := parseTitle_le _ _ hp
        simp at a ⊢; omega
    · split at h
      · split at h
        · cases h
        · rename_i c2 hn
          have e := hres c2 hn
          split at h
          · cases h
          · rename_i x hp
            cases h
            have a := parseTranslate_le _ _ _ hp
            rw [e] at a
            simp at a ⊢; omega
      · split at h
        · split at h
          · cases h
          · rename_i c2 hn
            have e := hres c2 hn
            split at h
            · cases h
            · rename_i x hp
              cases h
              have a := treeRunR_le cfg S _ _ _ _ _ rfl hp
              simp [Core.withDoc, TS.clear, e] at a ⊢
              omega
        · split at h
          · cases h
          · cases h; exact b

theorem treesLoopR_le {σ} (cfg : Cfg) (fl : Flags) (S : Sink σ) : ∀ (n : Nat) (c : Core) (v : BlockVars) (acc : σ) (r : Core × σ),
    c.ts.rest.length = n → treesLoopR cfg fl S c v acc = .ok r → r.1.ts.rest.length ≤ c.ts.rest.length := by
  intro n
  induction n using Nat.strongRecOn with
  | _ n ih =>
    intro c v acc r hn h
    rw [treesLoopR.eq_def] at h
    split at h
    · cases h; exact skipSemi_le c.ts
    · split at h
      · cases h
      · rename_i c5 v5 acc5 hs
        have a := treesStepR_le cfg fl S c v acc _ hs
        simp only [] at a
        split at h
        · rename_i hp
          have := ih _ (hn ▸ hp) _ _ _ _ rfl h
          omega
        · split at h
          · cases h
            have := skipSemi_le c5.ts
            simp; omega
          · cases h

theorem treesBlockR_le {σ} (cfg : Cfg) (fl : Flags) (S : Sink σ) (c : Core) (acc : σ) (r : Core × σ)
    (h : treesBlockR cfg fl S c acc = .ok r) : r.1.ts.rest.length ≤ c.ts.rest.length := by
  unfold treesBlockR at h
  simp only [] at h
  split at h
  · cases h
  · have a := treesLoopR_le cfg fl S _ _ _ _ _ rfl h
    have b := skipSemi_le c.ts.castU
    simp at a b ⊢
    omega

/-! ### one turn of the block loop of the stream -/

theorem afterBegin_le (ts : TS) : (afterBegin ts).rest.length ≤ ts.rest.length := by
  unfold afterBegin
  have a : (seekBegin ts.nextU).clear.nextU.rest.length ≤ (seekBegin ts.nextU).rest.length := by
    have := nextU_le (seekBegin ts.nextU).clear
    rwa [TS.clear_rest] at this
  have b := seekBegin_le ts.nextU
  have d := nextU_le ts
  omega

theorem afterBegin_lt (ts : TS) (h : ts.rest ≠ []) : (afterBegin ts).rest.length < ts.rest.length := by
  unfold afterBegin
  have a : (seekBegin ts.nextU).clear.nextU.rest.length ≤ (seekBegin ts.nextU).rest.length := by
    have := nextU_le (seekBegin ts.nextU).clear
    rwa [TS.clear_rest] at this
  have b := seekBegin_le ts.nextU
  have d := TS.nextU_lt ts h
  omega

/-- the result of a turn is bounded by the position after `BEGIN <name>` -/
theorem streamStepR_le_afterBegin {σ} (cfg : Cfg) (fl : Flags) (S : Sink σ) (c : Core) (acc : σ) (r : Core × σ)
    (h : streamStepR cfg fl S c acc = .ok r) : r.1.ts.rest.length ≤ (afterBegin c.ts).rest.length := by
  unfold streamStepR at h
  simp only [] at h
  show r.1.ts.rest.length ≤ ((seekBegin c.ts.nextU).clear.nextU).rest.length
  split at h
  · cases hp : parseTaxaBlock fl { c with ts := (seekBegin c.ts.nextU).clear.nextU } with
    | error e => simp [hp, Except.map] at h
    | ok c' =>
      simp only [hp, Except.map] at h
      cases h
      exact parseTaxaBlock_le _ _ _ hp
  · split at h
    · split at h
      · cases h; exact consumeToEndOfBlock_le _ _
      · cases h; exact parsedBlockSkeleton_le _
    · split at h
      · exact treesBlockR_le cfg fl S _ _ _ h
      · split at h
        · split at h
          · cases h; exact Nat.le_refl _
          · cases h; exact parsedBlockSkeleton_le _
        · split at h
          · cases h
          · cases h; exact consumeToEndOfBlock_le _ _

/-- one turn of the reader's block loop never gives tokens back, and consumes at least one when there is one -/
theorem streamStepR_le {σ} (cfg : Cfg) (fl : Flags) (S : Sink σ) (c : Core) (acc : σ) (r : Core × σ)
    (h : streamStepR cfg fl S c acc = .ok r) :
    r.1.ts.rest.length ≤ c.ts.rest.length ∧ (c.ts.rest ≠ [] → r.1.ts.rest.length < c.ts.rest.length) := by
  have a := streamStepR_le_afterBegin cfg fl S c acc r h
  constructor
  · exact Nat.le_trans a (afterBegin_le _)
  · intro hne
    exact Nat.lt_of_le_of_lt a (afterBegin_lt _ hne)

/-- on a dry stream the position after `BEGIN <name>` is the end of input, with no current token -/
theorem afterBegin_dry (ts : TS) (hd : ts.rest = []) :
    (afterBegin ts).cur = none ∧ (afterBegin ts).eof = true ∧ (afterBegin ts).rest = [] := by
  unfold afterBegin
  have e1 : ts.nextU.cur = none := by simp [TS.nextU, TS.step, hd]
  have e2 : ts.nextU.rest = [] := by simp [TS.nextU, TS.step, hd]
  have e3 : seekBegin ts.nextU = ts.nextU := by
    rw [seekBegin.eq_def]; simp [e1]
  rw [e3]
  simp [TS.nextU, TS.step, TS.clear, hd]

theorem consumeLoop_eof (ts : TS) (tok : Option String) (h : ts.eof = true) : consumeLoop ts tok = ts := by
  rw [consumeLoop.eq_def]; simp [h]

/-- on a dry stream the turn ends at end of input -/
theorem streamStepR_dry {σ} (cfg : Cfg) (fl : Flags) (S : Sink σ) (c : Core) (acc : σ) (r : Core × σ)
    (hd : c.ts.rest = []) (h : streamStepR cfg fl S c acc = .ok r) : r.1.ts.eof = true := by
  obtain ⟨hc, he, _⟩ := afterBegin_dry c.ts hd
  unfold afterBegin at hc he
  unfold streamStepR at h
  simp only [hc, isSetsKw] at h
  simp at h
  cases h
  simp only [consumeToEndOfBlock]
  rw [consumeLoop_eof _ _ he]
  exact he

end DendroModel.C13.Aux
