import DendroModel.Theory.C08Base
/-! C08 — `prune_taxa` = post-order strike + leaf-removal loop + suppression = the induced subtree; `retain_taxa`. -/
namespace DendroModel.C08.Aux
open DendroModel

/-- the predicate the strike pass of `prune_taxa` applies to leaves: not in `P` -/
def accOut (P : Nat → Bool) : Acc := fun _ x => !inP P x
/-- carries a taxon that is not in `P` -/
def keepOut (P : Nat → Bool) : Acc := fun _ x => x.isSome && !inP P x

theorem keepOut_eq (P : Nat → Bool) : keepOut P = keepTaxa (fun k => !P k) := by
  funext i x; cases x <;> simp [keepOut, keepTaxa, inP]

theorem rejected_mono {P : Nat → Bool} {c : T} (h : rejected (accOut P) c = true) : rejected (keepOut P) c = true := by
  simp only [rejected, accOut, keepOut, Bool.and_eq_true, Bool.not_eq_true', Bool.not_eq_false,
    Bool.and_eq_false_iff] at h ⊢
  exact ⟨h.1, Or.inr (by simp [h.2])⟩

mutual
theorem strike_eq (P : Nat → Bool) : ∀ t : T, InnerNoTaxon t →
    strike P true false t = if rejected (accOut P) t = true then none else some (dropPass (accOut P) t)
  | .node i x l s [], _ => by
      cases hp : inP P x <;>
        simp [strike, strikeL, rejected, accOut, T.isLeaf, T.cs, T.id, T.taxon, dropPass, dropPassL, hp]
  | .node i x l s (c :: cs), h => by
      simp only [InnerNoTaxon] at h
      have hx : x = none := h.1 (by simp)
      have hl := strikeL_eq P (c :: cs) h.2
      simp only [strike, hl, hx, inP, rejected, T.isLeaf, T.cs, dropPass]
      simp
theorem strikeL_eq (P : Nat → Bool) : ∀ cs : List T, InnerNoTaxonL cs → strikeL P true false cs = dropPassL (accOut P) cs
  | [], _ => rfl
  | c :: cs, h => by
      simp only [InnerNoTaxonL] at h
      simp only [strikeL, dropPassL, strike_eq P c h.1, strikeL_eq P cs h.2]
      by_cases hr : rejected (accOut P) c = true
      · simp [hr]
      · simp [hr]
end

mutual
theorem strike_restrict (P : Nat → Bool) : ∀ t : T, InnerNoTaxon t → ¬ rejected (accOut P) t = true →
    restrict hasTaxon false (dropPass (accOut P) t) = restrict (keepOut P) false t
  | .node i x l s [], _, hr => by
      rw [dropPass_leaf]
      simp only [rejected, accOut, T.isLeaf, T.cs, T.id, T.taxon, List.isEmpty_nil, Bool.true_and, Bool.not_not] at hr
      have hp : inP P x = false := by simpa using hr
      cases x with
      | none => simp [restrict, hasTaxon, keepOut]
      | some k => simp [restrict, hasTaxon, keepOut, hp]
  | .node i x l s (c :: cs), h, _ => by
      simp only [InnerNoTaxon] at h
      have hx : x = none := h.1 (by simp)
      have hl := strikeL_restrict P (c :: cs) h.2
      simp only [dropPass]
      cases hd : dropPassL (accOut P) (c :: cs) with
      | nil =>
        rw [hd] at hl
        have hl' : restrictL (keepOut P) false (c :: cs) = [] := by rw [← hl]; simp [restrictL]
        simp only [restrict, hl', hx, hasTaxon]
        simp
      | cons d ds =>
        rw [hd] at hl
        simp only [restrict, hl]
theorem strikeL_restrict (P : Nat → Bool) : ∀ cs : List T, InnerNoTaxonL cs →
    restrictL hasTaxon false (dropPassL (accOut P) cs) = restrictL (keepOut P) false cs
  | [], _ => rfl
  | c :: cs, h => by
      simp only [InnerNoTaxonL] at h
      have h2 := strikeL_restrict P cs h.2
      simp only [dropPassL]
      by_cases hr : rejected (accOut P) c = true
      · simp only [hr, if_true, restrictL, rejected_leaf_restrict (rejected_mono hr), h2]
      · have h1 := strike_restrict P c h.1 hr
        rw [if_neg hr]; simp only [restrictL, h1, h2]
end

theorem hasTaxon_noneRej : NoneRej hasTaxon := fun _ => rfl

theorem filter_fst (acc : Acc) (hN : NoneRej acc) (sup : Bool) (t : T) (hI : InnerNoTaxon t) :
    (filterLeaves acc true sup t).map (·.1) = restrict acc sup t := by
  have spec := dropLoop_spec acc hN t.size t [] hI (Nat.le_refl _)
  rw [← restrict_supIf]
  unfold filterLeaves
  cases hres : restrict acc false t with
  | none => simp [spec.2 hres]
  | some r => obtain ⟨rm, e, _⟩ := spec.1 r hres; simp [e]

theorem prune_eq (P : Nat → Bool) (sup : Bool) (t : T) (h : InnerNoTaxon t) :
    pruneTaxa P true false sup t = restrict (keepOut P) sup t := by
  unfold pruneTaxa
  rw [strike_eq P t h]
  by_cases hr : rejected (accOut P) t = true
  · simp only [hr, if_true]
    exact (rejected_leaf_restrict (rejected_mono hr)).symm
  · rw [if_neg hr]
    have hI := dropPass_inner (accOut P) t h
    have := filter_fst hasTaxon hasTaxon_noneRej sup (dropPass (accOut P) t) hI
    show (pruneLeavesWithoutTaxa true sup (dropPass (accOut P) t)).map (·.1) = _
    unfold pruneLeavesWithoutTaxa
    rw [this, ← restrict_supIf, strike_restrict P t h hr, restrict_supIf]

mutual
theorem restrict_congr (k1 k2 : Acc) (sup : Bool) : ∀ t : T,
    (∀ lf ∈ t.leaves, k1 lf.id lf.taxon = k2 lf.id lf.taxon) → restrict k1 sup t = restrict k2 sup t
  | .node i x l s [], h => by
      have := h (.node i x l s []) (by simp [T.leaves])
      simp only [T.id, T.taxon] at this
      simp [restrict, this]
  | .node i x l s (c :: cs), h => by
      have := restrictL_congr k1 k2 sup (c :: cs) (by simpa [T.leaves] using h)
      simp only [restrict, this]
theorem restrictL_congr (k1 k2 : Acc) (sup : Bool) : ∀ cs : List T,
    (∀ lf ∈ T.leavesL cs, k1 lf.id lf.taxon = k2 lf.id lf.taxon) → restrictL k1 sup cs = restrictL k2 sup cs
  | [], _ => rfl
  | c :: cs, h => by
      simp only [T.leavesL, List.mem_append] at h
      simp only [restrictL, restrict_congr k1 k2 sup c (fun lf hl => h lf (Or.inl hl)),
        restrictL_congr k1 k2 sup cs (fun lf hl => h lf (Or.inr hl))]
end

end DendroModel.C08.Aux
