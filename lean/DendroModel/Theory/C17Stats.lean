import DendroModel.Model.C17
import DendroModel.Theory.C17Frac
/-! C17 — helper lemmas about the tree statistics: the code's one-pass accumulations equal the textbook
sums over nodes, and do not depend on the order of children. -/
namespace DendroModel.C17.Aux
open DendroModel DendroModel.C17

theorem natSum_append (a b : List Nat) : natSum (a ++ b) = natSum a + natSum b := by
  induction a with
  | nil => simp [natSum]
  | cons x xs ih => simp only [natSum, List.cons_append, List.foldr_cons] at ih ⊢; omega

theorem natSum_cons (x : Nat) (a : List Nat) : natSum (x :: a) = x + natSum a := by simp [natSum]

theorem nodes_node (i x l s) (cs : List T) : T.nodes (.node i x l s cs) = .node i x l s cs :: T.nodesL cs := by
  simp [T.nodes]

/-! ### Sackin / N-bar -/

/-- sum over the internal nodes among the listed subtrees of the number of leaves below -/
def sackinL (cs : List T) : Nat := natSum (((T.nodesL cs).filter (fun v => !v.isLeaf)).map nLeaves)

theorem sackinL_cons (c : T) (cs : List T) : sackinL (c :: cs) = sackinDef c + sackinL cs := by
  simp [sackinL, sackinDef, T.nodesL, List.filter_append, natSum_append]

theorem sackinDef_leaf (i x l s) : sackinDef (.node i x l s []) = 0 := by
  simp [sackinDef, T.nodes, T.nodesL, T.isLeaf, T.cs, natSum]

theorem sackinDef_node (i x l s) (c : T) (cs : List T) :
    sackinDef (.node i x l s (c :: cs)) = nLeavesL (c :: cs) + sackinL (c :: cs) := by
  simp [sackinDef, sackinL, T.nodes, T.isLeaf, T.cs, natSum_cons, nLeaves]

mutual
theorem leafAnc_spec : ∀ (t : T) (k : Nat), leafAnc k t = (nLeaves t, k * nLeaves t + sackinDef t)
  | .node i x l s [], k => by simp [leafAnc, nLeaves, sackinDef_leaf]
  | .node i x l s (c :: cs), k => by
    rw [leafAnc, leafAncL_spec (c :: cs) (k + 1), sackinDef_node]
    simp only [nLeaves, Prod.mk.injEq, true_and]
    rw [Nat.add_mul]; omega
theorem leafAncL_spec : ∀ (cs : List T) (k : Nat), leafAncL k cs = (nLeavesL cs, k * nLeavesL cs + sackinL cs)
  | [], k => by simp [leafAncL, nLeavesL, sackinL, T.nodesL, natSum]
  | c :: cs, k => by
    rw [leafAncL, leafAnc_spec c k, leafAncL_spec cs k, sackinL_cons]
    simp only [nLeavesL, Prod.mk.injEq, true_and]
    rw [Nat.mul_add]; omega
end

/-! ### Colless -/

theorem collessDef_leaf (i x l s) : collessDef (.node i x l s []) = 0 := by
  simp [collessDef, T.nodes, T.nodesL, collessTerm, natSum]

theorem collessDef_two (i x l s) (a b : T) :
    collessDef (.node i x l s [a, b]) = collessDef a + collessDef b + absDiff (nLeaves b) (nLeaves a) := by
  simp only [collessDef, T.nodes, T.nodesL, List.map_cons, List.map_append, List.append_nil, collessTerm,
    natSum_cons, natSum_append]
  omega

theorem collessAcc_spec : ∀ t : T,
    collessAcc t = if binary t then .ok (nLeaves t, collessDef t) else .error .nonbinary
  | .node i x l s [] => by simp [collessAcc, binary, nLeaves, collessDef_leaf]
  | .node i x l s [a] => by simp [collessAcc, binary]
  | .node i x l s [a, b] => by
    rw [collessAcc, collessAcc_spec a, collessAcc_spec b]
    by_cases ha : binary a = true <;> by_cases hb : binary b = true <;>
      simp [ha, hb, binary, nLeaves, nLeavesL, collessDef_two]
    omega
  | .node i x l s (a :: b :: c :: r) => by simp [collessAcc, binary]

/-! ### B1 -/

/-- `Σ 1 / height v` over the internal nodes among the listed subtrees -/
def b1SumL (cs : List T) : ℚ :=
  (((T.nodesL cs).filter (fun v => !v.isLeaf)).map (fun v => (1 : ℚ) / (height v : ℚ))).sum

def b1Sum (t : T) : ℚ :=
  (((T.nodes t).filter (fun v => !v.isLeaf)).map (fun v => (1 : ℚ) / (height v : ℚ))).sum

theorem b1SumL_cons (c : T) (cs : List T) : b1SumL (c :: cs) = b1Sum c + b1SumL cs := by
  simp [b1SumL, b1Sum, T.nodesL, List.filter_append]

mutual
theorem b1Acc_spec : ∀ t : T, (b1Acc t).1 = height t ∧ (b1Acc t).2.WF ∧ (b1Acc t).2.toRat = b1Sum t
  | .node i x l s [] => by
    simp [b1Acc, height, b1Sum, T.nodes, T.nodesL, T.isLeaf, T.cs, Frac.zero_wf, Frac.zero_toRat]
  | .node i x l s (c :: cs) => by
    obtain ⟨h1, h2, h3⟩ := b1AccL_spec (c :: cs)
    refine ⟨by simp [b1Acc, height, h1], Frac.add_wf _ _, ?_⟩
    simp only [b1Acc]
    rw [Frac.add_toRat h2 (Frac.mk'_wf _ _), Frac.mk'_toRat _ (Nat.succ_ne_zero _), h3, h1]
    simp only [b1Sum, b1SumL, nodes_node, List.filter_cons, T.isLeaf, T.cs, List.isEmpty_cons, Bool.not_false,
      if_true, List.map_cons, List.sum_cons, height]
    push_cast; ring
theorem b1AccL_spec : ∀ cs : List T, (b1AccL cs).1 = heightL cs ∧ (b1AccL cs).2.WF ∧ (b1AccL cs).2.toRat = b1SumL cs
  | [] => by simp [b1AccL, heightL, b1SumL, T.nodesL, Frac.zero_wf, Frac.zero_toRat]
  | c :: cs => by
    obtain ⟨h1, h2, h3⟩ := b1Acc_spec c
    obtain ⟨g1, g2, g3⟩ := b1AccL_spec cs
    refine ⟨by simp [b1AccL, heightL, h1, g1], Frac.add_wf _ _, ?_⟩
    simp only [b1AccL]
    rw [Frac.add_toRat h2 g2, h3, g3, b1SumL_cons]
end

/-! ### gamma: the two accumulators of the loop -/

/-- `Σ_j (i+j) g_j` -/
def wsum : Nat → List ℚ → ℚ
  | _, [] => 0
  | i, g :: gs => (i : ℚ) * g + wsum (i + 1) gs

/-- `Σ_m Σ_{j ≤ m} (i+j) g_j` -/
def dsum : Nat → List ℚ → ℚ
  | _, [] => 0
  | i, g :: gs => ((gs.length : ℚ) + 1) * ((i : ℚ) * g) + dsum (i + 1) gs

theorem gammaLoop_spec : ∀ (gs : List Frac) (i : Nat) (tt acc : Frac), (∀ g ∈ gs, g.WF) → tt.WF → acc.WF →
    (gammaLoop i gs tt acc).1.WF ∧ (gammaLoop i gs tt acc).2.WF ∧
    (gammaLoop i gs tt acc).1.toRat = tt.toRat + wsum i (gs.map Frac.toRat) ∧
    (gammaLoop i gs tt acc).2.toRat = acc.toRat + (gs.length : ℚ) * tt.toRat + dsum i (gs.map Frac.toRat)
  | [], i, tt, acc, _, ht, ha => by simp [gammaLoop, wsum, dsum, ht, ha]
  | g :: gs, i, tt, acc, hg, ht, ha => by
    have hgw : g.WF := hg g List.mem_cons_self
    have hmul : (Frac.ofNat i * g).WF := Frac.mul_wf _ _
    have ht' : (tt + Frac.ofNat i * g).WF := Frac.add_wf _ _
    have ha' : (acc + (tt + Frac.ofNat i * g)).WF := Frac.add_wf _ _
    obtain ⟨h1, h2, h3, h4⟩ := gammaLoop_spec gs (i + 1) _ _ (fun x hx => hg x (List.mem_cons_of_mem _ hx)) ht' ha'
    have e1 : (tt + Frac.ofNat i * g).toRat = tt.toRat + (i : ℚ) * g.toRat := by
      rw [Frac.add_toRat ht hmul, Frac.mul_toRat (Frac.ofNat_wf i) hgw, Frac.ofNat_toRat]
    have e2 : (acc + (tt + Frac.ofNat i * g)).toRat = acc.toRat + (tt.toRat + (i : ℚ) * g.toRat) := by
      rw [Frac.add_toRat ha ht', e1]
    simp only [gammaLoop]
    refine ⟨h1, h2, ?_, ?_⟩
    · rw [h3, e1]; simp only [List.map_cons, wsum]; ring
    · rw [h4, e2, e1]; simp only [List.map_cons, wsum, dsum, List.length_cons, List.length_map]; push_cast; ring

/-- the recursive sums are the Pybus–Harvey sums written with `Finset.range` -/
theorem wsum_eq_sum : ∀ (gs : List ℚ) (i : Nat),
    wsum i gs = ∑ j ∈ Finset.range gs.length, ((i + j : ℕ) : ℚ) * gs.getD j 0
  | [], i => by simp [wsum]
  | g :: gs, i => by
    rw [wsum, wsum_eq_sum gs (i + 1), List.length_cons, Finset.sum_range_succ']
    simp only [List.getD_cons_succ, List.getD_cons_zero, Nat.add_zero]
    rw [add_comm]
    congr 1
    apply Finset.sum_congr rfl
    intro j _
    congr 2; omega

theorem dsum_eq_sum : ∀ (gs : List ℚ) (i : Nat),
    dsum i gs = ∑ m ∈ Finset.range gs.length, ∑ j ∈ Finset.range (m + 1), ((i + j : ℕ) : ℚ) * gs.getD j 0
  | [], i => by simp [dsum]
  | g :: gs, i => by
    rw [dsum, dsum_eq_sum gs (i + 1), List.length_cons]
    have : ∀ m, ∑ j ∈ Finset.range (m + 1), ((i + j : ℕ) : ℚ) * (g :: gs).getD j 0
        = (i : ℚ) * g + ∑ j ∈ Finset.range m, ((i + 1 + j : ℕ) : ℚ) * gs.getD j 0 := by
      intro m
      rw [Finset.sum_range_succ']
      simp only [List.getD_cons_succ, List.getD_cons_zero, Nat.add_zero]
      rw [add_comm]
      congr 1
      apply Finset.sum_congr rfl
      intro j _
      congr 2; omega
    simp only [this]
    rw [Finset.sum_add_distrib, Finset.sum_const, Finset.card_range, Finset.sum_range_succ']
    simp only [Finset.range_zero, Finset.sum_empty, add_zero, nsmul_eq_mul]
    push_cast; ring

/-! ### gamma: from the speciation ages to the two sums -/

theorem wsum_append : ∀ (a b : List ℚ) (i : Nat), wsum i (a ++ b) = wsum i a + wsum (i + a.length) b
  | [], b, i => by simp [wsum]
  | x :: a, b, i => by
    simp only [List.cons_append, wsum, wsum_append a b (i + 1), List.length_cons]
    rw [show i + 1 + a.length = i + (a.length + 1) by omega]; ring

theorem insertDesc_perm (x : Frac) : ∀ l : List Frac, (insertDesc x l).Perm (x :: l)
  | [] => by simp [insertDesc]
  | y :: ys => by
    simp only [insertDesc]
    split
    · exact ((insertDesc_perm x ys).cons y).trans (List.Perm.swap x y ys)
    · exact List.Perm.refl _

theorem sortDesc_perm : ∀ l : List Frac, (sortDesc l).Perm l
  | [] => by simp [sortDesc]
  | x :: xs => by
    have ih := sortDesc_perm xs
    simp only [sortDesc, List.foldr_cons] at ih ⊢
    exact (insertDesc_perm x _).trans (ih.cons x)

/-- descending in ℚ -/
def Desc (l : List Frac) : Prop := l.Pairwise (fun a b => b.toRat ≤ a.toRat)

theorem insertDesc_desc {x : Frac} (hx : x.WF) : ∀ l : List Frac, (∀ y ∈ l, y.WF) → Desc l → Desc (insertDesc x l)
  | [], _, _ => by simp [insertDesc, Desc]
  | y :: ys, hw, hd => by
    have hy : y.WF := hw y List.mem_cons_self
    have hd' := List.pairwise_cons.mp hd
    simp only [insertDesc]
    by_cases hlt : Frac.lt x y = true
    · simp only [hlt, if_true]
      have ih := insertDesc_desc hx ys (fun z hz => hw z (List.mem_cons_of_mem _ hz)) hd'.2
      refine List.pairwise_cons.mpr ⟨?_, ih⟩
      intro z hz
      rcases List.mem_cons.mp ((insertDesc_perm x ys).subset hz) with rfl | hz'
      · exact le_of_lt ((Frac.lt_iff hx hy).mp hlt)
      · exact hd'.1 z hz'
    · have hf : Frac.lt x y = false := by simpa using hlt
      simp only [hf, Bool.false_eq_true, if_false]
      have hyx := (Frac.lt_false_iff hx hy).mp hf
      refine List.pairwise_cons.mpr ⟨?_, hd⟩
      intro z hz
      rcases List.mem_cons.mp hz with rfl | hz'
      · exact hyx
      · exact le_trans (hd'.1 z hz') hyx

theorem sortDesc_desc : ∀ l : List Frac, (∀ y ∈ l, y.WF) → Desc (sortDesc l)
  | [], _ => by simp [sortDesc, Desc]
  | x :: xs, hw => by
    have ih := sortDesc_desc xs (fun z hz => hw z (List.mem_cons_of_mem _ hz))
    simp only [sortDesc, List.foldr_cons] at ih ⊢
    exact insertDesc_desc (hw x List.mem_cons_self) _
      (fun z hz => hw z (List.mem_cons_of_mem _ ((sortDesc_perm xs).subset hz))) ih

theorem intervals_length : ∀ l : List Frac, (intervals l).length = l.length
  | [] => rfl
  | [_] => rfl
  | a :: b :: r => by simp [intervals, intervals_length (b :: r)]

theorem intervals_wf : ∀ l : List Frac, (∀ x ∈ l, x.WF) → ∀ g ∈ intervals l, g.WF
  | [], _, g, hg => by simp [intervals] at hg
  | [a], h, g, hg => by
    simp only [intervals, List.mem_singleton] at hg; rw [hg]; exact h a List.mem_cons_self
  | a :: b :: r, h, g, hg => by
    simp only [intervals] at hg
    rcases List.mem_cons.mp hg with rfl | hg'
    · exact Frac.sub_wf _ _
    · exact intervals_wf (b :: r) (fun x hx => h x (List.mem_cons_of_mem _ hx)) g hg'

/-- `g_j = S_j − S_{j+1}` (with `S_len = 0`): the waiting time between consecutive speciation ages -/
theorem intervals_getD : ∀ (l : List Frac), (∀ x ∈ l, x.WF) → ∀ j : Nat,
    ((intervals l).map Frac.toRat).getD j 0 = (l.map Frac.toRat).getD j 0 - (l.map Frac.toRat).getD (j + 1) 0
  | [], _, j => by simp [intervals]
  | [a], _, j => by
    cases j <;> simp [intervals]
  | a :: b :: r, h, j => by
    have ha := h a List.mem_cons_self
    have hb := h b (List.mem_cons_of_mem _ List.mem_cons_self)
    cases j with
    | zero => simp [intervals, Frac.sub_toRat ha hb]
    | succ j =>
      have ih := intervals_getD (b :: r) (fun x hx => h x (List.mem_cons_of_mem _ hx)) j
      simpa [intervals] using ih

theorem getLast!_eq_getLast {l : List Frac} (h : l ≠ []) : l.getLast! = l.getLast h := by
  cases l with
  | nil => exact absurd rfl h
  | cons a as => simp [List.getLast!]

theorem gammaParts_spec (a : AT) (hwf : ∀ x ∈ (specAges a).1, x.WF) {num tt : Frac} {n : Nat}
    (h : gammaParts a = .ok (num, tt, n)) :
    n = (specAges a).2 ∧ ((intervals (sortDesc (specAges a).1)).map Frac.toRat).length + 1 = n ∧ 3 ≤ n ∧
    tt.toRat = wsum 2 ((intervals (sortDesc (specAges a).1)).map Frac.toRat) ∧
    num.toRat = dsum 2 (((intervals (sortDesc (specAges a).1)).dropLast).map Frac.toRat) / ((n : ℚ) - 2) - tt.toRat / 2 := by
  rcases hsa : specAges a with ⟨sa, n0⟩
  rw [hsa] at hwf
  simp only at hwf
  have hS : ∀ x ∈ sortDesc sa, x.WF := fun x hx => hwf x ((sortDesc_perm sa).subset hx)
  unfold gammaParts at h
  rw [hsa] at h
  simp only at h
  cases hs : sortDesc sa with
  | nil => rw [hs] at h; cases h
  | cons s ss =>
    rw [hs] at h hS
    simp only at h
    have hg := intervals_wf (s :: ss) hS
    have hlen := intervals_length (s :: ss)
    have hne : intervals (s :: ss) ≠ [] := by
      intro h0; rw [h0] at hlen; simp at hlen
    split at h
    · cases h
    · rename_i hl
      split at h
      · cases h
      · rename_i hn2
        have hl' : (intervals (s :: ss)).length + 1 = n0 := by simpa using hl
        have hn2' : n0 ≠ 2 := by simpa using hn2
        have hdl : ∀ g ∈ (intervals (s :: ss)).dropLast, g.WF :=
          fun g hgm => hg g (List.dropLast_subset _ hgm)
        obtain ⟨w1, w2, e1, e2⟩ := gammaLoop_spec _ 2 Frac.zero Frac.zero hdl Frac.zero_wf Frac.zero_wf
        have hlast : (intervals (s :: ss)).getLast!.WF := by
          rw [getLast!_eq_getLast hne]; exact hg _ (List.getLast_mem hne)
        simp only [Except.ok.injEq, Prod.mk.injEq] at h
        obtain ⟨hnum, htt, hn⟩ := h
        subst hn
        have hmul : (Frac.ofNat n0 * (intervals (s :: ss)).getLast!).WF := Frac.mul_wf _ _
        have httq : tt.toRat = wsum 2 ((intervals (s :: ss)).map Frac.toRat) := by
          rw [← htt, Frac.add_toRat w1 hmul, e1, Frac.mul_toRat (Frac.ofNat_wf _) hlast, Frac.ofNat_toRat,
            Frac.zero_toRat, zero_add]
          conv_rhs => rw [← List.dropLast_append_getLast hne, List.map_append, wsum_append]
          simp only [List.map_cons, List.map_nil, wsum, List.length_map, List.length_dropLast, add_zero]
          rw [getLast!_eq_getLast hne]
          have : 2 + ((intervals (s :: ss)).length - 1) = n0 := by
            have : 0 < (intervals (s :: ss)).length := List.length_pos_of_ne_nil hne
            omega
          rw [this]
        have hn3 : 3 ≤ n0 := by
          have : 0 < (intervals (s :: ss)).length := List.length_pos_of_ne_nil hne
          omega
        refine ⟨rfl, by simpa using hl', hn3, httq, ?_⟩
        have hsub : (Frac.ofNat (n0 - 2)).toRat = (n0 : ℚ) - 2 := by
          rw [Frac.ofNat_toRat]; push_cast [Nat.cast_sub (by omega : 2 ≤ n0)]; ring
        rw [← hnum, Frac.sub_toRat (Frac.div_wf _ _) (Frac.half_wf _), Frac.div_toRat w2 (Frac.ofNat_wf _),
          Frac.half_toRat (Frac.add_wf _ _), e2, hsub, Frac.zero_toRat, htt, httq]
        simp

theorem gammaParts_wf (a : AT) {num tt : Frac} {n : Nat} (h : gammaParts a = .ok (num, tt, n)) : num.WF ∧ tt.WF := by
  unfold gammaParts at h
  rcases hsa : specAges a with ⟨sa, n0⟩
  rw [hsa] at h
  simp only at h
  cases hs : sortDesc sa with
  | nil => rw [hs] at h; cases h
  | cons s ss =>
    rw [hs] at h
    simp only at h
    split at h
    · cases h
    · split at h
      · cases h
      · simp only [Except.ok.injEq, Prod.mk.injEq] at h
        obtain ⟨hnum, htt, _⟩ := h
        exact ⟨by rw [← hnum]; exact Frac.sub_wf _ _, by rw [← htt]; exact Frac.add_wf _ _⟩

end DendroModel.C17.Aux
