import DendroModel.Theory.C07Path
/-! C07 — `downL` / `distL` do not depend on the order of the children (leaves distinct). -/
namespace DendroModel.C07.Path

theorem distL_cons_eq (c : LT) (cs : List LT) (a b : Nat) :
    distL (c :: cs) a b = match down c a, down c b with
      | some _, some _ => dist c a b
      | some x, none => (downL cs b).map (x + ·)
      | none, some y => (downL cs a).map (· + y)
      | none, none => distL cs a b := by
  rw [distL]; cases down c a <;> cases down c b <;> rfl

theorem downL_cons_eq (c : LT) (cs : List LT) (a : Nat) :
    downL (c :: cs) a = match down c a with
      | some d => some d
      | none => downL cs a := by
  rw [downL]; cases down c a <;> rfl

theorem leavesL_perm_LT {l1 l2 : List LT} (h : l1.Perm l2) : (leavesL l1).Perm (leavesL l2) := by
  induction h with
  | nil => exact List.Perm.refl _
  | cons x _ ih => simp only [leavesL]; exact ih.append_left _
  | swap x y l =>
    simp only [leavesL]
    rw [← List.append_assoc, ← List.append_assoc]
    exact List.Perm.append_right _ List.perm_append_comm
  | trans _ _ ih1 ih2 => exact ih1.trans ih2

/-- two distinct children cannot both contain the leaf `a` -/
theorem not_both {x y : LT} {l : List LT} (hnd : (leavesL (x :: y :: l)).Nodup) {a : Nat} {d e : ℚ}
    (hx : down x a = some d) (hy : down y a = some e) : False := by
  have hax : a ∈ leaves x := (down_some_iff x a).mp (by simp [hx])
  have hay : a ∈ leaves y := (down_some_iff y a).mp (by simp [hy])
  simp only [leavesL] at hnd
  have := (List.nodup_append.mp hnd).2.2 a hax a (List.mem_append_left _ hay)
  exact this rfl

theorem downL_perm {l1 l2 : List LT} (h : l1.Perm l2) : (leavesL l1).Nodup → ∀ a, downL l1 a = downL l2 a := by
  induction h with
  | nil => intro _ _; rfl
  | cons x _ ih =>
    intro hnd a
    simp only [leavesL] at hnd
    rw [downL_cons_eq, downL_cons_eq, ih (List.nodup_append.mp hnd).2.1 a]
  | swap x y l =>
    intro hnd a
    rw [downL_cons_eq, downL_cons_eq, downL_cons_eq, downL_cons_eq]
    cases hx : down x a <;> cases hy : down y a <;> simp only
    exact (not_both (by
      have := (leavesL_perm_LT (List.Perm.swap x y l)).nodup_iff.mp hnd
      exact this) hx hy).elim
  | trans h1 _ ih1 ih2 =>
    intro hnd a
    rw [ih1 hnd a, ih2 ((leavesL_perm_LT h1).nodup_iff.mp hnd) a]

theorem distL_perm {l1 l2 : List LT} (h : l1.Perm l2) : (leavesL l1).Nodup → ∀ a b, distL l1 a b = distL l2 a b := by
  induction h with
  | nil => intro _ _ _; rfl
  | @cons x l1 l2 hp ih =>
    intro hnd a b
    simp only [leavesL] at hnd
    have hnd' := (List.nodup_append.mp hnd).2.1
    rw [distL_cons_eq, distL_cons_eq, ih hnd' a b, downL_perm hp hnd' a, downL_perm hp hnd' b]
  | swap x y l =>
    intro hnd a b
    have hnd2 : (leavesL (x :: y :: l)).Nodup := (leavesL_perm_LT (List.Perm.swap x y l)).nodup_iff.mp hnd
    rw [distL_cons_eq y, distL_cons_eq x, distL_cons_eq x, distL_cons_eq y, downL_cons_eq x, downL_cons_eq x, downL_cons_eq y, downL_cons_eq y]
    cases hxa : down x a <;> cases hxb : down x b <;> cases hya : down y a <;> cases hyb : down y b <;>
      simp only [Option.map_some] <;>
      first
        | rfl
        | exact (not_both hnd2 hxa hya).elim
        | exact (not_both hnd2 hxb hyb).elim
  | trans h1 _ ih1 ih2 =>
    intro hnd a b
    rw [ih1 hnd a b, ih2 ((leavesL_perm_LT h1).nodup_iff.mp hnd) a b]

end DendroModel.C07.Path
