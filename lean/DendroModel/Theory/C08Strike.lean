import DendroModel.Theory.C08Spec
/-! C08 — an independent description of the post-order `strike` pass of `prune_taxa` on ARBITRARY trees (taxa on internal
nodes included), for three of the four flag settings:
* leaf flag on, internal flag off (the default): exactly the nodes ALL of whose subtree (themselves included) carries a
  pruned taxon disappear (`allIn`), everything else stays, records and parent/child pairs unchanged;
* both flags on: exactly the nodes that carry a pruned taxon disappear, with everything below them (`chop`, a top-down
  decision that never looks at the children);
* both flags off: nothing happens.
(leaf flag off, internal flag on: a node goes iff it carries a pruned taxon and keeps a child; no closed form is given.) -/
namespace DendroModel.C08
open DendroModel

namespace Aux

mutual
theorem allIn_nodes (P : Nat → Bool) : ∀ t : T, allIn P t = t.nodes.all (fun n => inP P n.taxon)
  | .node i x l s cs => by simp [allIn, T.nodes, T.taxon, allInL_nodes P cs]
theorem allInL_nodes (P : Nat → Bool) : ∀ cs : List T, allInL P cs = (T.nodesL cs).all (fun n => inP P n.taxon)
  | [] => by simp [allInL, T.nodesL]
  | c :: cs => by simp [allInL, T.nodesL, allIn_nodes P c, allInL_nodes P cs]
end

mutual
theorem allIn_filter_nil (P : Nat → Bool) : ∀ t : T, allIn P t = true → t.nodes.filter (fun n => !allIn P n) = []
  | .node i x l s cs, h => by
      have h' := h
      simp only [allIn, Bool.and_eq_true] at h'
      simp only [T.nodes, List.filter_cons, h, Bool.not_true, Bool.false_eq_true, if_false]
      exact allInL_filter_nil P cs h'.2
theorem allInL_filter_nil (P : Nat → Bool) : ∀ cs : List T, allInL P cs = true → (T.nodesL cs).filter (fun n => !allIn P n) = []
  | [], _ => by simp [T.nodesL]
  | c :: cs, h => by
      simp only [allInL, Bool.and_eq_true] at h
      simp [T.nodesL, List.filter_append, allIn_filter_nil P c h.1, allInL_filter_nil P cs h.2]
end

mutual
theorem allIn_pedges_nil (P : Nat → Bool) : ∀ t : T, allIn P t = true → (pedges t).filter (fun e => !allIn P e.2) = []
  | .node i x l s cs, h => by
      simp only [allIn, Bool.and_eq_true] at h
      simp only [pedges]; exact allInL_pedges_nil P i cs h.2
theorem allInL_pedges_nil (P : Nat → Bool) (p : Nat) : ∀ cs : List T, allInL P cs = true →
    (pedgesL p cs).filter (fun e => !allIn P e.2) = []
  | [], _ => by simp [pedgesL]
  | c :: cs, h => by
      simp only [allInL, Bool.and_eq_true] at h
      simp [pedgesL, List.filter_cons, h.1, allIn_pedges_nil P c h.1, allInL_pedges_nil P p cs h.2]
end

-- default flags: what stays, node by node and edge by edge
mutual
theorem strike_default (P : Nat → Bool) : ∀ t : T,
    (strike P true false t).isNone = allIn P t ∧
    (∀ r, strike P true false t = some r →
      head r = head t ∧
      r.nodes.map head = (t.nodes.filter (fun n => !allIn P n)).map head ∧
      (pedges r).map eview = ((pedges t).filter (fun e => !allIn P e.2)).map eview)
  | .node i x l s cs => by
      obtain ⟨la, ln, le⟩ := strikeL_default P i cs
      simp only [strike]
      by_cases hx : inP P x = true
      · by_cases hc : (strikeL P true false cs).isEmpty = true
        · have hall : allInL P cs = true := by rw [la]; exact hc
          simp [hx, hc, allIn, hall]
        · have hc' : (strikeL P true false cs).isEmpty = false := by simpa using hc
          have hall : allInL P cs = false := by rw [la]; exact hc'
          have hnot : allIn P (.node i x l s cs) = false := by simp [allIn, hall]
          simp only [hx, hc', Bool.false_eq_true, if_false, Bool.and_true, Bool.false_and, Option.isSome_some, Option.isNone_some,
            hnot, true_and, Option.some.injEq]
          intro r hr; subst hr
          refine ⟨rfl, ?_, ?_⟩
          · simp [T.nodes, List.filter_cons, hnot, ln, head, T.id, T.taxon, T.len, T.label]
          · simpa [pedges] using le
      · have hx' : inP P x = false := by simpa using hx
        have hnot : allIn P (.node i x l s cs) = false := by simp [allIn, hx']
        simp only [hx', Bool.and_false, Bool.false_eq_true, if_false, Option.isNone_some, hnot, true_and, Option.some.injEq]
        intro r hr; subst hr
        refine ⟨rfl, ?_, ?_⟩
        · simp [T.nodes, List.filter_cons, hnot, ln, head, T.id, T.taxon, T.len, T.label]
        · simpa [pedges] using le
theorem strikeL_default (P : Nat → Bool) (p : Nat) : ∀ cs : List T,
    allInL P cs = (strikeL P true false cs).isEmpty ∧
    (T.nodesL (strikeL P true false cs)).map head = ((T.nodesL cs).filter (fun n => !allIn P n)).map head ∧
    (pedgesL p (strikeL P true false cs)).map eview = ((pedgesL p cs).filter (fun e => !allIn P e.2)).map eview
  | [] => by simp [allInL, strikeL, T.nodesL, pedgesL]
  | c :: cs => by
      obtain ⟨a1, a2⟩ := strike_default P c
      obtain ⟨b1, b2, b3⟩ := strikeL_default P p cs
      simp only [strikeL, allInL, T.nodesL, pedgesL, List.filter_append, List.map_append, List.filter_cons]
      cases hc : strike P true false c with
      | none =>
        have hall : allIn P c = true := by rw [← a1, hc]; rfl
        simp [hall, b1, b2, b3, allIn_filter_nil P c hall, allIn_pedges_nil P c hall]
      | some r =>
        have hall : allIn P c = false := by rw [← a1, hc]; rfl
        obtain ⟨h0, h1, h2⟩ := a2 r hc
        simp [hall, T.nodesL, pedgesL, h1, h2, b2, b3, eview, h0]
end

-- both flags on
mutual
theorem strike_both (P : Nat → Bool) : ∀ t : T, strike P true true t = chop P t
  | .node i x l s cs => by
      simp only [strike, chop, strikeL_both P cs]
      by_cases hx : inP P x = true <;> simp [hx]
theorem strikeL_both (P : Nat → Bool) : ∀ cs : List T, strikeL P true true cs = chopL P cs
  | [] => rfl
  | c :: cs => by
      simp only [strikeL, chopL, strike_both P c, strikeL_both P cs]
      try (cases chop P c <;> rfl)
end

-- both flags off
mutual
theorem strike_none (P : Nat → Bool) : ∀ t : T, strike P false false t = some t
  | .node i x l s cs => by simp [strike, strikeL_none P cs]
theorem strikeL_none (P : Nat → Bool) : ∀ cs : List T, strikeL P false false cs = cs
  | [] => rfl
  | c :: cs => by simp [strikeL, strike_none P c, strikeL_none P cs]
end

-- leaf flag off, internal flag on
theorem dropFIL_isEmpty (P : Nat → Bool) : ∀ cs : List T, (dropFIL P cs).isEmpty = !someStaysFI P cs
  | [] => rfl
  | c :: cs => by
      simp only [dropFIL, someStaysFI]
      by_cases h : goneFI P c = true
      · simp [h, dropFIL_isEmpty P cs]
      · have h' : goneFI P c = false := by simpa using h
        simp [h']

mutual
theorem strike_fi (P : Nat → Bool) : ∀ t : T, strike P false true t = if goneFI P t then none else some (dropFI P t)
  | .node i x l s cs => by
      simp only [strike, goneFI, dropFI, strikeL_fi P cs, dropFIL_isEmpty P cs]
      by_cases hx : inP P x = true <;> by_cases hc : someStaysFI P cs = true <;> simp [hx, hc]
theorem strikeL_fi (P : Nat → Bool) : ∀ cs : List T, strikeL P false true cs = dropFIL P cs
  | [] => rfl
  | c :: cs => by
      simp only [strikeL, dropFIL, strike_fi P c, strikeL_fi P cs]
      by_cases h : goneFI P c = true <;> simp [h]
end

-- default flags, as one recursive function that decides top-down with `allIn`
mutual
theorem strike_eq_sweep (P : Nat → Bool) : ∀ t : T, strike P true false t = sweep P t
  | .node i x l s cs => by
      have la := (strikeL_default P i cs).1
      simp only [strike, sweep, allIn, strikeL_eq_sweepL P cs]
      rw [la, strikeL_eq_sweepL P cs]
      by_cases hx : inP P x = true <;> by_cases hc : (sweepL P cs).isEmpty = true <;> simp [hx, hc]
theorem strikeL_eq_sweepL (P : Nat → Bool) : ∀ cs : List T, strikeL P true false cs = sweepL P cs
  | [] => rfl
  | c :: cs => by
      simp only [strikeL, sweepL, strike_eq_sweep P c, strikeL_eq_sweepL P cs]
      try (cases sweep P c <;> rfl)
end

end Aux
end DendroModel.C08
