import DendroModel.Theory.C02Stmt
import DendroModel.Theory.C02Assign
import DendroModel.Theory.C02Fuel
/-! several statements in one text, read into a pre-filled namespace -/
namespace DendroModel.C02
open DendroModel.Tables

def stmtText (o : WOpts) (x : WT) : Str := writeTree o x.1 x.2.1 x.2.2

/-- what `as_string` produces for a tree list: every statement followed by a newline -/
def listText (o : WOpts) (ts : List WT) : Str := ts.flatMap (fun x => stmtText o x ++ ['\n'])

namespace Aux

theorem tokenize_eq_all (pu : Bool) (inp : Str) : ∀ k, tokenize pu (inp.length + 1 + k) inp = tokenizeAll pu inp := by
  intro k
  induction k with
  | zero => rfl
  | succ k ih =>
    rw [← ih, show inp.length + 1 + (k + 1) = (inp.length + 1 + k) + 1 by omega]
    exact (tokenize_fuel_indep pu _ inp (by omega)).symm

theorem tokenize_big (pu : Bool) (inp : Str) (f : Nat) (h : inp.length < f) : tokenize pu f inp = tokenizeAll pu inp := by
  obtain ⟨k, rfl⟩ : ∃ k, f = inp.length + 1 + k := ⟨f - (inp.length + 1), by omega⟩
  exact tokenize_eq_all pu inp k

theorem tokenizeAll_step (pu : Bool) (inp t : Str) (q : Bool) (cm : List Str) (rest : Str)
    (h : nextTok pu inp = .tok t q cm rest) :
    tokenizeAll pu inp = ⟨⟨t, q, cm⟩ :: (tokenizeAll pu rest).toks, (tokenizeAll pu rest).ok, (tokenizeAll pu rest).atEof⟩ := by
  have hs := next_shorter pu _ inp [] t q cm rest h
  unfold tokenizeAll
  rw [tokenize, h]
  dsimp only
  rw [tokenize_big pu rest inp.length hs]
  rfl

theorem tokenizeAll_items (o : WOpts) (pu : Bool) (hc : Consistent o.ps o.uu pu) (l : List XTok) (hl : XSep l)
    (d : Char) (hd : d ∈ tokCaptured) (rest : Str) :
    ∃ ts, tokenizeAll pu (xrenderL o l ++ d :: rest) =
        ⟨ts ++ (tokenizeAll pu (d :: rest)).toks, (tokenizeAll pu (d :: rest)).ok, (tokenizeAll pu (d :: rest)).atEof⟩
      ∧ ts.map kind = l.map kindX ∧ ∀ t ∈ ts, t.cm = [] := by
  obtain ⟨ts, h1, h2, h3⟩ := tokenize_items o pu hc l hl d hd rest ((xrenderL o l ++ d :: rest).length + 1)
  refine ⟨ts, ?_, h2, h3⟩
  rw [tokenize_big pu _ _ (by omega), tokenize_big pu (d :: rest) _ (by simp; omega)] at h1
  exact h1

theorem next_nl (pu : Bool) (f : Nat) (inp : Str) (cm : List Str) :
    next pu (f + 1) ('\n' :: inp) cm = next pu (f + 1) inp cm := by
  have h : isUncap '\n' = true := by decide
  rw [next, next]
  simp [skipWs, h]

/-- the statements after a `;`: a newline, then the next statement (if any) -/
def restText (o : WOpts) : List WT → Str
  | [] => ['\n']
  | x :: xs => '\n' :: (stmtText o x ++ restText o xs)

theorem listText_cons (o : WOpts) (x : WT) (xs : List WT) : listText o (x :: xs) = stmtText o x ++ restText o xs := by
  induction xs generalizing x with
  | nil => simp [listText, restText]
  | cons y ys ih =>
    have := ih y
    simp only [listText, List.flatMap_cons] at this ⊢
    rw [this]
    simp [restText]

/-- hypotheses on one written tree -/
def OkX (o : WOpts) (x : WT) : Prop :=
  OkT o x.2.2 ∧ isBlank (toRT o x.2.2) = false ∧ (∀ w, x.2.1 = some w → WeightOk w)

/-- the tokens of one statement: kinds as emitted then `;`, the rooting / weight comments on the first token -/
def StmtToks (o : WOpts) (x : WT) (g : List TokE) : Prop :=
  ∃ first rest, g = first :: rest ∧ g.map kind = view (wrNode o true x.2.2) ++ [.semi] ∧
    first.cm = comments o x.1 x.2.1

theorem stmt_tokens (o : WOpts) (pu : Bool) (hc : Consistent o.ps o.uu pu) (x : WT) (hx : OkX o x) (nl : Bool) (tailText : Str) :
    ∃ g, StmtToks o x g ∧
      tokenizeAll pu ((if nl then ['\n'] else []) ++ (stmtText o x ++ tailText)) =
        ⟨g ++ (tokenizeAll pu tailText).toks, (tokenizeAll pu tailText).ok, (tokenizeAll pu tailText).atEof⟩ := by
  obtain ⟨rooting, weight, t⟩ := x
  obtain ⟨hok, hll, hw⟩ := hx
  simp only at hok hll hw
  have hsep := (sep_node o t true [] hok trivial trivial).1
  rw [List.append_nil] at hsep
  cases hl : xs (wrNode o true t) with
  | nil => exact absurd hl (xs_ne_nil o t hll)
  | cons x r =>
    rw [hl] at hsep
    have hsemi : (';' : Char) ∈ tokCaptured := by decide
    obtain ⟨tx, q, hn, hk⟩ := next_first o pu hc x r hsep ';' hsemi tailText
    have hinp : stmtText o (rooting, weight, t) ++ tailText =
        pre (comments o rooting weight) ++ (xrenderL o (x :: r) ++ ';' :: tailText) := by
      unfold stmtText writeTree
      simp only
      rw [← prefix_eq, render_xs, hl]
      simp
    have hlen1 := len_pre (comments o rooting weight)
    have hne : xrenderL o (x :: r) ++ ';' :: tailText ≠ [] := by simp
    have hfirst : nextTok pu ((if nl then ['\n'] else []) ++ (pre (comments o rooting weight) ++ (xrenderL o (x :: r) ++ ';' :: tailText))) =
        .tok tx q (comments o rooting weight) (xrenderL o r ++ ';' :: tailText) := by
      unfold nextTok
      cases nl with
      | false =>
        simp only [Bool.false_eq_true, if_false, List.nil_append]
        obtain ⟨f0, hf0⟩ : ∃ f0, (pre (comments o rooting weight) ++ (xrenderL o (x :: r) ++ ';' :: tailText)).length + 1 =
            f0 + (comments o rooting weight).length + 1 :=
          ⟨(pre (comments o rooting weight) ++ (xrenderL o (x :: r) ++ ';' :: tailText)).length - (comments o rooting weight).length,
            by simp at hlen1 ⊢; omega⟩
        rw [hf0, next_pre pu _ (noBracket_comments o rooting weight hw) f0 [] _ hne, hn]
        simp
      | true =>
        simp only [if_true, List.cons_append, List.nil_append, List.length_cons]
        rw [next_nl]
        obtain ⟨f0, hf0⟩ : ∃ f0, (pre (comments o rooting weight) ++ (xrenderL o (x :: r) ++ ';' :: tailText)).length + 1 + 1 =
            f0 + (comments o rooting weight).length + 1 :=
          ⟨(pre (comments o rooting weight) ++ (xrenderL o (x :: r) ++ ';' :: tailText)).length + 1 - (comments o rooting weight).length,
            by simp at hlen1 ⊢; omega⟩
        rw [hf0, next_pre pu _ (noBracket_comments o rooting weight hw) f0 [] _ hne, hn]
        simp
    obtain ⟨ts, h1, h2, h3⟩ := tokenizeAll_items o pu hc r (XSep_tail x r hsep) ';' hsemi tailText
    have hsemiTok : nextTok pu (';' :: tailText) = .tok [';'] false [] tailText := by
      unfold nextTok
      exact next_punct pu _ ';' hsemi tailText []
    refine ⟨⟨tx, q, comments o rooting weight⟩ :: (ts ++ [⟨[';'], false, []⟩]), ⟨_, _, rfl, ?_, rfl⟩, ?_⟩
    · have hv := view_xs (wrNode o true t)
      rw [hl] at hv
      have hs : kind ⟨[';'], false, []⟩ = .semi := by simp [kind]
      simp only
      rw [hv]
      simp only [List.map_cons, List.map_append, List.map_nil, hk, h2, hs, List.cons_append]
    · rw [hinp, tokenizeAll_step pu _ _ _ _ _ hfirst, h1, tokenizeAll_step pu _ _ _ _ _ hsemiTok]
      simp


def Groups (o : WOpts) : List WT → List (List TokE) → Prop
  | [], [] => True
  | x :: xs, g :: gs => StmtToks o x g ∧ Groups o xs gs
  | _, _ => False

theorem tokenizeAll_nl (pu : Bool) : tokenizeAll pu ['\n'] = ⟨[], true, false⟩ := by
  have h : isUncap '\n' = true := by decide
  simp [tokenizeAll, tokenize, nextTok, next, skipWs, h]

theorem rest_tokens (o : WOpts) (pu : Bool) (hc : Consistent o.ps o.uu pu) : ∀ (xs : List WT), (∀ x ∈ xs, OkX o x) →
    ∃ gs, Groups o xs gs ∧ tokenizeAll pu (restText o xs) = ⟨gs.flatten, true, false⟩ := by
  intro xs
  induction xs with
  | nil => intro _; exact ⟨[], trivial, by simp [restText, tokenizeAll_nl]⟩
  | cons x xs ih =>
    intro h
    obtain ⟨gs, hg, ht⟩ := ih (fun y hy => h y (by simp [hy]))
    obtain ⟨g, hs, hst⟩ := stmt_tokens o pu hc x (h x (by simp)) true (restText o xs)
    refine ⟨g :: gs, ⟨hs, hg⟩, ?_⟩
    have : restText o (x :: xs) = (if true then ['\n'] else []) ++ (stmtText o x ++ restText o xs) := by simp [restText]
    rw [this, hst, ht]
    simp

theorem list_tokens (o : WOpts) (pu : Bool) (hc : Consistent o.ps o.uu pu) (x : WT) (xs : List WT) (h : ∀ y ∈ x :: xs, OkX o y) :
    ∃ gs, Groups o (x :: xs) gs ∧ tokenizeAll pu (listText o (x :: xs)) = ⟨gs.flatten, true, false⟩ := by
  obtain ⟨gs, hg, ht⟩ := rest_tokens o pu hc xs (fun y hy => h y (by simp [hy]))
  obtain ⟨g, hs, hst⟩ := stmt_tokens o pu hc x (h x (by simp)) false (restText o xs)
  refine ⟨g :: gs, ⟨hs, hg⟩, ?_⟩
  rw [listText_cons]
  have : stmtText o x ++ restText o xs = (if false then ['\n'] else []) ++ (stmtText o x ++ restText o xs) := by simp
  rw [this, hst, ht]
  simp

/-! ### labels → taxa in a pre-filled namespace -/

/-- `new_taxon` only when the label is not there yet -/
def nsAdd (ns : List Str) (w : Str) : List Str := if ns.contains w then ns else ns ++ [w]
def addAll (ns : List Str) (l : List Str) : List Str := l.foldl nsAdd ns

theorem addAll_append (ns a b : List Str) : addAll ns (a ++ b) = addAll (addAll ns a) b := by
  simp [addAll, List.foldl_append]

theorem mem_nsAdd (ns : List Str) (w x : Str) : x ∈ nsAdd ns w ↔ x ∈ ns ∨ x = w := by
  unfold nsAdd
  split
  · rename_i h
    have hw : w ∈ ns := by simpa using h
    constructor
    · intro hx; exact Or.inl hx
    · rintro (hx | rfl); exact hx; exact hw
  · simp

theorem mem_addAll (l : List Str) : ∀ (ns : List Str) (x : Str), x ∈ addAll ns l ↔ x ∈ ns ∨ x ∈ l := by
  induction l with
  | nil => intro ns x; simp [addAll]
  | cons w l ih =>
    intro ns x
    have := ih (nsAdd ns w) x
    simp only [addAll, List.foldl_cons] at this ⊢
    rw [this, mem_nsAdd]
    simp
    constructor
    · rintro ((h | h) | h)
      · exact Or.inl h
      · exact Or.inr (Or.inl h)
      · exact Or.inr (Or.inr h)
    · rintro (h | h | h)
      · exact Or.inl (Or.inl h)
      · exact Or.inl (Or.inr h)
      · exact Or.inr h

theorem addAll_of_mem (l : List Str) : ∀ (ns : List Str), (∀ x ∈ l, x ∈ ns) → addAll ns l = ns := by
  induction l with
  | nil => intro ns _; rfl
  | cons w l ih =>
    intro ns h
    have hw : ns.contains w = true := by simpa using h w (by simp)
    simp only [addAll, List.foldl_cons, nsAdd, hw, if_true]
    exact ih ns (fun x hx => h x (by simp [hx]))

end Aux

/-- labels that agree up to the case folding agree literally (no two case variants of one label) -/
def CaseCons (cf : Char → Char) (U : List Str) : Prop :=
  ∀ a ∈ U, ∀ b ∈ U, lowerWith cf a = lowerWith cf b → a = b

namespace Aux

theorem num_mono (U : List Str) (m : Mapper) (l : List Str) (hn : m.numbers = false ∨ ∀ x ∈ U, x ∈ m.ns) :
    ({ m with ns := addAll m.ns l } : Mapper).numbers = false ∨ ∀ x ∈ U, x ∈ ({ m with ns := addAll m.ns l } : Mapper).ns :=
  hn.imp id (fun h x hx => (mem_addAll _ _ _).mpr (Or.inl (h x hx)))

theorem lookup_known (cf : Char → Char) (U : List Str) (hU : CaseCons cf U) (m : Mapper) (w : Str)
    (ht : m.tokmap = []) (hn : m.numbers = false ∨ ∀ x ∈ U, x ∈ m.ns) (hns : ∀ x ∈ m.ns, x ∈ U) (hw : w ∈ U) :
    lookup cf m w = ({ m with ns := nsAdd m.ns w }, w) := by
  unfold lookup
  rw [ht]
  simp only [List.find?_nil]
  cases hf : m.ns.find? (fun l => lowerWith cf l == lowerWith cf w) with
  | some x =>
    have hx := List.find?_some hf
    have hmem := List.mem_of_find?_eq_some hf
    have : x = w := hU x (hns x hmem) w hw (by simpa using hx)
    subst this
    cases m with
    | mk tm ns nb =>
      simp only at ht hmem ⊢
      subst ht
      simp [nsAdd, hmem]
  | none =>
    rw [List.find?_eq_none] at hf
    have hnot : m.ns.contains w = false := by
      cases hc : m.ns.contains w with
      | false => rfl
      | true =>
        have : w ∈ m.ns := by simpa using hc
        have := hf w this
        simp at this
    have hnm : w ∉ m.ns := by simpa using hnot
    have hn' : m.numbers = false := by
      rcases hn with h | h
      · exact h
      · exact absurd (h w hw) hnm
    simp [hn', nsAdd, hnm]

mutual
theorem assign_known (ro : ROpts) (U : List Str) (hU : CaseCons ro.cf U) : ∀ (r : RT) (m : Mapper) (seen : List Str),
    m.tokmap = [] → (m.numbers = false ∨ ∀ x ∈ U, x ∈ m.ns) → (∀ x ∈ m.ns, x ∈ U) → (∀ x ∈ taxaOf ro r, x ∈ U) →
    (seen.reverse ++ taxaOf ro r).Nodup →
    assign ro r ⟨m, seen⟩ = some (decode ro r, ⟨{ m with ns := addAll m.ns (taxaOf ro r) }, (taxaOf ro r).reverse ++ seen⟩)
  | .node l e cs, m, seen, ht, hn, hns, htx, hnd => by
    have htxL : ∀ x ∈ taxaOfL ro cs, x ∈ U := fun x hx => htx x (by simp [taxaOf, hx])
    have hndL : (seen.reverse ++ taxaOfL ro cs).Nodup := by
      simp only [taxaOf, ← List.append_assoc] at hnd
      exact (List.nodup_append.mp hnd).1
    have hL := assignL_known ro U hU cs m seen ht hn hns htxL hndL
    rw [assign, hL]
    cases l with
    | none => simp [decode, taxaOf]
    | some w =>
      simp only [decode, taxaOf] at hnd htx ⊢
      generalize (if cs.isEmpty then ro.sleaf else ro.sint) = fl at hnd htx ⊢
      cases fl with
      | true => simp
      | false =>
        simp only [Bool.false_eq_true, if_false] at hnd htx ⊢
        have hwU : w ∈ U := htx w (by simp)
        have hns' : ∀ x ∈ ({ m with ns := addAll m.ns (taxaOfL ro cs) } : Mapper).ns, x ∈ U := by
          intro x hx
          rcases (mem_addAll _ _ _).mp hx with h | h
          · exact hns x h
          · exact htxL x h
        have hlk := lookup_known ro.cf U hU { m with ns := addAll m.ns (taxaOfL ro cs) } w ht (num_mono U m _ hn) hns' hwU
        have hnotseen : ((taxaOfL ro cs).reverse ++ seen).contains w = false := by
          cases hh : ((taxaOfL ro cs).reverse ++ seen).contains w with
          | false => rfl
          | true =>
            exfalso
            have hm : w ∈ (taxaOfL ro cs).reverse ++ seen := by simpa using hh
            rw [← List.append_assoc] at hnd
            have := (List.nodup_append.mp hnd).2.2 w (by
              simp only [List.mem_append, List.mem_reverse] at hm ⊢
              rcases hm with hm | hm
              · exact Or.inr hm
              · exact Or.inl hm) w (by simp)
            exact this rfl
        simp only [hlk, hnotseen]
        simp [addAll_append, addAll]
theorem assignL_known (ro : ROpts) (U : List Str) (hU : CaseCons ro.cf U) : ∀ (cs : List RT) (m : Mapper) (seen : List Str),
    m.tokmap = [] → (m.numbers = false ∨ ∀ x ∈ U, x ∈ m.ns) → (∀ x ∈ m.ns, x ∈ U) → (∀ x ∈ taxaOfL ro cs, x ∈ U) →
    (seen.reverse ++ taxaOfL ro cs).Nodup →
    assignL ro cs ⟨m, seen⟩ = some (decodeL ro cs, ⟨{ m with ns := addAll m.ns (taxaOfL ro cs) }, (taxaOfL ro cs).reverse ++ seen⟩)
  | [], m, seen, _, _, _, _, _ => by simp [assignL, decodeL, taxaOfL, addAll]
  | c :: cs, m, seen, ht, hn, hns, htx, hnd => by
    have htx1 : ∀ x ∈ taxaOf ro c, x ∈ U := fun x hx => htx x (by simp [taxaOfL, hx])
    have htx2 : ∀ x ∈ taxaOfL ro cs, x ∈ U := fun x hx => htx x (by simp [taxaOfL, hx])
    have hnd1 : (seen.reverse ++ taxaOf ro c).Nodup := by
      simp only [taxaOfL, ← List.append_assoc] at hnd
      exact (List.nodup_append.mp hnd).1
    have h1 := assign_known ro U hU c m seen ht hn hns htx1 hnd1
    have hns2 : ∀ x ∈ ({ m with ns := addAll m.ns (taxaOf ro c) } : Mapper).ns, x ∈ U := by
      intro x hx
      rcases (mem_addAll _ _ _).mp hx with h | h
      · exact hns x h
      · exact htx1 x h
    have hnd2 : (((taxaOf ro c).reverse ++ seen).reverse ++ taxaOfL ro cs).Nodup := by
      simpa [taxaOfL, List.append_assoc] using hnd
    have h2 := assignL_known ro U hU cs { m with ns := addAll m.ns (taxaOf ro c) } ((taxaOf ro c).reverse ++ seen) ht (num_mono U m _ hn) hns2 htx2 hnd2
    rw [assignL, h1]
    simp only [h2]
    simp [decodeL, taxaOfL, List.append_assoc, addAll_append]
end

/-- what reading one written tree yields -/
def resultOf (o : WOpts) (ro : ROpts) (x : WT) : PT :=
  ⟨(treeComments ro (comments o x.1 x.2.1) none none).1, (treeComments ro (comments o x.1 x.2.1) none none).2,
   decode ro (toRT o x.2.2)⟩

/-- the labels that become taxa, over the whole list, in reading order -/
def allTaxa (o : WOpts) (ro : ROpts) (xs : List WT) : List Str := xs.flatMap (fun x => taxaOf ro (toRT o x.2.2))

theorem stmt_first_not_semi (o : WOpts) (x : WT) (hb : isBlank (toRT o x.2.2) = false) (first : TokE) (rest : List TokE)
    (hk : (first :: rest).map kind = view (wrNode o true x.2.2) ++ [.semi]) : (kind first == Tok.semi) = false := by
  have hv := view_wrNode o x.2.2 true
  simp only [if_true, List.nil_append] at hv
  have h1 : kind first :: rest.map kind = wr (toRT o x.2.2) ++ [.semi] := by rw [← hv, ← hk]; rfl
  cases hq : kind first == Tok.semi with
  | false => rfl
  | true =>
    have he : kind first = .semi := by simpa using hq
    rcases wr_head (toRT o x.2.2) hb [.semi] with ⟨r, hr⟩ | ⟨w, r, hr⟩ | ⟨r, hr⟩ <;>
      (rw [hr, he] at h1; cases h1)

theorem skipSemis_groups (o : WOpts) (xs : List WT) (gs : List (List TokE)) (hg : Groups o xs gs)
    (hb : ∀ x ∈ xs, isBlank (toRT o x.2.2) = false) : skipSemis false gs.flatten = gs.flatten := by
  cases xs with
  | nil => cases gs with
    | nil => simp [skipSemis]
    | cons g gs => exact absurd hg (by simp [Groups])
  | cons x xs => cases gs with
    | nil => exact absurd hg (by simp [Groups])
    | cons g gs =>
      obtain ⟨⟨first, rest, rfl, hk, _⟩, _⟩ := hg
      have := stmt_first_not_semi o x (hb x (by simp)) first rest hk
      simp [skipSemis, this]

theorem groups_len (o : WOpts) : ∀ (xs : List WT) (gs : List (List TokE)), Groups o xs gs → xs.length ≤ gs.flatten.length
  | [], [], _ => by simp
  | [], _ :: _, h => absurd h (by simp [Groups])
  | _ :: _, [], h => absurd h (by simp [Groups])
  | x :: xs, g :: gs, h => by
    obtain ⟨⟨first, rest, rfl, _, _⟩, hg⟩ := h
    have := groups_len o xs gs hg
    simp only [List.flatten_cons, List.length_append, List.length_cons]; omega

theorem mapper_eta (m : Mapper) : ({ m with ns := m.ns } : Mapper) = m := by cases m; rfl

theorem parse_groups (o : WOpts) (ro : ROpts) (U : List Str) (hU : CaseCons ro.cf U) :
    ∀ (xs : List WT) (gs : List (List TokE)), Groups o xs gs →
    (∀ x ∈ xs, isBlank (toRT o x.2.2) = false ∧ (taxaOf ro (toRT o x.2.2)).Nodup ∧ ∀ y ∈ taxaOf ro (toRT o x.2.2), y ∈ U) →
    ∀ (m : Mapper) (acc : List PT) (f : Nat) (init : Bool), m.tokmap = [] → (m.numbers = false ∨ ∀ x ∈ U, x ∈ m.ns) → (∀ x ∈ m.ns, x ∈ U) →
    xs.length < f → (xs = [] → init = false) →
    parseStmts ro false 0 f init gs.flatten m acc =
      some (acc ++ xs.map (resultOf o ro), { m with ns := addAll m.ns (allTaxa o ro xs) }) := by
  intro xs
  induction xs with
  | nil =>
    intro gs hg _ m acc f init _ _ _ hf hinit
    cases gs with
    | cons g gs => exact absurd hg (by simp [Groups])
    | nil =>
      obtain ⟨f', rfl⟩ : ∃ f', f = f' + 1 := ⟨f - 1, by simp at hf; omega⟩
      cases m
      simp [parseStmts, hinit rfl, allTaxa, addAll]
  | cons x xs ih =>
    intro gs hg hx m acc f init ht hn hns hf _
    cases gs with
    | nil => exact absurd hg (by simp [Groups])
    | cons g gs =>
      obtain ⟨⟨first, rest, rfl, hk, hcm⟩, hgs⟩ := hg
      obtain ⟨hb, hnd, htU⟩ := hx x (by simp)
      have hxs : ∀ y ∈ xs, isBlank (toRT o y.2.2) = false ∧ (taxaOf ro (toRT o y.2.2)).Nodup ∧ ∀ z ∈ taxaOf ro (toRT o y.2.2), z ∈ U :=
        fun y hy => hx y (by simp [hy])
      obtain ⟨f', rfl⟩ : ∃ f', f = f' + 1 := ⟨f - 1, by simp at hf; omega⟩
      have hsemi := stmt_first_not_semi o x hb first rest hk
      have hv := view_wrNode o x.2.2 true
      simp only [if_true, List.nil_append] at hv
      -- the statement parser on this statement
      have hlen : (first :: rest).length = (wr (toRT o x.2.2)).length + 1 := by
        have := congrArg List.length hk
        rw [hv] at this
        simpa using this
      have hparse : parseNode (stmtFuel ((first :: rest) ++ gs.flatten) + 0) (((first :: rest) ++ gs.flatten).map kind) =
          some (toRT o x.2.2, gs.flatten.map kind, true) := by
        have := rt (toRT o x.2.2) (stmtFuel ((first :: rest) ++ gs.flatten) + 0)
          (Nat.le_trans (need_le _) (by simp only [stmtFuel, List.length_append, hlen]; omega)) .semi (gs.flatten.map kind)
        rw [List.map_append, hk, hv]
        simpa [Follow.tok, Follow.after] using this
      have hassign := assign_known ro U hU (toRT o x.2.2) m [] ht hn hns htU (by simpa using hnd)
      have hdrop : List.drop (((first :: rest) ++ gs.flatten).length - (gs.flatten.map kind).length) ((first :: rest) ++ gs.flatten) = gs.flatten := by
        have : ((first :: rest) ++ gs.flatten).length - (gs.flatten.map kind).length = (first :: rest).length := by
          simp only [List.length_append, List.length_map]; omega
        rw [this, List.drop_left]
      have hns' : ∀ y ∈ ({ m with ns := addAll m.ns (taxaOf ro (toRT o x.2.2)) } : Mapper).ns, y ∈ U := by
        intro y hy
        rcases (mem_addAll _ _ _).mp hy with h | h
        · exact hns y h
        · exact htU y h
      have hrec := ih gs hgs hxs { m with ns := addAll m.ns (taxaOf ro (toRT o x.2.2)) }
        (acc ++ [resultOf o ro x]) f' false ht (num_mono U m _ hn) hns' (by simp at hf; omega) (fun _ => rfl)
      have hfl : (((first :: rest) :: gs).flatten) = first :: (rest ++ gs.flatten) := by simp
      rw [hfl, parseStmts]
      have hl2 : first :: (rest ++ gs.flatten) = (first :: rest) ++ gs.flatten := by simp
      simp only [hsemi, Bool.false_and, Bool.and_false, Bool.false_eq_true, if_false]
      rw [hl2, hparse]
      simp only [hassign, hdrop, skipSemis_groups o xs gs hgs (fun y hy => (hxs y hy).1), hcm]
      have hres : (⟨(treeComments ro (comments o x.1 x.2.1) none none).1, (treeComments ro (comments o x.1 x.2.1) none none).2,
          decode ro (toRT o x.2.2)⟩ : PT) = resultOf o ro x := rfl
      simp only [List.reverse_nil, List.append_nil] at hrec ⊢
      rw [hres, hrec]
      simp [allTaxa, addAll_append]

end Aux

/-! ### TRANSLATE: tags are tokens, resolved through the token map before labels and numbers -/

/-- what the symbol mapper answers for a token that has an entry in the TRANSLATE table -/
def resolve (cf : Char → Char) (tm : List (Str × Str)) (w : Str) : Str :=
  match tm.find? (fun p => lowerWith cf p.1 == lowerWith cf w) with
  | some p => p.2
  | none => w

def hasKey (cf : Char → Char) (tm : List (Str × Str)) (w : Str) : Prop :=
  (tm.find? (fun p => lowerWith cf p.1 == lowerWith cf w)).isSome = true

mutual
/-- `decode` with the taxon tags sent through `g` (the TRANSLATE table) -/
def decodeWith (g : Str → Str) (ro : ROpts) : RT → NT
  | .node l e cs =>
    match l with
    | none => .node none none e (decodeWithL g ro cs)
    | some w => if (if cs.isEmpty then ro.sleaf else ro.sint) then .node none (some w) e (decodeWithL g ro cs)
                else .node (some (g w)) none e (decodeWithL g ro cs)
def decodeWithL (g : Str → Str) (ro : ROpts) : List RT → List NT
  | [] => []
  | c :: cs => decodeWith g ro c :: decodeWithL g ro cs
end

namespace Aux

theorem lookup_token (cf : Char → Char) (m : Mapper) (w : Str) (h : hasKey cf m.tokmap w) :
    lookup cf m w = (m, resolve cf m.tokmap w) := by
  unfold lookup resolve
  unfold hasKey at h
  cases hf : m.tokmap.find? (fun p => lowerWith cf p.1 == lowerWith cf w) with
  | none => rw [hf] at h; simp at h
  | some p => rfl

mutual
theorem assign_resolve (ro : ROpts) (g : Str → Str) : ∀ (r : RT) (m : Mapper) (seen : List Str),
    (∀ w ∈ taxaOf ro r, lookup ro.cf m w = (m, g w)) → (seen.reverse ++ (taxaOf ro r).map g).Nodup →
    assign ro r ⟨m, seen⟩ = some (decodeWith g ro r, ⟨m, ((taxaOf ro r).map g).reverse ++ seen⟩)
  | .node l e cs, m, seen, hlk, hnd => by
    have hlkL : ∀ w ∈ taxaOfL ro cs, lookup ro.cf m w = (m, g w) := fun w hw => hlk w (by simp [taxaOf, hw])
    have hndL : (seen.reverse ++ (taxaOfL ro cs).map g).Nodup := by
      simp only [taxaOf, List.map_append, ← List.append_assoc] at hnd
      exact (List.nodup_append.mp hnd).1
    have hL := assignL_resolve ro g cs m seen hlkL hndL
    rw [assign, hL]
    cases l with
    | none => simp [decodeWith, taxaOf]
    | some w =>
      simp only [decodeWith, taxaOf] at hnd hlk ⊢
      generalize (if cs.isEmpty then ro.sleaf else ro.sint) = fl at hnd hlk ⊢
      cases fl with
      | true => simp
      | false =>
        simp only [Bool.false_eq_true, if_false] at hnd hlk ⊢
        have hw := hlk w (by simp)
        have hnotseen : (((taxaOfL ro cs).map g).reverse ++ seen).contains (g w) = false := by
          cases hh : (((taxaOfL ro cs).map g).reverse ++ seen).contains (g w) with
          | false => rfl
          | true =>
            exfalso
            have hm : g w ∈ ((taxaOfL ro cs).map g).reverse ++ seen := by simpa using hh
            simp only [List.map_append, List.map_cons, List.map_nil, ← List.append_assoc] at hnd
            have := (List.nodup_append.mp hnd).2.2 (g w) (by
              simp only [List.mem_append, List.mem_reverse] at hm ⊢
              rcases hm with hm | hm
              · exact Or.inr hm
              · exact Or.inl hm) (g w) (by simp)
            exact this rfl
        simp only [hw, hnotseen]
        simp
theorem assignL_resolve (ro : ROpts) (g : Str → Str) : ∀ (cs : List RT) (m : Mapper) (seen : List Str),
    (∀ w ∈ taxaOfL ro cs, lookup ro.cf m w = (m, g w)) → (seen.reverse ++ (taxaOfL ro cs).map g).Nodup →
    assignL ro cs ⟨m, seen⟩ = some (decodeWithL g ro cs, ⟨m, ((taxaOfL ro cs).map g).reverse ++ seen⟩)
  | [], m, seen, _, _ => by simp [assignL, decodeWithL, taxaOfL]
  | c :: cs, m, seen, hlk, hnd => by
    have hlk1 : ∀ w ∈ taxaOf ro c, lookup ro.cf m w = (m, g w) := fun w hw => hlk w (by simp [taxaOfL, hw])
    have hlk2 : ∀ w ∈ taxaOfL ro cs, lookup ro.cf m w = (m, g w) := fun w hw => hlk w (by simp [taxaOfL, hw])
    have hnd1 : (seen.reverse ++ (taxaOf ro c).map g).Nodup := by
      simp only [taxaOfL, List.map_append, ← List.append_assoc] at hnd
      exact (List.nodup_append.mp hnd).1
    have h1 := assign_resolve ro g c m seen hlk1 hnd1
    have hnd2 : ((((taxaOf ro c).map g).reverse ++ seen).reverse ++ (taxaOfL ro cs).map g).Nodup := by
      simpa [taxaOfL, List.append_assoc] using hnd
    have h2 := assignL_resolve ro g cs m (((taxaOf ro c).map g).reverse ++ seen) hlk2 hnd2
    rw [assignL, h1]
    simp only [h2]
    simp [decodeWithL, taxaOfL, List.append_assoc]
end

def resultWith (g : Str → Str) (o : WOpts) (ro : ROpts) (x : WT) : PT :=
  ⟨(treeComments ro (comments o x.1 x.2.1) none none).1, (treeComments ro (comments o x.1 x.2.1) none none).2,
   decodeWith g ro (toRT o x.2.2)⟩

/-- the statement loop when every tag resolves without changing the mapper (TRANSLATE tokens, or labels already there) -/
theorem parse_groups_const (o : WOpts) (ro : ROpts) (g : Str → Str) (m : Mapper) :
    ∀ (xs : List WT) (gs : List (List TokE)), Groups o xs gs →
    (∀ x ∈ xs, isBlank (toRT o x.2.2) = false ∧ ((taxaOf ro (toRT o x.2.2)).map g).Nodup ∧
      ∀ w ∈ taxaOf ro (toRT o x.2.2), lookup ro.cf m w = (m, g w)) →
    ∀ (acc : List PT) (f : Nat) (init : Bool), xs.length < f → (xs = [] → init = false) →
    parseStmts ro false 0 f init gs.flatten m acc = some (acc ++ xs.map (resultWith g o ro), m) := by
  intro xs
  induction xs with
  | nil =>
    intro gs hg _ acc f init hf hinit
    cases gs with
    | cons g' gs => exact absurd hg (by simp [Groups])
    | nil =>
      obtain ⟨f', rfl⟩ : ∃ f', f = f' + 1 := ⟨f - 1, by simp at hf; omega⟩
      simp [parseStmts, hinit rfl]
  | cons x xs ih =>
    intro gs hg hx acc f init hf _
    cases gs with
    | nil => exact absurd hg (by simp [Groups])
    | cons g' gs =>
      obtain ⟨⟨first, rest, rfl, hk, hcm⟩, hgs⟩ := hg
      obtain ⟨hb, hnd, hlk⟩ := hx x (by simp)
      have hxs := fun y (hy : y ∈ xs) => hx y (by simp [hy])
      obtain ⟨f', rfl⟩ : ∃ f', f = f' + 1 := ⟨f - 1, by simp at hf; omega⟩
      have hsemi := stmt_first_not_semi o x hb first rest hk
      have hv := view_wrNode o x.2.2 true
      simp only [if_true, List.nil_append] at hv
      have hlen : (first :: rest).length = (wr (toRT o x.2.2)).length + 1 := by
        have := congrArg List.length hk
        rw [hv] at this
        simpa using this
      have hparse : parseNode (stmtFuel ((first :: rest) ++ gs.flatten) + 0) (((first :: rest) ++ gs.flatten).map kind) =
          some (toRT o x.2.2, gs.flatten.map kind, true) := by
        have := rt (toRT o x.2.2) (stmtFuel ((first :: rest) ++ gs.flatten) + 0)
          (Nat.le_trans (need_le _) (by simp only [stmtFuel, List.length_append, hlen]; omega)) .semi (gs.flatten.map kind)
        rw [List.map_append, hk, hv]
        simpa [Follow.tok, Follow.after] using this
      have hassign := assign_resolve ro g (toRT o x.2.2) m [] hlk (by simpa using hnd)
      have hdrop : List.drop (((first :: rest) ++ gs.flatten).length - (gs.flatten.map kind).length) ((first :: rest) ++ gs.flatten) = gs.flatten := by
        have : ((first :: rest) ++ gs.flatten).length - (gs.flatten.map kind).length = (first :: rest).length := by
          simp only [List.length_append, List.length_map]; omega
        rw [this, List.drop_left]
      have hrec := ih gs hgs hxs (acc ++ [resultWith g o ro x]) f' false (by simp at hf; omega) (fun _ => rfl)
      have hfl : (((first :: rest) :: gs).flatten) = first :: (rest ++ gs.flatten) := by simp
      rw [hfl, parseStmts]
      have hl2 : first :: (rest ++ gs.flatten) = (first :: rest) ++ gs.flatten := by simp
      simp only [hsemi, Bool.false_and, Bool.and_false, Bool.false_eq_true, if_false]
      rw [hl2, hparse]
      simp only [hassign, hdrop, skipSemis_groups o xs gs hgs (fun y hy => (hxs y hy).1), hcm]
      have hres : (⟨(treeComments ro (comments o x.1 x.2.1) none none).1, (treeComments ro (comments o x.1 x.2.1) none none).2,
          decodeWith g ro (toRT o x.2.2)⟩ : PT) = resultWith g o ro x := rfl
      rw [hres, hrec]
      simp

end Aux
end DendroModel.C02
