import DendroModel.Model.C04
import DendroModel.Props.C01
import Mathlib.Tactic
/-! C04 — bridge lemmas between the driver's `edgeRecs` / `edgeMap` (Model/C04.lean) and the C01 encoding and
hierarchy theory, and the child-order relation `CIso` on model trees under which the edge records are permuted. -/
namespace DendroModel.C04.Aux
open DendroModel DendroModel.C04

/-! ### `edgeRecs` lists exactly the splits of `C01.encode` -/

mutual
theorem edgesPost_fst : ∀ (b : Bool) (t : T), (edgesPost b t).map (·.1) = T.masksPost t
  | b, .node i x l s cs => by
    simp only [edgesPost, T.masksPost, List.map_append, List.map_cons, List.map_nil, edgesPostL_fst cs]
theorem edgesPostL_fst : ∀ cs : List T, (edgesPostL cs).map (·.1) = T.masksPostL cs
  | [] => rfl
  | c :: cs => by simp only [edgesPostL, T.masksPostL, List.map_append, edgesPost_fst false c, edgesPostL_fst cs]
end

theorem edgeRecs_splits (r : Option Bool) (t : T) :
    (edgeRecs r t).map (·.split) = (C01.encode r true true t).map (·.2) := by
  unfold edgeRecs C01.encode
  simp only [List.map_map]
  rw [← edgesPost_fst true, List.map_map]
  rfl

/-- default encoding leaves only unifurcation suppression, unless the tree is not rooted and its seed is bifurcating -/
theorem encodeTree_sup (r : Option Bool) (t : T) (h : r = some true ∨ t.cs.length ≠ 2) :
    C01.encodeTree r true true t = T.sup t := by
  unfold C01.encodeTree
  rcases h with rfl | h
  · simp
  · simp [h]

theorem edgeRecs_splits_rooted (t : T) :
    (edgeRecs (some true) t).map (·.split) = (T.masksPost (T.sup t)).map Int.ofNat := by
  rw [edgeRecs_splits]
  simp only [C01.encode, encodeTree_sup (some true) t (Or.inl rfl), List.map_map]
  apply List.map_congr_left
  intro m _
  simp [C01.splitOf]

/-! ### the split → edge map: `lookup ∘ edgeMap` under distinct splits -/

theorem lookup_dictSet (d : List (Int × EdgeRec)) (k : Int) (v : EdgeRec) (k' : Int) :
    lookup (dictSet d k v) k' = if k' = k then some v else lookup d k' := by
  induction d with
  | nil =>
    by_cases h : k' = k
    · subst h; simp [dictSet, lookup]
    · have : ¬ k = k' := fun e => h e.symm
      simp [dictSet, lookup, h, this]
  | cons q rest ih =>
    simp only [dictSet]
    by_cases hq : q.1 = k
    · subst hq
      by_cases h : k' = q.1
      · subst h; simp [lookup]
      · have : ¬ q.1 = k' := fun e => h e.symm
        simp [lookup, h, this]
    · have hq' : (q.1 == k) = false := by simpa using hq
      simp only [hq', Bool.false_eq_true, if_false]
      by_cases h : q.1 = k'
      · have hk : ¬ k' = k := fun e => hq (h.trans e)
        simp [lookup, h, hk]
      · have e1 : lookup ((q.1, q.2) :: dictSet rest k v) k' = lookup (dictSet rest k v) k' := by
          unfold lookup; rw [List.find?_cons_of_neg]; simpa using h
        have e2 : lookup (q :: rest) k' = lookup rest k' := by
          unfold lookup; rw [List.find?_cons_of_neg]; simpa using h
        rw [e1, e2, ih]

theorem edgeMap_snoc (es : List EdgeRec) (e : EdgeRec) : edgeMap (es ++ [e]) = dictSet (edgeMap es) e.split e := by
  unfold edgeMap; rw [List.foldl_append]; rfl

/-- a later edge with the same split replaces an earlier one: the map holds the LAST edge of each split -/
theorem lookup_edgeMap_snoc (es : List EdgeRec) (e : EdgeRec) (k : Int) :
    lookup (edgeMap (es ++ [e])) k = if k = e.split then some e else lookup (edgeMap es) k := by
  rw [edgeMap_snoc, lookup_dictSet]

theorem lookup_edgeMap_of_mem : ∀ (es : List EdgeRec), (es.map (·.split)).Nodup → ∀ e ∈ es,
    lookup (edgeMap es) e.split = some e := by
  intro es
  induction es using List.reverseRecOn with
  | nil => intro _ e he; cases he
  | append_singleton init last ih =>
    intro hn e he
    rw [List.map_append, List.nodup_append] at hn
    obtain ⟨hn1, _, hdis⟩ := hn
    rw [lookup_edgeMap_snoc]
    rcases List.mem_append.mp he with h | h
    · have hne : e.split ≠ last.split := by
        intro heq
        exact hdis e.split (List.mem_map.mpr ⟨e, h, rfl⟩) last.split (by simp) heq
      rw [if_neg hne]; exact ih hn1 e h
    · simp only [List.mem_singleton] at h; subst h; simp

theorem lookup_edgeMap_none (es : List EdgeRec) (k : Int) (h : k ∉ es.map (·.split)) : lookup (edgeMap es) k = none := by
  induction es using List.reverseRecOn with
  | nil => rfl
  | append_singleton init last ih =>
    rw [lookup_edgeMap_snoc]
    simp only [List.map_append, List.mem_append, List.map_cons, List.map_nil, List.mem_singleton, not_or] at h
    rw [if_neg h.2]; exact ih h.1

/-- with distinct splits the split → edge map is independent of the order in which the edges are listed -/
theorem lookup_edgeMap_perm {es es' : List EdgeRec} (hp : es.Perm es') (hn : (es.map (·.split)).Nodup) (k : Int) :
    lookup (edgeMap es) k = lookup (edgeMap es') k := by
  have hn' : (es'.map (·.split)).Nodup := (hp.map _).nodup_iff.mp hn
  by_cases hk : k ∈ es.map (·.split)
  · obtain ⟨e, he, rfl⟩ := List.mem_map.mp hk
    rw [lookup_edgeMap_of_mem es hn e he, lookup_edgeMap_of_mem es' hn' e (hp.mem_iff.mp he)]
  · have hk' : k ∉ es'.map (·.split) := fun h => hk ((hp.map _).mem_iff.mpr h)
    rw [lookup_edgeMap_none es k hk, lookup_edgeMap_none es' k hk']

/-! ### child order -/

/-- equal up to the order of children anywhere in the tree: generated by swapping two adjacent children of a node -/
inductive CIso : T → T → Prop
  | refl (t : T) : CIso t t
  | swap (i x l s) (pre : List T) (a b : T) (post : List T) :
      CIso (.node i x l s (pre ++ a :: b :: post)) (.node i x l s (pre ++ b :: a :: post))
  | child (i x l s) (pre : List T) (c c' : T) (post : List T) :
      CIso c c' → CIso (.node i x l s (pre ++ c :: post)) (.node i x l s (pre ++ c' :: post))
  | trans {a b c : T} : CIso a b → CIso b c → CIso a c

theorem ciso_len {t u : T} (h : CIso t u) : t.len = u.len := by
  induction h with
  | refl t => rfl
  | swap => rfl
  | child => rfl
  | trans _ _ ih1 ih2 => exact ih1.trans ih2

theorem ciso_cs_length {t u : T} (h : CIso t u) : t.cs.length = u.cs.length := by
  induction h with
  | refl t => rfl
  | swap => simp [T.cs]
  | child => simp [T.cs]
  | trans _ _ ih1 ih2 => exact ih1.trans ih2

theorem maskL_append : ∀ a b : List T, T.maskL (a ++ b) = T.maskL a ||| T.maskL b
  | [], b => by simp [T.maskL]
  | c :: a, b => by simp [T.maskL, maskL_append a b, Nat.or_assoc]

theorem mask_of_ne_nil (i x l s) {cs : List T} (h : cs ≠ []) : T.mask (.node i x l s cs) = T.maskL cs := by
  cases cs with
  | nil => exact absurd rfl h
  | cons c cs => simp [T.mask]

theorem ciso_mask {t u : T} (h : CIso t u) : T.mask t = T.mask u := by
  induction h with
  | refl t => rfl
  | swap i x l s pre a b post =>
    rw [mask_of_ne_nil _ _ _ _ (by simp), mask_of_ne_nil _ _ _ _ (by simp), maskL_append, maskL_append]
    simp only [T.maskL]
    congr 1
    rw [← Nat.or_assoc, ← Nat.or_assoc, Nat.or_comm (T.mask a)]
  | child i x l s pre c c' post _ ih =>
    rw [mask_of_ne_nil _ _ _ _ (by simp), mask_of_ne_nil _ _ _ _ (by simp), maskL_append, maskL_append]
    simp only [T.maskL, ih]
  | trans _ _ ih1 ih2 => exact ih1.trans ih2

theorem edgesPostL_append : ∀ a b : List T, edgesPostL (a ++ b) = edgesPostL a ++ edgesPostL b
  | [], b => by simp [edgesPostL]
  | c :: a, b => by simp [edgesPostL, edgesPostL_append a b]

theorem edgesPost_node (r : Bool) (i x l s) (cs : List T) :
    edgesPost r (.node i x l s cs) = edgesPostL cs ++ [(T.mask (.node i x l s cs), l, r)] := by
  simp [edgesPost]

/-- reordering children permutes the list of (leafset, length, is-root) edge records -/
theorem ciso_edgesPost {t u : T} (h : CIso t u) : ∀ r : Bool, (edgesPost r t).Perm (edgesPost r u) := by
  induction h with
  | refl t => intro r; exact List.Perm.refl _
  | swap i x l s pre a b post =>
    intro r
    rw [edgesPost_node, edgesPost_node, ciso_mask (CIso.swap i x l s pre a b post)]
    apply List.Perm.append_right
    rw [edgesPostL_append, edgesPostL_append]
    apply List.Perm.append_left
    simp only [edgesPostL]
    rw [← List.append_assoc, ← List.append_assoc]
    exact List.Perm.append_right _ List.perm_append_comm
  | child i x l s pre c c' post hc ih =>
    intro r
    rw [edgesPost_node, edgesPost_node, ciso_mask (CIso.child i x l s pre c c' post hc)]
    apply List.Perm.append_right
    rw [edgesPostL_append, edgesPostL_append]
    apply List.Perm.append_left
    simp only [edgesPostL]
    exact List.Perm.append_right _ (ih false)
  | trans _ _ ih1 ih2 => intro r; exact (ih1 r).trans (ih2 r)

theorem ciso_withLen {t u : T} (h : CIso t u) (l' : Option Frac) : CIso (t.withLen l') (u.withLen l') := by
  induction h with
  | refl t => exact CIso.refl _
  | swap i x l s pre a b post => exact CIso.swap i x l' s pre a b post
  | child i x l s pre c c' post hc _ => exact CIso.child i x l' s pre c c' post hc
  | trans _ _ ih1 ih2 => exact ih1.trans ih2

theorem supL_append : ∀ a b : List T, T.supL (a ++ b) = T.supL a ++ T.supL b
  | [], b => by simp [T.supL]
  | c :: a, b => by simp [T.supL, supL_append a b]

theorem supL_length : ∀ cs : List T, (T.supL cs).length = cs.length
  | [] => rfl
  | c :: cs => by simp [T.supL, supL_length cs]

theorem sup_node_many (i x l s) (cs : List T) (h : cs.length ≠ 1) : T.sup (.node i x l s cs) = .node i x l s (T.supL cs) := by
  have h' : (T.supL cs).length ≠ 1 := by rw [supL_length]; exact h
  rw [T.sup]
  split
  · rename_i c hc; rw [hc] at h'; simp at h'
  · rfl

theorem sup_node_one (i x l s) (c : T) :
    T.sup (.node i x l s [c]) = (T.sup c).withLen (addLen (T.sup c).len l) := by
  simp [T.sup, T.supL]

/-- unifurcation suppression commutes with reordering children -/
theorem ciso_sup {t u : T} (h : CIso t u) : CIso (T.sup t) (T.sup u) := by
  induction h with
  | refl t => exact CIso.refl _
  | swap i x l s pre a b post =>
    rw [sup_node_many _ _ _ _ _ (by simp; omega), sup_node_many _ _ _ _ _ (by simp; omega), supL_append, supL_append]
    simp only [T.supL]
    exact CIso.swap i x l s _ _ _ _
  | child i x l s pre c c' post _ ih =>
    by_cases h1 : (pre ++ c :: post).length = 1
    · have hp : pre = [] ∧ post = [] := by
        simp only [List.length_append, List.length_cons] at h1
        constructor <;> (apply List.eq_nil_of_length_eq_zero; omega)
      obtain ⟨rfl, rfl⟩ := hp
      simp only [List.nil_append]
      rw [sup_node_one, sup_node_one, ciso_len ih]
      exact ciso_withLen ih _
    · have h2 : (pre ++ c' :: post).length ≠ 1 := by simpa using h1
      rw [sup_node_many _ _ _ _ _ h1, sup_node_many _ _ _ _ _ h2, supL_append, supL_append]
      simp only [T.supL]
      exact CIso.child i x l s _ _ _ _ ih
  | trans _ _ ih1 ih2 => exact ih1.trans ih2

/-- the driver's edge records of a tree and of a child-reordering of it are permutations of each other
    (for an unrooted tree: provided the seed is not bifurcating, so that no basal collapse takes place) -/
theorem ciso_edgeRecs {t u : T} (h : CIso t u) (r : Option Bool) (hr : r = some true ∨ t.cs.length ≠ 2) :
    (edgeRecs r t).Perm (edgeRecs r u) := by
  have hr' : r = some true ∨ u.cs.length ≠ 2 := by rw [← ciso_cs_length h]; exact hr
  unfold edgeRecs
  simp only [encodeTree_sup r t hr, encodeTree_sup r u hr', ciso_mask (ciso_sup h)]
  exact (ciso_edgesPost (ciso_sup h) true).map _

end DendroModel.C04.Aux
