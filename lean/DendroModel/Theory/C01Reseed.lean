import DendroModel.Model.C01Canon
import DendroModel.Theory.C01Bridge
/-! C01 — moving the seed of an unrooted tree to the node its lowest leaf hangs from (`reseed`, `canonU` of
`Model/C01Canon.lean`): every step is an edge inversion (`usplits_invert`) possibly followed by the suppression of the
unifurcation it leaves (`wrap`), so the set of normalised split masks never changes, well-formedness is kept, and the result
is in the canonical seed position of `Theory/Unrooted.lean`.  Hence equal normalised split sets ⇒ same unrooted topology,
for every seed position. -/
namespace DendroModel.C01.Bridge
open DendroModel DendroModel.Hier DendroModel.C01

theorem goodL_append_iff (a b : List Hier.T) : GoodL (a ++ b) ↔ GoodL a ∧ GoodL b ∧ maskL a &&& maskL b = 0 := by
  induction a with
  | nil => simp [GoodL, maskL]
  | cons c a ih =>
    simp only [List.cons_append, GoodL, ih, maskL, Hier.maskL_append]
    have e1 : mask c &&& (maskL a ||| maskL b) = 0 ↔ mask c &&& maskL a = 0 ∧ mask c &&& maskL b = 0 := by
      simp only [and_eq_zero_iff, bits_or, Set.disjoint_union_right]
    have e2 : (mask c ||| maskL a) &&& maskL b = 0 ↔ mask c &&& maskL b = 0 ∧ maskL a &&& maskL b = 0 := by
      simp only [and_eq_zero_iff, bits_or, Set.disjoint_union_left]
    rw [e1, e2]; tauto

theorem noUnifL_append_iff (a b : List Hier.T) : NoUnifL (a ++ b) ↔ NoUnifL a ∧ NoUnifL b := by
  induction a with
  | nil => simp [NoUnifL]
  | cons c a ih => simp [NoUnifL, ih, and_assoc]

theorem maskL_ne_zero {l : List Hier.T} (hg : GoodL l) (hne : l ≠ []) : maskL l ≠ 0 := by
  cases l with
  | nil => exact absurd rfl hne
  | cons c r =>
    simp only [GoodL] at hg
    intro h
    apply hg.2.1
    apply bits_inj; rw [bits_zero]
    have : bits (mask c) ⊆ bits (maskL (c :: r)) := by simp [maskL]
    rw [h, bits_zero] at this
    exact Set.subset_empty_iff.mp this

theorem wrap_mask (l : List Hier.T) : mask (wrap l) = maskL l := by
  unfold wrap; split <;> simp [mask, maskL]

theorem wrap_good (l : List Hier.T) (h : GoodL l) : Good (wrap l) := by
  unfold wrap; split
  · simp only [GoodL] at h; exact h.1
  · simpa [Good] using h

theorem wrap_noUnif (l : List Hier.T) (h : NoUnifL l) (hne : l ≠ []) : NoUnif (wrap l) := by
  unfold wrap; split
  · simp only [NoUnifL] at h; exact h.1
  · rename_i hns
    simp only [NoUnif]
    refine ⟨?_, h⟩
    match l, hne, hns with
    | [x], _, hns => exact absurd rfl (hns x)
    | _ :: _ :: _, _, _ => simp

theorem wrap_clades (l : List Hier.T) (x : Nat) : x ∈ clades (wrap l) ↔ x ∈ clades (.node l) := by
  unfold wrap; split
  · rename_i c
    simp only [clades, cladesL, maskL, Nat.or_zero, List.append_nil, List.mem_cons]
    constructor
    · intro h; exact Or.inr h
    · rintro (h | h)
      · rw [h]; exact mask_mem_clades c
      · exact h
  · exact Iff.rfl

/-- replacing the last child by a tree with the same leafset and the same clade SET keeps the normalised split set -/
theorem usplits_snoc_congr (lo : Nat) (ds : List Hier.T) (w w' : Hier.T) (hm : mask w = mask w')
    (hc : ∀ x, x ∈ clades w ↔ x ∈ clades w') (s : Nat) :
    s ∈ usplits lo (.node (ds ++ [w])) ↔ s ∈ usplits lo (.node (ds ++ [w'])) := by
  have hM : maskL (ds ++ [w]) = maskL (ds ++ [w']) := by simp [Hier.maskL_append, maskL, hm]
  simp only [usplits, List.mem_map, hM, cladesL_append, cladesL, List.append_nil, List.mem_append]
  constructor
  · rintro ⟨a, ha | ha, rfl⟩
    · exact ⟨a, Or.inl ha, rfl⟩
    · exact ⟨a, Or.inr ((hc a).mp ha), rfl⟩
  · rintro ⟨a, ha | ha, rfl⟩
    · exact ⟨a, Or.inl ha, rfl⟩
    · exact ⟨a, Or.inr ((hc a).mpr ha), rfl⟩

/-- one step of `reseed`: invert the edge to the child `node ds`, suppress the unifurcation this may leave -/
theorem step_ok (lo : Nat) (pre ds R : List Hier.T)
    (hg : GoodL (pre ++ .node ds :: R)) (hn : NoUnifL (pre ++ .node ds :: R)) (h2 : 2 ≤ (pre ++ .node ds :: R).length)
    (hlo : bits lo ⊆ bits (maskL (pre ++ .node ds :: R)))
    (hsingle : ∀ a, bits lo ⊆ bits a ∨ Disjoint (bits lo) (bits a)) (hne : lo ≠ 0) :
    GoodL (ds ++ [wrap (pre ++ R)]) ∧ NoUnifL (ds ++ [wrap (pre ++ R)]) ∧ 3 ≤ (ds ++ [wrap (pre ++ R)]).length ∧
    maskL (ds ++ [wrap (pre ++ R)]) = maskL (pre ++ .node ds :: R) ∧
    ∀ s, s ∈ usplits lo (.node (ds ++ [wrap (pre ++ R)])) ↔ s ∈ usplits lo (.node (pre ++ .node ds :: R)) := by
  obtain ⟨hgp, hgr, hd1⟩ := (goodL_append_iff _ _).mp hg
  simp only [GoodL] at hgr
  obtain ⟨hgds, _, hd2, hgR⟩ := hgr
  simp only [Good] at hgds
  simp only [maskL, mask] at hd1 hd2
  obtain ⟨hnp, hnr⟩ := (noUnifL_append_iff _ _).mp hn
  simp only [NoUnifL, NoUnif] at hnr
  obtain ⟨⟨hds2, hnds⟩, hnR⟩ := hnr
  have hdpds : maskL pre &&& maskL ds = 0 := by
    rw [and_eq_zero_iff, bits_or, Set.disjoint_union_right] at hd1; exact (and_eq_zero_iff _ _).mpr hd1.1
  have hdpR : maskL pre &&& maskL R = 0 := by
    rw [and_eq_zero_iff, bits_or, Set.disjoint_union_right] at hd1; exact (and_eq_zero_iff _ _).mpr hd1.2
  have hgo : GoodL (pre ++ R) := (goodL_append_iff _ _).mpr ⟨hgp, hgR, hdpR⟩
  have hone : pre ++ R ≠ [] := by
    intro h; simp only [List.length_append, List.length_cons] at h2
    have hl : (pre ++ R).length = 0 := by rw [h]; rfl
    rw [List.length_append] at hl; omega
  have hwm : mask (wrap (pre ++ R)) = maskL (pre ++ R) := wrap_mask _
  have hdis : ∀ c ∈ ds, mask c &&& mask (wrap (pre ++ R)) = 0 := by
    intro c hc
    rw [hwm, Hier.maskL_append, and_eq_zero_iff, bits_or, Set.disjoint_union_right]
    have hsub := bits_maskL_subset_of_mem hc
    constructor
    · exact (((and_eq_zero_iff _ _).mp hdpds).symm).mono_left hsub
    · exact ((and_eq_zero_iff _ _).mp hd2).mono_left hsub
  have hM : maskL (ds ++ [wrap (pre ++ R)]) = maskL (pre ++ .node ds :: R) := by
    rw [← maskL_invert pre ds R]; simp [Hier.maskL_append, maskL, hwm, mask]
  refine ⟨goodL_snoc hgds (wrap_good _ hgo) (by rw [hwm]; exact maskL_ne_zero hgo hone) hdis,
    (noUnifL_append_iff _ _).mpr ⟨hnds, by simp only [NoUnifL, and_true]; exact wrap_noUnif _ ((noUnifL_append_iff _ _).mpr ⟨hnp, hnR⟩) hone⟩,
    by simp; omega, hM, fun s => ?_⟩
  rw [usplits_snoc_congr lo ds (wrap (pre ++ R)) (.node (pre ++ R)) (by rw [hwm]; rfl) (wrap_clades _) s]
  exact usplits_invert lo pre ds R hg hlo hsingle hne s

/-- what `reseed` achieves, relative to the neighbour list `N` of the node it starts from -/
def ReseedOK (k : Nat) (N : List Hier.T) (R : Hier.T) : Prop :=
  Good R ∧ NoUnif R ∧ Canon k R ∧ mask R = maskL N ∧
    ∀ s, s ∈ usplits (1 <<< k) R ↔ s ∈ usplits (1 <<< k) (.node N)

theorem single_shift (k : Nat) : ∀ a, bits (1 <<< k) ⊆ bits a ∨ Disjoint (bits (1 <<< k)) (bits a) := by
  intro a
  rw [bits_shift]
  by_cases hka : k ∈ bits a
  · exact Or.inl (Set.singleton_subset_iff.mpr hka)
  · exact Or.inr (Set.disjoint_singleton_left.mpr hka)

mutual
theorem reseed_spec (k : Nat) : ∀ (t : Hier.T) (up ds : List Hier.T), t = .node ds →
    GoodL (ds ++ up) → NoUnifL (ds ++ up) → 3 ≤ (ds ++ up).length → k ∈ bits (maskL (ds ++ up)) → k ∈ bits (maskL ds) →
    ReseedOK k (ds ++ up) (reseed k t up)
  | .leaf i, up, ds, h, _, _, _, _, _ => by cases h
  | .node cs, up, ds, h, hg, hn, h3, hkN, hk => by
    cases h
    have := reseedL_spec k cs [] up (by simpa using hg) (by simpa using hn) (by simpa using h3) (by simpa using hkN) hk
    simpa [reseed] using this
theorem reseedL_spec (k : Nat) : ∀ (cs pre up : List Hier.T),
    GoodL (pre ++ cs ++ up) → NoUnifL (pre ++ cs ++ up) → 3 ≤ (pre ++ cs ++ up).length →
    k ∈ bits (maskL (pre ++ cs ++ up)) → k ∈ bits (maskL cs) →
    ReseedOK k (pre ++ cs ++ up) (reseedL k pre cs up)
  | [], pre, up, _, _, _, _, hk => by simp [maskL] at hk
  | .leaf i :: post, pre, up, hg, hn, h3, hkN, hk => by
    rw [reseedL]
    by_cases hb : (1 <<< i : Nat).testBit k = true
    · rw [if_pos hb]
      have hik : k = i := by
        have : k ∈ bits (1 <<< i) := hb
        rwa [bits_shift] at this
      subst hik
      exact ⟨by simpa [Good] using hg, ⟨by omega, hn⟩, ⟨_, rfl, by simp, h3⟩, rfl, fun s => Iff.rfl⟩
    · rw [if_neg hb]
      have e : (pre ++ [Hier.T.leaf i]) ++ post ++ up = pre ++ (Hier.T.leaf i :: post) ++ up := by simp
      have hk' : k ∈ bits (maskL post) := by
        simp only [maskL, mask, bits_or, Set.mem_union] at hk
        rcases hk with h | h
        · exact absurd h hb
        · exact h
      have := reseedL_spec k post (pre ++ [.leaf i]) up (by rw [e]; exact hg) (by rw [e]; exact hn)
        (by rw [e]; exact h3) (by rw [e]; exact hkN) hk'
      rw [e] at this; exact this
  | .node ds :: post, pre, up, hg, hn, h3, hkN, hk => by
    rw [reseedL]
    by_cases hb : (maskL ds).testBit k = true
    · rw [if_pos hb]
      have e : pre ++ (Hier.T.node ds :: post) ++ up = pre ++ Hier.T.node ds :: (post ++ up) := by simp
      rw [e] at hg hn h3 hkN ⊢
      have hlo : bits (1 <<< k) ⊆ bits (maskL (pre ++ Hier.T.node ds :: (post ++ up))) := by
        rw [bits_shift]; exact Set.singleton_subset_iff.mpr hkN
      obtain ⟨s1, s2, s3, s4, s5⟩ := step_ok (1 <<< k) pre ds (post ++ up) hg hn (by omega) hlo (single_shift k) (shift_ne_zero k)
      obtain ⟨r1, r2, r3, r4, r5⟩ := reseed_spec k (.node ds) [wrap (pre ++ (post ++ up))] ds rfl s1 s2 s3
        (by rw [s4]; exact hkN) hb
      exact ⟨r1, r2, r3, r4.trans s4, fun s => (r5 s).trans (s5 s)⟩
    · rw [if_neg hb]
      have e : (pre ++ [Hier.T.node ds]) ++ post ++ up = pre ++ (Hier.T.node ds :: post) ++ up := by simp
      have hk' : k ∈ bits (maskL post) := by
        simp only [maskL, mask, bits_or, Set.mem_union] at hk
        rcases hk with h | h
        · exact absurd h hb
        · exact h
      have := reseedL_spec k post (pre ++ [.node ds]) up (by rw [e]; exact hg) (by rw [e]; exact hn)
        (by rw [e]; exact h3) (by rw [e]; exact hkN) hk'
      rw [e] at this; exact this
end


/-- the basal bifurcation of an unrooted tree dissolved (`collapse2`): one more inversion step -/
theorem collapse2_spec (lo : Nat) (cs : List Hier.T) (hg : GoodL cs) (hn : NoUnifL cs) (h2 : 2 ≤ cs.length)
    (hlo : bits lo ⊆ bits (maskL cs)) (hsingle : ∀ a, bits lo ⊆ bits a ∨ Disjoint (bits lo) (bits a)) (hne : lo ≠ 0)
    (h3 : ¬ ∃ i j, cs = [.leaf i, .leaf j]) :
    ∃ ds, collapse2 (.node cs) = .node ds ∧ GoodL ds ∧ NoUnifL ds ∧ 3 ≤ ds.length ∧ maskL ds = maskL cs ∧
      ∀ s, s ∈ usplits lo (.node ds) ↔ s ∈ usplits lo (.node cs) := by
  match cs, hg, hn, h2, hlo, h3 with
  | [a, .node ds], hg, hn, h2, hlo, _ =>
    obtain ⟨s1, s2, s3, s4, s5⟩ := step_ok lo [a] ds [] hg hn h2 hlo hsingle hne
    exact ⟨ds ++ [a], rfl, s1, s2, s3, s4, s5⟩
  | [.node ds, .leaf j], hg, hn, h2, hlo, _ =>
    obtain ⟨s1, s2, s3, s4, s5⟩ := step_ok lo [] ds [.leaf j] hg hn h2 hlo hsingle hne
    exact ⟨ds ++ [.leaf j], rfl, s1, s2, s3, s4, s5⟩
  | [.leaf i, .leaf j], _, _, _, _, h3 => exact absurd ⟨i, j, rfl⟩ h3
  | a :: b :: c :: r, hg, hn, _, _, _ =>
    exact ⟨a :: b :: c :: r, by cases a <;> cases b <;> rfl, hg, hn, by simp, rfl, fun _ => Iff.rfl⟩

/-- at least three taxa -/
def ThreeTaxa (m : Nat) : Prop := ∃ a b c, a ∈ bits m ∧ b ∈ bits m ∧ c ∈ bits m ∧ a ≠ b ∧ a ≠ c ∧ b ≠ c

/-- **every** well-formed unifurcation-free tree with at least three taxa is brought into the canonical seed position of any
    of its leaves `k` by `canonU`, and the set of normalised split masks is not changed on the way -/
theorem canonU_spec (k : Nat) (t : Hier.T) (hg : Good t) (hn : NoUnif t) (hk : k ∈ bits (mask t)) (h3 : ThreeTaxa (mask t)) :
    Good (canonU k t) ∧ NoUnif (canonU k t) ∧ Canon k (canonU k t) ∧ mask (canonU k t) = mask t ∧
      ∀ s, s ∈ usplits (1 <<< k) (canonU k t) ↔ s ∈ usplits (1 <<< k) t := by
  obtain ⟨a, b, c, ha, hb, hc, hab, hac, hbc⟩ := h3
  cases t with
  | leaf i =>
    exfalso
    simp only [mask, bits_shift, Set.mem_singleton_iff] at ha hb
    exact hab (ha.trans hb.symm)
  | node cs =>
    simp only [Good] at hg
    simp only [NoUnif] at hn
    simp only [mask] at hk ha hb hc
    have hlo : bits (1 <<< k) ⊆ bits (maskL cs) := by rw [bits_shift]; exact Set.singleton_subset_iff.mpr hk
    have hnot : ¬ ∃ i j, cs = [Hier.T.leaf i, Hier.T.leaf j] := by
      rintro ⟨i, j, rfl⟩
      simp only [maskL, mask, Nat.or_zero, bits_or, bits_shift, Set.mem_union, Set.mem_singleton_iff] at ha hb hc
      rcases ha with rfl | rfl <;> rcases hb with rfl | rfl <;> rcases hc with rfl | rfl <;> simp_all
    obtain ⟨ds, hcol, d1, d2, d3, d4, d5⟩ := collapse2_spec (1 <<< k) cs hg hn.2 hn.1 hlo (single_shift k) (shift_ne_zero k) hnot
    have hkds : k ∈ bits (maskL ds) := by rw [d4]; exact hk
    obtain ⟨r1, r2, r3, r4, r5⟩ := reseed_spec k (.node ds) [] ds rfl (by simpa using d1) (by simpa using d2)
      (by simpa using d3) (by simpa using hkds) hkds
    simp only [List.append_nil] at r4 r5
    simp only [canonU, hcol]
    exact ⟨r1, r2, r3, by rw [r4, d4]; rfl, fun s => (r5 s).trans (d5 s)⟩

/-- two well-formed unifurcation-free trees in canonical seed position with the same leafset: equal sets of split masks
    (the seed edge's `0` included or not) ⇒ the same tree up to child order -/
theorem usplits0_injective_canon (k : Nat) (A B : Hier.T) (hgA : Good A) (hgB : Good B) (hnA : NoUnif A) (hnB : NoUnif B)
    (hcA : Canon k A) (hcB : Canon k B) (hL : mask A = mask B)
    (hU : ∀ x, (x = 0 ∨ x ∈ usplits (1 <<< k) A) ↔ (x = 0 ∨ x ∈ usplits (1 <<< k) B)) : Iso A B := by
  obtain ⟨cs, rfl, hk1, h31⟩ := hcA
  obtain ⟨ds, rfl, hk2, h32⟩ := hcB
  simp only [Good] at hgA hgB
  simp only [mask] at hL
  have h0 : maskL cs ≠ 0 := by
    intro hz
    have := k_mem_L hk1
    rw [hz, bits_zero] at this; exact this
  have hnz : ∀ (as : List Hier.T), GoodL as → Hier.T.leaf k ∈ as → ∀ x, x ∈ usplits (1 <<< k) (.node as) →
      x ≠ Hier.sdiff (maskL as) (1 <<< k) → x ≠ 0 := by
    intro as hga hka x hx hne
    rcases (usplits_canon hga hka x).mp hx with h | ⟨c', hc', _, hxc⟩
    · exact absurd h hne
    · exact clades_ne_zero c' (goodL_mem hga hc').1 (goodL_mem hga hc').2 x hxc
  apply clades_injective (.node cs) (.node ds) (by simpa [Good] using hgA) (by simpa [mask] using h0)
    (by simpa [Good] using hgB) (by simpa [mask, ← hL] using h0) hnA hnB
  intro x
  rw [clades_of_usplits hgA hk1 h31 x, clades_of_usplits hgB hk2 h32 x, hL]
  constructor
  · rintro (h | h | ⟨h1, h2⟩)
    · exact Or.inl h
    · exact Or.inr (Or.inl h)
    · refine Or.inr (Or.inr ⟨?_, h2⟩)
      have hx0 := hnz cs hgA hk1 x h1 (by rw [hL]; exact h2)
      rcases (hU x).mp (Or.inr h1) with h | h
      · exact absurd h hx0
      · exact h
  · rintro (h | h | ⟨h1, h2⟩)
    · exact Or.inl h
    · exact Or.inr (Or.inl h)
    · refine Or.inr (Or.inr ⟨?_, h2⟩)
      have hx0 := hnz ds hgB hk2 x h1 h2
      rcases (hU x).mpr (Or.inr h1) with h | h
      · exact absurd h hx0
      · exact h

/-- conversely the same tree up to child order has the same set of split masks -/
theorem usplits0_of_iso (lo : Nat) (A B : Hier.T) (hgA : Good A) (hgB : Good B) (h0A : mask A ≠ 0) (h0B : mask B ≠ 0)
    (hroot : Hier.norm (mask A) lo (mask A) = 0) (h : Iso A B) (x : Nat) :
    (x = 0 ∨ x ∈ usplits lo A) ↔ (x = 0 ∨ x ∈ usplits lo B) := by
  obtain ⟨hm, hc⟩ := iso_same A B h hgA hgB h0A h0B
  rw [usplits_or_zero lo A hroot, usplits_or_zero lo B (by rw [← hm]; exact hroot), hm]
  constructor
  · rintro ⟨y, hy, e⟩; exact ⟨y, (hc y).mp hy, e⟩
  · rintro ⟨y, hy, e⟩; exact ⟨y, (hc y).mpr hy, e⟩

/-- the unrooted half of C01(c) on mask-labelled trees, for every seed position: equal sets of normalised split masks iff
    the same unrooted topology (= the same tree once both are re-seeded next to leaf `k`) -/
theorem unrooted_same_splits_iff (k : Nat) (t u : Hier.T) (hgt : Good t) (hgu : Good u) (hnt : NoUnif t) (hnu : NoUnif u)
    (hL : mask t = mask u) (hk : k ∈ bits (mask t)) (h3 : ThreeTaxa (mask t)) :
    (∀ x, (x = 0 ∨ x ∈ usplits (1 <<< k) t) ↔ (x = 0 ∨ x ∈ usplits (1 <<< k) u)) ↔ Iso (canonU k t) (canonU k u) := by
  obtain ⟨a1, a2, a3, a4, a5⟩ := canonU_spec k t hgt hnt hk h3
  obtain ⟨b1, b2, b3, b4, b5⟩ := canonU_spec k u hgu hnu (by rw [← hL]; exact hk) (by rw [← hL]; exact h3)
  have h0 : mask t ≠ 0 := by intro h; rw [h, bits_zero] at hk; exact hk
  constructor
  · intro h
    apply usplits0_injective_canon k _ _ a1 b1 a2 b2 a3 b3 (by rw [a4, b4, hL])
    intro x; rw [a5 x, b5 x]; exact h x
  · intro h x
    have := usplits0_of_iso (1 <<< k) _ _ a1 b1 (by rw [a4]; exact h0) (by rw [b4, ← hL]; exact h0)
      (norm_self _ _ (shift_ne_zero k) (by rw [a4, bits_shift]; exact Set.singleton_subset_iff.mpr hk)) h x
    rw [a5 x, b5 x] at this; exact this

end DendroModel.C01.Bridge
