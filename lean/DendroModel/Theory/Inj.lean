import DendroModel.Theory.Hier4
namespace DendroModel.Hier

mutual
def NoUnif : T → Prop
  | .leaf _ => True
  | .node cs => 2 ≤ cs.length ∧ NoUnifL cs
def NoUnifL : List T → Prop
  | [] => True
  | c :: cs => NoUnif c ∧ NoUnifL cs
end

mutual
def Iso : T → T → Prop
  | .leaf i, u => u = .leaf i
  | .node cs, u => ∃ ds, u = .node ds ∧ cs.length = ds.length ∧ IsoL cs ds
def IsoL : List T → List T → Prop
  | [], _ => True
  | c :: cs, ds => (∃ d ∈ ds, Iso c d) ∧ IsoL cs ds
end

theorem noUnifL_mem {cs : List T} (h : NoUnifL cs) {c : T} (hc : c ∈ cs) : NoUnif c := by
  induction cs with
  | nil => cases hc
  | cons d ds ih =>
    simp [NoUnifL] at h
    rcases List.mem_cons.mp hc with rfl | h'
    · exact h.1
    · exact ih h.2 h'

theorem isoL_of_forall {cs ds : List T} (h : ∀ c ∈ cs, ∃ d ∈ ds, Iso c d) : IsoL cs ds := by
  induction cs with
  | nil => simp [IsoL]
  | cons c cs ih =>
    simp only [IsoL]
    exact ⟨h c (by simp), ih (fun c' hc' => h c' (by simp [hc']))⟩

theorem shift_ne_zero (i : Nat) : (1 <<< i) ≠ 0 := by
  intro h
  have : i ∈ bits (1 <<< i) := by rw [bits_shift]; rfl
  rw [h, bits_zero] at this; exact this

theorem shift_inj {i j : Nat} (h : (1 <<< i) = (1 <<< j)) : i = j := by
  have : i ∈ bits (1 <<< j) := by rw [← h, bits_shift]; rfl
  rw [bits_shift] at this; exact this

/-- in a Good sibling list, two members whose masks intersect are the same member -/
theorem goodL_eq_of_inter {cs : List T} (hg : GoodL cs) {c c' : T} (hc : c ∈ cs) (hc' : c' ∈ cs)
    (hne : mask c &&& mask c' ≠ 0) : c = c' := by
  induction cs with
  | nil => cases hc
  | cons d ds ih =>
    simp only [GoodL] at hg
    rcases List.mem_cons.mp hc with rfl | h1 <;> rcases List.mem_cons.mp hc' with rfl | h2
    · rfl
    · exfalso; apply hne
      rw [and_eq_zero_iff]
      exact ((and_eq_zero_iff _ _).mp hg.2.2.1).mono_right (bits_maskL_subset_of_mem h2)
    · exfalso; apply hne
      rw [and_eq_zero_iff]
      exact (((and_eq_zero_iff _ _).mp hg.2.2.1).mono_right (bits_maskL_subset_of_mem h1)).symm
    · exact ih hg.2.2.2 h1 h2

theorem ne_zero_bits {a : Nat} (h : a ≠ 0) : (bits a).Nonempty := by
  by_contra hne
  apply h; apply bits_inj
  rw [bits_zero]; exact Set.not_nonempty_iff_eq_empty.mp hne

theorem sub_inter_ne_zero {a b : Nat} (ha : a ≠ 0) (hab : bits a ⊆ bits b) : a &&& b ≠ 0 := by
  intro h
  have hd := (and_eq_zero_iff _ _).mp h
  rcases ne_zero_bits ha with ⟨x, hx⟩
  exact (Set.disjoint_left.mp hd) hx (hab hx)

/-- a child of a node with ≥ 2 Good children is a proper subset of the node -/
theorem mask_proper {cs : List T} (hg : GoodL cs) (h2 : 2 ≤ cs.length) {c : T} (hc : c ∈ cs) :
    mask c ≠ maskL cs := by
  intro heq
  -- pick another child c' ≠ c
  have : ∃ c' ∈ cs, c' ≠ c := by
    match cs, h2 with
    | a :: b :: rest, _ =>
      by_cases hab : a = c
      · by_cases hbc : b = c
        · -- a = b = c: then masks intersect but they are distinct positions: contradiction with GoodL
          exfalso
          simp only [GoodL] at hg
          have hab' : a = b := hab.trans hbc.symm
          have hd := (and_eq_zero_iff _ _).mp hg.2.2.1
          have hsub : bits (mask a) ⊆ bits (maskL (b :: rest)) := by
            rw [hab']; exact bits_maskL_subset_of_mem (by simp)
          rcases ne_zero_bits hg.2.1 with ⟨x, hx⟩
          exact (Set.disjoint_left.mp hd) hx (hsub hx)
        · exact ⟨b, by simp, hbc⟩
      · exact ⟨a, by simp, hab⟩
  rcases this with ⟨c', hc', hne⟩
  have hc'0 := (goodL_mem hg hc').2
  have hsub : bits (mask c') ⊆ bits (mask c) := by rw [heq]; exact bits_maskL_subset_of_mem hc'
  have := goodL_eq_of_inter hg hc' hc (sub_inter_ne_zero hc'0 hsub)
  exact hne this


mutual
theorem clades_ne_zero : ∀ t : T, Good t → mask t ≠ 0 → ∀ x ∈ clades t, x ≠ 0
  | .leaf i, _, _ => by intro x hx; simp [clades] at hx; subst hx; exact shift_ne_zero i
  | .node cs, hg, h0 => by
      intro x hx
      simp only [clades, List.mem_cons] at hx
      rcases hx with rfl | hx
      · simpa [mask] using h0
      · exact cladesL_ne_zero cs (by simpa [Good] using hg) x hx
theorem cladesL_ne_zero : ∀ cs : List T, GoodL cs → ∀ x ∈ cladesL cs, x ≠ 0
  | [], _ => by intro x hx; simp [cladesL] at hx
  | c :: cs, hg => by
      intro x hx
      simp only [GoodL] at hg
      simp only [cladesL, List.mem_append] at hx
      rcases hx with hx | hx
      · exact clades_ne_zero c hg.1 hg.2.1 x hx
      · exact cladesL_ne_zero cs hg.2.2.2 x hx
end

def Same (t u : T) : Prop := ∀ x, x ∈ clades t ↔ x ∈ clades u

/-- the key step: from equal clade sets of two nodes, each child of the first has a partner
    child in the second with the same mask and the same clade set -/
theorem partner {cs ds : List T} (hgc : GoodL cs) (hgd : GoodL ds)
    (hc2 : 2 ≤ cs.length) (hd2 : 2 ≤ ds.length)
    (hsame : Same (.node cs) (.node ds)) :
    ∀ c ∈ cs, ∃ d ∈ ds, mask c = mask d ∧ Same c d := by
  -- root masks agree
  have hroot : maskL cs = maskL ds := by
    apply bits_inj
    apply Set.Subset.antisymm
    · have : maskL cs ∈ clades (.node ds) := (hsame _).mp (by simp [clades])
      simpa [mask] using clades_sub (.node ds) _ this
    · have : maskL ds ∈ clades (.node cs) := (hsame _).mpr (by simp [clades])
      simpa [mask] using clades_sub (.node cs) _ this
  -- generic one-directional lemma
  have oneway : ∀ (as bs : List T), GoodL as → GoodL bs → 2 ≤ as.length → maskL as = maskL bs →
      (∀ x, x ∈ clades (.node as) → x ∈ clades (.node bs)) →
      ∀ a ∈ as, ∃ b ∈ bs, bits (mask a) ⊆ bits (mask b) := by
    intro as bs hga _ ha2 hr hsub a ha
    have hm : mask a ∈ clades (.node bs) := hsub _ (by
      simp only [clades, List.mem_cons]; right
      exact (mem_cladesL _ _).mpr ⟨a, ha, mask_mem_clades a⟩)
    simp only [clades, List.mem_cons] at hm
    rcases hm with hm | hm
    · exfalso; exact mask_proper hga ha2 ha (hm.trans hr.symm)
    · rcases (mem_cladesL _ _).mp hm with ⟨b, hb, hmb⟩
      exact ⟨b, hb, clades_sub b _ hmb⟩
  intro c hc
  rcases oneway cs ds hgc hgd hc2 hroot (fun x hx => (hsame x).mp hx) c hc with ⟨d, hd, hcd⟩
  rcases oneway ds cs hgd hgc hd2 hroot.symm (fun x hx => (hsame x).mpr hx) d hd with ⟨c', hc', hdc'⟩
  have hc0 := (goodL_mem hgc hc).2
  have hd0 := (goodL_mem hgd hd).2
  have hcc' : c = c' := goodL_eq_of_inter hgc hc hc' (sub_inter_ne_zero hc0 (hcd.trans hdc'))
  subst hcc'
  have hmask : mask c = mask d := bits_inj (Set.Subset.antisymm hcd hdc')
  refine ⟨d, hd, hmask, ?_⟩
  -- same clades: restriction argument, proved once generically
  have restrict : ∀ (as bs : List T) (a b : T), GoodL as → GoodL bs → 2 ≤ bs.length →
      a ∈ as → b ∈ bs → mask a = mask b → Good a → mask a ≠ 0 →
      (∀ x, x ∈ clades (.node as) → x ∈ clades (.node bs)) →
      ∀ x, x ∈ clades a → x ∈ clades b := by
    intro as bs a b _ hgb hb2 ha hb hab hga ha0 hsub x hx
    have hx0 : x ≠ 0 := clades_ne_zero a hga ha0 x hx
    have hxa : bits x ⊆ bits (mask a) := clades_sub a x hx
    have hxu : x ∈ clades (.node bs) := hsub x (by
      simp only [clades, List.mem_cons]; right
      exact (mem_cladesL _ _).mpr ⟨a, ha, hx⟩)
    simp only [clades, List.mem_cons] at hxu
    rcases hxu with hxr | hxl
    · exfalso
      -- x = root of bs, but x ⊆ mask b which is proper
      apply mask_proper hgb hb2 hb
      apply bits_inj
      apply Set.Subset.antisymm (bits_maskL_subset_of_mem hb)
      rw [← hxr, ← hab]; exact hxa
    · rcases (mem_cladesL _ _).mp hxl with ⟨b', hb', hxb'⟩
      have hxb'sub : bits x ⊆ bits (mask b') := clades_sub b' x hxb'
      have hinter : mask b' &&& mask b ≠ 0 := by
        intro hz
        have hd := (and_eq_zero_iff _ _).mp hz
        rcases ne_zero_bits hx0 with ⟨y, hy⟩
        exact (Set.disjoint_left.mp hd) (hxb'sub hy) (by rw [← hab]; exact hxa hy)
      have : b' = b := goodL_eq_of_inter hgb hb' hb hinter
      subst this; exact hxb'
  intro x
  constructor
  · exact restrict cs ds c d hgc hgd hd2 hc hd hmask (goodL_mem hgc hc).1 hc0 (fun x hx => (hsame x).mp hx) x
  · exact restrict ds cs d c hgd hgc hc2 hd hc hmask.symm (goodL_mem hgd hd).1 hd0 (fun x hx => (hsame x).mpr hx) x


theorem masks_nodup {cs : List T} (hg : GoodL cs) : (cs.map mask).Nodup := by
  induction cs with
  | nil => simp
  | cons c cs ih =>
    simp only [GoodL] at hg
    simp only [List.map_cons, List.nodup_cons]
    refine ⟨?_, ih hg.2.2.2⟩
    intro hmem
    rcases List.mem_map.mp hmem with ⟨c', hc', hm⟩
    have hd := (and_eq_zero_iff _ _).mp hg.2.2.1
    rcases ne_zero_bits hg.2.1 with ⟨x, hx⟩
    have : x ∈ bits (maskL cs) := bits_maskL_subset_of_mem hc' (by rw [hm]; exact hx)
    exact (Set.disjoint_left.mp hd) hx this

theorem length_le_of_partner {cs ds : List T} (hgc : GoodL cs)
    (h : ∀ c ∈ cs, ∃ d ∈ ds, mask c = mask d) : cs.length ≤ ds.length := by
  have hsub : (cs.map mask) ⊆ (ds.map mask) := by
    intro m hm
    rcases List.mem_map.mp hm with ⟨c, hc, rfl⟩
    rcases h c hc with ⟨d, hd, hcd⟩
    exact List.mem_map.mpr ⟨d, hd, hcd.symm⟩
  have := (List.subperm_of_subset (masks_nodup hgc) hsub).length_le
  simpa using this

theorem same_symm {t u : T} (h : Same t u) : Same u t := fun x => (h x).symm

mutual
theorem clades_injective : ∀ (t u : T), Good t → mask t ≠ 0 → Good u → mask u ≠ 0 →
    NoUnif t → NoUnif u → Same t u → Iso t u
  | .leaf i, u, _, _, hgu, hu0, _, hnu, hs => by
      simp only [Iso]
      cases u with
      | leaf j =>
        have : (1 <<< j) ∈ clades (.leaf i) := (hs _).mpr (by simp [clades])
        simp [clades] at this
        rw [shift_inj this]
      | node ds =>
        exfalso
        simp only [NoUnif] at hnu
        simp only [Good] at hgu
        -- every child mask of ds equals 1<<<i, contradiction with properness
        match ds, hnu.1 with
        | a :: b :: rest, h2 =>
          have ha : mask a ∈ clades (.leaf i) := (hs _).mpr (by
            simp only [clades, List.mem_cons]; right
            exact (mem_cladesL _ _).mpr ⟨a, by simp, mask_mem_clades a⟩)
          have hr : maskL (a :: b :: rest) ∈ clades (.leaf i) := (hs _).mpr (by simp [clades])
          simp only [clades, List.mem_singleton] at ha hr
          exact mask_proper hgu h2 (c := a) (by simp) (ha.trans hr.symm)
  | .node cs, u, hgt, ht0, hgu, hu0, hnt, hnu, hs => by
      simp only [Iso]
      simp only [NoUnif] at hnt
      simp only [Good] at hgt
      cases u with
      | leaf j =>
        exfalso
        match cs, hnt.1 with
        | a :: b :: rest, h2 =>
          have ha : mask a ∈ clades (.leaf j) := (hs _).mp (by
            simp only [clades, List.mem_cons]; right
            exact (mem_cladesL _ _).mpr ⟨a, by simp, mask_mem_clades a⟩)
          have hr : maskL (a :: b :: rest) ∈ clades (.leaf j) := (hs _).mp (by simp [clades])
          simp only [clades, List.mem_singleton] at ha hr
          exact mask_proper hgt h2 (c := a) (by simp) (ha.trans hr.symm)
      | node ds =>
        simp only [NoUnif] at hnu
        simp only [Good] at hgu
        have hp := partner hgt hgu hnt.1 hnu.1 hs
        have hp' := partner hgu hgt hnu.1 hnt.1 (same_symm hs)
        refine ⟨ds, rfl, ?_, ?_⟩
        · apply Nat.le_antisymm
          · exact length_le_of_partner hgt (fun c hc => by
              rcases hp c hc with ⟨d, hd, hm, _⟩; exact ⟨d, hd, hm⟩)
          · exact length_le_of_partner hgu (fun d hd => by
              rcases hp' d hd with ⟨c, hc, hm, _⟩; exact ⟨c, hc, hm⟩)
        · apply isoL_of_forall
          intro c hc
          rcases hp c hc with ⟨d, hd, hm, hsame⟩
          have hgc := goodL_mem hgt hc
          have hgd := goodL_mem hgu hd
          exact ⟨d, hd, clades_injectiveL cs c hc d hgc.1 hgc.2 hgd.1 hgd.2
            (noUnifL_mem hnt.2 hc) (noUnifL_mem hnu.2 hd) hsame⟩
theorem clades_injectiveL : ∀ (cs : List T), ∀ c ∈ cs, ∀ d : T, Good c → mask c ≠ 0 → Good d → mask d ≠ 0 →
    NoUnif c → NoUnif d → Same c d → Iso c d
  | [], c, hc => by cases hc
  | c0 :: cs, c, hc => by
      intro d h1 h2 h3 h4 h5 h6 h7
      rcases List.mem_cons.mp hc with h | hc'
      · rw [h] at h1 h2 h5 h7 ⊢
        exact clades_injective c0 d h1 h2 h3 h4 h5 h6 h7
      · exact clades_injectiveL cs c hc' d h1 h2 h3 h4 h5 h6 h7
end

end DendroModel.Hier
