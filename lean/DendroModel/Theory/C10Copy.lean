import DendroModel.Theory.C10World
/-! C10 — the three ways to make a new namespace: constructor from an iterable, copy constructor, deepcopy. -/
namespace DendroModel.C10.Aux
open DendroModel DendroModel.C10

/-! ### copy constructor -/
theorem addTaxa_taxa : ∀ (ts : List Nat) (s : NS), Inv s → s.mutable_ = true → ts.Nodup → (∀ t ∈ ts, t ∉ s.taxa) →
    (s.addTaxa ts).1.taxa = s.taxa ++ ts := by
  intro ts
  induction ts with
  | nil => intro s _ _ _ _; simp [NS.addTaxa]
  | cons t ts ih =>
    intro s hi hm hn hf
    have hnot : t ∉ s.taxa := hf t (by simp)
    have hc : s.contains t = false := by
      cases h : s.contains t with
      | false => rfl
      | true => exact absurd ((hi.dom t).2 ((contains_iff s t).1 h)) hnot
    rw [List.nodup_cons] at hn
    unfold NS.addTaxa
    cases hadd : s.addTaxon t with
    | error e => simp [NS.addTaxon, hc, hm] at hadd
    | ok s' =>
      have hi' := inv_addTaxon hi hadd
      rcases addTaxon_cases hadd with ⟨h1, _⟩ | ⟨_, _, rfl⟩
      · rw [hc] at h1; cases h1
      · simp only
        rw [ih _ hi' hm hn.2]
        · simp
        · intro x hx; simp only [List.mem_append, List.mem_singleton, not_or]
          exact ⟨hf x (by simp [hx]), fun e => hn.1 (e ▸ hx)⟩

/-- `TaxonNamespace(other)` has the same members, in the same order, with the same bits, memo, counter and flags -/
theorem copyCtor_eq {o : NS} (hi : Inv o) : o.copyCtor = o := by
  have h := addTaxa_taxa o.taxa (NS.empty false) (inv_empty false) rfl hi.nodup (by simp [NS.empty])
  have h' : ((NS.empty false).addTaxa o.taxa).1.taxa = o.taxa := by simpa [NS.empty] using h
  cases o
  simp only [NS.copyCtor, NS.mk.injEq, and_true]
  exact h'

/-! ### the constructor's loop -/
theorem ctorLoop_spec : ∀ (items : List Item) (w : World) (s : NS), Inv s → (∀ t ∈ s.taxa, t < w.labels.length) →
    (items.all (Item.refOk w.labels.length) = true) →
    Inv (ctorLoop w s items).2 ∧ (∀ t ∈ (ctorLoop w s items).2.taxa, t < (ctorLoop w s items).1.labels.length) ∧
    (ctorLoop w s items).1.nss = w.nss ∧ w.labels.length ≤ (ctorLoop w s items).1.labels.length := by
  intro items
  induction items with
  | nil => intro w s hi hf _; exact ⟨hi, hf, rfl, Nat.le_refl _⟩
  | cons it items ih =>
    intro w s hi hf hr
    simp only [List.all_cons, Bool.and_eq_true] at hr
    cases it with
    | tax t =>
      simp only [Item.refOk, decide_eq_true_eq] at hr
      unfold ctorLoop
      cases h : s.addTaxon t with
      | error e => exact ih w s hi hf hr.2
      | ok s' =>
        simp only
        exact ih w s' (inv_addTaxon hi h)
          (prim_fresh (c := ⟨false, true, w.labels.length⟩) (.add t rfl hr.1 h) hf) hr.2
    | lab l =>
      unfold ctorLoop
      simp only
      have hr2 : (items.all (Item.refOk (w.labels ++ [l]).length) = true) := by
        rw [List.all_eq_true] at hr ⊢
        intro x hx
        have := hr.2 x hx
        cases x with
        | tax t => simp [Item.refOk] at this ⊢; omega
        | lab _ => rfl
      cases h : s.addTaxon w.labels.length with
      | error e =>
        simp only
        obtain ⟨a, b, c, d⟩ := ih { w with labels := w.labels ++ [l] } s hi
          (fun t ht => by have := hf t ht; simp; omega) hr2
        exact ⟨a, b, c, by simp at d; omega⟩
      | ok s' =>
        simp only
        obtain ⟨a, b, c, d⟩ := ih { w with labels := w.labels ++ [l] } s' (inv_addTaxon hi h)
          (prim_fresh (c := ⟨false, true, (w.labels ++ [l]).length⟩) (.add w.labels.length rfl (by simp) h)
            (fun t ht => by have := hf t ht; simp; omega)) hr2
        exact ⟨a, b, c, by simp at d; omega⟩

/-! ### deepcopy -/
theorem pos_spec : ∀ (l : List Nat) (t k : Nat), pos t l = some k → l[k]? = some t := by
  intro l
  induction l with
  | nil => intro t k h; cases h
  | cons x xs ih =>
    intro t k h
    unfold pos at h
    by_cases e : x = t
    · rw [if_pos e] at h; cases h; simp [e]
    · rw [if_neg e] at h
      cases hp : pos t xs with
      | none => rw [hp] at h; cases h
      | some j =>
        rw [hp] at h; simp at h; subst h
        simpa using ih t j hp

theorem pos_isSome : ∀ (l : List Nat) (t : Nat), t ∈ l → (pos t l).isSome = true := by
  intro l
  induction l with
  | nil => intro t h; cases h
  | cons x xs ih =>
    intro t h
    unfold pos
    by_cases e : x = t
    · simp [e]
    · rw [if_neg e]
      have : t ∈ xs := by
        rcases List.mem_cons.1 h with h | h
        · exact absurd h.symm e
        · exact h
      have := ih t this
      cases hp : pos t xs with
      | none => rw [hp] at this; cases this
      | some j => simp

theorem pos_mem (l : List Nat) (t k : Nat) (h : pos t l = some k) : t ∈ l :=
  List.mem_of_getElem? (pos_spec l t k h)

theorem pos_inj (l : List Nat) (t t' k : Nat) (h : pos t l = some k) (h' : pos t' l = some k) : t = t' := by
  have a := pos_spec l t k h
  have b := pos_spec l t' k h'
  rw [a] at b; exact Option.some.inj b

/-- the renaming of `copy.deepcopy`'s memo -/
def ren (o : NS) (base : Nat) (t : Nat) : Option Nat := (pos t o.taxa).map (base + ·)

theorem ren_inj (o : NS) (base : Nat) {t t' x : Nat} (h : ren o base t = some x) (h' : ren o base t' = some x) : t = t' := by
  unfold ren at h h'
  cases hp : pos t o.taxa with
  | none => rw [hp] at h; cases h
  | some k =>
    cases hp' : pos t' o.taxa with
    | none => rw [hp'] at h'; cases h'
    | some k' =>
      rw [hp] at h; rw [hp'] at h'; simp at h h'
      have : k = k' := by omega
      subst this
      exact pos_inj _ _ _ _ hp hp'

theorem ren_isSome (o : NS) (base : Nat) {t : Nat} (h : t ∈ o.taxa) : (ren o base t).isSome = true := by
  unfold ren; have := pos_isSome _ _ h
  cases hp : pos t o.taxa with
  | none => rw [hp] at this; cases this
  | some k => simp

theorem ren_mem (o : NS) (base : Nat) {t x : Nat} (h : ren o base t = some x) : t ∈ o.taxa := by
  unfold ren at h
  cases hp : pos t o.taxa with
  | none => rw [hp] at h; cases h
  | some k => exact pos_mem _ _ _ hp

theorem ren_ge (o : NS) (base : Nat) {t x : Nat} (h : ren o base t = some x) : base ≤ x ∧ x < base + o.taxa.length := by
  unfold ren at h
  cases hp : pos t o.taxa with
  | none => rw [hp] at h; cases h
  | some k =>
    rw [hp] at h; simp at h
    have := pos_spec _ _ _ hp
    have hk : k < o.taxa.length := (List.getElem?_eq_some_iff.1 this).1
    omega

/-- a dictionary whose keys go through the memo -/
theorem get_renKeys (f : Nat → Option Nat) (hinj : ∀ t t' x, f t = some x → f t' = some x → t = t') :
    ∀ (m : Map) (t x : Nat), f t = some x →
      Map.get (m.filterMap (fun p => (f p.1).map (fun t' => (t', p.2)))) x = m.get t := by
  intro m
  induction m with
  | nil => intro t x _; rfl
  | cons p r ih =>
    intro t x hx
    obtain ⟨a, b⟩ := p
    simp only [List.filterMap_cons]
    cases ha : f a with
    | none =>
      have : a ≠ t := by intro e; subst e; rw [ha] at hx; cases hx
      simp [get_cons, this, ih t x hx]
    | some a' =>
      simp only [Option.map_some, get_cons]
      by_cases e : a' = x
      · subst e
        have : a = t := hinj _ _ _ ha hx
        simp [this]
      · have : a ≠ t := by intro e'; subst e'; rw [ha] at hx; exact e (Option.some.inj hx)
        simp [e, this, ih t x hx]

theorem get_renKeys_none (f : Nat → Option Nat) :
    ∀ (m : Map) (x : Nat), (∀ t, f t ≠ some x) →
      Map.get (m.filterMap (fun p => (f p.1).map (fun t' => (t', p.2)))) x = none := by
  intro m
  induction m with
  | nil => intro x _; rfl
  | cons p r ih =>
    intro x hx
    obtain ⟨a, b⟩ := p
    simp only [List.filterMap_cons]
    cases ha : f a with
    | none => simpa using ih x hx
    | some a' =>
      have : a' ≠ x := by intro e; subst e; exact hx a ha
      simp [get_cons, this, ih x hx]

/-- a dictionary whose values go through the memo (every value is known to the memo) -/
theorem get_renVals (f : Nat → Option Nat) :
    ∀ (m : Map), (∀ p ∈ m, (f p.2).isSome = true) → ∀ i,
      Map.get (m.filterMap (fun p => (f p.2).map (fun t' => (p.1, t')))) i = (m.get i).bind f := by
  intro m
  induction m with
  | nil => intro _ i; rfl
  | cons p r ih =>
    intro hall i
    obtain ⟨a, b⟩ := p
    have hb := hall (a, b) (by simp)
    simp only at hb
    cases hfb : f b with
    | none => rw [hfb] at hb; cases hb
    | some b' =>
      simp only [List.filterMap_cons, hfb, Option.map_some, get_cons]
      by_cases e : a = i
      · simp [e, hfb]
      · simp [e, ih (fun p hp => hall p (by simp [hp])) i]

theorem keys_renVals (f : Nat → Option Nat) (m : Map) (h : (m.map Prod.fst).Nodup) :
    ((m.filterMap (fun p => (f p.2).map (fun t' => (p.1, t')))).map Prod.fst).Nodup := by
  have : (m.filterMap (fun p => (f p.2).map (fun t' => (p.1, t')))).map Prod.fst
      = (m.filter (fun p => (f p.2).isSome)).map Prod.fst := by
    induction m with
    | nil => rfl
    | cons p r ih =>
      have ih' := ih (by simp only [List.map_cons, List.nodup_cons] at h; exact h.2)
      cases hf : f p.2 with
      | none => simp [hf, ih']
      | some y => simp [hf, ih']
  rw [this]
  exact h.sublist (List.Sublist.map _ List.filter_sublist)

theorem deepCopy_taxa_mem (o : NS) (base x : Nat) :
    x ∈ (o.deepCopy base).taxa ↔ ∃ t, t ∈ o.taxa ∧ ren o base t = some x := by
  simp [NS.deepCopy, List.mem_filterMap, ren]

theorem inv_deepCopy {o : NS} (hi : Inv o) (base : Nat) : Inv (o.deepCopy base) := by
  have hinj : ∀ t t' x, ren o base t = some x → ren o base t' = some x → t = t' :=
    fun t t' x h h' => ren_inj o base h h'
  have ht2a : ∀ t x, ren o base t = some x → (o.deepCopy base).t2a.get x = o.t2a.get t := by
    intro t x hx
    exact get_renKeys (ren o base) hinj o.t2a t x hx
  have ht2a_none : ∀ x, (∀ t, ren o base t ≠ some x) → (o.deepCopy base).t2a.get x = none := by
    intro x hx
    exact get_renKeys_none (ren o base) o.t2a x hx
  have hvals : ∀ p ∈ o.a2t, (ren o base p.2).isSome = true := by
    intro p hp
    obtain ⟨i, t⟩ := p
    have h1 := get_of_mem o.a2t i t hi.keys hp
    have h2 := (hi.inverse t i).2 h1
    have h3 : t ∈ o.taxa := (hi.dom t).2 (by simp [h2])
    exact ren_isSome o base h3
  have ha2t : ∀ i, (o.deepCopy base).a2t.get i = (o.a2t.get i).bind (ren o base) :=
    get_renVals (ren o base) o.a2t hvals
  constructor
  · -- nodup
    show (o.taxa.filterMap (ren o base)).Nodup
    rw [List.Nodup, List.pairwise_filterMap]
    refine hi.nodup.imp ?_
    intro a a' hne b hb b' hb' e
    subst e
    exact hne (hinj _ _ _ hb hb')
  · intro x
    rw [deepCopy_taxa_mem]
    constructor
    · rintro ⟨t, ht, hx⟩
      rw [ht2a t x hx]; exact (hi.dom t).1 ht
    · intro h
      by_cases hex : ∃ t, ren o base t = some x
      · obtain ⟨t, hx⟩ := hex
        exact ⟨t, ren_mem o base hx, hx⟩
      · rw [ht2a_none x (fun t ht => hex ⟨t, ht⟩)] at h; cases h
  · intro x i h
    by_cases hex : ∃ t, ren o base t = some x
    · obtain ⟨t, hx⟩ := hex
      rw [ht2a t x hx] at h
      exact hi.lt t i h
    · rw [ht2a_none x (fun t ht => hex ⟨t, ht⟩)] at h; cases h
  · intro x i
    rw [ha2t i]
    constructor
    · intro h
      by_cases hex : ∃ t, ren o base t = some x
      · obtain ⟨t, hx⟩ := hex
        rw [ht2a t x hx] at h
        rw [(hi.inverse t i).1 h]; simpa using hx
      · rw [ht2a_none x (fun t ht => hex ⟨t, ht⟩)] at h; cases h
    · intro h
      cases hg : o.a2t.get i with
      | none => rw [hg] at h; cases h
      | some t =>
        rw [hg] at h; simp at h
        rw [ht2a t x h]
        exact (hi.inverse t i).2 hg
  · intro x m h
    by_cases hex : ∃ t, ren o base t = some x
    · obtain ⟨t, hx⟩ := hex
      have : (o.deepCopy base).bm.get x = o.bm.get t := get_renKeys (ren o base) hinj o.bm t x hx
      rw [this] at h
      obtain ⟨i, h1, h2⟩ := hi.memo t m h
      exact ⟨i, by rw [ht2a t x hx]; exact h1, h2⟩
    · have : (o.deepCopy base).bm.get x = none := get_renKeys_none (ren o base) o.bm x (fun t ht => hex ⟨t, ht⟩)
      rw [this] at h; cases h
  · exact keys_renVals (ren o base) o.a2t hi.keys

theorem deepCopy_fresh (o : NS) (base : Nat) : ∀ x ∈ (o.deepCopy base).taxa, base ≤ x ∧ x < base + o.taxa.length := by
  intro x hx
  obtain ⟨t, _, h⟩ := (deepCopy_taxa_mem o base x).1 hx
  exact ren_ge o base h

end DendroModel.C10.Aux
