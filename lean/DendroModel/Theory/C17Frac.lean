import DendroModel.Basic.Frac
import Mathlib.Tactic
/-! C17 — reading the executable `Frac` arithmetic in `ℚ`: `toRat` is a homomorphism on
well-formed (`den ≠ 0`) fractions, and the Boolean comparisons decide the order of `ℚ`. -/
namespace DendroModel.Frac

/-- the rational number a `Frac` denotes -/
def toRat (a : Frac) : ℚ := (a.num : ℚ) / (a.den : ℚ)

/-- well-formed: non-zero denominator (every constructor function of `Frac` keeps this) -/
def WF (a : Frac) : Prop := a.den ≠ 0

theorem mk'_wf (n : Int) (d : Nat) : WF (mk' n d) := by
  unfold mk' WF
  by_cases hd : d = 0
  · simp [hd]
  · have hg : Nat.gcd n.natAbs d ≠ 0 := by
      intro h; exact hd (Nat.eq_zero_of_gcd_eq_zero_right h)
    simp only [beq_iff_eq, hd, hg, if_false]
    have hdvd : Nat.gcd n.natAbs d ∣ d := Nat.gcd_dvd_right _ _
    intro h
    have := Nat.div_pos (Nat.le_of_dvd (Nat.pos_of_ne_zero hd) hdvd) (Nat.pos_of_ne_zero hg)
    omega

theorem mk'_toRat (n : Int) {d : Nat} (hd : d ≠ 0) : (mk' n d).toRat = (n : ℚ) / (d : ℚ) := by
  unfold mk' toRat
  have hg : Nat.gcd n.natAbs d ≠ 0 := by
    intro h; exact hd (Nat.eq_zero_of_gcd_eq_zero_right h)
  simp only [beq_iff_eq, hd, hg, if_false]
  have hdvd : Nat.gcd n.natAbs d ∣ d := Nat.gcd_dvd_right _ _
  have hdvn : ((Nat.gcd n.natAbs d : ℕ) : ℤ) ∣ n := by
    have := Nat.gcd_dvd_left n.natAbs d
    exact Int.natCast_dvd.mpr this
  have hgq : ((Nat.gcd n.natAbs d : ℕ) : ℚ) ≠ 0 := by exact_mod_cast hg
  have hdq : (d : ℚ) ≠ 0 := by exact_mod_cast hd
  rw [Int.cast_div hdvn (by exact_mod_cast hg), Nat.cast_div hdvd hgq]
  push_cast
  field_simp

theorem zero_wf : WF zero := by simp [WF, zero]
theorem zero_toRat : zero.toRat = 0 := by simp [toRat, zero]
theorem ofNat_wf (n : Nat) : WF (ofNat n) := by simp [WF, ofNat]
theorem ofNat_toRat (n : Nat) : (ofNat n).toRat = n := by simp [toRat, ofNat]
theorem ofInt_wf (n : Int) : WF (ofInt n) := by simp [WF, ofInt]
theorem ofInt_toRat (n : Int) : (ofInt n).toRat = n := by simp [toRat, ofInt]

theorem add_wf (a b : Frac) : WF (a + b) := mk'_wf _ _
theorem add_toRat {a b : Frac} (ha : WF a) (hb : WF b) : (a + b).toRat = a.toRat + b.toRat := by
  show (add a b).toRat = _
  unfold add
  rw [mk'_toRat _ (Nat.mul_ne_zero ha hb)]
  have ha' : (a.den : ℚ) ≠ 0 := by exact_mod_cast ha
  have hb' : (b.den : ℚ) ≠ 0 := by exact_mod_cast hb
  unfold toRat
  push_cast
  field_simp

theorem neg_wf {a : Frac} (ha : WF a) : WF (neg a) := ha
theorem neg_toRat (a : Frac) : (neg a).toRat = -a.toRat := by
  simp [toRat, neg, neg_div]

theorem sub_wf (a b : Frac) : WF (a - b) := mk'_wf _ _
theorem sub_toRat {a b : Frac} (ha : WF a) (hb : WF b) : (a - b).toRat = a.toRat - b.toRat := by
  show (add a (neg b)).toRat = _
  have := add_toRat ha (neg_wf hb)
  rw [show (add a (neg b)) = a + neg b from rfl, this, neg_toRat]; ring

theorem mul_wf (a b : Frac) : WF (a * b) := mk'_wf _ _
theorem mul_toRat {a b : Frac} (ha : WF a) (hb : WF b) : (a * b).toRat = a.toRat * b.toRat := by
  show (mul a b).toRat = _
  unfold mul
  rw [mk'_toRat _ (Nat.mul_ne_zero ha hb)]
  have ha' : (a.den : ℚ) ≠ 0 := by exact_mod_cast ha
  have hb' : (b.den : ℚ) ≠ 0 := by exact_mod_cast hb
  unfold toRat
  push_cast
  field_simp

theorem abs_wf {a : Frac} (ha : WF a) : WF (abs a) := ha
theorem abs_toRat (a : Frac) : (abs a).toRat = |a.toRat| := by
  simp [toRat, abs, abs_div]

theorem den_pos {a : Frac} (ha : WF a) : (0 : ℚ) < (a.den : ℚ) := by
  have : 0 < a.den := Nat.pos_of_ne_zero ha
  exact_mod_cast this

theorem lt_iff {a b : Frac} (ha : WF a) (hb : WF b) : lt a b = true ↔ a.toRat < b.toRat := by
  unfold lt toRat
  rw [decide_eq_true_iff, div_lt_div_iff₀ (den_pos ha) (den_pos hb)]
  constructor
  · intro h; exact_mod_cast h
  · intro h; exact_mod_cast h

theorem le_iff {a b : Frac} (ha : WF a) (hb : WF b) : le a b = true ↔ a.toRat ≤ b.toRat := by
  unfold le toRat
  rw [decide_eq_true_iff, div_le_div_iff₀ (den_pos ha) (den_pos hb)]
  constructor
  · intro h; exact_mod_cast h
  · intro h; exact_mod_cast h

theorem beq_iff {a b : Frac} (ha : WF a) (hb : WF b) : beq a b = true ↔ a.toRat = b.toRat := by
  unfold beq toRat
  rw [beq_iff_eq, div_eq_div_iff (ne_of_gt (den_pos ha)) (ne_of_gt (den_pos hb))]
  constructor
  · intro h; exact_mod_cast h
  · intro h; exact_mod_cast h

theorem lt_false_iff {a b : Frac} (ha : WF a) (hb : WF b) : lt a b = false ↔ b.toRat ≤ a.toRat := by
  rw [← not_lt, ← lt_iff ha hb]; simp

theorem div_wf (a b : Frac) : WF (div a b) := by
  unfold div
  split
  · exact zero_wf
  · split <;> exact mk'_wf _ _

theorem div_toRat {a b : Frac} (ha : WF a) (hb : WF b) : (div a b).toRat = a.toRat / b.toRat := by
  have ha' : (a.den : ℚ) ≠ 0 := by exact_mod_cast ha
  have hb' : (b.den : ℚ) ≠ 0 := by exact_mod_cast hb
  unfold div
  by_cases h0 : b.num = 0
  · simp [h0, toRat, zero]
  · have hq : (b.num : ℚ) ≠ 0 := by exact_mod_cast h0
    have hna : b.num.natAbs ≠ 0 := by simpa using h0
    simp only [beq_iff_eq, h0, if_false]
    by_cases hp : b.num > 0
    · simp only [hp, if_true]
      rw [mk'_toRat _ (Nat.mul_ne_zero ha hna)]
      have : ((b.num.natAbs : ℕ) : ℚ) = b.num := by
        rw [Nat.cast_natAbs, abs_of_pos hp]
      unfold toRat; push_cast; rw [this]; field_simp
    · simp only [hp, if_false]
      rw [mk'_toRat _ (Nat.mul_ne_zero ha hna)]
      have : ((b.num.natAbs : ℕ) : ℚ) = -b.num := by
        rw [Nat.cast_natAbs, abs_of_nonpos (le_of_not_gt hp)]; push_cast; rfl
      unfold toRat; push_cast; rw [this]; field_simp

theorem half_wf (a : Frac) : WF (half a) := mk'_wf _ _
theorem half_toRat {a : Frac} (ha : WF a) : (half a).toRat = a.toRat / 2 := by
  unfold half
  rw [mk'_toRat _ (Nat.mul_ne_zero ha (by decide))]
  have ha' : (a.den : ℚ) ≠ 0 := by exact_mod_cast ha
  unfold toRat; push_cast; field_simp

theorem isZero_iff {a : Frac} (ha : WF a) : isZero a = true ↔ a.toRat = 0 := by
  have ha' : (a.den : ℚ) ≠ 0 := by exact_mod_cast ha
  unfold isZero toRat
  rw [beq_iff_eq, div_eq_zero_iff]
  constructor
  · intro h; left; exact_mod_cast h
  · rintro (h | h)
    · exact_mod_cast h
    · exact absurd h ha'

end DendroModel.Frac
