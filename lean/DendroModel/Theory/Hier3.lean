import DendroModel.Theory.Hier2
namespace DendroModel.Hier

theorem goodL_mem {cs : List T} (h : GoodL cs) {c : T} (hc : c ∈ cs) : Good c ∧ mask c ≠ 0 := by
  induction cs with
  | nil => cases hc
  | cons d ds ih =>
    simp [GoodL] at h
    rcases List.mem_cons.mp hc with rfl | h'
    · exact ⟨h.1, h.2.1⟩
    · exact ih h.2.2.2 h'

theorem goodL_filter (p : T → Bool) {cs : List T} (h : GoodL cs) : GoodL (cs.filter p) := by
  induction cs with
  | nil => simp [GoodL]
  | cons d ds ih =>
    simp [GoodL] at h
    by_cases hp : p d = true
    · simp [List.filter, hp, GoodL]
      refine ⟨h.1, h.2.1, ?_, ih h.2.2.2⟩
      rw [and_eq_zero_iff] at *
      apply h.2.2.1.mono_right
      rw [bits_maskL, bits_maskL]
      intro x hx
      simp at hx ⊢
      rcases hx with ⟨c, ⟨hc, _⟩, hxc⟩
      exact ⟨c, hc, hxc⟩
    · simp [List.filter, hp]
      exact ih h.2.2.2

theorem mem_cladesL (cs : List T) (x : Nat) : x ∈ cladesL cs ↔ ∃ c ∈ cs, x ∈ clades c := by
  induction cs with
  | nil => simp [cladesL]
  | cons d ds ih => simp [cladesL, ih]


-- clades of a Good tree are all nonzero subsets of its mask
mutual
theorem clades_sub : ∀ t : T, ∀ x ∈ clades t, bits x ⊆ bits (mask t)
  | .leaf i => by intro x hx; simp [clades] at hx; subst hx; simp [mask]
  | .node cs => by
      intro x hx
      simp [clades] at hx
      rcases hx with rfl | hx
      · simp [mask]
      · simp [mask]; exact cladesL_sub cs x hx
theorem cladesL_sub : ∀ cs : List T, ∀ x ∈ cladesL cs, bits x ⊆ bits (maskL cs)
  | [] => by intro x hx; simp [cladesL] at hx
  | c :: cs => by
      intro x hx
      simp [cladesL] at hx
      simp [maskL]
      rcases hx with hx | hx
      · exact (clades_sub c x hx).trans Set.subset_union_left
      · exact (cladesL_sub cs x hx).trans Set.subset_union_right
end

theorem sub_of_and_eq {a b : Nat} (h : a &&& b = a) : bits a ⊆ bits b := (and_eq_left_iff a b).mp h

theorem leaf_case (S i : Nat) (h0 : S ≠ 0) (h : S &&& (1 <<< i) = S) : S = 1 <<< i := by
  apply bits_inj
  have hs := sub_of_and_eq h
  rw [bits_shift] at hs ⊢
  apply Set.Subset.antisymm hs
  intro x hx
  have hx' : x = i := hx
  subst hx'
  by_contra hne
  apply h0
  apply bits_inj
  rw [bits_zero]
  ext y
  constructor
  · intro hy
    have : y = x := hs hy
    subst this; exact hne hy
  · intro hy; cases hy

end DendroModel.Hier
