import DendroModel.Theory.C10Rel
/-! C10 — bit level: `taxa_bitmask`, `bitmask_taxa_list`, the Newick rendering. -/
namespace DendroModel.C10.Aux
open DendroModel DendroModel.C10

theorem testBit_one_shiftLeft (i j : Nat) : (1 <<< i).testBit j = decide (i = j) := by
  rw [Nat.one_shiftLeft, Nat.testBit_two_pow]

theorem and_bit_ne_zero (m i : Nat) : m &&& (1 <<< i) ≠ 0 ↔ m.testBit i = true := by
  constructor
  · intro h
    cases hb : m.testBit i with
    | true => rfl
    | false =>
      exfalso; apply h
      apply Nat.eq_of_testBit_eq
      intro k
      rw [Nat.testBit_and, testBit_one_shiftLeft, Nat.zero_testBit]
      by_cases e : i = k
      · subst e; simp [hb]
      · simp [e]
  · intro h e
    have : (m &&& (1 <<< i)).testBit i = true := by
      rw [Nat.testBit_and, testBit_one_shiftLeft, h]; simp
    rw [e, Nat.zero_testBit] at this; cases this

/-- `taxon_bitmask` only touches the memo -/
theorem taxonBitmask_frame (s : NS) (t : Nat) :
    (s.taxonBitmask t).1.taxa = s.taxa ∧ (s.taxonBitmask t).1.t2a = s.t2a ∧ (s.taxonBitmask t).1.a2t = s.a2t ∧
    (s.taxonBitmask t).1.count = s.count := by
  unfold NS.taxonBitmask
  cases s.bm.get t with
  | some m => simp
  | none => cases s.t2a.get t <;> simp

theorem taxonBitmask_ok {s : NS} (hi : Inv s) {t : Nat} (ht : t ∈ s.taxa) :
    ∃ i, s.t2a.get t = some i ∧ (s.taxonBitmask t).2 = .ok (1 <<< i) := by
  obtain ⟨i, h1⟩ := Option.isSome_iff_exists.1 ((hi.dom t).1 ht)
  refine ⟨i, h1, ?_⟩
  unfold NS.taxonBitmask
  cases hb : s.bm.get t with
  | some m =>
    obtain ⟨j, h2, h3⟩ := hi.memo t m hb
    rw [h1] at h2; cases h2; simp [h3]
  | none => simp [h1]

theorem taxaBitmask_spec : ∀ (ts : List Nat) (s : NS) (acc : Nat), Inv s → (∀ t ∈ ts, t ∈ s.taxa) →
    ∃ s' m, s.taxaBitmask ts acc = (s', .ok m) ∧ Inv s' ∧ s'.taxa = s.taxa ∧ s'.t2a = s.t2a ∧ s'.a2t = s.a2t ∧
      ∀ i, (m.testBit i = true ↔ acc.testBit i = true ∨ ∃ t ∈ ts, s.t2a.get t = some i) := by
  intro ts
  induction ts with
  | nil => intro s acc hi _; exact ⟨s, acc, rfl, hi, rfl, rfl, rfl, by simp⟩
  | cons t ts ih =>
    intro s acc hi hm
    obtain ⟨i, h1, h2⟩ := taxonBitmask_ok hi (hm t (by simp))
    obtain ⟨f1, f2, f3, _⟩ := taxonBitmask_frame s t
    have hi1 : Inv (s.taxonBitmask t).1 := rel_inv (taxonBitmask_rel (c := ⟨false, false, 0⟩) s t) hi
    unfold NS.taxaBitmask
    rcases hx : s.taxonBitmask t with ⟨s1, r⟩
    rw [hx] at h2 f1 f2 f3 hi1
    simp only at h2 f1 f2 f3 hi1
    subst h2
    simp only
    obtain ⟨s', m, e, hi', g1, g2, g3, g4⟩ := ih s1 (acc ||| 1 <<< i) hi1 (fun x hx => by rw [f1]; exact hm x (by simp [hx]))
    refine ⟨s', m, e, hi', g1.trans f1, g2.trans f2, g3.trans f3, ?_⟩
    intro j
    rw [g4 j, Nat.testBit_or, testBit_one_shiftLeft, f2]
    constructor
    · rintro (h | ⟨x, hx, hxx⟩)
      · simp only [Bool.or_eq_true, decide_eq_true_eq] at h
        rcases h with h | h
        · exact Or.inl h
        · subst h; exact Or.inr ⟨t, by simp, h1⟩
      · exact Or.inr ⟨x, by simp [hx], hxx⟩
    · rintro (h | ⟨x, hx, hxx⟩)
      · left; simp [h]
      · rcases List.mem_cons.1 hx with e | e
        · subst e; rw [h1] at hxx; cases hxx; left; simp
        · exact Or.inr ⟨x, e, hxx⟩

theorem btl_spec (a2t : Map) : ∀ (m index : Nat), (∀ i, m.testBit i = true → ∃ t, a2t.get (index + i) = some t) →
    ∃ L, btl a2t m index = .ok L ∧ ∀ t, t ∈ L ↔ ∃ i, m.testBit i = true ∧ a2t.get (index + i) = some t := by
  intro m
  induction m using Nat.strongRecOn with
  | _ m ih =>
    intro index hall
    rw [btl]
    by_cases h0 : m = 0
    · subst h0
      exact ⟨[], by simp, by simp⟩
    · have hlt : m / 2 < m := by omega
      have hall' : ∀ i, (m / 2).testBit i = true → ∃ t, a2t.get (index + 1 + i) = some t := by
        intro i hi
        have := hall (i + 1) (by rw [Nat.testBit_succ]; exact hi)
        rwa [show index + (i + 1) = index + 1 + i by omega] at this
      obtain ⟨L', e', hL'⟩ := ih (m / 2) hlt (index + 1) hall'
      simp only [h0, dite_false]
      by_cases h1 : m % 2 = 1
      · obtain ⟨t0, ht0⟩ := hall 0 (by rw [Nat.testBit_zero]; simp [h1])
        simp only [Nat.add_zero] at ht0
        simp only [h1, if_true, ht0, e']
        refine ⟨t0 :: L', rfl, ?_⟩
        intro t
        rw [List.mem_cons, hL' t]
        constructor
        · rintro (e | ⟨i, hi, hg⟩)
          · subst e; exact ⟨0, by rw [Nat.testBit_zero]; simp [h1], by simpa using ht0⟩
          · exact ⟨i + 1, by rw [Nat.testBit_succ]; exact hi, by rwa [show index + (i + 1) = index + 1 + i by omega]⟩
        · rintro ⟨i, hi, hg⟩
          cases i with
          | zero => left; simp only [Nat.add_zero] at hg; rw [ht0] at hg; exact (Option.some.inj hg).symm
          | succ i =>
            right
            exact ⟨i, by rw [Nat.testBit_succ] at hi; exact hi, by rwa [show index + (i + 1) = index + 1 + i by omega] at hg⟩
      · simp only [h1, if_false, e']
        refine ⟨L', rfl, ?_⟩
        intro t
        rw [hL' t]
        constructor
        · rintro ⟨i, hi, hg⟩
          exact ⟨i + 1, by rw [Nat.testBit_succ]; exact hi, by rwa [show index + (i + 1) = index + 1 + i by omega]⟩
        · rintro ⟨i, hi, hg⟩
          cases i with
          | zero => rw [Nat.testBit_zero] at hi; simp [h1] at hi
          | succ i =>
            exact ⟨i, by rw [Nat.testBit_succ] at hi; exact hi, by rwa [show index + (i + 1) = index + 1 + i by omega] at hg⟩

/-- which side of the rendering a member lands on -/
def onSide (s : NS) (split : Nat) (t : Nat) : Bool :=
  match s.t2a.get t with
  | some i => split.testBit i
  | none => false

theorem nwkLoop_spec (split : Nat) : ∀ (zs : List (Nat × String)) (s : NS) (l r : List String), Inv s →
    (∀ p ∈ zs, p.1 ∈ s.taxa) →
    (nwkLoop s split zs l r).2 = .ok (.sides (l ++ (zs.filter (fun p => onSide s split p.1)).map (·.2))
                                             (r ++ (zs.filter (fun p => !onSide s split p.1)).map (·.2))) := by
  intro zs
  induction zs with
  | nil => intro s l r _ _; simp [nwkLoop]
  | cons z zs ih =>
    intro s l r hi hm
    obtain ⟨t, lb⟩ := z
    obtain ⟨i, h1, h2⟩ := taxonBitmask_ok hi (hm (t, lb) (by simp))
    obtain ⟨f1, f2, _, _⟩ := taxonBitmask_frame s t
    have hi1 : Inv (s.taxonBitmask t).1 := rel_inv (taxonBitmask_rel (c := ⟨false, false, 0⟩) s t) hi
    unfold nwkLoop
    rcases hx : s.taxonBitmask t with ⟨s1, res⟩
    rw [hx] at h2 f1 f2 hi1
    simp only at h2 f1 f2 hi1
    subst h2
    have hside : ∀ x, onSide s1 split x = onSide s split x := by intro x; simp [onSide, f2]
    have hm1 : ∀ p ∈ zs, p.1 ∈ s1.taxa := fun p hp => by rw [f1]; exact hm p (by simp [hp])
    have hon : onSide s split t = split.testBit i := by simp [onSide, h1]
    simp only
    by_cases hb : split.testBit i = true
    · have : split &&& 1 <<< i ≠ 0 := (and_bit_ne_zero split i).2 hb
      rw [if_pos this, ih s1 _ _ hi1 hm1]
      simp [hon, hb, hside]
    · have : ¬ (split &&& 1 <<< i ≠ 0) := fun h => hb ((and_bit_ne_zero split i).1 h)
      rw [if_neg this, ih s1 _ _ hi1 hm1]
      simp [hon, hb, hside]

theorem zip_map_self (f : Nat → String) : ∀ (l : List Nat), l.zip (l.map f) = l.map (fun t => (t, f t)) := by
  intro l
  induction l with
  | nil => rfl
  | cons x xs ih => simp [ih]

end DendroModel.C10.Aux

namespace DendroModel.C10.Aux
open DendroModel DendroModel.C10

/-- read from the right, digit `i` of `bin(n)[2:]` is `'1'` exactly when bit `i` of `n` is set -/
theorem binDigits_spec : ∀ (n i : Nat), (binDigits n).reverse[i]? = some '1' ↔ n.testBit i = true := by
  intro n
  induction n using Nat.strongRecOn with
  | _ n ih =>
    intro i
    rw [binDigits]
    by_cases h : n < 2
    · simp only [h, dite_true, List.reverse_singleton]
      cases i with
      | zero =>
        rw [Nat.testBit_zero]
        by_cases h0 : n = 0
        · subst h0; simp
        · have : n = 1 := by omega
          subst this; simp
      | succ i =>
        rw [Nat.testBit_succ]
        have : n / 2 = 0 := by omega
        simp [this]
    · simp only [h, dite_false, List.reverse_append, List.reverse_singleton, List.singleton_append]
      cases i with
      | zero =>
        rw [Nat.testBit_zero]
        by_cases h0 : n % 2 = 0
        · simp [h0]
        · have : n % 2 = 1 := by omega
          simp [this]
      | succ i =>
        rw [Nat.testBit_succ]
        simpa using ih (n / 2) (by omega) i

theorem bitstring_spec' (s : NS) (b i : Nat) : (s.bitstring b).reverse[i]? = some '1' ↔ b.testBit i = true := by
  rw [← binDigits_spec b i]
  simp only [NS.bitstring, List.reverse_append, List.reverse_replicate]
  by_cases h : i < (binDigits b).reverse.length
  · rw [List.getElem?_append_left h]
  · rw [List.getElem?_append_right (by omega), List.getElem?_eq_none (l := (binDigits b).reverse) (by omega)]
    simp only [List.getElem?_replicate]
    split <;> simp

end DendroModel.C10.Aux
