import DendroModel.Theory.C08Base
/-! C08 — facts about the specification `restrict` itself: clades, declined suppression, no unary nodes, single survivor. -/
namespace DendroModel.C08
open DendroModel

namespace Aux

theorem withLen_len (t : T) (a : Option Frac) : (t.withLen a).len = a := by
  obtain ⟨i, x, l, s, cs⟩ := t; rfl
theorem withLen_withLen (t : T) (a b : Option Frac) : (t.withLen a).withLen b = t.withLen b := by
  obtain ⟨i, x, l, s, cs⟩ := t; rfl
theorem withLen_id (t : T) (a : Option Frac) : (t.withLen a).id = t.id := by
  obtain ⟨i, x, l, s, cs⟩ := t; rfl
theorem mask_withLen (t : T) (a : Option Frac) : (t.withLen a).mask = t.mask := by
  obtain ⟨i, x, l, s, cs⟩ := t; cases cs <;> simp [T.withLen, T.mask]
theorem masksPost_withLen (t : T) (a : Option Frac) : (t.withLen a).masksPost = t.masksPost := by
  have := mask_withLen t a
  obtain ⟨i, x, l, s, cs⟩ := t
  simp only [T.withLen] at this ⊢
  simp only [T.masksPost, this]
theorem mask_mem_masksPost (t : T) : t.mask ∈ t.masksPost := by
  obtain ⟨i, x, l, s, cs⟩ := t; simp [T.masksPost]
theorem mask_node_cons (i x l s) (c : T) (cs : List T) : (T.node i x l s (c :: cs)).mask = T.maskL (c :: cs) := by
  simp [T.mask]

/-! ### the result of the loop has no rejected leaf left -/
mutual
theorem restrict_fix (keep : Acc) : ∀ t r : T, restrict keep false t = some r → rejLeaves keep r = []
  | .node i x l s [], r, h => by
      simp only [restrict] at h
      by_cases hk : keep i x = true
      · simp [hk] at h; subst h; simp [rejLeaves, hk]
      · simp [hk] at h
  | .node i x l s (c :: cs), r, h => by
      have hl := restrictL_fix keep (c :: cs)
      simp only [restrict] at h
      generalize restrictL keep false (c :: cs) = ks at h hl
      match ks with
      | [] => simp at h
      | [k] => simp at h; subst h; simpa [rejLeaves] using hl
      | k1 :: k2 :: ks' => simp at h; subst h; simpa [rejLeaves] using hl
theorem restrictL_fix (keep : Acc) : ∀ cs : List T, rejLeavesL keep (restrictL keep false cs) = []
  | [] => by simp [restrictL, rejLeavesL]
  | c :: cs => by
      have h2 := restrictL_fix keep cs
      simp only [restrictL]
      cases hc : restrict keep false c with
      | none => simpa using h2
      | some r => simp [rejLeavesL, restrict_fix keep c r hc, h2]
end

/-! ### clades -/
theorem bit_and_true {k Km : Nat} (h : Km.testBit k = true) : (1 <<< k) &&& Km = 1 <<< k := by
  apply Nat.eq_of_testBit_eq
  intro j
  rw [Nat.testBit_and, Nat.one_shiftLeft, Nat.testBit_two_pow]
  by_cases hj : k = j
  · subst hj; simp [h]
  · simp [hj]

theorem bit_and_false {k Km : Nat} (h : Km.testBit k = false) : (1 <<< k) &&& Km = 0 := by
  apply Nat.eq_of_testBit_eq
  intro j
  rw [Nat.testBit_and, Nat.one_shiftLeft, Nat.testBit_two_pow]
  by_cases hj : k = j
  · subst hj; simp [h]
  · simp [hj]

theorem bit_ne_zero (k : Nat) : 1 <<< k ≠ 0 := by
  rw [Nat.one_shiftLeft]; exact Nat.ne_of_gt (Nat.two_pow_pos k)

abbrev keepM (Km : Nat) : Acc := keepTaxa (fun k => Km.testBit k)

mutual
theorem restrict_mask (Km : Nat) (sup : Bool) : ∀ t : T,
    (∀ r, restrict (keepM Km) sup t = some r → r.mask = t.mask &&& Km ∧ r.mask ≠ 0) ∧
    (restrict (keepM Km) sup t = none → t.mask &&& Km = 0)
  | .node i x l s [] => by
      cases x with
      | none => simp [restrict, keepM, keepTaxa, T.mask]
      | some k =>
        cases hb : Km.testBit k with
        | false => simp [restrict, keepM, keepTaxa, T.mask, hb, bit_and_false hb]
        | true =>
          simp only [restrict, keepM, keepTaxa, hb, if_true, Option.some.injEq, T.mask]
          refine ⟨fun r hr => ?_, fun h => by cases h⟩
          subst hr
          simp [T.mask, bit_and_true hb, bit_ne_zero]
  | .node i x l s (c :: cs) => by
      obtain ⟨hm, hz⟩ := restrictL_mask Km sup (c :: cs)
      simp only [restrict, mask_node_cons]
      generalize restrictL (keepM Km) sup (c :: cs) = ks at hm hz
      match ks, sup with
      | [], _ =>
        simp only [T.maskL] at hm
        refine ⟨fun r hr => ?_, fun _ => ?_⟩
        · simp at hr
        · show (c.mask ||| T.maskL cs) &&& Km = 0
          exact hm.symm
      | [k], true =>
        simp only [if_true, Option.some.injEq]
        refine ⟨fun r hr => ?_, fun h => by cases h⟩
        subst hr
        simp only [T.maskL, Nat.or_zero] at hm
        rw [mask_withLen, hm]
        exact ⟨rfl, hm ▸ hz k (by simp)⟩
      | [k], false =>
        simp only [Bool.false_eq_true, if_false, Option.some.injEq]
        refine ⟨fun r hr => ?_, fun h => by cases h⟩
        subst hr
        rw [mask_node_cons, hm]
        refine ⟨rfl, ?_⟩
        rw [← hm]; simp only [T.maskL, Nat.or_zero]; exact hz k (by simp)
      | k1 :: k2 :: r, _ =>
        simp only [Option.some.injEq]
        refine ⟨fun r' hr => ?_, fun h => by cases h⟩
        subst hr
        rw [mask_node_cons, hm]
        refine ⟨rfl, ?_⟩
        rw [← hm]
        intro h0
        simp only [T.maskL] at h0
        have := Nat.or_eq_zero_iff.mp h0
        exact hz k1 (by simp) this.1
theorem restrictL_mask (Km : Nat) (sup : Bool) : ∀ cs : List T,
    T.maskL (restrictL (keepM Km) sup cs) = T.maskL cs &&& Km ∧ (∀ r ∈ restrictL (keepM Km) sup cs, r.mask ≠ 0)
  | [] => by simp [restrictL, T.maskL]
  | c :: cs => by
      obtain ⟨h1, h2⟩ := restrict_mask Km sup c
      obtain ⟨g1, g2⟩ := restrictL_mask Km sup cs
      simp only [restrictL]
      cases hc : restrict (keepM Km) sup c with
      | none =>
        have := h2 hc
        simp only [T.maskL, Nat.and_or_distrib_right, this, Nat.zero_or]
        exact ⟨g1, g2⟩
      | some r =>
        obtain ⟨e, ne⟩ := h1 r hc
        refine ⟨?_, fun r' hr' => ?_⟩
        · simp only [T.maskL, Nat.and_or_distrib_right, e, g1]
        · have hr'' : r' ∈ r :: restrictL (keepM Km) sup cs := hr'
          rcases List.mem_cons.mp hr'' with rfl | hr''
          · exact ne
          · exact g2 r' hr''
end

mutual
theorem restrict_clades_aux (Km : Nat) (sup : Bool) : ∀ t : T,
    (∀ r, restrict (keepM Km) sup t = some r → ∀ m, m ∈ r.masksPost ↔ ∃ c ∈ t.masksPost, m = c &&& Km ∧ m ≠ 0) ∧
    (restrict (keepM Km) sup t = none → ∀ c ∈ t.masksPost, c &&& Km = 0)
  | .node i x l s [] => by
      obtain ⟨hm, hz⟩ := restrict_mask Km sup (.node i x l s [])
      refine ⟨fun r hr m => ?_, fun h c hc => ?_⟩
      · obtain ⟨e, ne⟩ := hm r hr
        have hr' := hr
        simp only [restrict] at hr'
        split at hr'
        · simp only [Option.some.injEq] at hr'
          subst hr'
          simp only [T.masksPost, T.masksPostL, List.nil_append, List.mem_singleton]
          constructor
          · intro h; subst h; exact ⟨_, rfl, e, ne⟩
          · rintro ⟨c, rfl, h, _⟩; rw [h, ← e]
        · cases hr'
      · simp only [T.masksPost, T.masksPostL, List.nil_append, List.mem_singleton] at hc
        subst hc; exact hz h
  | .node i x l s (c :: cs) => by
      obtain ⟨hm, hz⟩ := restrict_mask Km sup (.node i x l s (c :: cs))
      have hL := restrictL_clades_aux Km sup (c :: cs)
      obtain ⟨lm, lz⟩ := restrictL_mask Km sup (c :: cs)
      refine ⟨fun r hr m => ?_, fun h c' hc' => ?_⟩
      · obtain ⟨e, ne⟩ := hm r hr
        rw [mask_node_cons] at e
        simp only [restrict] at hr
        simp only [T.masksPost, List.mem_append, List.mem_singleton, mask_node_cons]
        generalize restrictL (keepM Km) sup (c :: cs) = ks at hr hL lm lz
        have key : ∀ r' : T, r'.masksPost = T.masksPostL ks ++ [r'.mask] ∨ (∃ k, ks = [k] ∧ r'.masksPost = k.masksPost ∧ r'.mask = k.mask) →
            r' = r → (m ∈ r.masksPost ↔ (∃ c_1, (c_1 ∈ T.masksPostL (c :: cs) ∨ c_1 = T.maskL (c :: cs)) ∧ m = c_1 &&& Km ∧ m ≠ 0)) := by
          intro r' hshape hrr
          subst hrr
          constructor
          · intro hmem
            rcases hshape with hs | ⟨k, hk, hs, hmk⟩
            · rw [hs] at hmem
              simp only [List.mem_append, List.mem_singleton] at hmem
              rcases hmem with h1 | h1
              · obtain ⟨c1, hc1, e1, n1⟩ := (hL m).mp h1
                exact ⟨c1, Or.inl hc1, e1, n1⟩
              · exact ⟨_, Or.inr rfl, by rw [h1, e], by rw [h1]; exact ne⟩
            · rw [hs] at hmem
              subst hk
              have : m ∈ T.masksPostL [k] := by simpa [T.masksPostL] using hmem
              obtain ⟨c1, hc1, e1, n1⟩ := (hL m).mp this
              exact ⟨c1, Or.inl hc1, e1, n1⟩
          · rintro ⟨c1, hc1, e1, n1⟩
            rcases hc1 with hc1 | hc1
            · have := (hL m).mpr ⟨c1, hc1, e1, n1⟩
              rcases hshape with hs | ⟨k, hk, hs, hmk⟩
              · rw [hs]; exact List.mem_append_left _ this
              · subst hk; rw [hs]; simpa [T.masksPostL] using this
            · subst hc1
              have hme : m = r'.mask := by rw [e1, e]
              rcases hshape with hs | ⟨k, hk, hs, hmk⟩
              · rw [hs, hme]; simp
              · rw [hs, hme, hmk]; exact mask_mem_masksPost k
        match ks, sup with
        | [], _ => simp at hr
        | [k], true =>
          simp only [if_true, Option.some.injEq] at hr
          exact key _ (Or.inr ⟨k, rfl, masksPost_withLen k _, mask_withLen k _⟩) hr
        | [k], false =>
          simp only [Bool.false_eq_true, if_false, Option.some.injEq] at hr
          exact key _ (Or.inl (by simp [T.masksPost])) hr
        | k1 :: k2 :: ks', _ =>
          simp only [Option.some.injEq] at hr
          exact key _ (Or.inl (by simp [T.masksPost])) hr
      · simp only [T.masksPost, List.mem_append, List.mem_singleton, mask_node_cons] at hc'
        rcases hc' with h1 | h1
        · have hnil : restrictL (keepM Km) sup (c :: cs) = [] := by
            simp only [restrict] at h
            generalize restrictL (keepM Km) sup (c :: cs) = ks at h
            match ks, sup with
            | [], _ => rfl
            | [k], true => simp at h
            | [k], false => simp at h
            | k1 :: k2 :: ks', _ => simp at h
          by_cases hz0 : c' &&& Km = 0
          · exact hz0
          · have := (hL (c' &&& Km)).mpr ⟨c', h1, rfl, hz0⟩
            rw [hnil] at this; simp [T.masksPostL] at this
        · rw [h1]; have := hz h; rwa [mask_node_cons] at this
theorem restrictL_clades_aux (Km : Nat) (sup : Bool) : ∀ (cs : List T) (m : Nat),
    m ∈ T.masksPostL (restrictL (keepM Km) sup cs) ↔ ∃ c ∈ T.masksPostL cs, m = c &&& Km ∧ m ≠ 0
  | [], m => by simp [restrictL, T.masksPostL]
  | c :: cs, m => by
      obtain ⟨h1, h2⟩ := restrict_clades_aux Km sup c
      have g := restrictL_clades_aux Km sup cs m
      simp only [restrictL]
      cases hc : restrict (keepM Km) sup c with
      | none =>
        have hz := h2 hc
        simp only [g, T.masksPostL, List.mem_append]
        constructor
        · rintro ⟨c1, hc1, e1, n1⟩; exact ⟨c1, Or.inr hc1, e1, n1⟩
        · rintro ⟨c1, hc1 | hc1, e1, n1⟩
          · exact absurd (by rw [e1]; exact hz c1 hc1) n1
          · exact ⟨c1, hc1, e1, n1⟩
      | some r =>
        have hr := h1 r hc m
        simp only [T.masksPostL, List.mem_append, hr, g]
        constructor
        · rintro (⟨c1, hc1, e1, n1⟩ | ⟨c1, hc1, e1, n1⟩)
          · exact ⟨c1, Or.inl hc1, e1, n1⟩
          · exact ⟨c1, Or.inr hc1, e1, n1⟩
        · rintro ⟨c1, hc1 | hc1, e1, n1⟩
          · exact Or.inl ⟨c1, hc1, e1, n1⟩
          · exact Or.inr ⟨c1, hc1, e1, n1⟩
end

/-! ### declined suppression -/
mutual
theorem nosup_aux (keep : Acc) : ∀ t r : T, restrict keep false t = some r →
    (heads r).Sublist (heads t) ∧ r.id = t.id ∧ r.len = t.len
  | .node i x l s [], r, h => by
      simp only [restrict] at h
      split at h
      · simp only [Option.some.injEq] at h; subst h; exact ⟨List.Sublist.refl _, rfl, rfl⟩
      · cases h
  | .node i x l s (c :: cs), r, h => by
      have hl := nosupL_aux keep (c :: cs)
      simp only [restrict] at h
      generalize restrictL keep false (c :: cs) = ks at h hl
      match ks with
      | [] => simp at h
      | [k] =>
        simp at h; subst h
        exact ⟨by simp only [heads]; exact List.Sublist.cons₂ _ hl, rfl, rfl⟩
      | k1 :: k2 :: ks' =>
        simp at h; subst h
        exact ⟨by simp only [heads]; exact List.Sublist.cons₂ _ hl, rfl, rfl⟩
theorem nosupL_aux (keep : Acc) : ∀ cs : List T, (headsL (restrictL keep false cs)).Sublist (headsL cs)
  | [] => by simp [restrictL, headsL]
  | c :: cs => by
      have h2 := nosupL_aux keep cs
      simp only [restrictL]
      cases hc : restrict keep false c with
      | none => simpa [headsL] using h2.trans (List.sublist_append_right _ _)
      | some r =>
        have h1 := (nosup_aux keep c r hc).1
        simpa [headsL] using List.Sublist.append h1 h2
end

/-! ### requested suppression leaves no unary node -/
theorem noUnary_withLen (t : T) (a : Option Frac) (h : NoUnary t) : NoUnary (t.withLen a) := by
  obtain ⟨i, x, l, s, cs⟩ := t; simpa [T.withLen, NoUnary] using h

mutual
theorem sup_no_unary (keep : Acc) : ∀ t r : T, restrict keep true t = some r → NoUnary r
  | .node i x l s [], r, h => by
      simp only [restrict] at h
      split at h
      · simp only [Option.some.injEq] at h; subst h; simp [NoUnary, NoUnaryL]
      · cases h
  | .node i x l s (c :: cs), r, h => by
      have hl := supL_no_unary keep (c :: cs)
      simp only [restrict] at h
      generalize restrictL keep true (c :: cs) = ks at h hl
      match ks with
      | [] => simp at h
      | [k] =>
        simp at h; subst h
        simp only [NoUnaryL] at hl
        exact noUnary_withLen k _ hl.1
      | k1 :: k2 :: ks' =>
        simp at h; subst h
        exact ⟨by simp, hl⟩
theorem supL_no_unary (keep : Acc) : ∀ cs : List T, NoUnaryL (restrictL keep true cs)
  | [] => by simp [restrictL, NoUnaryL]
  | c :: cs => by
      have h2 := supL_no_unary keep cs
      simp only [restrictL]
      cases hc : restrict keep true c with
      | none => simpa using h2
      | some r => exact ⟨sup_no_unary keep c r hc, h2⟩
end

/-! ### single survivor -/
mutual
theorem none_aux (keep : Acc) (sup : Bool) : ∀ t : T, t.leaves.filter (fun x => keep x.id x.taxon) = [] →
    restrict keep sup t = none ∧ pathAcc keep t = none
  | .node i x l s [], h => by
      simp only [T.leaves, List.filter_cons, List.filter_nil, T.id, T.taxon] at h
      by_cases hk : keep i x = true
      · simp [hk] at h
      · simp [restrict, pathAcc, hk]
  | .node i x l s (c :: cs), h => by
      simp only [T.leaves] at h
      obtain ⟨h1, h2⟩ := noneL_aux keep sup (c :: cs) h
      simp [restrict, pathAcc, h1, h2]
theorem noneL_aux (keep : Acc) (sup : Bool) : ∀ cs : List T, (T.leavesL cs).filter (fun x => keep x.id x.taxon) = [] →
    restrictL keep sup cs = [] ∧ pathAccL keep cs = none
  | [], _ => by simp [restrictL, pathAccL]
  | c :: cs, h => by
      simp only [T.leavesL, List.filter_append, List.append_eq_nil_iff] at h
      obtain ⟨a1, a2⟩ := none_aux keep sup c h.1
      obtain ⟨b1, b2⟩ := noneL_aux keep sup cs h.2
      simp [restrictL, pathAccL, a1, a2, b1, b2]
end

mutual
theorem single_aux (keep : Acc) : ∀ t lf : T, t.leaves.filter (fun x => keep x.id x.taxon) = [lf] →
    ∃ a, pathAcc keep t = some a ∧ restrict keep true t = some (lf.withLen a)
  | .node i x l s [], lf, h => by
      simp only [T.leaves, List.filter_cons, List.filter_nil, T.id, T.taxon] at h
      by_cases hk : keep i x = true
      · simp [hk] at h; subst h
        exact ⟨l, by simp [pathAcc, hk], by simp [restrict, hk, T.withLen]⟩
      · simp [hk] at h
  | .node i x l s (c :: cs), lf, h => by
      simp only [T.leaves] at h
      obtain ⟨a, h1, h2⟩ := singleL_aux keep (c :: cs) lf h
      refine ⟨addLen a l, by simp [pathAcc, h1], ?_⟩
      simp [restrict, h2, withLen_len, withLen_withLen]
theorem singleL_aux (keep : Acc) : ∀ (cs : List T) (lf : T), (T.leavesL cs).filter (fun x => keep x.id x.taxon) = [lf] →
    ∃ a, pathAccL keep cs = some a ∧ restrictL keep true cs = [lf.withLen a]
  | [], lf, h => by simp [T.leavesL] at h
  | c :: cs, lf, h => by
      simp only [T.leavesL, List.filter_append] at h
      rcases List.append_eq_singleton_iff.mp h with ⟨e1, e2⟩ | ⟨e1, e2⟩
      · obtain ⟨a1, a2⟩ := none_aux keep true c e1
        obtain ⟨a, b1, b2⟩ := singleL_aux keep cs lf e2
        exact ⟨a, by simp [pathAccL, a2, b1], by simp [restrictL, a1, b2]⟩
      · obtain ⟨a, a1, a2⟩ := single_aux keep c lf e1
        obtain ⟨b1, b2⟩ := noneL_aux keep true cs e2
        exact ⟨a, by simp [pathAccL, a1], by simp [restrictL, a2, b1]⟩
end

/-! ### declined suppression, full strength: which nodes stay, and the parent/child structure -/
mutual
theorem alive_any (keep : Acc) : ∀ t : T, alive keep t = t.leaves.any (fun lf => keep lf.id lf.taxon)
  | .node i x l s [] => by simp [alive, T.leaves, T.id, T.taxon]
  | .node i x l s (c :: cs) => by simp only [alive, T.leaves]; exact aliveL_any keep (c :: cs)
theorem aliveL_any (keep : Acc) : ∀ cs : List T, aliveL keep cs = (T.leavesL cs).any (fun lf => keep lf.id lf.taxon)
  | [] => by simp [aliveL, T.leavesL]
  | c :: cs => by simp [aliveL, T.leavesL, alive_any keep c, aliveL_any keep cs]
end

theorem head_restrict (keep : Acc) (t r : T) (h : restrict keep false t = some r) : head r = head t := by
  obtain ⟨i, x, l, s, cs⟩ := t
  cases cs with
  | nil =>
    simp only [restrict] at h
    split at h
    · simp at h; subst h; rfl
    · cases h
  | cons c cs =>
    simp only [restrict] at h
    generalize restrictL keep false (c :: cs) = ks at h
    match ks with
    | [] => simp at h
    | [k] => simp at h; subst h; rfl
    | k1 :: k2 :: ks' => simp at h; subst h; rfl

mutual
theorem nodes_restrict (keep : Acc) : ∀ t : T,
    alive keep t = (restrict keep false t).isSome ∧
    (∀ r, restrict keep false t = some r → r.nodes.map head = (t.nodes.filter (alive keep)).map head) ∧
    (restrict keep false t = none → t.nodes.filter (alive keep) = [])
  | .node i x l s [] => by
      by_cases hk : keep i x = true
      · simp [restrict, alive, T.nodes, T.nodesL, hk]
      · simp [restrict, alive, T.nodes, T.nodesL, hk]
  | .node i x l s (c :: cs) => by
      obtain ⟨la, ln⟩ := nodesL_restrict keep (c :: cs)
      have hal : alive keep (.node i x l s (c :: cs)) = aliveL keep (c :: cs) := by simp [alive]
      simp only [restrict]
      generalize restrictL keep false (c :: cs) = ks at la ln
      have hnode : ∀ k ks', ks = k :: ks' →
          (T.node i x l s ks).nodes.map head = ((T.node i x l s (c :: cs)).nodes.filter (alive keep)).map head := by
        intro k ks' hks
        have : aliveL keep (c :: cs) = true := by rw [la, hks]; rfl
        simp only [T.nodes, List.filter_cons, hal, this, if_true, List.map_cons, ln]
        rfl
      match ks with
      | [] =>
        have hd : aliveL keep (c :: cs) = false := by rw [la]; rfl
        refine ⟨by simp [hal, hd], fun r hr => by simp at hr, fun _ => ?_⟩
        have : (T.nodesL (c :: cs)).filter (alive keep) = [] := by
          have := ln; simp only [T.nodesL, List.map_nil] at this
          exact List.map_eq_nil_iff.mp this.symm
        simp only [T.nodes, List.filter_cons, hal, hd, this]; simp
      | [k] =>
        refine ⟨by rw [hal, la]; rfl, fun r hr => ?_, fun h => by simp at h⟩
        simp at hr; subst hr; exact hnode k [] rfl
      | k1 :: k2 :: ks' =>
        refine ⟨by rw [hal, la]; rfl, fun r hr => ?_, fun h => by simp at h⟩
        simp at hr; subst hr; exact hnode k1 (k2 :: ks') rfl
theorem nodesL_restrict (keep : Acc) : ∀ cs : List T,
    aliveL keep cs = !(restrictL keep false cs).isEmpty ∧
    (T.nodesL (restrictL keep false cs)).map head = ((T.nodesL cs).filter (alive keep)).map head
  | [] => by simp [aliveL, restrictL, T.nodesL]
  | c :: cs => by
      obtain ⟨a1, a2, a3⟩ := nodes_restrict keep c
      obtain ⟨b1, b2⟩ := nodesL_restrict keep cs
      simp only [restrictL, aliveL, T.nodesL, List.filter_append, List.map_append]
      cases hc : restrict keep false c with
      | none =>
        rw [hc] at a1
        simp only [a1, Option.isSome_none, Bool.false_or, b1, a3 hc, List.map_nil, List.nil_append, b2]
        trivial
      | some r =>
        rw [hc] at a1
        simp only [a1, Option.isSome_some, Bool.true_or, T.nodesL, List.map_append, a2 r hc, b2]
        simp
end

/-- what is observed of a parent/child pair: the parent's id and the child's record -/
def eview (e : Nat × T) : Nat × (Nat × Option Nat × Option Frac × Option String) := (e.1, head e.2)

mutual
theorem pedges_dead (keep : Acc) : ∀ t : T, alive keep t = false → (pedges t).filter (fun e => alive keep e.2) = []
  | .node i x l s [], _ => by simp [pedges, pedgesL]
  | .node i x l s (c :: cs), h => by
      simp only [alive] at h
      simp only [pedges]; exact pedgesL_dead keep i (c :: cs) h
theorem pedgesL_dead (keep : Acc) (p : Nat) : ∀ cs : List T, aliveL keep cs = false →
    (pedgesL p cs).filter (fun e => alive keep e.2) = []
  | [], _ => by simp [pedgesL]
  | c :: cs, h => by
      simp only [aliveL, Bool.or_eq_false_iff] at h
      simp [pedgesL, List.filter_cons, h.1, pedges_dead keep c h.1, pedgesL_dead keep p cs h.2]
end

mutual
theorem edges_restrict (keep : Acc) : ∀ t r : T, restrict keep false t = some r →
    (pedges r).map eview = ((pedges t).filter (fun e => alive keep e.2)).map eview
  | .node i x l s [], r, h => by
      simp only [restrict] at h
      split at h
      · simp at h; subst h; simp [pedges, pedgesL]
      · cases h
  | .node i x l s (c :: cs), r, h => by
      have hl := edgesL_restrict keep i (c :: cs)
      simp only [restrict] at h
      generalize restrictL keep false (c :: cs) = ks at h hl
      match ks with
      | [] => simp at h
      | [k] => simp at h; subst h; simpa [pedges] using hl
      | k1 :: k2 :: ks' => simp at h; subst h; simpa [pedges] using hl
theorem edgesL_restrict (keep : Acc) (p : Nat) : ∀ cs : List T,
    (pedgesL p (restrictL keep false cs)).map eview = ((pedgesL p cs).filter (fun e => alive keep e.2)).map eview
  | [] => by simp [restrictL, pedgesL]
  | c :: cs => by
      have h2 := edgesL_restrict keep p cs
      have ha := (nodes_restrict keep c).1
      simp only [restrictL]
      cases hc : restrict keep false c with
      | none =>
        rw [hc] at ha
        have ha' : alive keep c = false := by simpa using ha
        simp [pedgesL, List.filter_cons, ha', pedges_dead keep c ha', h2]
      | some r =>
        rw [hc] at ha
        have ha' : alive keep c = true := by simpa using ha
        have h1 := edges_restrict keep c r hc
        have hh := head_restrict keep c r hc
        simp [pedgesL, List.filter_cons, ha', h1, h2, eview, hh]
end

/-! ### a tree without unary nodes is a fixpoint of suppression -/
mutual
theorem sup_of_noUnary : ∀ t : T, NoUnary t → T.sup t = t
  | .node i x l s cs, h => by
      simp only [NoUnary] at h
      have hl := supL_of_noUnary cs h.2
      simp only [T.sup, hl]
      match cs, h.1 with
      | [], _ => rfl
      | [c], h1 => simp at h1
      | c1 :: c2 :: r, _ => rfl
theorem supL_of_noUnary : ∀ cs : List T, NoUnaryL cs → T.supL cs = cs
  | [], _ => rfl
  | c :: cs, h => by
      simp only [NoUnaryL] at h
      simp only [T.supL, sup_of_noUnary c h.1, supL_of_noUnary cs h.2]
end

end Aux
end DendroModel.C08
