import DendroModel.Theory.C17Final
/-! C17 — helper theory for the list forms (`node_ages`, `internal_node_ages`, `coalescence_intervals`,
`calc_node_root_distances`, `treemeasure.node_ages/node_depths`) and for `Node.distance_from_root/tip`. -/
namespace DendroModel.C17.Aux
open DendroModel DendroModel.C17

/-! ## ascending insertion sort -/

theorem insAsc_perm (x : Frac) : ∀ l : List Frac, (insAsc x l).Perm (x :: l)
  | [] => by simp [insAsc]
  | y :: ys => by
    simp only [insAsc]
    split
    · exact List.Perm.refl _
    · exact ((insAsc_perm x ys).cons y).trans (List.Perm.swap x y ys)

theorem sortAsc_perm : ∀ l : List Frac, (sortAsc l).Perm l
  | [] => by simp [sortAsc]
  | x :: xs => by
    have ih := sortAsc_perm xs
    simp only [sortAsc, List.foldr_cons] at ih ⊢
    exact (insAsc_perm x _).trans (ih.cons x)

/-- ascending in ℚ -/
def Asc (l : List Frac) : Prop := l.Pairwise (fun a b => a.toRat ≤ b.toRat)

theorem le_false_iff {a b : Frac} (ha : a.WF) (hb : b.WF) : Frac.le a b = false ↔ b.toRat < a.toRat := by
  rw [← not_le, ← Frac.le_iff ha hb]; simp

theorem insAsc_asc {x : Frac} (hx : x.WF) : ∀ l : List Frac, (∀ y ∈ l, y.WF) → Asc l → Asc (insAsc x l)
  | [], _, _ => by simp [insAsc, Asc]
  | y :: ys, hw, hd => by
    have hy : y.WF := hw y List.mem_cons_self
    have hd' := List.pairwise_cons.mp hd
    simp only [insAsc]
    by_cases hle : Frac.le x y = true
    · simp only [hle, if_true]
      have hxy := (Frac.le_iff hx hy).mp hle
      refine List.pairwise_cons.mpr ⟨?_, hd⟩
      intro z hz
      rcases List.mem_cons.mp hz with rfl | hz'
      · exact hxy
      · exact le_trans hxy (hd'.1 z hz')
    · have hf : Frac.le x y = false := by simpa using hle
      simp only [hf, Bool.false_eq_true, if_false]
      have hyx := le_of_lt ((le_false_iff hx hy).mp hf)
      have ih := insAsc_asc hx ys (fun z hz => hw z (List.mem_cons_of_mem _ hz)) hd'.2
      refine List.pairwise_cons.mpr ⟨?_, ih⟩
      intro z hz
      rcases List.mem_cons.mp ((insAsc_perm x ys).subset hz) with rfl | hz'
      · exact hyx
      · exact hd'.1 z hz'

theorem sortAsc_asc : ∀ l : List Frac, (∀ y ∈ l, y.WF) → Asc (sortAsc l)
  | [], _ => by simp [sortAsc, Asc]
  | x :: xs, hw => by
    have ih := sortAsc_asc xs (fun z hz => hw z (List.mem_cons_of_mem _ hz))
    simp only [sortAsc, List.foldr_cons] at ih ⊢
    exact insAsc_asc (hw x List.mem_cons_self) _
      (fun z hz => hw z (List.mem_cons_of_mem _ ((sortAsc_perm xs).subset hz))) ih

/-! ## consecutive differences and their running sums -/

/-- running sums of a list of increments, starting from `acc` -/
def runSum (acc : ℚ) : List ℚ → List ℚ
  | [] => []
  | x :: xs => (acc + x) :: runSum (acc + x) xs

theorem diffsFrom_wf (p : Frac) : ∀ l : List Frac, ∀ y ∈ diffsFrom p l, y.WF
  | [], y, h => by simp [diffsFrom] at h
  | a :: as, y, h => by
    simp only [diffsFrom, List.mem_cons] at h
    rcases h with rfl | h
    · exact Frac.sub_wf _ _
    · exact diffsFrom_wf a as y h

theorem runSum_diffsFrom : ∀ (l : List Frac) (p : Frac), p.WF → (∀ y ∈ l, y.WF) →
    runSum p.toRat ((diffsFrom p l).map Frac.toRat) = l.map Frac.toRat
  | [], _, _, _ => by simp [diffsFrom, runSum]
  | a :: as, p, hp, hl => by
    have ha : a.WF := hl a List.mem_cons_self
    have ih := runSum_diffsFrom as a ha (fun y hy => hl y (List.mem_cons_of_mem _ hy))
    simp only [diffsFrom, List.map_cons, runSum, Frac.sub_toRat ha hp]
    rw [show p.toRat + (a.toRat - p.toRat) = a.toRat by ring, ih]

theorem diffsFrom_nonneg : ∀ (l : List Frac) (p : Frac), p.WF → (∀ y ∈ l, y.WF) → Asc (p :: l) →
    ∀ y ∈ diffsFrom p l, 0 ≤ y.toRat
  | [], _, _, _, _, y, h => by simp [diffsFrom] at h
  | a :: as, p, hp, hl, hasc, y, h => by
    have ha : a.WF := hl a List.mem_cons_self
    have hc := List.pairwise_cons.mp hasc
    simp only [diffsFrom, List.mem_cons] at h
    rcases h with rfl | h
    · rw [Frac.sub_toRat ha hp]; have := hc.1 a List.mem_cons_self; linarith
    · exact diffsFrom_nonneg as a ha (fun z hz => hl z (List.mem_cons_of_mem _ hz)) hc.2 y h

/-! ## `Node.distance_from_tip` = the forced-maximum age -/

mutual
theorem tipMax_eq_page : ∀ t : T, tipMax t = page maxList t
  | .node _ _ _ _ [] => by simp [tipMax, page]
  | .node _ _ _ _ (c :: cs) => by
    simp only [tipMax, page]
    rw [tipMax_eq_page c, tipMaxSums_eq cs]
theorem tipMaxSums_eq : ∀ cs : List T, tipMaxSums cs = pageSums maxList cs
  | [] => by simp [tipMaxSums, pageSums]
  | c :: cs => by
    simp only [tipMaxSums, pageSums]
    rw [tipMax_eq_page c, tipMaxSums_eq cs]
end

/-! ## `Node.distance_from_root` against the root distances -/

mutual
theorem distRoot_eq_depths : ∀ (t : T) (anc : Frac) (plen : Option Frac) (l : Frac) (r : List (Nat × Bool × Frac)),
    t.len = some l → depths (l + anc) t = .ok r →
    distRoot false anc plen t = r.map (fun p => (p.1, Except.ok p.2.2))
  | .node i x l0 s cs, anc, plen, l, r, hl, h => by
    simp only [T.len] at hl
    subst hl
    simp only [depths] at h
    cases hc : depthsL (l + anc) cs with
    | error e => rw [hc] at h; cases h
    | ok rc =>
      rw [hc] at h
      simp only [Except.ok.injEq] at h
      subst h
      have ih := distRootL_eq_depths cs (l + anc) (some l) rc hc
      simp [distRoot, olen, ih]
theorem distRootL_eq_depths : ∀ (cs : List T) (anc : Frac) (plen : Option Frac) (r : List (Nat × Bool × Frac)),
    depthsL anc cs = .ok r → distRootL anc plen cs = r.map (fun p => (p.1, Except.ok p.2.2))
  | [], anc, plen, r, h => by
    simp only [depthsL, Except.ok.injEq] at h
    subst h; simp [distRootL]
  | c :: cs, anc, plen, r, h => by
    simp only [depthsL] at h
    cases hl : c.len with
    | none => rw [hl] at h; cases h
    | some l =>
      rw [hl] at h
      simp only at h
      cases h1 : depths (l + anc) c with
      | error e => rw [h1] at h; cases h
      | ok r1 =>
        rw [h1] at h
        simp only at h
        cases h2 : depthsL anc cs with
        | error e => rw [h2] at h; cases h
        | ok r2 =>
          rw [h2] at h
          simp only [Except.ok.injEq] at h
          subst h
          simp [distRootL, distRoot_eq_depths c anc plen l r1 hl h1, distRootL_eq_depths cs anc plen r2 h2]
end

/-- an `Except` value read in ℚ -/
def exRat : Except Err Frac → Option ℚ
  | .ok f => some f.toRat
  | .error _ => none

/-! ## every age `calc_node_ages` assigns is well-formed, under any configuration -/

theorem childSums_wf : ∀ (l : List AT) (vs : List Frac), childSums l = .ok vs → ∀ v ∈ vs, v.WF
  | [], vs, h, v, hv => by
    simp only [childSums, Except.ok.injEq] at h
    subst h; simp at hv
  | c :: cs, vs, h, v, hv => by
    simp only [childSums] at h
    cases h1 : childSum c with
    | error e => rw [h1] at h; cases h
    | ok x =>
      rw [h1] at h
      simp only at h
      cases h2 : childSums cs with
      | error e => rw [h2] at h; cases h
      | ok xs =>
        rw [h2] at h
        simp only [Except.ok.injEq] at h
        subst h
        rcases List.mem_cons.mp hv with rfl | hv'
        · unfold childSum at h1
          cases hl : c.len with
          | none => rw [hl] at h1; cases h1
          | some l =>
            rw [hl] at h1
            simp only [Except.ok.injEq] at h1
            subst h1
            exact Frac.add_wf _ _
        · exact childSums_wf cs xs h2 v hv'

theorem ageToSet_wf (cfg : Cfg) (a : AT) (as : List AT) (age : Frac) (h : ageToSet cfg a as = .ok age) : age.WF := by
  unfold ageToSet at h
  by_cases hx : cfg.forceMax = true
  · rw [if_pos hx] at h
    cases hc : childSums (a :: as) with
    | error e => rw [hc] at h; cases h
    | ok vs =>
      rw [hc] at h
      cases vs with
      | nil => simp only [Except.ok.injEq] at h; subst h; exact Frac.zero_wf
      | cons v vs =>
        simp only [Except.ok.injEq] at h
        subst h
        exact childSums_wf _ _ hc _ (maxList_mem vs v)
  · rw [if_neg hx] at h
    by_cases hn : cfg.forceMin = true
    · rw [if_pos hn] at h
      cases hc : childSums (a :: as) with
      | error e => rw [hc] at h; cases h
      | ok vs =>
        rw [hc] at h
        cases vs with
        | nil => simp only [Except.ok.injEq] at h; subst h; exact Frac.zero_wf
        | cons v vs =>
          simp only [Except.ok.injEq] at h
          subst h
          exact childSums_wf _ _ hc _ (minList_mem vs v)
    · rw [if_neg hn] at h
      simp only [Except.ok.injEq] at h
      subst h
      exact Frac.add_wf _ _

mutual
theorem calcAges_awf (cfg : Cfg) : ∀ (t : T) (a : AT), calcAges cfg t = .ok a → AWF a
  | .node i x l s cs, a, h => by
    simp only [calcAges] at h
    cases hc : calcAgesL cfg cs with
    | error e => rw [hc] at h; cases h
    | ok as =>
      rw [hc] at h
      have ih := calcAgesL_awf cfg cs as hc
      cases as with
      | nil =>
        simp only [Except.ok.injEq] at h
        subst h
        exact ⟨Frac.zero_wf, trivial⟩
      | cons b bs =>
        simp only at h
        cases ha : ageToSet cfg b bs with
        | error e => rw [ha] at h; cases h
        | ok age =>
          rw [ha] at h
          simp only at h
          have hw := ageToSet_wf cfg b bs age ha
          cases hk : cfg.checking with
          | none =>
            rw [hk] at h
            simp only [Except.ok.injEq] at h
            subst h
            exact ⟨hw, ih⟩
          | some p =>
            rw [hk] at h
            simp only at h
            split at h
            · simp only [Except.ok.injEq] at h
              subst h
              exact ⟨hw, ih⟩
            · cases h
theorem calcAgesL_awf (cfg : Cfg) : ∀ (cs : List T) (as : List AT), calcAgesL cfg cs = .ok as → AWFL as
  | [], as, h => by
    simp only [calcAgesL, Except.ok.injEq] at h
    subst h; trivial
  | c :: cs, as, h => by
    simp only [calcAgesL] at h
    cases h1 : calcAges cfg c with
    | error e => rw [h1] at h; cases h
    | ok a =>
      rw [h1] at h
      simp only at h
      cases h2 : calcAgesL cfg cs with
      | error e => rw [h2] at h; cases h
      | ok as' =>
        rw [h2] at h
        simp only [Except.ok.injEq] at h
        subst h
        exact ⟨calcAges_awf cfg c a h1, calcAgesL_awf cfg cs as' h2⟩
end

mutual
theorem returned_wf (io : Bool) : ∀ a : AT, AWF a → ∀ y ∈ a.returned io, y.WF
  | .node _ a _ [], hw, y, hy => by
    cases io <;> simp [AT.returned] at hy
    subst hy; exact hw.1
  | .node _ a _ (c :: cs), hw, y, hy => by
    simp only [AT.returned, List.mem_append, List.mem_singleton] at hy
    rcases hy with hy | rfl
    · exact returnedL_wf io (c :: cs) hw.2 y hy
    · exact hw.1
theorem returnedL_wf (io : Bool) : ∀ cs : List AT, AWFL cs → ∀ y ∈ AT.returnedL io cs, y.WF
  | [], _, y, hy => by simp [AT.returnedL] at hy
  | c :: cs, hw, y, hy => by
    simp only [AT.returnedL, List.mem_append] at hy
    rcases hy with hy | hy
    · exact returned_wf io c hw.1 y hy
    · exact returnedL_wf io cs hw.2 y hy
end

end DendroModel.C17.Aux
