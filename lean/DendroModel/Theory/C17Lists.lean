import DendroModel.Theory.C17Final
/-! C17 — helper theory for the list forms (`node_ages`, `internal_node_ages`, `coalescence_intervals`,
`calc_node_root_distances`, `treemeasure.node_ages/node_depths`) and for `Node.distance_from_root/tip`. -/
namespace DendroModel.C17.Aux
open DendroModel DendroModel.C17

/-! ## ascending insertion sort -/

theorem insAsc_perm (x : Frac) : ∀ l : List Frac, (insAsc x l).Perm (x :: l)
  | [] => by simp [insAsc]
  | y :: ys => by
    simp only [insAsc]
    split
    · exact List.Perm.refl _
    · exact ((insAsc_perm x ys).cons y).trans (List.Perm.swap x y ys)

theorem sortAsc_perm : ∀ l : List Frac, (sortAsc l).Perm l
  | [] => by simp [sortAsc]
  | x :: xs => by
    have ih := sortAsc_perm xs
    simp only [sortAsc, List.foldr_cons] at ih ⊢
    exact (insAsc_perm x _).trans (ih.cons x)

/-- ascending in ℚ -/
def Asc (l : List Frac) : Prop := l.Pairwise (fun a b => a.toRat ≤ b.toRat)

theorem le_false_iff {a b : Frac} (ha : a.WF) (hb : b.WF) : Frac.le a b = false ↔ b.toRat < a.toRat := by
  rw [← not_le, ← Frac.le_iff ha hb]; simp

theorem insAsc_asc {x : Frac} (hx : x.WF) : ∀ l : List Frac, (∀ y ∈ l, y.WF) → Asc l → Asc (insAsc x l)
  | [], _, _ => by simp [insAsc, Asc]
  | y :: ys, hw, hd => by
    have hy : y.WF := hw y List.mem_cons_self
    have hd' := List.pairwise_cons.mp hd
    simp only [insAsc]
    by_cases hle : Frac.le x y = true
    · simp only [hle, if_true]
      have hxy := (Frac.le_iff hx hy).mp hle
      refine List.pairwise_cons.mpr ⟨?_, hd⟩
      intro z hz
      rcases List.mem_cons.mp hz with rfl | hz'
      · exact hxy
      · exact le_trans hxy (hd'.1 z hz')
    · have hf : Frac.le x y = false := by simpa using hle
      simp only [hf, Bool.false_eq_true, if_false]
      have hyx := le_of_lt ((le_false_iff hx hy).mp hf)
      have ih := insAsc_asc hx ys (fun z hz => hw z (List.mem_cons_of_mem _ hz)) hd'.2
      refine List.pairwise_cons.mpr ⟨?_, ih⟩
      intro z hz
      rcases List.mem_cons.mp ((insAsc_perm x ys).subset hz) with rfl | hz'
      · exact hyx
      · exact hd'.1 z hz'

theorem sortAsc_asc : ∀ l : List Frac, (∀ y ∈ l, y.WF) → Asc (sortAsc l)
  | [], _ => by simp [sortAsc, Asc]
  | x :: xs, hw => by
    have ih := sortAsc_asc xs (fun z hz => hw z (List.mem_cons_of_mem _ hz))
    simp only [sortAsc, List.foldr_cons] at ih ⊢
    exact insAsc_asc (hw x List.mem_cons_self) _
      (fun z hz => hw z (List.mem_cons_of_mem _ ((sortAsc_perm xs).subset hz))) ih

/-! ## consecutive differences and their running sums -/

/-- running sums of a list of increments, starting from `acc` -/
def runSum (acc : ℚ) : List ℚ → List ℚ
  | [] => []
  | x :: xs => (acc + x) :: runSum (acc + x) xs

theorem diffsFrom_wf (p : Frac) : ∀ l : List Frac, ∀ y ∈ diffsFrom p l, y.WF
  | [], y, h => by simp [diffsFrom] at h
  | a :: as, y, h => by
    simp only [diffsFrom, List.mem_cons] at h
    rcases h with rfl | h
    · exact Frac.sub_wf _ _
    · exact diffsFrom_wf a as y h

theorem runSum_diffsFrom : ∀ (l : List Frac) (p : Frac), p.WF → (∀ y ∈ l, y.WF) →
    runSum p.toRat ((diffsFrom p l).map Frac.toRat) = l.map Frac.toRat
  | [], _, _, _ => by simp [diffsFrom, runSum]
  | a :: as, p, hp, hl => by
    have ha : a.WF := hl a List.mem_cons_self
    have ih := runSum_diffsFrom as a ha (fun y hy => hl y (List.mem_cons_of_mem _ hy))
    simp only [diffsFrom, List.map_cons, runSum, Frac.sub_toRat ha hp]
    rw [show p.toRat + (a.toRat - p.toRat) = a.toRat by ring, ih]

theorem diffsFrom_nonneg : ∀ (l : List Frac) (p : Frac), p.WF → (∀ y ∈ l, y.WF) → Asc (p :: l) →
    ∀ y ∈ diffsFrom p l, 0 ≤ y.toRat
  | [], _, _, _, _, y, h => by simp [diffsFrom] at h
  | a :: as, p, hp, hl, hasc, y, h => by
    have ha : a.WF := hl a List.mem_cons_self
    have hc := List.pairwise_cons.mp hasc
    simp only [diffsFrom, List.mem_cons] at h
    rcases h with rfl | h
    · rw [Frac.sub_toRat ha hp]; have := hc.1 a List.mem_cons_self; linarith
    · exact diffsFrom_nonneg as a ha (fun z hz => hl z (List.mem_cons_of_mem _ hz)) hc.2 y h

/-! ## `Node.distance_from_tip` = the forced-maximum age -/

mutual
theorem tipMax_eq_page : ∀ t : T, tipMax t = page maxList t
  | .node _ _ _ _ [] => by simp [tipMax, page]
  | .node _ _ _ _ (c :: cs) => by
    simp only [tipMax, page]
    rw [tipMax_eq_page c, tipMaxSums_eq cs]
theorem tipMaxSums_eq : ∀ cs : List T, tipMaxSums cs = pageSums maxList cs
  | [] => by simp [tipMaxSums, pageSums]
  | c :: cs => by
    simp only [tipMaxSums, pageSums]
    rw [tipMax_eq_page c, tipMaxSums_eq cs]
end

/-! ## `Node.distance_from_root` against the root distances -/

mutual
theorem distRoot_eq_depths : ∀ (t : T) (anc : Frac) (plen : Option Frac) (l : Frac) (r : List (Nat × Bool × Frac)),
    t.len = some l → depths (l + anc) t = .ok r →
    distRoot false anc plen t = r.map (fun p => (p.1, Except.ok p.2.2))
  | .node i x l0 s cs, anc, plen, l, r, hl, h => by
    simp only [T.len] at hl
    subst hl
    simp only [depths] at h
    cases hc : depthsL (l + anc) cs with
    | error e => rw [hc] at h; cases h
    | ok rc =>
      rw [hc] at h
      simp only [Except.ok.injEq] at h
      subst h
      have ih := distRootL_eq_depths cs (l + anc) (some l) rc hc
      simp [distRoot, olen, ih]
theorem distRootL_eq_depths : ∀ (cs : List T) (anc : Frac) (plen : Option Frac) (r : List (Nat × Bool × Frac)),
    depthsL anc cs = .ok r → distRootL anc plen cs = r.map (fun p => (p.1, Except.ok p.2.2))
  | [], anc, plen, r, h => by
    simp only [depthsL, Except.ok.injEq] at h
    subst h; simp [distRootL]
  | c :: cs, anc, plen, r, h => by
    simp only [depthsL] at h
    cases hl : c.len with
    | none => rw [hl] at h; cases h
    | some l =>
      rw [hl] at h
      simp only at h
      cases h1 : depths (l + anc) c with
      | error e => rw [h1] at h; cases h
      | ok r1 =>
        rw [h1] at h
        simp only at h
        cases h2 : depthsL anc cs with
        | error e => rw [h2] at h; cases h
        | ok r2 =>
          rw [h2] at h
          simp only [Except.ok.injEq] at h
          subst h
          simp [distRootL, distRoot_eq_depths c anc plen l r1 hl h1, distRootL_eq_depths cs anc plen r2 h2]
end

/-- an `Except` value read in ℚ -/
def exRat : Except Err Frac → Option ℚ
  | .ok f => some f.toRat
  | .error _ => none

end DendroModel.C17.Aux
