import DendroModel.Theory.C08Base
/-! C08 — `Node.extract_subtree` (fold over the post-order sequence with a memo) computes the induced subtree
when node ids are distinct (node identity in the code). -/
namespace DendroModel.C08.Aux
open DendroModel

/-- the leaf predicate of an extraction: the filter, when it is applied to leaves at all -/
def leafKeep (fl : Bool) (acc : Acc) : Acc := fun i x => !fl || acc i x

theorem id_mem_ids (t : T) : t.id ∈ ids t := by
  obtain ⟨i, x, l, s, cs⟩ := t; simp [ids, T.id]

/-- the loop body on a node other than the seed, once the clones of its children are in the memo -/
theorem exStep_inner (acc : Acc) (fl sup : Bool) (rootId : Nat) (st : ExSt) (i : Nat) (x l s) (cs : List T)
    (hi : i ≠ rootId) (hk : kidsOf st.memo cs = restrictL (leafKeep fl acc) sup cs) :
    exStep acc fl false sup rootId st (.node i x l s cs) =
      match restrict (leafKeep fl acc) sup (.node i x l s cs) with
      | some r => { st with memo := (i, r) :: st.memo }
      | none => st := by
  have hne : (i == rootId) = false := by simpa using hi
  cases cs with
  | nil =>
    simp only [exStep, kidsOf, restrict, leafKeep, List.isEmpty_nil, if_true]
    cases fl <;> by_cases ha : acc i x = true <;> simp [hne, ha]
  | cons c cs' =>
    simp only [exStep, restrict, hk, List.isEmpty_cons, Bool.false_eq_true, if_false, Bool.false_and]
    generalize restrictL (leafKeep fl acc) sup (c :: cs') = ks
    match ks, sup with
    | [], _ => simp [hne]
    | [k], true => simp [hne]
    | [k], false => simp [hne]
    | k1 :: k2 :: r, true => simp [hne]
    | k1 :: k2 :: r, false => simp [hne]

theorem lookup_cons_ne {j i : Nat} (h : j ≠ i) (r : T) (m : List (Nat × T)) :
    List.lookup j ((i, r) :: m) = List.lookup j m := by
  have : (j == i) = false := by simpa using h
  simp [List.lookup, this]

theorem lookup_cons_self (i : Nat) (r : T) (m : List (Nat × T)) : List.lookup i ((i, r) :: m) = some r := by
  simp [List.lookup]

mutual
theorem fold_post (acc : Acc) (fl sup : Bool) (rootId : Nat) : ∀ (t : T) (st : ExSt),
    rootId ∉ ids t → (ids t).Nodup → (∀ j ∈ ids t, List.lookup j st.memo = none) →
    ((post t).foldl (exStep acc fl false sup rootId) st).start = st.start ∧
    ((post t).foldl (exStep acc fl false sup rootId) st).seedDeleted = st.seedDeleted ∧
    (∀ j, j ∉ ids t → List.lookup j ((post t).foldl (exStep acc fl false sup rootId) st).memo = List.lookup j st.memo) ∧
    List.lookup t.id ((post t).foldl (exStep acc fl false sup rootId) st).memo = restrict (leafKeep fl acc) sup t
  | .node i x l s cs, st, hroot, hnd, hnone => by
      simp only [ids, List.mem_cons, not_or, List.nodup_cons] at hroot hnd
      obtain ⟨h1, h2, h3, h4⟩ := fold_postL acc fl sup rootId cs st hroot.2 hnd.2
        (fun j hj => hnone j (by simp [ids, hj]))
      have hstep := exStep_inner acc fl sup rootId ((postL cs).foldl (exStep acc fl false sup rootId) st) i x l s cs
        (fun h => hroot.1 h.symm) h4
      simp only [post, List.foldl_append, List.foldl_cons, List.foldl_nil, hstep, T.id]
      have hi_none : List.lookup i ((postL cs).foldl (exStep acc fl false sup rootId) st).memo = none := by
        rw [h3 i hnd.1]; exact hnone i (by simp [ids])
      cases hr : restrict (leafKeep fl acc) sup (.node i x l s cs) with
      | none =>
        refine ⟨h1, h2, fun j hj => ?_, hi_none⟩
        simp only [ids, List.mem_cons, not_or] at hj
        exact h3 j hj.2
      | some r =>
        refine ⟨h1, h2, fun j hj => ?_, lookup_cons_self i r _⟩
        simp only [ids, List.mem_cons, not_or] at hj
        show List.lookup j ((i, r) :: _) = _
        rw [lookup_cons_ne hj.1]; exact h3 j hj.2
theorem fold_postL (acc : Acc) (fl sup : Bool) (rootId : Nat) : ∀ (cs : List T) (st : ExSt),
    rootId ∉ idsL cs → (idsL cs).Nodup → (∀ j ∈ idsL cs, List.lookup j st.memo = none) →
    ((postL cs).foldl (exStep acc fl false sup rootId) st).start = st.start ∧
    ((postL cs).foldl (exStep acc fl false sup rootId) st).seedDeleted = st.seedDeleted ∧
    (∀ j, j ∉ idsL cs → List.lookup j ((postL cs).foldl (exStep acc fl false sup rootId) st).memo = List.lookup j st.memo) ∧
    kidsOf ((postL cs).foldl (exStep acc fl false sup rootId) st).memo cs = restrictL (leafKeep fl acc) sup cs
  | [], st, _, _, _ => by simp [postL, kidsOf, restrictL]
  | c :: cs, st, hroot, hnd, hnone => by
      simp only [idsL, List.mem_append, not_or] at hroot
      simp only [idsL] at hnd
      have hdis := List.nodup_append.mp hnd
      obtain ⟨a1, a2, a3, a4⟩ := fold_post acc fl sup rootId c st hroot.1 hdis.1
        (fun j hj => hnone j (by simp [idsL, hj]))
      have hnone2 : ∀ j ∈ idsL cs, List.lookup j ((post c).foldl (exStep acc fl false sup rootId) st).memo = none := by
        intro j hj
        have hjc : j ∉ ids c := fun hc => hdis.2.2 j hc j hj rfl
        rw [a3 j hjc]; exact hnone j (by simp [idsL, hj])
      obtain ⟨b1, b2, b3, b4⟩ := fold_postL acc fl sup rootId cs _ hroot.2 hdis.2.1 hnone2
      simp only [postL, List.foldl_append]
      refine ⟨b1.trans a1, b2.trans a2, fun j hj => ?_, ?_⟩
      · simp only [idsL, List.mem_append, not_or] at hj
        rw [b3 j hj.2, a3 j hj.1]
      · have hcid : c.id ∉ idsL cs := fun hc => hdis.2.2 c.id (id_mem_ids c) c.id hc rfl
        simp only [kidsOf, restrictL, b3 c.id hcid, a4, b4]
end

theorem extract_eq (acc : Acc) (fl sup : Bool) (t : T) (hnd : (ids t).Nodup) :
    (extractTree acc fl false sup t).toOption = restrict (leafKeep fl acc) sup t := by
  obtain ⟨i, x, l, s, cs⟩ := t
  simp only [ids, List.nodup_cons] at hnd
  obtain ⟨h1, h2, _, h4⟩ := fold_postL acc fl sup i cs {} hnd.1 hnd.2 (fun j _ => by simp [List.lookup])
  simp only [extractTree, post, List.foldl_append, List.foldl_cons, List.foldl_nil, T.id]
  generalize (postL cs).foldl (exStep acc fl false sup i) {} = st1 at h1 h2 h4
  have hs : st1.start = none := h1
  have hd : st1.seedDeleted = false := h2
  cases cs with
  | nil =>
    simp only [exStep, kidsOf, restrict, leafKeep, List.isEmpty_nil, if_true]
    cases fl <;> by_cases ha : acc i x = true <;> simp [hs, hd, ha, ExRes.toOption]
  | cons c cs' =>
    simp only [exStep, restrict, h4, List.isEmpty_cons, Bool.false_eq_true, if_false, Bool.false_and]
    generalize restrictL (leafKeep fl acc) sup (c :: cs') = ks
    match ks, sup with
    | [], _ => simp [hs, hd, ExRes.toOption]
    | [k], true => simp [hs, hd, ExRes.toOption]
    | [k], false => simp [hs, hd, ExRes.toOption]
    | k1 :: k2 :: r, true => simp [hs, hd, ExRes.toOption]
    | k1 :: k2 :: r, false => simp [hs, hd, ExRes.toOption]

/-- the same with the exception kind: `ValueError` when the seed is a leaf the filter rejects, `SeedNodeDeletionException`
    when the seed has children and none of them survives -/
theorem extract_full (acc : Acc) (fl sup : Bool) (t : T) (hnd : (ids t).Nodup) :
    extractTree acc fl false sup t =
      match restrict (leafKeep fl acc) sup t with
      | some r => .ok r
      | none => if t.cs.isEmpty then .valueError else .seedDeletion := by
  obtain ⟨i, x, l, s, cs⟩ := t
  simp only [ids, List.nodup_cons] at hnd
  obtain ⟨h1, h2, _, h4⟩ := fold_postL acc fl sup i cs {} hnd.1 hnd.2 (fun j _ => by simp [List.lookup])
  simp only [extractTree, post, List.foldl_append, List.foldl_cons, List.foldl_nil, T.id]
  generalize (postL cs).foldl (exStep acc fl false sup i) {} = st1 at h1 h2 h4
  have hs : st1.start = none := h1
  have hd : st1.seedDeleted = false := h2
  cases cs with
  | nil =>
    simp only [exStep, kidsOf, restrict, leafKeep, List.isEmpty_nil, if_true, T.cs]
    cases fl <;> by_cases ha : acc i x = true <;> simp [hs, hd, ha]
  | cons c cs' =>
    simp only [exStep, restrict, h4, List.isEmpty_cons, Bool.false_eq_true, if_false, Bool.false_and, T.cs]
    generalize restrictL (leafKeep fl acc) sup (c :: cs') = ks
    match ks, sup with
    | [], _ => simp [hs, hd]
    | [k], true => simp [hs, hd]
    | [k], false => simp [hs, hd]
    | k1 :: k2 :: r, true => simp [hs, hd]
    | k1 :: k2 :: r, false => simp [hs, hd]

end DendroModel.C08.Aux
