import DendroModel.Model.C06
import Mathlib.Tactic.Linarith
/-! C06 helper lemmas: order facts on the un-normalised fractions `Q` (positive denominators) and the specification of
the first-strict-maximum scan `argmaxFrom`. -/
namespace DendroModel.C06.Aux
open DendroModel DendroModel.C06

theorem lt_trans_le {a m y : Q} (ha : 0 < a.den) (hm : 0 < m.den) (hy : 0 < y.den)
    (h1 : Q.lt m a = false) (h2 : Q.lt m y = true) : Q.lt a y = true := by
  simp only [Q.lt, decide_eq_false_iff_not, not_lt, decide_eq_true_eq] at h1 h2 ⊢
  have ha' : (0 : Int) < a.den := by exact_mod_cast ha
  have hm' : (0 : Int) < m.den := by exact_mod_cast hm
  have hy' : (0 : Int) < y.den := by exact_mod_cast hy
  by_contra hc
  rw [not_lt] at hc
  have e1 := mul_le_mul_of_nonneg_right h1 hy'.le
  have e2 := mul_lt_mul_of_pos_right h2 ha'
  have e3 := mul_le_mul_of_nonneg_right hc hm'.le
  nlinarith [e1, e2, e3]

theorem lt_asymm' {a y : Q} (h : Q.lt a y = true) : Q.lt y a = false := by
  simp only [Q.lt, decide_eq_false_iff_not, not_lt, decide_eq_true_eq] at h ⊢
  omega

/-- accumulator invariant of the scan: `(j, m)` is the first maximum of the prefix `pre` -/
def Best (pre : List Q) (j : Nat) (m : Q) : Prop :=
  pre[j]? = some m ∧ (∀ (k : Nat) (x : Q), pre[k]? = some x → Q.lt m x = false) ∧ (∀ (k : Nat) (x : Q), k < j → pre[k]? = some x → Q.lt x m = true)

theorem argmaxFrom_spec : ∀ (l pre : List Q) (j : Nat) (m : Q), (∀ q ∈ pre ++ l, 0 < q.den) → Best pre j m →
    ∃ j' m', argmaxFrom l pre.length (some (j, m)) = some (j', m') ∧ Best (pre ++ l) j' m'
  | [], pre, j, m, _, hb => ⟨j, m, rfl, by simpa using hb⟩
  | y :: r, pre, j, m, hpos, hb => by
    obtain ⟨h1, h2, h3⟩ := hb
    have hlen : (pre ++ [y]).length = pre.length + 1 := by simp
    have hposr : ∀ q ∈ (pre ++ [y]) ++ r, 0 < q.den := by simpa using hpos
    have hjlt : j < pre.length := by
      by_contra hc
      rw [List.getElem?_eq_none (by omega)] at h1; cases h1
    simp only [argmaxFrom]
    by_cases hlt : Q.lt m y = true
    · simp only [hlt, if_true]
      have hb' : Best (pre ++ [y]) pre.length y := by
        refine ⟨by simp, ?_, ?_⟩
        · intro k x hk
          by_cases hkl : k < pre.length
          · rw [List.getElem?_append_left hkl] at hk
            have hx := lt_trans_le (hpos x (by simp [List.mem_of_getElem? hk])) (hpos m (by simp [List.mem_of_getElem? h1]))
              (hpos y (by simp)) (h2 k x hk) hlt
            exact lt_asymm' hx
          · have : k = pre.length ∨ pre.length < k := by omega
            rcases this with rfl | hgt
            · simp at hk; subst hk
              simp [Q.lt]
            · rw [List.getElem?_eq_none (by simp; omega)] at hk; cases hk
        · intro k x hk hx
          rw [List.getElem?_append_left hk] at hx
          exact lt_trans_le (hpos x (by simp [List.mem_of_getElem? hx])) (hpos m (by simp [List.mem_of_getElem? h1]))
            (hpos y (by simp)) (h2 k x hx) hlt
      have := argmaxFrom_spec r (pre ++ [y]) pre.length y hposr hb'
      rw [hlen] at this
      simpa using this
    · have hlt' : Q.lt m y = false := by simpa using hlt
      simp only [hlt', Bool.false_eq_true, if_false]
      have hb' : Best (pre ++ [y]) j m := by
        refine ⟨by rw [List.getElem?_append_left hjlt]; exact h1, ?_, ?_⟩
        · intro k x hk
          by_cases hkl : k < pre.length
          · rw [List.getElem?_append_left hkl] at hk; exact h2 k x hk
          · have : k = pre.length ∨ pre.length < k := by omega
            rcases this with rfl | hgt
            · simp at hk; subst hk; exact hlt'
            · rw [List.getElem?_eq_none (by simp; omega)] at hk; cases hk
        · intro k x hk hx
          rw [List.getElem?_append_left (by omega)] at hx
          exact h3 k x hk hx
      have := argmaxFrom_spec r (pre ++ [y]) j m hposr hb'
      rw [hlen] at this
      simpa using this


theorem lt_irrefl' (a : Q) : Q.lt a a = false := by simp [Q.lt]

/-- the scan from nothing: the first maximum of a non-empty list of fractions with positive denominators -/
theorem argmax_spec (l : List Q) (hpos : ∀ q ∈ l, 0 < q.den) (hne : l ≠ []) :
    ∃ j m, argmaxFrom l 0 none = some (j, m) ∧ Best l j m := by
  cases l with
  | nil => exact absurd rfl hne
  | cons y r =>
    have hb : Best [y] 0 y := by
      refine ⟨by simp, ?_, ?_⟩
      · intro k x hk
        cases k with
        | zero => simp at hk; subst hk; exact lt_irrefl' _
        | succ k => simp at hk
      · intro k x hk; omega
    have := argmaxFrom_spec r [y] 0 y (by simpa using hpos) hb
    simpa [argmaxFrom] using this

end DendroModel.C06.Aux
