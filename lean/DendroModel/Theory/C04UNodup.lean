import DendroModel.Theory.C04Nodup
import DendroModel.Theory.C04Seed
/-! C04 — normalised (unrooted) splits of a well-formed unifurcation-free tree whose seed has at least three children are
pairwise distinct: two different clades are never complementary, because a third child of the seed lies outside both. -/
namespace DendroModel.Hier

/-- among at least three pairwise disjoint non-empty children there is one disjoint from any two given ones -/
theorem third_child {cs : List T} (hg : GoodL cs) (h3 : 3 ≤ cs.length) {c1 c2 : T} (h1 : c1 ∈ cs) (h2 : c2 ∈ cs) :
    ∃ c3 ∈ cs, mask c3 ≠ 0 ∧ mask c3 &&& mask c1 = 0 ∧ mask c3 &&& mask c2 = 0 := by
  match cs, hg, h3, h1, h2 with
  | x :: y :: z :: rest, hg, _, h1, h2 =>
    have hx : x ∈ x :: y :: z :: rest := by simp
    have hy : y ∈ x :: y :: z :: rest := by simp
    have hz : z ∈ x :: y :: z :: rest := by simp
    have h0 : ∀ c ∈ x :: y :: z :: rest, mask c ≠ 0 := fun c hc => (goodL_mem hg hc).2
    have dis : ∀ {c d : T}, c ∈ x :: y :: z :: rest → d ∈ x :: y :: z :: rest → c ≠ d → mask c &&& mask d = 0 := by
      intro c d hc hd hne
      by_contra hnz
      exact hne (goodL_eq_of_inter hg hc hd hnz)
    -- x, y, z are pairwise different (their masks are disjoint and non-empty)
    simp only [GoodL] at hg
    obtain ⟨_, hx0, hxd, _, hy0, hyd, _, hz0, _, _⟩ := hg
    have sub_y : bits (mask y) ⊆ bits (maskL (y :: z :: rest)) := bits_maskL_subset_of_mem (by simp)
    have sub_z : bits (mask z) ⊆ bits (maskL (y :: z :: rest)) := bits_maskL_subset_of_mem (by simp)
    have sub_z' : bits (mask z) ⊆ bits (maskL (z :: rest)) := bits_maskL_subset_of_mem (by simp)
    have hxy : x ≠ y := by
      intro e; subst e
      exact hx0 (eq_zero_of_sub_disj (le_refl _) sub_y hxd)
    have hxz : x ≠ z := by
      intro e; subst e
      exact hx0 (eq_zero_of_sub_disj (le_refl _) sub_z hxd)
    have hyz : y ≠ z := by
      intro e; subst e
      exact hy0 (eq_zero_of_sub_disj (le_refl _) sub_z' hyd)
    by_cases a1 : x = c1
    · by_cases b1 : y = c2
      · exact ⟨z, hz, h0 z hz, dis hz h1 (by rw [← a1]; exact hxz.symm), dis hz h2 (by rw [← b1]; exact hyz.symm)⟩
      · by_cases b2 : y = c1
        · exact absurd (a1.trans b2.symm) hxy
        · exact ⟨y, hy, h0 y hy, dis hy h1 b2, dis hy h2 b1⟩
    · by_cases a2 : x = c2
      · by_cases b1 : y = c1
        · exact ⟨z, hz, h0 z hz, dis hz h1 (by rw [← b1]; exact hyz.symm), dis hz h2 (by rw [← a2]; exact hxz.symm)⟩
        · by_cases b2 : y = c2
          · exact absurd (a2.trans b2.symm) hxy
          · exact ⟨y, hy, h0 y hy, dis hy h1 b1, dis hy h2 b2⟩
      · exact ⟨x, hx, h0 x hx, dis hx h1 a1, dis hx h2 a2⟩

/-- two clades of a well-formed tree whose seed has ≥ 3 children are never complementary within the tree's leafset -/
theorem no_complementary_clades {cs : List T} (hg : GoodL cs) (hn : NoUnifL cs) (h3 : 3 ≤ cs.length) {a b : Nat}
    (ha : a ∈ clades (.node cs)) (hb : b ∈ clades (.node cs)) (hc : bits b = bits (maskL cs) \ bits a) : False := by
  have hG : Good (.node cs) := by simpa [Good] using hg
  have hL0 : mask (.node cs) ≠ 0 := by
    match cs, hg, h3 with
    | c :: rest, hg, _ =>
      simp only [GoodL] at hg
      exact maskL_ne_zero_of_mem (List.mem_cons_self) hg.2.1
  have ha0 := clades_ne_zero _ hG hL0 a ha
  have hb0 := clades_ne_zero _ hG hL0 b hb
  have haL : bits a ⊆ bits (maskL cs) := by simpa [mask] using clades_sub _ a ha
  simp only [clades, List.mem_cons] at ha hb
  rcases ha with rfl | ha
  · apply hb0; apply bits_inj; rw [hc, bits_zero]; simp
  rcases hb with rfl | hb
  · apply ha0; apply bits_inj; rw [bits_zero]
    apply Set.eq_empty_of_forall_notMem
    intro i hi
    have : i ∈ bits (maskL cs) \ bits a := by rw [← hc]; exact haL hi
    exact this.2 hi
  obtain ⟨c1, hc1, ha1⟩ := (mem_cladesL cs a).mp ha
  obtain ⟨c2, hc2, hb2⟩ := (mem_cladesL cs b).mp hb
  obtain ⟨c3, hc3, h30, hd1, hd2⟩ := third_child hg h3 hc1 hc2
  apply h30
  apply bits_inj; rw [bits_zero]
  apply Set.eq_empty_of_forall_notMem
  intro i hi
  have hiL : i ∈ bits (maskL cs) := bits_maskL_subset_of_mem hc3 hi
  by_cases hia : i ∈ bits a
  · exact (Set.disjoint_left.mp ((and_eq_zero_iff _ _).mp hd1)) hi (clades_sub c1 a ha1 hia)
  · have hib : i ∈ bits b := by rw [hc]; exact ⟨hiL, hia⟩
    exact (Set.disjoint_left.mp ((and_eq_zero_iff _ _).mp hd2)) hi (clades_sub c2 b hb2 hib)

/-- **the normalised splits of a well-formed, unifurcation-free tree whose seed has at least three children are pairwise
    distinct**, whatever the normalisation mask `lo` -/
theorem nsplits_nodup (lo : Nat) {cs : List T} (hg : GoodL cs) (hn : NoUnifL cs) (h3 : 3 ≤ cs.length) :
    (nsplits lo (.node cs)).Nodup := by
  have hG : Good (.node cs) := by simpa [Good] using hg
  have hN : NoUnif (.node cs) := by simp only [NoUnif]; exact ⟨by omega, hn⟩
  unfold nsplits
  apply List.Nodup.map_on _ (clades_nodup _ hG hN)
  intro a ha b hb hab
  have haL : bits a ⊆ bits (maskL cs) := by simpa [mask] using clades_sub _ a ha
  have hbL : bits b ⊆ bits (maskL cs) := by simpa [mask] using clades_sub _ b hb
  have hand : ∀ {m : Nat}, bits m ⊆ bits (maskL cs) → m &&& maskL cs = m := fun h => (and_eq_left_iff _ _).mpr h
  unfold norm at hab
  have hmk : mask (T.node cs) = maskL cs := rfl
  rw [hmk] at hab
  by_cases h1 : a &&& lo ≠ 0 <;> by_cases h2 : b &&& lo ≠ 0
  · rw [if_pos h1, if_pos h2] at hab
    apply bits_inj
    have := congrArg bits hab
    rw [bits_sdiff, bits_sdiff] at this
    ext i
    constructor
    · intro hi
      by_contra hn'
      have : i ∈ bits (maskL cs) \ bits b := ⟨haL hi, hn'⟩
      rw [← ‹bits (maskL cs) \ bits a = bits (maskL cs) \ bits b›] at this
      exact this.2 hi
    · intro hi
      by_contra hn'
      have : i ∈ bits (maskL cs) \ bits a := ⟨hbL hi, hn'⟩
      rw [‹bits (maskL cs) \ bits a = bits (maskL cs) \ bits b›] at this
      exact this.2 hi
  · rw [if_pos h1, if_neg h2] at hab
    exfalso
    rw [hand hbL] at hab
    exact no_complementary_clades hg hn h3 ha hb (by rw [← hab, bits_sdiff])
  · rw [if_neg h1, if_pos h2] at hab
    exfalso
    rw [hand haL] at hab
    exact no_complementary_clades hg hn h3 hb ha (by rw [hab, bits_sdiff])
  · rw [if_neg h1, if_neg h2, hand haL, hand hbL] at hab
    exact hab

end DendroModel.Hier
