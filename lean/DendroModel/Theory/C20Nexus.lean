import DendroModel.Model.C20
/-! C20 — a small Hoare logic for the NEXUS reader model: `Post r Q` says that the result `r` is not the
`internal` marker and, when it is a value, satisfies `Q`.  With it every loop body of `Model/C20Nexus.lean` is shown to
consume input whenever it asks to continue, so that no `iter` guard can fire (`readNexus_post`). -/
namespace DendroModel.C20.Aux
open DendroModel DendroModel.C20

def Post {α : Type} (r : R α) (Q : α → Prop) : Prop :=
  (∀ w, r ≠ .error (.internal w)) ∧ ∀ a, r = .ok a → Q a

theorem Post.pure {α : Type} {a : α} {Q : α → Prop} (h : Q a) : Post (Pure.pure a : R α) Q :=
  ⟨fun w hw => (by cases hw), fun b hb => (by cases hb; exact h)⟩

theorem Post.ok {α : Type} {a : α} {Q : α → Prop} (h : Q a) : Post (Except.ok a : R α) Q :=
  ⟨fun w hw => (by cases hw), fun b hb => (by cases hb; exact h)⟩

theorem Post.perr {α : Type} {Q : α → Prop} (e : PErr) : Post (perr e : R α) Q :=
  ⟨fun w hw => (by unfold C20.perr at hw; cases hw), fun b hb => (by unfold C20.perr at hb; cases hb)⟩

theorem Post.bind {α β : Type} {x : R α} {g : α → R β} {Q1 : α → Prop} {Q2 : β → Prop}
    (hx : Post x Q1) (hg : ∀ a, Q1 a → Post (g a) Q2) : Post (x >>= g) Q2 := by
  cases hxx : x with
  | error e =>
    have e1 : (Except.error e >>= g : R β) = Except.error e := rfl
    rw [e1]
    refine ⟨fun w hw => ?_, fun b hb => (by cases hb)⟩
    cases hw
    exact hx.1 w hxx
  | ok a =>
    have e2 : (Except.ok a >>= g : R β) = g a := rfl
    rw [e2]
    exact hg a (hx.2 a hxx)

theorem Post.ite {α : Type} {c : Prop} [Decidable c] {a b : R α} {Q : α → Prop} (ha : Post a Q) (hb : Post b Q) :
    Post (if c then a else b) Q := by
  split <;> assumption

theorem Post.ite' {α : Type} {c : Prop} [Decidable c] {a b : R α} {Q : α → Prop} (ha : c → Post a Q) (hb : ¬ c → Post b Q) :
    Post (if c then a else b) Q := by
  split
  · exact ha ‹_›
  · exact hb ‹_›

theorem Post.mono {α : Type} {r : R α} {Q Q' : α → Prop} (h : Post r Q) (himp : ∀ a, Q a → Q' a) : Post r Q' :=
  ⟨h.1, fun a ha => himp a (h.2 a ha)⟩

/-- the postcondition of a loop body: no input is given back, and asking to continue costs input -/
def BodyQ (s : RS) (p : Bool × RS) : Prop :=
  p.2.rest.length ≤ s.rest.length ∧ (p.1 = true → p.2.rest.length < s.rest.length)

def LeQ (s : RS) (s' : RS) : Prop := s'.rest.length ≤ s.rest.length

/-- **the loop rule**: if every run of the body satisfies `BodyQ`, the loop neither reports `internal` nor gives input back -/
theorem iter_post (b : RS → R (Bool × RS)) (hb : ∀ s, Post (b s) (BodyQ s)) : ∀ s, Post (iter b s) (LeQ s) := by
  have key : ∀ (n : Nat) (s : RS), s.rest.length ≤ n → Post (iter b s) (LeQ s) := by
    intro n
    induction n with
    | zero =>
      intro s hl
      rw [iter]
      split
      · exact ⟨fun w hw => (by cases hw), fun a ha => (by cases ha)⟩
      split
      · rename_i e he
        refine ⟨fun w hw => ?_, fun a ha => (by cases ha)⟩
        cases hw
        exact (hb _).1 w he
      · rename_i s1 h1
        exact Post.ok ((hb _).2 _ h1).1
      · rename_i s1 h1
        have := ((hb _).2 _ h1).2 rfl
        simp only at this
        omega
    | succ n ih =>
      intro s hl
      rw [iter]
      split
      · exact ⟨fun w hw => (by cases hw), fun a ha => (by cases ha)⟩
      split
      · rename_i e he
        refine ⟨fun w hw => ?_, fun a ha => (by cases ha)⟩
        cases hw
        exact (hb _).1 w he
      · rename_i s1 h1
        exact Post.ok ((hb _).2 _ h1).1
      · rename_i s1 h1
        have hlt := ((hb _).2 _ h1).2 rfl
        simp only at hlt
        rw [if_pos hlt]
        refine Post.mono (ih s1 (by omega)) ?_
        intro a ha
        simp only [LeQ] at ha ⊢
        omega
  exact fun s => key s.rest.length s (Nat.le_refl _)

/-! ### the token primitives -/
theorem nextTok_post (s : RS) : Post (nextTok s) (fun p =>
    p.2.rest.length ≤ s.rest.length ∧ (p.1.isSome → p.2.rest.length < s.rest.length) ∧ (p.1 = none → p.2.rest = [])) := by
  unfold nextTok
  split
  · exact Post.ok (by simp)
  · exact Post.perr _
  · rename_i t q rest hn
    have := nextT_lt _ _ _ _ _ hn
    exact Post.ok (by simp; omega)

theorem requireTok_post (s : RS) : Post (requireTok s) (fun p => p.2.rest.length < s.rest.length) := by
  unfold requireTok
  split
  · exact Post.perr _
  · exact Post.perr _
  · rename_i t q rest hn
    have := nextT_lt _ _ _ _ _ hn
    exact Post.ok (by simpa using this)

theorem nextUcase_post (s : RS) : Post (nextUcase s) (fun p =>
    p.2.rest.length ≤ s.rest.length ∧ (p.1.isSome → p.2.rest.length < s.rest.length) ∧ (p.1 = none → p.2.rest = [])) := by
  unfold nextUcase
  refine Post.bind (nextTok_post s) ?_
  rintro ⟨t, s1⟩ h
  cases t with
  | none => exact Post.pure (by simpa using h)
  | some tt => exact Post.pure (by simpa using h)

theorem requireUcase_post (s : RS) : Post (requireUcase s) (fun p => p.2.rest.length < s.rest.length) := by
  unfold requireUcase
  refine Post.bind (requireTok_post s) ?_
  rintro ⟨t, s1⟩ h
  exact Post.pure (by simpa using h)

end DendroModel.C20.Aux

namespace DendroModel.C20.Aux
open DendroModel DendroModel.C20

/-- one monadic step whose specification is known: extended by `macro_rules` as functions are verified -/
syntax "pbind" : tactic
macro_rules | `(tactic| pbind) => `(tactic| refine Post.bind (nextTok_post _) ?_)
macro_rules | `(tactic| pbind) => `(tactic| refine Post.bind (nextUcase_post _) ?_)
macro_rules | `(tactic| pbind) => `(tactic| refine Post.bind (requireTok_post _) ?_)
macro_rules | `(tactic| pbind) => `(tactic| refine Post.bind (requireUcase_post _) ?_)

/-- bind with a known specification, then name nothing and normalise projections -/
macro "pb" : tactic => `(tactic| (pbind; intro p hp; (try (have hprod : p = (p.1, p.2) := rfl; clear hprod; rcases p with ⟨_, _⟩)); (try dsimp only at *)))

/-- close a leaf: an error, or a returned value whose postcondition is arithmetic over the collected facts -/
macro "pfin" : tactic => `(tactic| first
  | exact Post.perr _
  | (refine Post.pure ?_; (try simp only [BodyQ, LeQ]); (try dsimp only at *); omega)
  | (refine Post.pure ?_; (try simp only [BodyQ, LeQ]); (try dsimp only at *); exact ⟨by omega, fun _ => by omega⟩)
  | (refine Post.pure ?_; (try simp only [BodyQ, LeQ]); (try dsimp only at *); exact ⟨by omega, fun h => absurd h (by decide)⟩)
  | (refine Post.ok ?_; (try simp only [BodyQ, LeQ]); (try dsimp only at *); omega))

end DendroModel.C20.Aux
