import DendroModel.Theory.C10Copy
/-! C10 — `step` as a whole: shape lemmas and preservation of the world invariant. -/
namespace DendroModel.C10.Aux
open DendroModel DendroModel.C10

theorem step_bad {w : World} {op : Op} (h : op.refsOk w.labels.length = false) : step w op = (w, .bad) := by
  simp [step, h]

theorem step_ns {w : World} {op : Op} {n : Nat} (hr : op.refsOk w.labels.length = true) (hn : op.ns = some n) :
    step w op = match w.nss[n]? with
      | none => (w, .bad)
      | some s => stepNs w n s op := by
  cases op <;> simp [Op.ns] at hn <;> subst hn <;> simp only [step, hr, Op.ns] <;>
    (first | rfl | (simp only [Bool.not_true, Bool.false_eq_true, if_false]; split <;> rfl))

theorem step_copy (w : World) (n : Nat) : step w (.copy n) = match w.nss[n]? with
    | none => (w, .bad)
    | some s => ({ w with nss := w.nss ++ [s.copyCtor] }, .nat w.nss.length) := by
  rw [step_ns (n := n) rfl rfl]; cases w.nss[n]? <;> simp [stepNs]

theorem step_deep (w : World) (n : Nat) : step w (.deep n) = match w.nss[n]? with
    | none => (w, .bad)
    | some s => ({ labels := w.labels ++ s.taxa.map w.lab, nss := w.nss ++ [s.deepCopy w.labels.length] },
                 .nat w.nss.length) := by
  rw [step_ns (n := n) rfl rfl]; cases w.nss[n]? <;> simp [stepNs]

theorem step_mkns (w : World) (cs : Bool) (items : List Item) (hr : (Op.mkns cs items).refsOk w.labels.length = true) :
    step w (.mkns cs items) =
      ({ (ctorLoop w (NS.empty cs) items).1 with
          nss := (ctorLoop w (NS.empty cs) items).1.nss ++ [(ctorLoop w (NS.empty cs) items).2] },
       .nat (ctorLoop w (NS.empty cs) items).1.nss.length) := by
  simp [step, hr]

theorem step_copyKw (w : World) (n : Nat) (cs mu : Option Bool) : step w (.copyKw n cs mu) = match w.nss[n]? with
    | none => (w, .bad)
    | some s => if mu = some false ∧ s.taxa ≠ [] then (w, .err .immutable)
                else ({ w with nss := w.nss ++ [s.copyCtor] }, .nat w.nss.length) := by
  rw [step_ns (n := n) rfl rfl]; cases w.nss[n]? <;> simp [stepNs]

theorem step_mknsImm (w : World) (cs : Bool) (items : List Item) (hr : (Op.mknsImm cs items).refsOk w.labels.length = true) :
    step w (.mknsImm cs items) =
      if items = [] then ({ w with nss := w.nss ++ [{ NS.empty cs with mutable_ := false }] }, .nat w.nss.length)
      else (w, .err .immutable) := by
  simp [step, hr]

theorem inv_empty_imm (cs : Bool) : Inv { NS.empty cs with mutable_ := false } := by
  constructor <;> simp [NS.empty]

theorem step_upd (w : World) (op : Op) (ha : op.appends = false) :
    Upd ⟨op.isSetMut, op.grows, (step w op).1.labels.length⟩ w (step w op).1 := by
  cases hr : op.refsOk w.labels.length with
  | false => rw [step_bad hr]; exact upd_refl _ _
  | true =>
    cases hn : op.ns with
    | none =>
      cases op <;> simp [Op.ns] at hn
      · -- mk
        simp only [step, hr]
        exact upd_labels _ (by simp)
      · cases ha
      · -- relabel
        rename_i t l
        simp only [step]
        by_cases h : t < w.labels.length
        · simp only [hr, h]; exact upd_labels _ (by simp)
        · simp only [hr, h]; exact upd_refl _ _
      · cases ha
    | some n =>
      rw [step_ns hr hn]
      cases hs : w.nss[n]? with
      | none => exact upd_refl _ _
      | some s => exact stepNs_upd hs op hr ha _ (Nat.le_refl _)

theorem winv_of_upd {c : Cfg} {w w' : World} (hw : WInv w) (h : Upd c w w') (hb : c.bound = w'.labels.length) : WInv w' := by
  have key : ∀ s' ∈ w'.nss, ∃ s ∈ w.nss, Rel c s s' := by
    intro s' hs'
    obtain ⟨j, hj⟩ := List.mem_iff_getElem?.1 hs'
    have hlt : j < w.nss.length := by
      have := (List.getElem?_eq_some_iff.1 hj).1; rw [h.len] at this; exact this
    have hs : w.nss[j]? = some w.nss[j] := List.getElem?_eq_getElem hlt
    obtain ⟨s'', h1, h2⟩ := h.rel j _ hs
    rw [hj] at h1; cases h1
    exact ⟨_, List.getElem_mem hlt, h2⟩
  constructor
  · intro s' hs'
    obtain ⟨s, hs, r⟩ := key s' hs'
    exact rel_inv r (hw.ns s hs)
  · intro s' hs'
    obtain ⟨s, hs, r⟩ := key s' hs'
    rw [← hb]
    exact rel_fresh r (fun t ht => by have := hw.fresh s hs t ht; have := h.labels; omega)

theorem winv_append {w : World} (hw : WInv w) (ls : List String) (x : NS) (hl : w.labels.length ≤ ls.length)
    (hx : Inv x) (hf : ∀ t ∈ x.taxa, t < ls.length) : WInv { labels := ls, nss := w.nss ++ [x] } := by
  constructor
  · intro s hs
    rcases List.mem_append.1 hs with h | h
    · exact hw.ns s h
    · simp at h; subst h; exact hx
  · intro s hs t ht
    rcases List.mem_append.1 hs with h | h
    · have := hw.fresh s h t ht; simp; omega
    · simp at h; subst h; exact hf t ht

theorem winv_step {w : World} (hw : WInv w) (op : Op) : WInv (step w op).1 := by
  cases ha : op.appends with
  | false => exact winv_of_upd hw (step_upd w op ha) rfl
  | true =>
    cases op <;> simp [Op.appends] at ha
    · -- mkns
      rename_i cs items
      cases hr : (Op.mkns cs items).refsOk w.labels.length with
      | false => rw [step_bad hr]; exact hw
      | true =>
        rw [step_mkns w cs items hr]
        have hr' : items.all (Item.refOk w.labels.length) = true := by
          simpa [Op.refsOk] using hr
        obtain ⟨a, b, c, d⟩ := ctorLoop_spec items w (NS.empty cs) (inv_empty cs) (by simp [NS.empty]) hr'
        simp only
        rw [c]
        exact winv_append hw _ _ d a b
    · -- copy
      rename_i n
      rw [step_copy]
      cases hs : w.nss[n]? with
      | none => exact hw
      | some s =>
        have hmem : s ∈ w.nss := List.mem_of_getElem? hs
        simp only
        rw [copyCtor_eq (hw.ns s hmem)]
        exact winv_append hw _ _ (Nat.le_refl _) (hw.ns s hmem) (hw.fresh s hmem)
    · -- deep
      rename_i n
      rw [step_deep]
      cases hs : w.nss[n]? with
      | none => exact hw
      | some s =>
        have hmem : s ∈ w.nss := List.mem_of_getElem? hs
        simp only
        refine winv_append hw _ _ (by simp) (inv_deepCopy (hw.ns s hmem) _) ?_
        intro t ht
        have := deepCopy_fresh s w.labels.length t ht
        simp; omega
    · -- mknsImm
      rename_i cs items
      cases hr : (Op.mknsImm cs items).refsOk w.labels.length with
      | false => rw [step_bad hr]; exact hw
      | true =>
        rw [step_mknsImm w cs items hr]
        by_cases he : items = []
        · rw [if_pos he]
          exact winv_append hw _ _ (Nat.le_refl _) (inv_empty_imm cs) (by simp [NS.empty])
        · rw [if_neg he]; exact hw
    · -- copyKw
      rename_i n cs mu
      rw [step_copyKw]
      cases hs : w.nss[n]? with
      | none => exact hw
      | some s =>
        have hmem : s ∈ w.nss := List.mem_of_getElem? hs
        simp only
        by_cases hc : mu = some false ∧ s.taxa ≠ []
        · rw [if_pos hc]; exact hw
        · rw [if_neg hc, copyCtor_eq (hw.ns s hmem)]
          exact winv_append hw _ _ (Nat.le_refl _) (hw.ns s hmem) (hw.fresh s hmem)

/-- existing namespaces keep their position and change by primitive changes only (all operations) -/
theorem step_rel (w : World) (op : Op) (j : Nat) (s : NS) (hs : w.nss[j]? = some s) :
    ∃ s', (step w op).1.nss[j]? = some s' ∧ Rel ⟨op.isSetMut, op.grows, (step w op).1.labels.length⟩ s s' := by
  cases ha : op.appends with
  | false => exact (step_upd w op ha).rel j s hs
  | true =>
    have hlt : j < w.nss.length := (List.getElem?_eq_some_iff.1 hs).1
    cases op <;> simp [Op.appends] at ha
    · rename_i cs items
      cases hr : (Op.mkns cs items).refsOk w.labels.length with
      | false => rw [step_bad hr]; exact ⟨s, hs, .refl _⟩
      | true =>
        rw [step_mkns w cs items hr]
        have hr' : items.all (Item.refOk w.labels.length) = true := by
          simpa [Op.refsOk] using hr
        obtain ⟨_, _, c, _⟩ := ctorLoop_spec items w (NS.empty cs) (inv_empty cs) (by simp [NS.empty]) hr'
        refine ⟨s, ?_, .refl _⟩
        simp only; rw [c, List.getElem?_append_left hlt]; exact hs
    · rename_i n
      rw [step_copy]
      cases w.nss[n]? with
      | none => exact ⟨s, hs, .refl _⟩
      | some x => exact ⟨s, by simp only; rw [List.getElem?_append_left hlt]; exact hs, .refl _⟩
    · rename_i n
      rw [step_deep]
      cases w.nss[n]? with
      | none => exact ⟨s, hs, .refl _⟩
      | some x => exact ⟨s, by simp only; rw [List.getElem?_append_left hlt]; exact hs, .refl _⟩
    · rename_i cs items
      cases hr : (Op.mknsImm cs items).refsOk w.labels.length with
      | false => rw [step_bad hr]; exact ⟨s, hs, .refl _⟩
      | true =>
        rw [step_mknsImm w cs items hr]
        by_cases he : items = []
        · rw [if_pos he]; exact ⟨s, by simp only; rw [List.getElem?_append_left hlt]; exact hs, .refl _⟩
        · rw [if_neg he]; exact ⟨s, hs, .refl _⟩
    · rename_i n cs mu
      rw [step_copyKw]
      cases w.nss[n]? with
      | none => exact ⟨s, hs, .refl _⟩
      | some x =>
        simp only
        by_cases hc : mu = some false ∧ x.taxa ≠ []
        · rw [if_pos hc]; exact ⟨s, hs, .refl _⟩
        · rw [if_neg hc]; exact ⟨s, by simp only; rw [List.getElem?_append_left hlt]; exact hs, .refl _⟩

end DendroModel.C10.Aux
