import DendroModel.Theory.Build
/-! Prototype: the clades of one well-formed tree are pairwise laminar (nested or disjoint) — C05 b, C01 e -/
namespace DendroModel.Hier

theorem lam_of_sub {a b : Nat} (h : bits b ⊆ bits a) : Lam a b := Or.inr (Or.inl ((and_eq_left_iff b a).mpr h))
theorem lam_of_sub' {a b : Nat} (h : bits a ⊆ bits b) : Lam a b :=
  Or.inr (Or.inr (by rw [Nat.and_comm]; exact (and_eq_left_iff a b).mpr h))
theorem lam_of_disj {a b : Nat} (h : Disjoint (bits b) (bits a)) : Lam a b := Or.inl ((and_eq_zero_iff b a).mpr h)

mutual
theorem clades_laminar : ∀ t : T, Good t → ∀ x ∈ clades t, ∀ y ∈ clades t, Lam x y
  | .leaf i, _ => by
      intro x hx y hy
      simp [clades] at hx hy; subst hx; subst hy
      exact lam_of_sub (le_refl _)
  | .node cs, hg => by
      intro x hx y hy
      simp only [Good] at hg
      simp only [clades, List.mem_cons] at hx hy
      rcases hx with rfl | hx <;> rcases hy with rfl | hy
      · exact lam_of_sub (le_refl _)
      · exact lam_of_sub (cladesL_sub cs y hy)
      · exact lam_of_sub' (cladesL_sub cs x hx)
      · exact cladesL_laminar cs hg x hx y hy
theorem cladesL_laminar : ∀ cs : List T, GoodL cs → ∀ x ∈ cladesL cs, ∀ y ∈ cladesL cs, Lam x y
  | [], _ => by intro x hx; simp [cladesL] at hx
  | c :: cs, hg => by
      intro x hx y hy
      simp only [GoodL] at hg
      simp only [cladesL, List.mem_append] at hx hy
      have hdisj := (and_eq_zero_iff _ _).mp hg.2.2.1
      rcases hx with hx | hx <;> rcases hy with hy | hy
      · exact clades_laminar c hg.1 x hx y hy
      · apply lam_of_disj
        exact (hdisj.mono (clades_sub c x hx) (cladesL_sub cs y hy)).symm
      · apply lam_of_disj
        exact hdisj.mono (clades_sub c y hy) (cladesL_sub cs x hx)
      · exact cladesL_laminar cs hg.2.2.2 x hx y hy
end

end DendroModel.Hier
