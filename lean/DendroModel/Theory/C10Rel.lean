import DendroModel.Theory.C10Base
/-! C10 — every operation changes a namespace by a sequence of primitive changes (`Rel`); what such
sequences preserve. -/
namespace DendroModel.C10.Aux
open DendroModel DendroModel.C10

/-- what an operation is allowed to do to a namespace -/
structure Cfg where
  /-- `is_mutable` may be assigned -/
  am : Bool
  /-- members may be added (otherwise members may be removed) -/
  grow : Bool
  /-- only `Taxon` ids below this bound exist -/
  bound : Nat

inductive Prim (c : Cfg) : NS → NS → Prop
  | add {s s' : NS} (t : Nat) (hg : c.grow = true) (hb : t < c.bound) (h : s.addTaxon t = .ok s') : Prim c s s'
  | rm {s s' : NS} (t : Nat) (hg : c.grow = false) (h : s.removeTaxon t = .ok s') : Prim c s s'
  | clear {s : NS} (hg : c.grow = false) : Prim c s s.clear
  | perm {s : NS} (l : List Nat) (h : l.Perm s.taxa) : Prim c s { s with taxa := l }
  | memo {s : NS} (t i : Nat) (h : s.t2a.get t = some i) : Prim c s { s with bm := s.bm.put t (1 <<< i) }
  | setCs {s : NS} (b : Bool) : Prim c s { s with caseSens := b }
  | setMut {s : NS} (b : Bool) (h : c.am = true) : Prim c s { s with mutable_ := b }

inductive Rel (c : Cfg) : NS → NS → Prop
  | refl (s : NS) : Rel c s s
  | head {s s1 s2 : NS} : Prim c s s1 → Rel c s1 s2 → Rel c s s2

theorem Rel.single {c : Cfg} {s s' : NS} (h : Prim c s s') : Rel c s s' := .head h (.refl _)

theorem Rel.trans {c : Cfg} {s s1 s2 : NS} (h1 : Rel c s s1) (h2 : Rel c s1 s2) : Rel c s s2 := by
  induction h1 with
  | refl => exact h2
  | head p _ ih => exact .head p (ih h2)

def Cfg.le (c c' : Cfg) : Prop := (c.am = true → c'.am = true) ∧ c.grow = c'.grow ∧ c.bound ≤ c'.bound

theorem Prim.mono {c c' : Cfg} (hc : c.le c') {s s' : NS} (h : Prim c s s') : Prim c' s s' := by
  obtain ⟨h1, h2, h3⟩ := hc
  cases h with
  | add t hg hb h => exact .add t (h2 ▸ hg) (by omega) h
  | rm t hg h => exact .rm t (h2 ▸ hg) h
  | clear hg => exact .clear (h2 ▸ hg)
  | perm l h => exact .perm l h
  | memo t i h => exact .memo t i h
  | setCs b => exact .setCs b
  | setMut b h => exact .setMut b (h1 h)

theorem Rel.mono {c c' : Cfg} (hc : c.le c') {s s' : NS} (h : Rel c s s') : Rel c' s s' := by
  induction h with
  | refl => exact .refl _
  | head p _ ih => exact .head (p.mono hc) ih

/-! ### what primitive changes preserve -/

theorem prim_inv {c : Cfg} {s s' : NS} (h : Prim c s s') (hi : Inv s) : Inv s' := by
  cases h with
  | add t _ _ h => exact inv_addTaxon hi h
  | rm t _ h => exact inv_removeTaxon hi h
  | clear => exact inv_clear hi
  | perm l h => exact inv_perm hi h
  | memo t i h => exact inv_memo hi h
  | setCs b => exact inv_flags hi s.mutable_ b
  | setMut b _ => exact inv_flags hi b s.caseSens

theorem rel_inv {c : Cfg} {s s' : NS} (h : Rel c s s') (hi : Inv s) : Inv s' := by
  induction h with
  | refl => exact hi
  | head p _ ih => exact ih (prim_inv p hi)

theorem prim_count {c : Cfg} {s s' : NS} (h : Prim c s s') : s.count ≤ s'.count := by
  cases h with
  | add t _ _ h => rcases addTaxon_cases h with ⟨_, rfl⟩ | ⟨_, _, rfl⟩ <;> simp
  | rm t _ h => obtain ⟨_, rfl⟩ := removeTaxon_cases h; simp
  | clear => simp [NS.clear]
  | perm l h => simp
  | memo t i h => simp
  | setCs b => simp
  | setMut b _ => simp

theorem rel_count {c : Cfg} {s s' : NS} (h : Rel c s s') : s.count ≤ s'.count := by
  induction h with
  | refl => exact Nat.le_refl _
  | head p _ ih => exact Nat.le_trans (prim_count p) ih

theorem prim_fresh {c : Cfg} {s s' : NS} (h : Prim c s s') (hf : ∀ t ∈ s.taxa, t < c.bound) :
    ∀ t ∈ s'.taxa, t < c.bound := by
  cases h with
  | add t _ hb h =>
    rcases addTaxon_cases h with ⟨_, rfl⟩ | ⟨_, _, rfl⟩
    · exact hf
    · intro x hx; simp at hx; rcases hx with hx | rfl
      · exact hf x hx
      · exact hb
  | rm t _ h =>
    obtain ⟨_, rfl⟩ := removeTaxon_cases h
    intro x hx; simp at hx; exact hf x hx.1
  | clear => intro x hx; simp [NS.clear] at hx
  | perm l h => intro x hx; exact hf x (h.mem_iff.1 hx)
  | memo t i h => exact hf
  | setCs b => exact hf
  | setMut b _ => exact hf

theorem rel_fresh {c : Cfg} {s s' : NS} (h : Rel c s s') (hf : ∀ t ∈ s.taxa, t < c.bound) :
    ∀ t ∈ s'.taxa, t < c.bound := by
  induction h with
  | refl => exact hf
  | head p _ ih => exact ih (prim_fresh p hf)

/-- growing operations only extend the index map -/
theorem prim_grow {c : Cfg} {s s' : NS} (h : Prim c s s') (hg : c.grow = true) {t i : Nat}
    (ht : s.t2a.get t = some i) : s'.t2a.get t = some i := by
  cases h with
  | add t' _ _ h =>
    rcases addTaxon_cases h with ⟨_, rfl⟩ | ⟨hc, _, rfl⟩
    · exact ht
    · have : t ≠ t' := by
        intro e; subst e; simp [NS.contains, ht] at hc
      simp [get_put_ne _ _ _ _ this, ht]
  | rm t' hg' _ => rw [hg] at hg'; cases hg'
  | clear hg' => rw [hg] at hg'; cases hg'
  | perm l h => exact ht
  | memo t i h => exact ht
  | setCs b => exact ht
  | setMut b _ => exact ht

theorem rel_grow {c : Cfg} {s s' : NS} (h : Rel c s s') (hg : c.grow = true) {t i : Nat}
    (ht : s.t2a.get t = some i) : s'.t2a.get t = some i := by
  induction h with
  | refl => exact ht
  | head p _ ih => exact ih (prim_grow p hg ht)

/-- shrinking operations only restrict the index map -/
theorem prim_shrink {c : Cfg} {s s' : NS} (h : Prim c s s') (hg : c.grow = false) {t i : Nat}
    (ht : s'.t2a.get t = some i) : s.t2a.get t = some i := by
  cases h with
  | add t' hg' _ _ => rw [hg] at hg'; cases hg'
  | rm t' _ h => obtain ⟨_, rfl⟩ := removeTaxon_cases h; exact get_erase_some _ _ _ _ ht
  | clear => simp [NS.clear] at ht
  | perm l h => exact ht
  | memo t i h => exact ht
  | setCs b => exact ht
  | setMut b _ => exact ht

theorem rel_shrink {c : Cfg} {s s' : NS} (h : Rel c s s') (hg : c.grow = false) {t i : Nat}
    (ht : s'.t2a.get t = some i) : s.t2a.get t = some i := by
  induction h with
  | refl => exact ht
  | head p _ ih => exact prim_shrink p hg (ih ht)

/-- an index in the new map is the old one of the same taxon, or was never handed out before -/
theorem prim_new_idx {c : Cfg} {s s' : NS} (h : Prim c s s') {t i : Nat} (ht : s'.t2a.get t = some i) :
    s.t2a.get t = some i ∨ s.count ≤ i := by
  cases h with
  | add t' _ _ h =>
    rcases addTaxon_cases h with ⟨_, rfl⟩ | ⟨_, _, rfl⟩
    · exact Or.inl ht
    · by_cases e : t = t'
      · subst e; simp [get_put_self] at ht; right; omega
      · simp only [get_put_ne _ _ _ _ e] at ht; exact Or.inl ht
  | rm t' _ h => obtain ⟨_, rfl⟩ := removeTaxon_cases h; exact Or.inl (get_erase_some _ _ _ _ ht)
  | clear => simp [NS.clear] at ht
  | perm l h => exact Or.inl ht
  | memo t i h => exact Or.inl ht
  | setCs b => exact Or.inl ht
  | setMut b _ => exact Or.inl ht

theorem rel_new_idx {c : Cfg} {s s' : NS} (h : Rel c s s') {t i : Nat} (ht : s'.t2a.get t = some i) :
    s.t2a.get t = some i ∨ s.count ≤ i := by
  induction h with
  | refl => exact Or.inl ht
  | head p r ih =>
    rcases ih ht with h1 | h1
    · rcases prim_new_idx p h1 with h2 | h2
      · exact Or.inl h2
      · exact Or.inr h2
    · exact Or.inr (Nat.le_trans (prim_count p) h1)

/-- an index below the counter is never bound to another taxon -/
theorem prim_a2t {c : Cfg} {s s' : NS} (h : Prim c s s') {i t : Nat} (hi : i < s.count)
    (ht : s'.a2t.get i = some t) : s.a2t.get i = some t := by
  cases h with
  | add t' _ _ h =>
    rcases addTaxon_cases h with ⟨_, rfl⟩ | ⟨_, _, rfl⟩
    · exact ht
    · have : i ≠ s.count := by omega
      simpa only [get_put_ne _ _ _ _ this] using ht
  | rm t' _ h =>
    obtain ⟨_, rfl⟩ := removeTaxon_cases h
    simp only at ht
    cases hh : s.t2a.get t' with
    | none => simpa [hh] using ht
    | some j => rw [hh] at ht; exact get_erase_some _ _ _ _ ht
  | clear => simp [NS.clear] at ht
  | perm l h => exact ht
  | memo t i h => exact ht
  | setCs b => exact ht
  | setMut b _ => exact ht

theorem rel_a2t {c : Cfg} {s s' : NS} (h : Rel c s s') {i t : Nat} (hi : i < s.count)
    (ht : s'.a2t.get i = some t) : s.a2t.get i = some t := by
  induction h with
  | refl => exact ht
  | head p r ih => exact prim_a2t p hi (ih (Nat.lt_of_lt_of_le hi (prim_count p)) ht)

theorem prim_immutable {c : Cfg} {s s' : NS} (h : Prim c s s') (ha : c.am = false) (hm : s.mutable_ = false) :
    s'.mutable_ = false ∧ ∀ t ∈ s'.taxa, t ∈ s.taxa := by
  cases h with
  | add t _ _ h =>
    rcases addTaxon_cases h with ⟨_, rfl⟩ | ⟨_, hmm, _⟩
    · exact ⟨hm, fun _ h => h⟩
    · rw [hm] at hmm; cases hmm
  | rm t _ h =>
    obtain ⟨_, rfl⟩ := removeTaxon_cases h
    exact ⟨hm, fun x hx => by simp at hx; exact hx.1⟩
  | clear => exact ⟨hm, fun x hx => by simp [NS.clear] at hx⟩
  | perm l h => exact ⟨hm, fun x hx => h.mem_iff.1 hx⟩
  | memo t i h => exact ⟨hm, fun _ h => h⟩
  | setCs b => exact ⟨hm, fun _ h => h⟩
  | setMut b h => rw [ha] at h; cases h

theorem rel_immutable {c : Cfg} {s s' : NS} (h : Rel c s s') (ha : c.am = false) (hm : s.mutable_ = false) :
    s'.mutable_ = false ∧ ∀ t ∈ s'.taxa, t ∈ s.taxa := by
  induction h with
  | refl => exact ⟨hm, fun _ h => h⟩
  | head p r ih =>
    obtain ⟨h1, h2⟩ := prim_immutable p ha hm
    obtain ⟨h3, h4⟩ := ih h1
    exact ⟨h3, fun t ht => h2 t (h4 t ht)⟩

/-! ### the loops of the class are sequences of primitive changes -/

theorem addTaxa_rel {c : Cfg} (hg : c.grow = true) : ∀ (ts : List Nat) (s : NS), (∀ t ∈ ts, t < c.bound) →
    Rel c s (s.addTaxa ts).1 := by
  intro ts
  induction ts with
  | nil => intro s _; exact .refl _
  | cons t ts ih =>
    intro s hb
    unfold NS.addTaxa
    cases h : s.addTaxon t with
    | ok s' =>
      simp only
      exact .head (.add t hg (hb t (by simp)) h) (ih s' (fun x hx => hb x (by simp [hx])))
    | error e => exact .refl _

theorem removeAll_rel {c : Cfg} (hg : c.grow = false) : ∀ (ts : List Nat) (s : NS), Rel c s (s.removeAll ts).1 := by
  intro ts
  induction ts with
  | nil => intro s; exact .refl _
  | cons t ts ih =>
    intro s
    unfold NS.removeAll
    cases h : s.removeTaxon t with
    | ok s' => simp only; exact .head (.rm t hg h) (ih s')
    | error e => exact .refl _

theorem taxonBitmask_rel {c : Cfg} (s : NS) (t : Nat) : Rel c s (s.taxonBitmask t).1 := by
  unfold NS.taxonBitmask
  cases h1 : s.bm.get t with
  | some m => exact .refl _
  | none =>
    cases h2 : s.t2a.get t with
    | none => exact .refl _
    | some i => exact .single (.memo t i h2)

theorem taxaBitmask_rel {c : Cfg} : ∀ (ts : List Nat) (s : NS) (acc : Nat), Rel c s (s.taxaBitmask ts acc).1 := by
  intro ts
  induction ts with
  | nil => intro s acc; exact .refl _
  | cons t ts ih =>
    intro s acc
    unfold NS.taxaBitmask
    have := taxonBitmask_rel (c := c) s t
    rcases h : s.taxonBitmask t with ⟨s', r⟩
    rw [h] at this
    cases r with
    | ok m => exact this.trans (ih s' _)
    | error e => exact this

theorem nwkLoop_rel {c : Cfg} (split : Nat) : ∀ (zs : List (Nat × String)) (s : NS) (l r : List String),
    Rel c s (nwkLoop s split zs l r).1 := by
  intro zs
  induction zs with
  | nil => intro s l r; exact .refl _
  | cons z zs ih =>
    intro s l r
    obtain ⟨t, lb⟩ := z
    unfold nwkLoop
    have := taxonBitmask_rel (c := c) s t
    rcases h : s.taxonBitmask t with ⟨s', res⟩
    rw [h] at this
    cases res with
    | ok m =>
      simp only
      split
      · exact this.trans (ih s' _ _)
      · exact this.trans (ih s' _ _)
    | error e => exact this

theorem newick_rel {c : Cfg} (s : NS) (lab : Nat → String) (m : Nat) (ps qu : Bool) :
    Rel c s (s.newick lab m ps qu).1 := by
  unfold NS.newick
  simp only
  split
  · exact .refl _
  · exact nwkLoop_rel _ _ _ _ _

theorem insertBy_perm (lab : Nat → String) (rev : Bool) (x : Nat) (l : List Nat) :
    (insertBy lab rev x l).Perm (x :: l) := by
  induction l with
  | nil => exact List.Perm.refl _
  | cons y ys ih =>
    unfold insertBy
    by_cases h : (if rev then lab y ≤ lab x else lab x ≤ lab y)
    · rw [if_pos h]
    · rw [if_neg h]; exact (List.Perm.cons y ih).trans (List.Perm.swap x y ys)

theorem sortBy_perm (lab : Nat → String) (rev : Bool) (l : List Nat) : (sortBy lab rev l).Perm l := by
  induction l with
  | nil => exact List.Perm.refl _
  | cons x xs ih =>
    simp only [sortBy, List.foldr_cons]
    exact (insertBy_perm lab rev x _).trans (List.Perm.cons x ih)

end DendroModel.C10.Aux
