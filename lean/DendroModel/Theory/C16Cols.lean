import DendroModel.Theory.C16Machine
/-! C16 theory, part 4: character by character, the accumulating recursion `accB` is Fitch's count of that character
times its weight; the total is the sum over characters. -/
namespace DendroModel.C16

/-- character `c` of a tree of rows -/
def col (c : Nat) (bv : BV) : B := bv.map (fun row => row.getD c 0)

/-- `sumTo n f = f 0 + … + f (n-1)` -/
def sumTo : Nat → (Nat → Nat) → Nat
  | 0, _ => 0
  | n + 1, f => f 0 + sumTo n (fun c => f (c + 1))

namespace Aux

theorem sumTo_le : ∀ (n : Nat) (f g : Nat → Nat), (∀ c, c < n → f c ≤ g c) → sumTo n f ≤ sumTo n g
  | 0, _, _, _ => by simp [sumTo]
  | n + 1, f, g, h => by
    have h0 := h 0 (by omega)
    have ih := sumTo_le n (fun c => f (c + 1)) (fun c => g (c + 1)) (fun c hc => h (c + 1) (by omega))
    simp only [sumTo]; omega

theorem sumTo_congr : ∀ (n : Nat) (f g : Nat → Nat), (∀ c, c < n → f c = g c) → sumTo n f = sumTo n g
  | 0, _, _, _ => by simp [sumTo]
  | n + 1, f, g, h => by
    have h0 := h 0 (by omega)
    have ih := sumTo_congr n (fun c => f (c + 1)) (fun c => g (c + 1)) (fun c hc => h (c + 1) (by omega))
    simp only [sumTo]; omega

theorem sumL_eq_sumTo : ∀ l : List Nat, sumL l = sumTo l.length (fun c => l.getD c 0)
  | [] => by simp [sumL, sumTo]
  | x :: xs => by
    simp only [sumL, List.length_cons, sumTo, sumL_eq_sumTo xs]
    simp

theorem ext_getD : ∀ (n : Nat) (l₁ l₂ : List Nat), l₁.length = n → l₂.length = n →
    (∀ c, c < n → l₁.getD c 0 = l₂.getD c 0) → l₁ = l₂
  | 0, [], [], _, _, _ => rfl
  | n + 1, x :: xs, y :: ys, h1, h2, h => by
    have h0 := h 0 (by omega)
    simp at h0
    have ih := ext_getD n xs ys (by simpa using h1) (by simpa using h2)
      (fun c hc => by have := h (c + 1) (by omega); simpa using this)
    rw [h0, ih]
  | 0, _ :: _, _, h1, _, _ => by simp at h1
  | 0, [], _ :: _, _, h2, _ => by simp at h2
  | n + 1, [], _, h1, _, _ => by simp at h1
  | n + 1, _ :: _, [], _, h2, _ => by simp at h2

theorem pairLoop_spec : ∀ (n : Nat) (ws : List Nat) (l r : Row), n ≤ ws.length → l.length = n → r.length = n →
    (pairLoop ws l r).1.length = n ∧ (pairLoop ws l r).2.length = n ∧
    ∀ c, c < n → (pairLoop ws l r).1.getD c 0 = (comb (l.getD c 0) (r.getD c 0)).1 ∧
                 (pairLoop ws l r).2.getD c 0 = ws.getD c 0 * (comb (l.getD c 0) (r.getD c 0)).2
  | 0, ws, [], [], _, _, _ => by simp [pairLoop]
  | n + 1, w :: ws, a :: l, b :: r, h1, h2, h3 => by
    have ih := pairLoop_spec n ws l r (by simp at h1; omega) (by simpa using h2) (by simpa using h3)
    refine ⟨by simp [pairLoop, ih.1], by simp [pairLoop, ih.2.1], ?_⟩
    intro c hc
    cases c with
    | zero => simp [pairLoop]
    | succ c =>
      have := ih.2.2 c (by omega)
      simpa [pairLoop] using this
  | 0, _, _ :: _, _, _, h, _ => by simp at h
  | 0, _, [], _ :: _, _, _, h => by simp at h
  | n + 1, [], _, _, h, _, _ => by simp at h
  | n + 1, _ :: _, [], _, _, h, _ => by simp at h
  | n + 1, _ :: _, _ :: _, [], _, _, h => by simp at h

theorem addL_spec : ∀ (n : Nat) (x y : List Nat), x.length = n → y.length = n →
    (addL x y).length = n ∧ sumL (addL x y) = sumL x + sumL y ∧
    ∀ c, c < n → (addL x y).getD c 0 = x.getD c 0 + y.getD c 0
  | 0, [], [], _, _ => by simp [addL, sumL]
  | n + 1, a :: x, b :: y, h1, h2 => by
    have ih := addL_spec n x y (by simpa using h1) (by simpa using h2)
    refine ⟨by simp [addL, ih.1], by simp only [addL, sumL, ih.2.1]; omega, ?_⟩
    intro c hc
    cases c with
    | zero => simp [addL]
    | succ c =>
      have := ih.2.2 c (by omega)
      simpa [addL] using this
  | 0, _ :: _, _, h, _ => by simp at h
  | 0, [], _ :: _, _, h => by simp at h
  | n + 1, [], _, h, _ => by simp at h
  | n + 1, _ :: _, [], _, h => by simp at h

theorem accB_spec (ws : List Nat) (n : Nat) (hws : n ≤ ws.length) :
    ∀ bv : BV, bv.All (fun row => row.length = n) → ∀ (sc : Nat) (bc : List Nat), bc.length = n →
      (accB ws bv sc bc).1.length = n ∧ (accB ws bv sc bc).2.2.length = n ∧
      (accB ws bv sc bc).2.1 + sumL bc = sc + sumL (accB ws bv sc bc).2.2 ∧
      ∀ c, c < n →
        (accB ws bv sc bc).1.getD c 0 = (fitch (col c bv)).1 ∧
        (accB ws bv sc bc).2.2.getD c 0 = bc.getD c 0 + ws.getD c 0 * (fitch (col c bv)).2 := by
  intro bv
  induction bv with
  | leaf row =>
    intro h sc bc hbc
    refine ⟨h, hbc, by simp [accB], ?_⟩
    intro c _
    simp [accB, col, Bt.map, fitch]
  | node l r ihl ihr =>
    intro h sc bc hbc
    obtain ⟨l1, l2, l3, l4⟩ := ihl h.1 sc bc hbc
    obtain ⟨r1, r2, r3, r4⟩ := ihr h.2 (accB ws l sc bc).2.1 (accB ws l sc bc).2.2 l2
    obtain ⟨p1, p2, p3⟩ := pairLoop_spec n ws (accB ws l sc bc).1
      (accB ws r (accB ws l sc bc).2.1 (accB ws l sc bc).2.2).1 hws l1 r1
    obtain ⟨a1, a2, a3⟩ := addL_spec n (accB ws r (accB ws l sc bc).2.1 (accB ws l sc bc).2.2).2.2
      (pairLoop ws (accB ws l sc bc).1 (accB ws r (accB ws l sc bc).2.1 (accB ws l sc bc).2.2).1).2 r2 p2
    refine ⟨by simpa [accB] using p1, by simpa [accB] using a1, ?_, ?_⟩
    · simp only [accB, a2]; omega
    · intro c hc
      have ⟨hl1, hl2⟩ := l4 c hc
      have ⟨hr1, hr2⟩ := r4 c hc
      have ⟨hp1, hp2⟩ := p3 c hc
      have ha := a3 c hc
      constructor
      · simp only [accB, col, Bt.map, fitch] at hl1 hr1 ⊢
        rw [hp1, hl1, hr1]
      · simp only [accB, col, Bt.map, fitch] at hl1 hr1 hl2 hr2 ⊢
        rw [ha, hp2, hr2, hl2, hl1, hr1, Nat.mul_add, Nat.mul_add]
        omega


theorem shortHit_false : ∀ (n : Nat) (ws : List Nat) (l r : Row), n ≤ ws.length → l.length = n → r.length = n →
    shortHit ws l r = false
  | 0, ws, [], [], _, _, _ => by simp [shortHit]
  | n + 1, w :: ws, a :: l, b :: r, h1, h2, h3 => by
    have ih := shortHit_false n ws l r (by simp at h1; omega) (by simpa using h2) (by simpa using h3)
    simp [shortHit, ih]
  | 0, _, _ :: _, _, _, h, _ => by simp at h
  | 0, _, [], _ :: _, _, _, h => by simp at h
  | n + 1, [], _, _, h, _, _ => by simp at h
  | n + 1, _ :: _, [], _, _, h, _ => by simp at h
  | n + 1, _ :: _, _ :: _, [], _, _, h => by simp at h

/-- on a viewed (bifurcating, fully covered) tree the general recursion succeeds and is `accB` -/
theorem accT_view {m : Matrix} {ws : List Nat} {n : Nat} (hws : n ≤ ws.length) {t : T} {bv : BV} (hv : View m t bv) :
    bv.All (fun row => row.length = n) → ∀ (sc : Nat) (bc : List Nat), bc.length = n →
      accT m ws t sc bc = .ok (accB ws bv sc bc) := by
  induction hv with
  | @leaf i x l s row h =>
    intro _ sc bc _
    simp [accT, accTL, nodeStep, h, accB]
  | @node i x l s a b ba bb hva hvb iha ihb =>
    intro hr sc bc hbc
    have ea := iha hr.1 sc bc hbc
    obtain ⟨l1, l2, _, _⟩ := accB_spec ws n hws ba hr.1 sc bc hbc
    have eb := ihb hr.2 (accB ws ba sc bc).2.1 (accB ws ba sc bc).2.2 l2
    obtain ⟨r1, _, _, _⟩ := accB_spec ws n hws bb hr.2 (accB ws ba sc bc).2.1 (accB ws ba sc bc).2.2 l2
    simp only [accT, accTL, ea, eb, nodeStep, foldRows, shortHit_false n ws _ _ hws l1 r1, accB]
    simp

/-- character by character, `t` behaves as Fitch on the columns of `bv` (with the accumulators threaded through) -/
def SpecT (m : Matrix) (ws : List Nat) (n : Nat) (t : T) (bv : BV) : Prop :=
  ∀ (sc : Nat) (bc : List Nat), bc.length = n → ∃ row sc' bc',
    accT m ws t sc bc = .ok (row, sc', bc') ∧ row.length = n ∧ bc'.length = n ∧
    sc' + sumL bc = sc + sumL bc' ∧
    ∀ c, c < n → row.getD c 0 = (fitch (col c bv)).1 ∧
                 bc'.getD c 0 = bc.getD c 0 + ws.getD c 0 * (fitch (col c bv)).2

theorem spec_view {m : Matrix} {ws : List Nat} {n : Nat} (hws : n ≤ ws.length) {t : T} {bv : BV} (hv : View m t bv)
    (hr : bv.All (fun row => row.length = n)) : SpecT m ws n t bv := by
  intro sc bc hbc
  obtain ⟨e1, e2, e3, e4⟩ := accB_spec ws n hws bv hr sc bc hbc
  exact ⟨_, _, _, accT_view hws hv hr sc bc hbc, e1, e2, e3, e4⟩

/-- the usual unrooted form: a basal trifurcation `[a, b, c]` behaves as the bifurcating tree `((a, b), c)` -/
theorem spec_tri {m : Matrix} {ws : List Nat} {n : Nat} (hws : n ≤ ws.length) {a b c : T} {ba bb bcv : BV}
    (hva : View m a ba) (hvb : View m b bb) (hvc : View m c bcv)
    (hra : ba.All (fun row => row.length = n)) (hrb : bb.All (fun row => row.length = n))
    (hrc : bcv.All (fun row => row.length = n))
    (i : Nat) (x : Option Nat) (l : Option Frac) (s : Option String) :
    SpecT m ws n (.node i x l s [a, b, c]) (.node (.node ba bb) bcv) := by
  intro sc bc hbc
  obtain ⟨ra, sa, ca, ea, la1, la2, la3, la4⟩ := spec_view hws hva hra sc bc hbc
  obtain ⟨rb, sb, cb, eb, lb1, lb2, lb3, lb4⟩ := spec_view hws hvb hrb sa ca la2
  obtain ⟨rc, s3, c3, ec, lc1, lc2, lc3, lc4⟩ := spec_view hws hvc hrc sb cb lb2
  obtain ⟨p1, p2, p3⟩ := pairLoop_spec n ws ra rb hws la1 lb1
  obtain ⟨a1, a2, a3⟩ := addL_spec n c3 (pairLoop ws ra rb).2 lc2 p2
  obtain ⟨q1, q2, q3⟩ := pairLoop_spec n ws (pairLoop ws ra rb).1 rc hws p1 lc1
  obtain ⟨b1, b2, b3⟩ := addL_spec n (addL c3 (pairLoop ws ra rb).2) (pairLoop ws (pairLoop ws ra rb).1 rc).2 a1 q2
  refine ⟨(pairLoop ws (pairLoop ws ra rb).1 rc).1,
    s3 + sumL (pairLoop ws ra rb).2 + sumL (pairLoop ws (pairLoop ws ra rb).1 rc).2,
    addL (addL c3 (pairLoop ws ra rb).2) (pairLoop ws (pairLoop ws ra rb).1 rc).2, ?_, q1, b1, ?_, ?_⟩
  · simp only [accT, accTL, ea, eb, ec, nodeStep, foldRows, shortHit_false n ws _ _ hws la1 lb1,
      shortHit_false n ws _ _ hws p1 lc1]
    simp
  · rw [b2, a2]; omega
  · intro k hk
    have ⟨ha1, ha2⟩ := la4 k hk
    have ⟨hb1, hb2⟩ := lb4 k hk
    have ⟨hc1, hc2⟩ := lc4 k hk
    have ⟨hp1, hp2⟩ := p3 k hk
    have ⟨hq1, hq2⟩ := q3 k hk
    constructor
    · simp only [col, Bt.map, fitch] at ha1 hb1 hc1 ⊢
      rw [hq1, hp1, ha1, hb1, hc1]
    · simp only [col, Bt.map, fitch] at ha1 hb1 hc1 ha2 hb2 hc2 ⊢
      rw [b3 k hk, a3 k hk, hq2, hp2, hp1, hc2, hb2, ha2, ha1, hb1, hc1]
      simp only [Nat.mul_add]
      omega

end Aux
end DendroModel.C16
