import DendroModel.Theory.C20Nexus
/-! C20 — the budget of loop rounds of the NEXUS reader model.

`iter` takes one unit of `RS.fuel` for every round of every loop (also the last round of a loop) and ends the read with
the marker `Stop.fuel` when none is left.  This file is a second Hoare logic, for that marker: `FPost r Q` says that `r`
is not `Stop.fuel` and, when it is a value, satisfies `Q`.  A function `f` of the reader gets a pair of constants
`(a, b)`: started with at least `a·|unread input| + b` units it does not run out, and it uses at most
`a·(characters it consumes) + b` of them (`FQ a b`).  The loop rule `iter_fuel` turns a body with constants `(a, b)`
into a loop with constants `(a + b + 1, b + 1)`; no progress argument is needed here because `iter` itself refuses
(with the other marker, `internal`, shown unreachable in `Props/C20.lean`) to go round again without shorter input. -/
namespace DendroModel.C20.Aux
open DendroModel DendroModel.C20

def FPost {α : Type} (r : R α) (Q : α → Prop) : Prop :=
  r ≠ .error .fuel ∧ ∀ a, r = .ok a → Q a

theorem FPost.pure {α : Type} {a : α} {Q : α → Prop} (h : Q a) : FPost (Pure.pure a : R α) Q :=
  ⟨fun hw => (by cases hw), fun b hb => (by cases hb; exact h)⟩

theorem FPost.ok {α : Type} {a : α} {Q : α → Prop} (h : Q a) : FPost (Except.ok a : R α) Q :=
  ⟨fun hw => (by cases hw), fun b hb => (by cases hb; exact h)⟩

theorem FPost.perr {α : Type} {Q : α → Prop} (e : PErr) : FPost (perr e : R α) Q :=
  ⟨fun hw => (by unfold C20.perr at hw; cases hw), fun b hb => (by unfold C20.perr at hb; cases hb)⟩

theorem FPost.internal {α : Type} {Q : α → Prop} (w : String) : FPost (Except.error (Stop.internal w) : R α) Q :=
  ⟨fun hw => (by cases hw), fun b hb => (by cases hb)⟩

theorem FPost.bind {α β : Type} {x : R α} {g : α → R β} {Q1 : α → Prop} {Q2 : β → Prop}
    (hx : FPost x Q1) (hg : ∀ a, Q1 a → FPost (g a) Q2) : FPost (x >>= g) Q2 := by
  cases hxx : x with
  | error e =>
    have e1 : (Except.error e >>= g : R β) = Except.error e := rfl
    rw [e1]
    refine ⟨fun hw => ?_, fun b hb => (by cases hb)⟩
    cases hw
    exact hx.1 hxx
  | ok a =>
    have e2 : (Except.ok a >>= g : R β) = g a := rfl
    rw [e2]
    exact hg a (hx.2 a hxx)

theorem FPost.ite {α : Type} {c : Prop} [Decidable c] {a b : R α} {Q : α → Prop} (ha : FPost a Q) (hb : FPost b Q) :
    FPost (if c then a else b) Q := by
  split <;> assumption

theorem FPost.mono {α : Type} {r : R α} {Q Q' : α → Prop} (h : FPost r Q) (himp : ∀ a, Q a → Q' a) : FPost r Q' :=
  ⟨h.1, fun a ha => himp a (h.2 a ha)⟩

/-- `s'` was reached from `s` with at most `a·(consumed characters) + b` units of fuel, and no input was given back -/
def FQ (a b : Nat) (s s' : RS) : Prop :=
  s'.rest.length ≤ s.rest.length ∧ s.fuel + a * s'.rest.length ≤ s'.fuel + a * s.rest.length + b

/-- no loop in between: the fuel is untouched -/
def FE (s s' : RS) : Prop := s'.rest.length ≤ s.rest.length ∧ s'.fuel = s.fuel

/-- **the loop rule for the budget** -/
theorem iter_fuel (a b : Nat) (body : RS → R (Bool × RS))
    (hb : ∀ s, a * s.rest.length + b ≤ s.fuel → FPost (body s) (fun p => FQ a b s p.2)) :
    ∀ s, (a + b + 1) * s.rest.length + (b + 1) ≤ s.fuel → FPost (iter body s) (FQ (a + b + 1) (b + 1) s) := by
  have key : ∀ (n : Nat) (s : RS), s.rest.length ≤ n → (a + b + 1) * s.rest.length + (b + 1) ≤ s.fuel →
      FPost (iter body s) (FQ (a + b + 1) (b + 1) s) := by
    intro n
    induction n with
    | zero =>
      intro s hl hf
      have e1 : (a + b + 1) * s.rest.length = a * s.rest.length + b * s.rest.length + s.rest.length := by
        rw [Nat.add_mul, Nat.add_mul, Nat.one_mul]
      rw [iter]
      have hpos : s.fuel ≠ 0 := by omega
      rw [if_neg hpos]
      have hpre : a * ({ s with fuel := s.fuel - 1 } : RS).rest.length + b ≤ ({ s with fuel := s.fuel - 1 } : RS).fuel := by
        show a * s.rest.length + b ≤ s.fuel - 1
        omega
      have hB := hb _ hpre
      split
      · rename_i e he
        refine ⟨fun hw => ?_, fun x hx => (by cases hx)⟩
        cases hw
        exact hB.1 he
      · rename_i s1 h1
        have hq := hB.2 _ h1
        simp only [FQ] at hq
        refine FPost.ok ?_
        simp only [FQ]
        have e2 : (a + b + 1) * s1.rest.length = a * s1.rest.length + b * s1.rest.length + s1.rest.length := by
          rw [Nat.add_mul, Nat.add_mul, Nat.one_mul]
        have hbm : b * s1.rest.length ≤ b * s.rest.length := Nat.mul_le_mul_left b hq.1
        rw [e1, e2]
        refine ⟨hq.1, ?_⟩
        have := hq.2
        omega
      · rename_i s1 h1
        have hq := hB.2 _ h1
        simp only [FQ] at hq
        split
        · omega
        · exact FPost.internal _
    | succ n ih =>
      intro s hl hf
      have e1 : (a + b + 1) * s.rest.length = a * s.rest.length + b * s.rest.length + s.rest.length := by
        rw [Nat.add_mul, Nat.add_mul, Nat.one_mul]
      rw [iter]
      have hpos : s.fuel ≠ 0 := by omega
      rw [if_neg hpos]
      have hpre : a * ({ s with fuel := s.fuel - 1 } : RS).rest.length + b ≤ ({ s with fuel := s.fuel - 1 } : RS).fuel := by
        show a * s.rest.length + b ≤ s.fuel - 1
        omega
      have hB := hb _ hpre
      split
      · rename_i e he
        refine ⟨fun hw => ?_, fun x hx => (by cases hx)⟩
        cases hw
        exact hB.1 he
      · rename_i s1 h1
        have hq := hB.2 _ h1
        simp only [FQ] at hq
        refine FPost.ok ?_
        simp only [FQ]
        have e2 : (a + b + 1) * s1.rest.length = a * s1.rest.length + b * s1.rest.length + s1.rest.length := by
          rw [Nat.add_mul, Nat.add_mul, Nat.one_mul]
        have hbm : b * s1.rest.length ≤ b * s.rest.length := Nat.mul_le_mul_left b hq.1
        rw [e1, e2]
        refine ⟨hq.1, ?_⟩
        have := hq.2
        omega
      · rename_i s1 h1
        have hq := hB.2 _ h1
        simp only [FQ] at hq
        have hq2 : s.fuel - 1 + a * s1.rest.length ≤ s1.fuel + a * s.rest.length + b := hq.2
        split
        · rename_i hlt
          have e2 : (a + b + 1) * s1.rest.length = a * s1.rest.length + b * s1.rest.length + s1.rest.length := by
            rw [Nat.add_mul, Nat.add_mul, Nat.one_mul]
          -- one more character than `s1` has: `s1.rest.length + 1 ≤ s.rest.length`
          have ha1 : a * (s1.rest.length + 1) ≤ a * s.rest.length := Nat.mul_le_mul_left a hlt
          have hb1 : b * (s1.rest.length + 1) ≤ b * s.rest.length := Nat.mul_le_mul_left b hlt
          rw [Nat.mul_add, Nat.mul_one] at ha1 hb1
          have hpre1 : (a + b + 1) * s1.rest.length + (b + 1) ≤ s1.fuel := by
            rw [e2]; omega
          have hI := ih s1 (by omega) hpre1
          refine FPost.mono hI ?_
          intro s2 h2
          simp only [FQ] at h2 ⊢
          have e3 : (a + b + 1) * s2.rest.length = a * s2.rest.length + b * s2.rest.length + s2.rest.length := by
            rw [Nat.add_mul, Nat.add_mul, Nat.one_mul]
          rw [e2, e3] at h2
          rw [e1, e3]
          refine ⟨by omega, ?_⟩
          have := h2.2
          omega
        · exact FPost.internal _
  exact fun s hf => key s.rest.length s (Nat.le_refl _) hf

/-! ### the token primitives leave the fuel alone -/
theorem nextTok_fuel (s : RS) : FPost (nextTok s) (fun p => FE s p.2) := by
  unfold nextTok
  split
  · exact FPost.ok ⟨by simp, rfl⟩
  · exact FPost.perr _
  · rename_i t q rest hn
    have := nextT_lt _ _ _ _ _ hn
    exact FPost.ok ⟨by simp only; omega, rfl⟩

theorem requireTok_fuel (s : RS) : FPost (requireTok s) (fun p => FE s p.2) := by
  unfold requireTok
  split
  · exact FPost.perr _
  · exact FPost.perr _
  · rename_i t q rest hn
    have := nextT_lt _ _ _ _ _ hn
    exact FPost.ok ⟨by simp only; omega, rfl⟩

theorem nextUcase_fuel (s : RS) : FPost (nextUcase s) (fun p => FE s p.2) := by
  unfold nextUcase
  refine FPost.bind (nextTok_fuel s) ?_
  rintro ⟨t, s1⟩ h
  cases t with
  | none => exact FPost.pure h
  | some tt => exact FPost.pure h

theorem requireUcase_fuel (s : RS) : FPost (requireUcase s) (fun p => FE s p.2) := by
  unfold requireUcase
  refine FPost.bind (requireTok_fuel s) ?_
  rintro ⟨t, s1⟩ h
  exact FPost.pure h

/-! ### automation -/
theorem rest_ite (c : Prop) [Decidable c] (x y : RS) : (if c then x else y).rest = if c then x.rest else y.rest := by
  split <;> rfl
theorem fuel_ite (c : Prop) [Decidable c] (x y : RS) : (if c then x else y).fuel = if c then x.fuel else y.fuel := by
  split <;> rfl

theorem ite_bind_R {α β : Type} (c : Prop) [Decidable c] (a b : R α) (g : α → R β) :
    (if c then a else b) >>= g = if c then a >>= g else b >>= g := by
  split <;> rfl
theorem perr_bind_R {α β : Type} (e : PErr) (g : α → R β) : (perr e : R α) >>= g = perr e := rfl
theorem error_bind_R {α β : Type} (e : Stop) (g : α → R β) : (Except.error e : R α) >>= g = Except.error e := rfl

theorem ensureMapper_rest (s : RS) : (ensureMapper s).rest = s.rest := by unfold ensureMapper; split <;> rfl
theorem startTreeList_rest (s : RS) : (startTreeList s).rest = s.rest := by unfold startTreeList; split <;> rfl
theorem closeMapper_rest (s : RS) : (closeMapper s).rest = s.rest := by unfold closeMapper; split <;> rfl
theorem restoreNtax_rest (o : Option Nat) (s : RS) : (restoreNtax o s).rest = s.rest := by unfold restoreNtax; split <;> rfl
theorem ensureMapper_fuel (s : RS) : (ensureMapper s).fuel = s.fuel := by unfold ensureMapper; split <;> rfl
theorem startTreeList_fuel (s : RS) : (startTreeList s).fuel = s.fuel := by unfold startTreeList; split <;> rfl
theorem closeMapper_fuel (s : RS) : (closeMapper s).fuel = s.fuel := by unfold closeMapper; split <;> rfl
theorem restoreNtax_fuel (o : Option Nat) (s : RS) : (restoreNtax o s).fuel = s.fuel := by unfold restoreNtax; split <;> rfl

/-- arithmetic side condition over the facts collected so far -/
macro "fside" : tactic => `(tactic| (
  (try simp only [FQ, FE, rest_ite, fuel_ite, ensureMapper_rest, startTreeList_rest, closeMapper_rest, restoreNtax_rest,
    ensureMapper_fuel, startTreeList_fuel, closeMapper_fuel, restoreNtax_fuel] at *)
  (try dsimp only at *)
  (try simp only [ite_self] at *)
  (try (first
    | omega
    | trivial
    | (refine ⟨?_, ?_⟩ <;> first | omega | trivial)))
  done))

syntax "fbind" : tactic
syntax "ftail" : tactic
macro_rules | `(tactic| fbind) => `(tactic| refine FPost.bind (nextTok_fuel _) ?_)
macro_rules | `(tactic| fbind) => `(tactic| refine FPost.bind (nextUcase_fuel _) ?_)
macro_rules | `(tactic| fbind) => `(tactic| refine FPost.bind (requireTok_fuel _) ?_)
macro_rules | `(tactic| fbind) => `(tactic| refine FPost.bind (requireUcase_fuel _) ?_)

/-- bind with a known specification and destructure the result -/
macro "fb" : tactic => `(tactic| (fbind; intro p hp; (try (have hprod : p = (p.1, p.2) := rfl; clear hprod; rcases p with ⟨_, _⟩)); (try dsimp only at *)))

macro "ffin" : tactic => `(tactic| first
  | exact FPost.perr _
  | (refine FPost.pure ?_; fside)
  | (refine FPost.ok ?_; fside))

/-- one step of a proof that follows the code: a leaf, a bind with a known specification, or a case split -/
macro "fstep" : tactic => `(tactic| first
  | ffin
  | exact FPost.internal _
  | fb
  | ftail
  | simp only [bind_assoc, ite_bind_R, pure_bind, perr_bind_R, error_bind_R]
  | refine FPost.ite ?_ ?_
  | split)
macro "fauto" : tactic => `(tactic| repeat' fstep)

end DendroModel.C20.Aux
