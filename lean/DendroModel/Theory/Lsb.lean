import Mathlib.Data.Nat.Bitwise
import Mathlib.Tactic
namespace DendroModel.Lsb

def lsb (n : Nat) : Nat := (n &&& (n - 1)) ^^^ n

/-- 2^(number of trailing zeros) for n > 0 -/
def low : Nat → Nat
  | 0 => 0
  | n+1 => if (n+1) % 2 = 1 then 1 else 2 * low ((n+1)/2)
decreasing_by omega

theorem lsb_odd (k : Nat) : lsb (2*k+1) = 1 := by
  unfold lsb
  have h1 : 2*k+1-1 = 2*k := by omega
  rw [h1]
  apply Nat.eq_of_testBit_eq
  intro i
  rw [Nat.testBit_xor, Nat.testBit_and]
  cases i with
  | zero => simp [Nat.testBit_zero]
  | succ j =>
    have a : (2*k+1).testBit (j+1) = k.testBit j := by
      rw [Nat.testBit_succ]; congr 1; omega
    have b : (2*k).testBit (j+1) = k.testBit j := by
      rw [Nat.testBit_succ]; congr 1; omega
    rw [a, b]
    simp [Nat.testBit_succ]

theorem lsb_even (k : Nat) (hk : 0 < k) : lsb (2*k) = 2 * lsb k := by
  unfold lsb
  have h1 : 2*k-1 = 2*(k-1)+1 := by omega
  rw [h1]
  apply Nat.eq_of_testBit_eq
  intro i
  cases i with
  | zero => simp [Nat.testBit_zero, Nat.testBit_xor, Nat.testBit_and]
  | succ j =>
    rw [Nat.testBit_xor, Nat.testBit_and]
    have a : (2*k).testBit (j+1) = k.testBit j := by
      rw [Nat.testBit_succ]; congr 1; omega
    have b : (2*(k-1)+1).testBit (j+1) = (k-1).testBit j := by
      rw [Nat.testBit_succ]; congr 1; omega
    have c : (2 * (k &&& (k - 1) ^^^ k)).testBit (j+1) = (k &&& (k - 1) ^^^ k).testBit j := by
      rw [Nat.testBit_succ]; congr 1; omega
    rw [a, b, c, Nat.testBit_xor, Nat.testBit_and]

theorem lsb_eq_low : ∀ n, 0 < n → lsb n = low n := by
  intro n
  induction n using Nat.strong_induction_on with
  | _ n ih =>
    intro hn
    obtain ⟨m, rfl⟩ : ∃ m, n = m + 1 := ⟨n-1, by omega⟩
    rw [low]
    by_cases hodd : (m+1) % 2 = 1
    · simp only [hodd, if_true]
      have : m + 1 = 2 * ((m+1)/2) + 1 := by omega
      rw [this, lsb_odd]
    · simp only [hodd, if_false]
      have h2 : m + 1 = 2 * ((m+1)/2) := by omega
      have hk : 0 < (m+1)/2 := by omega
      conv_lhs => rw [h2]
      rw [lsb_even _ hk, ih ((m+1)/2) (by omega) hk]

end DendroModel.Lsb