import DendroModel.Model.C02
namespace DendroModel.C02

mutual
/-- the labels that become taxa, in the order the reader meets them (children first, left to right) -/
def taxaOf (ro : ROpts) : RT → List Str
  | .node l _ cs => taxaOfL ro cs ++
      (match l with
       | none => []
       | some w => if (if cs.isEmpty then ro.sleaf else ro.sint) then [] else [w])
def taxaOfL (ro : ROpts) : List RT → List Str
  | [] => []
  | c :: cs => taxaOf ro c ++ taxaOfL ro cs
end

mutual
/-- what the reader makes of a raw parse tree: each tag becomes the node label or the taxon label -/
def decode (ro : ROpts) : RT → NT
  | .node l e cs =>
    match l with
    | none => .node none none e (decodeL ro cs)
    | some w => if (if cs.isEmpty then ro.sleaf else ro.sint) then .node none (some w) e (decodeL ro cs)
                else .node (some w) none e (decodeL ro cs)
def decodeL (ro : ROpts) : List RT → List NT
  | [] => []
  | c :: cs => decode ro c :: decodeL ro cs
end

/-- pairwise distinct up to the case folding `cf` -/
def DistinctCI (cf : Char → Char) : List Str → Prop
  | [] => True
  | a :: r => (∀ b ∈ r, lowerWith cf a ≠ lowerWith cf b) ∧ DistinctCI cf r

namespace Aux

theorem distinct_append_left (cf : Char → Char) : ∀ (a b : List Str), DistinctCI cf (a ++ b) → DistinctCI cf a
  | [], _, _ => trivial
  | x :: a, b, h => ⟨fun y hy => h.1 y (by simp [hy]), distinct_append_left cf a b h.2⟩

theorem distinct_snoc_fresh (cf : Char → Char) : ∀ (a : List Str) (w : Str) (rest : List Str), DistinctCI cf (a ++ w :: rest) → ∀ x ∈ a, lowerWith cf x ≠ lowerWith cf w
  | [], _, _, _, x, hx => by simp at hx
  | y :: a, w, rest, h, x, hx => by
    simp at hx
    rcases hx with rfl | hx
    · exact h.1 w (by simp)
    · exact distinct_snoc_fresh cf a w rest h.2 x hx

theorem find_none (cf : Char → Char) (ns : List Str) (w : Str) (h : ∀ x ∈ ns, lowerWith cf x ≠ lowerWith cf w) :
    ns.find? (fun l => lowerWith cf l == lowerWith cf w) = none := by
  rw [List.find?_eq_none]
  intro x hx
  simpa using h x hx

theorem lookup_fresh (cf : Char → Char) (m : Mapper) (w : Str) (ht : m.tokmap = []) (hn : m.numbers = false)
    (h : ∀ x ∈ m.ns, lowerWith cf x ≠ lowerWith cf w) : lookup cf m w = ({ m with ns := m.ns ++ [w] }, w) := by
  unfold lookup
  rw [ht, find_none cf m.ns w h, hn]
  simp

mutual
theorem assign_fresh (ro : ROpts) : ∀ (r : RT) (m : Mapper) (seen : List Str),
    m.tokmap = [] → m.numbers = false → (∀ x ∈ seen, x ∈ m.ns) → DistinctCI ro.cf (m.ns ++ taxaOf ro r) →
    assign ro r ⟨m, seen⟩ = some (decode ro r, ⟨{ m with ns := m.ns ++ taxaOf ro r }, (taxaOf ro r).reverse ++ seen⟩)
  | .node l e cs, m, seen, ht, hn, hs, hd => by
    have hd' : DistinctCI ro.cf (m.ns ++ taxaOfL ro cs) := by
      simp only [taxaOf, ← List.append_assoc] at hd
      exact distinct_append_left ro.cf _ _ hd
    have hL := assignL_fresh ro cs m seen ht hn hs hd'
    rw [assign, hL]
    cases l with
    | none => simp [decode, taxaOf]
    | some w =>
      simp only [decode, taxaOf] at hd ⊢
      generalize (if cs.isEmpty then ro.sleaf else ro.sint) = fl at hd ⊢
      cases fl with
      | true => simp
      | false =>
        simp only [Bool.false_eq_true, if_false] at hd ⊢
        have hfresh : ∀ x ∈ m.ns ++ taxaOfL ro cs, lowerWith ro.cf x ≠ lowerWith ro.cf w := by
          rw [← List.append_assoc] at hd
          exact distinct_snoc_fresh ro.cf _ w [] hd
        have hlk := lookup_fresh ro.cf { m with ns := m.ns ++ taxaOfL ro cs } w ht hn hfresh
        have hnotseen : ((taxaOfL ro cs).reverse ++ seen).contains w = false := by
          cases hh : ((taxaOfL ro cs).reverse ++ seen).contains w with
          | false => rfl
          | true =>
            exfalso
            have hm : w ∈ (taxaOfL ro cs).reverse ++ seen := by simpa using hh
            have : w ∈ m.ns ++ taxaOfL ro cs := by
              simp only [List.mem_append, List.mem_reverse] at hm ⊢
              rcases hm with hm | hm
              · exact Or.inr hm
              · exact Or.inl (hs w hm)
            exact hfresh w this rfl
        simp only [hlk, hnotseen]
        simp
theorem assignL_fresh (ro : ROpts) : ∀ (cs : List RT) (m : Mapper) (seen : List Str),
    m.tokmap = [] → m.numbers = false → (∀ x ∈ seen, x ∈ m.ns) → DistinctCI ro.cf (m.ns ++ taxaOfL ro cs) →
    assignL ro cs ⟨m, seen⟩ = some (decodeL ro cs, ⟨{ m with ns := m.ns ++ taxaOfL ro cs }, (taxaOfL ro cs).reverse ++ seen⟩)
  | [], m, seen, _, _, _, _ => by simp [assignL, decodeL, taxaOfL]
  | c :: cs, m, seen, ht, hn, hs, hd => by
    have hd1 : DistinctCI ro.cf (m.ns ++ taxaOf ro c) := by
      simp only [taxaOfL, ← List.append_assoc] at hd
      exact distinct_append_left ro.cf _ _ hd
    have h1 := assign_fresh ro c m seen ht hn hs hd1
    have hs2 : ∀ x ∈ (taxaOf ro c).reverse ++ seen, x ∈ ({ m with ns := m.ns ++ taxaOf ro c } : Mapper).ns := by
      intro x hx
      simp only [List.mem_append, List.mem_reverse] at hx ⊢
      rcases hx with hx | hx
      · exact Or.inr hx
      · exact Or.inl (hs x hx)
    have hd2 : DistinctCI ro.cf (({ m with ns := m.ns ++ taxaOf ro c } : Mapper).ns ++ taxaOfL ro cs) := by
      simpa [taxaOfL, List.append_assoc] using hd
    have h2 := assignL_fresh ro cs { m with ns := m.ns ++ taxaOf ro c } ((taxaOf ro c).reverse ++ seen) ht hn hs2 hd2
    rw [assignL, h1]
    simp only [h2]
    simp [decodeL, taxaOfL, List.append_assoc]
end

end Aux
end DendroModel.C02
